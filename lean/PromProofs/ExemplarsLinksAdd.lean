import PromProofs.ExemplarsLinks
import PromProofs.ExemplarsOrd
/-
  `AddExemplar` preserves the per-series linked-list invariant `LinksWF`: removal of a slot from its
  chain (`removeEx_chain`), insertion of the slot at `nextIndex` by `link`, characterisation of
  `findIns`.
-/
namespace Prom.Exemplars

/-! ### projections of the primitive updates -/

@[simp] theorem getN_setIndex (r : Ring) (s : Nat) (v : Option IdxEntry) (j : Nat) :
    (r.setIndex s v).getN j = r.getN j := rfl
@[simp] theorem getN_modIndex (r : Ring) (s : Nat) (f : IdxEntry → IdxEntry) (j : Nat) :
    (r.modIndex s f).getN j = r.getN j := rfl
@[simp] theorem index_setNext (r : Ring) (i : Nat) (v : Option Nat) : (r.setNext i v).index = r.index := rfl
@[simp] theorem index_setPrev (r : Ring) (i : Nat) (v : Option Nat) : (r.setPrev i v).index = r.index := rfl
@[simp] theorem index_setRef (r : Ring) (i : Nat) (v : Option Nat) : (r.setRef i v).index = r.index := rfl
@[simp] theorem index_setEx (r : Ring) (i : Nat) (v : Ex) : (r.setEx i v).index = r.index := rfl
@[simp] theorem index_setIndex (r : Ring) (s : Nat) (v : Option IdxEntry) (k : Nat) :
    (r.setIndex s v).index k = if k = s then v else r.index k := rfl
@[simp] theorem index_modIndex (r : Ring) (s : Nat) (f : IdxEntry → IdxEntry) (k : Nat) :
    (r.modIndex s f).index k = if k = s then (r.index s).map f else r.index k := rfl

@[simp] theorem prev_setNext (r : Ring) (i j : Nat) (v : Option Nat) :
    ((r.setNext i v).getN j).prev = (r.getN j).prev := by
  simp only [Ring.setNext, getN_modN]; split <;> rfl
@[simp] theorem ref_setNext (r : Ring) (i j : Nat) (v : Option Nat) :
    ((r.setNext i v).getN j).ref = (r.getN j).ref := by
  simp only [Ring.setNext, getN_modN]; split <;> rfl
@[simp] theorem ex_setNext (r : Ring) (i j : Nat) (v : Option Nat) :
    ((r.setNext i v).getN j).ex = (r.getN j).ex := by
  simp only [Ring.setNext, getN_modN]; split <;> rfl
@[simp] theorem next_setNext (r : Ring) (i j : Nat) (v : Option Nat) :
    ((r.setNext i v).getN j).next = if j = i ∧ i < r.exs.length then v else (r.getN j).next := by
  simp only [Ring.setNext, getN_modN]; split <;> rfl

@[simp] theorem next_setPrev (r : Ring) (i j : Nat) (v : Option Nat) :
    ((r.setPrev i v).getN j).next = (r.getN j).next := by
  simp only [Ring.setPrev, getN_modN]; split <;> rfl
@[simp] theorem ref_setPrev (r : Ring) (i j : Nat) (v : Option Nat) :
    ((r.setPrev i v).getN j).ref = (r.getN j).ref := by
  simp only [Ring.setPrev, getN_modN]; split <;> rfl
@[simp] theorem ex_setPrev (r : Ring) (i j : Nat) (v : Option Nat) :
    ((r.setPrev i v).getN j).ex = (r.getN j).ex := by
  simp only [Ring.setPrev, getN_modN]; split <;> rfl
@[simp] theorem prev_setPrev (r : Ring) (i j : Nat) (v : Option Nat) :
    ((r.setPrev i v).getN j).prev = if j = i ∧ i < r.exs.length then v else (r.getN j).prev := by
  simp only [Ring.setPrev, getN_modN]; split <;> rfl

@[simp] theorem next_setRef (r : Ring) (i j : Nat) (v : Option Nat) :
    ((r.setRef i v).getN j).next = (r.getN j).next := by
  simp only [Ring.setRef, getN_modN]; split <;> rfl
@[simp] theorem prev_setRef (r : Ring) (i j : Nat) (v : Option Nat) :
    ((r.setRef i v).getN j).prev = (r.getN j).prev := by
  simp only [Ring.setRef, getN_modN]; split <;> rfl
@[simp] theorem ex_setRef (r : Ring) (i j : Nat) (v : Option Nat) :
    ((r.setRef i v).getN j).ex = (r.getN j).ex := by
  simp only [Ring.setRef, getN_modN]; split <;> rfl
@[simp] theorem ref_setRef (r : Ring) (i j : Nat) (v : Option Nat) :
    ((r.setRef i v).getN j).ref = if j = i ∧ i < r.exs.length then v else (r.getN j).ref := by
  simp only [Ring.setRef, getN_modN]; split <;> rfl

@[simp] theorem next_setEx (r : Ring) (i j : Nat) (v : Ex) :
    ((r.setEx i v).getN j).next = (r.getN j).next := by
  simp only [Ring.setEx, getN_modN]; split <;> rfl
@[simp] theorem prev_setEx (r : Ring) (i j : Nat) (v : Ex) :
    ((r.setEx i v).getN j).prev = (r.getN j).prev := by
  simp only [Ring.setEx, getN_modN]; split <;> rfl
@[simp] theorem ref_setEx (r : Ring) (i j : Nat) (v : Ex) :
    ((r.setEx i v).getN j).ref = (r.getN j).ref := by
  simp only [Ring.setEx, getN_modN]; split <;> rfl
@[simp] theorem ex_setEx (r : Ring) (i j : Nat) (v : Ex) :
    ((r.setEx i v).getN j).ex = if j = i ∧ i < r.exs.length then v else (r.getN j).ex := by
  simp only [Ring.setEx, getN_modN]; split <;> rfl

/-! ### segments -/

/-- `c` is doubly linked, the first element having `prev = p` and the last `next = q`. -/
def Seg (r : Ring) : Option Nat → List Nat → Option Nat → Prop
  | _, [], _ => True
  | p, a :: t, q => (r.getN a).prev = p ∧ (r.getN a).next = t.head?.or q ∧ Seg r (some a) t q

theorem linkedFrom_iff_seg (r : Ring) (p : Option Nat) (c : List Nat) :
    LinkedFrom r p c ↔ Seg r p c none := by
  induction c generalizing p with
  | nil => simp [LinkedFrom, Seg]
  | cons a t ih =>
    cases t with
    | nil => simp [LinkedFrom, Seg]
    | cons b t =>
      simp only [LinkedFrom]
      rw [ih]
      simp [Seg]

theorem getLast?_cons_or (a : Nat) (t : List Nat) (p : Option Nat) :
    (a :: t).getLast?.or p = t.getLast?.or (some a) := by
  rw [List.getLast?_cons]
  cases t.getLast? <;> simp

theorem seg_append (r : Ring) (p q : Option Nat) (c1 c2 : List Nat) :
    Seg r p (c1 ++ c2) q ↔ Seg r p c1 (c2.head?.or q) ∧ Seg r (c1.getLast?.or p) c2 q := by
  induction c1 generalizing p with
  | nil => simp [Seg]
  | cons a t ih =>
    simp only [List.cons_append, Seg, ih, getLast?_cons_or, List.head?_append, Option.or_assoc]
    constructor
    · rintro ⟨h1, h2, h3, h4⟩; exact ⟨⟨h1, h2, h3⟩, h4⟩
    · rintro ⟨⟨h1, h2, h3⟩, h4⟩; exact ⟨h1, h2, h3, h4⟩

theorem seg_congr (r r' : Ring) (p q : Option Nat) (c : List Nat)
    (hp : ∀ a ∈ c, (r'.getN a).prev = (r.getN a).prev)
    (hn : ∀ a ∈ c, (r'.getN a).next = (r.getN a).next)
    (h : Seg r p c q) : Seg r' p c q := by
  induction c generalizing p with
  | nil => trivial
  | cons a t ih =>
    obtain ⟨h1, h2, h3⟩ := h
    refine ⟨by rw [hp a (by simp), h1], by rw [hn a (by simp), h2], ?_⟩
    exact ih _ (fun x hx => hp x (by simp [hx])) (fun x hx => hn x (by simp [hx])) h3

theorem seg_retarget_start (r r' : Ring) (p p' q : Option Nat) (c : List Nat) (hnd : c.Nodup)
    (hp : ∀ a ∈ c, (r'.getN a).prev = if c.head? = some a then p' else (r.getN a).prev)
    (hn : ∀ a ∈ c, (r'.getN a).next = (r.getN a).next)
    (h : Seg r p c q) : Seg r' p' c q := by
  cases c with
  | nil => trivial
  | cons a t =>
    obtain ⟨h1, h2, h3⟩ := h
    have hat : a ∉ t := (List.nodup_cons.mp hnd).1
    refine ⟨by simpa using hp a (by simp), by rw [hn a (by simp), h2], ?_⟩
    refine seg_congr r r' _ _ t (fun x hx => ?_) (fun x hx => hn x (by simp [hx])) h3
    have := hp x (by simp [hx])
    have hne : a ≠ x := fun h => hat (h ▸ hx)
    simpa [hne] using this

theorem seg_retarget_end (r r' : Ring) (p q q' : Option Nat) (c : List Nat) (hnd : c.Nodup)
    (hp : ∀ a ∈ c, (r'.getN a).prev = (r.getN a).prev)
    (hn : ∀ a ∈ c, (r'.getN a).next = if c.getLast? = some a then q' else (r.getN a).next)
    (h : Seg r p c q) : Seg r' p c q' := by
  induction c generalizing p with
  | nil => trivial
  | cons a t ih =>
    obtain ⟨h1, h2, h3⟩ := h
    have hat : a ∉ t := (List.nodup_cons.mp hnd).1
    have hndt : t.Nodup := (List.nodup_cons.mp hnd).2
    cases t with
    | nil =>
      refine ⟨by rw [hp a (by simp), h1], ?_, trivial⟩
      simpa using hn a (by simp)
    | cons b t' =>
      refine ⟨by rw [hp a (by simp), h1], ?_, ?_⟩
      · have := hn a (by simp)
        have hne : ¬ (a :: b :: t').getLast? = some a := by
          intro hl
          rw [List.getLast?_cons_cons] at hl
          exact hat (List.mem_of_getLast? hl)
        rw [if_neg hne] at this
        rw [this, h2]; simp
      · refine ih _ hndt (fun x hx => hp x (by simp [hx])) (fun x hx => ?_) h3
        have := hn x (List.mem_cons_of_mem _ hx)
        rwa [List.getLast?_cons_cons] at this

/-! ### chains without the index field -/

structure ChainW (r : Ring) (s : Nat) (c : List Nat) : Prop where
  nodup : c.Nodup
  covers : ∀ i, i ∈ c ↔ i < r.exs.length ∧ (r.getN i).ref = some s
  seg : Seg r none c none
  sorted : c.Pairwise (fun a b => (r.getN a).ex.ts ≤ (r.getN b).ex.ts)

theorem chainOK_iff (r : Ring) (s : Nat) (c : List Nat) :
    ChainOK r s c ↔ ChainW r s c ∧ r.index s = if c = [] then none else some ⟨c.head?, c.getLast?⟩ := by
  constructor
  · intro h
    exact ⟨⟨h.nodup, h.covers, (linkedFrom_iff_seg _ _ _).mp h.linked, List.pairwise_map.mp h.sorted⟩, h.index⟩
  · rintro ⟨h, hi⟩
    exact ⟨h.nodup, h.covers, (linkedFrom_iff_seg _ _ _).mpr h.seg, List.pairwise_map.mpr h.sorted, hi⟩

theorem entry_ext (x y : Entry) (h1 : x.ex = y.ex) (h2 : x.next = y.next) (h3 : x.prev = y.prev)
    (h4 : x.ref = y.ref) : x = y := by
  cases x; cases y; simp_all

theorem chainW_frame (r r' : Ring) (s : Nat) (c : List Nat) (hlen : r'.exs.length = r.exs.length)
    (hsame : ∀ a ∈ c, r'.getN a = r.getN a)
    (href : ∀ j, j < r.exs.length → ((r'.getN j).ref = some s ↔ (r.getN j).ref = some s))
    (h : ChainW r s c) : ChainW r' s c := by
  refine ⟨h.nodup, fun i => ?_, ?_, ?_⟩
  · rw [h.covers i, hlen]
    constructor
    · rintro ⟨h1, h2⟩; exact ⟨h1, (href i h1).mpr h2⟩
    · rintro ⟨h1, h2⟩; exact ⟨h1, (href i h1).mp h2⟩
  · exact seg_congr r r' _ _ c (fun a ha => by rw [hsame a ha]) (fun a ha => by rw [hsame a ha]) h.seg
  · refine List.Pairwise.imp_of_mem ?_ h.sorted
    intro a b ha hb hab
    rw [hsame a ha, hsame b hb]; exact hab

/-- Abstract removal of slot `i` from the chain `c1 ++ i :: c2` of series `pr`. -/
theorem chainW_remove (r r' : Ring) (pr i : Nat) (c1 c2 : List Nat)
    (hlen : r'.exs.length = r.exs.length)
    (hprev : ∀ j, (r'.getN j).prev = if c2.head? = some j then c1.getLast? else (r.getN j).prev)
    (hnext : ∀ j, (r'.getN j).next = if c1.getLast? = some j then c2.head? else (r.getN j).next)
    (href : ∀ j, (r'.getN j).ref = if j = i then none else (r.getN j).ref)
    (hex : ∀ j, (r'.getN j).ex = (r.getN j).ex)
    (h : ChainW r pr (c1 ++ i :: c2)) :
    ChainW r' pr (c1 ++ c2) ∧ ∀ s c, s ≠ pr → ChainW r s c → ChainW r' s c := by
  obtain ⟨nd1, nd2, hdisj⟩ := List.nodup_append.mp h.nodup
  have hi2 : i ∉ c2 := (List.nodup_cons.mp nd2).1
  have nd2' : c2.Nodup := (List.nodup_cons.mp nd2).2
  have hi1 : i ∉ c1 := fun hm => hdisj i hm i (by simp) rfl
  have hd : ∀ a ∈ c1, a ∉ c2 := fun a ha hm => hdisj a ha a (by simp [hm]) rfl
  obtain ⟨s1, s2⟩ := (seg_append _ _ _ _ _).mp h.seg
  obtain ⟨_, _, s3⟩ := s2
  refine ⟨⟨?_, fun j => ?_, ?_, ?_⟩, ?_⟩
  · exact List.nodup_append.mpr ⟨nd1, nd2', fun a ha b hb hab => hd a ha (hab ▸ hb)⟩
  · rw [hlen, href]
    have := h.covers j
    by_cases hj : j = i
    · subst hj; simp [hi1, hi2]
    · simp only [List.mem_append, List.mem_cons, hj, false_or] at this
      simp only [List.mem_append, hj, if_false]
      exact this
  · refine (seg_append _ _ _ _ _).mpr ⟨?_, ?_⟩
    · refine seg_retarget_end r r' _ _ _ c1 nd1 (fun a ha => ?_) (fun a ha => ?_) s1
      · rw [hprev, if_neg]
        intro hh; exact hd a ha (List.mem_of_head? hh)
      · rw [hnext]; simp
    · refine seg_retarget_start r r' _ _ _ c2 nd2' (fun a ha => ?_) (fun a ha => ?_) s3
      · rw [hprev]; simp
      · rw [hnext, if_neg]
        intro hh; exact hd a (List.mem_of_getLast? hh) ha
  · have : (c1 ++ c2).Sublist (c1 ++ i :: c2) :=
      List.Sublist.append (List.Sublist.refl c1) (List.sublist_cons_self i c2)
    have hs := List.Pairwise.sublist this h.sorted
    refine List.Pairwise.imp_of_mem ?_ hs
    intro a b _ _ hab
    rw [hex, hex]; exact hab
  · intro s c hs hc
    have hout : ∀ a ∈ c, a ∉ c1 ++ i :: c2 := by
      intro a ha hm
      have h1 := (hc.covers a).mp ha
      have h2 := (h.covers a).mp hm
      rw [h1.2] at h2
      exact hs (Option.some.inj h2.2)
    refine chainW_frame r r' s c hlen (fun a ha => ?_) (fun j hj => ?_) hc
    · have hm := hout a ha
      simp only [List.mem_append, List.mem_cons, not_or] at hm
      apply entry_ext
      · exact hex a
      · rw [hnext, if_neg]; intro hh; exact hm.1 (List.mem_of_getLast? hh)
      · rw [hprev, if_neg]; intro hh; exact hm.2.2 (List.mem_of_head? hh)
      · rw [href, if_neg hm.2.1]
    · rw [href]
      by_cases hji : j = i
      · subst hji
        have h2 := (h.covers j).mp (by simp)
        simp only [if_true, h2.2]
        constructor
        · intro hh; cases hh
        · intro hh; exact absurd (Option.some.inj hh).symm hs
      · simp [hji]

/-- Abstract insertion of the free slot `ni` between `c1` and `c2` in the chain of series `s`. -/
theorem chainW_insert (r r' : Ring) (s ni : Nat) (e : Ex) (c1 c2 : List Nat)
    (hlen : r'.exs.length = r.exs.length) (hni : ni < r.exs.length)
    (hfree : (r.getN ni).ref = none)
    (hprev : ∀ j, (r'.getN j).prev =
      if j = ni then c1.getLast? else if c2.head? = some j then some ni else (r.getN j).prev)
    (hnext : ∀ j, (r'.getN j).next =
      if j = ni then c2.head? else if c1.getLast? = some j then some ni else (r.getN j).next)
    (href : ∀ j, (r'.getN j).ref = if j = ni then some s else (r.getN j).ref)
    (hex : ∀ j, (r'.getN j).ex = if j = ni then e else (r.getN j).ex)
    (hle : ∀ a ∈ c1, (r.getN a).ex.ts ≤ e.ts) (hge : ∀ b ∈ c2, e.ts ≤ (r.getN b).ex.ts)
    (h : ChainW r s (c1 ++ c2)) :
    ChainW r' s (c1 ++ ni :: c2) ∧ ∀ s' c, s' ≠ s → ChainW r s' c → ChainW r' s' c := by
  obtain ⟨nd1, nd2, hdisj⟩ := List.nodup_append.mp h.nodup
  have hnin : ni ∉ c1 ++ c2 := by
    intro hm
    have := (h.covers ni).mp hm
    rw [hfree] at this; cases this.2
  have hn1 : ni ∉ c1 := fun hm => hnin (by simp [hm])
  have hn2 : ni ∉ c2 := fun hm => hnin (by simp [hm])
  have hd : ∀ a ∈ c1, a ∉ c2 := fun a ha hm => hdisj a ha a hm rfl
  obtain ⟨s1, s2⟩ := (seg_append _ _ _ _ _).mp h.seg
  refine ⟨⟨?_, fun j => ?_, ?_, ?_⟩, ?_⟩
  · refine List.nodup_append.mpr ⟨nd1, List.nodup_cons.mpr ⟨hn2, nd2⟩, fun a ha b hb hab => ?_⟩
    subst hab
    rcases List.mem_cons.mp hb with hb | hb
    · exact hn1 (hb ▸ ha)
    · exact hd a ha hb
  · rw [hlen, href]
    have := h.covers j
    by_cases hj : j = ni
    · subst hj; simp [hni]
    · simp only [List.mem_append] at this
      simp only [List.mem_append, List.mem_cons, hj, false_or, if_false]
      exact this
  · refine (seg_append _ _ _ _ _).mpr ⟨?_, ?_, ?_, ?_⟩
    · refine seg_retarget_end r r' _ _ _ c1 nd1 (fun a ha => ?_) (fun a ha => ?_) s1
      · have hne : a ≠ ni := fun hh => hn1 (hh ▸ ha)
        rw [hprev, if_neg hne, if_neg]
        intro hh; exact hd a ha (List.mem_of_head? hh)
      · have hne : a ≠ ni := fun hh => hn1 (hh ▸ ha)
        rw [hnext, if_neg hne]; simp
    · rw [hprev]; simp
    · rw [hnext]; simp
    · refine seg_retarget_start r r' _ _ _ c2 nd2 (fun a ha => ?_) (fun a ha => ?_) s2
      · have hne : a ≠ ni := fun hh => hn2 (hh ▸ ha)
        rw [hprev, if_neg hne]
      · have hne : a ≠ ni := fun hh => hn2 (hh ▸ ha)
        rw [hnext, if_neg hne, if_neg]
        intro hh; exact hd a (List.mem_of_getLast? hh) ha
  · obtain ⟨p1, p2, p12⟩ := List.pairwise_append.mp h.sorted
    have hts : ∀ a, a ≠ ni → (r'.getN a).ex.ts = (r.getN a).ex.ts := fun a ha => by rw [hex, if_neg ha]
    have htn : (r'.getN ni).ex.ts = e.ts := by rw [hex, if_pos rfl]
    refine List.pairwise_append.mpr ⟨?_, List.pairwise_cons.mpr ⟨?_, ?_⟩, ?_⟩
    · refine List.Pairwise.imp_of_mem ?_ p1
      intro a b ha hb hab
      rw [hts a (fun hh => hn1 (hh ▸ ha)), hts b (fun hh => hn1 (hh ▸ hb))]; exact hab
    · intro b hb
      rw [htn, hts b (fun hh => hn2 (hh ▸ hb))]; exact hge b hb
    · refine List.Pairwise.imp_of_mem ?_ p2
      intro a b ha hb hab
      rw [hts a (fun hh => hn2 (hh ▸ ha)), hts b (fun hh => hn2 (hh ▸ hb))]; exact hab
    · intro a ha b hb
      rw [hts a (fun hh => hn1 (hh ▸ ha))]
      rcases List.mem_cons.mp hb with hb | hb
      · subst hb; rw [htn]; exact hle a ha
      · rw [hts b (fun hh => hn2 (hh ▸ hb))]; exact p12 a ha b hb
  · intro s' c hs hc
    have hout : ∀ a ∈ c, a ∉ c1 ++ c2 ∧ a ≠ ni := by
      intro a ha
      have h1 := (hc.covers a).mp ha
      refine ⟨fun hm => ?_, fun hh => ?_⟩
      · have h2 := (h.covers a).mp hm
        rw [h1.2] at h2
        exact hs (Option.some.inj h2.2)
      · rw [hh, hfree] at h1; cases h1.2
    refine chainW_frame r r' s' c hlen (fun a ha => ?_) (fun j hj => ?_) hc
    · obtain ⟨hm, hne⟩ := hout a ha
      simp only [List.mem_append, not_or] at hm
      apply entry_ext
      · rw [hex, if_neg hne]
      · rw [hnext, if_neg hne, if_neg]; intro hh; exact hm.1 (List.mem_of_getLast? hh)
      · rw [hprev, if_neg hne, if_neg]; intro hh; exact hm.2 (List.mem_of_head? hh)
      · rw [href, if_neg hne]
    · rw [href]
      by_cases hji : j = ni
      · subst hji
        simp only [if_true, hfree]
        constructor
        · intro hh; exact absurd (Option.some.inj hh).symm hs
        · intro hh; cases hh
      · simp [hji]

/-! ### list lemmas -/

theorem nodup_length_le_of_lt (c : List Nat) (n : Nat) (hn : c.Nodup) (hb : ∀ i ∈ c, i < n) : c.length ≤ n := by
  induction n generalizing c with
  | zero =>
    cases c with
    | nil => simp
    | cons a t => exact absurd (hb a (by simp)) (by omega)
  | succ n ih =>
    have h1 := ih (c.erase n) (hn.erase n) (by
      intro i hi
      rw [hn.mem_erase_iff] at hi
      have := hb i hi.2
      omega)
    by_cases hm : n ∈ c
    · rw [List.length_erase_of_mem hm] at h1
      omega
    · rw [List.erase_of_not_mem hm] at h1
      omega

theorem sorted_head_le (ts : Nat → Int) (c : List Nat) (h : c.Pairwise (fun a b => ts a ≤ ts b)) (o x : Nat)
    (ho : c.head? = some o) (hx : x ∈ c) : ts o ≤ ts x := by
  cases c with
  | nil => simp at ho
  | cons a t =>
    simp at ho
    subst ho
    rw [List.pairwise_cons] at h
    rcases List.mem_cons.1 hx with rfl | hx
    · exact Int.le_refl _
    · exact h.1 x hx

theorem sorted_le_getLast (ts : Nat → Int) (c : List Nat) (h : c.Pairwise (fun a b => ts a ≤ ts b)) (n x : Nat)
    (hn : c.getLast? = some n) (hx : x ∈ c) : ts x ≤ ts n := by
  obtain ⟨ys, rfl⟩ := List.getLast?_eq_some_iff.1 hn
  rw [List.pairwise_append] at h
  rcases List.mem_append.1 hx with hx | hx
  · exact h.2.2 x hx n (by simp)
  · simp at hx
    subst hx
    exact Int.le_refl _

theorem sorted_filter_split (ts : Nat → Int) (t : Int) (c : List Nat)
    (h : c.Pairwise (fun a b => ts a ≤ ts b)) :
    c = c.filter (fun a => decide (ts a ≤ t)) ++ c.filter (fun a => decide (t < ts a)) := by
  induction c with
  | nil => simp
  | cons a l ih =>
    rw [List.pairwise_cons] at h
    have ih' := ih h.2
    by_cases ha : ts a ≤ t
    · have hna : ¬ t < ts a := by omega
      simp only [List.filter_cons, ha, hna, decide_true, decide_false, if_true, List.cons_append]
      simp
      exact ih'
    · have hna : t < ts a := by omega
      have h1 : l.filter (fun a => decide (ts a ≤ t)) = [] := by
        rw [List.filter_eq_nil_iff]
        intro b hb
        have := h.1 b hb
        simp
        omega
      have h2 : l.filter (fun a => decide (t < ts a)) = l := by
        rw [List.filter_eq_self]
        intro b hb
        have := h.1 b hb
        simp
        omega
      simp only [List.filter_cons, ha, hna, decide_true, decide_false, h1, h2]
      simp

theorem filter_getLast?_remove (p : Nat → Bool) (c1 c2 : List Nat) (i ins : Nat) (hne : ins ≠ i)
    (h : ((c1 ++ i :: c2).filter p).getLast? = some ins) : ((c1 ++ c2).filter p).getLast? = some ins := by
  rw [List.filter_append, List.getLast?_append] at *
  rw [List.filter_cons] at h
  cases hp : p i with
  | false => simpa [hp] using h
  | true =>
    simp only [hp, if_true] at h
    cases hc : c2.filter p with
    | nil =>
      simp [hc] at h
      exact absurd h.symm hne
    | cons b t =>
      rw [hc] at h
      rw [List.getLast?_cons_cons] at h
      simpa using h


/-! ### removal -/

theorem removeEx_char (r : Ring) (pr i : Nat) (P Q : Option Nat)
    (hi : i < r.exs.length) (href : (r.getN i).ref = some pr) (hP : (r.getN i).prev = P)
    (hQ : (r.getN i).next = Q)
    (hPl : ∀ l, P = some l → l < r.exs.length) (hQl : ∀ n, Q = some n → n < r.exs.length) :
    (removeEx r i).1.exs.length = r.exs.length ∧
    (removeEx r i).1.nextIndex = r.nextIndex ∧
    (∀ j, (((removeEx r i).1).getN j).prev = if Q = some j then P else (r.getN j).prev) ∧
    (∀ j, (((removeEx r i).1).getN j).next = if P = some j then Q else (r.getN j).next) ∧
    (∀ j, (((removeEx r i).1).getN j).ref = if j = i then none else (r.getN j).ref) ∧
    (∀ j, (((removeEx r i).1).getN j).ex = (r.getN j).ex) ∧
    (∀ k, (removeEx r i).1.index k = if k = pr then (r.index pr).map (fun ie =>
        ⟨if P = none then Q else ie.oldest, if Q = none then P else ie.newest⟩) else r.index k) ∧
    (removeEx r i).2 = ((((removeEx r i).1.index pr).getD ⟨none, none⟩).oldest == none &&
        (((removeEx r i).1.index pr).getD ⟨none, none⟩).newest == none) := by
  subst hP hQ
  refine ⟨removeEx_length r i, removeEx_nextIndex r i, ?_⟩
  cases hp : (r.getN i).prev <;> cases hq : (r.getN i).next <;>
    simp only [removeEx, href, hp, hq] <;> simp [hi]
  · intro k; by_cases hk : k = pr
    · simp [hk]; cases r.index pr <;> simp
    · simp [hk]
  · have := hQl _ hq; grind
  · have := hPl _ hp; grind
  · have := hQl _ hq; have := hPl _ hp; grind
/-- (a) `removeExemplar` on slot `i` of the chain `c1 ++ i :: c2` of series `pr`. -/
theorem removeEx_chain (r : Ring) (pr i : Nat) (c1 c2 : List Nat)
    (h : ChainW r pr (c1 ++ i :: c2))
    (hidx : r.index pr = some ⟨(c1 ++ i :: c2).head?, (c1 ++ i :: c2).getLast?⟩) :
    ChainW (removeEx r i).1 pr (c1 ++ c2) ∧
    (∀ s c, s ≠ pr → ChainW r s c → ChainW (removeEx r i).1 s c) ∧
    (∀ k, (removeEx r i).1.index k =
      if k = pr then some ⟨(c1 ++ c2).head?, (c1 ++ c2).getLast?⟩ else r.index k) ∧
    ((removeEx r i).2 = true ↔ c1 ++ c2 = []) ∧
    (removeEx r i).1.exs.length = r.exs.length ∧ (removeEx r i).1.nextIndex = r.nextIndex ∧
    (∀ j, ((removeEx r i).1.getN j).ex = (r.getN j).ex) ∧
    (∀ j, ((removeEx r i).1.getN j).ref = if j = i then none else (r.getN j).ref) := by
  have hci := (h.covers i).mp (by simp)
  obtain ⟨s1, s2⟩ := (seg_append _ _ _ _ _).mp h.seg
  obtain ⟨hp, hn, _⟩ := s2
  simp only [Option.or_none] at hp hn
  obtain ⟨hl, hni, hprev, hnext, href, hex, hix, hb⟩ :=
    removeEx_char r pr i c1.getLast? c2.head? hci.1 hci.2 hp hn
      (fun l hl => ((h.covers l).mp (by simp [List.mem_of_getLast? hl])).1)
      (fun l hl => ((h.covers l).mp (by simp [List.mem_of_head? hl])).1)
  obtain ⟨w1, w2⟩ := chainW_remove r _ pr i c1 c2 hl hprev hnext href hex h
  have hidx' : ∀ k, (removeEx r i).1.index k =
      if k = pr then some ⟨(c1 ++ c2).head?, (c1 ++ c2).getLast?⟩ else r.index k := by
    intro k
    rw [hix k, hidx]
    by_cases hk : k = pr
    · simp only [hk, if_true, Option.map_some, List.getLast?_append, List.head?_append]
      cases c1 <;> cases c2 <;> simp [List.getLast?_cons_cons]
    · simp [hk]
  refine ⟨w1, w2, hidx', ?_, hl, hni, hex, href⟩
  rw [hb, hidx' pr]
  cases c1 <;> cases c2 <;> simp

/-! ### findIns -/

theorem findInsGo_eq (r : Ring) (t : Int) (dflt : Nat) :
    ∀ (fuel : Nat) (d : List Nat) (q : Option Nat), Seg r none d q → d.length ≤ fuel →
    findInsGo r t dflt fuel d.getLast? =
      ((d.filter fun a => decide ((r.getN a).ex.ts ≤ t)).getLast?).getD dflt := by
  intro fuel
  induction fuel with
  | zero =>
    intro d q _ hl
    have : d = [] := List.length_eq_zero_iff.mp (by omega)
    subst this; simp [findInsGo]
  | succ f ih =>
    intro d q hs hl
    rcases List.eq_nil_or_concat d with rfl | ⟨d0, l, rfl⟩
    · simp [findInsGo]
    · rw [List.concat_eq_append] at hs hl ⊢
      obtain ⟨s1, s2⟩ := (seg_append _ _ _ _ _).mp hs
      obtain ⟨hp, _, _⟩ := s2
      simp only [Option.or_none] at hp
      rw [List.getLast?_concat]
      simp only [findInsGo]
      by_cases hts : (r.getN l).ex.ts ≤ t
      · simp [hts, List.filter_append, List.getLast?_append]
      · rw [if_neg hts, hp, ih d0 _ s1 (by simp at hl; omega)]
        simp [hts, List.filter_append]

/-- (c) `findInsertionIndex` returns the last slot of the chain whose timestamp is `≤ ts`, or the
    oldest slot when there is none. -/
theorem findIns_eq (r : Ring) (s : Nat) (c : List Nat) (t : Int) (h : ChainW r s c) :
    findIns r t ⟨c.head?, c.getLast?⟩ =
      ((c.filter fun a => decide ((r.getN a).ex.ts ≤ t)).getLast?).getD (c.head?.getD 0) := by
  unfold findIns
  apply findInsGo_eq r t _ _ c none h.seg
  exact nodup_length_le_of_lt c _ h.nodup (fun i hi => ((h.covers i).mp hi).1)

/-! ### insertion -/

theorem seg_next_last (r : Ring) (p q : Option Nat) (d : List Nat) (l : Nat) (h : Seg r p d q)
    (hl : d.getLast? = some l) : (r.getN l).next = q := by
  obtain ⟨ys, rfl⟩ := List.getLast?_eq_some_iff.mp hl
  obtain ⟨_, s2⟩ := (seg_append _ _ _ _ _).mp h
  obtain ⟨_, hn, _⟩ := s2
  simpa using hn

/-- (b) the linking switch of `AddExemplar`, applied after the slot at `nextIndex` (free after the
    eviction) has been written: first-and-only, tip, tail and middle insertion. -/
theorem link_chain (rE : Ring) (s : Nat) (e : Ex) (b : Bool) (ins : Nat) (c : List Nat)
    (hni : rE.nextIndex < rE.exs.length) (hfree : (rE.getN rE.nextIndex).ref = none)
    (h : ChainW rE s c)
    (hb : if b = true then c ≠ [] ∧ rE.index s = some ⟨c.head?, c.getLast?⟩ else c = [])
    (hins : ∀ o n, c.head? = some o → c.getLast? = some n → (rE.getN o).ex.ts ≤ e.ts →
        e.ts < (rE.getN n).ex.ts →
        (c.filter fun a => decide ((rE.getN a).ex.ts ≤ e.ts)).getLast? = some ins) :
    ∃ c', ChainW (link ((rE.setEx rE.nextIndex e).setRef rE.nextIndex (some s)) s e b ins) s c' ∧
      (link ((rE.setEx rE.nextIndex e).setRef rE.nextIndex (some s)) s e b ins).index s
        = some ⟨c'.head?, c'.getLast?⟩ ∧ c' ≠ [] ∧
      (∀ s' d, s' ≠ s → ChainW rE s' d →
        ChainW (link ((rE.setEx rE.nextIndex e).setRef rE.nextIndex (some s)) s e b ins) s' d) ∧
      (∀ k, k ≠ s → (link ((rE.setEx rE.nextIndex e).setRef rE.nextIndex (some s)) s e b ins).index k
        = rE.index k) := by
  have hnin : ∀ a ∈ c, a ≠ rE.nextIndex := by
    intro a ha hh
    have := (h.covers a).mp ha
    rw [hh, hfree] at this; cases this.2
  have hlt : ∀ a ∈ c, a < rE.exs.length := fun a ha => ((h.covers a).mp ha).1
  cases b with
  | false =>
    simp only [Bool.false_eq_true, if_false] at hb
    subst hb
    have hl : link ((rE.setEx rE.nextIndex e).setRef rE.nextIndex (some s)) s e false ins =
        (((((rE.setEx rE.nextIndex e).setRef rE.nextIndex (some s)).setIndex s (some ⟨some rE.nextIndex, some rE.nextIndex⟩)).setPrev rE.nextIndex none).setNext rE.nextIndex none) := by
      simp [link]
    obtain ⟨w1, w2⟩ := chainW_insert rE (link ((rE.setEx rE.nextIndex e).setRef rE.nextIndex (some s)) s e false ins) s rE.nextIndex e [] [] (by rw [hl]; simp) hni hfree
      (by intro j; rw [hl]; simp [hni]) (by intro j; rw [hl]; simp [hni]) (by intro j; rw [hl]; simp [hni]) (by intro j; rw [hl]; simp [hni])
      (by simp) (by simp) h
    refine ⟨[rE.nextIndex], w1, by rw [hl]; simp, by simp, w2, ?_⟩
    intro k hk; rw [hl]; simp [hk]
  | true =>
    simp only [if_true] at hb
    obtain ⟨hne, hix⟩ := hb
    obtain ⟨o, ho⟩ : ∃ o, c.head? = some o := by
      cases c with
      | nil => exact absurd rfl hne
      | cons a t => exact ⟨a, rfl⟩
    obtain ⟨n, hn⟩ : ∃ n, c.getLast? = some n := by
      cases hc : c.getLast? with
      | none => exact absurd (List.getLast?_eq_none_iff.mp hc) hne
      | some n => exact ⟨n, rfl⟩
    have hoc := List.mem_of_head? ho
    have hnc := List.mem_of_getLast? hn
    have hixW : ((rE.setEx rE.nextIndex e).setRef rE.nextIndex (some s)).index s = some ⟨some o, some n⟩ := by
      simp [hix, ho, hn]
    have htsW : ∀ a ∈ c, (((rE.setEx rE.nextIndex e).setRef rE.nextIndex (some s)).getN a).ex.ts = (rE.getN a).ex.ts := by
      intro a ha; simp [hnin a ha]
    by_cases htip : e.ts ≥ (rE.getN n).ex.ts
    · -- tip
      have hl : link ((rE.setEx rE.nextIndex e).setRef rE.nextIndex (some s)) s e true ins =
          (((((rE.setEx rE.nextIndex e).setRef rE.nextIndex (some s)).setNext n (some rE.nextIndex)).setPrev rE.nextIndex (some n)).setNext rE.nextIndex none).modIndex s
            (fun ie => { ie with newest := some rE.nextIndex }) := by
        simp [link, hixW, Ring.getO, hnin n hnc, htip]
      have hnl := hlt n hnc
      have hnn := hnin n hnc
      obtain ⟨w1, w2⟩ := chainW_insert rE (link ((rE.setEx rE.nextIndex e).setRef rE.nextIndex (some s)) s e true ins) s rE.nextIndex e c [] (by rw [hl]; simp) hni hfree
        (by intro j; rw [hl]; simp [hni, hn]) (by intro j; rw [hl]; simp [hni, hn, hnl]; grind)
        (by intro j; rw [hl]; simp [hni]) (by intro j; rw [hl]; simp [hni])
        (fun a ha => Int.le_trans (sorted_le_getLast (fun a => (rE.getN a).ex.ts) c h.sorted n a hn ha) htip)
        (by simp) (by simpa using h)
      refine ⟨c ++ [rE.nextIndex], w1, ?_, by simp, w2, ?_⟩
      · rw [hl]; simp [hix, List.head?_append, ho]
      · intro k hk; rw [hl]; simp [hk]
    · by_cases htail : e.ts < (rE.getN o).ex.ts
      · have hl : link ((rE.setEx rE.nextIndex e).setRef rE.nextIndex (some s)) s e true ins =
            (((((rE.setEx rE.nextIndex e).setRef rE.nextIndex (some s)).setPrev o (some rE.nextIndex)).setPrev rE.nextIndex none).setNext rE.nextIndex (some o)).modIndex s
              (fun ie => { ie with oldest := some rE.nextIndex }) := by
          simp [link, hixW, Ring.getO, hnin n hnc, hnin o hoc, htip, htail]
        have hol := hlt o hoc
        have hon := hnin o hoc
        obtain ⟨w1, w2⟩ := chainW_insert rE (link ((rE.setEx rE.nextIndex e).setRef rE.nextIndex (some s)) s e true ins) s rE.nextIndex e [] c (by rw [hl]; simp) hni hfree
          (by intro j; rw [hl]; simp [hni, ho, hol]; grind) (by intro j; rw [hl]; simp [hni, ho])
          (by intro j; rw [hl]; simp [hni]) (by intro j; rw [hl]; simp [hni])
          (by simp)
          (fun a ha => Int.le_trans (Int.le_of_lt htail) (sorted_head_le (fun a => (rE.getN a).ex.ts) c h.sorted o a ho ha))
          (by simpa using h)
        refine ⟨rE.nextIndex :: c, w1, ?_, by simp, w2, ?_⟩
        · cases c with
          | nil => exact absurd rfl hne
          | cons a t => rw [hl]; simp [hix, List.getLast?_cons_cons]
        · intro k hk; rw [hl]; simp [hk]
      · -- middle
        have hfi := hins o n ho hn (by omega) (by omega)
        have hsplit := sorted_filter_split (fun a => (rE.getN a).ex.ts) e.ts c h.sorted
        generalize hd1 : c.filter (fun a => decide ((rE.getN a).ex.ts ≤ e.ts)) = d1 at hsplit hfi
        generalize hd2 : c.filter (fun a => decide (e.ts < (rE.getN a).ex.ts)) = d2 at hsplit
        have hinsd : ins ∈ d1 := List.mem_of_getLast? hfi
        have hinsc : ins ∈ c := by rw [hsplit]; simp [hinsd]
        have hn2 : n ∈ d2 := by rw [← hd2]; simp [hnc]; omega
        obtain ⟨m, hm⟩ : ∃ m, d2.head? = some m := by
          cases d2 with
          | nil => simp at hn2
          | cons a t => exact ⟨a, rfl⟩
        have hmc : m ∈ c := by rw [hsplit]; simp [List.mem_of_head? hm]
        have hnx : (rE.getN ins).next = some m := by
          have h1 := h.seg
          rw [hsplit] at h1
          have := seg_next_last rE _ _ d1 ins ((seg_append _ _ _ _ _).mp h1).1 hfi
          simpa [hm] using this
        have hnxW : (((rE.setEx rE.nextIndex e).setRef rE.nextIndex (some s)).getN ins).next = some m := by simp [hnx]
        have hl : link ((rE.setEx rE.nextIndex e).setRef rE.nextIndex (some s)) s e true ins =
            (((((rE.setEx rE.nextIndex e).setRef rE.nextIndex (some s)).setPrev rE.nextIndex (some ins)).setNext rE.nextIndex (some m)).setNext ins (some rE.nextIndex)).setPrev m (some rE.nextIndex) := by
          simp [link, hixW, Ring.getO, hnin n hnc, hnin o hoc, htip, htail, hnx]
        have hil := hlt ins hinsc
        have hin := hnin ins hinsc
        have hml := hlt m hmc
        have hmn := hnin m hmc
        have hW : ChainW rE s (d1 ++ d2) := by rw [← hsplit]; exact h
        obtain ⟨w1, w2⟩ := chainW_insert rE (link ((rE.setEx rE.nextIndex e).setRef rE.nextIndex (some s)) s e true ins) s rE.nextIndex e d1 d2 (by rw [hl]; simp) hni hfree
          (by intro j; rw [hl]; simp [hni, hfi, hm, hml]; grind) (by intro j; rw [hl]; simp [hni, hfi, hm, hil]; grind)
          (by intro j; rw [hl]; simp [hni]) (by intro j; rw [hl]; simp [hni])
          (by intro a ha; rw [← hd1] at ha; simpa using (List.mem_filter.mp ha).2)
          (by intro a ha; rw [← hd2] at ha; have := (List.mem_filter.mp ha).2; simp at this; omega)
          hW
        refine ⟨d1 ++ rE.nextIndex :: d2, w1, ?_, by simp, w2, ?_⟩
        · have hd1ne : d1 ≠ [] := List.ne_nil_of_mem hinsd
          have hd2ne : d2 ≠ [] := List.ne_nil_of_mem hn2
          have e1 : (d1 ++ rE.nextIndex :: d2).head? = c.head? := by
            rw [hsplit]; cases d1 with
            | nil => exact absurd rfl hd1ne
            | cons a t => rfl
          have e2 : (d1 ++ rE.nextIndex :: d2).getLast? = c.getLast? := by
            rw [hsplit, List.getLast?_append, List.getLast?_append]
            cases d2 with
            | nil => exact absurd rfl hd2ne
            | cons a t => simp [List.getLast?_cons_cons]
          rw [e1, e2, hl]; simp [hix]
        · intro k hk; rw [hl]; simp

/-! ### AddExemplar -/

theorem chainW_nextIndex (r : Ring) (n : Nat) (k : Nat) (c : List Nat) (h : ChainW r k c) :
    ChainW { r with nextIndex := n } k c :=
  chainW_frame r _ k c rfl (fun _ _ => rfl) (fun _ _ => Iff.rfl) h

/-- The part of `store` after the eviction re-establishes `LinksWF` from the post-eviction
    invariant: all chains well formed, the slot at `nextIndex` free, the index entries exact except
    possibly that of `s` when its chain is empty (`b = false`), and `ins` the insertion point whenever
    the middle case of `link` can be reached. -/
theorem store_tail_linksWF (rE : Ring) (s : Nat) (e : Ex) (b : Bool) (ins n' : Nat) (ch : Nat → List Nat)
    (hni : rE.nextIndex < rE.exs.length) (hfree : (rE.getN rE.nextIndex).ref = none)
    (hW : ∀ k, ChainW rE k (ch k))
    (hI : ∀ k, k ≠ s → rE.index k = if ch k = [] then none else some ⟨(ch k).head?, (ch k).getLast?⟩)
    (hb : if b = true then ch s ≠ [] ∧ rE.index s = some ⟨(ch s).head?, (ch s).getLast?⟩ else ch s = [])
    (hins : ∀ o n, (ch s).head? = some o → (ch s).getLast? = some n → (rE.getN o).ex.ts ≤ e.ts →
        e.ts < (rE.getN n).ex.ts →
        ((ch s).filter fun a => decide ((rE.getN a).ex.ts ≤ e.ts)).getLast? = some ins) :
    LinksWF { link ((rE.setEx rE.nextIndex e).setRef rE.nextIndex (some s)) s e b ins with nextIndex := n' } := by
  obtain ⟨c', w, hi, hne, wo, io⟩ := link_chain rE s e b ins (ch s) hni hfree (hW s) hb hins
  refine ⟨fun k => if k = s then c' else ch k, fun k => ?_⟩
  rw [chainOK_iff]
  by_cases hk : k = s
  · subst hk
    simp only [if_true]
    refine ⟨chainW_nextIndex _ _ _ _ w, ?_⟩
    show (link _ k e b ins).index k = _
    rw [hi]; simp [hne]
  · simp only [hk, if_false]
    refine ⟨chainW_nextIndex _ _ _ _ (wo k _ hk (hW k)), ?_⟩
    show (link _ s e b ins).index k = _
    rw [io k hk, hI k hk]

/-- Special case of `add_linksWF` (below): `AddExemplar` preserves `LinksWF` when it does not evict,
    i.e. when the slot at `nextIndex` is free (ring not yet full). -/
theorem add_linksWF_partial (r : Ring) (s : Nat) (e : Ex) (h : LinksWF r)
    (hni : r.nextIndex < r.exs.length ∨ r.exs.length = 0)
    (hfree : (r.getN r.nextIndex).ref = none) : LinksWF (add r s e).1 := by
  by_cases hst : (add r s e).2 = .stored
  · obtain ⟨hlen, heq⟩ := add_stored_eq r s e hst
    rw [heq]
    have hni' : r.nextIndex < r.exs.length := by omega
    obtain ⟨ch, hch⟩ := h
    have hW : ∀ k, ChainW r k (ch k) := fun k => ((chainOK_iff _ _ _).mp (hch k)).1
    have hI : ∀ k, r.index k = if ch k = [] then none else some ⟨(ch k).head?, (ch k).getLast?⟩ :=
      fun k => ((chainOK_iff _ _ _).mp (hch k)).2
    cases hb : (r.index s).isSome with
    | false =>
      have hcs : ch s = [] := by
        have := hI s
        by_cases hc : ch s = []
        · exact hc
        · rw [if_neg hc] at this; rw [this] at hb; simp at hb
      have hev : evict (r.setIndex s (some ⟨some 0, some 0⟩)) s e false
          (oooCheck r (r.index s) e).1 (oooCheck r (r.index s) e).2
          = (r.setIndex s (some ⟨some 0, some 0⟩), false, (oooCheck r (r.index s) e).2) := by
        simp only [evict, nextIndex_setIndex, getN_setIndex, hfree]
      simp only [store, Bool.false_eq_true, if_false, hev]
      refine store_tail_linksWF (r.setIndex s (some ⟨some 0, some 0⟩)) s e false _ _ ch hni' hfree
        (fun k => chainW_frame r _ k _ rfl (fun _ _ => rfl) (fun _ _ => Iff.rfl) (hW k))
        (fun k hk => by simp [hk, hI k]) (by simp [hcs]) (by simp [hcs])
    | true =>
      have hcs : ch s ≠ [] := by
        intro hc
        have := hI s
        rw [if_pos hc] at this; rw [this] at hb; simp at hb
      have hIs := hI s
      rw [if_neg hcs] at hIs
      have hev : evict r s e true (oooCheck r (r.index s) e).1 (oooCheck r (r.index s) e).2
          = (r, true, (oooCheck r (r.index s) e).2) := by
        simp only [evict, hfree]
      simp only [store, if_true, hev]
      refine store_tail_linksWF r s e true _ _ ch hni' hfree hW (fun k _ => hI k) (by simp [hcs, hIs]) ?_
      intro o n ho hn h1 h2
      have hfe := findIns_eq r s (ch s) e.ts (hW s)
      have hoo : (oooCheck r (r.index s) e).2 = findIns r e.ts ⟨(ch s).head?, (ch s).getLast?⟩ := by
        simp [oooCheck, hIs, ho, hn, Ring.getO, h1, h2]
      rw [hoo, hfe]
      have hmem : o ∈ (ch s).filter fun a => decide ((r.getN a).ex.ts ≤ e.ts) := by
        simp [List.mem_of_head? ho, h1]
      cases hg : ((ch s).filter fun a => decide ((r.getN a).ex.ts ≤ e.ts)).getLast? with
      | none => rw [List.getLast?_eq_none_iff.mp hg] at hmem; simp at hmem
      | some x => simp
  · rw [add_not_stored r s e hst]; exact h

/-! ### eviction -/

/-- `ins` is the insertion point whenever the middle case of `link` can be reached. -/
def InsP (rr : Ring) (e : Ex) (c : List Nat) (i' : Nat) : Prop :=
  ∀ o n, c.head? = some o → c.getLast? = some n → (rr.getN o).ex.ts ≤ e.ts → e.ts < (rr.getN n).ex.ts →
    (c.filter fun a => decide ((rr.getN a).ex.ts ≤ e.ts)).getLast? = some i'

theorem insP_congr (rr rr' : Ring) (e : Ex) (c : List Nat) (i' : Nat)
    (hex : ∀ j, (rr'.getN j).ex = (rr.getN j).ex) (h : InsP rr e c i') : InsP rr' e c i' := by
  intro o n ho hn h1 h2
  simp only [hex] at h1 h2 ⊢
  exact h o n ho hn h1 h2

theorem evict_post (r0 : Ring) (s : Nat) (e : Ex) (b ooo : Bool) (ins : Nat) (ch : Nat → List Nat)
    (hni : r0.nextIndex < r0.exs.length)
    (hW : ∀ k, ChainW r0 k (ch k))
    (hI : ∀ k, k ≠ s → r0.index k = if ch k = [] then none else some ⟨(ch k).head?, (ch k).getLast?⟩)
    (hb : if b = true then ch s ≠ [] ∧ r0.index s = some ⟨(ch s).head?, (ch s).getLast?⟩ else ch s = [])
    (hooF : ooo = false → ∀ o n, (ch s).head? = some o → (ch s).getLast? = some n →
      ¬ ((r0.getN o).ex.ts ≤ e.ts ∧ e.ts < (r0.getN n).ex.ts))
    (hooT : ooo = true →
      ((ch s).filter fun a => decide ((r0.getN a).ex.ts ≤ e.ts)).getLast? = some ins) :
    ∃ ch' : Nat → List Nat,
      (evict r0 s e b ooo ins).1.nextIndex = r0.nextIndex ∧
      (evict r0 s e b ooo ins).1.exs.length = r0.exs.length ∧
      ((evict r0 s e b ooo ins).1.getN r0.nextIndex).ref = none ∧
      (∀ k, ChainW (evict r0 s e b ooo ins).1 k (ch' k)) ∧
      (∀ k, k ≠ s → (evict r0 s e b ooo ins).1.index k =
        if ch' k = [] then none else some ⟨(ch' k).head?, (ch' k).getLast?⟩) ∧
      (if (evict r0 s e b ooo ins).2.1 = true then ch' s ≠ [] ∧
          (evict r0 s e b ooo ins).1.index s = some ⟨(ch' s).head?, (ch' s).getLast?⟩ else ch' s = []) ∧
      InsP (evict r0 s e b ooo ins).1 e (ch' s) (evict r0 s e b ooo ins).2.2 := by
  have hP0 : InsP r0 e (ch s) ins := by
    intro o n ho hn h1 h2
    cases ooo with
    | false => exact absurd ⟨h1, h2⟩ (hooF rfl o n ho hn)
    | true => exact hooT rfl
  cases href : (r0.getN r0.nextIndex).ref with
  | none =>
    have hev : evict r0 s e b ooo ins = (r0, b, ins) := by simp only [evict, href]
    rw [hev]
    exact ⟨ch, rfl, rfl, href, hW, hI, hb, hP0⟩
  | some pr =>
    have hmem : r0.nextIndex ∈ ch pr := ((hW pr).covers _).mpr ⟨hni, href⟩
    obtain ⟨c1, c2, hsplit⟩ := List.append_of_mem hmem
    have hne : ch pr ≠ [] := List.ne_nil_of_mem hmem
    have hbs : pr = s → b = true := by
      intro hps
      cases b with
      | true => rfl
      | false => simp only [Bool.false_eq_true, if_false] at hb; rw [hps] at hne; exact absurd hb hne
    have hidx : r0.index pr = some ⟨(c1 ++ r0.nextIndex :: c2).head?, (c1 ++ r0.nextIndex :: c2).getLast?⟩ := by
      rw [← hsplit]
      by_cases hps : pr = s
      · have hbt := hbs hps
        subst hps
        rw [hbt] at hb; exact hb.2
      · rw [hI pr hps, if_neg hne]
    have hWpr := hW pr
    rw [hsplit] at hWpr
    obtain ⟨w1, w2, hix, hemp, hl, hnx, hex, hrf⟩ := removeEx_chain r0 pr r0.nextIndex c1 c2 hWpr hidx
    have hWR : ∀ k, ChainW (removeEx r0 r0.nextIndex).1 k (if k = pr then c1 ++ c2 else ch k) := by
      intro k
      by_cases hk : k = pr
      · subst hk; simpa using w1
      · simpa [hk] using w2 k (ch k) hk (hW k)
    have hfreeR : ((removeEx r0 r0.nextIndex).1.getN r0.nextIndex).ref = none := by rw [hrf]; simp
    have hIR : ∀ k, k ≠ pr → (removeEx r0 r0.nextIndex).1.index k = r0.index k := by
      intro k hk; rw [hix k, if_neg hk]
    have hPR : pr ≠ s → InsP (removeEx r0 r0.nextIndex).1 e (ch s) ins :=
      fun _ => insP_congr r0 _ e _ _ hex hP0
    by_cases hE : (removeEx r0 r0.nextIndex).2 = true
    · have hnil := hemp.mp hE
      by_cases hps : pr = s
      · have hev : evict r0 s e b ooo ins = ((removeEx r0 r0.nextIndex).1, false, ins) := by
          simp only [evict, href, hE, hps, if_true]
        rw [hev]
        refine ⟨fun k => if k = pr then c1 ++ c2 else ch k, hnx, hl, hfreeR, hWR, ?_, ?_, ?_⟩
        · intro k hk
          have hk' : k ≠ pr := hps ▸ hk
          simp only [hk', if_false]; rw [hIR k hk', hI k hk]
        · simp [hps, hnil]
        · simp only [hps, if_true, hnil]; intro o n ho; simp at ho
      · have hev : evict r0 s e b ooo ins = ((removeEx r0 r0.nextIndex).1.setIndex pr none, b, ins) := by
          simp only [evict, href, hE, hps, if_true, if_false]
        rw [hev]
        have hsp : s ≠ pr := fun h => hps h.symm
        refine ⟨fun k => if k = pr then c1 ++ c2 else ch k, hnx, hl, hfreeR, ?_, ?_, ?_, ?_⟩
        · intro k
          exact chainW_frame (removeEx r0 r0.nextIndex).1 ((removeEx r0 r0.nextIndex).1.setIndex pr none) k _ rfl (fun _ _ => rfl) (fun _ _ => Iff.rfl) (hWR k)
        · intro k hk
          by_cases hk' : k = pr
          · simp [hk', hnil]
          · simp only [hk', if_false, index_setIndex]; rw [hIR k hk', hI k hk]
        · simp only [hsp, if_false, index_setIndex]
          rw [hIR s hsp]; exact hb
        · simp only [hsp, if_false]
          exact insP_congr (removeEx r0 r0.nextIndex).1 _ e _ _ (fun _ => rfl) (hPR hps)
    · have hnn : c1 ++ c2 ≠ [] := fun h => hE (hemp.mpr h)
      by_cases hre : ooo = true ∧ ins = r0.nextIndex ∧ pr = s
      · obtain ⟨_, _, hps⟩ := hre
        have hbt := hbs hps
        have hev : evict r0 s e b ooo ins = ((removeEx r0 r0.nextIndex).1, b,
            findIns (removeEx r0 r0.nextIndex).1 e.ts
              (((removeEx r0 r0.nextIndex).1.index s).getD ⟨some 0, some 0⟩)) := by
          simp only [evict, href, hE]; simp [*]
        rw [hev]
        refine ⟨fun k => if k = pr then c1 ++ c2 else ch k, hnx, hl, hfreeR, hWR, ?_, ?_, ?_⟩
        · intro k hk
          have hk' : k ≠ pr := hps ▸ hk
          simp only [hk', if_false]; rw [hIR k hk', hI k hk]
        · subst hps; simp [hbt, hnn, hix]
        · subst hps
          simp only [if_true]
          have hixs := hix pr
          simp only [if_true] at hixs
          rw [hixs, Option.getD_some, findIns_eq _ pr (c1 ++ c2) e.ts w1]
          intro o n ho hn h1 h2
          have hmem : o ∈ (c1 ++ c2).filter fun a => decide (((removeEx r0 r0.nextIndex).1.getN a).ex.ts ≤ e.ts) := by
            simp only [List.mem_filter, decide_eq_true_eq]; exact ⟨List.mem_of_head? ho, h1⟩
          cases hg : ((c1 ++ c2).filter fun a => decide (((removeEx r0 r0.nextIndex).1.getN a).ex.ts ≤ e.ts)).getLast? with
          | none => rw [List.getLast?_eq_none_iff.mp hg] at hmem; simp at hmem
          | some x => simp
      · have hev : evict r0 s e b ooo ins = ((removeEx r0 r0.nextIndex).1, b, ins) := by
          simp only [evict, href, hE]; simp [hre]
        rw [hev]
        refine ⟨fun k => if k = pr then c1 ++ c2 else ch k, hnx, hl, hfreeR, hWR, ?_, ?_, ?_⟩
        · intro k hk
          by_cases hk' : k = pr
          · subst hk'; simp [hnn, hix]
          · simp only [hk', if_false]; rw [hIR k hk', hI k hk]
        · by_cases hps : pr = s
          · have hbt := hbs hps
            subst hps; simp [hbt, hnn, hix]
          · have hsp : s ≠ pr := fun h => hps h.symm
            simp only [hsp, if_false]; rw [hIR s hsp]; exact hb
        · by_cases hps : pr = s
          · subst hps
            simp only [if_true]
            intro o' n' ho' hn' h1 h2
            rw [hex] at h1 h2
            have hsub : ∀ x, x ∈ c1 ++ c2 → x ∈ ch pr := by
              intro x hx; rw [hsplit]; simp only [List.mem_append, List.mem_cons] at hx ⊢
              rcases hx with hx | hx
              · exact Or.inl hx
              · exact Or.inr (Or.inr hx)
            have ho'm := hsub o' (List.mem_of_head? ho')
            have hn'm := hsub n' (List.mem_of_getLast? hn')
            simp only [hex]
            cases ooo with
            | false =>
              obtain ⟨o, ho⟩ : ∃ o, (ch pr).head? = some o := by
                cases hc : ch pr with
                | nil => exact absurd hc hne
                | cons a t => exact ⟨a, rfl⟩
              obtain ⟨n, hn⟩ : ∃ n, (ch pr).getLast? = some n := by
                cases hc : (ch pr).getLast? with
                | none => exact absurd (List.getLast?_eq_none_iff.mp hc) hne
                | some n => exact ⟨n, rfl⟩
              have q1 := sorted_head_le (fun a => (r0.getN a).ex.ts) (ch pr) (hW pr).sorted o o' ho ho'm
              have q2 := sorted_le_getLast (fun a => (r0.getN a).ex.ts) (ch pr) (hW pr).sorted n n' hn hn'm
              exact absurd ⟨Int.le_trans q1 h1, Int.lt_of_lt_of_le h2 q2⟩ (hooF rfl o n ho hn)
            | true =>
              have hT := hooT rfl
              rw [hsplit] at hT
              have hins : ins ≠ r0.nextIndex := fun h => hre ⟨rfl, h, rfl⟩
              exact filter_getLast?_remove _ c1 c2 r0.nextIndex ins hins hT
          · have hsp : s ≠ pr := fun h => hps h.symm
            simp only [hsp, if_false]
            exact hPR hps

/-! ### the invariant is preserved by AddExemplar -/

theorem store_tail_linksWF' (rE : Ring) (ni : Nat) (hni_eq : rE.nextIndex = ni) (s : Nat) (e : Ex) (b : Bool)
    (ins n' : Nat) (ch : Nat → List Nat)
    (hni : rE.nextIndex < rE.exs.length) (hfree : (rE.getN rE.nextIndex).ref = none)
    (hW : ∀ k, ChainW rE k (ch k))
    (hI : ∀ k, k ≠ s → rE.index k = if ch k = [] then none else some ⟨(ch k).head?, (ch k).getLast?⟩)
    (hb : if b = true then ch s ≠ [] ∧ rE.index s = some ⟨(ch s).head?, (ch s).getLast?⟩ else ch s = [])
    (hins : InsP rE e (ch s) ins) :
    LinksWF { link ((rE.setEx ni e).setRef ni (some s)) s e b ins with nextIndex := n' } := by
  subst hni_eq
  exact store_tail_linksWF rE s e b ins n' ch hni hfree hW hI hb hins

/-- (d) `AddExemplar` preserves the linked-list invariant. -/
theorem add_linksWF (r : Ring) (s : Nat) (e : Ex) (h : LinksWF r)
    (hni : r.nextIndex < r.exs.length ∨ r.exs.length = 0) : LinksWF (add r s e).1 := by
  by_cases hst : (add r s e).2 = .stored
  · obtain ⟨hlen, heq⟩ := add_stored_eq r s e hst
    rw [heq]
    have hni' : r.nextIndex < r.exs.length := by omega
    obtain ⟨ch, hch⟩ := h
    have hW : ∀ k, ChainW r k (ch k) := fun k => ((chainOK_iff _ _ _).mp (hch k)).1
    have hI : ∀ k, r.index k = if ch k = [] then none else some ⟨(ch k).head?, (ch k).getLast?⟩ :=
      fun k => ((chainOK_iff _ _ _).mp (hch k)).2
    cases hb : (r.index s).isSome with
    | false =>
      have hcs : ch s = [] := by
        have := hI s
        by_cases hc : ch s = []
        · exact hc
        · rw [if_neg hc] at this; rw [this] at hb; simp at hb
      have hnone : r.index s = none := by simpa using hb
      obtain ⟨ch', e1, e2, e3, e4, e5, e6, e7⟩ := evict_post (r.setIndex s (some ⟨some 0, some 0⟩)) s e false
        (oooCheck r (r.index s) e).1 (oooCheck r (r.index s) e).2 ch hni'
        (fun k => chainW_frame r _ k _ rfl (fun _ _ => rfl) (fun _ _ => Iff.rfl) (hW k))
        (fun k hk => by simp [hk, hI k]) (by simp [hcs])
        (by intro _ o n ho; simp [hcs] at ho)
        (by intro ht; simp [hnone, oooCheck] at ht)
      simp only [store, Bool.false_eq_true, if_false]
      exact store_tail_linksWF' _ r.nextIndex e1 s e _ _ _ ch' (by rw [e1, e2]; exact hni')
        (by rw [e1]; exact e3) e4 e5 e6 e7
    | true =>
      have hcs : ch s ≠ [] := by
        intro hc
        have := hI s
        rw [if_pos hc] at this; rw [this] at hb; simp at hb
      have hIs := hI s
      rw [if_neg hcs] at hIs
      obtain ⟨o, ho⟩ : ∃ o, (ch s).head? = some o := by
        cases hc : ch s with
        | nil => exact absurd hc hcs
        | cons a t => exact ⟨a, rfl⟩
      obtain ⟨n, hn⟩ : ∃ n, (ch s).getLast? = some n := by
        cases hc : (ch s).getLast? with
        | none => exact absurd (List.getLast?_eq_none_iff.mp hc) hcs
        | some n => exact ⟨n, rfl⟩
      have hoo : oooCheck r (r.index s) e =
          if (r.getN o).ex.ts ≤ e.ts ∧ e.ts < (r.getN n).ex.ts
          then (true, findIns r e.ts ⟨(ch s).head?, (ch s).getLast?⟩) else (false, 0) := by
        rw [hIs]; simp only [oooCheck]; rw [ho, hn]; rfl
      obtain ⟨ch', e1, e2, e3, e4, e5, e6, e7⟩ := evict_post r s e true
        (oooCheck r (r.index s) e).1 (oooCheck r (r.index s) e).2 ch hni' hW (fun k _ => hI k)
        (by simp [hcs, hIs])
        (by
          intro hf o' n' ho' hn' hc
          rw [ho] at ho'; rw [hn] at hn'
          cases ho'; cases hn'
          rw [hoo, if_pos hc] at hf; cases hf)
        (by
          intro ht
          by_cases hc : (r.getN o).ex.ts ≤ e.ts ∧ e.ts < (r.getN n).ex.ts
          · rw [hoo, if_pos hc]
            simp only []
            rw [findIns_eq r s (ch s) e.ts (hW s)]
            have hmem : o ∈ (ch s).filter fun a => decide ((r.getN a).ex.ts ≤ e.ts) := by
              simp [List.mem_of_head? ho, hc.1]
            cases hg : ((ch s).filter fun a => decide ((r.getN a).ex.ts ≤ e.ts)).getLast? with
            | none => rw [List.getLast?_eq_none_iff.mp hg] at hmem; simp at hmem
            | some x => simp
          · rw [hoo, if_neg hc] at ht; cases ht)
      simp only [store, if_true]
      exact store_tail_linksWF' _ r.nextIndex e1 s e _ _ _ ch' (by rw [e1, e2]; exact hni')
        (by rw [e1]; exact e3) e4 e5 e6 e7
  · rw [add_not_stored r s e hst]; exact h

end Prom.Exemplars
