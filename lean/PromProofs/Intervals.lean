import PromModel.Tsdb.Intervals
/-
  Helper lemmas for C20: specification of the transcribed `sort.Search`, list-level view of the two
  searches of `Intervals.Add`, and the abstract merge lemma (xs = A ++ B ++ C).
  Core Lean only.
-/
namespace Prom.Intervals

/-! ### `sort.Search` -/

theorem goSearchAux_spec (f : Nat → Bool) (n : Nat)
    (mono : ∀ a b, a ≤ b → b < n → f a = true → f b = true) :
    ∀ fuel i j, i ≤ j → j ≤ n → j - i ≤ fuel →
      i ≤ goSearchAux f fuel i j ∧ goSearchAux f fuel i j ≤ j ∧
      (∀ k, i ≤ k → k < goSearchAux f fuel i j → f k = false) ∧
      (goSearchAux f fuel i j < j → f (goSearchAux f fuel i j) = true) := by
  intro fuel
  induction fuel with
  | zero =>
    intro i j hij _ hf
    simp only [goSearchAux]
    refine ⟨Nat.le_refl _, hij, ?_, ?_⟩
    · intro k h1 h2; omega
    · intro h; omega
  | succ fuel ih =>
    intro i j hij hjn hf
    unfold goSearchAux
    by_cases hlt : i < j
    · simp only [hlt, if_true]
      have hm1 : i ≤ (i + j) / 2 := by omega
      have hm2 : (i + j) / 2 < j := by omega
      by_cases hfm : f ((i + j) / 2) = true
      · simp only [hfm, if_true]
        obtain ⟨h1, h2, h3, h4⟩ := ih i ((i + j) / 2) hm1 (by omega) (by omega)
        refine ⟨h1, by omega, h3, ?_⟩
        intro _
        by_cases he : goSearchAux f fuel i ((i + j) / 2) < (i + j) / 2
        · exact h4 he
        · have : goSearchAux f fuel i ((i + j) / 2) = (i + j) / 2 := by omega
          rw [this]; exact hfm
      · have hfm' : f ((i + j) / 2) = false := by simpa using hfm
        simp only [hfm', Bool.false_eq_true, if_false]
        obtain ⟨h1, h2, h3, h4⟩ := ih ((i + j) / 2 + 1) j (by omega) hjn (by omega)
        refine ⟨by omega, h2, ?_, h4⟩
        intro k hk1 hk2
        by_cases hkm : k ≤ (i + j) / 2
        · cases hfk : f k with
          | false => rfl
          | true =>
            have := mono k ((i + j) / 2) hkm (by omega) hfk
            rw [hfm'] at this; exact absurd this (by simp)
        · exact h3 k (by omega) hk2
    · simp only [hlt, if_false]
      refine ⟨Nat.le_refl _, hij, ?_, ?_⟩
      · intro k h1 h2; omega
      · intro h; first | exact h.elim | omega

/-- `sort.Search(n, f)` on a monotone predicate: the result `r ≤ n`, `f` is false below `r`,
    and true from `r` up to `n`. -/
theorem goSearch_spec (n : Nat) (f : Nat → Bool)
    (mono : ∀ a b, a ≤ b → b < n → f a = true → f b = true) :
    goSearch n f ≤ n ∧ (∀ k, k < goSearch n f → f k = false) ∧
    (∀ k, goSearch n f ≤ k → k < n → f k = true) := by
  obtain ⟨_, h2, h3, h4⟩ := goSearchAux_spec f n mono n 0 n (Nat.zero_le _) (Nat.le_refl _) (by omega)
  refine ⟨h2, fun k hk => h3 k (Nat.zero_le _) hk, ?_⟩
  intro k hk hkn
  have hlt : goSearch n f < n := by omega
  exact mono _ k hk hkn (h4 hlt)

/-- Least-index reading: either no index below `n` satisfies `f` and the result is `n`, or the result
    is the least index satisfying `f`. -/
theorem goSearch_least (n : Nat) (f : Nat → Bool)
    (mono : ∀ a b, a ≤ b → b < n → f a = true → f b = true) :
    (goSearch n f = n ∧ ∀ k, k < n → f k = false) ∨
    (goSearch n f < n ∧ f (goSearch n f) = true ∧ ∀ k, k < goSearch n f → f k = false) := by
  obtain ⟨h1, h2, h3⟩ := goSearch_spec n f mono
  by_cases h : goSearch n f = n
  · left; exact ⟨h, fun k hk => h2 k (by omega)⟩
  · right; exact ⟨by omega, h3 _ (Nat.le_refl _) (by omega), h2⟩

/-- Uniqueness: any `r ≤ n` that splits `[0,n)` into a false part and a true part is the result. -/
theorem goSearch_unique (n : Nat) (f : Nat → Bool) (r : Nat) (hr : r ≤ n)
    (hlo : ∀ k, k < r → f k = false) (hhi : ∀ k, r ≤ k → k < n → f k = true) :
    goSearch n f = r := by
  have mono : ∀ a b, a ≤ b → b < n → f a = true → f b = true := by
    intro a b hab hb ha
    by_cases h : a < r
    · rw [hlo a h] at ha; exact absurd ha (by simp)
    · exact hhi b (by omega) hb
  obtain ⟨h1, h2, h3⟩ := goSearch_spec n f mono
  by_cases hlt : goSearch n f < r
  · have := h3 _ (Nat.le_refl _) (by omega)
    rw [hlo _ hlt] at this; exact absurd this (by simp)
  · by_cases hgt : r < goSearch n f
    · have := h2 r hgt
      rw [hhi r (Nat.le_refl _) (by omega)] at this; exact absurd this (by simp)
    · omega

/-- List view of a search over `l`: for a predicate that is monotone along `l`, the result splits
    `l` into `take` (all false) and `drop` (all true). -/
theorem goSearch_split {α : Type} (d : α) (l : List α) (p : α → Bool)
    (mono : l.Pairwise (fun x y => p x = true → p y = true)) :
    goSearch l.length (fun i => p (l[i]?.getD d)) ≤ l.length ∧
    (∀ x ∈ l.take (goSearch l.length (fun i => p (l[i]?.getD d))), p x = false) ∧
    (∀ x ∈ l.drop (goSearch l.length (fun i => p (l[i]?.getD d))), p x = true) := by
  have hm : ∀ a b, a ≤ b → b < l.length →
      (fun i => p (l[i]?.getD d)) a = true → (fun i => p (l[i]?.getD d)) b = true := by
    intro a b hab hb
    have ha : a < l.length := by omega
    simp only [List.getElem?_eq_getElem ha, List.getElem?_eq_getElem hb, Option.getD_some]
    by_cases hab' : a = b
    · subst hab'; exact id
    · exact (List.pairwise_iff_getElem.mp mono) a b ha hb (by omega)
  obtain ⟨h1, h2, h3⟩ := goSearch_spec l.length _ hm
  refine ⟨h1, ?_, ?_⟩
  · intro x hx
    obtain ⟨i, hi, rfl⟩ := List.mem_take_iff_getElem.mp hx
    have hil : i < l.length := by omega
    have := h2 i (by omega)
    simpa [List.getElem?_eq_getElem hil] using this
  · intro x hx
    obtain ⟨i, hi, rfl⟩ := List.mem_drop_iff_getElem.mp hx
    have hi' : goSearch l.length (fun i => p (l[i]?.getD d)) + i < l.length := by omega
    have := h3 (goSearch l.length (fun i => p (l[i]?.getD d)) + i) (by omega) hi'
    simpa [List.getElem?_eq_getElem hi'] using this


/-! ### coverage and canonical form: basic facts -/

theorem covers_nil (t : Int) : ¬ covers [] t := by simp [covers]

theorem covers_cons (x : Interval) (xs : Intervals) (t : Int) :
    covers (x :: xs) t ↔ (x.mint ≤ t ∧ t ≤ x.maxt) ∨ covers xs t := by
  simp [covers]

theorem covers_append (xs ys : Intervals) (t : Int) :
    covers (xs ++ ys) t ↔ covers xs t ∨ covers ys t := by
  simp [covers, or_and_right, exists_or]

theorem coversB_iff (xs : Intervals) (t : Int) : coversB xs t = true ↔ covers xs t := by
  simp [coversB, covers]

theorem Canon.valid {xs : Intervals} (h : Canon xs) : ∀ x ∈ xs, x.mint ≤ x.maxt := h.1
theorem Canon.pw {xs : Intervals} (h : Canon xs) : xs.Pairwise (fun x y => x.maxt + 1 < y.mint) := h.2

theorem canon_nil : Canon [] := by simp [Canon]

theorem canon_append {xs ys : Intervals} :
    Canon (xs ++ ys) ↔ Canon xs ∧ Canon ys ∧ ∀ x ∈ xs, ∀ y ∈ ys, x.maxt + 1 < y.mint := by
  unfold Canon
  simp only [List.mem_append, List.pairwise_append]
  constructor
  · rintro ⟨h1, h2, h3, h4⟩
    exact ⟨⟨fun x hx => h1 x (Or.inl hx), h2⟩, ⟨fun x hx => h1 x (Or.inr hx), h3⟩, h4⟩
  · rintro ⟨⟨h1, h2⟩, ⟨h3, h4⟩, h5⟩
    exact ⟨fun x hx => hx.elim (h1 x) (h3 x), h2, h4, h5⟩

theorem canon_cons {x : Interval} {xs : Intervals} :
    Canon (x :: xs) ↔ x.mint ≤ x.maxt ∧ Canon xs ∧ ∀ y ∈ xs, x.maxt + 1 < y.mint := by
  unfold Canon
  simp only [List.mem_cons, List.pairwise_cons, forall_eq_or_imp]
  constructor
  · rintro ⟨⟨h1, h2⟩, h3, h4⟩; exact ⟨h1, ⟨h2, h4⟩, h3⟩
  · rintro ⟨h1, ⟨h2, h4⟩, h3⟩; exact ⟨⟨h1, h2⟩, h3, h4⟩

/-- In a canonical list the head has the least `mint`. -/
theorem canon_head_le {B : Intervals} {a : Interval} (hc : Canon B) (ha : B.head? = some a) :
    a ∈ B ∧ ∀ x ∈ B, a.mint ≤ x.mint := by
  cases B with
  | nil => simp at ha
  | cons y ys =>
    simp only [List.head?_cons, Option.some.injEq] at ha
    subst ha
    obtain ⟨h1, _, h3⟩ := canon_cons.mp hc
    refine ⟨List.mem_cons_self, ?_⟩
    intro x hx
    rcases List.mem_cons.mp hx with rfl | hx
    · exact Int.le_refl _
    · have := h3 x hx; omega

/-- In a canonical list the last element has the greatest `maxt`. -/
theorem canon_last_ge {B : Intervals} {b : Interval} (hc : Canon B) (hb : B.getLast? = some b) :
    b ∈ B ∧ ∀ x ∈ B, x.maxt ≤ b.maxt := by
  obtain ⟨ys, rfl⟩ := List.getLast?_eq_some_iff.mp hb
  obtain ⟨_, h2, h3⟩ := canon_append.mp hc
  refine ⟨by simp, ?_⟩
  intro x hx
  rcases List.mem_append.mp hx with hx | hx
  · have := h3 x hx b (by simp)
    have := h2.valid b (by simp)
    omega
  · simp only [List.mem_singleton] at hx; subst hx; exact Int.le_refl _

/-- Abstract insertion (nothing overlapped or adjacent): `A ++ n :: C`. -/
theorem insert_core (A C : Intervals) (n : Interval) (hc : Canon (A ++ C)) (hn : n.mint ≤ n.maxt)
    (hA : ∀ x ∈ A, x.maxt + 1 < n.mint) (hC : ∀ x ∈ C, n.maxt + 1 < x.mint) :
    Canon (A ++ n :: C) ∧
    ∀ t, covers (A ++ n :: C) t ↔ covers (A ++ C) t ∨ (n.mint ≤ t ∧ t ≤ n.maxt) := by
  obtain ⟨hA', hC', hAC⟩ := canon_append.mp hc
  refine ⟨canon_append.mpr ⟨hA', canon_cons.mpr ⟨hn, hC', hC⟩, ?_⟩, ?_⟩
  · intro x hx y hy
    rcases List.mem_cons.mp hy with rfl | hy
    · exact hA x hx
    · exact hAC x hx y hy
  · intro t
    simp only [covers_append, covers_cons]
    constructor
    · rintro (h | h | h)
      · exact Or.inl (Or.inl h)
      · exact Or.inr h
      · exact Or.inl (Or.inr h)
    · rintro ((h | h) | h)
      · exact Or.inl h
      · exact Or.inr (Or.inr h)
      · exact Or.inr (Or.inl h)

/-- Abstract merge: `B` (non-empty, first `a`, last `b`) is the block of intervals overlapping or
    adjacent to `n`; it is replaced by the single interval `[min n.mint a.mint, max n.maxt b.maxt]`. -/
theorem merge_core (A B C : Intervals) (n a b : Interval) (hc : Canon (A ++ B ++ C))
    (hn : n.mint ≤ n.maxt)
    (hA : ∀ x ∈ A, x.maxt + 1 < n.mint) (hB1 : ∀ x ∈ B, n.mint ≤ x.maxt + 1)
    (hB2 : ∀ x ∈ B, x.mint ≤ n.maxt + 1) (hC : ∀ x ∈ C, n.maxt + 1 < x.mint)
    (ha : B.head? = some a) (hb : B.getLast? = some b) :
    Canon (A ++ (⟨if n.mint < a.mint then n.mint else a.mint, max n.maxt b.maxt⟩ : Interval) :: C) ∧
    ∀ t, covers (A ++ (⟨if n.mint < a.mint then n.mint else a.mint, max n.maxt b.maxt⟩ : Interval) :: C) t ↔
      covers (A ++ B ++ C) t ∨ (n.mint ≤ t ∧ t ≤ n.maxt) := by
  obtain ⟨hAB, hC', hABC⟩ := canon_append.mp hc
  obtain ⟨hA', hB', hAB'⟩ := canon_append.mp hAB
  obtain ⟨haB, hamin⟩ := canon_head_le hB' ha
  obtain ⟨hbB, hbmax⟩ := canon_last_ge hB' hb
  have hav := hB'.valid a haB
  have hbv := hB'.valid b hbB
  have hmin1 : (if n.mint < a.mint then n.mint else a.mint) ≤ n.mint := by split <;> omega
  have hmin2 : (if n.mint < a.mint then n.mint else a.mint) ≤ a.mint := by split <;> omega
  have hmin3 : (if n.mint < a.mint then n.mint else a.mint) = n.mint ∨
               (if n.mint < a.mint then n.mint else a.mint) = a.mint := by split <;> simp
  have hmax1 : n.maxt ≤ max n.maxt b.maxt := Int.le_max_left _ _
  have hmax2 : b.maxt ≤ max n.maxt b.maxt := Int.le_max_right _ _
  have hmax3 : max n.maxt b.maxt = n.maxt ∨ max n.maxt b.maxt = b.maxt := by omega
  refine ⟨canon_append.mpr ⟨hA', canon_cons.mpr ⟨by simp only; omega, hC', ?_⟩, ?_⟩, ?_⟩
  · intro y hy
    have h1 := hC y hy
    have h2 := hABC b (List.mem_append.mpr (Or.inr hbB)) y hy
    simp only; omega
  · intro x hx y hy
    rcases List.mem_cons.mp hy with rfl | hy
    · have h1 := hA x hx
      have h2 := hAB' x hx a haB
      simp only; omega
    · exact hABC x (List.mem_append.mpr (Or.inl hx)) y hy
  · intro t
    simp only [covers_append, covers_cons]
    constructor
    · rintro (h | ⟨h1, h2⟩ | h)
      · exact Or.inl (Or.inl (Or.inl h))
      · by_cases hin : n.mint ≤ t ∧ t ≤ n.maxt
        · exact Or.inr hin
        · left; left; right
          by_cases hlt : t < n.mint
          · exact ⟨a, haB, by omega, by have := hB1 a haB; omega⟩
          · exact ⟨b, hbB, by have := hB2 b hbB; omega, by omega⟩
      · exact Or.inl (Or.inr h)
    · rintro (((h | ⟨x, hx, h1, h2⟩) | h) | ⟨h1, h2⟩)
      · exact Or.inl h
      · right; left
        have := hamin x hx
        have := hbmax x hx
        omega
      · exact Or.inr (Or.inr h)
      · right; left; omega

end Prom.Intervals
