import PromModel.Tsdb.CompactionProtocol
/-
  Invariants of the compaction protocol (C06), part 1: the global invariant `GInv` (no readers involved)
  and its preservation by every maintenance step.
-/
namespace Prom.CompactionProtocol

/-- `s` is in a block of db.blocks. -/
def inDb (σ : State) (s : Sample) : Prop := ∃ b ∈ σ.blocks, s ∈ b.samples

/-- The covered line: every in-order sample below it is in db.blocks (after the swap of a head compaction
    with truncation time `T` that is `T`, even though head.MinTime() is still the old one). -/
def cov (σ : State) : Int :=
  match σ.mpc with
  | .hSwapped T | .hTimeStored T | .hFlagSet T | .hWaited T | .hMinSet T | .hGcDone T => max T σ.headMin
  | _ => σ.headMin

/-- Same for out-of-order chunk refs. -/
def ocov (σ : State) : Nat :=
  match σ.mpc with
  | .oSwapped r => max r σ.lastGC
  | _ => σ.lastGC

def Blk.wf (b : Blk) : Prop := ∀ s ∈ b.samples, b.lo ≤ s.t ∧ s.t ≤ b.hi

/-- What the pending job has established so far. -/
def pendingOk (σ : State) : Prop :=
  match σ.mpc with
  | .hWritten T b =>
    σ.headMin < T ∧ b.id ∉ σ.removed ∧ b.wf ∧ ∀ s ∈ σ.data, s.ooo = false → σ.headMin ≤ s.t → s.t < T → s ∈ b.samples
  | .hSwapped T | .hTimeStored T | .hFlagSet T | .hWaited T => σ.headMin < T
  | .oSnapped r => σ.lastGC < r ∨ r = 0
  | .oWritten r bs =>
    (σ.lastGC < r ∨ r = 0) ∧ (∀ b ∈ bs, b.id ∉ σ.removed) ∧
    (∀ b ∈ bs, b.wf) ∧ ∀ s ∈ σ.data, s.ooo = true → σ.oooGc < s.ref → s.ref ≤ r → ∃ b ∈ bs, s ∈ b.samples
  | .oSwapped r => σ.lastGC < r
  | .cWritten ps b =>
    ps ≠ [] ∧ b.wf ∧ b.id ∉ ps ∧ b.id ∉ σ.removed ∧ ∀ b' ∈ σ.blocks, b'.id ∈ ps → ∀ s ∈ b'.samples, s ∈ b.samples
  | .oLastGC r | .oWaited r => σ.lastGC = r
  | .deleting ps c => (∀ b ∈ σ.blocks, b.id ∉ ps) ∧ (∀ p, c = some p → p ∈ ps) ∧ ps ≠ []
  | _ => True

def flagOk (σ : State) : Prop :=
  match σ.mpc with
  | .hTimeStored T => σ.truncTime = T ∧ σ.inProcess = false
  | .hFlagSet T | .hWaited T | .hMinSet T | .hGcDone T => σ.truncTime = T ∧ σ.inProcess = true
  | _ => σ.inProcess = false

structure GInv (σ : State) : Prop where
  g0 : σ.headGc ≤ σ.headMin
  g1 : ∀ s ∈ σ.data, s.ooo = false → s ∉ σ.retired → s.t < cov σ → inDb σ s
  g2 : ∀ s ∈ σ.data, s.ooo = true → s ∉ σ.retired → s.ref ≤ ocov σ → inDb σ s
  g3 : ∀ s ∈ σ.data, s.ooo = true → σ.oooGc < s.ref → σ.oooLo ≤ s.t ∧ s.t ≤ σ.oooHi
  g4 : σ.oooGc ≤ σ.lastGC
  gw : ∀ b ∈ σ.blocks, b.wf
  g5 : ∀ b ∈ σ.blocks, b.id ∉ σ.removed
  gp : pendingOk σ
  gf : flagOk σ

theorem mstep_data (σ σ' : State) (a : MAct) (h : mstep σ a = some σ') : σ'.data = σ.data := by
  cases a <;> simp only [mstep] at h <;> (split at h <;> try (split at h)) <;> simp_all <;> (subst h; rfl)

theorem mkOOOBlock_wf (σ : State) (r : Nat) (m : Nat × Int × Int) : (mkOOOBlock σ r m).wf := by
  intro s hs
  simp only [mkOOOBlock, List.mem_filter, Bool.and_eq_true, decide_eq_true_eq] at hs
  exact ⟨hs.2.1.2, hs.2.2⟩

theorem mkOOOBlock_mem (σ : State) (r : Nat) (m : Nat × Int × Int) (s : Sample)
    (hs : s ∈ σ.data) (ho : s.ooo = true) (h1 : σ.oooGc < s.ref) (h2 : s.ref ≤ r)
    (h3 : m.2.1 ≤ s.t) (h4 : s.t ≤ m.2.2) : s ∈ (mkOOOBlock σ r m).samples := by
  simp only [mkOOOBlock, List.mem_filter, Bool.and_eq_true, decide_eq_true_eq]
  exact ⟨hs, ⟨⟨⟨⟨ho, h1⟩, h2⟩, h3⟩, h4⟩⟩

set_option maxHeartbeats 1000000 in
theorem mstep_ginv (σ σ' : State) (a : MAct) (hi : GInv σ) (h : mstep σ a = some σ') : GInv σ' := by
  obtain ⟨g0, g1, g2, g3, g4, gw, g5, gp, gf⟩ := hi
  cases a
  case oWrite metas =>
    simp only [mstep] at h
    split at h <;> (try (simp at h; done))
    split at h <;> (try (simp at h; done))
    rename_i r heq hg
    simp only [Option.some.injEq] at h
    subst h
    simp only [Bool.and_eq_true, List.all_eq_true, Bool.or_eq_true, Bool.not_eq_eq_eq_not, Bool.not_true,
      decide_eq_true_eq, List.any_eq_true] at hg
    constructor <;> (simp only [pendingOk, flagOk, cov, ocov, inDb, Blk.wf, heq] at *) <;> (try grind)
    refine ⟨gp, ?_, ?_, ?_⟩
    · intro b hb
      simp only [List.mem_map] at hb
      obtain ⟨m, hm, rfl⟩ := hb
      have := hg.2 m hm
      simp [mkOOOBlock] at this ⊢
      exact this.2
    · intro b hb
      simp only [List.mem_map] at hb
      obtain ⟨m, _, rfl⟩ := hb
      exact mkOOOBlock_wf σ r m
    · intro s hs ho h1 h2
      rcases hg.1 s hs with ((h | h) | h) | ⟨m, hm, h⟩
      · simp [ho] at h
      · omega
      · omega
      · exact ⟨mkOOOBlock σ r m, List.mem_map.mpr ⟨m, hm, rfl⟩, mkOOOBlock_mem σ r m s hs ho h1 h2 h.1 h.2⟩
  all_goals (
    simp only [mstep] at h
    split at h <;> (try (simp at h; done)) <;> (try split at h) <;> (try (simp at h; done)))
  all_goals (
    simp only [Option.some.injEq] at h
    subst h
    constructor <;>
      (simp only [pendingOk, flagOk, cov, ocov, inDb, Blk.wf, List.mem_append, List.mem_flatMap,
        List.mem_filter, not_or, not_exists, not_and, List.isEmpty_iff] at *) <;> grind)

end Prom.CompactionProtocol
