import PromProofs.HistHint
import PromProofs.HistChunkRT
/-
  C11 stage 2, bridge: the chunks the layout-level appender builds from valid, small integer histograms have
  the shape `histchunk_roundtrip` needs (`ChunkOk`).
-/
namespace Prom.HistChunk
open Prom.Bits Prom.Hist

/-- a span list that fits the layout encoding, over strictly increasing bucket indices inside ±2^40 -/
def LayoutBound (S : List Span) : Prop :=
  SpanListEnc S ∧ (∀ i ∈ idxs S, -(2 ^ 40 : Int) < i ∧ i < 2 ^ 40) ∧ (idxs S).Pairwise (· < ·)

theorem LayoutBound.nil : LayoutBound [] :=
  ⟨⟨by simp, by simp⟩, by simp [idxs, idxsFrom], by simp [idxs, idxsFrom]⟩

theorem LayoutBound.of_src {cS hS S : List Span} (hc : LayoutBound cS) (hh : LayoutBound hS) (src : SpanSrc cS hS S) :
    LayoutBound S := by
  rcases src with rfl | rfl | ⟨hlp, hi⟩
  · exact hc
  · exact hh
  · have hb : ∀ i ∈ idxs S, -(2 ^ 40 : Int) < i ∧ i < 2 ^ 40 := by
      intro i hi'; rw [hi] at hi'
      rcases (mem_mergeU_iff _ _ i).1 hi' with h | h
      · exact hc.2.1 i h
      · exact hh.2.1 i h
    have hs : (idxs S).Pairwise (· < ·) := by rw [hi]; exact mergeU_sorted _ _ hc.2.2 hh.2.2
    exact ⟨spanListEnc_of_lenPos S hlp hs hb, hb, hs⟩

/-- an appended integer histogram far inside the int64 range -/
structure SmallH (th : Int × Hist) : Prop where
  t : Sm th.1
  int : th.2.float = false
  sum : th.2.sum < 2 ^ 64
  cnt : th.2.count < 2 ^ 61
  zcnt : th.2.zcount < 2 ^ 61
  zt : th.2.zt < 2 ^ 64
  schema : I64 th.2.schema ∧ th.2.schema ≠ customSchema
  spans : LayoutBound th.2.pSpans ∧ LayoutBound th.2.nSpans
  pAbs : ∀ v ∈ prefixSums th.2.pB, 0 ≤ v ∧ v < 2 ^ 60
  nAbs : ∀ v ∈ prefixSums th.2.nB, 0 ≤ v ∧ v < 2 ^ 60

theorem deltas_small : ∀ (l : List Int) (a : Int), (0 ≤ a ∧ a < 2 ^ 60) →
    (∀ v ∈ prefixFrom a l, 0 ≤ v ∧ v < 2 ^ 60) → ∀ d ∈ l, Sm d
  | [], _, _, _, d, hd => by simp at hd
  | x :: r, a, ha, h, d, hd => by
    have hx := h (a + x) (by simp [prefixFrom])
    rcases List.mem_cons.1 hd with rfl | hd
    · simp only [Sm]; omega
    · exact deltas_small r (a + x) hx (fun v hv => h v (by simp [prefixFrom, hv])) d hd

theorem mem_zip_of_mem_right {α β : Type} : ∀ (A : List α) (B : List β), A.length = B.length → ∀ v ∈ B,
    ∃ a, (a, v) ∈ A.zip B
  | [], [], _, v, hv => by simp at hv
  | [], _ :: _, h, _, _ => by simp at h
  | _ :: _, [], h, _, _ => by simp at h
  | a :: A, b :: B, h, v, hv => by
    rcases List.mem_cons.1 hv with rfl | hv
    · exact ⟨a, by simp⟩
    · obtain ⟨a', ha'⟩ := mem_zip_of_mem_right A B (by simpa using h) v hv
      exact ⟨a', by simp [ha']⟩

/-- the absolute bucket values of a stored sample are 0 or absolute values of the histogram it represents -/
theorem abs_of_bucketMap (sA sB : List Span) (xs ys : List Int) (hl : xs.length = (idxs sA).length)
    (hm : bucketMap false sA xs = bucketMap false sB ys) : ∀ v ∈ prefixSums xs, v = 0 ∨ v ∈ prefixSums ys := by
  intro v hv
  by_cases hz : v = 0
  · exact Or.inl hz
  · right
    obtain ⟨i, hi⟩ := mem_zip_of_mem_right (idxs sA) (prefixSums xs) (by rw [prefixSums, prefixFrom_length, hl]) v hv
    have : (i, v) ∈ bucketMap false sA xs := by
      simp only [bucketMap, absVals, Bool.false_eq_true, if_false, List.mem_filter]
      exact ⟨hi, by simp [vZero, hz]⟩
    rw [hm] at this
    simp only [bucketMap, absVals, Bool.false_eq_true, if_false, List.mem_filter] at this
    exact (List.of_mem_zip this.1).2

theorem sufOk_of (c : Chunk) : ∀ (stored : List Stored) (ths : List (Int × Hist)) (s0 : Stored) (th0 : Int × Hist) (g : Bool),
    Rep c s0 th0 → All2 (Rep c) stored ths → AdjOkF g (th0 :: ths) → SufOk s0.sum stored
  | [], [], _, _, _, _, _, _ => trivial
  | [], _ :: _, _, _, _, _, h, _ => h.elim
  | _ :: _, [], _, _, _, _, h, _ => h.elim
  | s :: stored, th :: ths, s0, th0, g, r0, h, hadj => by
    refine ⟨fun hs0 => ?_, sufOk_of c stored ths s th g h.1 h.2 hadj.2⟩
    have h0 : th0.2.stale = true := by
      cases e : th0.2.stale with
      | true => rfl
      | false => exact absurd hs0 (r0.2.2 e).1
    exact h.1.2.1 (hadj.1.1 h0)

/-- **bridge.**  A chunk holding valid, small integer histograms (`CInv`), whose layout is encodable and which
    has fewer than 2^16 samples, has the shape the bit-level round trip needs. -/
theorem chunkOk_of_inv (c : Chunk) (l : List (Int × Hist)) (inv : CInv c l) (hsm : ∀ p ∈ l, SmallH p)
    (hne : c.rev ≠ []) (hnum : c.num < 65536) (hlay : LayoutOk (layoutOf c)) :
    ∃ s0 ss, ChunkOk c s0 ss := by
  have hrep := All2.reverse inv.rep
  have hadj := AdjOk.toF l inv.adj
  have hrr : c.rev.reverse ≠ [] := by simpa using hne
  obtain ⟨s0, ss, hrev⟩ := List.exists_cons_of_ne_nil hrr
  rw [hrev] at hrep
  cases hl : l.reverse with
  | nil => rw [hl] at hrep; exact hrep.elim
  | cons th0 ths =>
    rw [hl] at hrep hadj
    have hmem0 : th0 ∈ l := by
      have : th0 ∈ l.reverse := by rw [hl]; simp
      simpa using this
    have hflt : c.float = false := by rw [← inv.flt th0 hmem0]; exact (hsm th0 hmem0).int
    have hlast : c.rev.getLast? = some s0 := by
      have := congrArg List.head? hrev
      simpa [List.head?_reverse] using this
    -- every stored sample is fine
    have hsamples : ∀ s ∈ s0 :: ss, SOk (countSpans c.pSpans) (countSpans c.nSpans) s := by
      intro s hs
      have hsrev : s ∈ c.rev := by
        have : s ∈ c.rev.reverse := by rw [hrev]; exact hs
        simpa using this
      obtain ⟨th, hth, hr⟩ := All2.mem_left hrep s hs
      have hthl : th ∈ l := by
        have : th ∈ l.reverse := by rw [hl]; exact hth
        simpa using this
      have sm := hsm th hthl
      cases hst : th.2.stale with
      | true =>
        have hss := hr.2.1 hst
        obtain ⟨c0, z0, p0, n0⟩ := inv.staleForm s hsrev hss
        exact ⟨by rw [hr.1]; exact sm.t, by rw [c0]; decide, by rw [z0]; decide, by rw [hss]; exact staleBits_lt,
          fun _ => ⟨c0, z0, p0, n0⟩, fun h => absurd hss h⟩
      | false =>
        obtain ⟨hlive, hsem, hlp, hln⟩ := hr.2.2 hst
        have hc : s.count = th.2.count := by
          have := congrArg Sem.count hsem; simpa [Chunk.histOf, hlive, Hist.sem] using this
        have hz : s.zcount = th.2.zcount := by
          have := congrArg Sem.zcount hsem; simpa [Chunk.histOf, hlive, Hist.sem] using this
        have hsum : s.sum = th.2.sum := by
          have := congrArg Sem.sum hsem; simpa [Chunk.histOf, hlive, Hist.sem] using this
        have hp : bucketMap false c.pSpans s.pB = bucketMap false th.2.pSpans th.2.pB := by
          have := congrArg Sem.pos hsem
          simpa [Chunk.histOf, hlive, Hist.sem, hflt, sm.int] using this
        have hn : bucketMap false c.nSpans s.nB = bucketMap false th.2.nSpans th.2.nB := by
          have := congrArg Sem.neg hsem
          simpa [Chunk.histOf, hlive, Hist.sem, hflt, sm.int] using this
        have hpa : ∀ v ∈ prefixFrom 0 s.pB, 0 ≤ v ∧ v < 2 ^ 60 := by
          intro v hv
          rcases abs_of_bucketMap _ _ _ _ hlp hp v hv with h0 | h1
          · subst h0; omega
          · exact sm.pAbs v h1
        have hna : ∀ v ∈ prefixFrom 0 s.nB, 0 ≤ v ∧ v < 2 ^ 60 := by
          intro v hv
          rcases abs_of_bucketMap _ _ _ _ hln hn v hv with h0 | h1
          · subst h0; omega
          · exact sm.nAbs v h1
        exact ⟨by rw [hr.1]; exact sm.t, by rw [hc]; exact sm.cnt, by rw [hz]; exact sm.zcnt, by rw [hsum]; exact sm.sum,
          fun h => absurd h hlive,
          fun _ => ⟨by rw [hlp, countSpans_eq], by rw [hln, countSpans_eq],
            deltas_small _ 0 (by omega) hpa, deltas_small _ 0 (by omega) hna⟩⟩
    refine ⟨s0, ss, hflt, hnum, hlay, hrev, ?_, hsamples, sufOk_of c ss ths s0 th0 _ hrep.1 hrep.2 hadj⟩
    -- the first sample fills the layout exactly
    have h0 := hsamples s0 (by simp)
    by_cases hst : s0.sum = staleBits
    · obtain ⟨_, _, p0, n0⟩ := h0.stale hst
      obtain ⟨e1, e2, _⟩ := inv.staleFirst s0 hlast hst
      simp [p0, n0, e1, e2, countSpans]
    · exact ⟨(h0.live hst).1, (h0.live hst).2.1⟩

/-- the span lists of the chunk's (merged) layout fit the layout encoding -/
structure SpansEnc (c : Chunk) : Prop where
  p : ∀ s ∈ c.pSpans, SpanOk s
  n : ∀ s ∈ c.nSpans, SpanOk s
  pl : c.pSpans.length < 2 ^ 64
  nl : c.nSpans.length < 2 ^ 64

/-- the key part of the layout (threshold, schema, no custom bounds) is encodable for every reachable chunk -/
theorem layoutOk_of_inv (c : Chunk) (l : List (Int × Hist)) (inv : CInv c l)
    (hsm : ∀ p ∈ l, p.2.zt < 2 ^ 64 ∧ I64 p.2.schema ∧ p.2.schema ≠ customSchema)
    (hne : c.rev ≠ []) (hsp : SpansEnc c) : LayoutOk (layoutOf c) := by
  have hrep := All2.reverse inv.rep
  have hrr : c.rev.reverse ≠ [] := by simpa using hne
  obtain ⟨s0, ss, hrev⟩ := List.exists_cons_of_ne_nil hrr
  rw [hrev] at hrep
  cases hl : l.reverse with
  | nil => rw [hl] at hrep; exact hrep.elim
  | cons th0 ths =>
    rw [hl] at hrep
    have hmem0 : th0 ∈ l := by
      have : th0 ∈ l.reverse := by rw [hl]; simp
      simpa using this
    have hlast : c.rev.getLast? = some s0 := by
      have := congrArg List.head? hrev
      simpa [List.head?_reverse] using this
    have sm := hsm th0 hmem0
    cases hst : th0.2.stale with
    | true =>
      obtain ⟨_, _, e3, e4, e5⟩ := inv.staleFirst s0 hlast (hrep.1.2.1 hst)
      exact ⟨by simp [layoutOf, e4], by simp [layoutOf, e4], by simp [layoutOf, e3, I64, two63],
        by simp [layoutOf, e3, customSchema], by simp [layoutOf, e5], hsp.p, hsp.n, hsp.pl, hsp.nl⟩
    | false =>
      obtain ⟨_, ksch, kzt, kcu, _⟩ := key_of_rep c s0 th0 hrep.1 hst
      have w := inv.wf th0 hmem0 hst
      refine ⟨by simp only [layoutOf]; rw [kzt]; exact sm.1, ?_, by simp only [layoutOf]; rw [ksch]; exact sm.2.1,
        by simp only [layoutOf]; rw [ksch]; exact sm.2.2, ?_, hsp.p, hsp.n, hsp.pl, hsp.nl⟩
      · simp only [layoutOf]; rw [kzt]; exact w.zt
      · simp only [layoutOf]; rw [kcu]; exact w.customNil sm.2.2

/-- chunks of a series never hold more than 65535 samples (the appender panics first) and are never empty -/
theorem runSeries_sizes : ∀ (ops : List ((Int × Hist) × Bool)) (s0 : Series) (gs : List (List (Int × Hist))),
    SInv s0 gs → (∀ g ∈ gs, g ≠ [] ∧ g.length ≤ 65535) → (∀ p ∈ ops, WFs p.1.2) → ∀ s, runSeries ops s0 = .ok s →
    ∃ gs', SInv s gs' ∧ gs'.flatten = (ops.map (·.1)).reverse ++ gs.flatten ∧ ∀ g ∈ gs', g ≠ [] ∧ g.length ≤ 65535
  | [], s0, gs, inv, hsz, _, s, h => by
    simp [runSeries, pure, Except.pure] at h; subst h; exact ⟨gs, inv, by simp, hsz⟩
  | p :: ops, s0, gs, inv, hsz, hwf, s, h => by
    simp only [runSeries, List.foldlM_cons] at h
    obtain ⟨s1, h1, h2⟩ := bind_ok _ _ _ h
    cases ha : s0.append p.2 p.1.1 p.1.2 with
    | error e => simp [ha, Except.map] at h1
    | ok res =>
      obtain ⟨s1', h', o⟩ := res
      simp [ha, Except.map] at h1; subst h1
      obtain ⟨⟨gs1, inv1, hf1, hshape⟩, _, _⟩ := Series.append_inv s0 gs inv p.2 p.1.1 p.1.2 (hwf p (by simp)) _ _ _ ha
      have hsz1 : ∀ g ∈ gs1, g ≠ [] ∧ g.length ≤ 65535 := by
        rcases hshape with rfl | ⟨g, rest, rfl, rfl, hg⟩
        · intro g hg; rcases List.mem_cons.1 hg with rfl | hg
          · simp
          · exact hsz g hg
        · intro g' hg'; rcases List.mem_cons.1 hg' with rfl | hg'
          · have := (hsz g (by simp)).2
            exact ⟨by simp, by simp only [List.length_cons]; omega⟩
          · exact hsz g' (by simp [hg'])
      obtain ⟨gs', inv', hf', hsz'⟩ := runSeries_sizes ops s1' gs1 inv1 hsz1 (fun q hq => hwf q (by simp [hq])) s h2
      exact ⟨gs', inv', by rw [hf', hf1]; simp, hsz'⟩

/-- **From appended histograms to bytes and back.**  Every chunk of a head series built from valid, small integer
    histograms, whose (merged) layout is encodable, is decoded from its bytes exactly. -/
theorem series_bytes_roundtrip (ops : List ((Int × Hist) × Bool)) (s : Series) (hwf : ∀ p ∈ ops, WFs p.1.2)
    (hsm : ∀ p ∈ ops, SmallH p.1) (hrun : runSeries ops Series.empty = .ok s) :
    ∀ c ∈ s.chunks, SpansEnc c → decodeChunk (encodeChunk c) = some c := by
  intro c hc hsp
  obtain ⟨gs, inv, hf, hsz⟩ := runSeries_sizes ops Series.empty [] trivial (by simp) hwf s hrun
  have hc' : c ∈ s.cur.toList ++ s.done := by
    have : c ∈ (s.cur.toList ++ s.done).reverse := hc
    exact List.mem_reverse.1 this
  obtain ⟨g, hg, ci⟩ := All2.mem_left inv c hc'
  have hgl : c.num = g.length := All2.length ci.rep
  obtain ⟨hgne, hgle⟩ := hsz g hg
  have hne : c.rev ≠ [] := by
    intro e; apply hgne
    have : g.length = 0 := by rw [← hgl]; simp [Chunk.num, e]
    exact List.eq_nil_of_length_eq_zero this
  have hsmall : ∀ p ∈ g, SmallH p := by
    intro p hp
    have : p ∈ gs.flatten := List.mem_flatten.2 ⟨g, hg, hp⟩
    rw [hf] at this
    simp only [List.flatten_nil, List.append_nil, List.mem_reverse, List.mem_map] at this
    obtain ⟨q, hq, rfl⟩ := this
    exact hsm q hq
  obtain ⟨s0, ss, ok⟩ := chunkOk_of_inv c g ci hsmall hne (by omega)
    (layoutOk_of_inv c g ci (fun p hp => ⟨(hsmall p hp).zt, (hsmall p hp).schema⟩) hne hsp)
  exact decodeChunk_encodeChunk c s0 ss ok

end Prom.HistChunk

namespace Prom.HistChunk
open Prom.Bits Prom.Hist

/-- which chunks a series holds after one `memSeries.appendHistogram`, as far as layouts are concerned -/
theorem Series.append_layouts (s : Series) (gs : List (List (Int × Hist))) (inv : SInv s gs) (cut : Bool) (t : Int)
    (h : Hist) (hwf : WFs h) (s' : Series) (h' : Hist) (o : Outcome) (hr : s.append cut t h = .ok (s', h', o)) :
    ∀ c' ∈ s'.cur.toList ++ s'.done, c' ∈ s.cur.toList ++ s.done ∨ FreshSpans h c' ∨
      ∃ c ∈ s.cur.toList ++ s.done, ∃ g, CInv c g ∧ SpanSrc c.pSpans h.pSpans c'.pSpans ∧
        SpanSrc c.nSpans h.nSpans c'.nSpans := by
  unfold Series.append at hr
  have fresh : ∀ (prev : Option Chunk) (r : AppRes), appendHist prev (Chunk.empty h.float) t h = .ok r →
      FreshSpans h r.chunk := by
    intro prev r hr1
    obtain ⟨_, _, _, k4⟩ := appendHist_step' prev _ [] (CInv.empty h.float) t h hwf rfl r hr1 (fun hx => absurd rfl hx)
    rcases k4 with ⟨s1, s2⟩ | f
    · -- the empty chunk has no spans: a source equal to them is the staleness/empty case, else the histogram's
      have e1 : (Chunk.empty h.float).pSpans = [] := rfl
      have e2 : (Chunk.empty h.float).nSpans = [] := rfl
      obtain ⟨_, hdr, rc⟩ := appendHist_empty prev _ rfl t h r hr1
      rw [rc]; exact freshSpans_appendRaw _ rfl t h
    · exact f
  cases hc : s.cur with
  | none =>
    simp only [hc] at hr
    obtain ⟨r, hr1, hr2⟩ := bind_ok _ _ _ hr
    simp [pure, Except.pure] at hr2
    obtain ⟨rfl, rfl, rfl⟩ := hr2
    intro c' hc'
    simp only [Option.toList_some, List.singleton_append, List.mem_cons, Option.toList_none, List.nil_append] at hc' ⊢
    rcases hc' with rfl | hc'
    · exact Or.inr (Or.inl (fresh none r hr1))
    · exact Or.inl hc'
  | some c =>
    simp only [hc] at hr
    simp only [SInv, hc, Option.toList_some, List.singleton_append] at inv
    cases gs with
    | nil => exact inv.elim
    | cons g gs =>
      by_cases hcut : (cut || c.float != h.float) = true
      · rw [if_pos (by simpa using hcut)] at hr
        obtain ⟨r, hr1, hr2⟩ := bind_ok _ _ _ hr
        simp [pure, Except.pure] at hr2
        obtain ⟨rfl, rfl, rfl⟩ := hr2
        intro c' hc'
        simp only [Option.toList_some, List.singleton_append, List.mem_cons] at hc' ⊢
        rcases hc' with rfl | rfl | hc'
        · exact Or.inr (Or.inl (fresh (some c) r hr1))
        · exact Or.inl (Or.inl rfl)
        · exact Or.inl (Or.inr hc')
      · rw [if_neg (by simpa using hcut)] at hr
        have hfl : h.float = c.float := by
          simp only [Bool.or_eq_true, bne_iff_ne, ne_eq, not_or, Bool.not_eq_true, Decidable.not_not] at hcut
          exact hcut.2.symm
        obtain ⟨r, hr1, hr2⟩ := bind_ok _ _ _ hr
        obtain ⟨_, _, _, k4⟩ := appendHist_step' none c g inv.1 t h hwf hfl r hr1 (fun _ => rfl)
        have hnew : FreshSpans h r.chunk ∨ ∃ c0 ∈ c :: s.done, ∃ g0, CInv c0 g0 ∧
            SpanSrc c0.pSpans h.pSpans r.chunk.pSpans ∧ SpanSrc c0.nSpans h.nSpans r.chunk.nSpans := by
          rcases k4 with sp | f
          · exact Or.inr ⟨c, by simp, g, inv.1, sp.1, sp.2⟩
          · exact Or.inl f
        intro c' hc'
        simp only [Option.toList_some, List.singleton_append] at ⊢
        cases ho : r.out with
        | newChunk =>
          simp [ho, pure, Except.pure] at hr2
          obtain ⟨rfl, rfl, rfl⟩ := hr2
          simp only [Option.toList_some, List.singleton_append, List.mem_cons] at hc' ⊢
          rcases hc' with rfl | rfl | hc'
          · exact Or.inr (by simpa using hnew)
          · exact Or.inl (Or.inl rfl)
          · exact Or.inl (Or.inr hc')
        | same =>
          simp [ho, pure, Except.pure] at hr2
          obtain ⟨rfl, rfl, rfl⟩ := hr2
          simp only [Option.toList_some, List.singleton_append, List.mem_cons] at hc' ⊢
          rcases hc' with rfl | hc'
          · exact Or.inr (by simpa using hnew)
          · exact Or.inl (Or.inr hc')
        | recoded =>
          simp [ho, pure, Except.pure] at hr2
          obtain ⟨rfl, rfl, rfl⟩ := hr2
          simp only [Option.toList_some, List.singleton_append, List.mem_cons] at hc' ⊢
          rcases hc' with rfl | hc'
          · exact Or.inr (by simpa using hnew)
          · exact Or.inl (Or.inr hc')

/-- every chunk layout of a series built from histograms with bounded layouts is bounded -/
theorem runSeries_layouts : ∀ (ops : List ((Int × Hist) × Bool)) (s0 : Series) (gs : List (List (Int × Hist))),
    SInv s0 gs → (∀ c ∈ s0.cur.toList ++ s0.done, LayoutBound c.pSpans ∧ LayoutBound c.nSpans) →
    (∀ p ∈ ops, WFs p.1.2 ∧ LayoutBound p.1.2.pSpans ∧ LayoutBound p.1.2.nSpans) → ∀ s, runSeries ops s0 = .ok s →
    ∀ c ∈ s.cur.toList ++ s.done, LayoutBound c.pSpans ∧ LayoutBound c.nSpans
  | [], s0, gs, _, hlb, _, s, h => by
    simp [runSeries, pure, Except.pure] at h; subst h; exact hlb
  | p :: ops, s0, gs, inv, hlb, hops, s, h => by
    simp only [runSeries, List.foldlM_cons] at h
    obtain ⟨s1, h1, h2⟩ := bind_ok _ _ _ h
    cases ha : s0.append p.2 p.1.1 p.1.2 with
    | error e => simp [ha, Except.map] at h1
    | ok res =>
      obtain ⟨s1', h', o⟩ := res
      simp [ha, Except.map] at h1; subst h1
      obtain ⟨hw, hbp, hbn⟩ := hops p (by simp)
      obtain ⟨⟨gs1, inv1, _, _⟩, _, _⟩ := Series.append_inv s0 gs inv p.2 p.1.1 p.1.2 hw _ _ _ ha
      have hl := Series.append_layouts s0 gs inv p.2 p.1.1 p.1.2 hw _ _ _ ha
      have hlb1 : ∀ c ∈ s1'.cur.toList ++ s1'.done, LayoutBound c.pSpans ∧ LayoutBound c.nSpans := by
        intro c hc
        rcases hl c hc with hold | hf | ⟨c0, hc0, g0, _, sp, sn⟩
        · exact hlb c hold
        · rcases hf with ⟨e1, e2⟩ | ⟨e1, e2⟩
          · rw [e1, e2]; exact ⟨hbp, hbn⟩
          · rw [e1, e2]; exact ⟨LayoutBound.nil, LayoutBound.nil⟩
        · exact ⟨(hlb c0 hc0).1.of_src hbp sp, (hlb c0 hc0).2.of_src hbn sn⟩
      exact runSeries_layouts ops s1' gs1 inv1 hlb1 (fun q hq => hops q (by simp [hq])) s h2

/-- **From appended histograms to bytes and back**, hypotheses on the inputs only. -/
theorem series_bytes_roundtrip' (ops : List ((Int × Hist) × Bool)) (s : Series) (hwf : ∀ p ∈ ops, WFs p.1.2)
    (hsm : ∀ p ∈ ops, SmallH p.1) (hrun : runSeries ops Series.empty = .ok s) :
    ∀ c ∈ s.chunks, decodeChunk (encodeChunk c) = some c := by
  intro c hc
  have hc' : c ∈ s.cur.toList ++ s.done := by
    have : c ∈ (s.cur.toList ++ s.done).reverse := hc
    exact List.mem_reverse.1 this
  have hlb := runSeries_layouts ops Series.empty [] trivial (by simp [Series.empty])
    (fun p hp => ⟨hwf p hp, (hsm p hp).spans.1, (hsm p hp).spans.2⟩) s hrun c hc'
  exact series_bytes_roundtrip ops s hwf hsm hrun c hc
    ⟨hlb.1.1.1, hlb.2.1.1, hlb.1.1.2, hlb.2.1.2⟩

/-! ## float flavour -/

/-- an appended float histogram: every value is a 64-bit pattern -/
structure SmallHF (th : Int × Hist) : Prop where
  t : Sm th.1
  flt : th.2.float = true
  sum : th.2.sum < 2 ^ 64
  cnt : th.2.count < 2 ^ 64
  zcnt : th.2.zcount < 2 ^ 64
  zt : th.2.zt < 2 ^ 64
  schema : I64 th.2.schema ∧ th.2.schema ≠ customSchema
  spans : LayoutBound th.2.pSpans ∧ LayoutBound th.2.nSpans
  pV : ∀ b ∈ th.2.pB, 0 ≤ b ∧ b < 2 ^ 64
  nV : ∀ b ∈ th.2.nB, 0 ≤ b ∧ b < 2 ^ 64

theorem All2.and' {α β : Type} {R S : α → β → Prop} : ∀ {as : List α} {bs : List β},
    All2 R as bs → All2 S as bs → All2 (fun a b => R a b ∧ S a b) as bs
  | [], [], _, _ => trivial
  | [], _ :: _, h, _ => h.elim
  | _ :: _, [], h, _ => h.elim
  | _ :: _, _ :: _, h1, h2 => ⟨⟨h1.1, h2.1⟩, All2.and' h1.2 h2.2⟩

theorem chunkOkF_of_inv (c : Chunk) (l : List (Int × Hist)) (inv : CInv c l) (hsm : ∀ p ∈ l, SmallHF p)
    (hne : c.rev ≠ []) (hnum : c.num < 65536) (hlay : LayoutOk (layoutOf c)) :
    ∃ s0 ss, ChunkOkF c s0 ss := by
  have hrr : c.rev.reverse ≠ [] := by simpa using hne
  obtain ⟨s0, ss, hrev⟩ := List.exists_cons_of_ne_nil hrr
  obtain ⟨sl, rl, hrevl⟩ := List.exists_cons_of_ne_nil hne
  cases hl : l with
  | nil => have := inv.rep; rw [hl, hrevl] at this; exact this.elim
  | cons th1 l1 =>
    have hflt : c.float = true := by
      rw [← inv.flt th1 (by rw [hl]; simp)]; exact (hsm th1 (by rw [hl]; simp)).flt
    have hboth := All2.and' inv.rep (inv.vals hflt)
    have hlast : c.rev.getLast? = some s0 := by
      have := congrArg List.head? hrev
      simpa [List.head?_reverse] using this
    have hsamples : ∀ s ∈ s0 :: ss, SOkF (countSpans c.pSpans) (countSpans c.nSpans) s := by
      intro s hs
      have hsrev : s ∈ c.rev := by
        have : s ∈ c.rev.reverse := by rw [hrev]; exact hs
        simpa using this
      obtain ⟨th, hthl, hr, hv⟩ := All2.mem_left hboth s hsrev
      have sm := hsm th hthl
      cases hst : th.2.stale with
      | true =>
        have hss := hr.2.1 hst
        obtain ⟨c0, z0, p0, n0⟩ := inv.staleForm s hsrev hss
        exact ⟨by rw [hr.1]; exact sm.t, by rw [c0]; decide, by rw [z0]; decide, by rw [hss]; exact staleBits_lt,
          fun _ => ⟨c0, z0, p0, n0⟩, fun h => absurd hss h⟩
      | false =>
        obtain ⟨hlive, hsem, hlp, hln⟩ := hr.2.2 hst
        have hc : s.count = th.2.count := by
          have := congrArg Sem.count hsem; simpa [Chunk.histOf, hlive, Hist.sem] using this
        have hz : s.zcount = th.2.zcount := by
          have := congrArg Sem.zcount hsem; simpa [Chunk.histOf, hlive, Hist.sem] using this
        have hsum : s.sum = th.2.sum := by
          have := congrArg Sem.sum hsem; simpa [Chunk.histOf, hlive, Hist.sem] using this
        exact ⟨by rw [hr.1]; exact sm.t, by rw [hc]; exact sm.cnt, by rw [hz]; exact sm.zcnt, by rw [hsum]; exact sm.sum,
          fun h => absurd h hlive,
          fun _ => ⟨by rw [hlp, countSpans_eq], by rw [hln, countSpans_eq],
            fun v hv' => (hv.1 v hv').elim (fun h0 => by subst h0; omega) (fun hm => sm.pV v hm),
            fun v hv' => (hv.2 v hv').elim (fun h0 => by subst h0; omega) (fun hm => sm.nV v hm)⟩⟩
    refine ⟨s0, ss, hflt, hnum, hlay, hrev, ?_, hsamples⟩
    have h0 := hsamples s0 (by simp)
    by_cases hst : s0.sum = staleBits
    · obtain ⟨_, _, p0, n0⟩ := h0.stale hst
      obtain ⟨e1, e2, _⟩ := inv.staleFirst s0 hlast hst
      simp [p0, n0, e1, e2, countSpans]
    · exact ⟨(h0.live hst).1, (h0.live hst).2.1⟩

/-- **From appended float histograms to bytes and back.** -/
theorem series_bytes_roundtrip_float (ops : List ((Int × Hist) × Bool)) (s : Series) (hwf : ∀ p ∈ ops, WFs p.1.2)
    (hsm : ∀ p ∈ ops, SmallHF p.1) (hrun : runSeries ops Series.empty = .ok s) :
    ∀ c ∈ s.chunks, decodeChunkF (encodeChunk c) = some c := by
  intro c hc
  obtain ⟨gs, inv, hf, hsz⟩ := runSeries_sizes ops Series.empty [] trivial (by simp) hwf s hrun
  have hc' : c ∈ s.cur.toList ++ s.done := by
    have : c ∈ (s.cur.toList ++ s.done).reverse := hc
    exact List.mem_reverse.1 this
  obtain ⟨g, hg, ci⟩ := All2.mem_left inv c hc'
  have hgl : c.num = g.length := All2.length ci.rep
  obtain ⟨hgne, hgle⟩ := hsz g hg
  have hne : c.rev ≠ [] := by
    intro e; apply hgne
    have : g.length = 0 := by rw [← hgl]; simp [Chunk.num, e]
    exact List.eq_nil_of_length_eq_zero this
  have hsmall : ∀ p ∈ g, SmallHF p := by
    intro p hp
    have : p ∈ gs.flatten := List.mem_flatten.2 ⟨g, hg, hp⟩
    rw [hf] at this
    simp only [List.flatten_nil, List.append_nil, List.mem_reverse, List.mem_map] at this
    obtain ⟨q, hq, rfl⟩ := this
    exact hsm q hq
  have hlb := runSeries_layouts ops Series.empty [] trivial (by simp [Series.empty])
    (fun p hp => ⟨hwf p hp, (hsm p hp).spans.1, (hsm p hp).spans.2⟩) s hrun c hc'
  have hlay := layoutOk_of_inv c g ci (fun p hp => ⟨(hsmall p hp).zt, (hsmall p hp).schema⟩) hne
    ⟨hlb.1.1.1, hlb.2.1.1, hlb.1.1.2, hlb.2.1.2⟩
  obtain ⟨s0, ss, ok⟩ := chunkOkF_of_inv c g ci hsmall hne (by omega) hlay
  exact decodeChunkF_encodeChunk c s0 ss ok

end Prom.HistChunk
