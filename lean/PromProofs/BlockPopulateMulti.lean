import PromModel.Tsdb.BlockPopulate
import PromProofs.BlockPopulate
import PromProofs.BlockPopulateSeries
import PromProofs.BlockPopulateSingle
import PromProofs.MergeSets
import PromProofs.MergeChunks
import PromProofs.MergeSeek
/-
  C07: several source blocks under the compacting merger.  Built on C19's theorems about the merged
  series set (`merge_sets_spec`) and the compacting chunk merger (`compactAll_spec`).
-/
namespace Prom.BlockPopulate
open Prom.Merge
open Prom.Intervals (Interval Intervals)

/-! ## what the block reader hands to the merger is well-formed -/

theorem drainS_sublist : ∀ (xs : List Sample) (ivs : Intervals), (drainS xs ivs).Sublist xs
  | [], _ => List.Sublist.refl _
  | s :: r, ivs => by
    unfold drainS
    cases h : Intervals.skipTo s.t ivs with
    | mk b ivs' =>
      cases b with
      | true => exact (drainS_sublist r ivs').cons _
      | false => exact (drainS_sublist r ivs').cons_cons _

/-- a chunk that is non-empty, sorted and inside its meta range -/
structure PreOK (c : Chunk) : Prop where
  ne : c.samples ≠ []
  sorted : SortedL c.samples
  within : ∀ s ∈ c.samples, c.mint ≤ s.t ∧ s.t ≤ c.maxt

theorem popChunk_wf (ivs : Intervals) (c : Chunk) (hc : PreOK c) (oc : Option Chunk)
    (h : popChunk ivs c = .ok oc) :
    ∀ c' ∈ oc.toList, PreOK c' ∧ c.mint ≤ c'.mint ∧ c'.maxt ≤ c.maxt ∧ ∀ x ∈ c'.samples, x ∈ c.samples := by
  unfold popChunk at h
  split at h
  · cases h
  · cases h
    intro c' hc'
    simp at hc'; subst hc'
    exact ⟨hc, Int.le_refl _, Int.le_refl _, fun x hx => hx⟩
  · rename_i b buf _
    have hsub := drainS_sublist c.samples (b :: buf)
    split at h
    · cases h; simp
    · rename_i s r hd
      cases h
      intro c' hc'
      simp at hc'; subst hc'
      rw [hd] at hsub
      have hs : SortedL (s :: r) := List.Pairwise.sublist hsub hc.sorted
      obtain ⟨e1, ⟨a, ha, hat⟩, ⟨b', hb', hbt⟩, e4⟩ := ofSamples_range (s :: r) (by simp) hs
      refine ⟨⟨by rw [e1]; simp, by rw [e1]; exact hs, by rw [e1]; exact e4⟩, ?_, ?_, ?_⟩
      · rw [hat]; exact (hc.within a (hsub.subset ha)).1
      · rw [hbt]; exact (hc.within b' (hsub.subset hb')).2
      · intro x hx; rw [e1] at hx; exact hsub.subset hx

theorem popChunks_wf (ivs : Intervals) : ∀ (cs out : List Chunk), (∀ c ∈ cs, PreOK c) → ChunksOrd cs →
    popChunks ivs cs = .ok out →
    (∀ c' ∈ out, PreOK c' ∧ ∃ c ∈ cs, c.mint ≤ c'.mint ∧ c'.maxt ≤ c.maxt) ∧ ChunksOrd out
  | [], out, _, _, h => by
    simp only [popChunks] at h
    cases h
    exact ⟨by simp, List.Pairwise.nil⟩
  | c :: r, out, hok, hord, h => by
    unfold popChunks at h
    split at h
    · cases h
    · rename_i oc hoc
      split at h
      · cases h
      · rename_i rest hrest
        cases h
        have hord' := List.pairwise_cons.1 hord
        obtain ⟨i1, i2⟩ := popChunks_wf ivs r rest (fun x hx => hok x (List.mem_cons_of_mem _ hx)) hord'.2 hrest
        have hfirst := popChunk_wf ivs c (hok c (by simp)) oc hoc
        refine ⟨?_, ?_⟩
        · intro c' hc'
          rcases List.mem_append.1 hc' with hc' | hc'
          · obtain ⟨a, b, d, _⟩ := hfirst c' hc'
            exact ⟨a, c, by simp, b, d⟩
          · obtain ⟨a, c2, hc2, b, d⟩ := i1 c' hc'
            exact ⟨a, c2, List.mem_cons_of_mem _ hc2, b, d⟩
        · unfold ChunksOrd
          rw [List.pairwise_append]
          refine ⟨?_, i2, ?_⟩
          · cases oc <;> simp
          · intro a ha b hb
            obtain ⟨_, _, h3, _⟩ := hfirst a ha
            obtain ⟨_, c2, hc2, h5, _⟩ := i1 b hb
            have := hord'.1 c2 hc2
            omega

/-- a chunk series as the merger needs it -/
structure CSOK (cs : CS) : Prop where
  ok : ∀ c ∈ cs.2, ChunkOK c
  ord : ChunksOrd cs.2

theorem popSeries_wf (mint maxt : Int) (s : Series) (wf : SeriesWF s) (hord : ChunksOrd s.chunks)
    (hmint : Intervals.MinI64 < mint ∧ mint ≤ Intervals.MaxI64) (hmaxt : Intervals.MinI64 ≤ maxt ∧ maxt < Intervals.MaxI64)
    (cs : CS) (h : popSeries mint maxt s = .ok (some cs)) :
    CSOK cs ∧ cs.1 = s.labels ∧ csSamples cs = visible mint maxt s := by
  obtain ⟨r, h1, h2, _, _⟩ := popSeries_spec mint maxt s wf hmint hmaxt
  rw [h] at h1
  cases h1
  have hvis : csSamples cs = visible mint maxt s := by
    simp only [Option.toList_some, List.map_cons, List.map_nil, Option.isSome_some, if_true, List.cons.injEq,
      and_true, Prod.mk.injEq] at h2
    exact h2.2
  have hlab : cs.1 = s.labels := by
    simp only [Option.toList_some, List.map_cons, List.map_nil, Option.isSome_some, if_true, List.cons.injEq,
      and_true, Prod.mk.injEq] at h2
    exact h2.1
  refine ⟨?_, hlab, hvis⟩
  unfold popSeries at h
  simp only at h
  split at h
  · cases h
  · split at h
    · cases h
    · rename_i ivs _
      split at h
      · cases h
      · rename_i out hout
        cases h
        have hsub : (s.chunks.filter (keepChunk mint maxt s.tombs)).Sublist s.chunks := List.filter_sublist
        obtain ⟨a, b⟩ := popChunks_wf ivs _ out
          (fun c hc => ⟨wf.nonempty c (hsub.subset hc), wf.sorted c (hsub.subset hc), wf.within c (hsub.subset hc)⟩)
          (List.Pairwise.sublist hsub hord) hout
        refine ⟨?_, b⟩
        intro c hc
        obtain ⟨p, _⟩ := a c hc
        refine ⟨p.ne, p.sorted, p.within, ?_⟩
        intro x hx
        have : x ∈ visible mint maxt s := by
          rw [← hvis]; exact List.mem_flatMap.2 ⟨c, hc, hx⟩
        unfold visible at this
        have := (List.mem_filter.1 this).2
        simp only [Bool.and_eq_true, decide_eq_true_eq] at this
        have h0 : Intervals.MinI64 = MinI64 := rfl
        rw [← h0]; omega

/-! ## label order -/

theorem cmp_gt_iff : ∀ (a b : Labels), Labels.compare b a = .gt ↔ Llt a b
  | [], [] => by simp [Llt, Labels.compare]
  | [], _ :: _ => by simp [Llt, Labels.compare]
  | _ :: _, [] => by simp [Llt, Labels.compare]
  | (n1, v1) :: r1, (n2, v2) :: r2 => by
    have ih := cmp_gt_iff r1 r2
    unfold Llt at ih ⊢
    simp only [Labels.compare]
    rcases str_tri n1 n2 with h | h | h
    · have h' := String.lt_asymm h
      simp [h, h']
    · subst h
      simp only [String.lt_irrefl, if_false]
      rcases str_tri v1 v2 with h | h | h
      · have h' := String.lt_asymm h
        simp [h, h']
      · subst h
        simp only [String.lt_irrefl, if_false]
        exact ih
      · have h' := String.lt_asymm h
        simp [h, h']
    · have h' := String.lt_asymm h
      simp [h, h']

theorem asc_pairwise : ∀ (l : List Labels), Asc l → l.Pairwise Llt
  | [], _ => List.Pairwise.nil
  | [_], _ => by simp
  | a :: b :: r, h => by
    obtain ⟨h1, h2⟩ := h
    have ih := asc_pairwise (b :: r) h2
    have hab : Llt a b := (cmp_gt_iff a b).1 h1
    refine List.pairwise_cons.2 ⟨?_, ih⟩
    intro x hx
    rcases List.mem_cons.1 hx with rfl | hx
    · exact hab
    · exact Llt_trans hab ((List.pairwise_cons.1 ih).1 x hx)

/-! ## the sets handed to the merged series set -/

/-- hypotheses on one source series: `SeriesWF` and chunks in time order -/
structure SrcOK (s : Series) : Prop where
  wf : SeriesWF s
  ord : ChunksOrd s.chunks

/-- `cs` is what the block reader yields for `s` -/
def Yields (mint maxt : Int) (s : Series) (cs : CS) : Prop :=
  cs.1 = s.labels ∧ csSamples cs = visible mint maxt s

theorem blockSet_wf (mint maxt : Int)
    (hmint : Intervals.MinI64 < mint ∧ mint ≤ Intervals.MaxI64) (hmaxt : Intervals.MinI64 ≤ maxt ∧ maxt < Intervals.MaxI64) :
    ∀ (ss : List Series) (set : List CS), (∀ s ∈ ss, SrcOK s) → blockSet mint maxt ss = .ok set →
      (∀ cs ∈ set, CSOK cs ∧ ∃ s ∈ ss, Yields mint maxt s cs) ∧
      (∀ s ∈ ss, (∃ cs ∈ set, Yields mint maxt s cs) ∨ visible mint maxt s = []) ∧
      (set.map (·.1)).Sublist (ss.map (·.labels))
  | [], set, _, h => by
    simp only [blockSet] at h
    cases h
    exact ⟨by simp, by simp, by simp⟩
  | s :: r, set, hok, h => by
    unfold blockSet at h
    split at h
    · cases h
    · rename_i o ho
      split at h
      · cases h
      · rename_i rest hrest
        cases h
        obtain ⟨i1, i2, i3⟩ := blockSet_wf mint maxt hmint hmaxt r rest (fun x hx => hok x (List.mem_cons_of_mem _ hx)) hrest
        have hs := hok s (by simp)
        cases o with
        | none =>
          obtain ⟨r', h1, _, h3, _⟩ := popSeries_spec mint maxt s hs.wf hmint hmaxt
          rw [ho] at h1
          cases h1
          simp only [Option.toList_none, List.nil_append]
          refine ⟨?_, ?_, ?_⟩
          · intro cs hcs
            obtain ⟨a, s', hs', b⟩ := i1 cs hcs
            exact ⟨a, s', List.mem_cons_of_mem _ hs', b⟩
          · intro s' hs'
            rcases List.mem_cons.1 hs' with rfl | hs'
            · exact Or.inr (h3 rfl)
            · exact i2 s' hs'
          · simp only [List.map_cons]
            exact i3.cons _
        | some cs =>
          obtain ⟨a, b, c⟩ := popSeries_wf mint maxt s hs.wf hs.ord hmint hmaxt cs ho
          simp only [Option.toList_some, List.cons_append, List.nil_append]
          refine ⟨?_, ?_, ?_⟩
          · intro cs' hcs'
            rcases List.mem_cons.1 hcs' with rfl | hcs'
            · exact ⟨a, s, by simp, b, c⟩
            · obtain ⟨a', s', hs', b'⟩ := i1 cs' hcs'
              exact ⟨a', s', List.mem_cons_of_mem _ hs', b'⟩
          · intro s' hs'
            rcases List.mem_cons.1 hs' with rfl | hs'
            · exact Or.inl ⟨cs, by simp, b, c⟩
            · rcases i2 s' hs' with ⟨cs', h1, h2⟩ | h1
              · exact Or.inl ⟨cs', List.mem_cons_of_mem _ h1, h2⟩
              · exact Or.inr h1
          · simp only [List.map_cons, b]
            exact i3.cons_cons _

theorem blockSets_wf (mint maxt : Int)
    (hmint : Intervals.MinI64 < mint ∧ mint ≤ Intervals.MaxI64) (hmaxt : Intervals.MinI64 ≤ maxt ∧ maxt < Intervals.MaxI64) :
    ∀ (blocks : List Block) (sets : List (List CS)),
      (∀ b ∈ blocks, (∀ s ∈ b.series, SrcOK s) ∧ Asc (b.series.map (·.labels))) →
      blockSets mint maxt blocks = .ok sets →
      (∀ set ∈ sets, set.Pairwise (fun a b => Llt a.1 b.1)) ∧
      (∀ cs ∈ sets.flatten, CSOK cs ∧ ∃ b ∈ blocks, ∃ s ∈ b.series, Yields mint maxt s cs) ∧
      (∀ b ∈ blocks, ∀ s ∈ b.series, (∃ cs ∈ sets.flatten, Yields mint maxt s cs) ∨ visible mint maxt s = [])
  | [], sets, _, h => by
    simp only [blockSets] at h
    cases h
    exact ⟨by simp, by simp, by simp⟩
  | b :: r, sets, hok, h => by
    unfold blockSets at h
    split at h
    · cases h
    · rename_i set hset
      split at h
      · cases h
      · rename_i rest hrest
        cases h
        obtain ⟨i1, i2, i3⟩ := blockSets_wf mint maxt hmint hmaxt r rest (fun x hx => hok x (List.mem_cons_of_mem _ hx)) hrest
        obtain ⟨hb1, hb2⟩ := hok b (by simp)
        obtain ⟨j1, j2, j3⟩ := blockSet_wf mint maxt hmint hmaxt b.series set hb1 hset
        refine ⟨?_, ?_, ?_⟩
        · intro set' hset'
          rcases List.mem_cons.1 hset' with rfl | hset'
          · have := List.Pairwise.sublist j3 (asc_pairwise _ hb2)
            rw [List.pairwise_map] at this
            exact this
          · exact i1 set' hset'
        · intro cs hcs
          simp only [List.flatten_cons, List.mem_append] at hcs
          rcases hcs with hcs | hcs
          · obtain ⟨a, s, hs, y⟩ := j1 cs hcs
            exact ⟨a, b, by simp, s, hs, y⟩
          · obtain ⟨a, b', hb', s, hs, y⟩ := i2 cs hcs
            exact ⟨a, b', List.mem_cons_of_mem _ hb', s, hs, y⟩
        · intro b' hb' s hs
          simp only [List.flatten_cons, List.mem_append]
          rcases List.mem_cons.1 hb' with rfl | hb'
          · rcases j2 s hs with ⟨cs, h1, h2⟩ | h1
            · exact Or.inl ⟨cs, Or.inl h1, h2⟩
            · exact Or.inr h1
          · rcases i3 b' hb' s hs with ⟨cs, h1, h2⟩ | h1
            · exact Or.inl ⟨cs, Or.inr h1, h2⟩
            · exact Or.inr h1

/-! ## grouping and merging -/

theorem foldl_len (sets : List (List CS)) : sets.foldl (fun n s => n + s.length) 0 = sets.flatten.length := by
  have : ∀ (l : List (List CS)) (n : Nat), l.foldl (fun n s => n + s.length) n = n + l.flatten.length := by
    intro l
    induction l with
    | nil => intro n; simp
    | cons x l ih => intro n; simp only [List.foldl_cons, ih, List.flatten_cons, List.length_append]; omega
  simpa using this sets 0

theorem groupSets_spec (sets : List (List CS)) (hs : ∀ set ∈ sets, set.Pairwise (fun a b => Llt a.1 b.1)) :
    ((groupSets sets).1.map (grpLabel (·.1))).Pairwise Llt ∧
    (∀ g ∈ (groupSets sets).1, g ≠ [] ∧ ∀ x ∈ g, x.1 = grpLabel (·.1) g) ∧
    ∀ x, (∃ g ∈ (groupSets sets).1, x ∈ g) ↔ x ∈ sets.flatten := by
  unfold groupSets
  rw [foldl_len]
  exact merge_sets_spec (σ := CS) (·.1) sets hs

/-- what the vertical merge of one group of equal-label series produces -/
structure Rg (g : List CS) (m : CS) : Prop where
  lab : m.1 = grpLabel (·.1) g
  ok : CSOK m
  sub : ∀ x ∈ csSamples m, ∃ cs ∈ g, ∃ y ∈ csSamples cs, Hm x y
  cov : ∀ cs ∈ g, ∀ y ∈ csSamples cs, y.t ∈ (csSamples m).map (·.t)

theorem mergeGroup_spec (g : List CS) (hne : g ≠ []) (hok : ∀ cs ∈ g, CSOK cs) (o : Option CS)
    (h : mergeGroup .compact g = .ok o) : ∃ m, o = some m ∧ Rg g m := by
  match g, hne, hok, h with
  | [x], _, hok, h =>
    simp only [mergeGroup] at h
    cases h
    refine ⟨x, rfl, by simp [grpLabel], hok x (by simp), ?_, ?_⟩
    · intro s hs; exact ⟨x, by simp, s, hs, Hm.refl s⟩
    · intro cs hcs y hy
      simp only [List.mem_singleton] at hcs; subst hcs
      exact List.mem_map.2 ⟨y, hy, rfl⟩
  | x :: y :: r, _, hok, h =>
    simp only [mergeGroup] at h
    split at h
    · rename_i cs hc
      cases h
      have hp := compactAll_spec ((x :: y :: r).map (·.2)) (by
        intro chunks hch
        obtain ⟨cs', hcs', rfl⟩ := List.mem_map.1 hch
        exact ⟨(hok cs' hcs').ok, (hok cs' hcs').ord⟩) cs hc
      have hsm : ∀ s, s ∈ smp ((x :: y :: r).map (·.2)).flatten ↔ ∃ cs' ∈ x :: y :: r, s ∈ csSamples cs' := by
        intro s
        rw [mem_smp]
        constructor
        · rintro ⟨c, hc', hs⟩
          obtain ⟨l, hl, hcl⟩ := List.mem_flatten.1 hc'
          obtain ⟨cs', hcs', rfl⟩ := List.mem_map.1 hl
          exact ⟨cs', hcs', List.mem_flatMap.2 ⟨c, hcl, hs⟩⟩
        · rintro ⟨cs', hcs', hs⟩
          obtain ⟨c, hc', hsc⟩ := List.mem_flatMap.1 hs
          exact ⟨c, List.mem_flatten.2 ⟨cs'.2, List.mem_map.2 ⟨cs', hcs', rfl⟩, hc'⟩, hsc⟩
      refine ⟨(x.1, cs), rfl, by simp [grpLabel], ⟨hp.ok, hp.ord⟩, ?_, ?_⟩
      · intro s hs
        obtain ⟨y', hy', hsy⟩ := hp.sub s hs
        obtain ⟨cs', hcs', hy2⟩ := (hsm y').1 hy'
        exact ⟨cs', hcs', y', hy2, hsy⟩
      · intro cs' hcs' y' hy'
        exact hp.cov y' ((hsm y').2 ⟨cs', hcs', hy'⟩)
    · cases h
    · cases h

theorem mergeGroups_spec : ∀ (groups : List (List CS)) (merged : List CS),
    (∀ g ∈ groups, g ≠ [] ∧ ∀ cs ∈ g, CSOK cs) → mergeGroups .compact groups = .ok merged →
    merged.map (·.1) = groups.map (grpLabel (·.1)) ∧ (∀ m ∈ merged, ∃ g ∈ groups, Rg g m) ∧
      ∀ g ∈ groups, ∃ m ∈ merged, Rg g m
  | [], merged, _, h => by
    simp only [mergeGroups] at h
    cases h
    exact ⟨rfl, by simp, by simp⟩
  | g :: r, merged, hok, h => by
    unfold mergeGroups at h
    split at h
    · cases h
    · rename_i o ho
      split at h
      · cases h
      · rename_i rest hrest
        cases h
        obtain ⟨i1, i2, i3⟩ := mergeGroups_spec r rest (fun x hx => hok x (List.mem_cons_of_mem _ hx)) hrest
        obtain ⟨m, rfl, hm⟩ := mergeGroup_spec g (hok g (by simp)).1 (hok g (by simp)).2 o ho
        simp only [Option.toList_some, List.cons_append, List.nil_append]
        refine ⟨by simp [hm.lab, i1], ?_, ?_⟩
        · intro m' hm'
          rcases List.mem_cons.1 hm' with rfl | hm'
          · exact ⟨g, by simp, hm⟩
          · obtain ⟨g', hg', h'⟩ := i2 m' hm'
            exact ⟨g', List.mem_cons_of_mem _ hg', h'⟩
        · intro g' hg'
          rcases List.mem_cons.1 hg' with rfl | hg'
          · exact ⟨m, by simp, hm⟩
          · obtain ⟨m', hm', h'⟩ := i3 g' hg'
            exact ⟨m', List.mem_cons_of_mem _ hm', h'⟩

/-- in a list with strictly increasing keys at most one element has a given key -/
theorem filter_key_unique : ∀ (l : List CS), l.Pairwise (fun a b => Llt a.1 b.1) → ∀ (k : Labels),
    l.filter (fun cs => cs.1 == k) = [] ∨ ∃ m, l.filter (fun cs => cs.1 == k) = [m]
  | [], _, _ => Or.inl rfl
  | a :: r, h, k => by
    have h' := List.pairwise_cons.1 h
    by_cases hk : a.1 = k
    · right
      refine ⟨a, ?_⟩
      rw [List.filter_cons_of_pos (by simpa using hk)]
      congr 1
      rw [List.filter_eq_nil_iff]
      intro b hb
      have := h'.1 b hb
      simp only [beq_iff_eq]
      intro hbk
      rw [hk, hbk] at this
      exact Llt_irrefl _ this
    · rw [List.filter_cons_of_neg (by simpa using hk)]
      exact filter_key_unique r h'.2 k

/-! ## the written block, label set by label set -/

/-- a sample whose value `Chain.atSample` never alters: a float, a gauge histogram (hint 3) or a
    histogram with hint "unknown" (0) -/
def NoHint (x : Sample) : Prop := x.kind = .float ∨ x.payload % 4 = 3 ∨ x.payload % 4 = 0

theorem hm_nohint {x y : Sample} (h : Hm x y) (hn : NoHint y) : x = y := by
  rcases h with rfl | ⟨k, p, rfl⟩
  · rfl
  · rcases hn with hn | hn | hn
    · exact (k hn).elim
    · exact (p hn).elim
    · cases y with
      | mk t kind payload =>
        simp only [Sample.mk.injEq, true_and] at hn ⊢
        omega

theorem csSamples_ne_nil_iff (m : CS) (hok : CSOK m) : csSamples m ≠ [] ↔ m.2 ≠ [] := by
  unfold csSamples
  cases hm : m.2 with
  | nil => simp
  | cons c r =>
    have := (hok.ok c (by rw [hm]; simp)).ne
    cases hc : c.samples with
    | nil => exact (this hc).elim
    | cons x xs => simp [hc]

/-- Several source blocks under the compacting merger, one label set `l`: the samples written for `l`
    are strictly increasing in time, each is a visible sample of a source series with label set `l` (up to
    a reset counter-reset hint), every visible timestamp of such a series is written, and `l` is written
    iff some source has a visible sample for it. -/
theorem populate_multi (blocks : List Block) (mint maxt : Int) (o : Output)
    (hb : ∀ b ∈ blocks, (∀ s ∈ b.series, SrcOK s) ∧ Asc (b.series.map (·.labels)))
    (hmint : Intervals.MinI64 < mint ∧ mint ≤ Intervals.MaxI64) (hmaxt : Intervals.MinI64 ≤ maxt ∧ maxt < Intervals.MaxI64)
    (h : populate .compact blocks mint maxt = .ok o) (l : Labels) :
    SortedL ((o.series.filter fun cs => cs.1 == l).flatMap csSamples) ∧
    (∀ x ∈ (o.series.filter fun cs => cs.1 == l).flatMap csSamples,
      ∃ b ∈ blocks, ∃ s ∈ b.series, s.labels = l ∧ ∃ y ∈ visible mint maxt s, Hm x y) ∧
    (∀ b ∈ blocks, ∀ s ∈ b.series, s.labels = l → ∀ y ∈ visible mint maxt s,
      y.t ∈ ((o.series.filter fun cs => cs.1 == l).flatMap csSamples).map (·.t)) ∧
    ((o.series.any fun cs => cs.1 == l) = true ↔
      ∃ b ∈ blocks, ∃ s ∈ b.series, s.labels = l ∧ visible mint maxt s ≠ []) := by
  obtain ⟨_, merged, ⟨sets, groups, hs, hg, hm⟩, hser⟩ := populate_written h
  obtain ⟨a1, a2, a3⟩ := blockSets_wf mint maxt hmint hmaxt blocks sets hb hs
  obtain ⟨g1, g2, g3⟩ := groupSets_spec sets a1
  rw [hg] at g1 g2 g3
  simp only at g1 g2 g3
  have hgok : ∀ g ∈ groups, g ≠ [] ∧ ∀ cs ∈ g, CSOK cs := by
    intro g hgm
    exact ⟨(g2 g hgm).1, fun cs hcs => (a2 cs ((g3 cs).1 ⟨g, hgm, hcs⟩)).1⟩
  obtain ⟨m1, m2, m3⟩ := mergeGroups_spec groups merged hgok hm
  have hmpw : merged.Pairwise (fun a b => Llt a.1 b.1) := by
    have : (merged.map (·.1)).Pairwise Llt := by rw [m1]; exact g1
    rw [List.pairwise_map] at this
    exact this
  -- a yielded series with label `l` ends up in a merged entry with label `l`
  have hfind : ∀ cs ∈ sets.flatten, cs.1 = l → ∃ m ∈ merged.filter (fun cs => cs.1 == l), ∃ g ∈ groups, cs ∈ g ∧ Rg g m := by
    intro cs hcs hl
    obtain ⟨g, hgm, hcg⟩ := (g3 cs).2 hcs
    obtain ⟨m, hmm, hr⟩ := m3 g hgm
    refine ⟨m, List.mem_filter.2 ⟨hmm, ?_⟩, g, hgm, hcg, hr⟩
    simp only [beq_iff_eq]
    rw [hr.lab, ← (g2 g hgm).2 cs hcg, hl]
  have hfilt : o.series.filter (fun cs => cs.1 == l) =
      (merged.filter (fun cs => cs.1 == l)).filter (fun s => !s.2.isEmpty) := by
    rw [hser, List.filter_filter, List.filter_filter]
    apply List.filter_congr
    intro x _
    exact Bool.and_comm _ _
  rw [List.any_eq_true]
  rw [hfilt]
  rcases filter_key_unique merged hmpw l with hnil | ⟨m, hone⟩
  · rw [hnil]
    have hno : ∀ b ∈ blocks, ∀ s ∈ b.series, s.labels = l → visible mint maxt s = [] := by
      intro b hbm s hsm hl
      rcases a3 b hbm s hsm with ⟨cs, hcs, hy⟩ | hv
      · obtain ⟨m, hmf, _⟩ := hfind cs hcs (by rw [hy.1, hl])
        rw [hnil] at hmf; simp at hmf
      · exact hv
    refine ⟨List.Pairwise.nil, by simp, ?_, ?_⟩
    · intro b hbm s hsm hl y hy
      rw [hno b hbm s hsm hl] at hy; simp at hy
    · constructor
      · rintro ⟨x, hx, hxl⟩
        have : x ∈ merged.filter (fun cs => cs.1 == l) := by
          rw [hser] at hx
          exact List.mem_filter.2 ⟨(List.mem_filter.1 hx).1, hxl⟩
        rw [hnil] at this; simp at this
      · rintro ⟨b, hbm, s, hsm, hl, hv⟩
        exact (hv (hno b hbm s hsm hl)).elim
  · rw [hone]
    have hmm : m ∈ merged.filter (fun cs => cs.1 == l) := by rw [hone]; simp
    obtain ⟨hmmem, hml⟩ := List.mem_filter.1 hmm
    have hml' : m.1 = l := by simpa using hml
    obtain ⟨g, hgm, hr⟩ := m2 m hmmem
    have hout : ([m].filter (fun s => !s.2.isEmpty)).flatMap csSamples = csSamples m := by
      by_cases he : m.2.isEmpty = true
      · have : m.2 = [] := by simpa using he
        simp [he, csSamples, this]
      · simp [he]
    rw [hout]
    have hsub : ∀ x ∈ csSamples m, ∃ b ∈ blocks, ∃ s ∈ b.series, s.labels = l ∧ ∃ y ∈ visible mint maxt s, Hm x y := by
      intro x hx
      obtain ⟨cs, hcs, y, hy, hxy⟩ := hr.sub x hx
      obtain ⟨_, b, hbm, s, hsm, hyl⟩ := a2 cs ((g3 cs).1 ⟨g, hgm, hcs⟩)
      refine ⟨b, hbm, s, hsm, ?_, y, by rw [← hyl.2]; exact hy, hxy⟩
      rw [← hyl.1, (g2 g hgm).2 cs hcs, ← hr.lab, hml']
    have hcov : ∀ b ∈ blocks, ∀ s ∈ b.series, s.labels = l → ∀ y ∈ visible mint maxt s,
        y.t ∈ (csSamples m).map (·.t) := by
      intro b hbm s hsm hl y hy
      rcases a3 b hbm s hsm with ⟨cs, hcs, hyl⟩ | hv
      · obtain ⟨m', hmf, g', hg', hcg', hr'⟩ := hfind cs hcs (by rw [hyl.1, hl])
        rw [hone] at hmf
        simp only [List.mem_singleton] at hmf
        subst hmf
        exact hr'.cov cs hcg' y (by rw [hyl.2]; exact hy)
      · rw [hv] at hy; simp at hy
    refine ⟨smp_sorted m.2 hr.ok.ok hr.ok.ord, hsub, hcov, ?_⟩
    constructor
    · rintro ⟨x, hx, _⟩
      have hxm : x = m := by
        have : x ∈ merged.filter (fun cs => cs.1 == l) := by
          rw [hser] at hx
          exact List.mem_filter.2 ⟨(List.mem_filter.1 hx).1, by assumption⟩
        rw [hone] at this; simpa using this
      subst hxm
      have hne : x.2 ≠ [] := by
        rw [hser] at hx
        have := (List.mem_filter.1 hx).2
        simpa using this
      have := (csSamples_ne_nil_iff x hr.ok).2 hne
      obtain ⟨s0, hs0⟩ := List.exists_mem_of_ne_nil _ this
      obtain ⟨b, hbm, s, hsm, hl, y, hy, _⟩ := hsub s0 hs0
      exact ⟨b, hbm, s, hsm, hl, List.ne_nil_of_mem hy⟩
    · rintro ⟨b, hbm, s, hsm, hl, hv⟩
      obtain ⟨y, hy⟩ := List.exists_mem_of_ne_nil _ hv
      have := hcov b hbm s hsm hl y hy
      have hne : csSamples m ≠ [] := by
        intro h0; rw [h0] at this; simp at this
      have hne2 := (csSamples_ne_nil_iff m hr.ok).1 hne
      refine ⟨m, ?_, hml⟩
      rw [hser]
      exact List.mem_filter.2 ⟨hmmem, by simpa using hne2⟩

end Prom.BlockPopulate
