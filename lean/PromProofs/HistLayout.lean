import PromModel.Tsdb.HistLayout
import PromModel.Tsdb.Merge
/-
  Helper lemmas for C11/C12 (native histogram layout model).
-/
namespace Prom.Hist

theorem expandGo_no_decrease (float : Bool) (a b : List (Int × Int)) (s : CW) (r : List Insert × List Insert)
    (h : expandGo float a b s = some r) :
    ∀ p ∈ a, (∃ q ∈ b, q.1 = p.1 ∧ vGt float p.2 q.2 = false) ∨ vZero float p.2 = true := by
  fun_induction expandGo float a b s <;> intro p hp <;> simp_all <;> grind

/-- "no bucket of `a` went down in `b`" on (index, absolute value) pairs -/
def PairsLe (float : Bool) (a b : List (Int × Int)) : Prop :=
  ∀ p ∈ a, (∃ q ∈ b, q.1 = p.1 ∧ vGt float p.2 q.2 = false) ∨ vZero float p.2 = true

theorem expandCounter_no_decrease (float : Bool) (a b : List Span) (aB bB : List Int) (r)
    (h : expandCounter float a b aB bB = .ok (some r)) :
    PairsLe float ((idxs a).zip (absVals float aB)) ((idxs b).zip (absVals float bB)) := by
  unfold expandCounter pairs at h
  by_cases h1 : aB.length < (idxs a).length
  · simp [h1, bind, Except.bind] at h
  · by_cases h2 : bB.length < (idxs b).length
    · simp [h1, h2, bind, Except.bind] at h
    · simp [h1, h2, bind, Except.bind, pure, Except.pure] at h
      exact expandGo_no_decrease float _ _ _ r h

/-- What `appendable` guarantees when it says "ok" for a non-stale histogram. -/
structure StepOk (c : Chunk) (h : Hist) : Prop where
  lastNotStale : c.last.sum ≠ staleBits
  count : cLt c.float h.count c.last.count = false
  zcount : cLt c.float h.zcount c.last.zcount = false
  schema : h.schema = c.schema
  zt : fEq h.zt c.zt = true
  custom : h.schema = customSchema → boundsMatch h.custom c.custom = true
  pos : PairsLe c.float ((idxs c.pSpans).zip (absVals c.float c.last.pB)) ((idxs h.pSpans).zip (absVals c.float h.pB))
  neg : PairsLe c.float ((idxs c.nSpans).zip (absVals c.float c.last.nB)) ((idxs h.nSpans).zip (absVals c.float h.nB))

theorem appendable_ok_no_reset (c : Chunk) (h : Hist) (pf nf pb nb : List Insert)
    (hs : h.stale = false) (hok : c.appendable h = .ok (.ok pf nf pb nb)) : StepOk c h := by
  unfold Chunk.appendable at hok
  simp only [hs] at hok
  split at hok; · simp at hok
  split at hok; · simp at hok
  simp at hok
  split at hok; · simp at hok
  split at hok; · simp at hok
  split at hok; · simp at hok
  split at hok; · simp at hok
  split at hok; · simp at hok
  split at hok
  · simp at hok
  · simp at hok
  · rename_i _ _ _ _ _ _ _ pf' pb' hp
    split at hok
    · simp at hok
    · simp at hok
    · rename_i nf' nb' hn
      constructor
      all_goals first
        | exact expandCounter_no_decrease _ _ _ _ _ _ hp
        | exact expandCounter_no_decrease _ _ _ _ _ _ hn
        | grind


theorem same_chunk_no_reset (c : Chunk) (t : Int) (h : Hist) (r : AppRes)
    (hn : c.num ≠ 0) (hg : h.hint ≠ .gauge) (hs : h.stale = false)
    (hr : appendHist none c t h = .ok r) (ho : r.out ≠ .newChunk) : StepOk c h := by
  unfold appendHist at hr
  split at hr; · simp at hr
  simp only [hn, if_false, hg] at hr
  simp at hr
  split at hr
  · simp at hr
  · simp at hr; subst hr; simp at ho
  · rename_i pf nf pb nb hok
    exact appendable_ok_no_reset c h pf nf pb nb hs hok

theorem hint_first (c : Chunk) (s : Stored) (rest : List Stored) :
    ((readFrom c 0 (s :: rest)).head?.map (·.2.hint)) ≠ some .notReset := by
  simp [readFrom, hintOf]
  split <;> simp [Hist.blank]
  split <;> simp


/-- the populated values, in order -/
def nz (l : List Int) : List Int := l.filter (· ≠ 0)

theorem nz_replicate_zero (n : Nat) (tl : List Int) : nz (List.replicate n 0 ++ tl) = nz tl := by
  induction n with
  | zero => simp
  | succ n ih => simpa [List.replicate_succ, nz] using ih

theorem prefixFrom_zeros (k : Nat) (tl : List Int) :
    prefixFrom 0 (List.replicate k 0 ++ tl) = List.replicate k 0 ++ prefixFrom 0 tl := by
  induction k with
  | zero => simp
  | succ k ih => simp [List.replicate_succ, prefixFrom, ih]

theorem rep_join (a b : Nat) (X : List Int) :
    (0 : Int) :: (List.replicate a 0 ++ (List.replicate b 0 ++ X)) = List.replicate (1 + a + b) 0 ++ X := by
  rw [← List.append_assoc, List.replicate_append_replicate]
  have : 1 + a + b = (a + b) + 1 := by omega
  rw [this, List.replicate_succ]; rfl

theorem takeAt_prefix (v : Int) (i : Nat) (ins : List Insert) (first : Bool) (tl : List Int) :
    ∃ n, prefixFrom (if first then v else 0) ((takeAt true v i first ins).1 ++ tl)
        = List.replicate n 0 ++
          prefixFrom (if (takeAt true v i first ins).1 = [] then (if first then v else 0) else 0) tl := by
  induction ins generalizing first with
  | nil => exact ⟨0, by simp [takeAt]⟩
  | cons x rest ih =>
    by_cases hx : x.pos = i
    · obtain ⟨n', hn'⟩ := ih false
      refine ⟨1 + (x.num - 1) + n', ?_⟩
      have h0 : (if first then v else 0) + (if first then -v else 0) = 0 := by cases first <;> simp <;> omega
      simp only [takeAt, hx, if_true, Bool.true_and, List.cons_append, List.append_assoc, prefixFrom, h0]
      simp only [Bool.false_eq_true, if_false] at hn'
      rw [prefixFrom_zeros, hn']
      simp only [ite_self, reduceCtorEq, if_false, List.cons_ne_nil]
      exact rep_join _ _ _
    · exact ⟨0, by simp [takeAt, hx]⟩

theorem leftover_zeros (len : Nat) (ins : List Insert) (v : Int) (out : List Int)
    (h : leftover true len v ins = .ok out) : ∃ n, prefixFrom v out = List.replicate n 0 := by
  induction ins generalizing v out with
  | nil => simp [leftover] at h; subst h; exact ⟨0, by simp [prefixFrom]⟩
  | cons x r ih =>
    unfold leftover at h
    split at h
    · simp at h
    · split at h
      · rename_i tl htl
        simp at h; subst h
        obtain ⟨n, hn⟩ := ih 0 tl htl
        refine ⟨1 + (x.num - 1) + n, ?_⟩
        have hv : v + -v = 0 := by omega
        simp only [prefixFrom, hv, prefixFrom_zeros, hn]
        simpa using rep_join (x.num - 1) n []
      · simp at h

theorem insertLoop_deltas (len : Nat) (xs : List Int) :
    ∀ (i : Nat) (v : Int) (ins : List Insert) (out : List Int),
      insertLoop true len i v xs ins = .ok out → nz (prefixFrom v out) = nz (prefixFrom v xs) := by
  induction xs with
  | nil =>
    intro i v ins out h
    simp only [insertLoop] at h
    obtain ⟨n, hn⟩ := leftover_zeros len ins v out h
    rw [hn]; simpa [prefixFrom] using nz_replicate_zero n []
  | cons d rest ih =>
    intro i v ins out h
    unfold insertLoop at h
    split at h
    · split at h
      · rename_i tl htl; simp at h; subst h
        simp [prefixFrom, nz, List.filter_cons, ih _ _ _ _ htl] 
        have := ih _ _ _ _ htl; simp [nz] at this; simp [this]
      · simp at h
    · rename_i x xr
      split at h
      · split at h
        · rename_i tl htl; simp at h; subst h
          have := ih _ _ _ _ htl; simp [nz] at this
          simp [prefixFrom, nz, List.filter_cons, this]
        · simp at h
      · rename_i hx
        have hx' : x.pos = i := by simpa using hx
        cases hrec : insertLoop true len (i + 1) (v + d) rest (takeAt true v i true (x :: xr)).snd with
        | error e => simp [hrec] at h
        | ok tl =>
          simp [hrec] at h; subst h
          obtain ⟨n, hn⟩ := takeAt_prefix v i (x :: xr) true ((d + v) :: tl)
          have hne : (takeAt true v i true (x :: xr)).1 ≠ [] := by simp [takeAt, hx']
          simp only [if_true, hne, if_false] at hn
          rw [hn, nz_replicate_zero]
          have := ih _ _ _ _ hrec; simp [nz] at this
          simp [prefixFrom, nz, List.filter_cons, Int.add_comm d v, this]

theorem takeAt_false (v : Int) (i : Nat) (ins : List Insert) (first : Bool) :
    ∃ n, (takeAt false v i first ins).1 = List.replicate n 0 := by
  induction ins generalizing first with
  | nil => exact ⟨0, by simp [takeAt]⟩
  | cons x rest ih =>
    by_cases hx : x.pos = i
    · obtain ⟨n', hn'⟩ := ih false
      refine ⟨(x.num - 1 + n') + 1, ?_⟩
      simp [takeAt, hx, hn', List.replicate_succ, List.replicate_append_replicate]
    · exact ⟨0, by simp [takeAt, hx]⟩

theorem leftover_false (len : Nat) (ins : List Insert) (v : Int) (out : List Int)
    (h : leftover false len v ins = .ok out) : ∃ n, out = List.replicate n 0 := by
  induction ins generalizing v out with
  | nil => simp [leftover] at h; subst h; exact ⟨0, by simp⟩
  | cons x r ih =>
    unfold leftover at h
    split at h
    · simp at h
    · cases hrec : leftover false len 0 r with
      | error e => simp [hrec] at h
      | ok tl =>
        simp [hrec] at h; subst h
        obtain ⟨n, hn⟩ := ih 0 tl hrec
        exact ⟨(x.num - 1 + n) + 1, by simp [hn, List.replicate_succ, List.replicate_append_replicate]⟩

theorem insertLoop_abs (len : Nat) (xs : List Int) :
    ∀ (i : Nat) (v : Int) (ins : List Insert) (out : List Int),
      insertLoop false len i v xs ins = .ok out → nz out = nz xs := by
  induction xs with
  | nil =>
    intro i v ins out h
    simp only [insertLoop] at h
    obtain ⟨n, hn⟩ := leftover_false len ins v out h
    rw [hn]; simpa using nz_replicate_zero n []
  | cons d rest ih =>
    intro i v ins out h
    unfold insertLoop at h
    split at h
    · cases hrec : insertLoop false len (i + 1) (v + d) rest [] with
      | error e => simp [hrec] at h
      | ok tl =>
        simp [hrec] at h; subst h
        have := ih _ _ _ _ hrec; simp [nz] at this
        simp [nz, List.filter_cons, this]
    · rename_i x xr
      by_cases hx : x.pos = i
      · simp only [hx, ne_eq, not_true_eq_false, if_false] at h
        cases hrec : insertLoop false len (i + 1) (v + d) rest (takeAt false v i true (x :: xr)).snd with
        | error e => simp [hrec] at h
        | ok tl =>
          simp [hrec] at h; subst h
          obtain ⟨n, hn⟩ := takeAt_false v i (x :: xr) true
          rw [hn, nz_replicate_zero]
          have := ih _ _ _ _ hrec; simp [nz] at this
          simp [nz, List.filter_cons, this]
      · simp only [ne_eq, hx, not_false_eq_true, if_true] at h
        cases hrec : insertLoop false len (i + 1) (v + d) rest (x :: xr) with
        | error e => simp [hrec] at h
        | ok tl =>
          simp [hrec] at h; subst h
          have := ih _ _ _ _ hrec; simp [nz] at this
          simp [nz, List.filter_cons, this]
end Prom.Hist

namespace Prom.Merge
/-- `AtHistogram`/`AtFloatHistogram` of the chain iterator hand out NotCounterReset (payload mod 4 = 2)
    only when the flag `consecutive` is set. -/
theorem atSample_notReset (c : Chain) (s : Sample) (hk : s.kind ≠ .float)
    (h : (c.atSample s).payload % 4 = 2) : c.consecutive = true ∧ s.payload % 4 = 2 := by
  unfold Chain.atSample at h
  split at h
  · rename_i hc; simp at h; try omega
  · rename_i hc
    refine ⟨?_, h⟩
    by_cases hcc : c.consecutive = true
    · exact hcc
    · exfalso; apply hc; exact ⟨hk, by simpa using hcc, by omega⟩

theorem finishLoop_consecutive (c c' : Chain) (cur : It) (s : Sample) (h : Array It) (dead : List It) (changed : Bool)
    (hr : c.finishLoop (.brk cur s h dead changed) = (c', .val s)) :
    c'.consecutive = !changed ∧ c'.curr = some cur := by
  simp [Chain.finishLoop] at hr
  subst hr; simp
end Prom.Merge

