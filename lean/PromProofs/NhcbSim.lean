import PromProofs.NhcbRef
/-
  The parser model (`Prom.Nhcb.step`/`run`) simulates the reference semantics (`refStep`/`refRun`) on
  well-formed streams: explicit invariant `Sim` on the parser state (start / collecting / inhibiting).
-/
namespace Prom.Nhcb

/-- nothing left behind by earlier histograms -/
def St.clean (s : St) : Prop := s.temp = {} ∧ s.exb.len = 0 ∧ s.exb.count = 0

/-- The invariant tying the parser state to the reference state. -/
def Sim (cfg : Cfg) (r : RSt) (s : St) : Prop :=
  s.typ = r.typ ∧ s.bName = r.bName ∧
  match r.mode with
  | .idle => s.state = .start ∧ s.clean
  | .inhibit n k => s.state = .inhibiting ∧ s.lastName = n ∧ s.lastKey = some k ∧ s.clean
  | .group g => s.state = .collecting ∧ s.lastName = g.name ∧ s.lastKey = some g.key ∧
      s.temp = g.temp ∧ s.tempLset = g.base ∧ s.tempTS = g.ts ∧ s.tempST = g.st ∧ stOf cfg g.st = g.st ∧
      s.exb.len = s.exb.count + 1 ∧ s.exb.len ≤ s.exb.buf.length ∧ s.exb.buf.take s.exb.count = g.exs

theorem sim_init (cfg : Cfg) : Sim cfg {} {} := by
  simp [Sim, St.clean]

theorem handleClassic_eq (cfg : Cfg) (s : St) (ls : Labels) (v : Nat) (ts : Option Int) (st : Int) (ex : List String) :
    handleClassic cfg s ls v ts st ex =
      match classify s.typ s.bName ls v with
      | some u => (true, collect cfg s ls (baseName (ls.get hName)).2 ts st ex u.apply)
      | none => (false, s) := by
  unfold handleClassic classify St.isHist
  by_cases ht : s.typ = hHistogram
  · simp only [ht, decide_true, Bool.not_true, Bool.false_eq_true, ↓reduceIte, ne_eq, not_true_eq_false]
    by_cases hn : (baseName (ls.get hName)).2 = hexStr s.bName
    · simp only [hn, not_true_eq_false, ↓reduceIte]
      cases hb : (baseName (ls.get hName)).1 <;> simp only
      · by_cases hl : ls.has hLe
        · simp only [hl, Bool.not_true, Bool.false_eq_true, ↓reduceIte]
          cases (hexDec? (ls.get hLe)).bind parseFloat? <;> first | rfl | simp
        · simp [hl]
      · rfl
      · rfl
    · simp [hn]
  · simp [ht]

theorem differentMetric_eq (s : St) (ls : Labels) (k : Labels) (h : s.lastKey = some k) :
    differentMetric s ls = !sameAs s.typ s.lastName k ls := by
  unfold differentMetric sameAs St.isHist
  rw [h]
  by_cases ht : s.typ = hHistogram <;> by_cases hn : s.lastName = (baseName (ls.get hName)).2 <;>
    by_cases hk : k = ls.without [hLe] <;> simp [ht, hn, hk]

/-- the part of `step` on a series after the optional emission -/
def seriesTail (cfg : Cfg) (s : St) (b : String) (ls : Labels) (v : Nat) (ts : Option Int) (st : Int) (ex : List String) :
    List Out × St :=
  let r := if s.state = .inhibiting then (false, s) else handleClassic cfg s ls v ts st ex
  (if r.1 && !cfg.keep then [] else [.series b ls v ts (passST r.2 st) (if r.1 then [] else ex)], r.2)

/-- the optional emission at a series -/
def seriesPre (cfg : Cfg) (s : St) (ls : Labels) : Option Out × St :=
  match s.state with
  | .collecting => if differentMetric s ls then processNHCB cfg s else (none, s)
  | .inhibiting => if differentMetric s ls then (none, { s with state := .start }) else (none, s)
  | .start => (none, s)

theorem step_series_eq (cfg : Cfg) (s : St) (b : String) (ls : Labels) (v : Nat) (ts : Option Int) (st : Int) (ex : List String) :
    step cfg s (.series b ls v ts st ex) =
      ((seriesPre cfg { s with ts := ts } ls).1.toList ++ (seriesTail cfg (seriesPre cfg { s with ts := ts } ls).2 b ls v ts st ex).1,
       (seriesTail cfg (seriesPre cfg { s with ts := ts } ls).2 b ls v ts st ex).2) := by
  rfl

theorem sim_ts {cfg : Cfg} {r : RSt} {s : St} (h : Sim cfg r s) (ts : Option Int) : Sim cfg r { s with ts := ts } := h

theorem processNHCB_other (cfg : Cfg) (s : St) (h : s.state ≠ .collecting) : processNHCB cfg s = (none, s) := by
  simp [processNHCB, h]

theorem noMerge_of_wfMember (cfg : Cfg) (ex : List String) (h : wfMember cfg ex = true) :
    ∀ e ∈ ex, NoMerge cfg.partialEx e := by
  intro e he
  unfold wfMember at h
  simp only [Bool.and_eq_true, Bool.or_eq_true, Bool.not_eq_true', List.all_eq_true] at h
  rcases h.2 with hp | ha
  · rw [hp]; exact noMerge_of_not_partial e
  · exact noMerge_of_hasTs _ e (ha e he)

/-- Closing whatever is open (TYPE/HELP/UNIT/comment, EOF, a series of another metric). -/
theorem processNHCB_close (cfg : Cfg) (hf : cfg.fixed = true) (typ bName : String) (mode : RMode) (s : St)
    (h : Sim cfg ⟨typ, bName, mode⟩ s) (hc : mode.closes = true) :
    (processNHCB cfg s).1.toList = mode.close ∧
      Sim cfg ⟨typ, bName, mode.afterMeta⟩ (processNHCB cfg s).2 := by
  obtain ⟨ht, hb, hm⟩ := h
  cases mode with
  | idle =>
    simp only at hm
    rw [processNHCB_other cfg s (by simp [hm.1])]
    exact ⟨rfl, ht, hb, hm⟩
  | inhibit n k =>
    simp only at hm
    rw [processNHCB_other cfg s (by simp [hm.1])]
    exact ⟨rfl, ht, hb, hm⟩
  | group g =>
    simp only at hm
    obtain ⟨h1, h2, h3, h4, h5, h6, h7, h8, h9, h10, h11⟩ := hm
    simp only [RMode.closes, Grp.conv] at hc
    simp only [RMode.close, Grp.out, Grp.conv]
    unfold processNHCB
    simp only [h1, ne_eq, not_true_eq_false, ↓reduceIte, h4]
    cases hcv : g.temp.convert with
    | none => simp [hcv] at hc
    | some c =>
      simp only [hcv] at hc ⊢
      by_cases hv : c.valid = true
      · simp only [hv, Bool.not_true, Bool.false_eq_true, ↓reduceIte, hf, Option.toList_some, h5, h6, h7, h11]
        refine ⟨trivial, ht, hb, ?_⟩
        simp [St.clean, RMode.afterMeta]
      · simp [hv] at hc

theorem stOf_idem (cfg : Cfg) (st : Int) : stOf cfg (stOf cfg st) = stOf cfg st := by
  unfold stOf; split <;> rfl

/-- A series arriving when nothing is open (after the optional emission). -/
theorem seriesTail_fresh (cfg : Cfg) (typ bName : String) (s : St) (h : Sim cfg ⟨typ, bName, .idle⟩ s)
    (b : String) (ls : Labels) (v : Nat) (ts : Option Int) (st : Int) (ex : List String)
    (hw : wfFresh cfg ⟨typ, bName, .idle⟩ ls v ex = true) :
    (seriesTail cfg s b ls v ts st ex).1.map (Out.norm cfg) = (refFresh cfg ⟨typ, bName, .idle⟩ b ls v ts st ex).1.map (Out.norm cfg) ∧
      Sim cfg (refFresh cfg ⟨typ, bName, .idle⟩ b ls v ts st ex).2 (seriesTail cfg s b ls v ts st ex).2 := by
  obtain ⟨ht, hb, hs, hc1, hc2, hc3⟩ := h
  simp only at ht hb
  unfold seriesTail refFresh wfFresh at *
  simp only [hs, reduceCtorEq, ↓reduceIte, handleClassic_eq, ht, hb]
  simp only at hw
  cases hcl : classify typ bName ls v with
  | none =>
    simp only [Bool.false_and, Bool.false_eq_true, ↓reduceIte, passST, hs]
    exact ⟨trivial, ht, hb, hs, hc1, hc2, hc3⟩
  | some u =>
    rw [hcl] at hw
    simp only at hw
    have hnm := noMerge_of_wfMember cfg ex hw
    have hinv : s.exb.Inv := ⟨Or.inl (by omega), by omega⟩
    obtain ⟨e1, e2, e3⟩ := ExBuf.store_spec cfg.partialEx ex s.exb hinv hnm
    refine ⟨?_, ?_⟩
    · cases hk : cfg.keep
      · simp
      · simp only [Bool.not_true, Bool.and_false, Bool.false_eq_true, ↓reduceIte, List.map_cons, List.map_nil,
          Out.norm, List.cons.injEq, and_true]
        unfold wfMember at hw
        simp only [hk, Bool.not_true, Bool.false_or, Bool.and_eq_true, List.isEmpty_iff] at hw
        simp only [hw.1, passST, collect, hs, ne_eq, reduceCtorEq, not_false_eq_true, ↓reduceIte]
        exact congrArg (fun x => Out.series b ls v ts x []) (stOf_idem cfg st)
    · simp only [Sim]
      refine ⟨by simpa [collect, hs] using ht, by simpa [collect, hs] using hb, ?_⟩
      simp only [collect, hs, ne_eq, reduceCtorEq, not_false_eq_true, ↓reduceIte]
      refine ⟨trivial, trivial, trivial, ?_, trivial, trivial, rfl, stOf_idem cfg st, e1, e2, ?_⟩
      · simp [Grp.temp, hc1]
      · rw [e3, hc3]; simp

/-- A series continuing the open group. -/
theorem seriesTail_same (cfg : Cfg) (typ bName : String) (g : Grp) (s : St) (h : Sim cfg ⟨typ, bName, .group g⟩ s)
    (b : String) (ls : Labels) (v : Nat) (ts : Option Int) (st : Int) (ex : List String)
    (hw : wfSame cfg ⟨typ, bName, .group g⟩ g ls v st ex = true) :
    (seriesTail cfg s b ls v ts st ex).1.map (Out.norm cfg) = (refSame cfg ⟨typ, bName, .group g⟩ g b ls v ts st ex).1.map (Out.norm cfg) ∧
      Sim cfg (refSame cfg ⟨typ, bName, .group g⟩ g b ls v ts st ex).2 (seriesTail cfg s b ls v ts st ex).2 := by
  obtain ⟨ht, hb, hs, h2, h3, h4, h5, h6, h7, h8, h9, h10, h11⟩ := h
  simp only at ht hb
  unfold seriesTail refSame wfSame at *
  simp only [hs, reduceCtorEq, ↓reduceIte, handleClassic_eq, ht, hb]
  simp only at hw
  cases hcl : classify typ bName ls v with
  | none =>
    rw [hcl] at hw
    simp only [decide_eq_true_eq] at hw
    simp only [Bool.false_and, Bool.false_eq_true, ↓reduceIte, passST, hs, List.map_cons, List.map_nil, Out.norm, h7]
    rw [← hw, stOf_idem]
    exact ⟨rfl, ht, hb, hs, h2, h3, h4, h5, h6, h7, h8, h9, h10, h11⟩
  | some u =>
    rw [hcl] at hw
    simp only [Bool.and_eq_true, Bool.or_eq_true, Bool.not_eq_true', decide_eq_true_eq] at hw
    have hnm := noMerge_of_wfMember cfg ex hw.1
    have hinv : s.exb.Inv := ⟨Or.inr h9, h10⟩
    obtain ⟨e1, e2, e3⟩ := ExBuf.store_spec cfg.partialEx ex s.exb hinv hnm
    refine ⟨?_, ?_⟩
    · cases hk : cfg.keep
      · simp
      · simp only [Bool.not_true, Bool.and_false, Bool.false_eq_true, ↓reduceIte, List.map_cons, List.map_nil,
          Out.norm]
        have hw1 := hw.1
        unfold wfMember at hw1
        simp only [hk, Bool.not_true, Bool.false_or, Bool.and_eq_true, List.isEmpty_iff] at hw1
        have hst : stOf cfg st = g.st := by
          rcases hw.2 with hf | hq
          · rw [hk] at hf; cases hf
          · exact hq
        simp only [hw1.1, passST, collect, hs, ne_eq, not_true_eq_false, ↓reduceIte, h7]
        rw [← hst, stOf_idem]
    · simp only [Sim]
      refine ⟨by simpa [collect, hs] using ht, by simpa [collect, hs] using hb, ?_⟩
      simp only [collect, hs, ne_eq, not_true_eq_false, ↓reduceIte]
      refine ⟨trivial, h2, h3, ?_, h5, h6, h7, h8, e1, e2, ?_⟩
      · simp [Grp.temp, h4, List.foldl_append]
      · rw [e3, h11]

theorem sim_retype {cfg : Cfg} {typ bName : String} {mode : RMode} {s : St} (h : Sim cfg ⟨typ, bName, mode⟩ s)
    (t n : String) : Sim cfg ⟨t, n, mode⟩ { s with bName := n, typ := t } := by
  obtain ⟨_, _, hm⟩ := h
  exact ⟨rfl, rfl, hm⟩

/-- One inner entry: the parser's output agrees with the reference and the invariant is kept. -/
theorem sim_step (cfg : Cfg) (hf : cfg.fixed = true) (r : RSt) (s : St) (h : Sim cfg r s) (e : Entry)
    (hw : wfStep cfg r e = true) :
    (step cfg s e).1.map (Out.norm cfg) = (refStep cfg r e).1.map (Out.norm cfg) ∧
      Sim cfg (refStep cfg r e).2 (step cfg s e).2 := by
  obtain ⟨typ, bName, mode⟩ := r
  cases e with
  | err => exact ⟨rfl, h⟩
  | typ n t =>
    have h1 := sim_retype h t n
    simp only [wfStep] at hw
    obtain ⟨a, b⟩ := processNHCB_close cfg hf t n mode _ h1 hw
    simp only [step, refStep, List.map_append, a]
    exact ⟨trivial, b⟩
  | help n t =>
    simp only [wfStep] at hw
    obtain ⟨a, b⟩ := processNHCB_close cfg hf typ bName mode _ h hw
    simp only [step, refStep, List.map_append, a]
    exact ⟨trivial, b⟩
  | unit n t =>
    simp only [wfStep] at hw
    obtain ⟨a, b⟩ := processNHCB_close cfg hf typ bName mode _ h hw
    simp only [step, refStep, List.map_append, a]
    exact ⟨trivial, b⟩
  | comment t =>
    simp only [wfStep] at hw
    obtain ⟨a, b⟩ := processNHCB_close cfg hf typ bName mode _ h hw
    simp only [step, refStep, List.map_append, a]
    exact ⟨trivial, b⟩
  | hist b ls ts st ex hh =>
    simp only [step, refStep]
    refine ⟨trivial, ?_⟩
    obtain ⟨ht, hb, hm⟩ := h
    cases mode with
    | idle => exact ⟨ht, hb, rfl, rfl, rfl, hm.2⟩
    | inhibit n k => exact ⟨ht, hb, rfl, rfl, rfl, hm.2.2.2⟩
    | group g => simp [wfStep] at hw
  | series b ls v ts st ex =>
    rw [step_series_eq]
    have h' := sim_ts h ts
    generalize ({ s with ts := ts } : St) = s' at h'
    cases mode with
    | idle =>
      have hs : s'.state = .start := h'.2.2.1
      simp only [wfStep] at hw
      obtain ⟨a, b⟩ := seriesTail_fresh cfg typ bName s' h' b ls v ts st ex hw
      simp only [seriesPre, hs, Option.toList_none, List.nil_append, refStep]
      exact ⟨a, b⟩
    | inhibit n k =>
      obtain ⟨ht, hb, hs, hn, hk, hc⟩ := h'
      simp only at ht hb
      have hd := differentMetric_eq s' ls k hk
      rw [ht, hn] at hd
      simp only [wfStep] at hw
      by_cases hsame : sameAs typ n k ls = true
      · simp only [seriesPre, hs, hd, hsame, Bool.not_true, Bool.false_eq_true, ↓reduceIte, Option.toList_none,
          List.nil_append, refStep, seriesTail, passST]
        exact ⟨rfl, ht, hb, hs, hn, hk, hc⟩
      · simp only [hsame, Bool.false_or] at hw
        have hi : Sim cfg ⟨typ, bName, .idle⟩ { s' with state := .start } := ⟨ht, hb, rfl, hc⟩
        obtain ⟨a, b⟩ := seriesTail_fresh cfg typ bName _ hi b ls v ts st ex hw
        simp only [seriesPre, hs, hd, hsame, Bool.not_false, ↓reduceIte, Option.toList_none, List.nil_append, refStep]
        exact ⟨a, b⟩
    | group g =>
      have hk : s'.lastKey = some g.key := h'.2.2.2.2.1
      have hs : s'.state = .collecting := h'.2.2.1
      have hd := differentMetric_eq s' ls g.key hk
      rw [h'.1, h'.2.2.2.1] at hd
      simp only at hd
      simp only [wfStep] at hw
      by_cases hsame : sameAs typ g.name g.key ls = true
      · simp only [hsame, ↓reduceIte] at hw
        obtain ⟨a, b⟩ := seriesTail_same cfg typ bName g s' h' b ls v ts st ex hw
        simp only [seriesPre, hs, hd, hsame, Bool.not_true, Bool.false_eq_true, ↓reduceIte, Option.toList_none,
          List.nil_append, refStep]
        exact ⟨a, b⟩
      · simp only [hsame, Bool.false_eq_true, ↓reduceIte, Bool.and_eq_true] at hw
        obtain ⟨c1, c2⟩ := processNHCB_close cfg hf typ bName (.group g) s' h' hw.1
        obtain ⟨a, b⟩ := seriesTail_fresh cfg typ bName _ c2 b ls v ts st ex hw.2
        simp only [seriesPre, hs, hd, hsame, Bool.not_false, ↓reduceIte, refStep, Bool.false_eq_true, List.map_append, c1, a]
        exact ⟨rfl, b⟩

theorem run_cons (cfg : Cfg) (s : St) (e : Entry) (rest : List Entry) (he : e ≠ .err) :
    run cfg s (e :: rest) = (step cfg s e).1 :: run cfg (step cfg s e).2 rest := by
  cases e <;> first | rfl | exact absurd rfl he

theorem refRun_cons (cfg : Cfg) (r : RSt) (e : Entry) (rest : List Entry) (he : e ≠ .err) :
    refRun cfg r (e :: rest) = (refStep cfg r e).1 :: refRun cfg (refStep cfg r e).2 rest := by
  cases e <;> first | rfl | exact absurd rfl he

theorem wfGo_cons (cfg : Cfg) (r : RSt) (e : Entry) (rest : List Entry) (he : e ≠ .err) :
    wfGo cfg r (e :: rest) = (wfStep cfg r e && wfGo cfg (refStep cfg r e).2 rest) := by
  cases e <;> first | rfl | exact absurd rfl he

/-- Whole streams: by induction over the entry stream, from any pair of states related by `Sim`. -/
theorem run_sim (cfg : Cfg) (hf : cfg.fixed = true) (es : List Entry) :
    ∀ (r : RSt) (s : St), Sim cfg r s → wfGo cfg r es = true →
      (run cfg s es).map (·.map (Out.norm cfg)) = (refRun cfg r es).map (·.map (Out.norm cfg)) := by
  induction es with
  | nil =>
    intro r s h hw
    obtain ⟨typ, bName, mode⟩ := r
    simp only [wfGo] at hw
    obtain ⟨a, _⟩ := processNHCB_close cfg hf typ bName mode s h hw
    simp only [run, atEof, refRun, a]
  | cons e rest ih =>
    intro r s h hw
    by_cases he : e = .err
    · subst he; rfl
    · rw [run_cons cfg s e rest he, refRun_cons cfg r e rest he]
      rw [wfGo_cons cfg r e rest he, Bool.and_eq_true] at hw
      obtain ⟨a, b⟩ := sim_step cfg hf r s h e hw.1
      simp only [List.map_cons, a, ih _ _ b hw.2]

end Prom.Nhcb
