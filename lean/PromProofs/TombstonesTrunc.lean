import PromProofs.Tombstones
/-
  C20: `MemTombstones.TruncateBefore` on canonical groups.
-/
namespace Prom.Tombstones
open Prom.Intervals

theorem takeWhile_append_singleton_neg {α} (p : α → Bool) (x : α) (hx : p x = false) :
    ∀ L : List α, (L ++ [x]).takeWhile p = L.takeWhile p
  | [] => by simp [List.takeWhile, hx]
  | a :: L => by
    simp only [List.cons_append, List.takeWhile_cons]
    split
    · rw [takeWhile_append_singleton_neg p x hx L]
    · rfl

theorem takeWhile_all {α} (p : α → Bool) : ∀ L : List α, (∀ x ∈ L, p x = true) → L.takeWhile p = L
  | [], _ => rfl
  | a :: L, h => by
    rw [List.takeWhile_cons, if_pos (h a List.mem_cons_self),
      takeWhile_all p L fun x hx => h x (List.mem_cons_of_mem _ hx)]

/-- `TruncateBefore` on a canonical group keeps exactly the intervals that do not lie entirely
    before `beforeT` (an interval straddling `beforeT` is kept whole). -/
theorem truncIvs_eq_filter (t : Int) : ∀ (ivs : Intervals), Canon ivs →
    truncIvs t ivs = ivs.filter (fun iv => decide (t ≤ iv.maxt))
  | [], _ => rfl
  | x :: xs, hc => by
    obtain ⟨hv, hcx, hlt⟩ := canon_cons.mp hc
    have ih := truncIvs_eq_filter t xs hcx
    by_cases h : t ≤ x.maxt
    · have hall : ∀ y ∈ x :: xs, t ≤ y.maxt := by
        intro y hy
        rcases List.mem_cons.mp hy with rfl | hy
        · exact h
        · have := hlt y hy; have := hcx.valid y hy; omega
      have h1 : (x :: xs).filter (fun iv => decide (t ≤ iv.maxt)) = x :: xs := by
        rw [List.filter_eq_self]; intro y hy; simpa using hall y hy
      rw [h1]
      unfold truncIvs
      have h2 : (x :: xs).reverse.takeWhile (fun iv => !decide (t > iv.maxt)) = (x :: xs).reverse := by
        apply takeWhile_all
        intro y hy
        have := hall y (List.mem_reverse.mp hy)
        simp; omega
      rw [h2, List.reverse_reverse]
    · have hx : (fun iv : Interval => !decide (t > iv.maxt)) x = false := by simp; omega
      unfold truncIvs at ih ⊢
      rw [List.reverse_cons, takeWhile_append_singleton_neg _ x hx, ih,
        List.filter_cons_of_neg (by simpa using h)]

/-- Consequently no deletion at or after `beforeT` is lost, and nothing is added. -/
theorem truncIvs_covers (t : Int) (ivs : Intervals) (hc : Canon ivs) :
    Canon (truncIvs t ivs) ∧
    (∀ t', t ≤ t' → (covers (truncIvs t ivs) t' ↔ covers ivs t')) ∧
    (∀ t', covers (truncIvs t ivs) t' → covers ivs t') := by
  rw [truncIvs_eq_filter t ivs hc]
  refine ⟨⟨fun x hx => hc.valid x ((List.mem_filter.mp hx).1), hc.pw.sublist List.filter_sublist⟩, ?_, ?_⟩
  · intro t' ht'
    constructor
    · rintro ⟨x, hx, h1, h2⟩; exact ⟨x, (List.mem_filter.mp hx).1, h1, h2⟩
    · rintro ⟨x, hx, h1, h2⟩
      exact ⟨x, List.mem_filter.mpr ⟨hx, by simp; omega⟩, h1, h2⟩
  · rintro t' ⟨x, hx, h1, h2⟩; exact ⟨x, (List.mem_filter.mp hx).1, h1, h2⟩

end Prom.Tombstones
