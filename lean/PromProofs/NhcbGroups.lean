import PromProofs.NhcbSim
/-
  The reference semantics read as a statement about groups: the output of a stream consists of one
  converted histogram per group (in order) and the entries handed on.
-/
namespace Prom.Nhcb

/-- the group that ends at entry `e` (reference state `r`) -/
def closedAt (r : RSt) : Entry → List Grp
  | .series _ ls _ _ _ _ =>
    match r.mode with
    | .group g => if sameAs r.typ g.name g.key ls then [] else [g]
    | _ => []
  | .hist .. => []   -- an open group would be dropped here (C36-F2); `WF` excludes it
  | .err => []
  | _ =>
    match r.mode with
    | .group g => [g]
    | _ => []

def RMode.opened : RMode → List Grp
  | .group g => [g]
  | _ => []

/-- All groups of a stream, in order: maximal runs of classic-histogram series with the same base name
    and the same labels without `le` (ended by any other series, a TYPE/HELP/UNIT/comment entry or the
    end of the stream; a parse error discards the open group together with the rest of the stream). -/
def refGroups (cfg : Cfg) : RSt → List Entry → List Grp
  | r, [] => r.mode.opened
  | _, .err :: _ => []
  | r, e :: rest => closedAt r e ++ refGroups cfg (refStep cfg r e).2 rest

def groups (cfg : Cfg) (es : List Entry) : List Grp := refGroups cfg {} es

/-- the entry as the wrapped parser hands it out without any conversion -/
def Entry.toOut : Entry → Out
  | .typ n t => .typ n t
  | .help n t => .help n t
  | .unit n t => .unit n t
  | .comment t => .comment t
  | .series b ls v ts st ex => .series b ls v ts st ex
  | .hist b ls ts st ex h => .hist b ls ts st ex h
  | .err => .err

/-- is the series collated into a group (a classic-histogram series that is not inhibited)? -/
def collated (r : RSt) (ls : Labels) (v : Nat) : Bool :=
  match r.mode with
  | .inhibit n k => !sameAs r.typ n k ls && (classify r.typ r.bName ls v).isSome
  | _ => (classify r.typ r.bName ls v).isSome

/-- what is handed on for entry `e`: the entry itself, except collated series without keep-classic -/
def passOf (cfg : Cfg) (r : RSt) (e : Entry) : List Out :=
  match e with
  | .series _ ls v _ _ _ => if collated r ls v && !cfg.keep then [] else [e.toOut]
  | _ => [e.toOut]

def refPassed (cfg : Cfg) : RSt → List Entry → List Out
  | _, [] => []
  | _, .err :: _ => [.err]
  | r, e :: rest => passOf cfg r e ++ refPassed cfg (refStep cfg r e).2 rest

def passed (cfg : Cfg) (es : List Entry) : List Out := refPassed cfg {} es

/-- the stream up to and including the first inner error -/
def upToErr : List Entry → List Entry
  | [] => []
  | .err :: _ => [.err]
  | e :: rest => e :: upToErr rest

theorem refFresh_out (cfg : Cfg) (r : RSt) (b : String) (ls : Labels) (v : Nat) (ts : Option Int) (st : Int) (ex : List String) :
    (refFresh cfg r b ls v ts st ex).1 =
      if (classify r.typ r.bName ls v).isSome && !cfg.keep then [] else [.series b ls v ts st ex] := by
  unfold refFresh
  cases classify r.typ r.bName ls v <;> cases cfg.keep <;> rfl

theorem refSame_out (cfg : Cfg) (r : RSt) (g : Grp) (b : String) (ls : Labels) (v : Nat) (ts : Option Int) (st : Int) (ex : List String) :
    (refSame cfg r g b ls v ts st ex).1 =
      if (classify r.typ r.bName ls v).isSome && !cfg.keep then [] else [.series b ls v ts st ex] := by
  unfold refSame
  cases classify r.typ r.bName ls v <;> cases cfg.keep <;> rfl

/-- every step of the reference: the converted histogram of the group that ends, then what is handed on -/
theorem refStep_out (cfg : Cfg) (r : RSt) (e : Entry) :
    (refStep cfg r e).1 = (closedAt r e).flatMap Grp.out ++ passOf cfg r e := by
  obtain ⟨typ, bName, mode⟩ := r
  cases e with
  | series b ls v ts st ex =>
    cases mode with
    | idle => simp [refStep, closedAt, passOf, collated, refFresh_out, Entry.toOut]
    | inhibit n k =>
      by_cases hs : sameAs typ n k ls = true <;>
        simp [refStep, closedAt, passOf, collated, refFresh_out, Entry.toOut, hs]
    | group g =>
      by_cases hs : sameAs typ g.name g.key ls = true <;>
        simp [refStep, closedAt, passOf, collated, refFresh_out, refSame_out, Entry.toOut, hs]
  | hist b ls ts st ex h => simp [refStep, closedAt, passOf, Entry.toOut]
  | err => simp [refStep, closedAt, passOf, Entry.toOut]
  | typ n t => cases mode <;> simp [refStep, closedAt, passOf, Entry.toOut, RMode.close]
  | help n t => cases mode <;> simp [refStep, closedAt, passOf, Entry.toOut, RMode.close]
  | unit n t => cases mode <;> simp [refStep, closedAt, passOf, Entry.toOut, RMode.close]
  | comment t => cases mode <;> simp [refStep, closedAt, passOf, Entry.toOut, RMode.close]

theorem grp_out_nhcb (g : Grp) : ∀ o ∈ g.out, o.isNhcb = true := by
  intro o ho
  unfold Grp.out at ho
  split at ho <;> simp at ho
  subst ho; rfl

theorem passOf_not_nhcb (cfg : Cfg) (r : RSt) (e : Entry) : ∀ o ∈ passOf cfg r e, o.isNhcb = false := by
  intro o ho
  unfold passOf at ho
  cases e <;> simp [Entry.toOut] at ho <;> (try subst ho) <;> (try rfl)
  · rw [ho.2]; rfl

theorem filter_all_true {α} (p : α → Bool) (l : List α) (h : ∀ x ∈ l, p x = true) : l.filter p = l :=
  List.filter_eq_self.mpr h

theorem filter_all_false {α} (p : α → Bool) (l : List α) (h : ∀ x ∈ l, p x = false) : l.filter p = [] := by
  apply List.filter_eq_nil_iff.mpr
  intro x hx; simp [h x hx]

theorem flatMap_out_nhcb (gs : List Grp) : ∀ o ∈ gs.flatMap Grp.out, o.isNhcb = true := by
  intro o ho
  obtain ⟨g, _, hg⟩ := List.mem_flatMap.mp ho
  exact grp_out_nhcb g o hg

theorem refRun_nhcb (cfg : Cfg) (es : List Entry) : ∀ r : RSt,
    (refRun cfg r es).flatten.filter Out.isNhcb = (refGroups cfg r es).flatMap Grp.out := by
  induction es with
  | nil =>
    intro r
    obtain ⟨typ, bName, mode⟩ := r
    cases mode <;> simp [refRun, refGroups, RMode.close, RMode.opened]
    exact grp_out_nhcb _
  | cons e rest ih =>
    intro r
    by_cases he : e = .err
    · subst he; simp [refRun, refGroups, Out.isNhcb]
    · rw [refRun_cons cfg r e rest he]
      have hg : refGroups cfg r (e :: rest) = closedAt r e ++ refGroups cfg (refStep cfg r e).2 rest := by
        cases e <;> first | rfl | exact absurd rfl he
      rw [hg, List.flatten_cons, List.filter_append, ih, refStep_out, List.filter_append,
        filter_all_true _ _ (flatMap_out_nhcb _), filter_all_false _ _ (passOf_not_nhcb cfg r e)]
      simp

theorem refRun_passed (cfg : Cfg) (es : List Entry) : ∀ r : RSt,
    (refRun cfg r es).flatten.filter (fun o => !o.isNhcb) = refPassed cfg r es := by
  induction es with
  | nil =>
    intro r
    obtain ⟨typ, bName, mode⟩ := r
    cases mode <;> simp [refRun, refPassed, RMode.close]
    intro o ho; simp [grp_out_nhcb _ o ho]
  | cons e rest ih =>
    intro r
    by_cases he : e = .err
    · subst he; simp [refRun, refPassed, Out.isNhcb]
    · rw [refRun_cons cfg r e rest he]
      have hg : refPassed cfg r (e :: rest) = passOf cfg r e ++ refPassed cfg (refStep cfg r e).2 rest := by
        cases e <;> first | rfl | exact absurd rfl he
      rw [hg, List.flatten_cons, List.filter_append, ih, refStep_out, List.filter_append,
        filter_all_false _ _ (fun o ho => by simp [flatMap_out_nhcb _ o ho]),
        filter_all_true _ _ (fun o ho => by simp [passOf_not_nhcb cfg r e o ho])]
      simp

/-- on well-formed streams every group converts -/
theorem refGroups_conv (cfg : Cfg) (es : List Entry) : ∀ r : RSt, wfGo cfg r es = true →
    ∀ g ∈ refGroups cfg r es, g.conv.isSome = true := by
  induction es with
  | nil =>
    intro r hw g hg
    obtain ⟨typ, bName, mode⟩ := r
    cases mode <;> simp [refGroups, RMode.opened] at hg
    subst hg
    simpa [wfGo, RMode.closes] using hw
  | cons e rest ih =>
    intro r hw g hg
    by_cases he : e = .err
    · subst he; simp [refGroups] at hg
    · have hgs : refGroups cfg r (e :: rest) = closedAt r e ++ refGroups cfg (refStep cfg r e).2 rest := by
        cases e <;> first | rfl | exact absurd rfl he
      rw [wfGo_cons cfg r e rest he, Bool.and_eq_true] at hw
      rw [hgs, List.mem_append] at hg
      rcases hg with hg | hg
      · obtain ⟨typ, bName, mode⟩ := r
        cases e with
        | err => exact absurd rfl he
        | hist => simp [closedAt] at hg
        | series b ls v ts st ex =>
          cases mode <;> simp [closedAt] at hg
          obtain ⟨hs, rfl⟩ := hg
          have := hw.1
          simp [wfStep, hs] at this
          exact this.1
        | typ n t =>
          cases mode <;> simp [closedAt] at hg
          subst hg; simpa [wfStep, RMode.closes] using hw.1
        | help n t =>
          cases mode <;> simp [closedAt] at hg
          subst hg; simpa [wfStep, RMode.closes] using hw.1
        | unit n t =>
          cases mode <;> simp [closedAt] at hg
          subst hg; simpa [wfStep, RMode.closes] using hw.1
        | comment t =>
          cases mode <;> simp [closedAt] at hg
          subst hg; simpa [wfStep, RMode.closes] using hw.1
      · exact ih _ hw.2 g hg

/-! ### keep-classic does not influence the grouping -/

theorem refStep_keep (cfg : Cfg) (k : Bool) (r : RSt) (e : Entry) :
    (refStep { cfg with keep := k } r e).2 = (refStep cfg r e).2 := by
  obtain ⟨typ, bName, mode⟩ := r
  cases e with
  | series b ls v ts st ex =>
    cases mode with
    | idle => simp only [refStep, refFresh, stOf]; cases classify typ bName ls v <;> rfl
    | inhibit n kk =>
      simp only [refStep, refFresh, stOf]
      split
      · rfl
      · cases classify typ bName ls v <;> rfl
    | group g =>
      simp only [refStep, refFresh, refSame, stOf]
      split
      · cases classify typ bName ls v <;> rfl
      · cases classify typ bName ls v <;> rfl
  | _ => rfl

theorem refGroups_keep (cfg : Cfg) (k : Bool) (es : List Entry) : ∀ r : RSt,
    refGroups { cfg with keep := k } r es = refGroups cfg r es := by
  induction es with
  | nil => intro r; rfl
  | cons e rest ih =>
    intro r
    by_cases he : e = .err
    · subst he; rfl
    · have h1 : ∀ c : Cfg, refGroups c r (e :: rest) = closedAt r e ++ refGroups c (refStep c r e).2 rest := by
        intro c; cases e <;> first | rfl | exact absurd rfl he
      rw [h1, h1, refStep_keep, ih]

theorem wfMember_keep_false (cfg : Cfg) (ex : List String) (h : wfMember cfg ex = true) :
    wfMember { cfg with keep := false } ex = true := by
  unfold wfMember at *
  simp only [Bool.and_eq_true] at h
  simp [h.2]

theorem wfStep_keep_false (cfg : Cfg) (r : RSt) (e : Entry) (h : wfStep cfg r e = true) :
    wfStep { cfg with keep := false } r e = true := by
  obtain ⟨typ, bName, mode⟩ := r
  cases e with
  | series b ls v ts st ex =>
    cases mode with
    | idle =>
      simp only [wfStep, wfFresh] at *
      cases hc : classify typ bName ls v with
      | none => rfl
      | some u => rw [hc] at h; exact wfMember_keep_false cfg ex h
    | inhibit n kk =>
      simp only [wfStep, wfFresh, Bool.or_eq_true] at *
      rcases h with h | h
      · exact Or.inl h
      · right
        cases hc : classify typ bName ls v with
        | none => rfl
        | some u => rw [hc] at h; exact wfMember_keep_false cfg ex h
    | group g =>
      simp only [wfStep, wfFresh, wfSame] at *
      split
      · rename_i hs
        simp only [hs, ↓reduceIte] at h
        cases hc : classify typ bName ls v with
        | none => rw [hc] at h; exact h
        | some u =>
          rw [hc] at h
          simp only [Bool.and_eq_true] at h
          simp [wfMember_keep_false cfg ex h.1]
      · rename_i hs
        simp only [hs, Bool.false_eq_true, ↓reduceIte, Bool.and_eq_true] at h
        simp only [Bool.and_eq_true]
        refine ⟨h.1, ?_⟩
        cases hc : classify typ bName ls v with
        | none => rfl
        | some u =>
          have h2 := h.2
          rw [hc] at h2
          exact wfMember_keep_false cfg ex h2
  | _ => exact h

theorem wfGo_keep_false (cfg : Cfg) (es : List Entry) : ∀ r : RSt, wfGo cfg r es = true →
    wfGo { cfg with keep := false } r es = true := by
  induction es with
  | nil => intro r h; exact h
  | cons e rest ih =>
    intro r h
    by_cases he : e = .err
    · subst he; rfl
    · rw [wfGo_cons _ r e rest he, Bool.and_eq_true] at *
      rw [refStep_keep]
      exact ⟨wfStep_keep_false cfg r e h.1, ih _ h.2⟩

theorem refPassed_keep (cfg : Cfg) (hk : cfg.keep = true) (es : List Entry) : ∀ r : RSt,
    refPassed cfg r es = (upToErr es).map Entry.toOut := by
  induction es with
  | nil => intro r; rfl
  | cons e rest ih =>
    intro r
    by_cases he : e = .err
    · subst he; rfl
    · have h1 : refPassed cfg r (e :: rest) = passOf cfg r e ++ refPassed cfg (refStep cfg r e).2 rest := by
        cases e <;> first | rfl | exact absurd rfl he
      have h2 : upToErr (e :: rest) = e :: upToErr rest := by
        cases e <;> first | rfl | exact absurd rfl he
      rw [h1, h2, ih]
      cases e <;> simp [passOf, hk]

theorem norm_isNhcb (cfg : Cfg) (o : Out) : (Out.norm cfg o).isNhcb = o.isNhcb := by
  cases o <;> rfl

theorem filter_nhcb_norm (cfg : Cfg) (l : List Out) :
    (l.map (Out.norm cfg)).filter Out.isNhcb = (l.filter Out.isNhcb).map (Out.norm cfg) := by
  induction l with
  | nil => rfl
  | cons o l ih => simp only [List.map_cons, List.filter_cons, norm_isNhcb]; split <;> simp [ih]

theorem filter_not_nhcb_norm (cfg : Cfg) (l : List Out) :
    (l.map (Out.norm cfg)).filter (fun o => !o.isNhcb) = (l.filter (fun o => !o.isNhcb)).map (Out.norm cfg) := by
  induction l with
  | nil => rfl
  | cons o l ih => simp only [List.map_cons, List.filter_cons, norm_isNhcb]; split <;> simp [ih]

end Prom.Nhcb
