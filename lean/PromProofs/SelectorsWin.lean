import PromModel.Promql.Selectors
import PromProofs.SelectorsMemo
/-
  Lemmas about the BufferedSeriesIterator / sampleRing model and matrixIterSlice (window reuse).
-/
namespace Prom.Selectors

/-- the documented range window: non-stale samples with `mint < t ≤ maxt`, floats and histograms apart -/
def winSpec (series : Series) (mint maxt : Int) : Win :=
  ⟨series.filter (fun s => (!s.hist && !s.stale) && (decide (mint < s.t) && decide (s.t ≤ maxt))),
   series.filter (fun s => (s.hist && !s.stale) && (decide (mint < s.t) && decide (s.t ≤ maxt)))⟩

theorem dropWhile_le_eq_filter {l : Series} (hs : Sorted l) (m : Int) :
    l.dropWhile (fun p => decide (p.t ≤ m)) = l.filter (fun p => decide (p.t > m)) := by
  induction l with
  | nil => rfl
  | cons x xs ih =>
    have hx := sorted_cons hs
    by_cases h : x.t ≤ m
    · have h' : ¬ x.t > m := by omega
      simp only [List.dropWhile_cons, h, decide_true, if_true, List.filter_cons, h', decide_false]
      simpa using ih hx.1
    · have h' : x.t > m := by omega
      simp only [List.dropWhile_cons, h, decide_false, List.filter_cons, h', decide_true, if_true]
      have : xs.filter (fun p => decide (p.t > m)) = xs :=
        filter_eq_self_of (fun y hy => by have := hx.2 y hy; simp; omega)
      simp [this]

theorem retain_spec {pts : Series} (hs : Sorted pts) (mint : Int) :
    retain mint pts = (pts.filter (fun p => decide (p.t > mint)),
      match (pts.filter (fun p => decide (p.t > mint))).getLast? with
      | some l => l.t
      | none => mint) := by
  unfold retain
  cases hl : pts.getLast? with
  | none =>
    rw [List.getLast?_eq_none_iff] at hl
    subst hl; rfl
  | some l =>
    simp only
    have hlm := List.mem_of_getLast? hl
    by_cases h : l.t > mint
    · simp only [h, if_true]
      rw [dropWhile_le_eq_filter hs]
      have hin : l ∈ pts.filter (fun p => decide (p.t > mint)) := by
        rw [List.mem_filter]; exact ⟨hlm, by simpa using h⟩
      cases hk : (pts.filter (fun p => decide (p.t > mint))).getLast? with
      | none => rw [List.getLast?_eq_none_iff] at hk; rw [hk] at hin; simp at hin
      | some l' => simp
    · simp only [h, if_false]
      have hmax := sorted_last_max hs hl
      have : pts.filter (fun p => decide (p.t > mint)) = [] :=
        filter_eq_nil_of (fun y hy => by have := hmax y hy; simp; omega)
      simp [this]

/-- `sampleRing.add` keeps a suffix; what it frees is older than `s.t - delta` -/
theorem ringAdd_split (delta : Int) (buf : Series) (s : Sample) :
    ∃ dr, buf ++ [s] = dr ++ ringAdd delta buf s ∧ ∀ x ∈ dr, x.t < s.t - delta := by
  obtain ⟨tk, h1, h2, _⟩ := dropWhile_split (buf ++ [s]) (s.t - delta)
  exact ⟨tk, h1, h2⟩

theorem walkB_spec (t delta : Int) : ∀ (l : Series) (s : Sample) (buf : Series) (lt : Option Int),
    Sorted (s :: l) → s.t < t →
    ∃ mid dr, s :: l = mid ++ (walkB t delta buf lt (s :: l)).2.2 ∧ mid ≠ [] ∧
      (∀ x ∈ mid, x.t < t) ∧
      (∀ h tl, (walkB t delta buf lt (s :: l)).2.2 = h :: tl →
        (walkB t delta buf lt (s :: l)).2.1 = some h.t ∧ t ≤ h.t) ∧
      buf ++ mid = dr ++ (walkB t delta buf lt (s :: l)).1 ∧ (∀ x ∈ dr, x.t < t - delta) := by
  intro l
  induction l with
  | nil =>
    intro s buf lt _ hs
    obtain ⟨dr, h1, h2⟩ := ringAdd_split delta buf s
    refine ⟨[s], dr, by simp [walkB], by simp, by simpa using hs, by simp [walkB], by simpa [walkB] using h1, ?_⟩
    intro x hx; have := h2 x hx; omega
  | cons s' r ih =>
    intro s buf lt hsort hs
    obtain ⟨dr1, h1, h2⟩ := ringAdd_split delta buf s
    by_cases h : s'.t ≥ t
    · refine ⟨[s], dr1, by simp [walkB, h], by simp, by simpa using hs, ?_, by simpa [walkB, h] using h1, ?_⟩
      · intro h' tl heq
        simp [walkB, h] at heq ⊢
        obtain ⟨rfl, _⟩ := heq
        omega
      · intro x hx; have := h2 x hx; omega
    · have hs' : s'.t < t := by omega
      obtain ⟨mid, dr, g1, g2, g3, g4, g5, g6⟩ :=
        ih s' (ringAdd delta buf s) (some s'.t) (sorted_cons hsort).1 hs'
      have hw : walkB t delta buf lt (s :: s' :: r) = walkB t delta (ringAdd delta buf s) (some s'.t) (s' :: r) := by
        simp [walkB, h]
      rw [hw]
      refine ⟨s :: mid, dr1 ++ dr, ?_, by simp, ?_, g4, ?_, ?_⟩
      · rw [List.cons_append, ← g1]
      · intro x hx
        rcases List.mem_cons.mp hx with rfl | hx
        · exact hs
        · exact g3 x hx
      · calc buf ++ s :: mid = (buf ++ [s]) ++ mid := by simp
          _ = dr1 ++ (ringAdd delta buf s ++ mid) := by rw [h1]; simp
          _ = dr1 ++ dr ++ _ := by rw [g5]; simp
      · intro x hx
        rcases List.mem_append.mp hx with hx | hx
        · have := h2 x hx; omega
        · exact g6 x hx

/-- The state of the buffered iterator against the series after the last `Seek(r)`:
    `pre` = the samples passed (all before `r`), the ring holds a suffix of them. -/
def BInv (series : Series) (b : BufIter) (r : Int) : Prop :=
  ∃ pre dropped, series = pre ++ b.rest ∧ pre = dropped ++ b.buf ∧ (∀ s ∈ pre, s.t < r) ∧
    (∀ h tl, b.rest = h :: tl → (b.lastTime = none ∧ pre = []) ∨ (b.lastTime = some h.t ∧ r ≤ h.t))

theorem BInv_init (series : Series) (delta r : Int) : BInv series (BufIter.init series delta) r :=
  ⟨[], [], by simp [BufIter.init], by simp [BufIter.init], by simp, by simp [BufIter.init]⟩

theorem seekB_delta (b : BufIter) (t : Int) : (b.seek t).delta = b.delta := by
  unfold BufIter.seek
  simp only
  split
  · split
    · rfl
    · split <;> rfl
  · split <;> rfl

/-- `Seek(r')`: the new position, and what the ring no longer holds is either what it had already
    freed before or older than `r' - delta`. -/
theorem seekB_inv {series : Series} {b : BufIter} {r r' : Int} (hs : Sorted series) (hd : 0 ≤ b.delta)
    (hinv : BInv series b r) (hr : r ≤ r') :
    ∃ pre dropped, series = pre ++ (b.seek r').rest ∧ pre = dropped ++ (b.seek r').buf ∧
      (∀ s ∈ pre, s.t < r') ∧ (∀ s ∈ (b.seek r').rest, r' ≤ s.t) ∧
      (∀ x ∈ dropped, x.t < r ∨ x.t < r' - b.delta) ∧
      (∀ h tl, (b.seek r').rest = h :: tl → (b.seek r').lastTime = some h.t ∧ r' ≤ h.t) := by
  obtain ⟨pre, dropped, hser, hbuf, hpre, hlast⟩ := hinv
  unfold BufIter.seek
  simp only
  split
  · rename_i hj
    obtain ⟨hne, hgt⟩ := hj
    obtain ⟨tk, htk, htk1, htk2⟩ := dropWhile_split b.rest (r' - b.delta)
    split
    · rename_i hdw
      rw [hdw] at htk
      simp only [List.append_nil] at htk
      refine ⟨pre ++ tk, pre ++ tk, by simp [hser, htk], by simp, ?_, by simp, ?_, by simp⟩
      · intro s hs'
        rcases List.mem_append.mp hs' with h | h
        · have := hpre s h; omega
        · have := htk1 s h; omega
      · intro s hs'
        rcases List.mem_append.mp hs' with h | h
        · exact Or.inl (hpre s h)
        · exact Or.inr (htk1 s h)
    · rename_i s0 r0 hdw
      rw [hdw] at htk
      have ht0 := htk2 s0 r0 hdw
      have hsort0 : Sorted (s0 :: r0) := by
        rw [hser, htk] at hs
        exact (sorted_append (sorted_append hs).2.1).2.1
      have hdr : ∀ s ∈ pre ++ tk, s.t < r ∨ s.t < r' - b.delta := by
        intro s hs'
        rcases List.mem_append.mp hs' with h | h
        · exact Or.inl (hpre s h)
        · exact Or.inr (htk1 s h)
      have hlt0 : ∀ s ∈ pre ++ tk, s.t < r' := by
        intro s hs'
        rcases List.mem_append.mp hs' with h | h
        · have := hpre s h; omega
        · have := htk1 s h; omega
      split
      · rename_i hge
        refine ⟨pre ++ tk, pre ++ tk, by simp [hser, htk], by simp, hlt0, ?_, hdr, ?_⟩
        · intro s hs'
          simp at hs'
          rcases hs' with rfl | h
          · omega
          · have := (sorted_cons hsort0).2 s h; omega
        · intro h tl heq
          simp at heq
          obtain ⟨rfl, _⟩ := heq
          exact ⟨rfl, by omega⟩
      · rename_i hlt
        have hlt' : s0.t < r' := by omega
        obtain ⟨mid, dr, h1, h2, h4, h5, h6, h7⟩ := walkB_spec r' b.delta r0 s0 [] (some s0.t) hsort0 hlt'
        generalize walkB r' b.delta [] (some s0.t) (s0 :: r0) = w at h1 h5 h6 h7 ⊢
        simp only [List.nil_append] at h6
        refine ⟨pre ++ tk ++ mid, pre ++ tk ++ dr, ?_, ?_, ?_, ?_, ?_, h5⟩
        · simp only [hser, htk]; rw [h1]; simp
        · rw [h6]; simp
        · intro s hs'
          rcases List.mem_append.mp hs' with h | h
          · exact hlt0 s h
          · exact h4 s h
        · intro s hs'
          simp only at hs'
          cases hw : w.2.2 with
          | nil => rw [hw] at hs'; simp at hs'
          | cons h tl =>
            rw [hw] at hs'
            have hh := (h5 h tl hw).2
            rw [hw] at h1
            have hsort1 : Sorted (h :: tl) := by
              rw [h1] at hsort0; exact (sorted_append hsort0).2.1
            rcases List.mem_cons.mp hs' with rfl | hx
            · exact hh
            · have := (sorted_cons hsort1).2 s hx; omega
        · intro s hs'
          rcases List.mem_append.mp hs' with h | h
          · exact hdr s h
          · exact Or.inr (h7 s h)
  · rename_i hnj
    split
    · rename_i hge
      cases hlt : b.lastTime with
      | none => rw [hlt] at hge; simp [geLast] at hge
      | some l =>
        rw [hlt] at hge
        simp [geLast] at hge
        have hhead : ∀ h tl, b.rest = h :: tl → b.lastTime = some h.t ∧ r' ≤ h.t := by
          intro h tl heq
          rcases hlast h tl heq with ⟨hn, _⟩ | ⟨hl, _⟩
          · rw [hn] at hlt; cases hlt
          · rw [hl] at hlt; cases hlt; exact ⟨hl, hge⟩
        refine ⟨pre, dropped, hser, hbuf, ?_, ?_, ?_, ?_⟩
        · intro s hs'; have := hpre s hs'; omega
        · intro s hs'
          cases hrest : b.rest with
          | nil => rw [hrest] at hs'; simp at hs'
          | cons h tl =>
            rw [hrest] at hs'
            have hsort1 : Sorted (h :: tl) := by
              rw [hser, hrest] at hs; exact (sorted_append hs).2.1
            have hht := (hhead h tl hrest).2
            rcases List.mem_cons.mp hs' with rfl | hx
            · exact hht
            · have := (sorted_cons hsort1).2 s hx; omega
        · intro x hx
          exact Or.inl (hpre x (by rw [hbuf]; exact List.mem_append_left _ hx))
        · intro h tl heq
          have := hhead h tl heq
          rw [hlt] at this
          exact this
    · rename_i hnge
      cases hrest : b.rest with
      | nil =>
        simp only [walkB]
        refine ⟨pre, dropped, by simp [hser, hrest], hbuf, ?_, by simp, ?_, by simp⟩
        · intro s hs'; have := hpre s hs'; omega
        · intro x hx
          exact Or.inl (hpre x (by rw [hbuf]; exact List.mem_append_left _ hx))
      | cons h tl =>
        have hsort1 : Sorted (h :: tl) := by
          rw [hser, hrest] at hs; exact (sorted_append hs).2.1
        have hlt' : h.t < r' := by
          rcases hlast h tl hrest with ⟨hn, _⟩ | ⟨hl, _⟩
          · exfalso; apply hnj; rw [hrest, hn]; simp [gtLast]
          · rw [hl] at hnge; simp [geLast] at hnge; exact hnge
        obtain ⟨mid, dr, h1, h2, h4, h5, h6, h7⟩ := walkB_spec r' b.delta tl h b.buf b.lastTime hsort1 hlt'
        generalize walkB r' b.delta b.buf b.lastTime (h :: tl) = w at h1 h5 h6 h7 ⊢
        refine ⟨pre ++ mid, dropped ++ dr, ?_, ?_, ?_, ?_, ?_, h5⟩
        · simp only [hser, hrest]; rw [h1]; simp
        · rw [hbuf, List.append_assoc, h6]; simp
        · intro s hs'
          rcases List.mem_append.mp hs' with hx | hx
          · have := hpre s hx; omega
          · exact h4 s hx
        · intro s hs'
          simp only at hs'
          cases hw : w.2.2 with
          | nil => rw [hw] at hs'; simp at hs'
          | cons h' tl' =>
            rw [hw] at hs'
            have hh := (h5 h' tl' hw).2
            rw [hw] at h1
            have hsort2 : Sorted (h' :: tl') := by
              rw [h1] at hsort1; exact (sorted_append hsort1).2.1
            rcases List.mem_cons.mp hs' with rfl | hx
            · exact hh
            · have := (sorted_cons hsort2).2 s hx; omega
        · intro x hx
          rcases List.mem_append.mp hx with hx | hx
          · exact Or.inl (hpre x (by rw [hbuf]; exact List.mem_append_left _ hx))
          · exact Or.inr (h7 x hx)


/-- one kind (floats or histograms) of the documented window -/
def specK (pk : Sample → Bool) (series : Series) (mint maxt : Int) : Series :=
  series.filter (fun s => pk s && (decide (mint < s.t) && decide (s.t ≤ maxt)))

theorem filter_congr_mem {l : Series} {p q : Sample → Bool} (h : ∀ x ∈ l, p x = q x) : l.filter p = l.filter q :=
  List.filter_congr h

theorem filter_split_sorted {l : Series} (hs : Sorted l) (P : Sample → Bool) (c r : Int)
    (h : ∀ x ∈ l, P x = true → (x.t > c ↔ x.t > r)) :
    l.filter (fun x => P x && decide (x.t ≤ r)) ++ l.filter (fun x => P x && decide (x.t > c)) = l.filter P := by
  induction l with
  | nil => rfl
  | cons x xs ih =>
    have hx := sorted_cons hs
    have ih' := ih hx.1 (fun y hy => h y (List.mem_cons_of_mem _ hy))
    cases hP : P x with
    | false => simp only [List.filter_cons, hP, Bool.false_and]; simpa using ih'
    | true =>
      have hxc := h x (by simp) hP
      by_cases hle : x.t ≤ r
      · have hnc : ¬ x.t > c := by rw [hxc]; omega
        simp only [List.filter_cons, hP, Bool.true_and, hle, decide_true, if_true, hnc, decide_false]
        simp only [Bool.false_eq_true, if_false, List.cons_append]
        rw [ih']
      · have hc : x.t > c := by rw [hxc]; omega
        have hnil : xs.filter (fun x => P x && decide (x.t ≤ r)) = [] :=
          filter_eq_nil_of (fun y hy => by have := hx.2 y hy; simp; intro _; omega)
        have hall : xs.filter (fun x => P x && decide (x.t > c)) = xs.filter P := by
          apply filter_congr_mem
          intro y hy
          cases hPy : P y with
          | false => simp
          | true =>
            have := (h y (List.mem_cons_of_mem _ hy) hPy).mpr (by have := hx.2 y hy; omega)
            simp [this]
        simp only [List.filter_cons, hP, Bool.true_and, hle, decide_false, hc, decide_true, if_true]
        simp only [Bool.false_eq_true, if_false, hnil, List.nil_append, hall]

/-- the sought sample, if it is of the kind and sits exactly on `maxt` -/
def soughtK (pk : Sample → Bool) (maxt : Int) : Series → Series
  | h :: _ => if pk h && decide (h.t = maxt) then [h] else []
  | [] => []

/-- The reuse step of `matrixIterSlice` for one kind of point: retained points of the previous window
    `(mint_p, r]`, plus the buffered samples after the last retained timestamp, plus the sought sample. -/
theorem slice_kind (pk : Sample → Bool) {series pre dropped buf rest : Series} {mint_p r mint maxt δ : Int}
    (hs : Sorted series) (hser : series = pre ++ rest) (hpre : pre = dropped ++ buf)
    (hlt : ∀ s ∈ pre, s.t < maxt) (hge : ∀ s ∈ rest, maxt ≤ s.t)
    (hdr : ∀ x ∈ dropped, x.t < r ∨ x.t < maxt - δ) (hδ : maxt - δ ≤ max mint r)
    (h1 : mint_p ≤ mint) (h2 : r < maxt) (h3 : mint < maxt) :
    (retain mint (specK pk series mint_p r)).1
      ++ buf.filter (fun s => pk s && decide (s.t > (retain mint (specK pk series mint_p r)).2))
      ++ soughtK pk maxt rest
      = specK pk series mint maxt := by
  have hsP : Sorted (specK pk series mint_p r) := sorted_filter hs _
  rw [retain_spec hsP]
  simp only
  -- the retained points are the points of the series in (mint, r]
  let Kp : Sample → Bool := fun s => pk s && (decide (mint < s.t) && decide (s.t ≤ r))
  have hk : (specK pk series mint_p r).filter (fun p => decide (p.t > mint)) = series.filter Kp := by
    unfold specK
    rw [List.filter_filter]
    apply filter_congr_mem
    intro x _
    show (decide (x.t > mint) && (pk x && (decide (mint_p < x.t) && decide (x.t ≤ r)))) = (pk x && (decide (mint < x.t) && decide (x.t ≤ r)))
    by_cases a : mint < x.t <;> by_cases b : x.t ≤ r <;> cases pk x <;> simp [a, b] <;> omega
  rw [hk]
  have hsub : Sorted pre := by rw [hser] at hs; exact (sorted_append hs).1
  have hsbuf : Sorted buf := by rw [hpre] at hsub; exact (sorted_append hsub).2.1
  have hrestK : rest.filter Kp = [] :=
    filter_eq_nil_of (fun y hy => by have := hge y hy; simp [Kp]; intro _ _; omega)
  have hkpre : series.filter Kp = pre.filter Kp := by
    rw [hser, List.filter_append, hrestK, List.append_nil]
  rw [hkpre]
  -- the threshold after which buffered samples are appended
  have hthr : ∀ x ∈ buf, (pk x && decide (mint < x.t)) = true →
      (x.t > (match (pre.filter Kp).getLast? with | some l => l.t | none => mint) ↔ x.t > r) := by
    intro x hx hP
    simp at hP
    have hxpre : x ∈ pre := by rw [hpre]; exact List.mem_append_right _ hx
    cases hl : (pre.filter Kp).getLast? with
    | none =>
      simp only
      rw [List.getLast?_eq_none_iff] at hl
      constructor
      · intro _
        by_cases hxr : x.t ≤ r
        · have : x ∈ pre.filter Kp := by
            rw [List.mem_filter]; exact ⟨hxpre, by simp [Kp, hP.1, hP.2, hxr]⟩
          rw [hl] at this; simp at this
        · omega
      · intro _; omega
    | some L =>
      simp only
      have hLm := List.mem_of_getLast? hl
      rw [List.mem_filter] at hLm
      have hLK := hLm.2
      simp [Kp] at hLK
      constructor
      · intro hgt
        by_cases hxr : x.t ≤ r
        · have hxin : x ∈ pre.filter Kp := by
            rw [List.mem_filter]; exact ⟨hxpre, by simp [Kp, hP.1, hP.2, hxr]⟩
          have := sorted_last_max (sorted_filter hsub Kp) hl x hxin
          omega
        · omega
      · intro _; omega
  have hmintK : mint ≤ (match (pre.filter Kp).getLast? with | some l => l.t | none => mint) := by
    cases hl : (pre.filter Kp).getLast? with
    | none => simp
    | some L =>
      simp only
      have hLm := List.mem_of_getLast? hl
      rw [List.mem_filter] at hLm
      have hLK := hLm.2
      simp [Kp] at hLK
      omega
  generalize (match (pre.filter Kp).getLast? with | some l => l.t | none => mint) = mintK at hthr hmintK ⊢
  -- split both sides over dropped ++ buf ++ rest
  unfold specK
  rw [hser, hpre, List.filter_append, List.filter_append, List.filter_append]
  have hdrop : dropped.filter (fun s => pk s && (decide (mint < s.t) && decide (s.t ≤ maxt))) = dropped.filter Kp := by
    apply filter_congr_mem
    intro x hx
    have hxm : x.t < maxt := hlt x (by rw [hpre]; exact List.mem_append_left _ hx)
    have := hdr x hx
    show (pk x && (decide (mint < x.t) && decide (x.t ≤ maxt))) = (pk x && (decide (mint < x.t) && decide (x.t ≤ r)))
    by_cases a : mint < x.t <;> by_cases b : x.t ≤ r <;> cases pk x <;> simp [a, b] <;> omega
  have hbufQ : buf.filter (fun s => pk s && (decide (mint < s.t) && decide (s.t ≤ maxt)))
      = buf.filter (fun s => pk s && decide (mint < s.t)) := by
    apply filter_congr_mem
    intro x hx
    have hxm : x.t < maxt := hlt x (by rw [hpre]; exact List.mem_append_right _ hx)
    have : x.t ≤ maxt := by omega
    simp [this]
  have hbufK : buf.filter Kp = buf.filter (fun x => (pk x && decide (mint < x.t)) && decide (x.t ≤ r)) := by
    apply filter_congr_mem
    intro x _
    simp [Kp, Bool.and_assoc]
  have hbufN : buf.filter (fun s => pk s && decide (s.t > mintK))
      = buf.filter (fun x => (pk x && decide (mint < x.t)) && decide (x.t > mintK)) := by
    apply filter_congr_mem
    intro x _
    by_cases a : x.t > mintK
    · have : mint < x.t := by omega
      simp [a, this]
    · simp [a]
  have hrest : rest.filter (fun s => pk s && (decide (mint < s.t) && decide (s.t ≤ maxt)))
      = soughtK pk maxt rest := by
    cases hr : rest with
    | nil => rfl
    | cons h tl =>
      unfold soughtK
      have hsr : Sorted (h :: tl) := by rw [hser, hr] at hs; exact (sorted_append hs).2.1
      have hh : maxt ≤ h.t := hge h (by rw [hr]; simp)
      have htl : tl.filter (fun s => pk s && (decide (mint < s.t) && decide (s.t ≤ maxt))) = [] :=
        filter_eq_nil_of (fun y hy => by have := (sorted_cons hsr).2 y hy; simp; intro _ _; omega)
      simp only [List.filter_cons, htl]
      by_cases e : h.t = maxt
      · have a : mint < h.t := by omega
        have b : h.t ≤ maxt := by omega
        simp [e, h3]
      · have b : ¬ h.t ≤ maxt := by omega
        simp [e, b]
  rw [hdrop, hbufQ, hrest, hbufK, hbufN, List.append_assoc (dropped.filter Kp), List.append_assoc (dropped.filter Kp)]
  rw [filter_split_sorted hsbuf _ mintK r hthr]
  simp


def pkF (s : Sample) : Bool := !s.hist && !s.stale
def pkH (s : Sample) : Bool := s.hist && !s.stale

theorem winSpec_eq (series : Series) (a b : Int) : winSpec series a b = ⟨specK pkF series a b, specK pkH series a b⟩ := rfl

theorem matrixIterSlice_eq (b : BufIter) (mint maxt : Int) (w : Win) (hne : mint ≠ maxt) :
    matrixIterSlice b mint maxt w = (b.seek maxt,
      ⟨(retain mint w.floats).1
          ++ (b.seek maxt).buf.filter (fun s => pkF s && decide (s.t > (retain mint w.floats).2))
          ++ soughtK pkF maxt (b.seek maxt).rest,
       (retain mint w.hists).1
          ++ (b.seek maxt).buf.filter (fun s => pkH s && decide (s.t > (retain mint w.hists).2))
          ++ soughtK pkH maxt (b.seek maxt).rest⟩) := by
  have e1 : ∀ c : Int, (fun s : Sample => !s.hist && !s.stale && decide (s.t > c)) = (fun s => pkF s && decide (s.t > c)) := by
    intro c; funext s; simp [pkF]
  have e2 : ∀ c : Int, (fun s : Sample => s.hist && decide (s.t > c) && !s.stale) = (fun s => pkH s && decide (s.t > c)) := by
    intro c; funext s; simp only [pkH]; cases s.hist <;> cases s.stale <;> simp
  unfold matrixIterSlice
  simp only [hne, if_false, e1, e2]
  cases hr : (b.seek maxt).rest with
  | nil => simp [soughtK]
  | cons h tl =>
    simp only [soughtK, pkF, pkH]
    by_cases ht : h.t = maxt <;> by_cases hh : h.hist = true <;> by_cases hst : h.stale = true <;> simp [ht, hh, hst]

/-- One step of the window loop: reusing the previous window `(mint_p, r]` yields exactly the window
    `(mint, maxt]`, provided the windows advance and the ring's delta reaches back far enough. -/
theorem mis_step {series : Series} {b : BufIter} {mint_p r mint maxt : Int} (hs : Sorted series)
    (hd : 0 ≤ b.delta) (hinv : BInv series b r) (h1 : mint_p ≤ mint) (h2 : r < maxt) (h3 : mint < maxt)
    (hδ : maxt - b.delta ≤ max mint r) :
    (matrixIterSlice b mint maxt (winSpec series mint_p r)).2 = winSpec series mint maxt ∧
      BInv series (matrixIterSlice b mint maxt (winSpec series mint_p r)).1 maxt ∧
      (matrixIterSlice b mint maxt (winSpec series mint_p r)).1.delta = b.delta := by
  rw [matrixIterSlice_eq _ _ _ _ (by omega)]
  obtain ⟨pre, dropped, g1, g2, g3, g4, g5, g6⟩ := seekB_inv hs hd hinv (by omega : r ≤ maxt)
  refine ⟨?_, ⟨pre, dropped, g1, g2, g3, fun h tl heq => Or.inr (g6 h tl heq)⟩, seekB_delta b maxt⟩
  have eF := slice_kind pkF hs g1 g2 g3 g4 g5 hδ h1 h2 h3
  have eH := slice_kind pkH hs g1 g2 g3 g4 g5 hδ h1 h2 h3
  show Win.mk _ _ = Win.mk _ _
  congr 1

theorem winSpec_empty (series : Series) (a : Int) : winSpec series a a = Win.empty := by
  unfold winSpec Win.empty
  congr 1
  · exact filter_eq_nil_of (fun y _ => by simp <;> (intros; omega))
  · exact filter_eq_nil_of (fun y _ => by simp <;> (intros; omega))

theorem reduceDelta_inv {series : Series} {b : BufIter} {r : Int} (red : Int) (hinv : BInv series b r) :
    BInv series (b.reduceDelta red) r := by
  obtain ⟨pre, dropped, g1, g2, g3, g4⟩ := hinv
  unfold BufIter.reduceDelta
  split
  · exact ⟨pre, dropped, g1, g2, g3, g4⟩
  · unfold ringReduce
    cases hl : b.buf.getLast? with
    | none => exact ⟨pre, dropped, g1, g2, g3, g4⟩
    | some l =>
      obtain ⟨tk, t1, _, _⟩ := dropWhile_split b.buf (l.t - red)
      refine ⟨pre, dropped ++ tk, g1, ?_, g3, g4⟩
      simp only
      rw [List.append_assoc, ← t1]; exact g2

/-- admissible window sequences after a window `(mint_p, r]`: both ends advance, `maxt` strictly, and the
    reduced ring delta still reaches back to the previous `maxt` (or to the new `mint`). -/
def chainOK (red : Int) : Int → Int → List (Int × Int) → Prop
  | _, _, [] => True
  | mint_p, r, (mint, maxt) :: rest =>
    mint_p ≤ mint ∧ r < maxt ∧ mint < maxt ∧ maxt - red ≤ max mint r ∧ chainOK red mint maxt rest

theorem runWindows_spec {series : Series} (hs : Sorted series) (red : Int) (hred : 0 ≤ red) :
    ∀ (ws : List (Int × Int)) (b : BufIter) (mint_p r : Int), BInv series b r → red ≤ b.delta →
      chainOK red mint_p r ws →
      runWindows red b (winSpec series mint_p r) ws = ws.map (fun w => winSpec series w.1 w.2) := by
  intro ws
  induction ws with
  | nil => intros; rfl
  | cons w rest ih =>
    intro b mint_p r hinv hdl hch
    obtain ⟨mint, maxt⟩ := w
    obtain ⟨c1, c2, c3, c4, c5⟩ := hch
    have hδ : maxt - b.delta ≤ max mint r := by omega
    obtain ⟨m1, m2, m3⟩ := mis_step hs (by omega) hinv c1 c2 c3 hδ
    simp only [runWindows, List.map_cons]
    rw [m1]
    congr 1
    split
    · exact ih _ mint maxt m2 (by rw [m3]; exact hdl) c5
    · refine ih _ mint maxt (reduceDelta_inv red m2) ?_ c5
      unfold BufIter.reduceDelta
      split
      · rw [m3]; exact hdl
      · exact Int.le_refl _

end Prom.Selectors
