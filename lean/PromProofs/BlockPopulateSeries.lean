import PromProofs.BlockPopulate
/-
  C07 helper lemmas, part 2: what one `NewBlockChunkSeriesSet` hands on for one series
  (`popSeries`): exactly the samples inside `[mint, maxt]` that no tombstone covers.
-/
namespace Prom.BlockPopulate
open Prom.Merge
open Prom.Intervals (Interval Intervals Canon AllI64 I64 covers coversB)

/-- a well-formed source series -/
structure SeriesWF (s : Series) : Prop where
  canon : Canon s.tombs
  i64 : AllI64 s.tombs
  nonempty : ∀ c ∈ s.chunks, c.samples ≠ []
  sorted : ∀ c ∈ s.chunks, c.samples.Pairwise (fun a b => a.t < b.t)
  within : ∀ c ∈ s.chunks, ∀ x ∈ c.samples, c.mint ≤ x.t ∧ x.t ≤ c.maxt
  metaI64 : ∀ c ∈ s.chunks, I64 c.mint ∧ I64 c.maxt

/-- the samples of a source series a reader restricted to `[mint, maxt]` must see -/
def visible (mint maxt : Int) (s : Series) : List Sample :=
  (s.chunks.flatMap (·.samples)).filter fun x =>
    decide (mint ≤ x.t) && decide (x.t ≤ maxt) && !coversB s.tombs x.t

/-! ### DeletedIterator over samples -/

theorem drainS_eq_filter : ∀ (xs : List Sample) (ivs : Intervals), xs.Pairwise (fun a b => a.t < b.t) → Canon ivs →
    drainS xs ivs = xs.filter (fun x => !coversB ivs x.t)
  | [], _, _, _ => rfl
  | s :: r, ivs, hs, hc => by
    obtain ⟨h1, h2, h3⟩ := Intervals.skipTo_spec s.t ivs hc
    obtain ⟨hlt, hs'⟩ := List.pairwise_cons.mp hs
    have ih := drainS_eq_filter r (Intervals.skipTo s.t ivs).2 hs' h2
    have hcongr : r.filter (fun x => !coversB (Intervals.skipTo s.t ivs).2 x.t) = r.filter (fun x => !coversB ivs x.t) := by
      apply List.filter_congr
      intro x hx
      rw [h3 x.t (hlt x hx)]
    unfold drainS
    cases hsk : Intervals.skipTo s.t ivs with
    | mk d ivs' =>
      rw [hsk] at h1 ih hcongr
      simp only at h1 ih hcongr
      cases d with
      | true =>
        simp only
        rw [ih, hcongr, List.filter_cons, ← h1]; simp
      | false =>
        simp only
        rw [ih, hcongr, List.filter_cons, ← h1]; simp

/-! ### bufIter.Intervals -/

theorem addOverlapping_spec (c : Chunk) : ∀ (ivs acc : Intervals), Canon acc → AllI64 acc →
    (∀ i ∈ ivs, i.mint ≤ i.maxt) → AllI64 ivs →
    ∃ buf, addOverlapping c ivs acc = .ok buf ∧ Canon buf ∧ AllI64 buf ∧
      ∀ t, covers buf t ↔ covers acc t ∨ ∃ i ∈ ivs, overlapsClosed c i.mint i.maxt = true ∧ i.mint ≤ t ∧ t ≤ i.maxt
  | [], acc, hc, hr, _, _ => ⟨acc, rfl, hc, hr, by simp⟩
  | i :: r, acc, hc, hr, hv, hi => by
    unfold addOverlapping
    have hv' : ∀ j ∈ r, j.mint ≤ j.maxt := fun j hj => hv j (List.mem_cons_of_mem _ hj)
    have hi' : AllI64 r := fun j hj => hi j (List.mem_cons_of_mem _ hj)
    by_cases ho : overlapsClosed c i.mint i.maxt = true
    · rw [if_pos ho]
      obtain ⟨ys, hys, hcy, hcov⟩ := Intervals.add_correct acc i hc hr (hv i (List.mem_cons_self ..))
      have hry := Intervals.add_range acc ys i hr (hi i (List.mem_cons_self ..)) hys
      rw [hys]
      obtain ⟨buf, hb, hcb, hrb, hcovb⟩ := addOverlapping_spec c r ys hcy hry hv' hi'
      refine ⟨buf, hb, hcb, hrb, ?_⟩
      intro t
      rw [hcovb t, hcov t]
      constructor
      · rintro ((h | h) | ⟨j, hj, h⟩)
        · exact .inl h
        · exact .inr ⟨i, List.mem_cons_self .., ho, h⟩
        · exact .inr ⟨j, List.mem_cons_of_mem _ hj, h⟩
      · rintro (h | ⟨j, hj, h⟩)
        · exact .inl (.inl h)
        · rcases List.mem_cons.1 hj with rfl | hj
          · exact .inl (.inr h.2)
          · exact .inr ⟨j, hj, h⟩
    · rw [if_neg ho]
      obtain ⟨buf, hb, hcb, hrb, hcovb⟩ := addOverlapping_spec c r acc hc hr hv' hi'
      refine ⟨buf, hb, hcb, hrb, ?_⟩
      intro t
      rw [hcovb t]
      constructor
      · rintro (h | ⟨j, hj, h⟩)
        · exact .inl h
        · exact .inr ⟨j, List.mem_cons_of_mem _ hj, h⟩
      · rintro (h | ⟨j, hj, h⟩)
        · exact .inl h
        · rcases List.mem_cons.1 hj with rfl | hj
          · exact absurd h.1 ho
          · exact .inr ⟨j, hj, h⟩

theorem ofSamples_samples (xs : List Sample) : (Chunk.ofSamples xs).samples = xs := by
  cases xs <;> rfl

/-- one chunk: never an error; what comes out holds exactly the uncovered samples, and is not empty -/
theorem popChunk_spec (ivs : Intervals) (c : Chunk) (hc : Canon ivs) (hr : AllI64 ivs)
    (hs : c.samples.Pairwise (fun a b => a.t < b.t)) (hw : ∀ x ∈ c.samples, c.mint ≤ x.t ∧ x.t ≤ c.maxt)
    (hne : c.samples ≠ []) :
    ∃ oc, popChunk ivs c = .ok oc ∧
      oc.toList.flatMap (·.samples) = c.samples.filter (fun x => !coversB ivs x.t) ∧
      ∀ c' ∈ oc.toList, c'.samples ≠ [] := by
  obtain ⟨buf, hb, hcb, _, hcov⟩ := addOverlapping_spec c ivs [] Intervals.canon_nil (by intro x hx; simp at hx) hc.valid hr
  have hsame : ∀ x ∈ c.samples, coversB buf x.t = coversB ivs x.t := by
    intro x hx
    apply Intervals.coversB_eq_of_iff
    rw [hcov x.t]
    obtain ⟨h1, h2⟩ := hw x hx
    constructor
    · rintro (h | ⟨i, hi, _, h⟩)
      · exact absurd h (Intervals.covers_nil _)
      · exact ⟨i, hi, h⟩
    · rintro ⟨i, hi, h⟩
      refine .inr ⟨i, hi, ?_, h⟩
      simp only [overlapsClosed, Bool.and_eq_true, decide_eq_true_eq]
      omega
  unfold popChunk
  rw [hb]
  cases buf with
  | nil =>
    refine ⟨some c, rfl, ?_, ?_⟩
    · simp only [Option.toList_some, List.flatMap_cons, List.flatMap_nil, List.append_nil]
      symm
      rw [List.filter_eq_self]
      intro x hx
      rw [← hsame x hx]; simp [coversB]
    · intro c' hc'; simp at hc'; subst hc'; exact hne
  | cons b buf =>
    simp only
    have hd := drainS_eq_filter c.samples (b :: buf) hs hcb
    have hf : c.samples.filter (fun x => !coversB (b :: buf) x.t) = c.samples.filter (fun x => !coversB ivs x.t) := by
      apply List.filter_congr
      intro x hx; rw [hsame x hx]
    rw [hd, hf]
    cases hres : c.samples.filter (fun x => !coversB ivs x.t) with
    | nil => exact ⟨none, rfl, by simp, by simp⟩
    | cons s r =>
      refine ⟨some (Chunk.ofSamples (s :: r)), rfl, by simp [ofSamples_samples], ?_⟩
      intro c' hc'; simp at hc'; subst hc'; simp [ofSamples_samples]

theorem popChunks_spec (ivs : Intervals) (hc : Canon ivs) (hr : AllI64 ivs) : ∀ (cs : List Chunk),
    (∀ c ∈ cs, c.samples.Pairwise (fun a b => a.t < b.t)) →
    (∀ c ∈ cs, ∀ x ∈ c.samples, c.mint ≤ x.t ∧ x.t ≤ c.maxt) →
    (∀ c ∈ cs, c.samples ≠ []) →
    ∃ out, popChunks ivs cs = .ok out ∧
      out.flatMap (·.samples) = cs.flatMap (fun c => c.samples.filter (fun x => !coversB ivs x.t)) ∧
      ∀ c' ∈ out, c'.samples ≠ []
  | [], _, _, _ => ⟨[], rfl, rfl, by simp⟩
  | c :: r, hs, hw, hne => by
    obtain ⟨oc, h1, h2, h3⟩ := popChunk_spec ivs c hc hr (hs c (List.mem_cons_self ..)) (hw c (List.mem_cons_self ..))
      (hne c (List.mem_cons_self ..))
    obtain ⟨out, g1, g2, g3⟩ := popChunks_spec ivs hc hr r (fun x hx => hs x (List.mem_cons_of_mem _ hx))
      (fun x hx => hw x (List.mem_cons_of_mem _ hx)) (fun x hx => hne x (List.mem_cons_of_mem _ hx))
    refine ⟨oc.toList ++ out, ?_, ?_, ?_⟩
    · unfold popChunks; rw [h1, g1]
    · rw [List.flatMap_append, h2, g2, List.flatMap_cons]
    · intro c' hc'
      rcases List.mem_append.1 hc' with h | h
      · exact h3 c' h
      · exact g3 c' h

/-! ### trimFront / trimBack -/

theorem trimIntervals_spec (mint maxt : Int) (tombs : Intervals) (kept : List Chunk)
    (hc : Canon tombs) (hr : AllI64 tombs)
    (hmint : Intervals.MinI64 < mint ∧ mint ≤ Intervals.MaxI64) (hmaxt : Intervals.MinI64 ≤ maxt ∧ maxt < Intervals.MaxI64) :
    ∃ ivs, trimIntervals mint maxt tombs kept = .ok ivs ∧ Canon ivs ∧ AllI64 ivs ∧
      ∀ t, covers ivs t ↔ covers tombs t ∨
        ((kept.any fun c => decide (c.mint < mint)) = true ∧ Intervals.MinI64 ≤ t ∧ t ≤ mint - 1) ∨
        ((kept.any fun c => decide (c.maxt > maxt)) = true ∧ maxt + 1 ≤ t ∧ t ≤ Intervals.MaxI64) := by
  unfold trimIntervals
  simp only
  have hI1 : I64 (Intervals.MinI64) ∧ I64 (mint - 1) := by
    simp only [I64, Intervals.MinI64, Intervals.MaxI64] at *; omega
  have hI2 : I64 (maxt + 1) ∧ I64 (Intervals.MaxI64) := by
    simp only [I64, Intervals.MinI64, Intervals.MaxI64] at *; omega
  -- first step
  have step1 : ∃ i1, (if (kept.any fun c => decide (c.mint < mint)) = true then
        liftAdd (Intervals.add tombs ⟨Intervals.MinI64, mint - 1⟩) else .ok tombs) = .ok i1 ∧ Canon i1 ∧ AllI64 i1 ∧
      ∀ t, covers i1 t ↔ covers tombs t ∨
        ((kept.any fun c => decide (c.mint < mint)) = true ∧ Intervals.MinI64 ≤ t ∧ t ≤ mint - 1) := by
    by_cases hf : (kept.any fun c => decide (c.mint < mint)) = true
    · rw [if_pos hf]
      obtain ⟨ys, hys, hcy, hcov⟩ := Intervals.add_correct tombs ⟨Intervals.MinI64, mint - 1⟩ hc hr (by simp only; omega)
      refine ⟨ys, by rw [hys]; rfl, hcy, Intervals.add_range tombs ys _ hr hI1 hys, ?_⟩
      intro t; rw [hcov t]; simp [hf]
    · rw [if_neg hf]
      exact ⟨tombs, rfl, hc, hr, by intro t; simp [hf]⟩
  obtain ⟨i1, h1, hc1, hr1, hcov1⟩ := step1
  rw [h1]
  simp only
  by_cases hb : (kept.any fun c => decide (c.maxt > maxt)) = true
  · rw [if_pos hb]
    obtain ⟨ys, hys, hcy, hcov⟩ := Intervals.add_correct i1 ⟨maxt + 1, Intervals.MaxI64⟩ hc1 hr1 (by simp only; omega)
    refine ⟨ys, by rw [hys]; rfl, hcy, Intervals.add_range i1 ys _ hr1 hI2 hys, ?_⟩
    intro t; rw [hcov t, hcov1 t]; simp [hb, or_assoc]
  · rw [if_neg hb]
    refine ⟨i1, rfl, hc1, hr1, ?_⟩
    intro t; rw [hcov1 t]; simp [hb]

/-! ### one series -/

theorem flatMap_filter_keep {α β} (l : List α) (keep : α → Bool) (f : α → List β)
    (h : ∀ a ∈ l, keep a = false → f a = []) : (l.filter keep).flatMap f = l.flatMap f := by
  induction l with
  | nil => rfl
  | cons a r ih =>
    have ih' := ih (fun x hx => h x (List.mem_cons_of_mem _ hx))
    cases hk : keep a
    · simp [List.filter_cons, hk, ih', h a (List.mem_cons_self ..) hk]
    · simp [List.filter_cons, hk, ih']

theorem flatMap_congr' {α β} (l : List α) (f g : α → List β) (h : ∀ a ∈ l, f a = g a) :
    l.flatMap f = l.flatMap g := by
  induction l with
  | nil => rfl
  | cons a r ih =>
    simp only [List.flatMap_cons]
    rw [h a (List.mem_cons_self ..), ih (fun x hx => h x (List.mem_cons_of_mem _ hx))]

theorem filter_flatMap {α β} (l : List α) (f : α → List β) (p : β → Bool) :
    (l.flatMap f).filter p = l.flatMap (fun a => (f a).filter p) := by
  induction l with
  | nil => rfl
  | cons a r ih => simp [List.flatMap_cons, List.filter_append, ih]

/-- `blockBaseSeriesSet.Next` + chunk iterator for one series: never an error on well-formed input;
    the series is yielded with exactly its visible samples, or not yielded and then nothing is visible. -/
theorem popSeries_spec (mint maxt : Int) (s : Series) (wf : SeriesWF s)
    (hmint : Intervals.MinI64 < mint ∧ mint ≤ Intervals.MaxI64) (hmaxt : Intervals.MinI64 ≤ maxt ∧ maxt < Intervals.MaxI64) :
    ∃ r, popSeries mint maxt s = .ok r ∧
      (r.toList.map fun cs => (cs.1, csSamples cs)) = (if r.isSome then [(s.labels, visible mint maxt s)] else []) ∧
      (r = none → visible mint maxt s = []) ∧
      ∀ cs ∈ r.toList, ∀ c ∈ cs.2, c.samples ≠ [] := by
  -- dropped chunks contribute nothing visible
  have hdrop : ∀ c ∈ s.chunks, keepChunk mint maxt s.tombs c = false →
      c.samples.filter (fun x => decide (mint ≤ x.t) && decide (x.t ≤ maxt) && !coversB s.tombs x.t) = [] := by
    intro c hc hk
    rw [List.filter_eq_nil_iff]
    intro x hx
    obtain ⟨h1, h2⟩ := wf.within c hc x hx
    simp only [keepChunk, Bool.and_eq_false_iff, Bool.not_eq_false', decide_eq_true_eq, Bool.not_eq_eq_eq_not,
      Bool.not_false] at hk
    simp only [Bool.and_eq_true, decide_eq_true_eq, Bool.not_eq_eq_eq_not, Bool.not_true, not_and, Bool.not_eq_false]
    intro a
    rcases hk with (hk | hk) | hk
    · omega
    · omega
    · have hv : c.mint ≤ c.maxt := by omega
      have := (Intervals.isSubrange_iff ⟨c.mint, c.maxt⟩ s.tombs wf.canon hv).1 hk x.t h1 h2
      exact (Intervals.coversB_iff _ _).2 this
  have hvis : visible mint maxt s = (s.chunks.filter (keepChunk mint maxt s.tombs)).flatMap
      (fun c => c.samples.filter (fun x => decide (mint ≤ x.t) && decide (x.t ≤ maxt) && !coversB s.tombs x.t)) := by
    unfold visible
    rw [filter_flatMap, flatMap_filter_keep _ _ _ hdrop]
  unfold popSeries
  simp only
  by_cases hke : (s.chunks.filter (keepChunk mint maxt s.tombs)).isEmpty = true
  · rw [if_pos hke]
    refine ⟨none, rfl, by simp, ?_, by simp⟩
    intro _
    rw [hvis, List.isEmpty_iff.1 hke]; rfl
  · rw [if_neg hke]
    have hsub : ∀ c ∈ s.chunks.filter (keepChunk mint maxt s.tombs), c ∈ s.chunks := fun c hc => (List.mem_filter.1 hc).1
    obtain ⟨ivs, hi, hci, hri, hcov⟩ := trimIntervals_spec mint maxt s.tombs (s.chunks.filter (keepChunk mint maxt s.tombs))
      wf.canon wf.i64 hmint hmaxt
    rw [hi]
    simp only
    obtain ⟨out, ho, hsamp, hne⟩ := popChunks_spec ivs hci hri (s.chunks.filter (keepChunk mint maxt s.tombs))
      (fun c hc => wf.sorted c (hsub c hc)) (fun c hc => wf.within c (hsub c hc)) (fun c hc => wf.nonempty c (hsub c hc))
    rw [ho]
    refine ⟨some (s.labels, out), rfl, ?_, by simp, ?_⟩
    · simp only [Option.toList_some, List.map_cons, List.map_nil, Option.isSome_some, if_true, csSamples]
      rw [hsamp, hvis]
      congr 2
      apply flatMap_congr'
      intro c hc
      apply List.filter_congr
      intro x hx
      obtain ⟨h1, h2⟩ := wf.within c (hsub c hc) x hx
      obtain ⟨m1, m2⟩ := wf.metaI64 c (hsub c hc)
      -- covers ivs t ↔ ¬ (in range ∧ ¬ covers tombs)
      have hiff : covers ivs x.t ↔ ¬ (mint ≤ x.t ∧ x.t ≤ maxt ∧ ¬ covers s.tombs x.t) := by
        rw [hcov x.t]
        constructor
        · rintro (h | ⟨_, _, h⟩ | ⟨_, h, _⟩)
          · intro hh; exact hh.2.2 h
          · intro hh; omega
          · intro hh; omega
        · intro hh
          by_cases hcv : covers s.tombs x.t
          · exact .inl hcv
          · by_cases hlo : mint ≤ x.t
            · have : ¬ x.t ≤ maxt := fun h => hh ⟨hlo, h, hcv⟩
              refine .inr (.inr ⟨?_, by omega, ?_⟩)
              · rw [List.any_eq_true]; exact ⟨c, hc, by simp only [decide_eq_true_eq]; omega⟩
              · simp only [I64] at m2; omega
            · refine .inr (.inl ⟨?_, ?_, by omega⟩)
              · rw [List.any_eq_true]; exact ⟨c, hc, by simp only [decide_eq_true_eq]; omega⟩
              · simp only [I64] at m1; omega
      rw [Bool.eq_iff_iff]
      simp only [Bool.not_eq_eq_eq_not, Bool.not_true, Bool.and_eq_true, decide_eq_true_eq]
      rw [← Bool.not_eq_true, Intervals.coversB_iff, hiff, ← Bool.not_eq_true, Intervals.coversB_iff]
      constructor
      · intro h; exact Classical.not_not.1 (by simpa [and_assoc] using h)
      · intro h; simpa [and_assoc] using h
    · intro cs hcs c' hc'
      simp at hcs; subst hcs
      exact hne c' hc'

end Prom.BlockPopulate
