import PromProofs.ChunkXorLemmas
/-
  C10: encoder/decoder simulation for the classic XOR chunk.
-/
/-
  C10: encoder/decoder simulation for the classic XOR chunk.
-/
namespace Prom.ChunkXor
open Prom.Bits Prom.Varbit

/-! ### sample-level simulation: the iterator state tracks the appender state -/

/-- Appender state `a` vs iterator state `d` after `k` samples. -/
def StRel (k : Nat) (a d : St) : Prop :=
  WinRel a.leading a.trailing d.leading d.trailing ∧
  (1 ≤ k → a.t = d.t ∧ a.v = d.v ∧ I64 a.t ∧ a.v < 2 ^ 64) ∧
  (2 ≤ k → a.tDelta = d.tDelta ∧ a.tDelta < 2 ^ 64)

theorem toU_toI {x : Nat} (h : x < 2 ^ 64) : toU (toI x) = x := by
  unfold toU toI two63 two64; split <;> omega

theorem I64_toI {x : Nat} (h : x < 2 ^ 64) : I64 (toI x) := by
  unfold I64 toI two63 two64; split <;> omega

theorem ts_step {t pt : Int} (ht : I64 t) (hp : I64 pt) :
    toI ((toU pt + toU (t - pt)) % two64) = t := by
  unfold I64 two63 at ht hp
  unfold toI toU two63 two64
  split <;> omega

theorem td_step {td ptd : Nat} (h1 : td < 2 ^ 64) (h2 : ptd < 2 ^ 64) :
    (ptd + toU (toI ((td + two64 - ptd) % two64))) % two64 = td := by
  have hlt : (td + two64 - ptd) % two64 < 2 ^ 64 := by unfold two64; omega
  rw [toU_toI hlt]
  unfold two64; omega

theorem encSample_two (k : Nat) (a : St) (t : Int) (v : Nat) :
    encSample (k + 2) a t v =
      (dodBits (toI ((toU (t - a.t) + two64 - a.tDelta) % two64)) ++ (xorWrite (v ^^^ a.v) a.leading a.trailing).1,
       ⟨t, v, toU (t - a.t), (xorWrite (v ^^^ a.v) a.leading a.trailing).2.1, (xorWrite (v ^^^ a.v) a.leading a.trailing).2.2⟩) := rfl
theorem decSample_two (k : Nat) (d : St) (bits : Bits) :
    decSample (k + 2) d bits =
      match readDod bits with
      | none => none
      | some (dod, r) =>
        match xorRead d.v d.leading d.trailing r with
        | none => none
        | some (v, l, tr, r') => some (⟨toI ((toU d.t + (d.tDelta + toU dod) % two64) % two64), v, (d.tDelta + toU dod) % two64, l, tr⟩, r') := rfl

theorem encSample_two_fst (k : Nat) (a : St) (t : Int) (v : Nat) :
    (encSample (k + 2) a t v).1 =
      dodBits (toI ((toU (t - a.t) + two64 - a.tDelta) % two64)) ++ (xorWrite (v ^^^ a.v) a.leading a.trailing).1 := rfl
theorem encSample_two_snd (k : Nat) (a : St) (t : Int) (v : Nat) :
    (encSample (k + 2) a t v).2 =
       ⟨t, v, toU (t - a.t), (xorWrite (v ^^^ a.v) a.leading a.trailing).2.1, (xorWrite (v ^^^ a.v) a.leading a.trailing).2.2⟩ := rfl
theorem decSample_two_of (k : Nat) (d : St) (bits r r' : Bits) (dod : Int) (v l tr : Nat)
    (h1 : readDod bits = some (dod, r)) (h2 : xorRead d.v d.leading d.trailing r = some (v, l, tr, r')) :
    decSample (k + 2) d bits =
      some (⟨toI ((toU d.t + (d.tDelta + toU dod) % two64) % two64), v, (d.tDelta + toU dod) % two64, l, tr⟩, r') := by
  rw [decSample_two, h1]
  simp only [h2]

theorem dec2 (k : Nat) (a d : St) (t : Int) (v : Nat) (rest : Bits)
    (hrel : StRel (k+2) a d) (ht : I64 t) (hv : v < 2 ^ 64) :
    ∃ d', decSample (k+2) d ((encSample (k+2) a t v).1 ++ rest) = some (d', rest) ∧
      StRel (k + 2 + 1) (encSample (k+2) a t v).2 d' ∧ d'.t = t ∧ d'.v = v := by
  obtain ⟨hw, h1, h2⟩ := hrel
  obtain ⟨e1, e2, i1, i2⟩ := h1 (Nat.le_add_left 1 (k+1))
  obtain ⟨e3, i3⟩ := h2 (Nat.le_add_left 2 k)
  obtain ⟨dl', dt', hx, hw'⟩ := xorRead_xorWrite a.v v a.leading a.trailing d.leading d.trailing rest i2 hv hw
  refine ⟨⟨t, v, toU (t - a.t), dl', dt'⟩, ?_, ?_, rfl, rfl⟩
  · have hlt : (toU (t - a.t) + two64 - a.tDelta) % two64 < 2 ^ 64 := Nat.mod_lt _ (by decide)
    rw [encSample_two_fst, List.append_assoc]
    rw [decSample_two_of k d _ _ rest _ v dl' dt' (readDod_put _ _ (I64_toI hlt)) (by rw [← e2]; exact hx)]
    rw [← e1, ← e3, td_step (toU_lt _) i3, ts_step ht i1]
  · rw [encSample_two_snd]
    exact ⟨hw', fun _ => ⟨rfl, rfl, ht, hv⟩, fun _ => ⟨rfl, toU_lt _⟩⟩
theorem decSample_encSample (k : Nat) (a d : St) (t : Int) (v : Nat) (rest : Bits)
    (hrel : StRel k a d) (ht : I64 t) (hv : v < 2 ^ 64) :
    ∃ d', decSample k d ((encSample k a t v).1 ++ rest) = some (d', rest) ∧
      StRel (k + 1) (encSample k a t v).2 d' ∧ d'.t = t ∧ d'.v = v := by
  match k with
  | k + 2 => exact dec2 k a d t v rest hrel ht hv
  | 0 =>
    obtain ⟨hw, h1, h2⟩ := hrel
    refine ⟨{ d with t := t, v := v }, ?_, ?_, rfl, rfl⟩
    · simp only [encSample, decSample, List.append_assoc]
      rw [readVarint_put true t _ ht]
      simp only []
      rw [readBits_natToBits_lt rest hv]
    · simp only [encSample]
      exact ⟨hw, fun _ => ⟨rfl, rfl, ht, hv⟩, fun h => absurd h (by decide)⟩
  | 1 =>
    obtain ⟨hw, h1, h2⟩ := hrel
    obtain ⟨e1, e2, i1, i2⟩ := h1 (Nat.le_refl _)
    obtain ⟨dl', dt', hx, hw'⟩ := xorRead_xorWrite a.v v a.leading a.trailing d.leading d.trailing rest i2 hv hw
    refine ⟨⟨t, v, toU (t - a.t), dl', dt'⟩, ?_, ?_, rfl, rfl⟩
    · simp only [encSample, decSample, List.append_assoc]
      rw [readUvarint_put true _ _ (toU_lt _)]
      simp only []
      rw [← e1, ← e2, hx, ts_step ht i1]
    · simp only [encSample]
      exact ⟨hw', fun _ => ⟨rfl, rfl, ht, hv⟩, fun _ => ⟨rfl, toU_lt _⟩⟩

theorem decodeFrom_encodeFrom (ss : List Sample) :
    ∀ (k : Nat) (a d : St) (rest : Bits), StRel k a d → (∀ s ∈ ss, I64 s.1 ∧ s.2 < 2 ^ 64) →
    ∃ d', decodeFrom ss.length k d (encodeFrom k a ss ++ rest) = (ss, d', rest, true) ∧
      StRel (k + ss.length) (encState k a ss) d' := by
  induction ss with
  | nil => intro k a d rest hrel _; exact ⟨d, rfl, hrel⟩
  | cons s ss ih =>
    intro k a d rest hrel hall
    obtain ⟨t, v⟩ := s
    have hs := hall (t, v) (List.mem_cons_self)
    obtain ⟨d1, hd1, hrel1, ht1, hv1⟩ := decSample_encSample k a d t v (encodeFrom (k + 1) (encSample k a t v).2 ss ++ rest) hrel hs.1 hs.2
    obtain ⟨d2, hd2, hrel2⟩ := ih (k + 1) (encSample k a t v).2 d1 rest hrel1 (fun s hs => hall s (List.mem_cons_of_mem _ hs))
    refine ⟨d2, ?_, ?_⟩
    · simp only [encodeFrom, List.length_cons, decodeFrom, List.append_assoc, hd1, hd2, ht1, hv1]
    · simpa [encState, Nat.add_assoc, Nat.add_comm 1] using hrel2

theorem StRel_init : StRel 0 encInit decInit :=
  ⟨Or.inl rfl, fun h => by omega, fun h => by omega⟩

end Prom.ChunkXor
