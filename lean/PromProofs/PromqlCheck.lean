import PromProofs.PromqlFrag
/-
  Property C26: `checkAST` on the tree the parser builds from the printed text of a well-typed tree
  (`raw e`) returns `norm e`.
-/
namespace Prom.Promql

/-! ### `typ` ignores matchers and vector matching -/

theorem typ_raw (e : Expr) : Expr.typ (raw e) = Expr.typ e := by
  fun_induction raw e <;> simp_all [Expr.typ]

theorem typ_norm (e : Expr) : Expr.typ (norm e) = Expr.typ e := by
  fun_induction norm e <;> simp_all [Expr.typ]

/-! ### `sortMs` is a permutation -/

theorem insertM_perm (x : Matcher) (ys : List Matcher) : (insertM x ys).Perm (x :: ys) := by
  induction ys with
  | nil => simp [insertM]
  | cons y ys ih =>
    simp only [insertM]
    split
    · exact List.Perm.refl _
    · exact ((List.Perm.cons y ih).trans (List.Perm.swap x y ys))

theorem sortMs_perm (xs : List Matcher) : (sortMs xs).Perm xs := by
  induction xs with
  | nil => simp [sortMs]
  | cons x xs ih =>
    have : sortMs (x :: xs) = insertM x (sortMs xs) := rfl
    rw [this]
    exact (insertM_perm x _).trans (List.Perm.cons x ih)

theorem sortMs_any (p : Matcher → Bool) (xs : List Matcher) : (sortMs xs).any p = xs.any p :=
  (sortMs_perm xs).any_eq

/-! ### selectors -/

theorem keptMs_nil (ms : List Matcher) : keptMs [] ms = ms := by
  unfold keptMs
  apply List.filter_eq_self.mpr
  intro m _
  cases hv : m.value <;> simp

theorem keptMs_name {name : Bytes} (hn : name ≠ []) {ms0 : List Matcher}
    (h0 : ∀ m ∈ ms0, m.name ≠ metricNameB) : keptMs name (ms0 ++ [nameMatcher name]) = ms0 := by
  unfold keptMs
  rw [List.filter_append]
  have h1 : ms0.filter (fun m => !(m.name == metricNameB && m.typ == .eq && m.value == name && !m.value.isEmpty)) = ms0 := by
    apply List.filter_eq_self.mpr
    intro m hm
    have := h0 m hm
    simp [this]
  rw [h1]
  simp [nameMatcher, hn]

theorem check_vs {name : Bytes} {ms : List Matcher} (h : SelWT name ms) (off : Int) (offe : Expr)
    (atm : AtMod) (ext : Ext) :
    check (.vs name (normMs name ms) off offe atm ext) = some (.vs name (normMs name ms) off offe atm ext) := by
  by_cases hn : name = []
  · subst hn
    have h2 := h.2 rfl
    simp [check, normMs, keptMs_nil, sortMs_any, h2]
  · obtain ⟨ms0, rfl, h0⟩ := h.1 hn
    have hany : (sortMs ms0).any (fun m => m.name == metricNameB) = false := by
      rw [sortMs_any]
      simp only [List.any_eq_false]
      intro m hm
      simpa using h0 m hm
    simp [check, normMs, keptMs_name hn h0, hn, hany]

/-! ### binary nodes -/

theorem check_bin {op : BinOp} {b : Bool} {vm : Option VM} {l r l' r' : Expr}
    (hl : check l = some l') (hr : check r = some r')
    (h : binWT op b vm l'.typ r'.typ = true) :
    check (.bin op b (some (rawVM vm)) l r) = some (.bin op b vm l' r') := by
  simp only [check, hl, hr, Option.bind_eq_bind, Option.bind_some, Option.getD_some]
  generalize l'.typ = lt at h ⊢
  generalize r'.typ = rt at h ⊢
  unfold binWT at h
  generalize op.isComparison = c at h ⊢
  generalize op.isSet = s at h ⊢
  cases lt <;> cases rt <;> simp at h
  · obtain ⟨_, h3, h4⟩ := h
    subst h3 h4
    cases b <;> cases c <;> simp_all [rawVM, vm0]
  · obtain ⟨_, h3, h4⟩ := h
    subst h3 h4
    cases b <;> cases c <;> simp_all [rawVM, vm0]
  · obtain ⟨_, h3, h4⟩ := h
    subst h3 h4
    cases b <;> cases c <;> simp_all [rawVM, vm0]
  · cases vm with
    | none => simp at h
    | some m =>
      obtain ⟨card, on, labels, incl, fL, fR⟩ := m
      simp only [Bool.and_eq_true, Option.isNone_iff_eq_none, Bool.or_eq_true] at h
      obtain ⟨hb, ⟨⟨hfL, hfR⟩, hon⟩, hcard⟩ := h
      subst hfL hfR
      cases s
      · simp at hcard
        rcases hcard with (⟨rfl, rfl⟩ | rfl) | rfl <;>
          cases b <;> cases c <;> cases on <;> simp_all [rawVM]
      · simp at hcard
        obtain ⟨rfl, rfl⟩ := hcard
        cases b <;> cases c <;> cases on <;> simp_all [rawVM]

/-! ### main theorem -/

theorem check_raw {e : Expr} (h : WT e) : check (raw e) = some (norm e) := by
  induction h with
  | num v d => simp [raw, norm, check]
  | str s => simp [raw, norm, check]
  | vs hs => simp only [raw, norm]; exact check_vs hs _ _ _ _
  | @mat name ms off offe atm ext r re hs =>
    have hv := check_vs hs off offe atm ext
    simp only [raw, norm]
    rw [check, hv]
    rfl
  | paren _ ih => simp [raw, norm, check, ih]
  | un neg _ ht ih =>
    simp only [raw, norm, check, ih, Option.bind_eq_bind, Option.bind_some, typ_norm]
    rcases ht with ht | ht <;> simp [ht]
  | bin op b vm _ _ hb ihl ihr =>
    simp only [raw, norm]
    apply check_bin ihl ihr
    simpa only [typ_norm] using hb

end Prom.Promql
