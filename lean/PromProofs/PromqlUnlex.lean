import PromProofs.PromqlLex
import PromProofs.PromqlLexString
import PromProofs.PromqlLexDur
import PromProofs.PromqlLexNum
/-
  Property C26, "lex ∘ unlex = id": a sequence of printer items (words, symbolic operators, punctuation,
  plain decimal numbers, durations, quoted strings, `{…}` matcher groups, `[…]` range / subquery groups),
  written out with optional single spaces between them, is read back by the PromQL lexer (`lex`) as exactly
  the tokens of the items — provided a space is written wherever two adjacent items would otherwise fuse
  (`needSpace`) and the parentheses are balanced (`lex_unlex`).

  Route: one `LexSeg` per item (`Unlex.itemSeg`), composed along the list with `LexSeg.append` (`Unlex.seg_items`);
  the delimiter side conditions look at the first byte of the next item (`Unlex.headOk`).
-/
namespace Prom.Promql

/-! ### printer items -/

/-- one label matcher as printed inside braces: name (bare legacy identifier or quoted), operator,
    quoted value -/
structure PMatcher where
  name : Bytes
  quotedName : Bool        -- printed as a quoted string?
  typ : MatchType          -- = != =~ !~
  value : Bytes

/-- printer items -/
inductive PItem
  | word (w : Bytes)                    -- identifier / metric name / keyword / and or unless atan2 / Inf NaN
  | op (o : BinOp)                      -- symbolic operators only: + - * / % ^ == != <= < >= > </ >/
  | lparen | rparen | comma | at
  | num (t : Bytes)                     -- plain decimal text
  | dur (ms : Nat)                      -- a duration, printed with fmtDurationMs
  | str (s : Bytes)                     -- a double-quoted string, printed with `quote`
  | matchers (ms : List PMatcher)       -- `{m1,m2,…}` (also `{}`)
  | range (ms : Nat)                    -- `[5m]`
  | subrange (ms : Nat) (step : Option Nat)   -- `[5m:]` / `[5m:1m]`

/-- the bytes of an operator (explicit for the symbolic ones; `opBytes_eq_text`) -/
def opBytes : BinOp → Bytes
  | .add => [43] | .sub => [45] | .mul => [42] | .div => [47] | .mod => [37] | .pow => [94]
  | .eqlc => [61, 61] | .neq => [33, 61] | .lte => [60, 61] | .lss => [60] | .gte => [62, 61] | .gtr => [62]
  | .trimUpper => [60, 47] | .trimLower => [62, 47]
  | .atan2 => bs "atan2" | .land => bs "and" | .lor => bs "or" | .lunless => bs "unless"

theorem opBytes_eq_text (o : BinOp) : opBytes o = o.text := by
  cases o <;> with_unfolding_all rfl

/-- the 14 operators written with symbols -/
def isSymbolic : BinOp → Bool
  | .atan2 | .land | .lor | .lunless => false
  | _ => true

/-- the bytes of a matcher operator (`mtBytes_eq_text`) -/
def mtBytes : MatchType → Bytes
  | .eq => [61] | .ne => [33, 61] | .re => [61, 126] | .nre => [33, 126]

theorem mtBytes_eq_text (t : MatchType) : mtBytes t = t.text := by
  cases t <;> with_unfolding_all rfl

/-- the token of a matcher operator inside braces -/
def mtTok : MatchType → Tok
  | .eq => .eql | .ne => .op .neq [33, 61] | .re => .eqlRegex | .nre => .neqRegex

/-- a legacy label name: letter or `_`, then letters, digits, `_` -/
def isLabelIdent : Bytes → Bool
  | [] => false
  | c :: tl => isAlphaB c && tl.all isAlnumB

def PMatcher.nameText (m : PMatcher) : Bytes := if m.quotedName then quote m.name else m.name

def PMatcher.nameTok (m : PMatcher) : Tok := if m.quotedName then .string (quote m.name) else .ident m.name

def PMatcher.text (m : PMatcher) : Bytes := m.nameText ++ (mtBytes m.typ ++ quote m.value)

def PMatcher.toks (m : PMatcher) : List Tok := [m.nameTok, mtTok m.typ, .string (quote m.value)]

def PMatcher.ok (m : PMatcher) : Bool :=
  (if m.quotedName then !hasRC m.name else isLabelIdent m.name) && !hasRC m.value

/-- the matchers separated by commas (no spaces, as the printer writes them) -/
def matchersText : List PMatcher → Bytes
  | [] => []
  | [m] => m.text
  | m :: ms => m.text ++ 44 :: matchersText ms

def matchersToks : List PMatcher → List Tok
  | [] => []
  | [m] => m.toks
  | m :: ms => m.toks ++ .comma :: matchersToks ms

theorem Unlex.bs_comma : bs "," = [44] := by with_unfolding_all rfl

/-- `matchersText` is the printer's `(bs ",").intercalate` -/
theorem matchersText_eq_intercalate (ms : List PMatcher) :
    matchersText ms = (bs ",").intercalate (ms.map PMatcher.text) := by
  rw [Unlex.bs_comma]
  induction ms with
  | nil => rfl
  | cons m ms ih =>
    cases ms with
    | nil => simp [matchersText, List.intercalate]
    | cons m' ms =>
      rw [matchersText, ih]
      simp [List.intercalate]
      intro; contradiction

/-- the bytes of an item -/
def PItem.text : PItem → Bytes
  | .word w => w
  | .op o => opBytes o
  | .lparen => [40] | .rparen => [41] | .comma => [44] | .at => [64]
  | .num t => t
  | .dur ms => fmtDurationMs ms
  | .str s => quote s
  | .matchers ms => 123 :: (matchersText ms ++ [125])
  | .range ms => 91 :: (fmtDurationMs ms ++ [93])
  | .subrange ms none => 91 :: (fmtDurationMs ms ++ [58, 93])
  | .subrange ms (some st) => 91 :: (fmtDurationMs ms ++ 58 :: (fmtDurationMs st ++ [93]))

/-- the tokens the lexer must make of an item -/
def PItem.toks : PItem → List Tok
  | .word w => [wordTok w]
  | .op o => [.op o (opBytes o)]
  | .lparen => [.lparen] | .rparen => [.rparen] | .comma => [.comma] | .at => [.at]
  | .num t => [.number t]
  | .dur ms => [.duration (fmtDurationMs ms)]
  | .str s => [.string (quote s)]
  | .matchers ms => .lbrace :: (matchersToks ms ++ [.rbrace])
  | .range ms => [.lbracket, .duration (fmtDurationMs ms), .rbracket]
  | .subrange ms none => [.lbracket, .duration (fmtDurationMs ms), .colon, .rbracket]
  | .subrange ms (some st) =>
    [.lbracket, .duration (fmtDurationMs ms), .colon, .duration (fmtDurationMs st), .rbracket]

/-- well-formed items -/
def PItem.ok : PItem → Bool
  | .word w => isWordB w && !isFillWord w
  | .op o => isSymbolic o
  | .num t => isDecimalText t
  | .str s => !hasRC s
  | .matchers ms => ms.all PMatcher.ok
  | _ => true

/-- the item starts with a letter, digit, `_` or `:` -/
def PItem.wordy : PItem → Bool
  | .word _ | .num _ | .dur _ => true
  | _ => false

def PItem.isOp : PItem → Bool
  | .op _ => true
  | _ => false

/-- must a space separate two adjacent items? (conservative): between two of word / number / duration, and
    between `<` or `>` and another operator. -/
def needSpace (a b : PItem) : Bool :=
  match a with
  | .word _ | .num _ | .dur _ => b.wordy
  | .op .lss | .op .gtr => b.isOp
  | _ => false

/-- the optional single space after an item -/
def sepText (sp : Bool) : Bytes := if sp then [32] else []

/-- text of each item followed by one space iff its flag is true -/
def render : List (PItem × Bool) → Bytes
  | [] => []
  | p :: r => (p.1.text ++ sepText p.2) ++ render r

/-- adjacent items `(a, sa), (b, _)` with `needSpace a b` have `sa = true` -/
def spacedOk : List (PItem × Bool) → Bool
  | [] => true
  | p :: r => (match r with | [] => true | q :: _ => !needSpace p.1 q.1 || p.2) && spacedOk r

/-- parenthesis depth after an item (`none`: a `)` without an open `(`) -/
def PItem.depth (d : Nat) : PItem → Option Nat
  | .lparen => some (d + 1)
  | .rparen => if d = 0 then none else some (d - 1)
  | _ => some d

/-- starting with `d` open parentheses the depth never becomes negative and ends at 0 -/
def parensOk : Nat → List (PItem × Bool) → Bool
  | d, [] => d == 0
  | d, p :: r => match p.1.depth d with
    | none => false
    | some d' => parensOk d' r

namespace Unlex

/-! ### delimiters -/

/-- what the byte after an item must satisfy -/
def okAfter : PItem → Option UInt8 → Prop
  | .word _ => noWordB
  | .num _ => noNumB
  | .dur _ => noAlnumB
  | .op .lss => noEqSlashB
  | .op .gtr => noEqSlashB
  | _ => anyB

def opHeads : List UInt8 := [43, 45, 42, 47, 37, 94, 61, 33, 60, 62]
def punctHeads : List UInt8 := [40, 41, 44, 64, 34, 123, 91]

/-- what the first byte of an item's text looks like -/
def headOk : PItem → UInt8 → Prop
  | .word _, c => (isAlphaB c || c == 58) = true
  | .num _, c => isDigitB c = true
  | .dur _, c => isDigitB c = true
  | .op _, c => c ∈ opHeads
  | _, c => c ∈ punctHeads

theorem quote_cons (s : Bytes) : quote s = 34 :: (quoteBody s.length s ++ [34]) := rfl

theorem text_head (b : PItem) (hb : b.ok = true) : ∃ c tl, b.text = c :: tl ∧ headOk b c := by
  cases b with
  | word w =>
    cases w with
    | nil => simp [PItem.ok, isWordB] at hb
    | cons c tl =>
      simp only [PItem.ok, isWordB, Bool.and_eq_true] at hb
      exact ⟨c, tl, rfl, hb.1.1⟩
  | op o => cases o <;> first | exact absurd hb (by decide) | exact ⟨_, _, rfl, by show _ ∈ opHeads; decide⟩
  | num t =>
    obtain ⟨c, tl, h, hc⟩ := isDecimalText_head (t := t) hb
    exact ⟨c, tl, h, hc⟩
  | dur ms =>
    obtain ⟨c, tl, h, hc⟩ := fmtDurationMs_head_digit ms
    exact ⟨c, tl, h, hc⟩
  | str s => exact ⟨34, _, quote_cons s, by show _ ∈ punctHeads; decide⟩
  | subrange ms st => cases st <;> exact ⟨_, _, rfl, by show _ ∈ punctHeads; decide⟩
  | _ => exact ⟨_, _, rfl, by show _ ∈ punctHeads; decide⟩

theorem headOk_noSpace (b : PItem) (c : UInt8) (h : headOk b c) : isSpaceB c = false := by
  have hp : ∀ c ∈ punctHeads, isSpaceB c = false := by decide
  have ho : ∀ c ∈ opHeads, isSpaceB c = false := by decide
  cases b with
  | word w => exact (word_head_chain c h).2.2.1
  | num t => exact (digit_head_chain c h).2.2.1
  | dur ms => exact (digit_head_chain c h).2.2.1
  | op o => exact ho c h
  | _ => exact hp c h

theorem okAfter_none (a : PItem) : okAfter a none := by
  cases a with
  | word w => intro c h; cases h
  | num t => intro c h; cases h
  | dur ms => intro c h; cases h
  | op o => cases o <;> first | trivial | exact ⟨by simp, by simp⟩
  | _ => trivial

theorem okAfter_space (a : PItem) : okAfter a (some 32) := by
  cases a with
  | word w => intro c h; cases h; decide
  | num t => intro c h; cases h; decide
  | dur ms => intro c h; cases h; decide
  | op o => cases o <;> first | trivial | exact ⟨by decide, by decide⟩
  | _ => trivial

theorem noEqSlash_of_headOk (b : PItem) (hb : b.isOp = false) (c : UInt8) (hc : headOk b c) :
    noEqSlashB (some c) := by
  have hp : ∀ c ∈ punctHeads, c ≠ 61 ∧ c ≠ 47 := by decide
  have key : c ≠ 61 ∧ c ≠ 47 := by
    cases b with
    | word w =>
      have := word_head_chain c hc
      exact ⟨fun h => by simp [h] at this, fun h => by simp [h] at this⟩
    | num t =>
      have := digit_head_chain c hc
      exact ⟨fun h => by simp [h] at this, fun h => by simp [h] at this⟩
    | dur ms =>
      have := digit_head_chain c hc
      exact ⟨fun h => by simp [h] at this, fun h => by simp [h] at this⟩
    | op o => simp [PItem.isOp] at hb
    | _ => exact hp c hc
  exact ⟨fun h => key.1 (Option.some.inj h), fun h => key.2 (Option.some.inj h)⟩

theorem fixed_of_not_wordy (b : PItem) (hb : b.wordy = false) (c : UInt8) (hc : headOk b c) :
    c ∈ opHeads ++ punctHeads := by
  cases b with
  | word w => simp [PItem.wordy] at hb
  | num t => simp [PItem.wordy] at hb
  | dur ms => simp [PItem.wordy] at hb
  | op o => exact List.mem_append_left _ hc
  | _ => exact List.mem_append_right _ hc

theorem okAfter_next (a b : PItem) (hn : needSpace a b = false) (c : UInt8) (hc : headOk b c) :
    okAfter a (some c) := by
  have h1 : ∀ c ∈ opHeads ++ punctHeads, (isAlnumB c || c == 58) = false := by decide
  have h2 : ∀ c ∈ opHeads ++ punctHeads, isAlnumB c = false ∧ c ≠ 46 := by decide
  cases a with
  | word w =>
    intro c' h; cases h
    exact h1 c (fixed_of_not_wordy b hn c hc)
  | num t =>
    intro c' h; cases h
    exact h2 c (fixed_of_not_wordy b hn c hc)
  | dur ms =>
    intro c' h; cases h
    exact (h2 c (fixed_of_not_wordy b hn c hc)).1
  | op o =>
    cases o <;> first | trivial | exact noEqSlash_of_headOk b hn c hc
  | _ => trivial

/-! ### item segments -/

theorem lexStringTok_quote' (s rest : Bytes) (h : hasRC s = false) :
    lexStringTok 34 ((quoteBody s.length s ++ [34]) ++ rest) = some (.string (quote s), rest) := by
  rw [List.append_assoc]
  exact lexStringTok_quote s rest h

theorem seg_quote_S (d : Int) (g : Bool) (s : Bytes) (h : hasRC s = false) :
    LexSeg (stS d g) (quote s) [.string (quote s)] (stS d g) anyB :=
  seg_string d g (quoteBody s.length s ++ [34]) _ (fun rest => lexStringTok_quote' s rest h)

theorem seg_quote_B (d : Int) (g : Bool) (s : Bytes) (h : hasRC s = false) :
    LexSeg (stB d g) (quote s) [.string (quote s)] (stB d g) anyB :=
  seg_string_B d g (quoteBody s.length s ++ [34]) _ (fun rest => lexStringTok_quote' s rest h)

theorem seg_dur_S (d : Int) (g : Bool) (ms : Nat) :
    LexSeg (stS d g) (fmtDurationMs ms) [.duration (fmtDurationMs ms)] (stS d g) noAlnumB :=
  seg_numdur d g _ _ noAlnumB (fmtDurationMs_head_digit ms)
    (fun rest hr => lexNumberOrDuration_fmtDuration ms rest hr)

theorem seg_dur_D (d : Int) (g : Bool) (ms : Nat) :
    LexSeg (stD d g) (fmtDurationMs ms) [.duration (fmtDurationMs ms)] (stK d) noAlnumB :=
  seg_numdur_D d g _ _ noAlnumB (fmtDurationMs_head_digit ms)
    (fun rest hr => lexNumberOrDuration_fmtDuration ms rest hr)

theorem seg_dur_K (d : Int) (ms : Nat) :
    LexSeg (stK d) (fmtDurationMs ms) [.duration (fmtDurationMs ms)] (stK d) noAlnumB :=
  seg_numdur_K d _ _ noAlnumB (fmtDurationMs_head_digit ms)
    (fun rest hr => lexNumberOrDuration_fmtDuration ms rest hr)

theorem seg_num_S (d : Int) (g : Bool) (t : Bytes) (ht : isDecimalText t = true) :
    LexSeg (stS d g) t [.number t] (stS d g) noNumB :=
  seg_numdur d g _ _ noNumB (isDecimalText_head ht)
    (fun rest hr => lexNumberOrDuration_decimal t rest ht hr)

theorem dur_head_noSpace (ms : Nat) (rest : Bytes) : noSpaceB (fmtDurationMs ms ++ rest).head? := by
  obtain ⟨c, tl, h, hc⟩ := fmtDurationMs_head_digit ms
  rw [h]
  intro c' h'
  cases h'
  exact (digit_head_chain c hc).2.2.1

/-- `[5m` -/
theorem seg_bracket_open (d : Int) (g : Bool) (ms : Nat) :
    LexSeg (stS d g) (91 :: fmtDurationMs ms) [.lbracket, .duration (fmtDurationMs ms)] (stK d) noAlnumB :=
  (seg_lbracket d g).append (seg_dur_D d g ms) (fun rest _ => dur_head_noSpace ms rest)

theorem seg_range (d : Int) (g : Bool) (ms : Nat) :
    LexSeg (stS d g) (91 :: (fmtDurationMs ms ++ [93]))
      [.lbracket, .duration (fmtDurationMs ms), .rbracket] (stS d true) anyB :=
  (seg_bracket_open d g ms).append (seg_rbracket_K d) (fun rest _ c h => by cases h; decide)

theorem seg_subrange_none (d : Int) (g : Bool) (ms : Nat) :
    LexSeg (stS d g) (91 :: (fmtDurationMs ms ++ [58, 93]))
      [.lbracket, .duration (fmtDurationMs ms), .colon, .rbracket] (stS d true) anyB :=
  (seg_bracket_open d g ms).append ((seg_colon_K d).append (seg_rbracket_K d) (fun _ _ => trivial))
    (fun rest _ c h => by cases h; decide)

theorem seg_subrange_some (d : Int) (g : Bool) (ms st : Nat) :
    LexSeg (stS d g) (91 :: (fmtDurationMs ms ++ 58 :: (fmtDurationMs st ++ [93])))
      [.lbracket, .duration (fmtDurationMs ms), .colon, .duration (fmtDurationMs st), .rbracket]
      (stS d true) anyB :=
  (seg_bracket_open d g ms).append
    ((seg_colon_K d).append
      ((seg_dur_K d st).append (seg_rbracket_K d) (fun rest _ c h => by cases h; decide))
      (fun _ _ => trivial))
    (fun rest _ c h => by cases h; decide)

/-! ### matcher groups -/

theorem seg_mtOp (d : Int) (g : Bool) (t : MatchType) :
    LexSeg (stB d g) (mtBytes t) [mtTok t] (stB d g) noTildeB := by
  cases t with
  | eq => exact seg_eql_B d g
  | ne => exact (seg_neq_B d g).weaken (fun _ _ => trivial)
  | re => exact (seg_eqlRegex_B d g).weaken (fun _ _ => trivial)
  | nre => exact (seg_neqRegex_B d g).weaken (fun _ _ => trivial)

theorem mtBytes_head (t : MatchType) (rest : Bytes) : noAlnumB (mtBytes t ++ rest).head? := by
  cases t <;> (intro c h; cases h; decide)

theorem seg_matcherName (d : Int) (g : Bool) (m : PMatcher) (hm : m.ok = true) :
    LexSeg (stB d g) m.nameText [m.nameTok] (stB d g) noAlnumB := by
  obtain ⟨name, q, typ, value⟩ := m
  cases q with
  | true =>
    have h : hasRC name = false := by
      simp [PMatcher.ok] at hm
      exact hm.1
    exact (seg_quote_B d g name h).weaken (fun _ _ => trivial)
  | false =>
    cases name with
    | nil => simp [PMatcher.ok, isLabelIdent] at hm
    | cons c tl =>
      simp only [PMatcher.ok, isLabelIdent, Bool.and_eq_true, Bool.false_eq_true, if_false] at hm
      exact seg_ident_B d g (c :: tl) c tl rfl hm.1.1 hm.1.2

theorem seg_matcher (d : Int) (g : Bool) (m : PMatcher) (hm : m.ok = true) :
    LexSeg (stB d g) m.text m.toks (stB d g) anyB := by
  have hv : hasRC m.value = false := by
    have := (Bool.and_eq_true _ _ ▸ hm).2
    simpa using this
  exact (seg_matcherName d g m hm).append
    ((seg_mtOp d g m.typ).append (seg_quote_B d g m.value hv)
      (fun rest _ h => by rw [quote_cons] at h; cases h))
    (fun rest _ => by rw [List.append_assoc]; exact mtBytes_head _ _)

theorem seg_matchersList (d : Int) (g : Bool) : ∀ ms : List PMatcher, (∀ m ∈ ms, m.ok = true) →
    LexSeg (stB d g) (matchersText ms) (matchersToks ms) (stB d g) anyB
  | [], _ => LexSeg.nil _ _
  | [m], h => seg_matcher d g m (h m (by simp))
  | m :: m' :: ms, h =>
    (seg_matcher d g m (h m (by simp))).append
      ((seg_comma_B d g).append (seg_matchersList d g (m' :: ms) (fun x hx => h x (by simp [hx])))
        (fun _ _ => trivial))
      (fun _ _ => trivial)

theorem seg_matchers (d : Int) (g : Bool) (ms : List PMatcher) (h : ∀ m ∈ ms, m.ok = true) :
    LexSeg (stS d g) (123 :: (matchersText ms ++ [125])) (.lbrace :: (matchersToks ms ++ [.rbrace]))
      (stS d g) anyB :=
  (seg_lbrace d g).append ((seg_matchersList d g ms h).append (seg_rbrace d g) (fun _ _ => trivial))
    (fun _ _ => trivial)

/-! ### one item -/

theorem seg_symop (d : Int) (g : Bool) (o : BinOp) (ho : isSymbolic o = true) :
    LexSeg (stS d g) (opBytes o) [.op o (opBytes o)] (stS d g) (okAfter (.op o)) := by
  cases o with
  | lss => exact seg_lss d g
  | gtr => exact seg_gtr d g
  | add => exact seg_op1 d g _ _ (by simp)
  | sub => exact seg_op1 d g _ _ (by simp)
  | mul => exact seg_op1 d g _ _ (by simp)
  | div => exact seg_op1 d g _ _ (by simp)
  | mod => exact seg_op1 d g _ _ (by simp)
  | pow => exact seg_op1 d g _ _ (by simp)
  | eqlc => exact seg_op2 d g _ _ _ (by simp)
  | neq => exact seg_op2 d g _ _ _ (by simp)
  | lte => exact seg_op2 d g _ _ _ (by simp)
  | gte => exact seg_op2 d g _ _ _ (by simp)
  | trimUpper => exact seg_op2 d g _ _ _ (by simp)
  | trimLower => exact seg_op2 d g _ _ _ (by simp)
  | _ => exact absurd ho (by decide)

theorem itemSeg (a : PItem) (ha : a.ok = true) (d : Nat) (g : Bool) (d' : Nat) (hd : a.depth d = some d') :
    ∃ g', LexSeg (stS d g) a.text a.toks (stS d' g') (okAfter a) := by
  cases a with
  | lparen =>
    cases hd
    exact ⟨g, seg_lparen d g⟩
  | rparen =>
    cases d with
    | zero => simp [PItem.depth] at hd
    | succ n =>
      have : d' = n := by simpa [PItem.depth] using hd.symm
      subst this
      exact ⟨g, seg_rparen (d' : Int) g (by omega)⟩
  | word w =>
    cases hd
    simp only [PItem.ok, Bool.and_eq_true, Bool.not_eq_true'] at ha
    exact ⟨g, seg_word d g w ha.1 ha.2⟩
  | op o => cases hd; exact ⟨g, seg_symop d g o ha⟩
  | comma => cases hd; exact ⟨g, seg_comma d g⟩
  | «at» => cases hd; exact ⟨g, seg_at d g⟩
  | num t => cases hd; exact ⟨g, seg_num_S d g t ha⟩
  | dur ms => cases hd; exact ⟨g, seg_dur_S d g ms⟩
  | str s =>
    cases hd
    exact ⟨g, seg_quote_S d g s (by simpa [PItem.ok] using ha)⟩
  | matchers ms =>
    cases hd
    exact ⟨g, seg_matchers d g ms (fun m hm => List.all_eq_true.mp ha m hm)⟩
  | range ms => cases hd; exact ⟨true, seg_range d g ms⟩
  | subrange ms st =>
    cases hd
    cases st with
    | none => exact ⟨true, seg_subrange_none d g ms⟩
    | some st => exact ⟨true, seg_subrange_some d g ms st⟩

/-! ### the item list -/

/-- delimiter after an item and its optional space -/
def okAfterSp (a : PItem) (sp : Bool) : Option UInt8 → Prop := if sp then noSpaceB else okAfter a

theorem itemSpSeg (a : PItem) (sp : Bool) (ha : a.ok = true) (d : Nat) (g : Bool) (d' : Nat)
    (hd : a.depth d = some d') :
    ∃ g', LexSeg (stS d g) (a.text ++ sepText sp) a.toks (stS d' g') (okAfterSp a sp) := by
  obtain ⟨g', h⟩ := itemSeg a ha d g d' hd
  refine ⟨g', ?_⟩
  cases sp with
  | false =>
    have := h.append (LexSeg.nil (stS d' g') (okAfter a)) (fun rest hr => hr)
    simpa [sepText, okAfterSp] using this
  | true =>
    have := h.append (seg_space_S d' g') (fun rest _ => okAfter_space a)
    simpa [sepText, okAfterSp] using this

theorem render_head_ok (a : PItem) (sp : Bool) (r : List (PItem × Bool))
    (hsp : (match r with | [] => true | q :: _ => !needSpace a q.1 || sp) = true)
    (hok : ∀ p ∈ r, p.1.ok = true) (rest : Bytes)
    (hr : rest.head? = none) : okAfterSp a sp (render r ++ rest).head? := by
  cases r with
  | nil =>
    simp only [render, List.nil_append, hr]
    cases sp
    · exact okAfter_none a
    · intro c h; cases h
  | cons q r' =>
    obtain ⟨c, tl, ht, hc⟩ := text_head q.1 (hok q (by simp))
    have hh : (render (q :: r') ++ rest).head? = some c := by simp [render, ht]
    rw [hh]
    cases sp with
    | true =>
      intro c' h; cases h
      exact headOk_noSpace q.1 c hc
    | false =>
      have hn : needSpace a q.1 = false := by simpa using hsp
      exact okAfter_next a q.1 hn c hc

theorem seg_items : ∀ (items : List (PItem × Bool)) (d : Nat) (g : Bool),
    (∀ p ∈ items, p.1.ok = true) → spacedOk items = true → parensOk d items = true →
    ∃ g', LexSeg (stS d g) (render items) (items.flatMap (fun p => p.1.toks)) (stS 0 g')
      (fun x => x = none)
  | [], d, g, _, _, hpar => by
    have : d = 0 := by simpa [parensOk] using hpar
    subst this
    exact ⟨g, LexSeg.nil _ _⟩
  | p :: r, d, g, hok, hsp, hpar => by
    simp only [spacedOk, Bool.and_eq_true] at hsp
    simp only [parensOk] at hpar
    cases hdep : p.1.depth d with
    | none => simp [hdep] at hpar
    | some d' =>
      simp only [hdep] at hpar
      have hokr : ∀ q ∈ r, q.1.ok = true := fun q hq => hok q (by simp [hq])
      obtain ⟨g1, h1⟩ := itemSpSeg p.1 p.2 (hok p (by simp)) d g d' hdep
      obtain ⟨g2, h2⟩ := seg_items r d' g1 hokr hsp.2 hpar
      refine ⟨g2, ?_⟩
      have := h1.append h2 (fun rest hr => render_head_ok p.1 p.2 r hsp.1 hokr rest hr)
      simpa [render] using this

end Unlex

/-- **lex ∘ unlex = id**: the rendered item list lexes to the items' tokens. -/
theorem lex_unlex (items : List (PItem × Bool))
    (hok : ∀ p ∈ items, p.1.ok = true)
    (hsp : spacedOk items = true)
    (hpar : parensOk 0 items = true) :
    lex (render items) = some (items.flatMap (fun p => p.1.toks)) := by
  obtain ⟨g', h⟩ := Unlex.seg_items items 0 false hok hsp hpar
  have h0 : stS ((0 : Nat) : Int) false = {} := rfl
  rw [h0] at h
  exact lex_of_seg h rfl rfl rfl rfl rfl

end Prom.Promql
