import PromProofs.CompactionInv
/-
  Invariants of the compaction protocol (C06), part 2: the per-reader invariants. They are stated for one
  reader `r` against the shared state, never mention the other readers, and hold for every element of
  `σ.readers` — hence for any number of concurrent queries.
-/
namespace Prom.CompactionProtocol

/-- `s` is in a block of the reader's list. -/
def inBlk (r : Reader) (s : Sample) : Prop := ∃ b ∈ r.blocks, s ∈ b.samples

/-- A committed sample inside the reader's range that was not past retention when the query started. -/
def want (d : List Sample) (r : Reader) (s : Sample) : Prop :=
  s ∈ d ∧ r.lo ≤ s.t ∧ s.t ≤ r.hi ∧ s ∉ r.retired0

/-- Every wanted in-order sample below `X` is in the reader's block list. -/
def safeBelow (d : List Sample) (r : Reader) (X : Int) : Prop :=
  ∀ s, want d r s → s.ooo = false → s.t < X → inBlk r s

/-- Blocks: the RLock section sees a stable db.blocks / lastGC; pinned blocks keep their files. -/
structure RInvB (σ : State) (r : Reader) : Prop where
  l : r.holdsLock = true →
        r.blocks = σ.blocks.filter (·.overlaps r.lo r.hi) ∧ r.lastGC = σ.lastGC ∧ r.retired0 = σ.retired
  br : r.isOpen = true → ∀ b ∈ r.blocks, b.id ∉ σ.removed
  brw : ∀ ps p, σ.mpc = .deleting ps (some p) → r.isOpen = true → ∀ b ∈ r.blocks, b.id ≠ p

/-- In-order head part. -/
structure RInvH (σ : State) (r : Reader) : Prop where
  ri2 : (r.pc = .gotMin ∨ r.pc = .registered ∨ r.pc = .sawFlag) → safeBelow σ.data r r.hm
  regE : (r.pc = .idle ∨ r.pc = .locked ∨ r.pc = .gotMin ∨ r.pc = .closed) → r.reg = none
  regR : (r.pc = .registered ∨ r.pc = .sawFlag) → r.reg = some (r.lo, r.hi)
  sf : r.pc = .sawFlag → safeBelow σ.data r σ.truncTime
  hd : (r.pc = .checked ∨ r.pc = .tracked ∨ r.pc = .reading) →
         match r.headLo with
         | none => safeBelow σ.data r (r.hi + 1)
         | some l => safeBelow σ.data r l ∧ ∃ a, r.reg = some (a, r.hi) ∧ a ≤ l
  d : r.pc = .reading → ∀ l, r.headLo = some l → safeBelow σ.data r σ.headMin
  w : ∀ T, (σ.mpc = .hWaited T ∨ σ.mpc = .hMinSet T) → r.pc = .reading →
        ∀ l, r.headLo = some l → safeBelow σ.data r T

/-- Out-of-order head part. -/
structure RInvO (σ : State) (r : Reader) : Prop where
  oa : r.isOpen = true → ∀ s, want σ.data r s → s.ooo = true → s.ref ≤ r.lastGC → inBlk r s
  ob : (r.pc ≠ .idle ∧ r.pc ≠ .locked ∧ r.pc ≠ .closed) →
         ∀ s, want σ.data r s → s.ooo = true → r.lastGC < s.ref → r.ovOOO = true
  oc : (r.pc = .tracked ∨ r.pc = .reading) → r.oooReg = if r.ovOOO then some r.lastGC else none
  oc0 : (r.pc ≠ .tracked ∧ r.pc ≠ .reading) → r.oooReg = none
  od : ∀ m, r.oooReg = some m → σ.oooGc ≤ m
  ow : ∀ rr, σ.mpc = .oWaited rr → ∀ m, r.oooReg = some m → rr ≤ m

/-- What a reader holding the RLock knows: everything db.blocks covers is in its own list. -/
theorem locked_covers (σ : State) (r : Reader) (hg : GInv σ) (hb : RInvB σ r) (hl : r.holdsLock = true)
    (s : Sample) (hw : want σ.data r s) (hdb : inDb σ s) : inBlk r s := by
  obtain ⟨b, hbm, hs⟩ := hdb
  have hwf := hg.gw b hbm s hs
  obtain ⟨hblocks, _, _⟩ := hb.l hl
  refine ⟨b, ?_, hs⟩
  rw [hblocks]
  simp only [List.mem_filter, Blk.overlaps, ovl, Bool.and_eq_true, decide_eq_true_eq]
  obtain ⟨_, h1, h2, _⟩ := hw
  exact ⟨hbm, by omega, by omega⟩

theorem locked_safeBelow (σ : State) (r : Reader) (hg : GInv σ) (hb : RInvB σ r) (hl : r.holdsLock = true)
    (X : Int) (hX : X ≤ cov σ) : safeBelow σ.data r X := by
  intro s hw ho ht
  have hret : s ∉ σ.retired := by
    have := (hb.l hl).2.2; rw [← this]; exact hw.2.2.2
  exact locked_covers σ r hg hb hl s hw (hg.g1 s hw.1 ho hret (by omega))

theorem headMin_le_cov (σ : State) : σ.headMin ≤ cov σ := by
  unfold cov; split <;> omega

end Prom.CompactionProtocol
