import PromProofs.CompactionMain
/-
  C06: blocks only ever contain committed samples, so a reader's view contains nothing but committed
  samples of its range (the "exactly" half of exactly-once).
-/
namespace Prom.CompactionProtocol

def Blk.sub (b : Blk) (d : List Sample) : Prop := ∀ s ∈ b.samples, s ∈ d

def pendingSub (σ : State) : Prop :=
  match σ.mpc with
  | .hWritten _ b => b.sub σ.data
  | .oWritten _ bs => ∀ b ∈ bs, b.sub σ.data
  | .cWritten _ b => b.sub σ.data
  | _ => True

structure CInv (σ : State) : Prop where
  cb : ∀ b ∈ σ.blocks, b.sub σ.data
  cp : pendingSub σ
  cr : ∀ r ∈ σ.readers, ∀ b ∈ r.blocks, b.sub σ.data

set_option maxHeartbeats 2000000 in
theorem mstep_cinv (σ σ' : State) (a : MAct) (hc : CInv σ) (h : mstep σ a = some σ') : CInv σ' := by
  obtain ⟨cb, cp, cr⟩ := hc
  cases a
  all_goals (
    simp only [mstep] at h
    split at h <;> (try (simp at h; done)) <;> (try split at h) <;> (try (simp at h; done)))
  all_goals (
    simp only [Option.some.injEq] at h
    subst h
    constructor <;>
      (simp only [pendingSub, Blk.sub, mkOOOBlock, List.mem_append, List.mem_flatMap, List.mem_filter,
        List.mem_map, List.mem_singleton] at *) <;> grind)

theorem rstep_blocks_sub (σ : State) (r r' : Reader) (a : RAct) (hc : CInv σ)
    (hr : ∀ b ∈ r.blocks, b.sub σ.data) (h : rstep σ r a = some r') : ∀ b ∈ r'.blocks, b.sub σ.data := by
  have cb := hc.cb
  cases a
  all_goals (
    simp only [rstep] at h
    split at h <;> (try (simp at h; done)) <;> (try split at h) <;> (try (simp at h; done)) <;> (try split at h) <;> (try (simp at h; done)))
  all_goals (
    simp only [Option.some.injEq] at h
    subst h
    simp only [List.mem_filter] at *
    grind)

theorem step_cinv (σ σ' : State) (a : Act) (hc : CInv σ) (h : step σ a = some σ') : CInv σ' := by
  cases a with
  | spawn lo hi =>
    simp only [step, Option.some.injEq] at h
    subst h
    refine ⟨hc.cb, hc.cp, ?_⟩
    intro r hm
    simp only [List.mem_append, List.mem_singleton] at hm
    rcases hm with hm | rfl
    · exact hc.cr r hm
    · intro b hb; simp at hb
  | reader i ra =>
    simp only [step] at h
    split at h
    · rename_i r hget
      cases hrs : rstep σ r ra with
      | none => simp [hrs] at h
      | some r' =>
        simp only [hrs, Option.map_some, Option.some.injEq] at h
        subst h
        refine ⟨hc.cb, hc.cp, ?_⟩
        intro x hx
        rcases List.mem_or_eq_of_mem_set hx with hx | rfl
        · exact hc.cr x hx
        · exact rstep_blocks_sub σ r _ ra hc (hc.cr r (List.mem_of_getElem? hget)) hrs
    · simp at h
  | maint ma => exact mstep_cinv σ σ' ma hc h

theorem run_cinv (σ σ' : State) (acts : List Act) (hc : CInv σ) (h : run σ acts = some σ') : CInv σ' := by
  induction acts generalizing σ with
  | nil => simp only [run, Option.some.injEq] at h; subst h; exact hc
  | cons a rest ih =>
    simp only [run] at h
    split at h
    · rename_i σ1 hs
      exact ih σ1 (step_cinv σ σ1 a hc hs) h
    · simp at h

theorem init_cinv (data : List Sample) (headMin oooLo oooHi : Int) : CInv (initState data headMin oooLo oooHi) :=
  ⟨by simp [initState], by simp [initState, pendingSub], by simp [initState]⟩

/-- Everything in a reader's view is a committed sample inside its range. -/
theorem view_sub (σ : State) (hc : CInv σ) (r : Reader) (hr : r ∈ σ.readers) (s : Sample)
    (hs : s ∈ view σ r) : s ∈ σ.data ∧ inRange r s = true := by
  simp only [view] at hs
  rw [List.mem_eraseDups] at hs
  simp only [parts, List.mem_append, List.mem_filter, List.mem_flatMap, Bool.and_eq_true] at hs
  rcases hs with ⟨h1, h2, _⟩ | ⟨b, hb, h⟩
  · exact ⟨h1, h2⟩
  · split at h
    · simp at h
    · simp only [List.mem_filter] at h
      exact ⟨hc.cr r hr b hb s h.1, h.2⟩

end Prom.CompactionProtocol
