import PromProofs.WalLive
/-
  C13: simulation of the LiveReader (`lrBuild`, `lrNext`, `lrDrain`, `liveRun`) against the token
  structure `LToks` of the file.
-/
namespace Prom.Wal

theorem lrBuild_none_of_empty (ps : Nat) (crc : Crc) (fuel : Nat) (st : LState)
    (h : st.buf.length ≤ st.readIndex) : lrBuild ps crc (fuel + 1) st = .none st := by
  simp [lrBuild, h]

theorem lrBuild_none_of_eof (ps : Nat) (crc : Crc) (fuel : Nat) (st : LState)
    (h : lrReadRecord ps crc st = .eof) : lrBuild ps crc (fuel + 1) st = .none st := by
  simp only [lrBuild, h]
  split <;> rfl

/-- Result of `buildRecord` on a well-formed file: it walks over whole tokens of the buffer and either
    completes a record, or stops in front of a token that is not (yet) wholly buffered (after page padding
    the buffer is exhausted). -/
theorem lrBuild_spec {ps : Nat} {crc : Crc} (hmax : ps ≤ 65542)
    {off idx : Nat} {pre R : Bytes} {out : List Bytes} (h : LToks ps crc off idx pre R out) :
    ∀ (fuel : Nat) (st : LState), st.total = off → st.index = idx → st.pre = pre → WinOK ps st →
      st.buf.drop st.readIndex = R.take (st.buf.length - st.readIndex) →
      st.buf.length - st.readIndex + 1 ≤ fuel →
      (∃ r st' c R' out', lrBuild ps crc fuel st = .ok r st' ∧ R = c ++ R' ∧ out = r :: out' ∧
          0 < c.length ∧ c.length ≤ st.buf.length - st.readIndex ∧ Adv st st' c.length ∧
          LToks ps crc st'.total st'.index st'.pre R' out') ∨
      (∃ st' c R', lrBuild ps crc fuel st = .none st' ∧ R = c ++ R' ∧
          c.length ≤ st.buf.length - st.readIndex ∧ Adv st st' c.length ∧
          LToks ps crc st'.total st'.index st'.pre R' out ∧
          Blocked ps crc st'.total (st.buf.length - st.readIndex - c.length) R') := by
  induction h with
  | nil off idx pre =>
    intro fuel st ht hi hp hw hu hf
    obtain ⟨f, rfl⟩ : ∃ f, fuel = f + 1 := ⟨fuel - 1, by omega⟩
    have hm : st.buf.length ≤ st.readIndex := by
      have := congrArg List.length hu
      simp at this; omega
    refine Or.inr ⟨st, [], [], lrBuild_none_of_empty ps crc f st hm, rfl, by simp, ⟨rfl, rfl, rfl⟩, ?_, Or.inl rfl⟩
    rw [ht, hi, hp]; exact LToks.nil off idx pre
  | pad off idx pre n rest out hn hn' hsub ih =>
    intro fuel st ht hi hp hw hu hf
    obtain ⟨f, rfl⟩ : ∃ f, fuel = f + 1 := ⟨fuel - 1, by omega⟩
    have hwhole : LToks ps crc st.total st.index st.pre (zeros n ++ rest) out := by
      rw [ht, hi, hp]; exact LToks.pad off idx pre n rest out hn hn' hsub
    by_cases hm : n ≤ st.buf.length - st.readIndex
    · -- the whole run is buffered: skip it; the buffer is exhausted
      have hu' : st.buf.drop st.readIndex = zeros n ++ rest.take (st.buf.length - st.readIndex - n) := by
        rw [hu, take_append_ge _ _ _ (by simpa [zeros] using hm)]; simp [zeros]
      have hread := lrRead_pad ps crc st n _ hn (by rw [ht]; exact hn') hu'
      have hroom := hw.room
      have hmn : st.buf.length - st.readIndex = n := by rw [ht] at hroom; omega
      have hne : ¬ st.buf.length ≤ st.readIndex := by omega
      refine Or.inr ⟨{ st with readIndex := st.readIndex + n, total := st.total + n }, zeros n, rest,
        ?_, rfl, by simp [zeros]; omega, ⟨rfl, by simp [zeros], by simp [zeros]⟩, ?_, ?_⟩
      · simp only [lrBuild, hne, if_false, hread]
      · show LToks ps crc (st.total + n) st.index st.pre rest out
        rw [ht, hi, hp]; exact hsub
      · show Blocked ps crc (st.total + n) _ rest
        have : st.buf.length - st.readIndex - (zeros n).length = 0 := by simp [zeros]; omega
        rw [this, ht]; exact hsub.blocked_zero
    · refine Or.inr ⟨st, [], zeros n ++ rest, ?_, rfl, by simp, ⟨rfl, rfl, rfl⟩, hwhole, ?_⟩
      · by_cases h0 : st.buf.length ≤ st.readIndex
        · exact lrBuild_none_of_empty ps crc f st h0
        · exact lrBuild_none_of_eof ps crc f st
            (lrRead_pad_partial ps crc st n rest (by rw [ht]; exact hn') hu (by omega))
      · exact Or.inr (Or.inr ⟨n, rest, rfl, by rw [ht]; exact hn', by simp; omega⟩)
  | cont off idx pre typ part rest out hty hv hfit hsub ih =>
    intro fuel st ht hi hp hw hu hf
    obtain ⟨f, rfl⟩ : ∃ f, fuel = f + 1 := ⟨fuel - 1, by omega⟩
    have hdt : DataTyp typ := by rcases hty with h | h <;> simp [DataTyp, h]
    have hwhole : LToks ps crc st.total st.index st.pre (frame crc typ part ++ rest) out := by
      rw [ht, hi, hp]; exact LToks.cont off idx pre typ part rest out hty hv hfit hsub
    by_cases hm : 7 + part.length ≤ st.buf.length - st.readIndex
    · have hu' : st.buf.drop st.readIndex =
          frame crc typ part ++ rest.take (st.buf.length - st.readIndex - (7 + part.length)) := by
        rw [hu, take_append_ge _ _ _ (by simpa [frame_length] using hm), frame_length]
      have hread := lrRead_frame ps crc st typ part _ hdt (by omega) (by omega) hu'
      have hne : ¬ st.buf.length ≤ st.readIndex := by omega
      have hnf : ¬ (typ = recLast ∨ typ = recFull) := by
        rcases hty with h | h <;> subst h <;> decide
      have hpre : (if typ = recFirst ∨ typ = recFull then [] else st.pre) =
          (if typ = recFirst then [] else pre) := by
        have hne1 : typ ≠ recFull := by rcases hty with h | h <;> subst h <;> decide
        rw [hp]; simp [hne1]
      -- the state after this fragment
      let st2 : LState := ⟨st.buf, st.readIndex + (part.length + 7), st.total + (part.length + 7),
        idx + 1, (if typ = recFirst then [] else pre) ++ part⟩
      have hstep : lrBuild ps crc (f + 1) st = lrBuild ps crc f st2 := by
        simp only [lrBuild, hne, if_false, hread, dataTyp_mask hdt, hi, hv, hnf, hpre]
        rfl
      have hw2 : WinOK ps st2 := hw.adv (st' := st2) ⟨rfl, rfl, rfl⟩ (by omega)
      have hu2 : st2.buf.drop st2.readIndex = rest.take (st2.buf.length - st2.readIndex) := by
        show st.buf.drop (st.readIndex + (part.length + 7)) = rest.take (st.buf.length - (st.readIndex + (part.length + 7)))
        rw [← List.drop_drop, hu', ← frame_length crc typ part, Nat.add_comm part.length 7,
          ← frame_length crc typ part, List.drop_left' rfl]
        congr 1; simp [frame_length]; omega
      have hlen2 : st2.buf.length - st2.readIndex = st.buf.length - st.readIndex - (7 + part.length) := by
        show st.buf.length - (st.readIndex + (part.length + 7)) = _
        omega
      rcases ih f st2 (by show st.total + _ = _; rw [ht]) rfl rfl hw2 hu2
          (by rw [hlen2]; omega) with ⟨r, st', c, R', out', e, hR, hout, hc0, hcl, ha, hl⟩ | ⟨st', c, R', e, hR, hcl, ha, hl, hb⟩
      · refine Or.inl ⟨r, st', frame crc typ part ++ c, R', out', by rw [hstep, e], by rw [hR]; simp,
          hout, by simp [frame_length]; omega, by simp [frame_length]; omega, ?_, hl⟩
        obtain ⟨a1, a2, a3⟩ := ha
        exact ⟨a1, by rw [a2]; simp [st2, frame_length]; omega, by rw [a3]; simp [st2, frame_length]; omega⟩
      · refine Or.inr ⟨st', frame crc typ part ++ c, R', by rw [hstep, e], by rw [hR]; simp,
          by simp [frame_length]; omega, ?_, hl, ?_⟩
        · obtain ⟨a1, a2, a3⟩ := ha
          exact ⟨a1, by rw [a2]; simp [st2, frame_length]; omega, by rw [a3]; simp [st2, frame_length]; omega⟩
        · have : st.buf.length - st.readIndex - (frame crc typ part ++ c).length =
              st2.buf.length - st2.readIndex - c.length := by
            rw [hlen2]; simp [frame_length]; omega
          rw [this]; exact hb
    · refine Or.inr ⟨st, [], frame crc typ part ++ rest, ?_, rfl, by simp, ⟨rfl, rfl, rfl⟩, hwhole, ?_⟩
      · by_cases h0 : st.buf.length ≤ st.readIndex
        · exact lrBuild_none_of_empty ps crc f st h0
        · exact lrBuild_none_of_eof ps crc f st
            (lrRead_frame_partial ps crc st typ part rest hdt (by omega) (by omega) hu (by omega))
      · exact Or.inr (Or.inl ⟨typ, part, rest, hdt, rfl, by rw [ht]; exact hfit, by simp; omega⟩)
  | fin off idx pre typ part rest out hty hv hfit hsub _ =>
    intro fuel st ht hi hp hw hu hf
    obtain ⟨f, rfl⟩ : ∃ f, fuel = f + 1 := ⟨fuel - 1, by omega⟩
    have hdt : DataTyp typ := by rcases hty with h | h <;> simp [DataTyp, h]
    have hwhole : LToks ps crc st.total st.index st.pre (frame crc typ part ++ rest)
        (((if typ = recFull then [] else pre) ++ part) :: out) := by
      rw [ht, hi, hp]; exact LToks.fin off idx pre typ part rest out hty hv hfit hsub
    by_cases hm : 7 + part.length ≤ st.buf.length - st.readIndex
    · have hu' : st.buf.drop st.readIndex =
          frame crc typ part ++ rest.take (st.buf.length - st.readIndex - (7 + part.length)) := by
        rw [hu, take_append_ge _ _ _ (by simpa [frame_length] using hm), frame_length]
      have hread := lrRead_frame ps crc st typ part _ hdt (by omega) (by omega) hu'
      have hne : ¬ st.buf.length ≤ st.readIndex := by omega
      have hpre : (if typ = recFirst ∨ typ = recFull then [] else st.pre) =
          (if typ = recFull then [] else pre) := by
        have hne1 : typ ≠ recFirst := by rcases hty with h | h <;> subst h <;> decide
        rw [hp]; simp [hne1]
      let st2 : LState := ⟨st.buf, st.readIndex + (part.length + 7), st.total + (part.length + 7),
        0, (if typ = recFull then [] else pre) ++ part⟩
      have hstep : lrBuild ps crc (f + 1) st = .ok ((if typ = recFull then [] else pre) ++ part) st2 := by
        simp only [lrBuild, hne, if_false, hread, dataTyp_mask hdt, hi, hv, hty, if_true, hpre,
          dataTyp_nocomp hdt]
        rfl
      refine Or.inl ⟨_, st2, frame crc typ part, rest, out, hstep, rfl, rfl, by simp [frame_length]; omega,
        by simp [frame_length]; omega, ⟨rfl, by simp [st2, frame_length]; omega, by simp [st2, frame_length]; omega⟩, ?_⟩
      show LToks ps crc (st.total + (part.length + 7)) 0 _ rest out
      rw [ht]; exact hsub
    · refine Or.inr ⟨st, [], frame crc typ part ++ rest, ?_, rfl, by simp, ⟨rfl, rfl, rfl⟩, hwhole, ?_⟩
      · by_cases h0 : st.buf.length ≤ st.readIndex
        · exact lrBuild_none_of_empty ps crc f st h0
        · exact lrBuild_none_of_eof ps crc f st
            (lrRead_frame_partial ps crc st typ part rest hdt (by omega) (by omega) hu (by omega))
      · exact Or.inr (Or.inl ⟨typ, part, rest, hdt, rfl, by rw [ht]; exact hfit, by simp; omega⟩)

end Prom.Wal
