import PromProofs.WalLive
/-
  C13: simulation of the LiveReader (`lrBuild`, `lrNext`, `lrDrain`, `liveRun`) against the token
  structure `LToks` of the file.
-/
namespace Prom.Wal

theorem lrBuild_none_of_empty (ps : Nat) (crc : Crc) (fuel : Nat) (st : LState)
    (h : st.buf.length ≤ st.readIndex) : lrBuild ps crc (fuel + 1) st = .none st := by
  simp [lrBuild, h]

theorem lrBuild_none_of_eof (ps : Nat) (crc : Crc) (fuel : Nat) (st : LState)
    (h : lrReadRecord ps crc st = .eof) : lrBuild ps crc (fuel + 1) st = .none st := by
  simp only [lrBuild, h]
  split <;> rfl

/-- Result of `buildRecord` on a well-formed file: it walks over whole tokens of the buffer and either
    completes a record, or stops in front of a token that is not (yet) wholly buffered (after page padding
    the buffer is exhausted). -/
theorem lrBuild_spec {ps : Nat} {crc : Crc} (hmax : ps ≤ 65542)
    {off idx : Nat} {pre R : Bytes} {out : List Bytes} (h : LToks ps crc off idx pre R out) :
    ∀ (fuel : Nat) (st : LState), st.total = off → st.index = idx → st.pre = pre → WinOK ps st →
      st.buf.drop st.readIndex = R.take (st.buf.length - st.readIndex) →
      st.buf.length - st.readIndex + 1 ≤ fuel →
      (∃ r st' c R' out', lrBuild ps crc fuel st = .ok r st' ∧ R = c ++ R' ∧ out = r :: out' ∧
          0 < c.length ∧ c.length ≤ st.buf.length - st.readIndex ∧ Adv st st' c.length ∧
          LToks ps crc st'.total st'.index st'.pre R' out') ∨
      (∃ st' c R', lrBuild ps crc fuel st = .none st' ∧ R = c ++ R' ∧
          c.length ≤ st.buf.length - st.readIndex ∧ Adv st st' c.length ∧
          LToks ps crc st'.total st'.index st'.pre R' out ∧
          Blocked ps crc st'.total (st.buf.length - st.readIndex - c.length) R') := by
  induction h with
  | nil off idx pre =>
    intro fuel st ht hi hp hw hu hf
    obtain ⟨f, rfl⟩ : ∃ f, fuel = f + 1 := ⟨fuel - 1, by omega⟩
    have hm : st.buf.length ≤ st.readIndex := by
      have := congrArg List.length hu
      simp at this; omega
    refine Or.inr ⟨st, [], [], lrBuild_none_of_empty ps crc f st hm, rfl, by simp, ⟨rfl, rfl, rfl⟩, ?_, Or.inl rfl⟩
    rw [ht, hi, hp]; exact LToks.nil off idx pre
  | pad off idx pre n rest out hn hn' hsub ih =>
    intro fuel st ht hi hp hw hu hf
    obtain ⟨f, rfl⟩ : ∃ f, fuel = f + 1 := ⟨fuel - 1, by omega⟩
    have hwhole : LToks ps crc st.total st.index st.pre (zeros n ++ rest) out := by
      rw [ht, hi, hp]; exact LToks.pad off idx pre n rest out hn hn' hsub
    by_cases hm : n ≤ st.buf.length - st.readIndex
    · -- the whole run is buffered: skip it; the buffer is exhausted
      have hu' : st.buf.drop st.readIndex = zeros n ++ rest.take (st.buf.length - st.readIndex - n) := by
        rw [hu, take_append_ge _ _ _ (by simpa [zeros] using hm)]; simp [zeros]
      have hread := lrRead_pad ps crc st n _ hn (by rw [ht]; exact hn') hu'
      have hroom := hw.room
      have hmn : st.buf.length - st.readIndex = n := by rw [ht] at hroom; omega
      have hne : ¬ st.buf.length ≤ st.readIndex := by omega
      refine Or.inr ⟨{ st with readIndex := st.readIndex + n, total := st.total + n }, zeros n, rest,
        ?_, rfl, by simp [zeros]; omega, ⟨rfl, by simp [zeros], by simp [zeros]⟩, ?_, ?_⟩
      · simp only [lrBuild, hne, if_false, hread]
      · show LToks ps crc (st.total + n) st.index st.pre rest out
        rw [ht, hi, hp]; exact hsub
      · show Blocked ps crc (st.total + n) _ rest
        have : st.buf.length - st.readIndex - (zeros n).length = 0 := by simp [zeros]; omega
        rw [this, ht]; exact hsub.blocked_zero
    · refine Or.inr ⟨st, [], zeros n ++ rest, ?_, rfl, by simp, ⟨rfl, rfl, rfl⟩, hwhole, ?_⟩
      · by_cases h0 : st.buf.length ≤ st.readIndex
        · exact lrBuild_none_of_empty ps crc f st h0
        · exact lrBuild_none_of_eof ps crc f st
            (lrRead_pad_partial ps crc st n rest (by rw [ht]; exact hn') hu (by omega))
      · exact Or.inr (Or.inr ⟨n, rest, rfl, by rw [ht]; exact hn', by simp; omega⟩)
  | cont off idx pre typ part rest out hty hv hfit hsub ih =>
    intro fuel st ht hi hp hw hu hf
    obtain ⟨f, rfl⟩ : ∃ f, fuel = f + 1 := ⟨fuel - 1, by omega⟩
    have hdt : DataTyp typ := by rcases hty with h | h <;> simp [DataTyp, h]
    have hwhole : LToks ps crc st.total st.index st.pre (frame crc typ part ++ rest) out := by
      rw [ht, hi, hp]; exact LToks.cont off idx pre typ part rest out hty hv hfit hsub
    by_cases hm : 7 + part.length ≤ st.buf.length - st.readIndex
    · have hu' : st.buf.drop st.readIndex =
          frame crc typ part ++ rest.take (st.buf.length - st.readIndex - (7 + part.length)) := by
        rw [hu, take_append_ge _ _ _ (by simpa [frame_length] using hm), frame_length]
      have hread := lrRead_frame ps crc st typ part _ hdt (by omega) (by omega) hu'
      have hne : ¬ st.buf.length ≤ st.readIndex := by omega
      have hnf : ¬ (typ = recLast ∨ typ = recFull) := by
        rcases hty with h | h <;> subst h <;> decide
      have hpre : (if typ = recFirst ∨ typ = recFull then [] else st.pre) =
          (if typ = recFirst then [] else pre) := by
        have hne1 : typ ≠ recFull := by rcases hty with h | h <;> subst h <;> decide
        rw [hp]; simp [hne1]
      -- the state after this fragment
      let st2 : LState := ⟨st.buf, st.readIndex + (part.length + 7), st.total + (part.length + 7),
        idx + 1, (if typ = recFirst then [] else pre) ++ part⟩
      have hstep : lrBuild ps crc (f + 1) st = lrBuild ps crc f st2 := by
        simp only [lrBuild, hne, if_false, hread, dataTyp_mask hdt, hi, hv, hnf, hpre]
        rfl
      have hw2 : WinOK ps st2 := hw.adv (st' := st2) ⟨rfl, rfl, rfl⟩ (by omega)
      have hu2 : st2.buf.drop st2.readIndex = rest.take (st2.buf.length - st2.readIndex) := by
        show st.buf.drop (st.readIndex + (part.length + 7)) = rest.take (st.buf.length - (st.readIndex + (part.length + 7)))
        rw [← List.drop_drop, hu', ← frame_length crc typ part, Nat.add_comm part.length 7,
          ← frame_length crc typ part, List.drop_left' rfl]
        congr 1; simp [frame_length]; omega
      have hlen2 : st2.buf.length - st2.readIndex = st.buf.length - st.readIndex - (7 + part.length) := by
        show st.buf.length - (st.readIndex + (part.length + 7)) = _
        omega
      rcases ih f st2 (by show st.total + _ = _; rw [ht]) rfl rfl hw2 hu2
          (by rw [hlen2]; omega) with ⟨r, st', c, R', out', e, hR, hout, hc0, hcl, ha, hl⟩ | ⟨st', c, R', e, hR, hcl, ha, hl, hb⟩
      · refine Or.inl ⟨r, st', frame crc typ part ++ c, R', out', by rw [hstep, e], by rw [hR]; simp,
          hout, by simp [frame_length]; omega, by simp [frame_length]; omega, ?_, hl⟩
        obtain ⟨a1, a2, a3⟩ := ha
        exact ⟨a1, by rw [a2]; simp [st2, frame_length]; omega, by rw [a3]; simp [st2, frame_length]; omega⟩
      · refine Or.inr ⟨st', frame crc typ part ++ c, R', by rw [hstep, e], by rw [hR]; simp,
          by simp [frame_length]; omega, ?_, hl, ?_⟩
        · obtain ⟨a1, a2, a3⟩ := ha
          exact ⟨a1, by rw [a2]; simp [st2, frame_length]; omega, by rw [a3]; simp [st2, frame_length]; omega⟩
        · have : st.buf.length - st.readIndex - (frame crc typ part ++ c).length =
              st2.buf.length - st2.readIndex - c.length := by
            rw [hlen2]; simp [frame_length]; omega
          rw [this]; exact hb
    · refine Or.inr ⟨st, [], frame crc typ part ++ rest, ?_, rfl, by simp, ⟨rfl, rfl, rfl⟩, hwhole, ?_⟩
      · by_cases h0 : st.buf.length ≤ st.readIndex
        · exact lrBuild_none_of_empty ps crc f st h0
        · exact lrBuild_none_of_eof ps crc f st
            (lrRead_frame_partial ps crc st typ part rest hdt (by omega) (by omega) hu (by omega))
      · exact Or.inr (Or.inl ⟨typ, part, rest, hdt, rfl, by rw [ht]; exact hfit, by simp; omega⟩)
  | fin off idx pre typ part rest out hty hv hfit hsub _ =>
    intro fuel st ht hi hp hw hu hf
    obtain ⟨f, rfl⟩ : ∃ f, fuel = f + 1 := ⟨fuel - 1, by omega⟩
    have hdt : DataTyp typ := by rcases hty with h | h <;> simp [DataTyp, h]
    have hwhole : LToks ps crc st.total st.index st.pre (frame crc typ part ++ rest)
        (((if typ = recFull then [] else pre) ++ part) :: out) := by
      rw [ht, hi, hp]; exact LToks.fin off idx pre typ part rest out hty hv hfit hsub
    by_cases hm : 7 + part.length ≤ st.buf.length - st.readIndex
    · have hu' : st.buf.drop st.readIndex =
          frame crc typ part ++ rest.take (st.buf.length - st.readIndex - (7 + part.length)) := by
        rw [hu, take_append_ge _ _ _ (by simpa [frame_length] using hm), frame_length]
      have hread := lrRead_frame ps crc st typ part _ hdt (by omega) (by omega) hu'
      have hne : ¬ st.buf.length ≤ st.readIndex := by omega
      have hpre : (if typ = recFirst ∨ typ = recFull then [] else st.pre) =
          (if typ = recFull then [] else pre) := by
        have hne1 : typ ≠ recFirst := by rcases hty with h | h <;> subst h <;> decide
        rw [hp]; simp [hne1]
      let st2 : LState := ⟨st.buf, st.readIndex + (part.length + 7), st.total + (part.length + 7),
        0, (if typ = recFull then [] else pre) ++ part⟩
      have hstep : lrBuild ps crc (f + 1) st = .ok ((if typ = recFull then [] else pre) ++ part) st2 := by
        simp only [lrBuild, hne, if_false, hread, dataTyp_mask hdt, hi, hv, hty, if_true, hpre,
          dataTyp_nocomp hdt]
        rfl
      refine Or.inl ⟨_, st2, frame crc typ part, rest, out, hstep, rfl, rfl, by simp [frame_length]; omega,
        by simp [frame_length]; omega, ⟨rfl, by simp [st2, frame_length]; omega, by simp [st2, frame_length]; omega⟩, ?_⟩
      show LToks ps crc (st.total + (part.length + 7)) 0 _ rest out
      rw [ht]; exact hsub
    · refine Or.inr ⟨st, [], frame crc typ part ++ rest, ?_, rfl, by simp, ⟨rfl, rfl, rfl⟩, hwhole, ?_⟩
      · by_cases h0 : st.buf.length ≤ st.readIndex
        · exact lrBuild_none_of_empty ps crc f st h0
        · exact lrBuild_none_of_eof ps crc f st
            (lrRead_frame_partial ps crc st typ part rest hdt (by omega) (by omega) hu (by omega))
      · exact Or.inr (Or.inl ⟨typ, part, rest, hdt, rfl, by rw [ht]; exact hfit, by simp; omega⟩)

/-! ### `Next` -/

/-- Invariant of the tailing reader: the window is a page of the file, `R` (what the file will finally
    hold from offset `total` on) starts with the unread buffer, the visible-but-unfetched bytes `avail`
    and the bytes still to be written `fut`; it is well-formed and completes the records `out`. -/
structure LI (ps : Nat) (crc : Crc) (st : LState) (avail fut R : Bytes) (out : List Bytes) : Prop where
  win : WinOK ps st
  toks : LToks ps crc st.total st.index st.pre R out
  rem : R = st.buf.drop st.readIndex ++ (avail ++ fut)

theorem LI.take {ps : Nat} {crc : Crc} {st : LState} {avail fut R : Bytes} {out : List Bytes}
    (h : LI ps crc st avail fut R out) :
    st.buf.drop st.readIndex = R.take (st.buf.length - st.readIndex) := by
  rw [h.rem, List.take_left' (by simp)]

theorem adv_rem {st st' : LState} {c R R' y : Bytes} (hR : R = c ++ R')
    (hrem : R = st.buf.drop st.readIndex ++ y) (hc : c.length ≤ st.buf.length - st.readIndex)
    (ha : Adv st st' c.length) : R' = st'.buf.drop st'.readIndex ++ y := by
  obtain ⟨a1, a2, _⟩ := ha
  have e1 : R' = R.drop c.length := by rw [hR, List.drop_left' rfl]
  rw [e1, hrem, a1, a2, ← List.drop_drop, List.drop_append_of_le_length (by simp; omega)]

theorem Blocked.full_page {ps : Nat} {crc : Crc} {st : LState} {R : Bytes} (hw : WinOK ps st)
    (hb : Blocked ps crc st.total (st.buf.length - st.readIndex) R)
    (hR : R = [] → st.buf.length ≤ st.readIndex) (hfull : st.buf.length = ps) :
    st.readIndex = ps := by
  have h1 := hw.ri
  by_cases hlt : st.readIndex < ps
  · exfalso
    have hm : st.total % ps = st.readIndex := by rw [hw.total_mod, Nat.mod_eq_of_lt hlt]
    rcases hb with h | ⟨typ, part, rest, _, _, hfit, hl⟩ | ⟨n, rest, _, hn, hl⟩
    · have := hR h; omega
    · omega
    · omega
  · omega

theorem Blocked.all {ps : Nat} {crc : Crc} {off : Nat} {R : Bytes}
    (hb : Blocked ps crc off R.length R) : R = [] := by
  rcases hb with h | ⟨typ, part, rest, _, e, _, hl⟩ | ⟨n, rest, e, _, hl⟩
  · exact h
  · exfalso; have := congrArg List.length e; simp [frame_length] at this; omega
  · exfalso; have := congrArg List.length e; simp [zeros] at this; omega

theorem lrNext_ok {ps : Nat} {crc : Crc} {st st' : LState} {r : Bytes} (f : Nat) (avail : Bytes)
    (h : lrBuild ps crc (st.buf.length + 1) st = .ok r st') :
    lrNext ps crc (f + 1) st avail = .got r st' avail := by
  simp [lrNext, h]

theorem lrNext_shift {ps : Nat} {crc : Crc} {st st1 : LState} (f : Nat) (avail : Bytes)
    (h : lrBuild ps crc (st.buf.length + 1) st = .none st1)
    (hs : st1.buf.length = ps ∧ st1.readIndex > 0) :
    lrNext ps crc (f + 1) st avail =
      lrNext ps crc f { st1 with buf := st1.buf.drop st1.readIndex, readIndex := 0 } avail := by
  simp [lrNext, h, hs]

theorem lrNext_stop {ps : Nat} {crc : Crc} {st st1 : LState} (f : Nat) (avail : Bytes)
    (h : lrBuild ps crc (st.buf.length + 1) st = .none st1)
    (_hs : ¬ (st1.buf.length = ps ∧ st1.readIndex > 0)) (hr : st1.readIndex ≠ ps)
    (hb : st1.buf.length ≠ ps) (hn : min (ps - st1.buf.length) avail.length = 0) :
    lrNext ps crc (f + 1) st avail = .stop .eof st1 avail := by
  simp [lrNext, h, hr, hb, hn]

theorem lrNext_fill {ps : Nat} {crc : Crc} {st st1 : LState} (f : Nat) (avail : Bytes)
    (h : lrBuild ps crc (st.buf.length + 1) st = .none st1)
    (_hs : ¬ (st1.buf.length = ps ∧ st1.readIndex > 0)) (hr : st1.readIndex ≠ ps)
    (hb : st1.buf.length ≠ ps) (hn : min (ps - st1.buf.length) avail.length ≠ 0) :
    lrNext ps crc (f + 1) st avail =
      lrNext ps crc f { st1 with buf := st1.buf ++ avail.take (min (ps - st1.buf.length) avail.length) }
        (avail.drop (min (ps - st1.buf.length) avail.length)) := by
  simp [lrNext, h, hr, hb, hn]

/-- Iterations of the `for` loop of `Next` still needed at most (minus one). -/
def phi (ps : Nat) (st : LState) (avail : Bytes) : Nat :=
  2 * avail.length + (if st.buf.length = ps then 1 else 0)

/-- `Next` on a well-formed growing file: it returns the next record as soon as its last fragment is
    visible, and otherwise reports `io.EOF` having fetched everything visible and consumed every token
    that is wholly visible.  Never an error, never out of fuel. -/
theorem lrNext_spec {ps : Nat} {crc : Crc} (h8 : 8 ≤ ps) (hmax : ps ≤ 65542) :
    ∀ (fuel : Nat) (st : LState) (avail fut R : Bytes) (out : List Bytes),
      LI ps crc st avail fut R out → phi ps st avail + 1 ≤ fuel →
      (∃ r st' avail' R' out', lrNext ps crc fuel st avail = .got r st' avail' ∧ out = r :: out' ∧
          LI ps crc st' avail' fut R' out' ∧
          (st'.buf.length - st'.readIndex) + avail'.length < (st.buf.length - st.readIndex) + avail.length) ∨
      (∃ st' R', lrNext ps crc fuel st avail = .stop .eof st' [] ∧ LI ps crc st' [] fut R' out ∧
          (st'.buf.length - st'.readIndex) ≤ (st.buf.length - st.readIndex) + avail.length ∧
          Blocked ps crc st'.total (st'.buf.length - st'.readIndex) R') := by
  intro fuel
  induction fuel with
  | zero => intro st avail fut R out _ hf; omega
  | succ f ih =>
    intro st avail fut R out hli hf
    have hri := hli.win.ri
    rcases lrBuild_spec hmax hli.toks (st.buf.length + 1) st rfl rfl rfl hli.win hli.take (by omega) with
      ⟨r, st', c, R', out', e, hR, hout, hc0, hcl, ha, hl⟩ | ⟨st1, c, R1, e, hR, hcl, ha, hl, hb⟩
    · refine Or.inl ⟨r, st', avail, R', out', lrNext_ok f avail e, hout,
        ⟨hli.win.adv ha hcl, hl, adv_rem hR hli.rem hcl ha⟩, ?_⟩
      obtain ⟨a1, a2, _⟩ := ha
      rw [a1, a2]; omega
    · have hli1 : LI ps crc st1 avail fut R1 out := ⟨hli.win.adv ha hcl, hl, adv_rem hR hli.rem hcl ha⟩
      obtain ⟨a1, a2, a3⟩ := ha
      have hlen1 : st1.buf.length - st1.readIndex = st.buf.length - st.readIndex - c.length := by
        rw [a1, a2]; omega
      have hb1 : Blocked ps crc st1.total (st1.buf.length - st1.readIndex) R1 := by rw [hlen1]; exact hb
      have hR1 : R1 = [] → st1.buf.length ≤ st1.readIndex := by
        intro h0
        have := congrArg List.length hli1.rem
        rw [h0] at this; simp at this; omega
      have hri1 := hli1.win.ri
      have hcap1 := hli1.win.cap
      by_cases hs : st1.buf.length = ps ∧ st1.readIndex > 0
      · -- the page is used up: start the next one
        have hrp : st1.readIndex = ps := hb1.full_page hli1.win hR1 hs.1
        have hdrop : st1.buf.drop st1.readIndex = [] := List.drop_of_length_le (by omega)
        have hli2 : LI ps crc { st1 with buf := st1.buf.drop st1.readIndex, readIndex := 0 } avail fut R1 out := by
          refine ⟨⟨Nat.zero_le _, ?_, Nat.zero_le _, by simp [hdrop]⟩, hli1.toks, ?_⟩
          · show (st1.total - 0) % ps = 0
            have h1 := hli1.win.aligned
            have h2 := hli1.win.le_total
            rw [hrp] at h1 h2
            have e : st1.total - 0 = (st1.total - ps) + ps := by omega
            rw [e, Nat.add_mod, h1]; simp
          · show R1 = (st1.buf.drop st1.readIndex).drop 0 ++ (avail ++ fut)
            rw [List.drop_zero]; exact hli1.rem
        have hphi : phi ps { st1 with buf := st1.buf.drop st1.readIndex, readIndex := 0 } avail + 1 ≤ f := by
          have : phi ps st avail = 2 * avail.length + 1 := by simp [phi, ← a1, hs.1]
          have : phi ps { st1 with buf := st1.buf.drop st1.readIndex, readIndex := 0 } avail = 2 * avail.length := by
            simp only [phi, hdrop]; simp; omega
          omega
        rw [lrNext_shift f avail e hs]
        rcases ih _ avail fut R1 out hli2 hphi with ⟨r, st', avail', R', out', e', hout, hli', hm⟩ | ⟨st', R', e', hli', hm, hb'⟩
        · refine Or.inl ⟨r, st', avail', R', out', e', hout, hli', ?_⟩
          simp only [hdrop, List.length_nil] at hm; omega
        · refine Or.inr ⟨st', R', e', hli', ?_, hb'⟩
          simp only [hdrop, List.length_nil] at hm; omega
      · have hr : st1.readIndex ≠ ps := by omega
        have hbl : st1.buf.length ≠ ps := by
          intro hfull
          have := hb1.full_page hli1.win hR1 hfull
          omega
        by_cases hn : min (ps - st1.buf.length) avail.length = 0
        · have hav : avail = [] := List.eq_nil_of_length_eq_zero (by omega)
          rw [lrNext_stop f avail e hs hr hbl hn, hav]
          exact Or.inr ⟨st1, R1, rfl, by rw [hav] at hli1; exact hli1, by omega, hb1⟩
        · rw [lrNext_fill f avail e hs hr hbl hn]
          generalize hnn : min (ps - st1.buf.length) avail.length = n at hn
          have hnle : n ≤ avail.length := by omega
          have hli3 : LI ps crc { st1 with buf := st1.buf ++ avail.take n } (avail.drop n) fut R1 out := by
            refine ⟨⟨hli1.win.le_total, hli1.win.aligned, ?_, ?_⟩, hli1.toks, ?_⟩
            · show st1.readIndex ≤ (st1.buf ++ avail.take n).length
              simp; omega
            · show (st1.buf ++ avail.take n).length ≤ ps
              simp [List.length_take]; omega
            · show R1 = (st1.buf ++ avail.take n).drop st1.readIndex ++ (avail.drop n ++ fut)
              rw [List.drop_append_of_le_length hri1, List.append_assoc, ← List.append_assoc (avail.take n),
                List.take_append_drop]
              exact hli1.rem
          have hphi : phi ps { st1 with buf := st1.buf ++ avail.take n } (avail.drop n) + 1 ≤ f := by
            have h1 : phi ps st avail = 2 * avail.length := by simp [phi, ← a1, hbl]
            have h2 : phi ps { st1 with buf := st1.buf ++ avail.take n } (avail.drop n) ≤
                2 * (avail.length - n) + 1 := by
              simp only [phi, List.length_drop]; split <;> omega
            omega
          have hlen3 : (st1.buf ++ avail.take n).length = st1.buf.length + n := by
            simp [List.length_take]; omega
          rcases ih _ (avail.drop n) fut R1 out hli3 hphi with ⟨r, st', avail', R', out', e', hout, hli', hm⟩ | ⟨st', R', e', hli', hm, hb'⟩
          · refine Or.inl ⟨r, st', avail', R', out', e', hout, hli', ?_⟩
            simp only [hlen3, List.length_drop] at hm; omega
          · refine Or.inr ⟨st', R', e', hli', ?_, hb'⟩
            simp only [hlen3, List.length_drop] at hm; omega

/-! ### Draining and tailing -/

theorem LToks.out_of_nil {ps : Nat} {crc : Crc} {off idx : Nat} {pre R : Bytes} {out : List Bytes}
    (h : LToks ps crc off idx pre R out) (hR : R = []) : out = [] := by
  cases h with
  | nil => rfl
  | pad _ _ _ n rest out hn _ _ =>
    exfalso; have := congrArg List.length hR; simp [zeros] at this; omega
  | cont _ _ _ typ part rest out _ _ _ _ =>
    exfalso; have := congrArg List.length hR; simp [frame_length] at this
  | fin _ _ _ typ part rest out _ _ _ _ =>
    exfalso; have := congrArg List.length hR; simp [frame_length] at this

/-- `for r.Next() { … }`: returns every record whose last fragment is visible, ends with `io.EOF`,
    everything visible fetched. -/
theorem lrDrain_spec {ps : Nat} {crc : Crc} (h8 : 8 ≤ ps) (hmax : ps ≤ 65542) :
    ∀ (fuel : Nat) (st : LState) (avail fut R : Bytes) (out : List Bytes),
      LI ps crc st avail fut R out → (st.buf.length - st.readIndex) + avail.length + 1 ≤ fuel →
      ∃ rs st' R' out', lrDrain ps crc fuel st avail = (rs, .eof, st', []) ∧ out = rs ++ out' ∧
        LI ps crc st' [] fut R' out' ∧ Blocked ps crc st'.total (st'.buf.length - st'.readIndex) R' := by
  intro fuel
  induction fuel with
  | zero => intro st avail fut R out _ hf; omega
  | succ f ih =>
    intro st avail fut R out hli hf
    have hphi : phi ps st avail + 1 ≤ 2 * avail.length + 4 := by simp only [phi]; split <;> omega
    rcases lrNext_spec h8 hmax _ st avail fut R out hli hphi with
      ⟨r, st', avail', R', out', e, hout, hli', hm⟩ | ⟨st', R', e, hli', _, hb⟩
    · obtain ⟨rs, st'', R'', out'', e2, hout2, hli2, hb2⟩ := ih st' avail' fut R' out' hli' (by omega)
      refine ⟨r :: rs, st'', R'', out'', ?_, by rw [hout, hout2]; rfl, hli2, hb2⟩
      simp only [lrDrain, e, e2]
    · exact ⟨[], st', R', out, by simp only [lrDrain, e], rfl, hli', hb⟩

/-- Tailing a growing file (`chunks` = the pieces appended between observations): every observation ends
    with `io.EOF`, and all records are returned once, in order. -/
theorem liveRun_spec {ps : Nat} {crc : Crc} (h8 : 8 ≤ ps) (hmax : ps ≤ 65542) :
    ∀ (chunks : List Bytes) (st : LState) (pending R : Bytes) (out : List Bytes),
      LI ps crc st pending chunks.flatten R out → (chunks = [] → out = []) →
      (liveRun ps crc st pending chunks).length = chunks.length ∧
      (∀ o ∈ liveRun ps crc st pending chunks, o.2 = LStatus.eof) ∧
      ((liveRun ps crc st pending chunks).map (·.1)).flatten = out := by
  intro chunks
  induction chunks with
  | nil =>
    intro st pending R out _ h0
    simp [liveRun, h0 rfl]
  | cons c cs ih =>
    intro st pending R out hli _
    have hli0 : LI ps crc st (pending ++ c) cs.flatten R out :=
      ⟨hli.win, hli.toks, by rw [hli.rem]; simp⟩
    obtain ⟨rs, st', R', out', e, hout, hli', hb⟩ :=
      lrDrain_spec h8 hmax (drainFuel st (pending ++ c)) st (pending ++ c) cs.flatten R out hli0
        (by have := hli.win.ri; simp only [drainFuel]; omega)
    have hend : cs = [] → out' = [] := by
      intro hcs
      have hrem := hli'.rem
      rw [hcs] at hrem
      simp only [List.flatten_nil, List.append_nil] at hrem
      have hl : R'.length = st'.buf.length - st'.readIndex := by rw [hrem]; simp
      rw [← hl] at hb
      exact hli'.toks.out_of_nil hb.all
    obtain ⟨i1, i2, i3⟩ := ih st' [] R' out' hli' hend
    have hrun : liveRun ps crc st pending (c :: cs) = (rs, .eof) :: liveRun ps crc st' [] cs := by
      simp only [liveRun, e]
    rw [hrun]
    refine ⟨by simp [i1], ?_, by simp [i3, hout]⟩
    intro o ho
    rcases List.mem_cons.mp ho with h | h
    · rw [h]
    · exact i2 o h

/-- What the tailing reader has returned after the first observations does not depend on what is
    appended later. -/
theorem liveRun_take (ps : Nat) (crc : Crc) :
    ∀ (cs1 cs2 : List Bytes) (st : LState) (pending : Bytes),
      (liveRun ps crc st pending (cs1 ++ cs2)).take cs1.length = liveRun ps crc st pending cs1 := by
  intro cs1
  induction cs1 with
  | nil => intro cs2 st pending; simp [liveRun]
  | cons c cs1 ih =>
    intro cs2 st pending
    simp only [List.cons_append, liveRun, List.length_cons]
    generalize lrDrain ps crc (drainFuel st (pending ++ c)) st (pending ++ c) = d
    obtain ⟨rs, s, st', avail'⟩ := d
    cases s with
    | eof => simp only [List.take_succ_cons]; rw [ih]
    | err e => simp

end Prom.Wal
