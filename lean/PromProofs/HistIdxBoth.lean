import PromModel.Tsdb.HistLayout
import PromProofs.HistIdx
/-
  Index-level facts about `addBucket`, `expandSpansBothWays` and the loops of `adjustForInserts`.
-/
namespace Prom.Hist

/-! ## runIdx / idxsFrom / endFrom -/

theorem runIdx_succ_b (b : Int) (n : Nat) : runIdx b (n + 1) = runIdx b n ++ [b + (n : Int)] := by
  induction n generalizing b with
  | zero => simp [runIdx]
  | succ n ih =>
    rw [runIdx, ih (b + 1)]
    simp only [runIdx, List.cons_append, List.cons.injEq, true_and, List.append_cancel_left_eq]
    simp only [and_true]
    omega

theorem runIdx_one (b : Int) : runIdx b 1 = [b] := rfl

theorem idxsFrom_append_one (cur : Int) (l : List Span) (sp : Span) :
    idxsFrom cur (l ++ [sp]) = idxsFrom cur l ++ runIdx (endFrom cur l + sp.offset) sp.length := by
  induction l generalizing cur with
  | nil => simp [idxsFrom, endFrom]
  | cons s r ih => simp [idxsFrom, endFrom, ih]

theorem endFrom_append_one (cur : Int) (l : List Span) (sp : Span) :
    endFrom cur (l ++ [sp]) = endFrom cur l + sp.offset + (sp.length : Int) := by
  induction l generalizing cur with
  | nil => simp [endFrom]
  | cons s r ih => simp [endFrom, ih]

/-! ## addBucket -/

/-- `addBucket` appends exactly the bucket index `b` to the enumerated indices -/
theorem MS.add_spec (m : MS) (b : Int) (h : MSOk m) :
    MSOk (m.add b) ∧ idxs (m.add b).spans = idxs m.spans ++ [b] := by
  obtain ⟨rev, last⟩ := m
  cases rev with
  | nil =>
    have hl : last = 0 := by
      rcases h with h | h
      · exact h.2
      · exact absurd rfl h.1
    subst hl
    constructor
    · right
      simp [MS.add, MS.spans, endFrom]
    · simp [MS.add, MS.spans, idxs, idxsFrom, runIdx]
  | cons s r =>
    have he : endFrom 0 r.reverse + s.offset + (s.length : Int) = last + 1 := by
      rcases h with h | h
      · exact absurd h.1 (by simp)
      · have := h.2
        simpa [MS.spans, endFrom_append_one] using this
    by_cases ho : b - last - 1 = 0
    · constructor
      · right
        simp only [MS.add, ho, if_true, MS.spans, List.reverse_cons, endFrom_append_one]
        refine ⟨by simp, ?_⟩
        simp only [Int.natCast_add, Int.natCast_one]
        omega
      · simp only [MS.add, ho, if_true, MS.spans, List.reverse_cons, idxs, idxsFrom_append_one,
          runIdx_succ_b, List.append_assoc, List.append_cancel_left_eq, List.cons.injEq, and_true]
        omega
    · constructor
      · right
        simp only [MS.add, ho, if_false, MS.spans, List.reverse_cons, endFrom_append_one]
        refine ⟨by simp, ?_⟩
        simp only [Int.natCast_one]
        omega
      · simp only [MS.add, ho, if_false, MS.spans, List.reverse_cons, idxs, idxsFrom_append_one,
          endFrom_append_one, runIdx_one, List.append_cancel_left_eq, List.cons.injEq, and_true]
        omega

theorem MSOk_empty : MSOk MS.empty := Or.inl ⟨rfl, rfl⟩

theorem foldl_add_spec (l : List Int) (m : MS) (h : MSOk m) :
    MSOk (l.foldl MS.add m) ∧ idxs (l.foldl MS.add m).spans = idxs m.spans ++ l := by
  induction l generalizing m with
  | nil => simp [h]
  | cons x r ih =>
    have h1 := MS.add_spec m x h
    have h2 := ih (m.add x) h1.1
    refine ⟨h2.1, ?_⟩
    simp only [List.foldl_cons, h2.2, h1.2, List.append_assoc, List.cons_append, List.nil_append]

theorem idxs_spansOf (l : List Int) : idxs (spansOf l) = l := by
  have := (foldl_add_spec l MS.empty MSOk_empty).2
  simpa [spansOf, MS.empty, MS.spans, idxs, idxsFrom] using this

/-! ## specF / mergeU / adjMerge unfolding -/

theorem specF_nil_right_b (k : Nat) (A : List Int) : specF k A [] = [] := by
  cases A <;> simp [specF]

theorem specF_nil_left_b (k : Nat) (B : List Int) : specF k [] B = B.map fun b => (k, b) := by
  simp [specF]

theorem specF_eq (k : Nat) (a : Int) (A B : List Int) :
    specF k (a :: A) (a :: B) = specF (k + 1) A B := by
  rw [specF]; simp

theorem specF_lt (k : Nat) (a b : Int) (A B : List Int) (h : a < b) :
    specF k (a :: A) (b :: B) = specF (k + 1) A (b :: B) := by
  have hne : ¬ a = b := by omega
  rw [specF]; simp [hne, h]

theorem specF_gt (k : Nat) (a b : Int) (A B : List Int) (h : b < a) :
    specF k (a :: A) (b :: B) = (k, b) :: specF k (a :: A) B := by
  have hne : ¬ a = b := by omega
  have hlt : ¬ a < b := by omega
  rw [specF]; simp [hne, hlt]

theorem mergeU_nil_right (A : List Int) : mergeU A [] = A := by
  cases A <;> simp [mergeU]

theorem mergeU_nil_left (B : List Int) : mergeU [] B = B := by
  simp [mergeU]

theorem mergeU_eq (a : Int) (A B : List Int) : mergeU (a :: A) (a :: B) = a :: mergeU A B := by
  rw [mergeU]; simp

theorem mergeU_lt (a b : Int) (A B : List Int) (h : a < b) :
    mergeU (a :: A) (b :: B) = a :: mergeU A (b :: B) := by
  have hne : ¬ a = b := by omega
  rw [mergeU]; simp [hne, h]

theorem mergeU_gt (a b : Int) (A B : List Int) (h : b < a) :
    mergeU (a :: A) (b :: B) = b :: mergeU (a :: A) B := by
  have hne : ¬ a = b := by omega
  have hlt : ¬ a < b := by omega
  rw [mergeU]; simp [hne, hlt]

theorem adjMerge_nil_right (B : List Int) : adjMerge B [] = B := by
  cases B <;> simp [adjMerge]

theorem adjMerge_nil_left (I : List Int) : adjMerge [] I = I := by
  simp [adjMerge]

theorem adjMerge_lt (b i : Int) (B I : List Int) (h : i < b) :
    adjMerge (b :: B) (i :: I) = i :: adjMerge (b :: B) I := by
  rw [adjMerge]; simp [h]

theorem adjMerge_ge (b i : Int) (B I : List Int) (h : ¬ i < b) :
    adjMerge (b :: B) (i :: I) = b :: adjMerge B (i :: I) := by
  rw [adjMerge]; simp [h]

/-! ## flush -/

theorem posOf_append_one (l : List Insert) (x : Insert) :
    posOf (l ++ [x]) = posOf l ++ List.replicate x.num x.pos := by
  simp [posOf]

@[simp] theorem BW.flushF_b (s : BW) : s.flushF.b = s.b := by unfold BW.flushF; split <;> rfl
@[simp] theorem BW.flushF_m (s : BW) : s.flushF.m = s.m := by unfold BW.flushF; split <;> rfl
@[simp] theorem BW.flushF_fPos (s : BW) : s.flushF.fPos = s.fPos := by unfold BW.flushF; split <;> rfl
@[simp] theorem BW.flushF_bPos (s : BW) : s.flushF.bPos = s.bPos := by unfold BW.flushF; split <;> rfl
@[simp] theorem BW.flushF_bNum (s : BW) : s.flushF.bNum = s.bNum := by unfold BW.flushF; split <;> rfl
@[simp] theorem BW.flushF_fNum (s : BW) : s.flushF.fNum = 0 := by
  unfold BW.flushF; split
  · rfl
  · omega

@[simp] theorem BW.flushB_f (s : BW) : s.flushB.f = s.f := by unfold BW.flushB; split <;> rfl
@[simp] theorem BW.flushB_m (s : BW) : s.flushB.m = s.m := by unfold BW.flushB; split <;> rfl
@[simp] theorem BW.flushB_fPos (s : BW) : s.flushB.fPos = s.fPos := by unfold BW.flushB; split <;> rfl
@[simp] theorem BW.flushB_bPos (s : BW) : s.flushB.bPos = s.bPos := by unfold BW.flushB; split <;> rfl
@[simp] theorem BW.flushB_fNum (s : BW) : s.flushB.fNum = s.fNum := by unfold BW.flushB; split <;> rfl
@[simp] theorem BW.flushB_bNum (s : BW) : s.flushB.bNum = 0 := by
  unfold BW.flushB; split
  · rfl
  · omega

theorem BW.posOf_flushF (s : BW) :
    posOf s.flushF.f.reverse = posOf s.f.reverse ++ List.replicate s.fNum s.fPos := by
  unfold BW.flushF; split
  · simp [posOf_append_one]
  · have : s.fNum = 0 := by omega
    simp [this]

theorem BW.posOf_flushB (s : BW) :
    posOf s.flushB.b.reverse = posOf s.b.reverse ++ List.replicate s.bNum s.bPos := by
  unfold BW.flushB; split
  · simp [posOf_append_one]
  · have : s.bNum = 0 := by omega
    simp [this]

theorem BW.allPos_flushF (s : BW) (h : AllPos s.f) : AllPos s.flushF.f := by
  unfold BW.flushF; split
  · intro x hx
    simp only [List.mem_cons] at hx
    rcases hx with rfl | hx
    · assumption
    · exact h x hx
  · exact h

theorem BW.allPos_flushB (s : BW) (h : AllPos s.b) : AllPos s.flushB.b := by
  unfold BW.flushB; split
  · intro x hx
    simp only [List.mem_cons] at hx
    rcases hx with rfl | hx
    · assumption
    · exact h x hx
  · exact h

theorem BW.posOf_curF (s : BW) :
    posOf s.curF = posOf s.f.reverse ++ List.replicate s.fNum s.fPos := s.posOf_flushF

theorem BW.posOf_curB (s : BW) :
    posOf s.curB = posOf s.b.reverse ++ List.replicate s.bNum s.bPos := s.posOf_flushB

/-! ## expandSpansBothWays -/

theorem bothGo_spec' (A B : List Int) (s : BW) (hm : MSOk s.m) (hf : AllPos s.f) (hb : AllPos s.b) :
    AllPos (bothGo A B s).f ∧ AllPos (bothGo A B s).b ∧ MSOk (bothGo A B s).m ∧
    posOf (bothGo A B s).f.reverse
      = (posOf s.f.reverse ++ List.replicate s.fNum s.fPos) ++ (specF s.fPos A B).map (·.1) ∧
    posOf (bothGo A B s).b.reverse
      = (posOf s.b.reverse ++ List.replicate s.bNum s.bPos) ++ (specF s.bPos B A).map (·.1) ∧
    idxs (bothGo A B s).m.spans = idxs s.m.spans ++ mergeU A B := by
  fun_induction bothGo A B s with
  | case1 a bv b s s1 ih =>
    have hadd := MS.add_spec s.m bv hm
    have := ih (by simpa [s1] using hadd.1)
      (by simpa [s1] using s.allPos_flushF hf)
      (by simpa [s1] using s.flushF.allPos_flushB (by simpa using hb))
    obtain ⟨h1, h2, h3, h4, h5, h6⟩ := this
    refine ⟨h1, h2, h3, ?_, ?_, ?_⟩
    · rw [h4, specF_eq]
      simp [s1, BW.posOf_flushF]
    · rw [h5, specF_eq]
      simp [s1, BW.posOf_flushB]
    · rw [h6, mergeU_eq]
      simp [s1, hadd.2]
  | case2 av a bv b s hne hlt s1 ih =>
    have hadd := MS.add_spec s.m av hm
    have := ih (by simpa [s1] using hadd.1)
      (by simpa [s1] using BW.allPos_flushF { s with bNum := s.bNum + 1 } hf)
      (by simpa [s1] using hb)
    obtain ⟨h1, h2, h3, h4, h5, h6⟩ := this
    refine ⟨h1, h2, h3, ?_, ?_, ?_⟩
    · rw [h4, specF_lt _ _ _ _ _ hlt]
      simp [s1, BW.posOf_flushF]
    · rw [h5, specF_gt _ _ _ _ _ hlt]
      simp [s1, List.replicate_succ']
    · rw [h6, mergeU_lt _ _ _ _ hlt]
      simp [s1, hadd.2]
  | case3 av a bv b s hne hlt s1 ih =>
    have hgt : bv < av := by omega
    have hadd := MS.add_spec s.m bv hm
    have := ih (by simpa [s1] using hadd.1)
      (by simpa [s1] using hf)
      (by simpa [s1] using BW.allPos_flushB { s with fNum := s.fNum + 1 } hb)
    obtain ⟨h1, h2, h3, h4, h5, h6⟩ := this
    refine ⟨h1, h2, h3, ?_, ?_, ?_⟩
    · rw [h4, specF_gt _ _ _ _ _ hgt]
      simp [s1, List.replicate_succ']
    · rw [h5, specF_lt _ _ _ _ _ hgt]
      simp [s1, BW.posOf_flushB]
    · rw [h6, mergeU_gt _ _ _ _ hgt]
      simp [s1, hadd.2]
  | case4 av a s ih =>
    have hadd := MS.add_spec s.m av hm
    have := ih (by simpa using hadd.1) (by simpa using hf) (by simpa using hb)
    obtain ⟨h1, h2, h3, h4, h5, h6⟩ := this
    refine ⟨h1, h2, h3, ?_, ?_, ?_⟩
    · rw [h4, specF_nil_right_b, specF_nil_right_b]
    · rw [h5, specF_nil_left_b, specF_nil_left_b]
      simp [List.replicate_succ']
    · rw [h6, mergeU_nil_right, mergeU_nil_right]
      simp [hadd.2]
  | case5 bv b s ih =>
    have hadd := MS.add_spec s.m bv hm
    have := ih (by simpa using hadd.1) (by simpa using hf) (by simpa using hb)
    obtain ⟨h1, h2, h3, h4, h5, h6⟩ := this
    refine ⟨h1, h2, h3, ?_, ?_, ?_⟩
    · rw [h4, specF_nil_left_b, specF_nil_left_b]
      simp [List.replicate_succ']
    · rw [h5, specF_nil_right_b, specF_nil_right_b]
    · rw [h6, mergeU_nil_left, mergeU_nil_left]
      simp [hadd.2]
  | case6 s =>
    refine ⟨?_, ?_, ?_, ?_, ?_, ?_⟩
    · simpa using s.allPos_flushF hf
    · exact s.flushF.allPos_flushB (by simpa using hb)
    · simpa using hm
    · simp [specF_nil_left_b, BW.posOf_flushF]
    · simp [specF_nil_left_b, BW.posOf_flushB]
    · simp [mergeU_nil_left]

/-- `expandSpansBothWays` loop: inserts denote `specF`, merged spans enumerate `mergeU` -/
theorem bothGo_spec (A B : List Int) (s : BW) (hm : MSOk s.m) (hf : AllPos s.f) (hb : AllPos s.b) :
    let s' := bothGo A B s
    AllPos s'.f ∧ AllPos s'.b ∧ MSOk s'.m ∧
    posOf s'.f.reverse = posOf s.curF ++ (specF s.fPos A B).map (·.1) ∧
    posOf s'.b.reverse = posOf s.curB ++ (specF s.bPos B A).map (·.1) ∧
    idxs s'.m.spans = idxs s.m.spans ++ mergeU A B := by
  intro s'
  rw [BW.posOf_curF, BW.posOf_curB]
  exact bothGo_spec' A B s hm hf hb

theorem expandBoth_spec (a b : List Span) :
    AllPos (expandBoth a b).1 ∧ AllPos (expandBoth a b).2.1 ∧
    posOf (expandBoth a b).1 = (specF 0 (idxs a) (idxs b)).map (·.1) ∧
    posOf (expandBoth a b).2.1 = (specF 0 (idxs b) (idxs a)).map (·.1) ∧
    idxs (expandBoth a b).2.2 = mergeU (idxs a) (idxs b) := by
  have h := bothGo_spec' (idxs a) (idxs b) BW.init MSOk_empty
    (by intro x hx; simp [BW.init] at hx) (by intro x hx; simp [BW.init] at hx)
  obtain ⟨h1, h2, _, h4, h5, h6⟩ := h
  refine ⟨?_, ?_, ?_, ?_, ?_⟩
  · intro x hx
    exact h1 x (by simpa [expandBoth] using hx)
  · intro x hx
    exact h2 x (by simpa [expandBoth] using hx)
  · simpa [expandBoth, BW.init, posOf] using h4
  · simpa [expandBoth, BW.init, posOf] using h5
  · simpa [expandBoth, BW.init, MS.empty, MS.spans, idxs, idxsFrom] using h6

/-! ## adjustForInserts -/

/-- the two loops of `adjustForInserts` -/
theorem adjGo_spec (B I : List Int) (m : MS) (h : MSOk m) :
    MSOk (adjGo B I m) ∧ idxs (adjGo B I m).spans = idxs m.spans ++ adjMerge B I := by
  fun_induction adjGo B I m with
  | case1 b bs i is m hlt ih =>
    have hadd := MS.add_spec m i h
    have := ih hadd.1
    refine ⟨this.1, ?_⟩
    rw [this.2, hadd.2, adjMerge_lt _ _ _ _ hlt]; simp
  | case2 b bs i is m hlt ih =>
    have hadd := MS.add_spec m b h
    have := ih hadd.1
    refine ⟨this.1, ?_⟩
    rw [this.2, hadd.2, adjMerge_ge _ _ _ _ hlt]; simp
  | case3 b bs m ih =>
    have hadd := MS.add_spec m b h
    have := ih hadd.1
    refine ⟨this.1, ?_⟩
    rw [this.2, hadd.2, adjMerge_nil_right, adjMerge_nil_right]; simp
  | case4 i is m ih =>
    have hadd := MS.add_spec m i h
    have := ih hadd.1
    refine ⟨this.1, ?_⟩
    rw [this.2, hadd.2, adjMerge_nil_left, adjMerge_nil_left]; simp
  | case5 m => exact ⟨h, by simp [adjMerge_nil_left]⟩

end Prom.Hist
