import PromModel.Ingest.ScrapeCache
/-
  Helper lemmas for C37 (scrape loop model).
-/
namespace Prom.Scrape

/-- what the loop passed to the storage in an event -/
def Ev.sig : Ev → Option (Labels × Int × Option Nat)
  | .call p _ t v _ => some (p, t, v)
  | _ => none

def Ev.isCall : Ev → Bool
  | .call .. => true
  | _ => false

/-- the bare appender: the behaviour of the storage decides only the result, never what is logged -/
def baseApp {σ} (S : Store σ) : LoopSt σ → Nat → Labels → Int → Nat → LoopSt σ × Except AppErr Nat :=
  fun s r l t b => baseAppend S s r l t b (some b)

theorem baseAppend_spec {σ} (S : Store σ) (s : LoopSt σ) (ref : Nat) (l : Labels) (t : Int) (b : Nat)
    (v : Option Nat) :
    ∃ e, (baseAppend S s ref l t b v).1.evs = e :: s.evs ∧ e.sig = some (l, t, v) ∧
      (baseAppend S s ref l t b v).1.c = s.c ∧ (baseAppend S s ref l t b v).1.i = s.i ∧
      (baseAppend S s ref l t b v).2 ≠ .error .limit ∧ (baseAppend S s ref l t b v).2 ≠ .error .oob := by
  unfold baseAppend
  cases h : (S.app s.st ref l t b).2.res <;> simp [h, Ev.sig]

/-- `updateStaleMarkers` on the bare appender never fails, leaves the cache alone and issues exactly
    one marker per stale entry, in order. -/
theorem staleMarkers_base {σ} (S : Store σ) (defT : Int) (xs : List (Nat × Labels)) (s : LoopSt σ) :
    (staleMarkers (baseApp S) defT s xs).2 = true ∧
    (staleMarkers (baseApp S) defT s xs).1.c = s.c ∧
    ∃ new, (staleMarkers (baseApp S) defT s xs).1.evs = new ++ s.evs ∧
      new.reverse.map Ev.sig = xs.map (fun x => some (x.2, defT, some staleBits)) := by
  induction xs generalizing s with
  | nil => simp [staleMarkers]
  | cons x rest ih =>
    obtain ⟨ref, lset⟩ := x
    obtain ⟨e, he, hsig, hc, _, hl, ho⟩ := baseAppend_spec S s ref lset defT staleBits (some staleBits)
    unfold staleMarkers
    have key : ∀ s', (baseApp S s ref lset defT staleBits).1 = s' →
        (staleMarkers (baseApp S) defT s' rest).2 = true ∧
        (staleMarkers (baseApp S) defT s' rest).1.c = s.c ∧
        ∃ new, (staleMarkers (baseApp S) defT s' rest).1.evs = new ++ s.evs ∧
          new.reverse.map Ev.sig = (some (lset, defT, some staleBits)) :: rest.map (fun x => some (x.2, defT, some staleBits)) := by
      intro s' hs'
      obtain ⟨h1, h2, new, h3, h4⟩ := ih s'
      refine ⟨h1, ?_, new ++ [e], ?_, ?_⟩
      · rw [h2, ← hs']; exact hc
      · rw [h3, ← hs']; simp [baseApp, he]
      · simp [h4, hsig]
    simp only [List.map_cons]
    generalize hr : baseApp S s ref lset defT staleBits = r at key
    obtain ⟨s', res⟩ := r
    have hk := key s' rfl
    have hres : res = (baseAppend S s ref lset defT staleBits (some staleBits)).2 := by
      have := congrArg Prod.snd hr; simpa [baseApp] using this.symm
    cases res with
    | ok v => exact hk
    | error er =>
      cases er with
      | ooo => exact hk
      | dup => exact hk
      | oob => exact absurd hres.symm ho
      | limit => exact absurd hres.symm hl


/-! ### the cache operations used by the report leave the staleness sets alone -/

theorem get_tracking (c : Cache) (key : String) :
    (c.get key).1.cur = c.cur ∧ (c.get key).1.prev = c.prev := by
  unfold Cache.get
  split <;> simp [Cache.setCE]

theorem addRef_tracking (c : Cache) (key : String) (ref : Nat) (l : Labels) :
    (c.addRef key ref l).1.cur = c.cur ∧ (c.addRef key ref l).1.prev = c.prev := by
  simp [Cache.addRef]

/-- value and time of a report sample; the label set is the cached one or `reportLabels` -/
def Ev.tv : Ev → Option (Int × Option Nat)
  | .call _ _ t v _ => some (t, v)
  | _ => none

theorem addReportSample_spec {σ} (S : Store σ) (P : Params) (s : LoopSt σ) (n : String) (t : Int) (b : Nat)
    (v : Option Nat) :
    ∃ e, (addReportSample S P s n t b v).evs = e :: s.evs ∧ e.tv = some (t, v) ∧
      (addReportSample S P s n t b v).c.cur = s.c.cur ∧ (addReportSample S P s n t b v).c.prev = s.c.prev := by
  obtain ⟨hg1, hg2⟩ := get_tracking s.c (reportKey n)
  simp only [addReportSample]
  obtain ⟨e, he, hsig, hc, _, _, _⟩ :=
    baseAppend_spec S { s with c := (s.c.get (reportKey n)).1 }
      (reportRefLset P (s.c.get (reportKey n)) n).1 (reportRefLset P (s.c.get (reportKey n)) n).2 t b v
  have htv : e.tv = some (t, v) := by
    cases e <;> simp [Ev.sig, Ev.tv] at hsig ⊢
    exact ⟨hsig.2.1, hsig.2.2⟩
  simp only at he hc
  split
  · split
    · refine ⟨e, by simpa using he, htv, ?_, ?_⟩
      · simp [(addRef_tracking _ (reportKey n) _ _).1, hc, hg1]
      · simp [(addRef_tracking _ (reportKey n) _ _).2, hc, hg2]
    · exact ⟨e, he, htv, by simp [hc, hg1], by simp [hc, hg2]⟩
  · exact ⟨e, he, htv, by simp [hc, hg1], by simp [hc, hg2]⟩


/-- the five report samples, in order, with their values; the staleness sets are not touched -/
theorem report_spec {σ} (S : Store σ) (P : Params) (s : LoopSt σ) (t : Int) (up : Bool) (k : Counters) :
    ∃ e1 e2 e3 e4 e5, (report S P s t up k).evs = e5 :: e4 :: e3 :: e2 :: e1 :: s.evs ∧
      e1.tv = some (t, some (if up then natToF64Bits 1 else 0)) ∧ e2.tv = some (t, none) ∧
      e3.tv = some (t, some (natToF64Bits k.total)) ∧ e4.tv = some (t, some (natToF64Bits k.added)) ∧
      e5.tv = some (t, some (natToF64Bits k.seriesAdded)) ∧
      (report S P s t up k).c.cur = s.c.cur ∧ (report S P s t up k).c.prev = s.c.prev := by
  simp only [report]
  obtain ⟨e1, h1, t1, c1, p1⟩ := addReportSample_spec S P s "up" t (if up then natToF64Bits 1 else 0)
    (some (if up then natToF64Bits 1 else 0))
  generalize addReportSample S P s "up" t _ _ = s1 at *
  obtain ⟨e2, h2, t2, c2, p2⟩ := addReportSample_spec S P s1 "scrape_duration_seconds" t 0 none
  generalize addReportSample S P s1 "scrape_duration_seconds" t _ _ = s2 at *
  obtain ⟨e3, h3, t3, c3, p3⟩ := addReportSample_spec S P s2 "scrape_samples_scraped" t (natToF64Bits k.total)
    (some (natToF64Bits k.total))
  generalize addReportSample S P s2 "scrape_samples_scraped" t _ _ = s3 at *
  obtain ⟨e4, h4, t4, c4, p4⟩ := addReportSample_spec S P s3 "scrape_samples_post_metric_relabeling" t
    (natToF64Bits k.added) (some (natToF64Bits k.added))
  generalize addReportSample S P s3 "scrape_samples_post_metric_relabeling" t _ _ = s4 at *
  obtain ⟨e5, h5, t5, c5, p5⟩ := addReportSample_spec S P s4 "scrape_series_added" t
    (natToF64Bits k.seriesAdded) (some (natToF64Bits k.seriesAdded))
  refine ⟨e1, e2, e3, e4, e5, ?_, t1, t2, t3, t4, t5, ?_, ?_⟩
  · rw [h5, h4, h3, h2, h1]
  · rw [c5, c4, c3, c2, c1]
  · rw [p5, p4, p3, p2, p1]

/-- the empty append (`len(b) == 0`): markers for every stale entry on the bare appender, then
    `iterDone(false)`; it cannot fail. -/
theorem appendBody_empty {σ} (S : Store σ) (P : Params) (defT : Int) (c : Cache) (st : σ) :
    (appendBody S P defT c st []).ok = true ∧ (appendBody S P defT c st []).k = {} ∧
    (appendBody S P defT c st []).s.c = c.iterDone false ∧
    (appendBody S P defT c st []).s.evs.reverse.map Ev.sig =
      (P.sortStale c.stale).map (fun x => some (x.2, defT, some staleBits)) := by
  obtain ⟨h1, h2, new, h3, h4⟩ := staleMarkers_base S defT (P.sortStale c.stale) ({ c := c, st := st } : LoopSt σ)
  simp only [appendBody, List.isEmpty_nil, if_true]
  refine ⟨h1, trivial, ?_, ?_⟩
  · show (staleMarkers _ defT _ _).1.c.iterDone false = _
    have : (staleMarkers (fun s r l t b => baseAppend S s r l t b (some b)) defT ({ c := c, st := st } : LoopSt σ) (P.sortStale c.stale)).1.c = c := h2
    rw [this]
  · show (staleMarkers _ defT _ _).1.evs.reverse.map Ev.sig = _
    have : (staleMarkers (fun s r l t b => baseAppend S s r l t b (some b)) defT ({ c := c, st := st } : LoopSt σ) (P.sortStale c.stale)).1.evs = new ++ [] := h3
    rw [this]; simpa using h4

/-- with nothing tracked in the current scrape every previously tracked entry is stale -/
theorem stale_of_cur_nil (c : Cache) (h : c.cur = []) :
    c.stale = c.prev.map fun p => ((c.ce p.2).ref, (c.ce p.2).lset) := by
  have : ∀ (l : List (Nat × Nat)), l.filter (fun _ => true) = l := by
    intro l; induction l <;> simp_all
  simp [Cache.stale, h, alookup, this]


/-! ### the limit wrappers -/

theorem limitedAppend_spec {σ} (S : Store σ) (P : Params) (s : LoopSt σ) (ref : Nat) (l : Labels) (t : Int)
    (b : Nat) :
    (limitedAppend S P s ref l t b).1.c = s.c ∧
    (((limitedAppend S P s ref l t b).2 = .error .limit ∨ (limitedAppend S P s ref l t b).2 = .error .oob) ∧
        (limitedAppend S P s ref l t b).1.evs = s.evs
      ∨ ((limitedAppend S P s ref l t b).2 ≠ .error .limit ∧ (limitedAppend S P s ref l t b).2 ≠ .error .oob ∧
        ∃ e, (limitedAppend S P s ref l t b).1.evs = e :: s.evs ∧ e.sig = some (l, t, some b))) := by
  simp only [limitedAppend]
  generalize (decide (P.sampleLimit > 0) && (ref == 0 || b != staleBits)) = counted
  generalize hs' : (if counted = true then ({ s with i := s.i + 1 } : LoopSt σ) else s) = s'
  have hc : s'.c = s.c := by rw [← hs']; split <;> rfl
  have hevs : s'.evs = s.evs := by rw [← hs']; split <;> rfl
  by_cases h1 : (counted && decide (s'.i > P.sampleLimit)) = true
  · rw [if_pos h1]; exact ⟨hc, Or.inl ⟨Or.inl rfl, hevs⟩⟩
  · rw [if_neg h1]
    by_cases h2 : t > P.maxTime
    · rw [if_pos h2]; exact ⟨hc, Or.inl ⟨Or.inr rfl, hevs⟩⟩
    · rw [if_neg h2]
      obtain ⟨e, he, hsig, hc', _, hl, ho⟩ := baseAppend_spec S s' ref l t b (some b)
      exact ⟨by rw [hc', hc], Or.inr ⟨hl, ho, e, by rw [he, hevs], hsig⟩⟩

/-- `updateStaleMarkers` through the limit wrappers: when it succeeds, it has sent one marker per
    stale entry, in order, and left the cache alone. -/
theorem staleMarkers_limited {σ} (S : Store σ) (P : Params) (defT : Int) (xs : List (Nat × Labels))
    (s : LoopSt σ) (hok : (staleMarkers (limitedAppend S P) defT s xs).2 = true) :
    (staleMarkers (limitedAppend S P) defT s xs).1.c = s.c ∧
    ∃ new, (staleMarkers (limitedAppend S P) defT s xs).1.evs = new ++ s.evs ∧
      new.reverse.map Ev.sig = xs.map (fun x => some (x.2, defT, some staleBits)) := by
  induction xs generalizing s with
  | nil => simp [staleMarkers]
  | cons x rest ih =>
    obtain ⟨ref, lset⟩ := x
    obtain ⟨hc, hcase⟩ := limitedAppend_spec S P s ref lset defT staleBits
    unfold staleMarkers at hok ⊢
    generalize hr : limitedAppend S P s ref lset defT staleBits = r at hok hc hcase ⊢
    obtain ⟨s', res⟩ := r
    simp only at hc hcase
    have step : (staleMarkers (limitedAppend S P) defT s' rest).2 = true →
        res ≠ .error .limit → res ≠ .error .oob →
        (staleMarkers (limitedAppend S P) defT s' rest).1.c = s.c ∧
        ∃ new, (staleMarkers (limitedAppend S P) defT s' rest).1.evs = new ++ s.evs ∧
          new.reverse.map Ev.sig = some (lset, defT, some staleBits) :: rest.map (fun x => some (x.2, defT, some staleBits)) := by
      intro h hl ho
      obtain ⟨h2, new, h3, h4⟩ := ih s' h
      rcases hcase with ⟨hbad, _⟩ | ⟨_, _, e, he, hsig⟩
      · rcases hbad with hbad | hbad
        · exact absurd hbad hl
        · exact absurd hbad ho
      · refine ⟨by rw [h2, hc], new ++ [e], by rw [h3, he]; simp, by simp [h4, hsig]⟩
    cases res with
    | ok v => exact step hok (by simp) (by simp)
    | error er =>
      cases er with
      | ooo => exact step hok (by simp) (by simp)
      | dup => exact step hok (by simp) (by simp)
      | oob => simp at hok
      | limit => simp at hok

end Prom.Scrape
