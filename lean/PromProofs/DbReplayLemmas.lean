import PromProofs.DbReplay
/-
  C01 refinement, restart: lemmas about the WAL replay (`reSmp`, `reStone`, `reRec`, `reFold`) that
  hold for an ARBITRARY WAL and cutoff: function view of `setSeries`, step characterisations, the
  structural invariant `RInv` of the replayed head, lo/hi bounds, provenance, cutoff monotonicity.
-/
namespace Prom.Db
open Prom.Intervals

/-! ### 1. Function view of `setSeries`, `reIns` -/

theorem find?_map_replace (s : HSeries) (j : Nat) (l : List HSeries) :
    (l.map fun x => if x.idx = s.idx then s else x).find? (fun x => decide (x.idx = j)) =
      if j = s.idx then (if l.any (fun x => decide (x.idx = s.idx)) then some s else none)
      else l.find? (fun x => decide (x.idx = j)) := by
  induction l with
  | nil => simp
  | cons a as ih =>
    simp only [List.map_cons, List.find?_cons, List.any_cons]
    by_cases ha : a.idx = s.idx
    · by_cases hj : j = s.idx
      · simp [ha, hj]
      · have h1 : ¬ s.idx = j := fun e => hj e.symm
        simp only [ha, if_true, h1, decide_false]
        rw [ih]; simp [hj]
    · by_cases hj : j = s.idx
      · have h2 : ¬ a.idx = j := fun e => ha (by rw [e, hj])
        simp only [ha, if_false, h2, decide_false, Bool.false_or]
        rw [ih]
      · simp only [ha, if_false]
        rw [ih]; simp [hj]

theorem getSeries_setSeries (d : Db) (s : HSeries) (j : Nat) :
    (d.setSeries s).getSeries j = if j = s.idx then s else d.getSeries j := by
  unfold Db.setSeries
  split
  · rename_i hany
    unfold Db.getSeries
    simp only
    rw [find?_map_replace]
    by_cases hj : j = s.idx
    · simp [hj, hany]
    · simp [hj]
  · rename_i hany
    unfold Db.getSeries
    simp only [List.find?_append]
    by_cases hj : j = s.idx
    · subst hj
      have : d.series.find? (fun x => decide (x.idx = s.idx)) = none := by
        rw [List.find?_eq_none]
        intro x hx
        simp only [List.any_eq_true, not_exists, not_and] at hany
        exact hany x hx
      simp [this]
    · have h1 : ¬ s.idx = j := fun e => hj e.symm
      simp [hj, h1]

theorem any_map_replace (s : HSeries) (j : Nat) (l : List HSeries) :
    (l.map fun x => if x.idx = s.idx then s else x).any (fun x => decide (x.idx = j)) =
      if j = s.idx then l.any (fun x => decide (x.idx = s.idx))
      else l.any (fun x => decide (x.idx = j)) := by
  induction l with
  | nil => simp
  | cons a as ih =>
    simp only [List.map_cons, List.any_cons]
    rw [ih]
    by_cases ha : a.idx = s.idx
    · by_cases hj : j = s.idx
      · simp [ha, hj]
      · have h1 : ¬ s.idx = j := fun e => hj e.symm
        simp [ha, hj, h1]
    · by_cases hj : j = s.idx
      · have h2 : ¬ a.idx = j := fun e => ha (by rw [e, hj])
        simp [ha, hj]
      · simp [ha, hj]

theorem any_setSeries (d : Db) (s : HSeries) (j : Nat) :
    (d.setSeries s).series.any (·.idx = j) = (decide (j = s.idx) || d.series.any (·.idx = j)) := by
  unfold Db.setSeries
  split
  · rename_i hany
    simp only
    rw [any_map_replace]
    by_cases hj : j = s.idx
    · subst hj; simp [hany]
    · simp [hj]
  · simp only [List.any_append, List.any_cons, List.any_nil, Bool.or_false]
    by_cases hj : j = s.idx
    · subst hj; simp
    · have h1 : ¬ s.idx = j := fun e => hj e.symm
      simp [hj, h1]

theorem reIns_idx (s : HSeries) (x : Smp) : (reIns s x).idx = s.idx := by
  unfold reIns
  split
  · split <;> rfl
  · rfl

theorem reIns_tombs (s : HSeries) (x : Smp) : (reIns s x).tombs = s.tombs := by
  unfold reIns
  split
  · split <;> rfl
  · rfl

theorem reIns_stored {s : HSeries} {x : Smp} (h : ∀ l, s.phys.getLast? = some l → l.t < x.t) :
    reIns s x = { s with phys := s.phys ++ [x] } := by
  unfold reIns
  split
  · rename_i l hl
    have := h l hl
    have h2 : ¬ l.t ≥ x.t := by omega
    simp [h2]
  · rename_i hn
    have : s.phys = [] := by simpa using hn
    simp [this]

theorem reIns_skipped {s : HSeries} {x l : Smp} (hl : s.phys.getLast? = some l) (h : x.t ≤ l.t) :
    reIns s x = s := by
  unfold reIns
  rw [hl]
  have : l.t ≥ x.t := h
  simp [this]

theorem reIns_phys_cases (s : HSeries) (x : Smp) :
    (reIns s x).phys = s.phys ∨
      ((reIns s x).phys = s.phys ++ [x] ∧ ∀ l, s.phys.getLast? = some l → l.t < x.t) := by
  cases hl : s.phys.getLast? with
  | none =>
    right
    have hst : ∀ l, s.phys.getLast? = some l → l.t < x.t := by
      intro l h; rw [hl] at h; cases h
    rw [reIns_stored hst]
    exact ⟨rfl, fun l h => by cases h⟩
  | some l =>
    by_cases h : x.t ≤ l.t
    · left; rw [reIns_skipped hl h]
    · right
      have hst : ∀ l', s.phys.getLast? = some l' → l'.t < x.t := by
        intro l' h'; rw [hl] at h'; cases h'; omega
      rw [reIns_stored hst]
      exact ⟨rfl, fun l' h' => by cases h'; omega⟩

/-! ### 2. Step characterisations (function view) -/

theorem reSmp_getSeries (c : Int) (acc : Db × Int × Int) (p : Nat × Smp) (j : Nat) :
    (reSmp c acc p).1.getSeries j =
      if c ≤ p.2.t ∧ j = p.1 then reIns (acc.1.getSeries j) p.2 else acc.1.getSeries j := by
  unfold reSmp
  split
  · rename_i hlt
    have : ¬ (c ≤ p.2.t ∧ j = p.1) := fun h => by omega
    rw [if_neg this]
  · rename_i hge
    dsimp only
    rw [getSeries_setSeries, reIns_idx, getSeries_idx]
    have hc : c ≤ p.2.t := by omega
    by_cases hj : j = p.1
    · subst hj; simp [hc]
    · simp [hj]

theorem reSmp_lohi (c : Int) (acc : Db × Int × Int) (p : Nat × Smp) :
    (reSmp c acc p).2 =
      if p.2.t < c then acc.2 else (min acc.2.1 p.2.t, max acc.2.2 p.2.t) := by
  unfold reSmp
  split <;> rfl

theorem reStone_getSeries (c : Int) (h : Db) (p : Nat × Interval) (j : Nat) :
    (reStone c h p).getSeries j =
      if c ≤ p.2.maxt ∧ j = p.1 ∧ h.series.any (·.idx = j) = true then
        { h.getSeries j with tombs := addTomb (h.getSeries j).tombs p.2 } else h.getSeries j := by
  unfold reStone
  split
  · rename_i hlt
    have : ¬ (c ≤ p.2.maxt ∧ j = p.1 ∧ h.series.any (·.idx = j) = true) := fun h => by omega
    rw [if_neg this]
  · rename_i hge
    have hc : c ≤ p.2.maxt := by omega
    split
    · rename_i hany
      rw [getSeries_setSeries]
      dsimp only
      by_cases hj : j = p.1
      · subst hj; simp [hc, hany, getSeries_idx]
      · simp [hj, getSeries_idx]
    · rename_i hany
      by_cases hj : j = p.1
      · subst hj; simp [hany]
      · simp [hj]

/-- The components of a `Db` other than `series` agree. -/
@[reducible] def Db.sameFields (a b : Db) : Prop :=
  a.blocks = b.blocks ∧ a.cfg = b.cfg ∧ a.minT = b.minT ∧ a.maxT = b.maxT ∧
    a.minValid = b.minValid ∧ a.wal = b.wal ∧ a.app = b.app

theorem Db.sameFields.refl (a : Db) : a.sameFields a := ⟨rfl, rfl, rfl, rfl, rfl, rfl, rfl⟩

theorem Db.sameFields.trans {a b d : Db} (h1 : a.sameFields b) (h2 : b.sameFields d) :
    a.sameFields d := by
  obtain ⟨a1, a2, a3, a4, a5, a6, a7⟩ := h1
  obtain ⟨b1, b2, b3, b4, b5, b6, b7⟩ := h2
  exact ⟨a1.trans b1, a2.trans b2, a3.trans b3, a4.trans b4, a5.trans b5, a6.trans b6, a7.trans b7⟩

theorem setSeries_sameFields (d : Db) (s : HSeries) : (d.setSeries s).sameFields d :=
  ⟨setSeries_blocks d s, setSeries_cfg d s, setSeries_minT d s, setSeries_maxT d s,
   setSeries_minValid d s, setSeries_wal d s, setSeries_app d s⟩

theorem reSmp_fields (c : Int) (acc : Db × Int × Int) (p : Nat × Smp) :
    (reSmp c acc p).1.blocks = acc.1.blocks ∧ (reSmp c acc p).1.cfg = acc.1.cfg ∧
    (reSmp c acc p).1.minT = acc.1.minT ∧ (reSmp c acc p).1.maxT = acc.1.maxT ∧
    (reSmp c acc p).1.minValid = acc.1.minValid ∧ (reSmp c acc p).1.wal = acc.1.wal ∧
    (reSmp c acc p).1.app = acc.1.app := by
  unfold reSmp
  split
  · exact Db.sameFields.refl _
  · exact setSeries_sameFields _ _

theorem reStone_fields (c : Int) (h : Db) (p : Nat × Interval) :
    (reStone c h p).blocks = h.blocks ∧ (reStone c h p).cfg = h.cfg ∧
    (reStone c h p).minT = h.minT ∧ (reStone c h p).maxT = h.maxT ∧
    (reStone c h p).minValid = h.minValid ∧ (reStone c h p).wal = h.wal ∧
    (reStone c h p).app = h.app := by
  unfold reStone
  split
  · exact Db.sameFields.refl _
  · split
    · exact setSeries_sameFields _ _
    · exact Db.sameFields.refl _

/-- Invariants of a left fold. -/
theorem foldl_inv {α β : Type} (P : α → Prop) (f : α → β → α) (hf : ∀ a b, P a → P (f a b)) :
    ∀ (l : List β) (a : α), P a → P (l.foldl f a) := by
  intro l
  induction l with
  | nil => intro a ha; exact ha
  | cons b bs ih => intro a ha; rw [List.foldl_cons]; exact ih _ (hf a b ha)

theorem reRec_fields (c : Int) (acc : Db × Int × Int) (r : Rec) :
    (reRec c acc r).1.blocks = acc.1.blocks ∧ (reRec c acc r).1.cfg = acc.1.cfg ∧
    (reRec c acc r).1.minT = acc.1.minT ∧ (reRec c acc r).1.maxT = acc.1.maxT ∧
    (reRec c acc r).1.minValid = acc.1.minValid ∧ (reRec c acc r).1.wal = acc.1.wal ∧
    (reRec c acc r).1.app = acc.1.app := by
  cases r with
  | samples xs =>
    exact foldl_inv (fun a : Db × Int × Int => a.1.sameFields acc.1) (reSmp c)
      (fun a b ha => Db.sameFields.trans (reSmp_fields c a b) ha) xs acc (Db.sameFields.refl _)
  | stones xs =>
    exact foldl_inv (fun a : Db => a.sameFields acc.1) (reStone c)
      (fun a b ha => Db.sameFields.trans (reStone_fields c a b) ha) xs acc.1 (Db.sameFields.refl _)

theorem reFold_fields (c : Int) (base : Db) (wal : List Rec) :
    (reFold c base wal).1.blocks = base.blocks ∧ (reFold c base wal).1.cfg = base.cfg ∧
    (reFold c base wal).1.minT = base.minT ∧ (reFold c base wal).1.maxT = base.maxT ∧
    (reFold c base wal).1.minValid = base.minValid ∧ (reFold c base wal).1.wal = base.wal ∧
    (reFold c base wal).1.app = base.app :=
  foldl_inv (fun a : Db × Int × Int => a.1.sameFields base) (reRec c)
    (fun a b ha => Db.sameFields.trans (reRec_fields c a b) ha) wal (base, MaxI64, MinI64)
    (Db.sameFields.refl _)

/-! ### 3. Structural invariant of the replayed head -/

structure RInv (c : Int) (h : Db) : Prop where
  idxNodup : h.series.Pairwise (fun s s' => s.idx ≠ s'.idx)
  physInc : ∀ s ∈ h.series, SInc s.phys
  physNe : ∀ s ∈ h.series, s.phys ≠ []
  physGe : ∀ s ∈ h.series, ∀ x ∈ s.phys, c ≤ x.t

theorem RInv.of_nil (c : Int) {h : Db} (hs : h.series = []) : RInv c h := by
  constructor
  · rw [hs]; exact List.Pairwise.nil
  · intro s hm; rw [hs] at hm; cases hm
  · intro s hm; rw [hs] at hm; cases hm
  · intro s hm; rw [hs] at hm; cases hm

theorem RInv.getSeries_sinc {c : Int} {h : Db} (hR : RInv c h) (i : Nat) :
    SInc (h.getSeries i).phys := by
  rcases getSeries_cases h i with hc | hc
  · exact hR.physInc _ hc.1
  · rw [hc.2]; exact List.Pairwise.nil

theorem RInv.getSeries_ge {c : Int} {h : Db} (hR : RInv c h) (i : Nat) :
    ∀ x ∈ (h.getSeries i).phys, c ≤ x.t := by
  rcases getSeries_cases h i with hc | hc
  · exact hR.physGe _ hc.1
  · rw [hc.2]; intro x hx; cases hx

theorem RInv.any_iff {c : Int} {h : Db} (hR : RInv c h) (j : Nat) :
    h.series.any (·.idx = j) = true ↔ (h.getSeries j).phys ≠ [] := by
  constructor
  · intro hany
    simp only [List.any_eq_true, decide_eq_true_eq] at hany
    obtain ⟨s, hs, hsj⟩ := hany
    rcases getSeries_cases h j with hc | hc
    · exact hR.physNe _ hc.1
    · exact absurd hsj (hc.1 s hs)
  · intro hne
    rcases getSeries_cases h j with hc | hc
    · simp only [List.any_eq_true, decide_eq_true_eq]
      exact ⟨_, hc.1, hc.2⟩
    · rw [hc.2] at hne; exact absurd rfl hne

theorem reIns_phys_ne (s : HSeries) (x : Smp) : (reIns s x).phys ≠ [] := by
  unfold reIns
  split
  · rename_i l hl
    split
    · intro e; rw [e] at hl; cases hl
    · simp
  · simp

theorem reIns_mem {s : HSeries} {x y : Smp} (h : y ∈ (reIns s x).phys) : y ∈ s.phys ∨ y = x := by
  rcases reIns_phys_cases s x with e | ⟨e, _⟩
  · left; rw [← e]; exact h
  · rw [e, List.mem_append] at h
    rcases h with h | h
    · left; exact h
    · right; simpa using h

theorem SInc.lt_of_getLast_lt {xs : List Smp} (h : SInc xs) {x : Smp}
    (hl : ∀ l, xs.getLast? = some l → l.t < x.t) : ∀ y ∈ xs, y.t < x.t := by
  intro y hy
  cases hx : xs.getLast? with
  | none =>
    have : xs = [] := by simpa using hx
    rw [this] at hy; cases hy
  | some l =>
    have h1 := h.le_getLast hx y hy
    have h2 := hl l hx
    omega

theorem reIns_sinc {s : HSeries} (h : SInc s.phys) (x : Smp) : SInc (reIns s x).phys := by
  rcases reIns_phys_cases s x with e | ⟨e, hl⟩
  · rw [e]; exact h
  · rw [e]; exact h.append_one (h.lt_of_getLast_lt hl)

theorem reSmp_RInv (c : Int) (acc : Db × Int × Int) (p : Nat × Smp) (hR : RInv c acc.1) :
    RInv c (reSmp c acc p).1 := by
  unfold reSmp
  split
  · exact hR
  · rename_i hge
    have hc : c ≤ p.2.t := by omega
    dsimp only
    constructor
    · exact nodup_setSeries hR.idxNodup _
    · intro s hs
      rw [mem_setSeries] at hs
      rcases hs with rfl | ⟨hs, _⟩
      · exact reIns_sinc (hR.getSeries_sinc _) _
      · exact hR.physInc s hs
    · intro s hs
      rw [mem_setSeries] at hs
      rcases hs with rfl | ⟨hs, _⟩
      · exact reIns_phys_ne _ _
      · exact hR.physNe s hs
    · intro s hs
      rw [mem_setSeries] at hs
      rcases hs with rfl | ⟨hs, _⟩
      · intro x hx
        rcases reIns_mem hx with hx | rfl
        · exact hR.getSeries_ge _ x hx
        · exact hc
      · exact hR.physGe s hs

theorem reStone_RInv (c : Int) (h : Db) (p : Nat × Interval) (hR : RInv c h) :
    RInv c (reStone c h p) := by
  unfold reStone
  split
  · exact hR
  · split
    · rename_i hany
      have hne := (hR.any_iff p.1).1 hany
      constructor
      · exact nodup_setSeries hR.idxNodup _
      · intro s hs
        rw [mem_setSeries] at hs
        rcases hs with rfl | ⟨hs, _⟩
        · exact hR.getSeries_sinc _
        · exact hR.physInc s hs
      · intro s hs
        rw [mem_setSeries] at hs
        rcases hs with rfl | ⟨hs, _⟩
        · exact hne
        · exact hR.physNe s hs
      · intro s hs
        rw [mem_setSeries] at hs
        rcases hs with rfl | ⟨hs, _⟩
        · exact hR.getSeries_ge _
        · exact hR.physGe s hs
    · exact hR

theorem reRec_RInv (c : Int) (acc : Db × Int × Int) (r : Rec) (hR : RInv c acc.1) :
    RInv c (reRec c acc r).1 := by
  cases r with
  | samples xs =>
    exact foldl_inv (fun a : Db × Int × Int => RInv c a.1) (reSmp c)
      (fun a b ha => reSmp_RInv c a b ha) xs acc hR
  | stones xs =>
    exact foldl_inv (fun a : Db => RInv c a) (reStone c)
      (fun a b ha => reStone_RInv c a b ha) xs acc.1 hR

theorem reFold_RInv (c : Int) (base : Db) (hb : base.series = []) (wal : List Rec) :
    RInv c (reFold c base wal).1 :=
  foldl_inv (fun a : Db × Int × Int => RInv c a.1) (reRec c)
    (fun a b ha => reRec_RInv c a b ha) wal (base, MaxI64, MinI64) (RInv.of_nil c hb)

theorem RInv.getSeries_of_mem {c : Int} {h : Db} (hR : RInv c h) {s : HSeries} (hs : s ∈ h.series) :
    h.getSeries s.idx = s :=
  Prom.Db.getSeries_of_mem hR.idxNodup hs

/-! #### Stones do not touch the physical samples -/

theorem reStone_phys (c : Int) (h : Db) (p : Nat × Interval) (j : Nat) :
    ((reStone c h p).getSeries j).phys = (h.getSeries j).phys := by
  rw [reStone_getSeries]
  split <;> rfl

theorem foldl_reStone_phys (c : Int) (xs : List (Nat × Interval)) (h : Db) (j : Nat) :
    ((xs.foldl (reStone c) h).getSeries j).phys = (h.getSeries j).phys := by
  induction xs generalizing h with
  | nil => rfl
  | cons p ps ih => rw [List.foldl_cons, ih, reStone_phys]

theorem getSeries_nil {h : Db} (hs : h.series = []) (j : Nat) : h.getSeries j = ⟨j, [], []⟩ := by
  unfold Db.getSeries; rw [hs]; rfl

/-! #### A predicate on all replayed physical samples (function view) -/

theorem reSmp_phys_all (Q : Nat → Smp → Prop) (c : Int) (acc : Db × Int × Int) (p : Nat × Smp)
    (hp : c ≤ p.2.t → Q p.1 p.2)
    (hacc : ∀ j, ∀ x ∈ (acc.1.getSeries j).phys, Q j x) :
    ∀ j, ∀ x ∈ ((reSmp c acc p).1.getSeries j).phys, Q j x := by
  intro j x hx
  rw [reSmp_getSeries] at hx
  split at hx
  · rename_i hc
    rcases reIns_mem hx with hx | rfl
    · exact hacc j x hx
    · rw [hc.2]; exact hp hc.1
  · exact hacc j x hx

theorem foldl_reSmp_phys_all (Q : Nat → Smp → Prop) (c : Int) (xs : List (Nat × Smp))
    (acc : Db × Int × Int)
    (hp : ∀ p ∈ xs, c ≤ p.2.t → Q p.1 p.2)
    (hacc : ∀ j, ∀ x ∈ (acc.1.getSeries j).phys, Q j x) :
    ∀ j, ∀ x ∈ ((xs.foldl (reSmp c) acc).1.getSeries j).phys, Q j x := by
  induction xs generalizing acc with
  | nil => exact hacc
  | cons p ps ih =>
    rw [List.foldl_cons]
    apply ih
    · intro q hq; exact hp q (List.mem_cons_of_mem _ hq)
    · exact reSmp_phys_all Q c acc p (hp p (List.mem_cons_self ..)) hacc

theorem reRec_phys_all (Q : Nat → Smp → Prop) (c : Int) (acc : Db × Int × Int) (r : Rec)
    (hp : ∀ xs, r = Rec.samples xs → ∀ p ∈ xs, c ≤ p.2.t → Q p.1 p.2)
    (hacc : ∀ j, ∀ x ∈ (acc.1.getSeries j).phys, Q j x) :
    ∀ j, ∀ x ∈ ((reRec c acc r).1.getSeries j).phys, Q j x := by
  cases r with
  | samples xs => exact foldl_reSmp_phys_all Q c xs acc (hp xs rfl) hacc
  | stones xs =>
    intro j x hx
    have : (reRec c acc (Rec.stones xs)).1 = xs.foldl (reStone c) acc.1 := rfl
    rw [this, foldl_reStone_phys] at hx
    exact hacc j x hx

theorem foldl_reRec_phys_all (Q : Nat → Smp → Prop) (c : Int) (wal : List Rec)
    (acc : Db × Int × Int)
    (hp : ∀ xs, Rec.samples xs ∈ wal → ∀ p ∈ xs, c ≤ p.2.t → Q p.1 p.2)
    (hacc : ∀ j, ∀ x ∈ (acc.1.getSeries j).phys, Q j x) :
    ∀ j, ∀ x ∈ ((wal.foldl (reRec c) acc).1.getSeries j).phys, Q j x := by
  induction wal generalizing acc with
  | nil => exact hacc
  | cons r rs ih =>
    rw [List.foldl_cons]
    apply ih
    · intro xs hxs; exact hp xs (List.mem_cons_of_mem _ hxs)
    · apply reRec_phys_all Q c acc r _ hacc
      intro xs e; rw [e] at hp; exact hp xs (List.mem_cons_self ..)

/-- Every replayed physical sample is a logged sample at or above the cutoff. -/
theorem reFold_phys_from_wal' (c : Int) (base : Db) (hb : base.series = []) (wal : List Rec) :
    ∀ j, ∀ x ∈ ((reFold c base wal).1.getSeries j).phys,
      ∃ xs, Rec.samples xs ∈ wal ∧ (j, x) ∈ xs := by
  apply foldl_reRec_phys_all (fun j x => ∃ xs, Rec.samples xs ∈ wal ∧ (j, x) ∈ xs) c wal
  · intro xs hxs p hp _; exact ⟨xs, hxs, hp⟩
  · intro j x hx
    rw [getSeries_nil hb] at hx; cases hx

theorem reFold_phys_from_wal (c : Int) (base : Db) (hb : base.series = []) (wal : List Rec) :
    ∀ s ∈ (reFold c base wal).1.series, ∀ x ∈ s.phys,
      ∃ xs, Rec.samples xs ∈ wal ∧ (s.idx, x) ∈ xs := by
  intro s hs x hx
  have hR := reFold_RInv c base hb wal
  apply reFold_phys_from_wal' c base hb wal s.idx x
  rw [hR.getSeries_of_mem hs]; exact hx

/-! #### lo/hi bounds -/

/-- The bound invariant of the accumulator (function view). -/
def RBd (c : Int) (acc : Db × Int × Int) : Prop :=
  (∀ j, ∀ x ∈ (acc.1.getSeries j).phys, acc.2.1 ≤ x.t ∧ x.t ≤ acc.2.2) ∧
    acc.2.1 ≤ MaxI64 ∧ MinI64 ≤ acc.2.2 ∧ (acc.2.1 = MaxI64 ∨ c ≤ acc.2.1)

theorem reSmp_RBd (c : Int) (acc : Db × Int × Int) (p : Nat × Smp) (h : RBd c acc) :
    RBd c (reSmp c acc p) := by
  obtain ⟨h1, h2, h3, h4⟩ := h
  by_cases hlt : p.2.t < c
  · have e : reSmp c acc p = acc := by unfold reSmp; rw [if_pos hlt]
    rw [e]; exact ⟨h1, h2, h3, h4⟩
  · have e := reSmp_lohi c acc p
    rw [if_neg hlt] at e
    have e1 : (reSmp c acc p).2.1 = min acc.2.1 p.2.t := by rw [e]
    have e2 : (reSmp c acc p).2.2 = max acc.2.2 p.2.t := by rw [e]
    refine ⟨?_, ?_, ?_, ?_⟩
    · intro j x hx
      rw [e1, e2]
      rw [reSmp_getSeries] at hx
      split at hx
      · rcases reIns_mem hx with hx | rfl
        · have := h1 j x hx; omega
        · omega
      · have := h1 j x hx; omega
    · rw [e1]; omega
    · rw [e2]; omega
    · rw [e1]; omega

theorem reRec_RBd (c : Int) (acc : Db × Int × Int) (r : Rec) (h : RBd c acc) :
    RBd c (reRec c acc r) := by
  cases r with
  | samples xs => exact foldl_inv (RBd c) (reSmp c) (fun a b ha => reSmp_RBd c a b ha) xs acc h
  | stones xs =>
    obtain ⟨h1, h2, h3, h4⟩ := h
    refine ⟨?_, h2, h3, h4⟩
    intro j x hx
    have : (reRec c acc (Rec.stones xs)).1 = xs.foldl (reStone c) acc.1 := rfl
    rw [this, foldl_reStone_phys] at hx
    exact h1 j x hx

theorem reFold_RBd (c : Int) (base : Db) (hb : base.series = []) (wal : List Rec) :
    RBd c (reFold c base wal) := by
  apply foldl_inv (RBd c) (reRec c) (fun a b ha => reRec_RBd c a b ha) wal
  refine ⟨?_, Int.le_refl _, Int.le_refl _, Or.inl rfl⟩
  intro j x hx
  rw [getSeries_nil hb] at hx; cases hx

theorem reFold_bounds (c : Int) (base : Db) (hb : base.series = []) (wal : List Rec) :
    (∀ s ∈ (reFold c base wal).1.series, ∀ x ∈ s.phys,
        (reFold c base wal).2.1 ≤ x.t ∧ x.t ≤ (reFold c base wal).2.2) ∧
      (reFold c base wal).2.1 ≤ MaxI64 ∧ MinI64 ≤ (reFold c base wal).2.2 ∧
      ((reFold c base wal).2.1 = MaxI64 ∨ c ≤ (reFold c base wal).2.1) := by
  obtain ⟨h1, h2, h3, h4⟩ := reFold_RBd c base hb wal
  refine ⟨?_, h2, h3, h4⟩
  intro s hs x hx
  have hR := reFold_RInv c base hb wal
  apply h1 s.idx x
  rw [hR.getSeries_of_mem hs]; exact hx

/-! ### 4. Cutoff monotonicity of the physical samples -/

theorem getLast?_filter_of_pos {α : Type} (q : α → Bool) {xs : List α} {l : α}
    (hl : xs.getLast? = some l) (hq : q l = true) : (xs.filter q).getLast? = some l := by
  rcases List.eq_nil_or_concat xs with e | ⟨L, b, e⟩
  · subst e; simp at hl
  · subst e
    simp at hl; subst hl
    simp [List.filter_append, hq]

/-- The lockstep relation between the `c`-replay `h` and the `c'`-replay `h'`. -/
def RMono (c' : Int) (h h' : Db) : Prop :=
  ∀ j, (h'.getSeries j).phys = ((h.getSeries j).phys.filter fun x => decide (c' ≤ x.t))

theorem reIns_filter_lockstep (c' : Int) {g g' : HSeries} {x : Smp} (hs : SInc g.phys)
    (hx : c' ≤ x.t) (hrel : g'.phys = g.phys.filter fun y => decide (c' ≤ y.t)) :
    (reIns g' x).phys = (reIns g x).phys.filter fun y => decide (c' ≤ y.t) := by
  cases hl : g.phys.getLast? with
  | none =>
    have hg : g.phys = [] := by simpa using hl
    have hg' : g'.phys = [] := by rw [hrel, hg]; rfl
    have h1 : ∀ l, g.phys.getLast? = some l → l.t < x.t := by
      intro l h; rw [hl] at h; cases h
    have h2 : ∀ l, g'.phys.getLast? = some l → l.t < x.t := by
      intro l h; rw [hg'] at h; cases h
    rw [reIns_stored h1, reIns_stored h2]
    simp [hg, hg', hx]
  | some l =>
    by_cases hle : x.t ≤ l.t
    · have hq : (fun y : Smp => decide (c' ≤ y.t)) l = true := by
        simp only [decide_eq_true_eq]; omega
      have hl' : g'.phys.getLast? = some l := by
        rw [hrel]; exact getLast?_filter_of_pos _ hl hq
      rw [reIns_skipped hl hle, reIns_skipped hl' hle]
      exact hrel
    · have h1 : ∀ l', g.phys.getLast? = some l' → l'.t < x.t := by
        intro l' h; rw [hl] at h; cases h; omega
      have h2 : ∀ l', g'.phys.getLast? = some l' → l'.t < x.t := by
        intro l' h
        have hm : l' ∈ g'.phys := getLast?_mem h
        rw [hrel] at hm
        have hm' : l' ∈ g.phys := (List.mem_filter.1 hm).1
        have := hs.le_getLast hl l' hm'
        omega
      rw [reIns_stored h1, reIns_stored h2]
      simp [List.filter_append, hx, hrel]

theorem reSmp_RMono (c c' : Int) (hcc : c ≤ c') (a a' : Db × Int × Int) (p : Nat × Smp)
    (hR : RInv c a.1) (hrel : RMono c' a.1 a'.1) :
    RMono c' (reSmp c a p).1 (reSmp c' a' p).1 := by
  intro j
  rw [reSmp_getSeries, reSmp_getSeries]
  by_cases hj : j = p.1
  · by_cases h1 : c' ≤ p.2.t
    · have h0 : c ≤ p.2.t := by omega
      rw [if_pos ⟨h1, hj⟩, if_pos ⟨h0, hj⟩]
      exact reIns_filter_lockstep c' (hR.getSeries_sinc j) h1 (hrel j)
    · have hn : ¬ (c' ≤ p.2.t ∧ j = p.1) := fun h => h1 h.1
      rw [if_neg hn]
      by_cases h0 : c ≤ p.2.t
      · rw [if_pos ⟨h0, hj⟩]
        rcases reIns_phys_cases (a.1.getSeries j) p.2 with e | ⟨e, _⟩
        · rw [e]; exact hrel j
        · rw [e, List.filter_append]
          have : ([p.2].filter fun x => decide (c' ≤ x.t)) = [] := by simp [h1]
          rw [this, List.append_nil]; exact hrel j
      · have hn0 : ¬ (c ≤ p.2.t ∧ j = p.1) := fun h => h0 h.1
        rw [if_neg hn0]; exact hrel j
  · have hn : ¬ (c' ≤ p.2.t ∧ j = p.1) := fun h => hj h.2
    have hn0 : ¬ (c ≤ p.2.t ∧ j = p.1) := fun h => hj h.2
    rw [if_neg hn, if_neg hn0]; exact hrel j

theorem foldl_reSmp_RMono (c c' : Int) (hcc : c ≤ c') (xs : List (Nat × Smp))
    (a a' : Db × Int × Int) (hR : RInv c a.1) (hrel : RMono c' a.1 a'.1) :
    RMono c' (xs.foldl (reSmp c) a).1 (xs.foldl (reSmp c') a').1 := by
  induction xs generalizing a a' with
  | nil => exact hrel
  | cons p ps ih =>
    rw [List.foldl_cons, List.foldl_cons]
    exact ih _ _ (reSmp_RInv c a p hR) (reSmp_RMono c c' hcc a a' p hR hrel)

theorem reRec_RMono (c c' : Int) (hcc : c ≤ c') (a a' : Db × Int × Int) (r : Rec)
    (hR : RInv c a.1) (hrel : RMono c' a.1 a'.1) :
    RMono c' (reRec c a r).1 (reRec c' a' r).1 := by
  cases r with
  | samples xs => exact foldl_reSmp_RMono c c' hcc xs a a' hR hrel
  | stones xs =>
    intro j
    have e1 : (reRec c a (Rec.stones xs)).1 = xs.foldl (reStone c) a.1 := rfl
    have e2 : (reRec c' a' (Rec.stones xs)).1 = xs.foldl (reStone c') a'.1 := rfl
    rw [e1, e2, foldl_reStone_phys, foldl_reStone_phys]
    exact hrel j

theorem foldl_reRec_RMono (c c' : Int) (hcc : c ≤ c') (wal : List Rec)
    (a a' : Db × Int × Int) (hR : RInv c a.1) (hrel : RMono c' a.1 a'.1) :
    RMono c' (wal.foldl (reRec c) a).1 (wal.foldl (reRec c') a').1 := by
  induction wal generalizing a a' with
  | nil => exact hrel
  | cons r rs ih =>
    rw [List.foldl_cons, List.foldl_cons]
    exact ih _ _ (reRec_RInv c a r hR) (reRec_RMono c c' hcc a a' r hR hrel)

theorem reFold_phys_mono (c c' : Int) (hcc : c ≤ c') (base : Db) (hb : base.series = [])
    (wal : List Rec) (j : Nat) :
    ((reFold c' base wal).1.getSeries j).phys =
      (((reFold c base wal).1.getSeries j).phys.filter fun x => decide (c' ≤ x.t)) := by
  apply foldl_reRec_RMono c c' hcc wal (base, MaxI64, MinI64) (base, MaxI64, MinI64)
    (RInv.of_nil c hb)
  intro i
  show (base.getSeries i).phys = _
  rw [getSeries_nil hb]; rfl

end Prom.Db
