import PromProofs.IsoInv
/-
  C05 helper lemmas about runs: the invariant along a trace, stability of a reader's snapshot, samples
  only ever get appended, and what a reader sees in an invariant state.
-/
namespace Prom.Iso

theorem inv_run {σ σ' : St} (tr : List Act) (h : Inv σ) (hr : run σ tr = some σ') : Inv σ' := by
  induction tr generalizing σ with
  | nil => simp only [run] at hr; cases hr; exact h
  | cons a rest ih =>
    simp only [run] at hr
    split at hr
    · rename_i σ1 hs; exact ih (inv_step h hs) hr
    · cases hr

theorem run_append {σ : St} (tr1 tr2 : List Act) :
    run σ (tr1 ++ tr2) = (run σ tr1).bind fun σ1 => run σ1 tr2 := by
  induction tr1 generalizing σ with
  | nil => rfl
  | cons a rest ih =>
    simp only [List.cons_append, run]
    split
    · exact ih
    · rfl

theorem find?_filter_ne {α} (l : List (Nat × α)) (key key' : Nat) (h : key ≠ key') :
    (l.filter (·.1 != key')).find? (·.1 == key) = l.find? (·.1 == key) := by
  induction l with
  | nil => rfl
  | cons a rest ih =>
    simp only [List.filter_cons]
    by_cases e : a.1 = key'
    · have hne : ¬ a.1 = key := by intro h'; exact h (h'.symm.trans e)
      simp [e, ih, List.find?_cons]
      have : (key' == key) = false := by simpa using fun h' => h h'.symm
      simp [this]
    · simp [e, List.find?_cons, ih]

/-- A reader's snapshot does not change while it is open. -/
theorem reader_stable_step {σ σ' : St} {act : Act} {key : Nat} {r : Reader}
    (hr : σ.reader? key = some r) (hs : step σ act = some σ') (hne : act ≠ .closeReader key) :
    σ'.reader? key = some r := by
  cases act with
  | cut s => simp only [step] at hs; split at hs <;> cases hs; exact hr
  | mmap s => simp only [step] at hs; split at hs <;> cases hs; exact hr
  | cleanup id s =>
    simp only [step] at hs
    split at hs
    · cases hs
    · split at hs <;> cases hs; exact hr
  | commitNext id =>
    simp only [step] at hs
    split at hs
    · cases hs
    · split at hs
      · cases hs
      · split at hs <;> cases hs; exact hr
  | closeAppend id => simp only [step] at hs; split at hs <;> cases hs; exact hr
  | newAppender p => simp only [step] at hs; cases hs; exact hr
  | newReader key' =>
    simp only [step] at hs
    split at hs
    · cases hs
    · cases hs
      unfold St.reader? at *
      simp only [Option.map_eq_some_iff] at *
      obtain ⟨kr, hk, rfl⟩ := hr
      exact ⟨kr, by rw [List.find?_append, hk]; rfl, rfl⟩
  | closeReader key' =>
    have hk : key ≠ key' := by intro e; subst e; exact hne rfl
    simp only [step] at hs
    split at hs
    · cases hs
      unfold St.reader? at *
      simp only
      rw [find?_filter_ne _ _ _ hk]; exact hr
    · cases hs

theorem reader_stable_run {σ σ' : St} {key : Nat} {r : Reader} (tr : List Act)
    (hr : σ.reader? key = some r) (hs : run σ tr = some σ') (hne : Act.closeReader key ∉ tr) :
    σ'.reader? key = some r := by
  induction tr generalizing σ with
  | nil => simp only [run] at hs; cases hs; exact hr
  | cons a rest ih =>
    simp only [run] at hs
    split at hs
    · rename_i σ1 h1
      exact ih (reader_stable_step hr h1 (fun e => hne (by simp [e]))) hs (fun h => hne (List.mem_cons_of_mem _ h))
    · cases hs

/-- Samples are only ever appended. -/
theorem samples_prefix_step {σ σ' : St} {act : Act} (s : Nat) (hs : step σ act = some σ') :
    ∃ ext, (σ'.ser s).samples = (σ.ser s).samples ++ ext := by
  have same : ∀ k x, x.samples = (σ.ser k).samples → k < σ.series.length →
      ∃ ext, ((σ.setSer k x).ser s).samples = (σ.ser s).samples ++ ext := by
    intro k x hx hk
    by_cases e : k = s
    · subst e; rw [ser_setSer_same _ _ _ hk]; exact ⟨[], by simp [hx]⟩
    · rw [ser_setSer_ne _ _ _ _ e]; exact ⟨[], by simp⟩
  cases act with
  | cut k => simp only [step] at hs; split at hs <;> cases hs; exact same _ _ rfl ‹_›
  | mmap k =>
    simp only [step] at hs; split at hs <;> cases hs
    exact same _ _ (by unfold Series.mmapChunks; split <;> rfl) ‹_›
  | cleanup id k =>
    simp only [step] at hs
    split at hs
    · cases hs
    · split at hs <;> cases hs; exact same _ _ rfl ‹_›
  | commitNext id =>
    simp only [step] at hs
    split at hs
    · cases hs
    · split at hs
      · cases hs
      · rename_i p rest _
        split at hs
        · rename_i hlt
          cases hs
          show ∃ ext, ((σ.setSer p.s _).ser s).samples = _
          by_cases e : p.s = s
          · subst e; rw [ser_setSer_same _ _ _ hlt]
            split
            · exact ⟨[_], rfl⟩
            · exact ⟨[], by simp [Series.cleanup]⟩
          · rw [ser_setSer_ne _ _ _ _ e]; exact ⟨[], by simp⟩
        · cases hs
  | closeAppend id => simp only [step] at hs; split at hs <;> cases hs; exact ⟨[], by simp [St.ser]⟩
  | newAppender p => simp only [step] at hs; cases hs; exact ⟨[], by simp [St.ser]⟩
  | newReader key => simp only [step] at hs; split at hs <;> cases hs; exact ⟨[], by simp [St.ser]⟩
  | closeReader key => simp only [step] at hs; split at hs <;> cases hs; exact ⟨[], by simp [St.ser]⟩

theorem samples_prefix_run {σ σ' : St} (tr : List Act) (s : Nat) (hs : run σ tr = some σ') :
    ∃ ext, (σ'.ser s).samples = (σ.ser s).samples ++ ext := by
  induction tr generalizing σ with
  | nil => simp only [run] at hs; cases hs; exact ⟨[], by simp⟩
  | cons a rest ih =>
    simp only [run] at hs
    split at hs
    · rename_i σ1 h1
      obtain ⟨e1, h1'⟩ := samples_prefix_step s h1
      obtain ⟨e2, h2'⟩ := ih hs
      exact ⟨e1 ++ e2, by rw [h2', h1', List.append_assoc]⟩
    · cases hs

theorem series_length_step {σ σ' : St} {act : Act} (hs : step σ act = some σ') : σ'.series.length = σ.series.length := by
  cases act <;> simp only [step] at hs
  all_goals (repeat' split at hs) <;> first | cases hs | skip
  all_goals first | rfl | simp [St.setSer]

/-- In an invariant state an open reader sees of every series exactly the longest prefix of samples whose
    appendIDs all pass its visibility test. -/
theorem read_eq_takeWhile {σ : St} (h : Inv σ) {key : Nat} {r : Reader} (hr : σ.reader? key = some r)
    (s : Nat) (hs : s < σ.series.length) :
    σ.read key s = (σ.ser s).samples.takeWhile fun x => r.vis x.id := by
  unfold St.read
  rw [hr]
  have hmem := reader?_some hr
  have ok := h.readers_ok _ hmem
  apply read_spec _ _ (h.series_wf s hs)
  intro x hx
  have := (h.untracked_safe s hs x hx).1 _ hmem
  exact ok.vis_below (Nat.lt_of_succ_le this)

theorem readChunk_eq {σ : St} (h : Inv σ) {key : Nat} {r : Reader} (hr : σ.reader? key = some r)
    (s ix : Nat) (hs : s < σ.series.length) (hix : ix < (σ.ser s).layout.length) :
    (σ.ser s).readChunk r ix =
      (((σ.ser s).samples.takeWhile fun x => r.vis x.id).drop ((σ.ser s).layout.take ix).sum).take ((σ.ser s).layout.getD ix 0) := by
  have hmem := reader?_some hr
  have ok := h.readers_ok _ hmem
  apply readChunk_spec _ _ _ (h.series_wf s hs) _ hix
  intro x hx
  have := (h.untracked_safe s hs x hx).1 _ hmem
  exact ok.vis_below (Nat.lt_of_succ_le this)

end Prom.Iso
