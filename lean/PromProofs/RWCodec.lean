import PromModel.Remote.WriteHandler
/-
  Helper lemmas for PromProps/C41.lean: the v2 symbol table and label codec.
-/
namespace Prom.RW

section Sym
variable {α : Type} [DecidableEq α]

theorem findIdx_some {s : α} {l : List α} {i : Nat} (h : findIdx s l = some i) : l[i]? = some s := by
  induction l generalizing i with
  | nil => simp [findIdx] at h
  | cons x xs ih =>
    unfold findIdx at h
    by_cases e : x = s
    · simp [e] at h; subst h; simp [e]
    · simp [e] at h
      obtain ⟨j, hj, rfl⟩ := h
      simpa using ih hj

theorem findIdx_none {s : α} {l : List α} (h : findIdx s l = none) : s ∉ l := by
  induction l with
  | nil => simp
  | cons x xs ih =>
    unfold findIdx at h
    by_cases e : x = s
    · simp [e] at h
    · simp [e] at h
      simp only [List.mem_cons, not_or]
      exact ⟨fun e' => e e'.symm, ih h⟩

theorem findIdx_lt {s : α} {l : List α} {i : Nat} (h : findIdx s l = some i) : i < l.length := by
  have := findIdx_some h
  exact (List.getElem?_eq_some_iff.mp this).1

theorem nodup_idx_unique {l : List α} (hn : l.Nodup) {i j : Nat} {s : α}
    (hi : l[i]? = some s) (hj : l[j]? = some s) : i = j := by
  induction l generalizing i j with
  | nil => simp at hi
  | cons x xs ih =>
    have hx := List.nodup_cons.mp hn
    cases i with
    | zero =>
      cases j with
      | zero => rfl
      | succ j =>
        simp at hi hj; subst hi
        exact absurd (List.mem_of_getElem? hj) hx.1
    | succ i =>
      cases j with
      | zero =>
        simp at hi hj; subst hj
        exact absurd (List.mem_of_getElem? hi) hx.1
      | succ j =>
        simp at hi hj
        rw [ih hx.2 hi hj]

/-- the table invariant: no duplicates, and the empty string at index 0 -/
def SymTab.WF (t : SymTab α) (empty : α) : Prop := t.strings.Nodup ∧ t.strings[0]? = some empty

theorem SymTab.new_wf (e : α) : (SymTab.new e).WF e := by simp [SymTab.new, SymTab.WF]

theorem symbolize_wf (t : SymTab α) (e s : α) (h : t.WF e) : (t.symbolize s).1.WF e := by
  unfold SymTab.symbolize
  cases hf : findIdx s t.strings with
  | some i => simpa using h
  | none =>
    have hn := findIdx_none hf
    refine ⟨?_, ?_⟩
    · simp only
      rw [List.nodup_append]
      refine ⟨h.1, by simp, ?_⟩
      intro a ha b hb
      simp at hb; subst hb
      intro e'; subst e'; exact hn ha
    · have h0 := h.2
      have hlen : 0 < t.strings.length := (List.getElem?_eq_some_iff.mp h0).1
      simp only
      rw [List.getElem?_append_left hlen]; exact h0

theorem symbolize_get (t : SymTab α) (s : α) :
    (t.symbolize s).1.strings[(t.symbolize s).2]? = some s := by
  unfold SymTab.symbolize
  cases hf : findIdx s t.strings with
  | some i => simpa using findIdx_some hf
  | none => simp

theorem symbolize_prefix (t : SymTab α) (s : α) : ∃ ext, (t.symbolize s).1.strings = t.strings ++ ext := by
  unfold SymTab.symbolize
  cases hf : findIdx s t.strings with
  | some i => exact ⟨[], by simp⟩
  | none => exact ⟨[s], rfl⟩

/-- interning the same string again returns the same reference and leaves the table alone -/
theorem symbolize_idem (t : SymTab α) (e s : α) (h : t.WF e) :
    (t.symbolize s).1.symbolize s = ((t.symbolize s).1, (t.symbolize s).2) := by
  have hg := symbolize_get t s
  have hwf := symbolize_wf t e s h
  generalize (t.symbolize s).1 = t' at *
  generalize (t.symbolize s).2 = i at *
  unfold SymTab.symbolize
  cases hf : findIdx s t'.strings with
  | none =>
    exact absurd (List.mem_of_getElem? hg) (findIdx_none hf)
  | some j =>
    have hj := findIdx_some hf
    have hi := List.getElem?_eq_some_iff.mp hg
    have hj' := List.getElem?_eq_some_iff.mp hj
    have : j = i := nodup_idx_unique hwf.1 hj hg
    simp [this]

theorem symbolizeLabels_wf (t : SymTab α) (e : α) (ls : List (α × α)) (h : t.WF e) :
    (t.symbolizeLabels ls).1.WF e := by
  induction ls generalizing t with
  | nil => simpa [SymTab.symbolizeLabels] using h
  | cons p rest ih =>
    obtain ⟨n, v⟩ := p
    simp only [SymTab.symbolizeLabels]
    exact ih _ (symbolize_wf _ e v (symbolize_wf _ e n h))

theorem symbolizeLabels_prefix (t : SymTab α) (ls : List (α × α)) :
    ∃ ext, (t.symbolizeLabels ls).1.strings = t.strings ++ ext := by
  induction ls generalizing t with
  | nil => exact ⟨[], by simp [SymTab.symbolizeLabels]⟩
  | cons p rest ih =>
    obtain ⟨n, v⟩ := p
    simp only [SymTab.symbolizeLabels]
    obtain ⟨e1, h1⟩ := symbolize_prefix t n
    obtain ⟨e2, h2⟩ := symbolize_prefix (t.symbolize n).1 v
    obtain ⟨e3, h3⟩ := ih ((t.symbolize n).1.symbolize v).1
    exact ⟨e1 ++ e2 ++ e3, by rw [h3, h2, h1]; simp⟩

theorem getElem?_append_ext {l : List α} {i : Nat} {s : α} (h : l[i]? = some s) (ext : List α) :
    (l ++ ext)[i]? = some s := by
  have := (List.getElem?_eq_some_iff.mp h).1
  rw [List.getElem?_append_left this]; exact h

/-- the references produced by `SymbolizeLabels` decode, in the produced table and in every later
    extension of it, to exactly the input pairs -/
theorem symbolizeLabels_pairs (t : SymTab α) (ls : List (α × α)) (ext : List α) :
    desymPairs ((t.symbolizeLabels ls).1.strings ++ ext) (t.symbolizeLabels ls).2 = .ok ls := by
  induction ls generalizing t ext with
  | nil => simp [SymTab.symbolizeLabels, desymPairs]
  | cons p rest ih =>
    obtain ⟨n, v⟩ := p
    simp only [SymTab.symbolizeLabels]
    -- abbreviations
    have g1 := symbolize_get t n
    have g2 := symbolize_get (t.symbolize n).1 v
    obtain ⟨e2, h2⟩ := symbolize_prefix (t.symbolize n).1 v
    obtain ⟨e3, h3⟩ := symbolizeLabels_prefix ((t.symbolize n).1.symbolize v).1 rest
    have a1 : ((((t.symbolize n).1.symbolize v).1.symbolizeLabels rest).1.strings ++ ext)[(t.symbolize n).2]?
        = some n := by
      rw [h3, h2, List.append_assoc, List.append_assoc]
      exact getElem?_append_ext g1 _
    have a2 : ((((t.symbolize n).1.symbolize v).1.symbolizeLabels rest).1.strings ++ ext)[((t.symbolize n).1.symbolize v).2]?
        = some v := by
      rw [h3, List.append_assoc]
      exact getElem?_append_ext g2 _
    simp only [desymPairs, a1, a2, ih]

theorem symbolizeLabels_len (t : SymTab α) (ls : List (α × α)) :
    (t.symbolizeLabels ls).2.length = 2 * ls.length := by
  induction ls generalizing t with
  | nil => simp [SymTab.symbolizeLabels]
  | cons p rest ih =>
    obtain ⟨n, v⟩ := p
    simp only [SymTab.symbolizeLabels, List.length_cons, ih]
    omega

theorem symbolizeLabels_roundtrip (t : SymTab α) (ls : List (α × α)) (ext : List α) :
    desymRaw ((t.symbolizeLabels ls).1.strings ++ ext) (t.symbolizeLabels ls).2 = .ok ls := by
  unfold desymRaw
  have : (t.symbolizeLabels ls).2.length % 2 = 0 := by rw [symbolizeLabels_len]; omega
  simp only [this, ne_eq, not_true_eq_false, if_false]
  exact symbolizeLabels_pairs t ls ext

theorem desymRaw_odd (symbols : List α) (refs : List Nat) (h : refs.length % 2 = 1) :
    desymRaw symbols refs = .error .oddLen := by
  unfold desymRaw; simp [h]

theorem desymPairs_out_of_range (symbols : List α) :
    ∀ (refs : List Nat) (r : Nat), r ∈ refs → symbols.length ≤ r → ∃ e, desymPairs symbols refs = .error e
  | [], _, hr, _ => by simp at hr
  | [_], _, _, _ => ⟨.oddLen, by simp [desymPairs]⟩
  | a :: b :: rest, r, hr, hb => by
    cases hn : symbols[a]? with
    | none => exact ⟨.outOfRange, by simp [desymPairs, hn]⟩
    | some n =>
      cases hv : symbols[b]? with
      | none => exact ⟨.outOfRange, by simp [desymPairs, hn, hv]⟩
      | some v =>
        have ha : a < symbols.length := (List.getElem?_eq_some_iff.mp hn).1
        have hb' : b < symbols.length := (List.getElem?_eq_some_iff.mp hv).1
        simp only [List.mem_cons] at hr
        rcases hr with rfl | rfl | hr
        · omega
        · omega
        · obtain ⟨e, he⟩ := desymPairs_out_of_range symbols rest r hr hb
          exact ⟨e, by simp [desymPairs, hn, hv, he]⟩

theorem desymRaw_out_of_range (symbols : List α) (refs : List Nat) (r : Nat) (hr : r ∈ refs)
    (hb : symbols.length ≤ r) : ∃ e, desymRaw symbols refs = .error e := by
  unfold desymRaw
  by_cases h : refs.length % 2 ≠ 0
  · exact ⟨.oddLen, by simp [h]⟩
  · simp only [h, if_false]; exact desymPairs_out_of_range symbols refs r hr hb

end Sym

/-! ### the sort of `desymbolizeLabels` -/

/-- label names non-decreasing (bytewise) -/
def NameSorted (ls : Labels) : Prop := ls.Pairwise fun a b => ¬ b.1 < a.1

theorem sortLabels_id (ls : Labels) (h : NameSorted ls) : sortLabels ls = ls := by
  induction ls with
  | nil => rfl
  | cons x xs ih =>
    have hx := List.pairwise_cons.mp h
    simp only [sortLabels, ih hx.2]
    cases xs with
    | nil => rfl
    | cons y ys =>
      have : ¬ y.1 < x.1 := hx.1 y (by simp)
      simp [insLabel, this]

theorem desymbolize_symbolize (ls : Labels) (h : NameSorted ls) :
    desymbolize ((SymTab.new "").symbolizeLabels ls).1.strings ((SymTab.new "").symbolizeLabels ls).2 = .ok ls := by
  unfold desymbolize
  have := symbolizeLabels_roundtrip (SymTab.new "") ls []
  simp only [List.append_nil] at this
  rw [this]
  simp [sortLabels_id ls h]

end Prom.RW
