import PromProofs.HistAppend
/-
  Series level (`memSeries.appendHistogram` with head-level cuts as oracle) and reading back.
-/
namespace Prom.Hist

theorem All2.append {α β : Type} {R : α → β → Prop} : ∀ {as : List α} {bs : List β} {cs : List α} {ds : List β},
    All2 R as bs → All2 R cs ds → All2 R (as ++ cs) (bs ++ ds)
  | [], [], _, _, _, h => h
  | [], _ :: _, _, _, h, _ => h.elim
  | _ :: _, [], _, _, h, _ => h.elim
  | _ :: _, _ :: _, _, _, h1, h2 => ⟨h1.1, All2.append h1.2 h2⟩

/-- what reading back must satisfy w.r.t. the appended sample -/
def RdRel (rd th : Int × Hist) : Prop :=
  rd.1 = th.1 ∧ (th.2.stale = true → rd.2.stale = true) ∧ (th.2.stale = false → rd.2.sem = th.2.sem)

theorem readFrom_rel (c : Chunk) : ∀ (stored : List Stored) (ths : List (Int × Hist)) (k : Nat),
    All2 (Rep c) stored ths → All2 RdRel (readFrom c k stored) ths
  | [], [], _, _ => trivial
  | [], _ :: _, _, h => h.elim
  | _ :: _, [], _, h => h.elim
  | s :: stored, th :: ths, k, h => by
    refine ⟨?_, readFrom_rel c stored ths (k + 1) h.2⟩
    obtain ⟨ht, hst, hlv⟩ := h.1
    refine ⟨ht, fun hs => ?_, fun hs => ?_⟩
    · simp [hst hs, Hist.blank, Hist.stale]
    · obtain ⟨hlive, hsem, _, _⟩ := hlv hs
      simp only [hlive, if_false]
      rw [← hsem]; rfl

theorem CInv.read_rel (c : Chunk) (l : List (Int × Hist)) (inv : CInv c l) : All2 RdRel c.read l.reverse :=
  readFrom_rel c _ _ 0 (All2.reverse inv.rep)

/-- the series holds the appended samples, chunk by chunk (newest chunk first, newest sample first) -/
def SInv (s : Series) (gs : List (List (Int × Hist))) : Prop := All2 CInv (s.cur.toList ++ s.done) gs

theorem CInv.empty (float : Bool) : CInv (Chunk.empty float) [] :=
  ⟨trivial, by simp [Chunk.empty, idxs_nil], by simp [Chunk.empty, idxs_nil], by simp, by simp, trivial,
    by simp [Chunk.empty], by simp [Chunk.empty], fun _ => trivial⟩

theorem CInv.nil_of_empty (c : Chunk) (l : List (Int × Hist)) (inv : CInv c l) (he : c.rev = []) : l = [] := by
  have := inv.rep; rw [he] at this
  cases l with
  | nil => rfl
  | cons a b => exact this.elim

/-- **`memSeries.appendHistogram`** keeps the series invariant and hands the histogram back meaning the same. -/
theorem Series.append_inv (s : Series) (gs : List (List (Int × Hist))) (inv : SInv s gs) (cut : Bool) (t : Int)
    (h : Hist) (hwf : WFs h) (s' : Series) (h' : Hist) (o : Outcome) (hr : s.append cut t h = .ok (s', h', o)) :
    (∃ gs', SInv s' gs' ∧ gs'.flatten = (t, h) :: gs.flatten ∧
        (gs' = [(t, h)] :: gs ∨ ∃ g rest, gs = g :: rest ∧ gs' = ((t, h) :: g) :: rest ∧ g.length ≠ 65535)) ∧
      (h.stale = true → h' = h) ∧ (h.stale = false → h'.sem = h.sem) := by
  unfold Series.append at hr
  cases hc : s.cur with
  | none =>
    simp only [hc] at hr
    obtain ⟨r, hr1, hr2⟩ := bind_ok _ _ _ hr
    simp [pure, Except.pure] at hr2
    obtain ⟨rfl, rfl, rfl⟩ := hr2
    obtain ⟨k1, k2, k3⟩ := appendHist_step none _ [] (CInv.empty h.float) t h hwf rfl r hr1 (fun hx => absurd rfl hx)
    refine ⟨⟨[(t, h)] :: gs, ?_, by simp, Or.inl rfl⟩, k1, k2⟩
    simp only [SInv, hc, Option.toList_none, List.nil_append, Option.toList_some, List.singleton_append] at inv ⊢
    rcases k3 with ⟨_, hne, _⟩ | ⟨_, _, ci⟩
    · exact absurd rfl hne
    · exact ⟨ci, inv⟩
  | some c =>
    simp only [hc] at hr
    simp only [SInv, hc, Option.toList_some, List.singleton_append] at inv
    cases gs with
    | nil => exact inv.elim
    | cons g gs =>
      by_cases hcut : (cut || c.float != h.float) = true
      · rw [if_pos (by simpa using hcut)] at hr
        obtain ⟨r, hr1, hr2⟩ := bind_ok _ _ _ hr
        simp [pure, Except.pure] at hr2
        obtain ⟨rfl, rfl, rfl⟩ := hr2
        obtain ⟨k1, k2, k3⟩ := appendHist_step (some c) _ [] (CInv.empty h.float) t h hwf rfl r hr1
          (fun hx => absurd rfl hx)
        refine ⟨⟨[(t, h)] :: g :: gs, ?_, by simp, Or.inl rfl⟩, k1, k2⟩
        simp only [SInv, Option.toList_some, List.singleton_append]
        rcases k3 with ⟨_, hne, _⟩ | ⟨_, _, ci⟩
        · exact absurd rfl hne
        · exact ⟨ci, inv⟩
      · rw [if_neg (by simpa using hcut)] at hr
        have hfl : h.float = c.float := by
          simp only [Bool.or_eq_true, bne_iff_ne, ne_eq, not_or, Bool.not_eq_true, Decidable.not_not] at hcut
          exact hcut.2.symm
        obtain ⟨r, hr1, hr2⟩ := bind_ok _ _ _ hr
        obtain ⟨k1, k2, k3⟩ := appendHist_step none c g inv.1 t h hwf hfl r hr1 (fun _ => rfl)
        have hg : g.length ≠ 65535 := by
          have h1 : c.num = g.length := All2.length inv.1.rep
          have h2 : c.num ≠ 65535 := by
            intro e; unfold appendHist at hr1; simp [e] at hr1
          omega
        cases ho : r.out with
        | newChunk =>
          simp [ho, pure, Except.pure] at hr2
          obtain ⟨rfl, rfl, rfl⟩ := hr2
          refine ⟨⟨[(t, h)] :: g :: gs, ?_, by simp, Or.inl rfl⟩, k1, k2⟩
          simp only [SInv, Option.toList_some, List.singleton_append]
          rcases k3 with ⟨hne, _, _⟩ | ⟨_, _, ci⟩
          · exact absurd ho hne
          · exact ⟨ci, inv⟩
        | same =>
          simp [ho, pure, Except.pure] at hr2
          obtain ⟨rfl, rfl, rfl⟩ := hr2
          refine ⟨⟨((t, h) :: g) :: gs, ?_, by simp, Or.inr ⟨g, gs, rfl, rfl, hg⟩⟩, k1, k2⟩
          simp only [SInv, Option.toList_some, List.singleton_append]
          rcases k3 with ⟨_, _, ci⟩ | ⟨hx, _, ci⟩
          · exact ⟨ci, inv.2⟩
          · rcases hx with hx | hx
            · rw [ho] at hx; cases hx
            · rw [CInv.nil_of_empty c g inv.1 hx]; exact ⟨ci, inv.2⟩
        | recoded =>
          simp [ho, pure, Except.pure] at hr2
          obtain ⟨rfl, rfl, rfl⟩ := hr2
          refine ⟨⟨((t, h) :: g) :: gs, ?_, by simp, Or.inr ⟨g, gs, rfl, rfl, hg⟩⟩, k1, k2⟩
          simp only [SInv, Option.toList_some, List.singleton_append]
          rcases k3 with ⟨_, _, ci⟩ | ⟨hx, _, ci⟩
          · exact ⟨ci, inv.2⟩
          · rcases hx with hx | hx
            · rw [ho] at hx; cases hx
            · rw [CInv.nil_of_empty c g inv.1 hx]; exact ⟨ci, inv.2⟩

/-- reading a series = the appended samples, oldest first -/
theorem SInv.read_rel : ∀ (cs : List Chunk) (gs : List (List (Int × Hist))), All2 CInv cs gs →
    All2 RdRel (cs.reverse.flatMap Chunk.read) gs.flatten.reverse
  | [], [], _ => trivial
  | [], _ :: _, h => h.elim
  | _ :: _, [], h => h.elim
  | c :: cs, g :: gs, h => by
    simp only [List.reverse_cons, List.flatMap_append, List.flatMap_cons, List.flatMap_nil, List.append_nil,
      List.flatten_cons, List.reverse_append]
    exact All2.append (SInv.read_rel cs gs h.2) (CInv.read_rel c g h.1)

/-- the fold of `Series.append` over (sample, cut) pairs -/
def runSeries (ops : List ((Int × Hist) × Bool)) (s0 : Series) : Except Err Series :=
  ops.foldlM (fun (st : Series) (p : (Int × Hist) × Bool) => (st.append p.2 p.1.1 p.1.2).map (·.1)) s0

theorem runSeries_inv : ∀ (ops : List ((Int × Hist) × Bool)) (s0 : Series) (gs : List (List (Int × Hist))),
    SInv s0 gs → (∀ p ∈ ops, WFs p.1.2) → ∀ s, runSeries ops s0 = .ok s →
    ∃ gs', SInv s gs' ∧ gs'.flatten = (ops.map (·.1)).reverse ++ gs.flatten
  | [], s0, gs, inv, _, s, h => by
    simp [runSeries, pure, Except.pure] at h; subst h; exact ⟨gs, inv, by simp⟩
  | p :: ops, s0, gs, inv, hwf, s, h => by
    simp only [runSeries, List.foldlM_cons] at h
    obtain ⟨s1, h1, h2⟩ := bind_ok _ _ _ h
    cases ha : s0.append p.2 p.1.1 p.1.2 with
    | error e => simp [ha, Except.map] at h1
    | ok res =>
      obtain ⟨s1', h', o⟩ := res
      simp [ha, Except.map] at h1; subst h1
      obtain ⟨⟨gs1, inv1, hf1, _⟩, _, _⟩ := Series.append_inv s0 gs inv p.2 p.1.1 p.1.2 (hwf p (by simp)) _ _ _ ha
      obtain ⟨gs', inv', hf'⟩ := runSeries_inv ops s1' gs1 inv1 (fun q hq => hwf q (by simp [hq])) s h2
      exact ⟨gs', inv', by rw [hf', hf1]; simp⟩

theorem All2.map_fst {rd th : List (Int × Hist)} (h : All2 RdRel rd th) : rd.map (·.1) = th.map (·.1) := by
  induction rd generalizing th with
  | nil => cases th with
    | nil => rfl
    | cons a b => exact h.elim
  | cons x xs ih => cases th with
    | nil => exact h.elim
    | cons a b => simp [h.1.1, ih h.2]

theorem All2.zip_mem {rd th : List (Int × Hist)} (h : All2 RdRel rd th) : ∀ p ∈ rd.zip th, RdRel p.1 p.2 := by
  induction rd generalizing th with
  | nil => intro p hp; simp at hp
  | cons x xs ih => cases th with
    | nil => intro p hp; simp at hp
    | cons a b =>
      intro p hp
      simp only [List.zip_cons_cons, List.mem_cons] at hp
      rcases hp with rfl | hp
      · exact h.1
      · exact ih h.2 p hp

end Prom.Hist
