import PromModel.Tsdb.Merge
import PromProofs.GoHeap
import PromProofs.Merge
/-
  C19: the fuel guards of the `chainSampleIterator` model never fire (`chain_next_total`):
  every round of the `Next` loop removes exactly one sample from the pending ones, every `Next` that
  returns a sample removes at least one, no error can surface when no input carries one.
  Also tracked here (needed for `Seek`): which iterators are exhausted (`Aux`).
-/
namespace Prom.Merge
open Prom.GoHeap

/-- number of pending samples -/
def pendN (cur : It) (h : Array It) : Nat := cur.rest.length + (heapPend h).length

theorem pendN_eq (cur : It) (h : Array It) : pendN cur h = (pend cur h).length := by
  simp [pendN, pend, heapPend]

theorem heapPend_perm {a b : Array It} (hp : a.Perm b) : (heapPend a).length = (heapPend b).length := by
  have : a.toList.Perm b.toList := Array.perm_iff_toList_perm.1 hp
  exact (List.Perm.flatMap_right It.live this).length_eq

theorem heapPend_push_raw (h : Array It) (x : It) :
    (heapPend (h.push x)).length = (heapPend h).length + x.live.length := by
  simp [heapPend]

theorem heapLen_push (h : Array It) (x : It) :
    (heapPend (push ltIt h x)).length = (heapPend h).length + x.live.length := by
  rw [heapPend_perm (perm_push ltIt h x), heapPend_push_raw]

theorem pop_cor2 {α} {lt : α → α → Bool} (sw : StrictWeak lt) (a : Array α) (h : IsHeap lt a a.size)
    (hpos : a.size ≠ 0) :
    ∃ x a', pop lt a = some (x, a') ∧ a[0]? = some x ∧ IsHeap lt a' a'.size ∧ (a'.push x).Perm a ∧
      (∀ y, y ∈ a ↔ y = x ∨ y ∈ a') ∧ ∀ y ∈ a, lt y x = false := by
  have hp : 0 < a.size := by omega
  obtain ⟨a', h1, h2, h3, h4⟩ := pop_spec sw a h hp
  refine ⟨a[0], a', h1, by simp [hp], h2, h3, ?_, h4⟩
  intro y
  rw [← h3.mem_iff]; simp [or_comm]

/-- bookkeeping of exhausted / error-free iterators -/
structure Aux (cur : It) (h : Array It) (dead : List It) : Prop where
  cd : cur.done = false
  ce : cur.errEnd = false
  hm : ∀ x ∈ h, x.done = false ∧ x.errEnd = false
  dm : ∀ x ∈ dead, x.done = true ∧ x.errEnd = false

def StepTot (n0 : Nat) : LoopOut → Prop
  | .brk c' _ h' d' _ => pendN c' h' + 1 = n0 ∧ Aux c' h' d'
  | .cont c' h' d' _ => pendN c' h' + 1 = n0 ∧ Aux c' h' d'
  | .fin h' d' => h' = #[] ∧ ∀ x ∈ d', x.done = true ∧ x.errEnd = false
  | .err => False
  | .fuel => False

theorem popStep_tot (lastT : Int) (h : Array It) (dead : List It) (hi : HInv lastT h) (hne : h.size ≠ 0)
    (hm : ∀ x ∈ h, x.done = false ∧ x.errEnd = false)
    (dm : ∀ x ∈ dead, x.done = true ∧ x.errEnd = false) :
    StepTot (heapPend h).length (popStep lastT h dead) := by
  obtain ⟨x, h', hpop, _, _, hperm, hmem, _⟩ := pop_cor2 sw_ltIt h hi.heap hne
  unfold popStep
  rw [hpop]
  have hx : x ∈ h := (hmem x).2 (Or.inl rfl)
  obtain ⟨_, s, hxs, _⟩ := hi.mem x hx
  simp only [hxs]
  have hlen : (heapPend h).length = (heapPend h').length + x.live.length := by
    rw [← heapPend_perm hperm, heapPend_push_raw]
  have hlive : x.live.length = x.rest.length + 1 := by rw [live_of_cur hxs]; simp
  have haux : Aux x h' dead :=
    ⟨(hm x hx).1, (hm x hx).2, fun y hy => hm y ((hmem y).2 (Or.inr hy)), dm⟩
  split
  · exact ⟨by simp only [pendN]; omega, haux⟩
  · exact ⟨by simp only [pendN]; omega, haux⟩

theorem loopStep_tot (lastT : Int) (cur : It) (h : Array It) (dead : List It) (ch : Bool)
    (hi : LInv lastT cur h) (ha : Aux cur h dead) :
    StepTot (pendN cur h) (loopStep lastT cur h dead ch) := by
  unfold loopStep It.next
  cases hr : cur.rest with
  | nil =>
    simp only
    have herr : It.err { cur with cur := none, rest := [], done := true } = false := by simp [It.err, ha.ce]
    rw [herr]
    simp only [Bool.false_eq_true, if_false]
    have hdm : ∀ x ∈ ({ cur with cur := none, rest := [], done := true } : It) :: dead, x.done = true ∧ x.errEnd = false := by
      intro x hx
      rcases List.mem_cons.1 hx with rfl | hx
      · exact ⟨rfl, ha.ce⟩
      · exact ha.dm x hx
    split
    · rename_i h0
      exact ⟨by simpa using h0, hdm⟩
    · rename_i h0
      have := popStep_tot lastT h _ hi.toHInv h0 ha.hm hdm
      simpa [pendN, hr] using this
  | cons s r =>
    simp only
    have haux' : Aux { cur with cur := some s, rest := r } h dead := ⟨ha.cd, ha.ce, ha.hm, ha.dm⟩
    have hn' : pendN { cur with cur := some s, rest := r } h + 1 = pendN cur h := by
      simp only [pendN, hr, List.length_cons]; omega
    split
    · exact ⟨hn', haux'⟩
    · split
      · exact ⟨hn', haux'⟩
      · rename_i h0
        have hpos : 0 < h.size := by omega
        have htop : h[0]? = some h[0] := by simp [hpos]
        simp only [htop]
        split
        · exact ⟨hn', haux'⟩
        · have hwf := hi.wf
          have hsorted_sr : SortedL (s :: r) := by
            have : SortedL (cur.cur.toList ++ s :: r) := by simpa [It.WF, It.live, hr] using hwf
            exact List.Pairwise.sublist (List.sublist_append_right _ _) this
          have hsge : lastT ≤ s.t := hi.ge s (by simp [hr])
          have hwf' : It.WF { cur with cur := some s, rest := r } := by simpa [It.WF, It.live] using hsorted_sr
          have hH : HInv lastT (push ltIt h { cur with cur := some s, rest := r }) := by
            refine ⟨isHeap_push sw_ltIt h _ hi.heap, ?_⟩
            intro x hx
            rcases (mem_heap_push _ _ _ _).1 hx with hx | rfl
            · exact hi.mem x hx
            · exact ⟨hwf', s, rfl, hsge⟩
          have hsz : (push ltIt h { cur with cur := some s, rest := r }).size ≠ 0 := by
            have := (perm_push ltIt h { cur with cur := some s, rest := r }).size_eq
            simp at this; omega
          have hm' : ∀ x ∈ push ltIt h { cur with cur := some s, rest := r }, x.done = false ∧ x.errEnd = false := by
            intro x hx
            rcases (mem_heap_push _ _ _ _).1 hx with hx | rfl
            · exact ha.hm x hx
            · exact ⟨ha.cd, ha.ce⟩
          have := popStep_tot lastT _ dead hH hsz hm' ha.dm
          rw [heapLen_push] at this
          have hl : pendN cur h = (heapPend h).length + (It.live { cur with cur := some s, rest := r }).length := by
            simp [pendN, hr, It.live]; omega
          rw [hl]; exact this

def LoopTot (n0 : Nat) : LoopOut → Prop
  | .brk c' _ h' d' _ => pendN c' h' < n0 ∧ Aux c' h' d'
  | .fin h' d' => h' = #[] ∧ ∀ x ∈ d', x.done = true ∧ x.errEnd = false
  | _ => False

theorem nextLoop_tot (lastT : Int) : ∀ fuel cur h dead ch, LInv lastT cur h → Aux cur h dead →
    pendN cur h < fuel → LoopTot (pendN cur h) (nextLoop lastT fuel cur h dead ch) := by
  intro fuel
  induction fuel with
  | zero => intro cur h dead ch _ _ hf; omega
  | succ f ih =>
    intro cur h dead ch hi ha hf
    have hstep := loopStep_post lastT cur h dead ch hi
    have htot := loopStep_tot lastT cur h dead ch hi ha
    unfold nextLoop
    cases hs : loopStep lastT cur h dead ch with
    | cont c' h' d' ch' =>
      rw [hs] at hstep htot
      obtain ⟨hi', _, _⟩ := hstep
      obtain ⟨hn, ha'⟩ := htot
      have := ih c' h' d' ch' hi' ha' (by omega)
      simp only
      cases hn2 : nextLoop lastT f c' h' d' ch' with
      | brk c'' s h'' d'' ch'' =>
        rw [hn2] at this
        exact ⟨by have := this.1; omega, this.2⟩
      | fin h'' d'' => rw [hn2] at this; exact this
      | err => rw [hn2] at this; exact this
      | fuel => rw [hn2] at this; exact this
      | cont => rw [hn2] at this; exact this
    | brk c' s h' d' ch' => rw [hs] at htot; exact ⟨by have := htot.1; omega, htot.2⟩
    | fin h' d' => rw [hs] at htot; exact htot
    | err => rw [hs] at htot; exact htot
    | fuel => rw [hs] at htot; exact htot

theorem loopFuel_ge (cur : It) (h : Array It) : pendN cur h + 2 ≤ loopFuel cur h := by
  have hgen : ∀ (l : List It) (n : Nat),
      n + (l.flatMap It.live).length ≤ l.foldl (fun n it => n + it.rest.length + 1) n := by
    intro l
    induction l with
    | nil => intro n; simp
    | cons x l ih =>
      intro n
      simp only [List.foldl_cons, List.flatMap_cons, List.length_append]
      have := ih (n + x.rest.length + 1)
      have hx : x.live.length ≤ x.rest.length + 1 := by
        simp only [It.live, List.length_append]
        cases x.cur <;> simp <;> omega
      omega
  have := hgen h.toList (1 + cur.rest.length + 1)
  simp only [loopFuel, List.foldl_cons, pendN, heapPend]
  omega

/-! ## whole `Next` calls -/

/-- state of a chain between two calls, with the bookkeeping `Seek` needs -/
structure Run (c : Chain) (cur : It) (h : Array It) : Prop extends Started c cur h where
  aux : Aux cur h c.dead
  cs : ∃ s, cur.cur = some s ∧ s.t = c.lastT

/-- state of a chain after it reported the end -/
structure Fin (c : Chain) : Prop where
  nf : c.failed = false
  hh : c.h = some #[]
  hc : c.curr = none
  dm : ∀ x ∈ c.dead, x.done = true ∧ x.errEnd = false

def NextPost2 (lastT : Int) (P : Sample → Prop) (n0 : Nat) : Chain × Res → Prop
  | (c', .val s) => lastT < s.t ∧ P s ∧ ∃ cur' h', Run c' cur' h' ∧ c'.lastT = s.t ∧ pendN cur' h' < n0 ∧
      (∀ p, p ∈ pend cur' h' → P p) ∧ (∀ p, P p → lastT < p.t → p.t = s.t ∨ p ∈ pend cur' h')
  | (c', .fin) => Fin c' ∧ ∀ p, P p → p.t ≤ lastT
  | _ => False

theorem finishLoop_post2 (c : Chain) (hnf : c.failed = false) (P : Sample → Prop) (n0 : Nat) (o : LoopOut)
    (h : LoopPost c.lastT P o) (ht : LoopTot n0 o) : NextPost2 c.lastT P n0 (c.finishLoop o) := by
  cases o with
  | brk c' s h' d ch =>
    obtain ⟨a1, a2, a3, a4, a5, a6⟩ := h
    exact ⟨a1, a4, c', h', ⟨⟨hnf, rfl, rfl, a3⟩, ht.2, s, a2, rfl⟩, rfl, ht.1, a5, a6⟩
  | fin h' d =>
    obtain ⟨rfl, hd⟩ := ht
    exact ⟨⟨hnf, rfl, rfl, hd⟩, h⟩
  | err => exact ht
  | fuel => exact ht
  | cont => exact ht

theorem next_run (c : Chain) (cur : It) (h : Array It) (st : Run c cur h) :
    NextPost2 c.lastT (· ∈ pend cur h) (pendN cur h) c.next := by
  unfold Chain.next
  simp only [st.nf, st.hh, st.hc]
  exact finishLoop_post2 c st.nf _ _ _ (nextLoop_post c.lastT _ cur h c.dead false st.inv)
    (nextLoop_tot c.lastT _ cur h c.dead false st.inv st.aux (by have := loopFuel_ge cur h; omega))

theorem drain_run : ∀ fuel c cur h raw out, Run c cur h → pendN cur h < fuel →
    Chain.drainAux fuel c raw out ≠ none := by
  intro fuel
  induction fuel with
  | zero => intro c cur h raw out _ hf; omega
  | succ f ih =>
    intro c cur h raw out st hf
    have hn := next_run c cur h st
    unfold Chain.drainAux
    cases hnx : c.next with
    | mk c' res =>
      rw [hnx] at hn
      cases res with
      | val s =>
        obtain ⟨_, _, cur', h', st', _, hlt, _, _⟩ := hn
        exact ih c' cur' h' _ _ st' (by omega)
      | fin => simp
      | err => exact hn.elim
      | panic => exact hn.elim

/-- fresh iterator as built by `Chain.ofLists` from an error-free input -/
def FreshOK2 (T : Int) (it : It) : Prop := FreshOK T it ∧ it.done = false ∧ it.errEnd = false

theorem initHeap_tot (T : Int) : ∀ tl h0 d0, (∀ it ∈ tl, FreshOK2 T it) →
    (∀ x ∈ h0, x.done = false ∧ x.errEnd = false) → (∀ x ∈ d0, x.done = true ∧ x.errEnd = false) →
    ∃ h d, initHeap tl h0 d0 = some (h, d) ∧ (∀ x ∈ h, x.done = false ∧ x.errEnd = false) ∧
      (∀ x ∈ d, x.done = true ∧ x.errEnd = false) ∧
      (heapPend h).length = (heapPend h0).length + (tl.map (·.rest.length)).sum := by
  intro tl
  induction tl with
  | nil => intro h0 d0 _ hm dm; exact ⟨h0, d0, rfl, hm, dm, by simp⟩
  | cons it tl ih =>
    intro h0 d0 hf hm dm
    obtain ⟨⟨hcur, _, _⟩, hdone, herr⟩ := hf it (by simp)
    unfold initHeap It.next
    cases hr : it.rest with
    | nil =>
      simp only
      have : It.err { it with cur := none, rest := [], done := true } = false := by simp [It.err, herr]
      rw [this]
      simp only [Bool.false_eq_true, if_false]
      obtain ⟨h, d, e1, e2, e3, e4⟩ := ih h0 ({ it with cur := none, rest := [], done := true } :: d0)
        (fun x hx => hf x (by simp [hx])) hm (by
          intro x hx
          rcases List.mem_cons.1 hx with rfl | hx
          · exact ⟨rfl, herr⟩
          · exact dm x hx)
      exact ⟨h, d, e1, e2, e3, by rw [e4]; simp [hr]⟩
    | cons s r =>
      simp only
      obtain ⟨h, d, e1, e2, e3, e4⟩ := ih (push ltIt h0 { it with cur := some s, rest := r }) d0
        (fun x hx => hf x (by simp [hx])) (by
          intro x hx
          rcases (mem_heap_push _ _ _ _).1 hx with hx | rfl
          · exact hm x hx
          · exact ⟨hdone, herr⟩) dm
      refine ⟨h, d, e1, e2, e3, ?_⟩
      rw [e4, heapLen_push]
      simp [hr, It.live]; omega

theorem totalLen_eq (c : Chain) : c.totalLen = (c.its.map (·.rest.length)).sum := by
  have : ∀ (l : List It) n, l.foldl (fun n it => n + it.rest.length) n = n + (l.map (·.rest.length)).sum := by
    intro l
    induction l with
    | nil => intro n; simp
    | cons x l ih => intro n; simp only [List.foldl_cons, List.map_cons, List.sum_cons, ih]; omega
  simp [Chain.totalLen, this]

/-- a chain nothing has been called on -/
structure FreshC (c : Chain) : Prop where
  nf : c.failed = false
  hh : c.h = none
  hc : c.curr = none
  lt : c.lastT = MinI64
  its : ∀ it ∈ c.its, FreshOK2 MinI64 it

/-- the first `Next` of a fresh, error-free, non-empty chain -/
theorem next_fresh2 (c : Chain) (hf : FreshC c) (hne : c.its ≠ []) :
    NextPost2 MinI64 (fun p => ∃ it ∈ c.its, p ∈ it.rest) c.totalLen c.next := by
  unfold Chain.next
  simp only [hf.nf, hf.hh]
  cases hits : c.its with
  | nil => exact (hne hits).elim
  | cons i0 tl =>
    simp only
    have hfi := hf.its
    rw [hits] at hfi
    obtain ⟨h, d, hin, hm, dm, hlen⟩ := initHeap_tot MinI64 tl #[] [] (fun x hx => hfi x (by simp [hx]))
      (by simp) (by simp)
    rw [hin]
    simp only
    have hH0 : HInv MinI64 (#[] : Array It) := ⟨isHeap_empty _, by simp⟩
    obtain ⟨hH, hP⟩ := initHeap_spec MinI64 tl #[] [] h d (fun x hx => (hfi x (by simp [hx])).1) hH0 hin
    obtain ⟨⟨hcur, hsorted, hgt⟩, hdone, herr⟩ := hfi i0 (by simp)
    have hinv : LInv MinI64 i0 h :=
      ⟨hH, by simpa [It.WF, It.live, hcur] using hsorted, fun s hs => Int.le_of_lt (hgt s hs)⟩
    have haux : Aux i0 h d := ⟨hdone, herr, hm, dm⟩
    have hpost := nextLoop_post MinI64 (loopFuel i0 h) i0 h d true hinv
    have htot := nextLoop_tot MinI64 (loopFuel i0 h) i0 h d true hinv haux
      (by have := loopFuel_ge i0 h; omega)
    have hfun : (fun p => ∃ it ∈ i0 :: tl, p ∈ it.rest) = (fun p => p ∈ pend i0 h) := by
      funext p; apply propext
      rw [mem_pend, ← mem_heapPend, hP p]
      simp [heapPend]
    have hN : c.totalLen = pendN i0 h := by
      rw [totalLen_eq, hits]
      have h0 : (heapPend (#[] : Array It)).length = 0 := by simp [heapPend]
      simp only [pendN, List.map_cons, List.sum_cons]
      omega
    rw [hfun, hN]
    rw [← hf.lt] at hpost htot ⊢
    exact finishLoop_post2 c hf.nf _ _ _ hpost htot

theorem ofLists_rest (inputs : List (List Sample)) :
    (Chain.ofLists (inputs.map fun l => (l, false))).its.map (·.rest) = inputs := by
  show (((inputs.map fun l => (l, false)).zipIdx.map fun (p, i) => It.ofList i p.1 p.2).map (·.rest)) = inputs
  rw [List.map_map]
  have : ((fun x : It => x.rest) ∘ fun (x : (List Sample × Bool) × Nat) => It.ofList x.2 x.1.1 x.1.2)
      = (fun p : List Sample × Bool => p.1) ∘ Prod.fst := by funext x; rfl
  rw [this, ← List.map_map, List.zipIdx_map_fst, List.map_map]
  simp [Function.comp_def]

theorem ofLists_fresh (inputs : List (List Sample))
    (hin : ∀ l ∈ inputs, SortedL l ∧ ∀ s ∈ l, MinI64 < s.t) :
    FreshC (Chain.ofLists (inputs.map fun l => (l, false))) := by
  refine ⟨rfl, rfl, rfl, rfl, ?_⟩
  intro it hit
  have hmem : it.rest ∈ inputs := by rw [← ofLists_rest inputs]; exact List.mem_map_of_mem hit
  have hit' : it ∈ ((inputs.map fun l => (l, false)).zipIdx.map fun (p, i) => It.ofList i p.1 p.2) := hit
  obtain ⟨x, hx, rfl⟩ := List.mem_map.1 hit'
  have hx2 : x.1.2 = false := by
    obtain ⟨_, _, h3⟩ := List.mem_zipIdx (x := x.1) (i := x.2) hx
    rw [h3]; simp
  exact ⟨⟨rfl, (hin _ hmem).1, (hin _ hmem).2⟩, rfl, hx2⟩

end Prom.Merge
