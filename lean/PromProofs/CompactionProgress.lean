import PromProofs.CompactionMain
/-
  C06, liveness side: once the readers have closed, no step of the maintenance thread is disabled, and
  every step of a running job decreases a rank — the job finishes.
-/
namespace Prom.CompactionProtocol

/-- All queries have closed (or have not started). -/
def quiet (σ : State) : Prop := ∀ r ∈ σ.readers, r.pc = .idle ∨ r.pc = .closed

/-- Number of protocol steps the running job still has to take (upper bound). -/
def mrank : MPc → Nat
  | .idle => 0
  | .hWritten .. => 8 | .hSwapped _ => 7 | .hTimeStored _ => 6 | .hFlagSet _ => 5
  | .hWaited _ => 4 | .hMinSet _ => 3 | .hGcDone _ => 2
  | .oSnapped _ => 7 | .oWritten .. => 6 | .oSwapped _ => 5 | .oLastGC _ => 4 | .oWaited _ => 3
  | .cWritten ps _ => 2 * ps.length + 3
  | .deleting ps none => 2 * ps.length + 2
  | .deleting ps (some _) => 2 * ps.length + 1

theorem erase_length_lt (ps : List Nat) (p : Nat) (h : p ∈ ps) : (ps.erase p).length < ps.length := by
  rw [List.length_erase_of_mem h]
  have : 0 < ps.length := List.length_pos_of_mem h
  omega

/-- Every step of a running job decreases the rank. -/
theorem mstep_rank (σ σ' : State) (a : MAct) (hg : GInv σ) (h : mstep σ a = some σ')
    (hrun : mrank σ.mpc ≠ 0) : mrank σ'.mpc < mrank σ.mpc := by
  have gp := hg.gp
  cases a
  all_goals (
    simp only [mstep] at h
    split at h <;> (try (simp at h; done)) <;> (try split at h) <;> (try (simp at h; done)))
  all_goals (
    simp only [Option.some.injEq] at h
    subst h
    simp only [pendingOk] at gp
    grind [mrank, erase_length_lt])

theorem noLock_of_quiet (σ : State) (hq : quiet σ) : noLockHeld σ = true := by
  simp only [noLockHeld, List.all_eq_true]
  intro r hr
  rcases hq r hr with h | h <;> simp [Reader.holdsLock, h]

theorem blockFree_of_quiet (σ : State) (hq : quiet σ) (p : Nat) : blockFree σ p = true := by
  simp only [blockFree, List.all_eq_true]
  intro r hr
  rcases hq r hr with h | h <;> simp [Reader.isOpen, h]

theorem headWait_of_quiet (σ : State) (hi : Inv σ) (hq : quiet σ) (T : Int) : headWaitDone σ T = true := by
  simp only [headWaitDone, List.all_eq_true]
  intro r hr
  have := (hi.2 r hr).2.1.regE (by rcases hq r hr with h | h <;> simp [h])
  simp [this]

theorem oooWait_of_quiet (σ : State) (hi : Inv σ) (hq : quiet σ) (rr : Nat) : oooWaitDone σ rr = true := by
  simp only [oooWaitDone, List.all_eq_true]
  intro r hr
  have := (hi.2 r hr).2.2.oc0 (by rcases hq r hr with h | h <;> simp [h])
  simp [this]

theorem le_sum_of_mem (l : List Nat) (x : Nat) (h : x ∈ l) : x ≤ l.sum := by
  induction l with
  | nil => simp at h
  | cons a as ih =>
    simp only [List.mem_cons] at h
    simp only [List.sum_cons]
    rcases h with rfl | h
    · omega
    · have := ih h; omega

/-- With the readers closed, a running job always has an enabled next step. -/
theorem enabled_of_quiet (σ : State) (hi : Inv σ) (hq : quiet σ) (hrun : mrank σ.mpc ≠ 0) :
    ∃ a, (mstep σ a).isSome = true := by
  have hg := hi.1
  have gp := hg.gp
  have hnl := noLock_of_quiet σ hq
  cases hm : σ.mpc with
  | idle => simp [hm, mrank] at hrun
  | hWritten T b => exact ⟨.hSwap, by simp [mstep, hm, hnl]⟩
  | hSwapped T => exact ⟨.hStoreTrunc, by simp [mstep, hm]⟩
  | hTimeStored T => exact ⟨.hSetFlag, by simp [mstep, hm]⟩
  | hFlagSet T => exact ⟨.hWait, by simp [mstep, hm, headWait_of_quiet σ hi hq T]⟩
  | hWaited T => exact ⟨.hSetMin, by simp [mstep, hm]⟩
  | hMinSet T =>
    refine ⟨.hGc T σ.oooLo, ?_⟩
    have h1 : (σ.data.all fun s => s.ooo || decide (s.t < T) || decide (T ≤ s.t)) = true := by
      simp only [List.all_eq_true, Bool.or_eq_true, decide_eq_true_eq]
      intro s _; omega
    have h2 : (σ.data.all fun s => !s.ooo || decide (s.ref ≤ σ.oooGc) || decide (σ.oooLo ≤ s.t)) = true := by
      simp only [List.all_eq_true, Bool.or_eq_true, decide_eq_true_eq, Bool.not_eq_eq_eq_not, Bool.not_true]
      intro s hs
      cases ho : s.ooo with
      | false => simp
      | true =>
        by_cases hr : s.ref ≤ σ.oooGc
        · simp [hr]
        · right; exact (hg.g3 s hs ho (by omega)).1
    simp [mstep, hm, h1, h2]
  | hGcDone T => exact ⟨.hClear, by simp [mstep, hm]⟩
  | oSnapped r =>
    -- one (degenerate) block per sample, all under one fresh id
    let F := (blockIds σ).sum + σ.removed.sum + 1
    refine ⟨.oWrite (σ.data.map fun s => (F, s.t, s.t)), ?_⟩
    have hF1 : (blockIds σ).contains F = false := by
      simp only [List.contains_eq_mem, decide_eq_false_iff_not]
      intro hmem
      have := le_sum_of_mem _ _ hmem
      omega
    have hF2 : σ.removed.contains F = false := by
      simp only [List.contains_eq_mem, decide_eq_false_iff_not]
      intro hmem
      have := le_sum_of_mem _ _ hmem
      omega
    have h1 : (σ.data.all fun s => !s.ooo || decide (s.ref ≤ σ.oooGc) || decide (r < s.ref)
            || (σ.data.map fun s => (F, s.t, s.t)).any fun m => decide (m.2.1 ≤ s.t) && decide (s.t ≤ m.2.2)) = true := by
      simp only [List.all_eq_true, Bool.or_eq_true, List.any_eq_true, List.mem_map]
      intro s hs
      right
      exact ⟨(F, s.t, s.t), ⟨s, hs, rfl⟩, by simp⟩
    have h2 : ((σ.data.map fun s => (F, s.t, s.t)).all fun m => !(blockIds σ).contains m.1 && !σ.removed.contains m.1) = true := by
      simp only [List.all_eq_true, List.mem_map]
      rintro m ⟨s, _, rfl⟩
      simp only [hF1, hF2, Bool.not_false, Bool.and_self]
    simp only [mstep, hm, h1, h2, Bool.and_self, if_true, Option.isSome_some]
  | oWritten r bs => exact ⟨.oSwap, by simp [mstep, hm, hnl]⟩
  | oSwapped r => exact ⟨.oSetLastGC, by simp [mstep, hm, hnl]⟩
  | oLastGC r => exact ⟨.oWait, by simp [mstep, hm, oooWait_of_quiet σ hi hq r]⟩
  | oWaited r =>
    refine ⟨.oGc σ.headMin σ.oooLo, ?_⟩
    have hl : σ.lastGC = r := by simpa [pendingOk, hm] using gp
    have h1 : (σ.data.all fun s => s.ooo || decide (s.t < σ.headMin) || decide (σ.headMin ≤ s.t)) = true := by
      simp only [List.all_eq_true, Bool.or_eq_true, decide_eq_true_eq]
      intro s _; omega
    have h2 : (σ.data.all fun s => !s.ooo || decide (s.ref ≤ r) || decide (σ.oooLo ≤ s.t)) = true := by
      simp only [List.all_eq_true, Bool.or_eq_true, decide_eq_true_eq, Bool.not_eq_eq_eq_not, Bool.not_true]
      intro s hs
      cases ho : s.ooo with
      | false => simp
      | true =>
        by_cases hr : s.ref ≤ r
        · simp [hr]
        · right; exact (hg.g3 s hs ho (by have := hg.g4; omega)).1
    simp [mstep, hm, h1, h2]
  | cWritten ps b => exact ⟨.cSwap, by simp [mstep, hm, hnl]⟩
  | deleting ps c =>
    cases c with
    | some p => exact ⟨.bRemove p, by simp [mstep, hm]⟩
    | none =>
      have hne : ps ≠ [] := by
        have := gp; simp only [pendingOk, hm] at this; exact this.2.2
      cases ps with
      | nil => exact absurd rfl hne
      | cons p rest =>
        exact ⟨.bClose p, by simp [mstep, hm, blockFree_of_quiet σ hq p]⟩

end Prom.CompactionProtocol
