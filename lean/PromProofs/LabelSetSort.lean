import PromProofs.LabelSetOrder
/-
  Helper lemmas for C39: sortedness predicates and the stable insertion sort.
-/
namespace Prom.Labels

/-- strictly increasing names -/
def Sorted (ls : LabelSet) : Prop := ls.Pairwise (fun a b => slt a.1 b.1 = true)
/-- non-decreasing names -/
def SortedLe (ls : LabelSet) : Prop := ls.Pairwise (fun a b => slt b.1 a.1 = false)

theorem sortedB_iff (ls : LabelSet) : sortedB ls = true ↔ Sorted ls := by
  unfold Sorted
  induction ls with
  | nil => simp [sortedB]
  | cons a rest ih =>
    cases rest with
    | nil => simp [sortedB]
    | cons b rest =>
      simp only [sortedB, Bool.and_eq_true, ih, List.pairwise_cons]
      constructor
      · rintro ⟨hab, hb, hrest⟩
        refine ⟨?_, hb, hrest⟩
        intro c hc
        rcases List.mem_cons.mp hc with rfl | hc
        · exact hab
        · exact slt_trans hab (hb c hc)
      · rintro ⟨ha, hb, hrest⟩
        exact ⟨ha b (List.mem_cons_self), hb, hrest⟩

theorem Sorted.sortedLe {ls : LabelSet} (h : Sorted ls) : SortedLe ls :=
  List.Pairwise.imp (fun h => slt_asymm h) h

theorem Sorted.nodup {ls : LabelSet} (h : Sorted ls) : (names ls).Nodup := by
  unfold names
  rw [List.nodup_iff_pairwise_ne, List.pairwise_map]
  exact List.Pairwise.imp (fun h => slt_ne h) h

theorem sorted_of_le_nodup {ls : LabelSet} (h : SortedLe ls) (hn : (names ls).Nodup) : Sorted ls := by
  unfold names at hn
  rw [List.nodup_iff_pairwise_ne, List.pairwise_map] at hn
  unfold Sorted
  have := List.Pairwise.and h hn
  refine List.Pairwise.imp ?_ this
  rintro a b ⟨h1, h2⟩
  rcases slt_total h2 with h | h
  · exact h
  · rw [h] at h1; cases h1

theorem insertByName_perm (x : Label) (acc : LabelSet) : (insertByName x acc).Perm (x :: acc) := by
  induction acc with
  | nil => simp [insertByName]
  | cons y ys ih =>
    simp only [insertByName]
    split
    · exact List.Perm.refl _
    · exact (List.Perm.cons y ih).trans (List.Perm.swap x y ys)

theorem insertByName_sortedLe (x : Label) {acc : LabelSet} (h : SortedLe acc) :
    SortedLe (insertByName x acc) := by
  induction acc with
  | nil => simp [insertByName, SortedLe]
  | cons y ys ih =>
    simp only [insertByName]
    have hy := List.pairwise_cons.mp h
    split
    · rename_i hxy
      refine List.pairwise_cons.mpr ⟨?_, h⟩
      intro c hc
      rcases List.mem_cons.mp hc with rfl | hc
      · exact slt_asymm hxy
      · -- x < y ≤ c
        have hyc := hy.1 c hc
        cases hcx : slt c.1 x.1 with
        | false => rfl
        | true => rw [slt_trans hcx hxy] at hyc; cases hyc
    · rename_i hxy
      refine List.pairwise_cons.mpr ⟨?_, ih hy.2⟩
      intro c hc
      have := (insertByName_perm x ys).mem_iff.mp hc
      rcases List.mem_cons.mp this with rfl | hc
      · simpa using hxy
      · exact hy.1 c hc

theorem foldl_insert_perm (xs acc : LabelSet) :
    (xs.foldl (fun acc x => insertByName x acc) acc).Perm (acc ++ xs) := by
  induction xs generalizing acc with
  | nil => simp
  | cons x xs ih =>
    simp only [List.foldl_cons]
    refine (ih _).trans ?_
    have := insertByName_perm x acc
    refine (List.Perm.append_right xs this).trans ?_
    simp only [List.cons_append]
    exact (List.perm_middle).symm

theorem foldl_insert_sortedLe (xs : LabelSet) {acc : LabelSet} (h : SortedLe acc) :
    SortedLe (xs.foldl (fun acc x => insertByName x acc) acc) := by
  induction xs generalizing acc with
  | nil => simpa
  | cons x xs ih => exact ih (insertByName_sortedLe x h)

theorem sortByName_perm (ls : LabelSet) : (sortByName ls).Perm ls := by
  simpa [sortByName] using foldl_insert_perm ls []

theorem sortByName_sortedLe (ls : LabelSet) : SortedLe (sortByName ls) :=
  foldl_insert_sortedLe ls (by simp [SortedLe])

theorem names_perm {a b : LabelSet} (h : a.Perm b) : (names a).Perm (names b) := List.Perm.map _ h

theorem sortByName_sorted {ls : LabelSet} (hn : (names ls).Nodup) : Sorted (sortByName ls) :=
  sorted_of_le_nodup (sortByName_sortedLe ls) ((names_perm (sortByName_perm ls)).nodup_iff.mpr hn)

/-- With distinct names, lookups see the same label before and after any permutation. -/
theorem find?_perm_nodup {a b : LabelSet} (h : a.Perm b) (hn : (names a).Nodup) (n : String) :
    a.find? (·.1 = n) = b.find? (·.1 = n) := by
  induction h with
  | nil => rfl
  | cons x _ ih =>
    simp only [List.find?_cons]
    split
    · rfl
    · exact ih (by simp [names] at hn ⊢; exact hn.2)
  | swap x y l =>
    simp only [List.find?_cons]
    simp only [names, List.map_cons, List.nodup_cons, List.mem_cons, not_or] at hn
    by_cases hx : x.1 = n <;> by_cases hy : y.1 = n <;> simp [hx, hy]
    exact absurd (hx.trans hy.symm) (Ne.symm hn.1.1)
  | trans h1 _ ih1 ih2 =>
    exact (ih1 hn).trans (ih2 ((names_perm h1).nodup_iff.mp hn))

end Prom.Labels
