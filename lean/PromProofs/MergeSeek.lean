import PromModel.Tsdb.Merge
import PromProofs.GoHeap
import PromProofs.Merge
import PromProofs.MergeTotal
/-
  C19: `chainSampleIterator.Seek` / `Next` scripts.  A chain over sorted error-free inputs answers every
  script exactly like a list iterator over the sorted de-duplicated union of the inputs' timestamps
  (simulation relation `Sim`, preserved by every `Next` and every `Seek t`, for ANY script).
-/
namespace Prom.Merge
open Prom.GoHeap

theorem pend_ge {T : Int} {cur : It} {h : Array It} (hi : LInv T cur h) : ∀ p ∈ pend cur h, T ≤ p.t := by
  intro p hp
  rcases mem_pend.1 hp with hpr | ⟨x, hx, hpx⟩
  · exact hi.ge p hpr
  · obtain ⟨hxwf, sx, hxs, hxge⟩ := hi.mem x hx
    rw [live_of_cur hxs] at hpx
    rcases List.mem_cons.1 hpx with rfl | hpx
    · exact hxge
    · have hsx : SortedL (sx :: x.rest) := by rw [← live_of_cur hxs]; exact hxwf
      have := (List.pairwise_cons.1 hsx).1 p hpx
      omega

/-! ## one input iterator -/

theorem dropWhile_sorted (t : Int) : ∀ {xs : List Sample}, SortedL xs →
    SortedL (xs.dropWhile fun s => s.t < t) ∧
      ∀ p, p ∈ xs.dropWhile (fun s => s.t < t) ↔ p ∈ xs ∧ t ≤ p.t := by
  intro xs
  induction xs with
  | nil => intro _; exact ⟨List.Pairwise.nil, by simp⟩
  | cons a xs ih =>
    intro hs
    have hs' := List.pairwise_cons.1 hs
    by_cases hlt : a.t < t
    · rw [List.dropWhile_cons_of_pos (by simpa using hlt)]
      obtain ⟨i1, i2⟩ := ih hs'.2
      refine ⟨i1, ?_⟩
      intro p; rw [i2 p]
      constructor
      · rintro ⟨a1, a2⟩; exact ⟨List.mem_cons_of_mem _ a1, a2⟩
      · rintro ⟨a1, a2⟩
        rcases List.mem_cons.1 a1 with rfl | a1
        · omega
        · exact ⟨a1, a2⟩
    · rw [List.dropWhile_cons_of_neg (by simpa using hlt)]
      refine ⟨hs, ?_⟩
      intro p
      constructor
      · intro hp
        refine ⟨hp, ?_⟩
        rcases List.mem_cons.1 hp with rfl | hp
        · omega
        · have := hs'.1 p hp; omega
      · exact fun hp => hp.1

def SeekRestPost (it : It) (t : Int) : It × Option Sample → Prop
  | (it', none) => it'.done = true ∧ it'.errEnd = it.errEnd ∧ it'.rest = [] ∧ ∀ p ∈ it.rest, p.t < t
  | (it', some s) => it'.done = it.done ∧ it'.errEnd = it.errEnd ∧ it'.cur = some s ∧ t ≤ s.t ∧ it'.WF ∧
      ∀ p, p ∈ it'.live ↔ p ∈ it.rest ∧ t ≤ p.t

theorem seekRest_spec (it : It) (t : Int) (hs : SortedL it.rest) : SeekRestPost it t (it.seekRest t) := by
  obtain ⟨h1, h2⟩ := dropWhile_sorted t hs
  unfold It.seekRest
  cases hd : it.rest.dropWhile (fun s => s.t < t) with
  | nil =>
    refine ⟨rfl, rfl, rfl, ?_⟩
    intro p hp
    by_cases hlt : p.t < t
    · exact hlt
    · have := (h2 p).2 ⟨hp, by omega⟩
      rw [hd] at this; simp at this
  | cons s r =>
    rw [hd] at h1 h2
    refine ⟨rfl, rfl, rfl, ((h2 s).1 (by simp)).2, by simpa [It.WF, It.live] using h1, ?_⟩
    intro p
    rw [← h2 p]; simp [It.live]

def SeekPost (it : It) (t : Int) : It × Option Sample → Prop
  | (it', none) => it'.done = true ∧ it'.errEnd = it.errEnd ∧ (it.done = false → ∀ p ∈ it.live, p.t < t)
  | (it', some s) => it.done = false ∧ it'.done = false ∧ it'.errEnd = it.errEnd ∧ it'.cur = some s ∧ t ≤ s.t ∧
      it'.WF ∧ ∀ p, p ∈ it'.live ↔ p ∈ it.live ∧ t ≤ p.t

theorem seek_spec (it : It) (t : Int) (hwf0 : it.done = false → it.WF) : SeekPost it t (it.seek t) := by
  unfold It.seek
  by_cases hd : it.done = true
  · rw [if_pos hd]
    exact ⟨hd, rfl, fun h => by simp [hd] at h⟩
  · rw [if_neg hd]
    have hd' : it.done = false := by simpa using hd
    have hwf := hwf0 hd'
    have hsr : SortedL it.rest := List.Pairwise.sublist (List.sublist_append_right _ _) hwf
    have hrest := seekRest_spec it t hsr
    cases hc : it.cur with
    | none =>
      simp only
      have hlive : it.live = it.rest := by simp [It.live, hc]
      cases hr : it.seekRest t with
      | mk it' o =>
        rw [hr] at hrest
        cases o with
        | none => exact ⟨hrest.1, hrest.2.1, fun _ => by rw [hlive]; exact hrest.2.2.2⟩
        | some s =>
          obtain ⟨a1, a2, a3, a4, a5, a6⟩ := hrest
          exact ⟨hd', by rw [a1, hd'], a2, a3, a4, a5, by rw [hlive]; exact a6⟩
    | some s =>
      simp only
      have hlive : it.live = s :: it.rest := live_of_cur hc
      have hsl : SortedL (s :: it.rest) := by rw [← hlive]; exact hwf
      have hgt := (List.pairwise_cons.1 hsl).1
      by_cases hge : s.t ≥ t
      · rw [if_pos hge]
        refine ⟨hd', hd', rfl, hc, hge, hwf, ?_⟩
        intro p
        constructor
        · intro hp
          refine ⟨hp, ?_⟩
          rw [hlive] at hp
          rcases List.mem_cons.1 hp with rfl | hp
          · exact hge
          · have := hgt p hp; omega
        · exact fun hp => hp.1
      · rw [if_neg hge]
        cases hr : it.seekRest t with
        | mk it' o =>
          rw [hr] at hrest
          cases o with
          | none =>
            refine ⟨hrest.1, hrest.2.1, fun _ p hp => ?_⟩
            rw [hlive] at hp
            rcases List.mem_cons.1 hp with rfl | hp
            · omega
            · exact hrest.2.2.2 p hp
          | some s' =>
            obtain ⟨a1, a2, a3, a4, a5, a6⟩ := hrest
            refine ⟨hd', by rw [a1, hd'], a2, a3, a4, a5, ?_⟩
            intro p; rw [a6 p, hlive]
            constructor
            · rintro ⟨b1, b2⟩; exact ⟨List.mem_cons_of_mem _ b1, b2⟩
            · rintro ⟨b1, b2⟩
              rcases List.mem_cons.1 b1 with rfl | b1
              · omega
              · exact ⟨b1, b2⟩

/-! ## the `Seek` loop over all iterators -/

theorem seekAll_spec (t : Int) : ∀ l h0 d0, (∀ it ∈ l, it.errEnd = false ∧ (it.done = false → it.WF)) → HInv t h0 →
    (∀ x ∈ h0, x.done = false ∧ x.errEnd = false) → (∀ x ∈ d0, x.done = true ∧ x.errEnd = false) →
    ∃ h d, seekAll t l h0 d0 = some (h, d) ∧ HInv t h ∧ (∀ x ∈ h, x.done = false ∧ x.errEnd = false) ∧
      (∀ x ∈ d, x.done = true ∧ x.errEnd = false) ∧
      ∀ p, p ∈ heapPend h ↔ p ∈ heapPend h0 ∨ ∃ it ∈ l, it.done = false ∧ p ∈ it.live ∧ t ≤ p.t := by
  intro l
  induction l with
  | nil => intro h0 d0 _ hi hm dm; exact ⟨h0, d0, rfl, hi, hm, dm, by simp⟩
  | cons it tl ih =>
    intro h0 d0 hl hi hm dm
    obtain ⟨herr, hwf⟩ := hl it (by simp)
    have hsp := seek_spec it t hwf
    unfold seekAll
    cases hs : it.seek t with
    | mk it' o =>
      rw [hs] at hsp
      cases o with
      | none =>
        obtain ⟨a1, a2, a3⟩ := hsp
        have : it'.err = false := by simp [It.err, a2, herr]
        simp only [this, Bool.false_eq_true, if_false]
        obtain ⟨h, d, e1, e2, e3, e4, e5⟩ := ih h0 (it' :: d0) (fun x hx => hl x (by simp [hx])) hi hm (by
          intro x hx
          rcases List.mem_cons.1 hx with rfl | hx
          · exact ⟨a1, by rw [a2, herr]⟩
          · exact dm x hx)
        refine ⟨h, d, e1, e2, e3, e4, ?_⟩
        intro p; rw [e5 p]
        constructor
        · rintro (hp | ⟨x, hx, hp⟩)
          · exact Or.inl hp
          · exact Or.inr ⟨x, by simp [hx], hp⟩
        · rintro (hp | ⟨x, hx, hp⟩)
          · exact Or.inl hp
          · rcases List.mem_cons.1 hx with rfl | hx
            · have := a3 hp.1 p hp.2.1; omega
            · exact Or.inr ⟨x, hx, hp⟩
      | some s =>
        obtain ⟨a0, a1, a2, a3, a4, a5, a6⟩ := hsp
        simp only
        have hH : HInv t (push ltIt h0 it') := by
          refine ⟨isHeap_push sw_ltIt h0 _ hi.heap, ?_⟩
          intro x hx
          rcases (mem_heap_push _ _ _ _).1 hx with hx | rfl
          · exact hi.mem x hx
          · exact ⟨a5, s, a3, a4⟩
        obtain ⟨h, d, e1, e2, e3, e4, e5⟩ := ih (push ltIt h0 it') d0 (fun x hx => hl x (by simp [hx])) hH (by
          intro x hx
          rcases (mem_heap_push _ _ _ _).1 hx with hx | rfl
          · exact hm x hx
          · exact ⟨a1, by rw [a2, herr]⟩) dm
        refine ⟨h, d, e1, e2, e3, e4, ?_⟩
        intro p; rw [e5 p]
        have hpush : p ∈ heapPend (push ltIt h0 it') ↔ p ∈ heapPend h0 ∨ p ∈ it'.live := by
          rw [mem_heapPend, mem_heapPend]
          constructor
          · rintro ⟨x, hx, hp⟩
            rcases (mem_heap_push _ _ _ _).1 hx with hx | rfl
            · exact Or.inl ⟨x, hx, hp⟩
            · exact Or.inr hp
          · rintro (⟨x, hx, hp⟩ | hp)
            · exact ⟨x, (mem_heap_push _ _ _ _).2 (Or.inl hx), hp⟩
            · exact ⟨_, (mem_heap_push _ _ _ _).2 (Or.inr rfl), hp⟩
        rw [hpush, a6 p]
        constructor
        · rintro ((hp | hp) | ⟨x, hx, hp⟩)
          · exact Or.inl hp
          · exact Or.inr ⟨it, by simp, a0, hp.1, hp.2⟩
          · exact Or.inr ⟨x, by simp [hx], hp⟩
        · rintro (hp | ⟨x, hx, hp⟩)
          · exact Or.inl (Or.inl hp)
          · rcases List.mem_cons.1 hx with rfl | hx
            · exact Or.inl (Or.inr ⟨hp.2.1, hp.2.2⟩)
            · exact Or.inr ⟨x, hx, hp⟩

/-- popping the rebuilt heap: the popped iterator becomes `curr`, its sample the new `lastT` -/
theorem pop_post (T : Int) (h : Array It) (hi : HInv T h) (hne : h.size ≠ 0) :
    ∃ x h' sx, pop ltIt h = some (x, h') ∧ x.cur = some sx ∧ LInv sx.t x h' ∧ T ≤ sx.t ∧ sx ∈ heapPend h ∧
      (∀ p, p ∈ pend x h' → p ∈ heapPend h) ∧ (∀ p, p ∈ heapPend h → p = sx ∨ p ∈ pend x h') ∧
      x ∈ h ∧ ∀ y ∈ h', y ∈ h := by
  obtain ⟨x, h', hpop, _, hheap', hmem, hmin⟩ := pop_cor sw_ltIt h hi.heap hne
  have hx : x ∈ h := (hmem x).2 (Or.inl rfl)
  obtain ⟨hxwf, s, hxs, hxge⟩ := hi.mem x hx
  have hlive := live_of_cur hxs
  have hxsorted : SortedL (s :: x.rest) := by rw [← hlive]; exact hxwf
  have hrest : ∀ q ∈ x.rest, s.t < q.t := (List.pairwise_cons.1 hxsorted).1
  refine ⟨x, h', s, hpop, hxs, ⟨⟨hheap', ?_⟩, hxwf, fun q hq => Int.le_of_lt (hrest q hq)⟩, hxge, ?_, ?_, ?_, hx,
    fun y hy => (hmem y).2 (Or.inr hy)⟩
  · intro y hy
    have hyh : y ∈ h := (hmem y).2 (Or.inr hy)
    obtain ⟨hywf, sy, hys, _⟩ := hi.mem y hyh
    refine ⟨hywf, sy, hys, ?_⟩
    have := hmin y hyh
    simp only [ltIt, It.atT, hys, hxs, decide_eq_false_iff_not] at this
    omega
  · exact mem_heapPend.2 ⟨x, hx, by rw [hlive]; exact List.mem_cons_self⟩
  · intro p hp
    rw [mem_pend] at hp
    rw [mem_heapPend]
    rcases hp with hp | ⟨y, hy, hp⟩
    · exact ⟨x, hx, by rw [hlive]; exact List.mem_cons_of_mem _ hp⟩
    · exact ⟨y, (hmem y).2 (Or.inr hy), hp⟩
  · intro p hp
    rw [mem_heapPend] at hp
    obtain ⟨y, hy, hp⟩ := hp
    rcases (hmem y).1 hy with rfl | hy'
    · rw [hlive] at hp
      rcases List.mem_cons.1 hp with rfl | hp
      · exact Or.inl rfl
      · exact Or.inr (mem_pend.2 (Or.inl hp))
    · exact Or.inr (mem_pend.2 (Or.inr ⟨y, hy', hp⟩))

/-! ## the full branch of `Seek` -/

def seekFull (c : Chain) (t : Int) : Chain × Res :=
  match seekAll t c.all #[] [] with
  | none => ({ c with failed := true }, .err)
  | some (h, dead) =>
    match GoHeap.pop ltIt h with
    | some (x, h') =>
      let (x', r) := x.seek x.atT
      ({ c with consecutive := false, h := some h', curr := some x', dead, lastT := x.atT }, resOfOpt x' r)
    | none => ({ c with consecutive := false, h := some h, curr := none, dead }, .fin)

theorem seek_eq (c : Chain) (t : Int) : c.seek t =
    if c.failed then (c, .err) else
    match c.curr with
    | some cur =>
      if c.lastT ≥ t then
        let (cur', r) := cur.seek c.lastT
        ({ c with curr := some cur' }, resOfOpt cur' r)
      else seekFull c t
    | none => seekFull c t := rfl

def SeekFullPost (Q : Sample → Prop) : Chain × Res → Prop
  | (c', .val s) => Q s ∧ ∃ cur' h', Run c' cur' h' ∧ c'.lastT = s.t ∧ (∀ p, p ∈ pend cur' h' → Q p) ∧
      (∀ p, Q p → p = s ∨ p ∈ pend cur' h')
  | (c', .fin) => Fin c' ∧ ∀ p, ¬ Q p
  | _ => False

theorem pop_empty {α} (lt : α → α → Bool) (a : Array α) (h : a.size = 0) : pop lt a = none := by
  unfold pop; simp [h]

theorem seekFull_spec (c : Chain) (t : Int) (hnf : c.failed = false)
    (hall : ∀ it ∈ c.all, it.errEnd = false ∧ (it.done = false → it.WF)) :
    SeekFullPost (fun p => ∃ it ∈ c.all, it.done = false ∧ p ∈ it.live ∧ t ≤ p.t) (seekFull c t) := by
  have hH0 : HInv t (#[] : Array It) := ⟨isHeap_empty _, by simp⟩
  obtain ⟨h2, d2, e1, e2, e3, e4, e5⟩ := seekAll_spec t c.all #[] [] hall hH0 (by simp) (by simp)
  have hQ : ∀ p, p ∈ heapPend h2 ↔ ∃ it ∈ c.all, it.done = false ∧ p ∈ it.live ∧ t ≤ p.t := by
    intro p; rw [e5 p]; simp [heapPend]
  unfold seekFull
  rw [e1]
  simp only
  by_cases hsz : h2.size = 0
  · rw [pop_empty _ _ hsz]
    have : h2 = #[] := by simpa using hsz
    subst this
    refine ⟨⟨hnf, rfl, rfl, e4⟩, ?_⟩
    intro p hp
    have := (hQ p).2 hp
    simp [heapPend] at this
  · obtain ⟨x, h', sx, f1, f2, f3, f4, f5, f6, f7, f8, f9⟩ := pop_post t h2 e2 hsz
    rw [f1]
    have hxd := (e3 x f8).1
    have hat : x.atT = sx.t := by simp [It.atT, f2]
    have hseek : x.seek x.atT = (x, some sx) := by
      unfold It.seek
      simp [hxd, f2, hat]
    simp only [hseek, resOfOpt]
    refine ⟨(hQ sx).1 f5, x, h', ⟨⟨hnf, rfl, rfl, by rw [hat]; exact f3⟩, ⟨hxd, (e3 x f8).2, fun y hy => e3 y (f9 y hy), e4⟩,
      sx, f2, hat.symm⟩, hat, fun p hp => (hQ p).1 (f6 p hp), fun p hp => f7 p ((hQ p).2 hp)⟩

/-! ## simulation by the reference list iterator -/

/-- what the reference iterator has left: strictly increasing, timestamps = the pending ones above `lastT` -/
def RestOK (lastT : Int) (P : Sample → Prop) (rest : List Sample) : Prop :=
  SortedL rest ∧ ∀ t, t ∈ rest.map (·.t) ↔ lastT < t ∧ ∃ p, P p ∧ p.t = t

inductive Sim : Chain → It → Prop
  | fresh {c i} : FreshC c → i.cur = none → i.done = false →
      RestOK MinI64 (fun p => ∃ it ∈ c.its, p ∈ it.rest) i.rest → Sim c i
  | run {c i} (cur : It) (h : Array It) : Run c cur h → (∃ s0, i.cur = some s0 ∧ s0.t = c.lastT) → i.done = false →
      RestOK c.lastT (· ∈ pend cur h) i.rest → Sim c i
  | fin {c i} : Fin c → i.done = true → i.rest = [] → Sim c i
  | failed {c i} : c.failed = true → i.done = true → i.rest = [] → Sim c i

def tsOf : Res → Option Int
  | .val s => some s.t
  | _ => none

theorem next_sim_generic (lastT : Int) (P : Sample → Prop) (n0 : Nat) (c' : Chain) (r : Res)
    (hpost : NextPost2 lastT P n0 (c', r)) (i : It) (hr : RestOK lastT P i.rest) (hdone : i.done = false) :
    Sim c' i.next.1 ∧ tsOf r = i.next.2.map (·.t) := by
  obtain ⟨hsorted, hmem⟩ := hr
  cases r with
  | val s =>
    obtain ⟨hlt, hPs, cur', h', st', hlast, _, hsub, hcompl⟩ := hpost
    have hge := pend_ge (hlast ▸ st'.inv)
    have hleast : ∀ p, P p → lastT < p.t → s.t ≤ p.t := by
      intro p hp hplt
      rcases hcompl p hp hplt with h1 | h1
      · omega
      · exact hge p h1
    cases hrest : i.rest with
    | nil =>
      have := (hmem s.t).2 ⟨hlt, s, hPs, rfl⟩
      simp [hrest] at this
    | cons a r' =>
      rw [hrest] at hsorted hmem
      have hsr := List.pairwise_cons.1 hsorted
      have hat : a.t = s.t := by
        obtain ⟨ha1, p, hp, hpt⟩ := (hmem a.t).1 (by simp)
        have h1 := hleast p hp (by omega)
        have h2 := (hmem s.t).2 ⟨hlt, s, hPs, rfl⟩
        simp only [List.map_cons, List.mem_cons, List.mem_map] at h2
        rcases h2 with h2 | ⟨b, hb, hbt⟩
        · omega
        · have := hsr.1 b hb; omega
      have hnext : i.next = ({ i with cur := some a, rest := r' }, some a) := by
        unfold It.next; rw [hrest]
      rw [hnext]
      refine ⟨Sim.run cur' h' st' ⟨a, rfl, by rw [hat, hlast]⟩ hdone ⟨hsr.2, ?_⟩, by simp [tsOf, hat]⟩
      intro t
      rw [hlast]
      constructor
      · intro ht
        obtain ⟨b, hb, hbt⟩ := List.mem_map.1 ht
        have hab := hsr.1 b hb
        obtain ⟨h1, p, hp, hpt⟩ := (hmem t).1 (by simp only [List.map_cons, List.mem_cons]; exact Or.inr ht)
        refine ⟨by omega, p, ?_, hpt⟩
        rcases hcompl p hp (by omega) with h2 | h2
        · omega
        · exact h2
      · rintro ⟨h1, p, hp, hpt⟩
        have := (hmem t).2 ⟨by omega, p, hsub p hp, hpt⟩
        simp only [List.map_cons, List.mem_cons] at this
        rcases this with h2 | h2
        · omega
        · exact h2
  | fin =>
    obtain ⟨hfin, hall⟩ := hpost
    have hrest : i.rest = [] := by
      cases hrest : i.rest with
      | nil => rfl
      | cons a r' =>
        obtain ⟨h1, p, hp, hpt⟩ := (hmem a.t).1 (by simp [hrest])
        have := hall p hp; omega
    have hnext : i.next = ({ i with cur := none, done := true }, none) := by
      unfold It.next; rw [hrest]
    rw [hnext]
    exact ⟨Sim.fin hfin rfl hrest, rfl⟩
  | err => exact hpost.elim
  | panic => exact hpost.elim

theorem next_done (i : It) (hrest : i.rest = []) :
    i.next = ({ i with cur := none, done := true }, none) := by
  unfold It.next; rw [hrest]

theorem next_sim (c : Chain) (i : It) (hs : Sim c i) : Sim c.next.1 i.next.1 ∧ tsOf c.next.2 = i.next.2.map (·.t) := by
  cases hs with
  | fresh hf hc hd hr =>
    by_cases hne : c.its = []
    · have hrest : i.rest = [] := by
        cases hrest : i.rest with
        | nil => rfl
        | cons a r' =>
          obtain ⟨_, p, ⟨it, hit, _⟩, _⟩ := (hr.2 a.t).1 (by simp [hrest])
          simp [hne] at hit
      have hnext : c.next = ({ c with failed := true }, .panic) := by
        unfold Chain.next; simp [hf.nf, hf.hh, hne]
      rw [hnext, next_done i hrest]
      exact ⟨Sim.failed rfl rfl hrest, rfl⟩
    · exact next_sim_generic MinI64 _ _ c.next.1 c.next.2 (next_fresh2 c hf hne) i hr hd
  | run cur h st hc hd hr =>
    exact next_sim_generic c.lastT _ _ c.next.1 c.next.2 (next_run c cur h st) i hr hd
  | fin hf hd hrest =>
    have hnext : c.next = (c, .fin) := by
      unfold Chain.next; simp [hf.nf, hf.hh, hf.hc]
    rw [hnext, next_done i hrest]
    exact ⟨Sim.fin hf rfl hrest, rfl⟩
  | failed hf hd hrest =>
    have hnext : c.next = (c, .err) := by
      unfold Chain.next; simp [hf]
    rw [hnext, next_done i hrest]
    exact ⟨Sim.failed hf rfl hrest, rfl⟩

theorem seek_sim_generic (lastT t : Int) (P Q : Sample → Prop) (c' : Chain) (r : Res)
    (hpost : SeekFullPost Q (c', r)) (hQ : ∀ p, Q p ↔ P p ∧ lastT < p.t ∧ t ≤ p.t)
    (i : It) (hr : RestOK lastT P i.rest) (hdone : i.done = false) :
    Sim c' (i.seekRest t).1 ∧ tsOf r = (i.seekRest t).2.map (·.t) := by
  obtain ⟨hsorted, hmem⟩ := hr
  have hsp := seekRest_spec i t hsorted
  cases hsr : i.seekRest t with
  | mk i' o =>
    rw [hsr] at hsp
    cases o with
    | none =>
      obtain ⟨a1, a2, a3, a4⟩ := hsp
      cases r with
      | val s =>
        obtain ⟨hQs, _⟩ := hpost
        obtain ⟨b1, b2, b3⟩ := (hQ s).1 hQs
        have := (hmem s.t).2 ⟨b2, s, b1, rfl⟩
        obtain ⟨b, hb, hbt⟩ := List.mem_map.1 this
        have := a4 b hb; omega
      | fin => exact ⟨Sim.fin hpost.1 a1 a3, rfl⟩
      | err => exact hpost.elim
      | panic => exact hpost.elim
    | some a =>
      obtain ⟨a1, a2, a3, a4, a5, a6⟩ := hsp
      have hlive : i'.live = a :: i'.rest := live_of_cur a3
      have hsl : SortedL (a :: i'.rest) := by rw [← hlive]; exact a5
      have hsl' := List.pairwise_cons.1 hsl
      have haQ : ∃ p, Q p ∧ p.t = a.t := by
        have ha := (a6 a).1 (by rw [hlive]; simp)
        obtain ⟨h1, p, hp, hpt⟩ := (hmem a.t).1 (List.mem_map.2 ⟨a, ha.1, rfl⟩)
        exact ⟨p, (hQ p).2 ⟨hp, by omega, by omega⟩, hpt⟩
      cases r with
      | fin => obtain ⟨p, hp, _⟩ := haQ; exact (hpost.2 p hp).elim
      | val s =>
        obtain ⟨hQs, cur', h', st', hlast, hsub, hcompl⟩ := hpost
        have hge := pend_ge (hlast ▸ st'.inv)
        obtain ⟨b1, b2, b3⟩ := (hQ s).1 hQs
        have hat : a.t = s.t := by
          obtain ⟨b, hb, hbt⟩ := List.mem_map.1 ((hmem s.t).2 ⟨b2, s, b1, rfl⟩)
          have hbl : b ∈ i'.live := (a6 b).2 ⟨hb, by omega⟩
          rw [hlive] at hbl
          have h1 : a.t ≤ s.t := by
            rcases List.mem_cons.1 hbl with rfl | hbl
            · omega
            · have := hsl'.1 b hbl; omega
          obtain ⟨p, hp, hpt⟩ := haQ
          rcases hcompl p hp with rfl | h2
          · omega
          · have := hge p h2; omega
        refine ⟨Sim.run cur' h' st' ⟨a, a3, by rw [hat, hlast]⟩ (by rw [a1, hdone]) ⟨hsl'.2, ?_⟩, by simp [tsOf, hat]⟩
        intro t'
        rw [hlast]
        constructor
        · intro ht
          obtain ⟨b, hb, hbt⟩ := List.mem_map.1 ht
          have hab := hsl'.1 b hb
          have hbl := (a6 b).1 (by rw [hlive]; exact List.mem_cons_of_mem _ hb)
          obtain ⟨h1, p, hp, hpt⟩ := (hmem b.t).1 (List.mem_map.2 ⟨b, hbl.1, rfl⟩)
          have hQp := (hQ p).2 ⟨hp, by omega, by omega⟩
          refine ⟨by omega, p, ?_, by omega⟩
          rcases hcompl p hQp with rfl | h2
          · omega
          · exact h2
        · rintro ⟨h1, p, hp, hpt⟩
          obtain ⟨c1, c2, c3⟩ := (hQ p).1 (hsub p hp)
          obtain ⟨b, hb, hbt⟩ := List.mem_map.1 ((hmem p.t).2 ⟨c2, p, c1, rfl⟩)
          have hbl : b ∈ i'.live := (a6 b).2 ⟨hb, by omega⟩
          rw [hlive] at hbl
          rcases List.mem_cons.1 hbl with rfl | hbl
          · omega
          · exact List.mem_map.2 ⟨b, hbl, by omega⟩
      | err => exact hpost.elim
      | panic => exact hpost.elim

theorem seek_sim (c : Chain) (i : It) (t : Int) (hs : Sim c i) :
    Sim (c.seek t).1 (i.seek t).1 ∧ tsOf (c.seek t).2 = (i.seek t).2.map (·.t) := by
  rw [seek_eq]
  cases hs with
  | fresh hf hc hd hr =>
    have hall : c.all = c.its := by simp [Chain.all, hf.hh]
    have hiseek : i.seek t = i.seekRest t := by unfold It.seek; simp [hd, hc]
    simp only [hf.nf, hf.hc, Bool.false_eq_true, if_false]
    rw [hiseek]
    have hpost := seekFull_spec c t hf.nf (by
      intro it hit
      rw [hall] at hit
      obtain ⟨⟨h1, h2, _⟩, _, h4⟩ := hf.its it hit
      exact ⟨h4, fun _ => by simpa [It.WF, It.live, h1] using h2⟩)
    refine seek_sim_generic MinI64 t _ _ _ _ hpost ?_ i hr hd
    intro p
    rw [hall]
    constructor
    · rintro ⟨it, hit, _, hp, hpt⟩
      obtain ⟨⟨h1, _, h3⟩, _, _⟩ := hf.its it hit
      have hp' : p ∈ it.rest := by simpa [It.live, h1] using hp
      exact ⟨⟨it, hit, hp'⟩, h3 p hp', hpt⟩
    · rintro ⟨⟨it, hit, hp⟩, _, hpt⟩
      obtain ⟨⟨h1, _, _⟩, h3, _⟩ := hf.its it hit
      exact ⟨it, hit, h3, by simpa [It.live, h1] using hp, hpt⟩
  | run cur h st hc hd hr =>
    obtain ⟨s0, hs0, hs0t⟩ := st.cs
    obtain ⟨a0, ha0, ha0t⟩ := hc
    simp only [st.nf, st.hc, Bool.false_eq_true, if_false]
    by_cases hge : c.lastT ≥ t
    · rw [if_pos hge]
      have hcseek : cur.seek c.lastT = (cur, some s0) := by
        unfold It.seek; simp [st.aux.cd, hs0, hs0t]
      have hiseek : i.seek t = (i, some a0) := by
        unfold It.seek; simp [hd, ha0, ha0t, hge]
      have hceq : Chain.mk c.its c.h (some cur) c.dead c.lastT c.consecutive false = c := by
        have h1 := st.hc
        have h2 := st.nf
        cases c; simp at h1 h2; simp [h1, h2]
      simp only [hcseek, hiseek, resOfOpt]
      rw [hceq]
      exact ⟨Sim.run cur h st ⟨a0, ha0, ha0t⟩ hd hr, by simp [tsOf, hs0t, ha0t]⟩
    · rw [if_neg hge]
      have hlt : c.lastT < t := by omega
      have hiseek : i.seek t = i.seekRest t := by
        unfold It.seek; simp [hd, ha0, ha0t]; intro h; omega
      rw [hiseek]
      have hall : ∀ it, it ∈ c.all ↔ it = cur ∨ it ∈ h ∨ it ∈ c.dead := by
        intro it; simp [Chain.all, st.hh, st.hc]
      have hpost := seekFull_spec c t st.nf (by
        intro it hit
        rcases (hall it).1 hit with rfl | hit | hit
        · exact ⟨st.aux.ce, fun _ => st.inv.wf⟩
        · exact ⟨(st.aux.hm it hit).2, fun _ => (st.inv.mem it hit).1⟩
        · exact ⟨(st.aux.dm it hit).2, fun hdn => by simp [(st.aux.dm it hit).1] at hdn⟩)
      refine seek_sim_generic c.lastT t _ _ _ _ hpost ?_ i hr hd
      intro p
      have hlive := live_of_cur hs0
      constructor
      · rintro ⟨it, hit, hdn, hp, hpt⟩
        refine ⟨?_, by omega, hpt⟩
        rcases (hall it).1 hit with rfl | hit | hit
        · rw [hlive] at hp
          rcases List.mem_cons.1 hp with rfl | hp
          · omega
          · exact mem_pend.2 (Or.inl hp)
        · exact mem_pend.2 (Or.inr ⟨it, hit, hp⟩)
        · simp [(st.aux.dm it hit).1] at hdn
      · rintro ⟨hp, _, hpt⟩
        rcases mem_pend.1 hp with hp | ⟨x, hx, hp⟩
        · exact ⟨cur, (hall cur).2 (Or.inl rfl), st.aux.cd, by rw [hlive]; exact List.mem_cons_of_mem _ hp, hpt⟩
        · exact ⟨x, (hall x).2 (Or.inr (Or.inl hx)), (st.aux.hm x hx).1, hp, hpt⟩
  | fin hf hd hrest =>
    simp only [hf.nf, hf.hc, Bool.false_eq_true, if_false]
    have hiseek : i.seek t = (i, none) := by unfold It.seek; simp [hd]
    rw [hiseek]
    have hall : ∀ it, it ∈ c.all ↔ it ∈ c.dead := by
      intro it; simp [Chain.all, hf.hh, hf.hc]
    have hpost := seekFull_spec c t hf.nf (by
      intro it hit
      have := hf.dm it ((hall it).1 hit)
      exact ⟨this.2, fun hdn => by simp [this.1] at hdn⟩)
    cases hsf : seekFull c t with
    | mk c' r =>
      rw [hsf] at hpost
      cases r with
      | val s =>
        obtain ⟨⟨it, hit, hdn, _⟩, _⟩ := hpost
        have := hf.dm it ((hall it).1 hit)
        simp [this.1] at hdn
      | fin => exact ⟨Sim.fin hpost.1 hd hrest, rfl⟩
      | err => exact hpost.elim
      | panic => exact hpost.elim
  | failed hf hd hrest =>
    have hiseek : i.seek t = (i, none) := by unfold It.seek; simp [hd]
    simp only [hf, if_true]
    rw [hiseek]
    exact ⟨Sim.failed hf hd hrest, rfl⟩

/-! ## scripts -/

theorem script_sim (script : List (Option Int)) : ∀ (c : Chain) (i : It) (acc : List (Option Int)), Sim c i →
    (script.foldl (fun (acc : Chain × List (Option Int)) op =>
      let (c', r) := match op with | some t => acc.1.seek t | none => acc.1.next
      (c', acc.2 ++ [match r with | .val s => some s.t | _ => none])) (c, acc)).2 =
    (script.foldl (fun (acc : It × List (Option Int)) op =>
      let (i', r) := match op with | some t => acc.1.seek t | none => acc.1.next
      (i', acc.2 ++ [r.map (·.t)])) (i, acc)).2 := by
  induction script with
  | nil => intro c i acc _; rfl
  | cons op rest ih =>
    intro c i acc hs
    simp only [List.foldl_cons]
    cases op with
    | none =>
      obtain ⟨h1, h2⟩ := next_sim c i hs
      have : (match c.next.2 with | .val s => some s.t | _ => none) = i.next.2.map (·.t) := by
        rw [← h2]; cases c.next.2 <;> rfl
      simp only [this]
      exact ih _ _ _ h1
    | some t =>
      obtain ⟨h1, h2⟩ := seek_sim c i t hs
      have : (match (c.seek t).2 with | .val s => some s.t | _ => none) = (i.seek t).2.map (·.t) := by
        rw [← h2]; cases (c.seek t).2 <;> rfl
      simp only [this]
      exact ih _ _ _ h1

theorem eraseDups_strict : ∀ (l : List Int), l.Pairwise (· ≤ ·) → l.eraseDups.Pairwise (· < ·)
  | [], _ => by simp
  | a :: as, h => by
    rw [List.eraseDups_cons]
    have h' := List.pairwise_cons.1 h
    refine List.pairwise_cons.2 ⟨?_, ?_⟩
    · intro x hx
      rw [List.mem_eraseDups, List.mem_filter] at hx
      have := h'.1 x hx.1
      have hne : x ≠ a := by simpa using hx.2
      omega
    · exact eraseDups_strict _ (List.Pairwise.sublist List.filter_sublist h'.2)
termination_by l => l.length
decreasing_by
  simp only [List.length_cons]
  exact Nat.lt_succ_of_le (List.length_filter_le _ _)

/-- the reference iterator over the sorted de-duplicated union simulates the fresh chain -/
theorem sim_init (inputs : List (List Sample)) (hin : ∀ l ∈ inputs, SortedL l ∧ ∀ s ∈ l, MinI64 < s.t) :
    Sim (Chain.ofLists (inputs.map fun l => (l, false)))
      (It.ofList 0 (((inputs.flatten.map (·.t)).mergeSort (· ≤ ·)).eraseDups.map fun t => ⟨t, .float, 0⟩)) := by
  refine Sim.fresh (ofLists_fresh inputs hin) rfl rfl ⟨?_, ?_⟩
  · show SortedL (List.map _ _)
    unfold SortedL
    rw [List.pairwise_map]
    apply eraseDups_strict
    have := List.pairwise_mergeSort (le := fun (a b : Int) => decide (a ≤ b))
      (by intro a b c; simp; omega) (by intro a b; simp; omega) (inputs.flatten.map (·.t))
    simpa using this
  · intro t
    have hP : ∀ p, (∃ it ∈ (Chain.ofLists (inputs.map fun l => (l, false))).its, p ∈ it.rest) ↔ ∃ l ∈ inputs, p ∈ l := by
      intro p
      conv => rhs; rw [← ofLists_rest inputs]
      simp only [List.mem_map]
      constructor
      · rintro ⟨it, h1, h2⟩; exact ⟨it.rest, ⟨it, h1, rfl⟩, h2⟩
      · rintro ⟨l, ⟨it, h1, rfl⟩, h2⟩; exact ⟨it, h1, h2⟩
    simp only [hP]
    show t ∈ List.map _ (List.map _ _) ↔ _
    rw [List.map_map]
    simp only [Function.comp_def, List.map_id', List.mem_eraseDups, List.mem_mergeSort, List.mem_map, List.mem_flatten]
    constructor
    · rintro ⟨p, ⟨l, hl, hp⟩, rfl⟩
      exact ⟨(hin l hl).2 p hp, p, ⟨l, hl, hp⟩, rfl⟩
    · rintro ⟨_, p, ⟨l, hl, hp⟩, rfl⟩
      exact ⟨p, ⟨l, hl, hp⟩, rfl⟩

end Prom.Merge
