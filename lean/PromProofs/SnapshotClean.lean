import PromProofs.Snapshot
/-
  C23, clean shutdown: the snapshot written by `closeWithSnapshot` together with the m-mapped chunks
  restores exactly the series of the live head, for every cut between m-mapped chunks and head chunk.
-/
namespace Prom.Db
open Prom.Intervals

theorem find_map_idx {β : Type} (f : HSeries → β) : ∀ (l : List HSeries), (l.map (·.idx)).Nodup →
    ∀ s ∈ l, (l.map fun t => (t.idx, f t)).find? (fun p => decide (p.1 = s.idx)) = some (s.idx, f s)
  | [], _, s, hs => absurd hs List.not_mem_nil
  | t :: ts, hnd, s, hs => by
    rw [List.map_cons, List.nodup_cons] at hnd
    rw [List.map_cons, List.find?_cons]
    by_cases e : t.idx = s.idx
    · have : s = t := by
        rcases List.mem_cons.mp hs with h | h
        · exact h
        · exact absurd (List.mem_map.mpr ⟨s, h, e.symm⟩) hnd.1
      subst this
      simp
    · have hs' : s ∈ ts := by
        rcases List.mem_cons.mp hs with h | h
        · exact absurd (by rw [h]) e
        · exact h
      simp only [e, decide_false]
      exact find_map_idx f ts hnd.2 s hs'

/-- The head described by the snapshot of a clean shutdown is the live head. -/
theorem headSeries_close (cut : Nat → Nat) (x : SnapDb) (mv : Int)
    (hnd : (x.db.series.map (·.idx)).Nodup)
    (hge : ∀ s ∈ x.db.series, ∀ p ∈ s.phys, mv ≤ p.t) :
    ∃ s, (x.closeWithSnapshot cut).snap = some s ∧ s.pos = x.db.wal.length ∧ s.seg = x.seg ∧ s.loads = true ∧
      s.headSeries (x.closeWithSnapshot cut).mm mv = x.db.series := by
  refine ⟨_, rfl, rfl, rfl, rfl, ?_⟩
  unfold Snap.headSeries SnapDb.closeWithSnapshot Db.closeState
  simp only [List.map_map]
  conv => rhs; rw [← List.map_id x.db.series]
  apply List.map_congr_left
  intro s hs
  simp only [Function.comp, id]
  have h1 := find_map_idx (fun t => t.phys.take (t.phys.length - headLen cut t.idx t.phys.length)) x.db.series hnd s hs
  have h2 := find_map_idx (fun t => t.tombs) x.db.series hnd s hs
  unfold mmOf tombsOf
  simp only [h1, h2, Option.map_some, Option.getD_some]
  have hf : (s.phys.take (s.phys.length - headLen cut s.idx s.phys.length)).filter (fun p => decide (mv ≤ p.t)) =
      s.phys.take (s.phys.length - headLen cut s.idx s.phys.length) := by
    apply List.filter_eq_self.mpr
    intro p hp
    simpa using hge s hs p (List.mem_of_mem_take hp)
  rw [hf, List.take_append_drop]

theorem loadSnapshot_empty_tail (mm0 : Option Int) (d : Db) (mm : List (Nat × List Smp)) (s : Snap)
    (hdrop : d.wal.drop s.pos = []) :
    loadSnapshot mm0 d mm s =
      initHeadFrom { d.rwBase with series := s.headSeries mm d.rwCut } d.rwCut
        ((s.headSeries mm d.rwCut).foldl (fun acc h => physLoHi acc h.phys) (MaxI64, MinI64)).1
        ((s.headSeries mm d.rwCut).foldl (fun acc h => physLoHi acc h.phys) (MaxI64, MinI64)).2 [] := by
  unfold loadSnapshot
  rw [hdrop]
  rfl

theorem closeState_idem (d : Db) : d.closeState.closeState = d.closeState := rfl

/-- Clean shutdown with snapshot + start from the snapshot: the head series are exactly the live
    ones (series without samples are dropped, as `Head.gc` does), whatever the cut and `mm0`. -/
theorem clean_restart_series (mm0 : Option Int) (cut : Nat → Nat) (x : SnapDb)
    (hnd : (x.db.series.map (·.idx)).Nodup)
    (hge : ∀ s ∈ x.db.series, ∀ p ∈ s.phys, x.db.rwCut ≤ p.t) :
    ((x.closeWithSnapshot cut).reopenWithSnapshot mm0).db.series = x.db.series.filter (fun s => !s.phys.isEmpty) ∧
    ((x.closeWithSnapshot cut).reopenWithSnapshot mm0).db.blocks = x.db.blocks ∧
    ∀ s ∈ ((x.closeWithSnapshot cut).reopenWithSnapshot mm0).db.series, ∀ p ∈ s.phys,
      ((x.closeWithSnapshot cut).reopenWithSnapshot mm0).db.minT ≤ p.t := by
  obtain ⟨s, hsnap, hpos, hseg, hloads, hhead⟩ := headSeries_close cut x x.db.rwCut hnd hge
  have hseg' : (x.closeWithSnapshot cut).seg = x.seg := rfl
  have hdb : (x.closeWithSnapshot cut).db = x.db.closeState := rfl
  have huse : snapUse (x.seg + 1) (some s) = .used := by
    simp [snapUse, hseg, hloads]
  unfold SnapDb.reopenWithSnapshot
  rw [hsnap, hseg']
  simp only [huse, hdb, closeState_idem]
  -- the WAL behind the position is empty
  have hdrop : (x.db.closeState.wal.drop s.pos) = [] := by
    rw [hpos]; exact List.drop_length
  have hcut : x.db.closeState.rwCut = x.db.rwCut := rfl
  rw [loadSnapshot_empty_tail mm0 _ _ _ hdrop, hcut, hhead]
  generalize hlh : x.db.series.foldl (fun acc h => physLoHi acc h.phys) (MaxI64, MinI64) = lh
  obtain ⟨h1, lo1, hi1, e1, s1, b1, m1⟩ :=
    initHeadFrom_spec { x.db.closeState.rwBase with series := x.db.series } x.db.rwCut lh.1 lh.2 []
  simp only [List.foldl_nil, Prod.mk.injEq] at e1
  obtain ⟨rfl, rfl, rfl⟩ := e1
  refine ⟨s1, ?_, ?_⟩
  · rw [b1]; exact rwBase_blocks _
  · intro t ht p hp
    rw [s1] at ht
    have hmem := (List.mem_filter.mp ht).1
    have hlo := (seriesLo_le x.db.series (MaxI64, MinI64)).2 t hmem p hp
    rw [hlh] at hlo
    have hmv := hge t hmem p hp
    show (initHeadFrom _ _ _ _ _).minT ≤ p.t
    rw [m1]
    have hv : x.db.closeState.rwBase.minValid = x.db.rwCut := rwBase_minValid _
    show finMinT x.db.closeState.rwBase.minT x.db.closeState.rwBase.minValid lh.1 ≤ p.t
    unfold finMinT
    simp only []
    split <;> split <;> omega

end Prom.Db
