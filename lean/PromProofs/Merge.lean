import PromModel.Tsdb.Merge
import PromProofs.GoHeap
/-
  Lemmas for C19: the loop of `chainSampleIterator.Next` extracts the smallest pending timestamp that is
  larger than `lastT`, and keeps the invariant that makes the next call do the same.
-/
namespace Prom.Merge
open Prom.GoHeap

theorem sw_ltIt : StrictWeak ltIt where
  asymm a b h := by simp only [ltIt, decide_eq_true_eq, decide_eq_false_iff_not] at *; omega
  trans a b c h1 h2 := by simp only [ltIt, decide_eq_false_iff_not] at *; omega

theorem mem_heap_push {α} (lt : α → α → Bool) (a : Array α) (x y : α) :
    y ∈ push lt a x ↔ y ∈ a ∨ y = x := by
  rw [(perm_push lt a x).mem_iff]; simp

theorem pop_cor {α} {lt : α → α → Bool} (sw : StrictWeak lt) (a : Array α) (h : IsHeap lt a a.size)
    (hpos : a.size ≠ 0) :
    ∃ x a', pop lt a = some (x, a') ∧ a[0]? = some x ∧ IsHeap lt a' a'.size ∧
      (∀ y, y ∈ a ↔ y = x ∨ y ∈ a') ∧ ∀ y ∈ a, lt y x = false := by
  have hp : 0 < a.size := by omega
  obtain ⟨a', h1, h2, h3, h4⟩ := pop_spec sw a h hp
  refine ⟨a[0], a', h1, by simp [hp], h2, ?_, h4⟩
  intro y
  rw [← h3.mem_iff]; simp [or_comm]

/-! ## invariant of the `Next` loop -/

def SortedL (xs : List Sample) : Prop := xs.Pairwise (fun a b => a.t < b.t)

/-- current sample followed by what is left -/
def It.live (it : It) : List Sample := it.cur.toList ++ it.rest

def It.WF (it : It) : Prop := SortedL it.live

/-- samples not yet passed by the chain: the rest of `cur` and everything the heap members hold -/
def pend (cur : It) (h : Array It) : List Sample := cur.rest ++ h.toList.flatMap It.live

def heapPend (h : Array It) : List Sample := h.toList.flatMap It.live

structure HInv (lastT : Int) (h : Array It) : Prop where
  heap : IsHeap ltIt h h.size
  mem : ∀ x ∈ h, x.WF ∧ ∃ s, x.cur = some s ∧ lastT ≤ s.t

structure LInv (lastT : Int) (cur : It) (h : Array It) : Prop extends HInv lastT h where
  wf : cur.WF
  ge : ∀ s ∈ cur.rest, lastT ≤ s.t

/-- what one round of the loop guarantees relative to a set `P` of pending samples -/
def StepPost (lastT : Int) (P : Sample → Prop) : LoopOut → Prop
  | .brk c' s h' _ _ => lastT < s.t ∧ c'.cur = some s ∧ LInv s.t c' h' ∧ P s ∧
      (∀ p, p ∈ pend c' h' → P p) ∧ (∀ p, P p → lastT < p.t → p.t = s.t ∨ p ∈ pend c' h')
  | .fin _ _ => ∀ p, P p → p.t ≤ lastT
  | .cont c' h' _ _ => LInv lastT c' h' ∧ (∀ p, p ∈ pend c' h' → P p) ∧
      (∀ p, P p → lastT < p.t → p ∈ pend c' h')
  | .err => True
  | .fuel => True

theorem mem_heapPend {h : Array It} {p : Sample} : p ∈ heapPend h ↔ ∃ x ∈ h, p ∈ x.live := by
  simp [heapPend, List.mem_flatMap]

theorem mem_pend {cur : It} {h : Array It} {p : Sample} :
    p ∈ pend cur h ↔ p ∈ cur.rest ∨ ∃ x ∈ h, p ∈ x.live := by
  simp [pend, List.mem_flatMap]

theorem live_of_cur {x : It} {s : Sample} (h : x.cur = some s) : x.live = s :: x.rest := by
  simp [It.live, h]

theorem popStep_post (lastT : Int) (h : Array It) (dead : List It) (hi : HInv lastT h) (hne : h.size ≠ 0) :
    StepPost lastT (· ∈ heapPend h) (popStep lastT h dead) := by
  obtain ⟨x, h', hpop, _, hheap', hmem, hmin⟩ := pop_cor sw_ltIt h hi.heap hne
  unfold popStep
  rw [hpop]
  have hx : x ∈ h := (hmem x).2 (Or.inl rfl)
  obtain ⟨hxwf, s, hxs, hxge⟩ := hi.mem x hx
  simp only [hxs]
  have hlive := live_of_cur hxs
  have hxsorted : SortedL (s :: x.rest) := by rw [← hlive]; exact hxwf
  have hinv' : ∀ T, T ≤ s.t → lastT ≤ T → HInv T h' := by
    intro T hT _
    refine ⟨hheap', ?_⟩
    intro y hy
    have hyh : y ∈ h := (hmem y).2 (Or.inr hy)
    obtain ⟨hywf, sy, hys, _⟩ := hi.mem y hyh
    refine ⟨hywf, sy, hys, ?_⟩
    have := hmin y hyh
    simp only [ltIt, It.atT, hys, hxs, decide_eq_false_iff_not] at this
    omega
  have hsub : ∀ p, p ∈ pend x h' → p ∈ heapPend h := by
    intro p hp
    rw [mem_pend] at hp
    rw [mem_heapPend]
    rcases hp with hp | ⟨y, hy, hp⟩
    · exact ⟨x, hx, by rw [hlive]; exact List.mem_cons_of_mem _ hp⟩
    · exact ⟨y, (hmem y).2 (Or.inr hy), hp⟩
  have hcompl : ∀ p, p ∈ heapPend h → p = s ∨ p ∈ pend x h' := by
    intro p hp
    rw [mem_heapPend] at hp
    obtain ⟨y, hy, hp⟩ := hp
    rcases (hmem y).1 hy with rfl | hy'
    · rw [hlive] at hp
      rcases List.mem_cons.1 hp with rfl | hp
      · exact Or.inl rfl
      · exact Or.inr (mem_pend.2 (Or.inl hp))
    · exact Or.inr (mem_pend.2 (Or.inr ⟨y, hy', hp⟩))
  have hrest : ∀ q ∈ x.rest, s.t < q.t := (List.pairwise_cons.1 hxsorted).1
  split
  · rename_i hne'
    have hne' : s.t ≠ lastT := by simpa using hne'
    refine ⟨by omega, hxs, ⟨hinv' s.t (Int.le_refl _) hxge, hxwf, fun q hq => Int.le_of_lt (hrest q hq)⟩, ?_, hsub, ?_⟩
    · exact mem_heapPend.2 ⟨x, hx, by rw [hlive]; exact List.mem_cons_self⟩
    · intro p hp _
      rcases hcompl p hp with rfl | hp
      · exact Or.inl rfl
      · exact Or.inr hp
  · rename_i heq
    have heq : s.t = lastT := by simpa using heq
    refine ⟨⟨hinv' lastT (by omega) (Int.le_refl _), hxwf, fun q hq => by have := hrest q hq; omega⟩, hsub, ?_⟩
    intro p hp hlt
    rcases hcompl p hp with rfl | hp
    · omega
    · exact hp

theorem loopStep_post (lastT : Int) (cur : It) (h : Array It) (dead : List It) (ch : Bool)
    (hi : LInv lastT cur h) :
    StepPost lastT (· ∈ pend cur h) (loopStep lastT cur h dead ch) := by
  unfold loopStep It.next
  cases hr : cur.rest with
  | nil =>
    simp only
    have hP : ∀ p, p ∈ pend cur h ↔ p ∈ heapPend h := by intro p; simp [pend, heapPend, hr]
    split
    · trivial
    · split
      · rename_i h0
        intro p hp
        rw [mem_pend] at hp
        rcases hp with hp | ⟨x, hx, _⟩
        · simp [hr] at hp
        · have : h = #[] := by simpa using h0
          simp [this] at hx
      · rename_i h0
        have hfun : (fun p => p ∈ pend cur h) = (fun p => p ∈ heapPend h) := by funext p; exact propext (hP p)
        simp only [hfun]; exact popStep_post lastT h _ hi.toHInv h0
  | cons s r =>
    simp only
    have hwf := hi.wf
    have hsr : ∀ q ∈ r, s.t < q.t := by
      have : SortedL (cur.cur.toList ++ s :: r) := by simpa [It.WF, It.live, hr] using hwf
      exact (List.pairwise_cons.1 (List.Pairwise.sublist (List.sublist_append_right _ _) this)).1
    have hsorted_sr : SortedL (s :: r) := by
      have : SortedL (cur.cur.toList ++ s :: r) := by simpa [It.WF, It.live, hr] using hwf
      exact List.Pairwise.sublist (List.sublist_append_right _ _) this
    have hsge : lastT ≤ s.t := hi.ge s (by simp [hr])
    have hwf' : It.WF { cur with cur := some s, rest := r } := by simpa [It.WF, It.live] using hsorted_sr
    have hpend' : ∀ p, p ∈ pend { cur with cur := some s, rest := r } h ↔ p ∈ r ∨ ∃ x ∈ h, p ∈ x.live := by
      intro p; rw [mem_pend]
    have hpend0 : ∀ p, p ∈ pend cur h ↔ (p = s ∨ p ∈ r) ∨ ∃ x ∈ h, p ∈ x.live := by
      intro p; rw [mem_pend, hr, List.mem_cons]
    split
    · rename_i heq
      refine ⟨⟨hi.toHInv, hwf', fun q hq => by have := hsr q hq; omega⟩, ?_, ?_⟩
      · intro p hp; rw [hpend'] at hp; rw [hpend0]
        rcases hp with hp | hp
        · exact Or.inl (Or.inr hp)
        · exact Or.inr hp
      · intro p hp hlt; rw [hpend0] at hp; rw [hpend']
        rcases hp with (rfl | hp) | hp
        · omega
        · exact Or.inl hp
        · exact Or.inr hp
    · rename_i hne
      have hlt : lastT < s.t := by omega
      have hbrk : ∀ (hmin : ∀ x ∈ h, ∀ sx, x.cur = some sx → s.t ≤ sx.t),
          StepPost lastT (· ∈ pend cur h) (.brk { cur with cur := some s, rest := r } s h dead ch) := by
        intro hmin
        refine ⟨hlt, rfl, ⟨⟨hi.heap, ?_⟩, hwf', fun q hq => Int.le_of_lt (hsr q hq)⟩, ?_, ?_, ?_⟩
        · intro x hx
          obtain ⟨hxwf, sx, hxs, _⟩ := hi.mem x hx
          exact ⟨hxwf, sx, hxs, hmin x hx sx hxs⟩
        · show s ∈ pend cur h
          rw [hpend0]; exact Or.inl (Or.inl rfl)
        · intro p hp; rw [hpend'] at hp; rw [hpend0]
          rcases hp with hp | hp
          · exact Or.inl (Or.inr hp)
          · exact Or.inr hp
        · intro p hp _; rw [hpend0] at hp; rw [hpend']
          rcases hp with (rfl | hp) | hp
          · exact Or.inl rfl
          · exact Or.inr (Or.inl hp)
          · exact Or.inr (Or.inr hp)
      split
      · rename_i h0
        apply hbrk
        intro x hx
        have : h = #[] := by simpa using h0
        simp [this] at hx
      · rename_i h0
        have hpos : 0 < h.size := by omega
        have htop : h[0]? = some h[0] := by simp [hpos]
        simp only [htop]
        split
        · rename_i hlt0
          apply hbrk
          intro x hx sx hxs
          obtain ⟨k, hk, rfl⟩ := Array.getElem_of_mem hx
          have := root_min sw_ltIt h hi.heap k hk
          simp only [ltIt, It.atT, hxs, decide_eq_false_iff_not] at this
          simp only [It.atT] at hlt0
          omega
        · rename_i hge0
          -- push cur' and pop
          have hH : HInv lastT (push ltIt h { cur with cur := some s, rest := r }) := by
            refine ⟨isHeap_push sw_ltIt h _ hi.heap, ?_⟩
            intro x hx
            rcases (mem_heap_push _ _ _ _).1 hx with hx | rfl
            · exact hi.mem x hx
            · exact ⟨hwf', s, rfl, hsge⟩
          have hsz : (push ltIt h { cur with cur := some s, rest := r }).size ≠ 0 := by
            have := (perm_push ltIt h { cur with cur := some s, rest := r }).size_eq
            simp at this; omega
          have := popStep_post lastT _ dead hH hsz
          have hfun : (fun p => p ∈ pend cur h) =
              (fun p => p ∈ heapPend (push ltIt h { cur with cur := some s, rest := r })) := by
            funext p; apply propext
            rw [hpend0, mem_heapPend]
            constructor
            · rintro ((rfl | hp) | ⟨x, hx, hp⟩)
              · exact ⟨_, (mem_heap_push _ _ _ _).2 (Or.inr rfl), by simp [It.live]⟩
              · exact ⟨_, (mem_heap_push _ _ _ _).2 (Or.inr rfl), by simp [It.live, hp]⟩
              · exact ⟨x, (mem_heap_push _ _ _ _).2 (Or.inl hx), hp⟩
            · rintro ⟨x, hx, hp⟩
              rcases (mem_heap_push _ _ _ _).1 hx with hx | rfl
              · exact Or.inr ⟨x, hx, hp⟩
              · simp [It.live] at hp
                exact Or.inl hp
          simp only [hfun]; exact this

/-- what the whole loop guarantees -/
def LoopPost (lastT : Int) (P : Sample → Prop) : LoopOut → Prop
  | .brk c' s h' _ _ => lastT < s.t ∧ c'.cur = some s ∧ LInv s.t c' h' ∧ P s ∧
      (∀ p, p ∈ pend c' h' → P p) ∧ (∀ p, P p → lastT < p.t → p.t = s.t ∨ p ∈ pend c' h')
  | .fin _ _ => ∀ p, P p → p.t ≤ lastT
  | .cont .. => False
  | .err => True
  | .fuel => True

theorem nextLoop_post (lastT : Int) : ∀ fuel cur h dead ch, LInv lastT cur h →
    LoopPost lastT (· ∈ pend cur h) (nextLoop lastT fuel cur h dead ch) := by
  intro fuel
  induction fuel with
  | zero => intros; trivial
  | succ f ih =>
    intro cur h dead ch hi
    have hstep := loopStep_post lastT cur h dead ch hi
    unfold nextLoop
    cases hs : loopStep lastT cur h dead ch with
    | cont c' h' d' ch' =>
      rw [hs] at hstep
      obtain ⟨hi', hsub, hcompl⟩ := hstep
      have := ih c' h' d' ch' hi'
      simp only
      cases hn : nextLoop lastT f c' h' d' ch' with
      | brk c'' s h'' d'' ch'' =>
        rw [hn] at this
        obtain ⟨a1, a2, a3, a4, a5, a6⟩ := this
        refine ⟨a1, a2, a3, hsub _ a4, fun p hp => hsub _ (a5 p hp), ?_⟩
        intro p hp hlt
        exact a6 p (hcompl p hp hlt) hlt
      | fin h'' d'' =>
        rw [hn] at this
        intro p hp
        by_cases hlt : lastT < p.t
        · exact this p (hcompl p hp hlt)
        · omega
      | err => trivial
      | fuel => trivial
      | cont => rw [hn] at this; exact this.elim
    | brk c' s h' d' ch' => rw [hs] at hstep; exact hstep
    | fin h' d' => rw [hs] at hstep; exact hstep
    | err => trivial
    | fuel => trivial

end Prom.Merge
