import PromModel.Tsdb.Merge
import PromProofs.GoHeap
/-
  Lemmas for C19: the loop of `chainSampleIterator.Next` extracts the smallest pending timestamp that is
  larger than `lastT`, and keeps the invariant that makes the next call do the same.
-/
namespace Prom.Merge
open Prom.GoHeap

theorem sw_ltIt : StrictWeak ltIt where
  asymm a b h := by simp only [ltIt, decide_eq_true_eq, decide_eq_false_iff_not] at *; omega
  trans a b c h1 h2 := by simp only [ltIt, decide_eq_false_iff_not] at *; omega

theorem mem_heap_push {α} (lt : α → α → Bool) (a : Array α) (x y : α) :
    y ∈ push lt a x ↔ y ∈ a ∨ y = x := by
  rw [(perm_push lt a x).mem_iff]; simp

theorem pop_cor {α} {lt : α → α → Bool} (sw : StrictWeak lt) (a : Array α) (h : IsHeap lt a a.size)
    (hpos : a.size ≠ 0) :
    ∃ x a', pop lt a = some (x, a') ∧ a[0]? = some x ∧ IsHeap lt a' a'.size ∧
      (∀ y, y ∈ a ↔ y = x ∨ y ∈ a') ∧ ∀ y ∈ a, lt y x = false := by
  have hp : 0 < a.size := by omega
  obtain ⟨a', h1, h2, h3, h4⟩ := pop_spec sw a h hp
  refine ⟨a[0], a', h1, by simp [hp], h2, ?_, h4⟩
  intro y
  rw [← h3.mem_iff]; simp [or_comm]

/-! ## invariant of the `Next` loop -/

def SortedL (xs : List Sample) : Prop := xs.Pairwise (fun a b => a.t < b.t)

/-- current sample followed by what is left -/
def It.live (it : It) : List Sample := it.cur.toList ++ it.rest

def It.WF (it : It) : Prop := SortedL it.live

/-- samples not yet passed by the chain: the rest of `cur` and everything the heap members hold -/
def pend (cur : It) (h : Array It) : List Sample := cur.rest ++ h.toList.flatMap It.live

def heapPend (h : Array It) : List Sample := h.toList.flatMap It.live

structure HInv (lastT : Int) (h : Array It) : Prop where
  heap : IsHeap ltIt h h.size
  mem : ∀ x ∈ h, x.WF ∧ ∃ s, x.cur = some s ∧ lastT ≤ s.t

structure LInv (lastT : Int) (cur : It) (h : Array It) : Prop extends HInv lastT h where
  wf : cur.WF
  ge : ∀ s ∈ cur.rest, lastT ≤ s.t

/-- what one round of the loop guarantees relative to a set `P` of pending samples -/
def StepPost (lastT : Int) (P : Sample → Prop) : LoopOut → Prop
  | .brk c' s h' _ _ => lastT < s.t ∧ c'.cur = some s ∧ LInv s.t c' h' ∧ P s ∧
      (∀ p, p ∈ pend c' h' → P p) ∧ (∀ p, P p → lastT < p.t → p.t = s.t ∨ p ∈ pend c' h')
  | .fin _ _ => ∀ p, P p → p.t ≤ lastT
  | .cont c' h' _ _ => LInv lastT c' h' ∧ (∀ p, p ∈ pend c' h' → P p) ∧
      (∀ p, P p → lastT < p.t → p ∈ pend c' h')
  | .err => True
  | .fuel => True

theorem mem_heapPend {h : Array It} {p : Sample} : p ∈ heapPend h ↔ ∃ x ∈ h, p ∈ x.live := by
  simp [heapPend, List.mem_flatMap]

theorem mem_pend {cur : It} {h : Array It} {p : Sample} :
    p ∈ pend cur h ↔ p ∈ cur.rest ∨ ∃ x ∈ h, p ∈ x.live := by
  simp [pend, List.mem_flatMap]

theorem live_of_cur {x : It} {s : Sample} (h : x.cur = some s) : x.live = s :: x.rest := by
  simp [It.live, h]

theorem popStep_post (lastT : Int) (h : Array It) (dead : List It) (hi : HInv lastT h) (hne : h.size ≠ 0) :
    StepPost lastT (· ∈ heapPend h) (popStep lastT h dead) := by
  obtain ⟨x, h', hpop, _, hheap', hmem, hmin⟩ := pop_cor sw_ltIt h hi.heap hne
  unfold popStep
  rw [hpop]
  have hx : x ∈ h := (hmem x).2 (Or.inl rfl)
  obtain ⟨hxwf, s, hxs, hxge⟩ := hi.mem x hx
  simp only [hxs]
  have hlive := live_of_cur hxs
  have hxsorted : SortedL (s :: x.rest) := by rw [← hlive]; exact hxwf
  have hinv' : ∀ T, T ≤ s.t → lastT ≤ T → HInv T h' := by
    intro T hT _
    refine ⟨hheap', ?_⟩
    intro y hy
    have hyh : y ∈ h := (hmem y).2 (Or.inr hy)
    obtain ⟨hywf, sy, hys, _⟩ := hi.mem y hyh
    refine ⟨hywf, sy, hys, ?_⟩
    have := hmin y hyh
    simp only [ltIt, It.atT, hys, hxs, decide_eq_false_iff_not] at this
    omega
  have hsub : ∀ p, p ∈ pend x h' → p ∈ heapPend h := by
    intro p hp
    rw [mem_pend] at hp
    rw [mem_heapPend]
    rcases hp with hp | ⟨y, hy, hp⟩
    · exact ⟨x, hx, by rw [hlive]; exact List.mem_cons_of_mem _ hp⟩
    · exact ⟨y, (hmem y).2 (Or.inr hy), hp⟩
  have hcompl : ∀ p, p ∈ heapPend h → p = s ∨ p ∈ pend x h' := by
    intro p hp
    rw [mem_heapPend] at hp
    obtain ⟨y, hy, hp⟩ := hp
    rcases (hmem y).1 hy with rfl | hy'
    · rw [hlive] at hp
      rcases List.mem_cons.1 hp with rfl | hp
      · exact Or.inl rfl
      · exact Or.inr (mem_pend.2 (Or.inl hp))
    · exact Or.inr (mem_pend.2 (Or.inr ⟨y, hy', hp⟩))
  have hrest : ∀ q ∈ x.rest, s.t < q.t := (List.pairwise_cons.1 hxsorted).1
  split
  · rename_i hne'
    have hne' : s.t ≠ lastT := by simpa using hne'
    refine ⟨by omega, hxs, ⟨hinv' s.t (Int.le_refl _) hxge, hxwf, fun q hq => Int.le_of_lt (hrest q hq)⟩, ?_, hsub, ?_⟩
    · exact mem_heapPend.2 ⟨x, hx, by rw [hlive]; exact List.mem_cons_self⟩
    · intro p hp _
      rcases hcompl p hp with rfl | hp
      · exact Or.inl rfl
      · exact Or.inr hp
  · rename_i heq
    have heq : s.t = lastT := by simpa using heq
    refine ⟨⟨hinv' lastT (by omega) (Int.le_refl _), hxwf, fun q hq => by have := hrest q hq; omega⟩, hsub, ?_⟩
    intro p hp hlt
    rcases hcompl p hp with rfl | hp
    · omega
    · exact hp

theorem loopStep_post (lastT : Int) (cur : It) (h : Array It) (dead : List It) (ch : Bool)
    (hi : LInv lastT cur h) :
    StepPost lastT (· ∈ pend cur h) (loopStep lastT cur h dead ch) := by
  unfold loopStep It.next
  cases hr : cur.rest with
  | nil =>
    simp only
    have hP : ∀ p, p ∈ pend cur h ↔ p ∈ heapPend h := by intro p; simp [pend, heapPend, hr]
    split
    · trivial
    · split
      · rename_i h0
        intro p hp
        rw [mem_pend] at hp
        rcases hp with hp | ⟨x, hx, _⟩
        · simp [hr] at hp
        · have : h = #[] := by simpa using h0
          simp [this] at hx
      · rename_i h0
        have hfun : (fun p => p ∈ pend cur h) = (fun p => p ∈ heapPend h) := by funext p; exact propext (hP p)
        simp only [hfun]; exact popStep_post lastT h _ hi.toHInv h0
  | cons s r =>
    simp only
    have hwf := hi.wf
    have hsr : ∀ q ∈ r, s.t < q.t := by
      have : SortedL (cur.cur.toList ++ s :: r) := by simpa [It.WF, It.live, hr] using hwf
      exact (List.pairwise_cons.1 (List.Pairwise.sublist (List.sublist_append_right _ _) this)).1
    have hsorted_sr : SortedL (s :: r) := by
      have : SortedL (cur.cur.toList ++ s :: r) := by simpa [It.WF, It.live, hr] using hwf
      exact List.Pairwise.sublist (List.sublist_append_right _ _) this
    have hsge : lastT ≤ s.t := hi.ge s (by simp [hr])
    have hwf' : It.WF { cur with cur := some s, rest := r } := by simpa [It.WF, It.live] using hsorted_sr
    have hpend' : ∀ p, p ∈ pend { cur with cur := some s, rest := r } h ↔ p ∈ r ∨ ∃ x ∈ h, p ∈ x.live := by
      intro p; rw [mem_pend]
    have hpend0 : ∀ p, p ∈ pend cur h ↔ (p = s ∨ p ∈ r) ∨ ∃ x ∈ h, p ∈ x.live := by
      intro p; rw [mem_pend, hr, List.mem_cons]
    split
    · rename_i heq
      refine ⟨⟨hi.toHInv, hwf', fun q hq => by have := hsr q hq; omega⟩, ?_, ?_⟩
      · intro p hp; rw [hpend'] at hp; rw [hpend0]
        rcases hp with hp | hp
        · exact Or.inl (Or.inr hp)
        · exact Or.inr hp
      · intro p hp hlt; rw [hpend0] at hp; rw [hpend']
        rcases hp with (rfl | hp) | hp
        · omega
        · exact Or.inl hp
        · exact Or.inr hp
    · rename_i hne
      have hlt : lastT < s.t := by omega
      have hbrk : ∀ (hmin : ∀ x ∈ h, ∀ sx, x.cur = some sx → s.t ≤ sx.t),
          StepPost lastT (· ∈ pend cur h) (.brk { cur with cur := some s, rest := r } s h dead ch) := by
        intro hmin
        refine ⟨hlt, rfl, ⟨⟨hi.heap, ?_⟩, hwf', fun q hq => Int.le_of_lt (hsr q hq)⟩, ?_, ?_, ?_⟩
        · intro x hx
          obtain ⟨hxwf, sx, hxs, _⟩ := hi.mem x hx
          exact ⟨hxwf, sx, hxs, hmin x hx sx hxs⟩
        · show s ∈ pend cur h
          rw [hpend0]; exact Or.inl (Or.inl rfl)
        · intro p hp; rw [hpend'] at hp; rw [hpend0]
          rcases hp with hp | hp
          · exact Or.inl (Or.inr hp)
          · exact Or.inr hp
        · intro p hp _; rw [hpend0] at hp; rw [hpend']
          rcases hp with (rfl | hp) | hp
          · exact Or.inl rfl
          · exact Or.inr (Or.inl hp)
          · exact Or.inr (Or.inr hp)
      split
      · rename_i h0
        apply hbrk
        intro x hx
        have : h = #[] := by simpa using h0
        simp [this] at hx
      · rename_i h0
        have hpos : 0 < h.size := by omega
        have htop : h[0]? = some h[0] := by simp [hpos]
        simp only [htop]
        split
        · rename_i hlt0
          apply hbrk
          intro x hx sx hxs
          obtain ⟨k, hk, rfl⟩ := Array.getElem_of_mem hx
          have := root_min sw_ltIt h hi.heap k hk
          simp only [ltIt, It.atT, hxs, decide_eq_false_iff_not] at this
          simp only [It.atT] at hlt0
          omega
        · rename_i hge0
          -- push cur' and pop
          have hH : HInv lastT (push ltIt h { cur with cur := some s, rest := r }) := by
            refine ⟨isHeap_push sw_ltIt h _ hi.heap, ?_⟩
            intro x hx
            rcases (mem_heap_push _ _ _ _).1 hx with hx | rfl
            · exact hi.mem x hx
            · exact ⟨hwf', s, rfl, hsge⟩
          have hsz : (push ltIt h { cur with cur := some s, rest := r }).size ≠ 0 := by
            have := (perm_push ltIt h { cur with cur := some s, rest := r }).size_eq
            simp at this; omega
          have := popStep_post lastT _ dead hH hsz
          have hfun : (fun p => p ∈ pend cur h) =
              (fun p => p ∈ heapPend (push ltIt h { cur with cur := some s, rest := r })) := by
            funext p; apply propext
            rw [hpend0, mem_heapPend]
            constructor
            · rintro ((rfl | hp) | ⟨x, hx, hp⟩)
              · exact ⟨_, (mem_heap_push _ _ _ _).2 (Or.inr rfl), by simp [It.live]⟩
              · exact ⟨_, (mem_heap_push _ _ _ _).2 (Or.inr rfl), by simp [It.live, hp]⟩
              · exact ⟨x, (mem_heap_push _ _ _ _).2 (Or.inl hx), hp⟩
            · rintro ⟨x, hx, hp⟩
              rcases (mem_heap_push _ _ _ _).1 hx with hx | rfl
              · exact Or.inr ⟨x, hx, hp⟩
              · simp [It.live] at hp
                exact Or.inl hp
          simp only [hfun]; exact this

/-- what the whole loop guarantees -/
def LoopPost (lastT : Int) (P : Sample → Prop) : LoopOut → Prop
  | .brk c' s h' _ _ => lastT < s.t ∧ c'.cur = some s ∧ LInv s.t c' h' ∧ P s ∧
      (∀ p, p ∈ pend c' h' → P p) ∧ (∀ p, P p → lastT < p.t → p.t = s.t ∨ p ∈ pend c' h')
  | .fin _ _ => ∀ p, P p → p.t ≤ lastT
  | .cont .. => False
  | .err => True
  | .fuel => True

theorem nextLoop_post (lastT : Int) : ∀ fuel cur h dead ch, LInv lastT cur h →
    LoopPost lastT (· ∈ pend cur h) (nextLoop lastT fuel cur h dead ch) := by
  intro fuel
  induction fuel with
  | zero => intros; trivial
  | succ f ih =>
    intro cur h dead ch hi
    have hstep := loopStep_post lastT cur h dead ch hi
    unfold nextLoop
    cases hs : loopStep lastT cur h dead ch with
    | cont c' h' d' ch' =>
      rw [hs] at hstep
      obtain ⟨hi', hsub, hcompl⟩ := hstep
      have := ih c' h' d' ch' hi'
      simp only
      cases hn : nextLoop lastT f c' h' d' ch' with
      | brk c'' s h'' d'' ch'' =>
        rw [hn] at this
        obtain ⟨a1, a2, a3, a4, a5, a6⟩ := this
        refine ⟨a1, a2, a3, hsub _ a4, fun p hp => hsub _ (a5 p hp), ?_⟩
        intro p hp hlt
        exact a6 p (hcompl p hp hlt) hlt
      | fin h'' d'' =>
        rw [hn] at this
        intro p hp
        by_cases hlt : lastT < p.t
        · exact this p (hcompl p hp hlt)
        · omega
      | err => trivial
      | fuel => trivial
      | cont => rw [hn] at this; exact this.elim
    | brk c' s h' d' ch' => rw [hs] at hstep; exact hstep
    | fin h' d' => rw [hs] at hstep; exact hstep
    | err => trivial
    | fuel => trivial

/-! ## whole `Next` calls and draining -/

/-- state of a chain between two `Next` calls -/
structure Started (c : Chain) (cur : It) (h : Array It) : Prop where
  nf : c.failed = false
  hh : c.h = some h
  hc : c.curr = some cur
  inv : LInv c.lastT cur h

def NextPost (lastT : Int) (P : Sample → Prop) : Chain × Res → Prop
  | (c', .val s) => lastT < s.t ∧ P s ∧ ∃ cur' h', Started c' cur' h' ∧ c'.lastT = s.t ∧
      (∀ p, p ∈ pend cur' h' → P p) ∧ (∀ p, P p → lastT < p.t → p.t = s.t ∨ p ∈ pend cur' h')
  | (_, .fin) => ∀ p, P p → p.t ≤ lastT
  | _ => True

theorem finishLoop_post (c : Chain) (hnf : c.failed = false) (P : Sample → Prop) (o : LoopOut)
    (h : LoopPost c.lastT P o) : NextPost c.lastT P (c.finishLoop o) := by
  cases o with
  | brk c' s h' d ch =>
    obtain ⟨a1, a2, a3, a4, a5, a6⟩ := h
    exact ⟨a1, a4, c', h', ⟨hnf, rfl, rfl, a3⟩, rfl, a5, a6⟩
  | fin h' d => exact h
  | err => trivial
  | fuel => trivial
  | cont => trivial

theorem next_started (c : Chain) (cur : It) (h : Array It) (st : Started c cur h) :
    NextPost c.lastT (· ∈ pend cur h) c.next := by
  unfold Chain.next
  simp only [st.nf, st.hh, st.hc]
  exact finishLoop_post c st.nf _ _ (nextLoop_post c.lastT _ cur h c.dead false st.inv)

theorem drain_started : ∀ fuel c cur h raw out r o, Started c cur h →
    Chain.drainAux fuel c raw out = some (r, o) →
    ∃ r', r = raw.reverse ++ r' ∧ SortedL r' ∧ (∀ s ∈ r', c.lastT < s.t ∧ s ∈ pend cur h) ∧
      (∀ p, p ∈ pend cur h → c.lastT < p.t → p.t ∈ r'.map (·.t)) := by
  intro fuel
  induction fuel with
  | zero => intro c cur h raw out r o _ hd; simp [Chain.drainAux] at hd
  | succ f ih =>
    intro c cur h raw out r o st hd
    have hn := next_started c cur h st
    unfold Chain.drainAux at hd
    cases hnx : c.next with
    | mk c' res =>
      rw [hnx] at hd hn
      cases res with
      | val s =>
        simp only at hd
        obtain ⟨hlt, hs, cur', h', st', hlast, hsub, hcompl⟩ := hn
        obtain ⟨r', hr, hsorted, hmem, hcov⟩ := ih c' cur' h' _ _ r o st' hd
        refine ⟨s :: r', by simp [hr], ?_, ?_, ?_⟩
        · refine List.pairwise_cons.2 ⟨?_, hsorted⟩
          intro q hq
          have := (hmem q hq).1
          omega
        · intro q hq
          rcases List.mem_cons.1 hq with rfl | hq
          · exact ⟨hlt, hs⟩
          · have := hmem q hq
            exact ⟨by omega, hsub _ this.2⟩
        · intro p hp hplt
          rcases hcompl p hp hplt with heq | hp'
          · simp [heq]
          · by_cases hpe : p.t = s.t
            · simp [hpe]
            · have hge := st'.inv
              have : s.t ≤ p.t := by
                rcases mem_pend.1 hp' with hpr | ⟨x, hx, hpx⟩
                · have := hge.ge p hpr; omega
                · obtain ⟨hxwf, sx, hxs, hxge⟩ := hge.mem x hx
                  rw [live_of_cur hxs] at hpx
                  rcases List.mem_cons.1 hpx with rfl | hpx
                  · omega
                  · have hsx : SortedL (sx :: x.rest) := by rw [← live_of_cur hxs]; exact hxwf
                    have := (List.pairwise_cons.1 hsx).1 p hpx
                    omega
              have := hcov p hp' (by omega)
              simp only [List.map_cons, List.mem_cons]
              exact Or.inr this
      | fin =>
        simp only [Option.some.injEq, Prod.mk.injEq] at hd
        refine ⟨[], by simp [hd.1.symm], List.Pairwise.nil, by simp, ?_⟩
        intro p hp hplt
        have := hn p hp
        omega
      | err => simp at hd
      | panic => simp at hd

/-- fresh iterator over a sorted list whose timestamps are all above `T` -/
def FreshOK (T : Int) (it : It) : Prop := it.cur = none ∧ SortedL it.rest ∧ ∀ s ∈ it.rest, T < s.t

theorem initHeap_spec (T : Int) : ∀ tl h0 d0 h d, (∀ it ∈ tl, FreshOK T it) → HInv T h0 →
    initHeap tl h0 d0 = some (h, d) →
    HInv T h ∧ ∀ p, p ∈ heapPend h ↔ p ∈ heapPend h0 ∨ ∃ it ∈ tl, p ∈ it.rest := by
  intro tl
  induction tl with
  | nil =>
    intro h0 d0 h d _ hi hin
    simp only [initHeap, Option.some.injEq, Prod.mk.injEq] at hin
    obtain ⟨rfl, _⟩ := hin
    exact ⟨hi, by simp⟩
  | cons it tl ih =>
    intro h0 d0 h d hf hi hin
    obtain ⟨hcur, hsorted, hgt⟩ := hf it (by simp)
    unfold initHeap It.next at hin
    cases hr : it.rest with
    | nil =>
      simp only [hr] at hin
      split at hin
      · simp at hin
      · obtain ⟨a, b⟩ := ih h0 _ h d (fun x hx => hf x (by simp [hx])) hi hin
        refine ⟨a, ?_⟩
        intro p; rw [b p]
        constructor
        · rintro (hp | ⟨x, hx, hp⟩)
          · exact Or.inl hp
          · exact Or.inr ⟨x, by simp [hx], hp⟩
        · rintro (hp | ⟨x, hx, hp⟩)
          · exact Or.inl hp
          · rcases List.mem_cons.1 hx with rfl | hx
            · simp [hr] at hp
            · exact Or.inr ⟨x, hx, hp⟩
    | cons s r =>
      simp only [hr] at hin
      have hsr : SortedL (s :: r) := by rw [← hr]; exact hsorted
      have hH : HInv T (push ltIt h0 { it with cur := some s, rest := r }) := by
        refine ⟨isHeap_push sw_ltIt h0 _ hi.heap, ?_⟩
        intro x hx
        rcases (mem_heap_push _ _ _ _).1 hx with hx | rfl
        · exact hi.mem x hx
        · exact ⟨by simpa [It.WF, It.live] using hsr, s, rfl, Int.le_of_lt (hgt s (by simp [hr]))⟩
      obtain ⟨a, b⟩ := ih _ _ h d (fun x hx => hf x (by simp [hx])) hH hin
      refine ⟨a, ?_⟩
      intro p; rw [b p]
      have hpush : p ∈ heapPend (push ltIt h0 { it with cur := some s, rest := r }) ↔
          p ∈ heapPend h0 ∨ p ∈ it.rest := by
        rw [mem_heapPend, mem_heapPend, hr]
        constructor
        · rintro ⟨x, hx, hp⟩
          rcases (mem_heap_push _ _ _ _).1 hx with hx | rfl
          · exact Or.inl ⟨x, hx, hp⟩
          · simp [It.live] at hp; exact Or.inr (by simpa using hp)
        · rintro (⟨x, hx, hp⟩ | hp)
          · exact ⟨x, (mem_heap_push _ _ _ _).2 (Or.inl hx), hp⟩
          · exact ⟨_, (mem_heap_push _ _ _ _).2 (Or.inr rfl), by simpa [It.live] using hp⟩
      rw [hpush]
      constructor
      · rintro ((hp | hp) | ⟨x, hx, hp⟩)
        · exact Or.inl hp
        · exact Or.inr ⟨it, by simp, hp⟩
        · exact Or.inr ⟨x, by simp [hx], hp⟩
      · rintro (hp | ⟨x, hx, hp⟩)
        · exact Or.inl (Or.inl hp)
        · rcases List.mem_cons.1 hx with rfl | hx
          · exact Or.inl (Or.inr hp)
          · exact Or.inr ⟨x, hx, hp⟩

theorem isHeap_empty {α} (lt : α → α → Bool) : IsHeap lt (#[] : Array α) 0 := by
  intro k hk; simp at hk

/-- the first `Next` of a fresh chain -/
theorem next_fresh (its : List It) (hf : ∀ it ∈ its, FreshOK MinI64 it) :
    NextPost MinI64 (fun p => ∃ it ∈ its, p ∈ it.rest) (Chain.mk' its).next := by
  unfold Chain.next
  simp only [Chain.mk']
  cases its with
  | nil => trivial
  | cons i0 tl =>
    simp only
    cases hin : initHeap tl #[] [] with
    | none => trivial
    | some hd =>
      obtain ⟨h, d⟩ := hd
      simp only
      have hH0 : HInv MinI64 (#[] : Array It) := ⟨isHeap_empty _, by simp⟩
      obtain ⟨hH, hP⟩ := initHeap_spec MinI64 tl #[] [] h d (fun x hx => hf x (by simp [hx])) hH0 hin
      obtain ⟨hcur, hsorted, hgt⟩ := hf i0 (by simp)
      have hinv : LInv MinI64 i0 h :=
        ⟨hH, by simpa [It.WF, It.live, hcur] using hsorted, fun s hs => Int.le_of_lt (hgt s hs)⟩
      have hpost := nextLoop_post MinI64 (loopFuel i0 h) i0 h d true hinv
      have hfun : (fun p => ∃ it ∈ i0 :: tl, p ∈ it.rest) = (fun p => p ∈ pend i0 h) := by
        funext p; apply propext
        rw [mem_pend, ← mem_heapPend, hP p]
        simp [heapPend]
      rw [hfun]
      exact finishLoop_post _ rfl _ _ hpost

/-- Draining a fresh chain over sorted inputs (all timestamps above `MinInt64`) by `Next`:
    the output is strictly increasing, every output sample is a sample of some input, and every input
    timestamp occurs in the output. -/
theorem drain_fresh (its : List It) (hf : ∀ it ∈ its, FreshOK MinI64 it) (fuel : Nat) (r o : List Sample)
    (hd : Chain.drainAux fuel (Chain.mk' its) [] [] = some (r, o)) :
    SortedL r ∧ (∀ s ∈ r, ∃ it ∈ its, s ∈ it.rest) ∧ (∀ it ∈ its, ∀ p ∈ it.rest, p.t ∈ r.map (·.t)) := by
  cases fuel with
  | zero => simp [Chain.drainAux] at hd
  | succ f =>
    have hn := next_fresh its hf
    unfold Chain.drainAux at hd
    cases hnx : (Chain.mk' its).next with
    | mk c' res =>
      rw [hnx] at hd hn
      cases res with
      | val s =>
        simp only at hd
        obtain ⟨hlt, hs, cur', h', st', hlast, hsub, hcompl⟩ := hn
        obtain ⟨r', hr, hsorted, hmem, hcov⟩ := drain_started f c' cur' h' _ _ r o st' hd
        have hr' : r = s :: r' := by simpa using hr
        subst hr'
        refine ⟨?_, ?_, ?_⟩
        · refine List.pairwise_cons.2 ⟨?_, hsorted⟩
          intro q hq
          have := (hmem q hq).1
          omega
        · intro q hq
          rcases List.mem_cons.1 hq with rfl | hq
          · exact hs
          · exact hsub _ (hmem q hq).2
        · intro it hit p hp
          have hpl : MinI64 < p.t := (hf it hit).2.2 p hp
          rcases hcompl p ⟨it, hit, hp⟩ hpl with heq | hp'
          · simp [heq]
          · by_cases hpe : p.t = s.t
            · simp [hpe]
            · have hge := st'.inv
              have : s.t ≤ p.t := by
                rcases mem_pend.1 hp' with hpr | ⟨x, hx, hpx⟩
                · have := hge.ge p hpr; omega
                · obtain ⟨hxwf, sx, hxs, hxge⟩ := hge.mem x hx
                  rw [live_of_cur hxs] at hpx
                  rcases List.mem_cons.1 hpx with rfl | hpx
                  · omega
                  · have hsx : SortedL (sx :: x.rest) := by rw [← live_of_cur hxs]; exact hxwf
                    have := (List.pairwise_cons.1 hsx).1 p hpx
                    omega
              have := hcov p hp' (by omega)
              simp only [List.map_cons, List.mem_cons]
              exact Or.inr this
      | fin =>
        simp only [Option.some.injEq, Prod.mk.injEq] at hd
        obtain ⟨⟨rfl, _⟩⟩ := hd
        refine ⟨List.Pairwise.nil, by simp, ?_⟩
        intro it hit p hp
        have := hn p ⟨it, hit, hp⟩
        have := (hf it hit).2.2 p hp
        omega
      | err => simp at hd
      | panic => simp at hd

end Prom.Merge
