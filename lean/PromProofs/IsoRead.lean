import PromProofs.IsoRing
/-
  C05 helper lemmas: `memSeries.iterator`'s `stopAfter` (index arithmetic over m-mapped chunks, head
  chunks and the ring) computes, chunk by chunk, the longest prefix of the series whose appendIDs are all
  visible to the reader.
-/
namespace Prom.Iso

/-- Series well-formedness: the chunk layout partitions the samples and the ring holds the appendIDs of
    the last `count` samples. -/
structure Series.WF (s : Series) : Prop where
  ring : s.ring.WF
  layout : s.layout.sum = s.samples.length
  count : s.ring.count ≤ s.samples.length
  tracks : s.ring.contents = (s.samples.drop (s.samples.length - s.ring.count)).map (·.id)

/-- The samples whose appendID is no longer in the ring. -/
def Series.untracked (s : Series) : List Sample := s.samples.take (s.samples.length - s.ring.count)

/-- Length of the longest prefix of visible samples. -/
def Series.visLen (s : Series) (vis : Nat → Bool) : Nat := (s.samples.takeWhile fun x => vis x.id).length

/-! ### auxiliary list facts -/

theorem sumBelow_eq (k : Int) (j : Nat) (l : List Nat) :
    sumBelow k j l = (l.take (k - j).toNat).sum := by
  induction l generalizing j with
  | nil => simp [sumBelow]
  | cons n rest ih =>
    simp only [sumBelow]
    rw [ih]
    by_cases hlt : (j : Int) < k
    · obtain ⟨m, hm⟩ : ∃ m, (k - j).toNat = m + 1 := ⟨(k - j).toNat - 1, by omega⟩
      have h2 : (k - ((j + 1 : Nat) : Int)).toNat = m := by omega
      rw [hm, h2]; simp [hlt]
    · have h1 : (k - j).toNat = 0 := by omega
      have h2 : (k - ((j + 1 : Nat) : Int)).toNat = 0 := by omega
      rw [h1, h2]; simp [hlt]

theorem sumBelow_layout (ix : Nat) (mm hd : List Nat) :
    sumBelow (ix : Int) 0 mm + sumBelow ((ix : Int) - mm.length) 0 hd = ((mm ++ hd).take ix).sum := by
  rw [sumBelow_eq, sumBelow_eq, List.take_append, List.sum_append]
  have h1 : ((ix : Int) - ((0 : Nat) : Int)).toNat = ix := by omega
  have h2 : ((ix : Int) - (mm.length : Int) - ((0 : Nat) : Int)).toNat = ix - mm.length := by omega
  rw [h1, h2]

theorem take_sum_add_getD_le (l : List Nat) (ix : Nat) :
    (l.take ix).sum + l.getD ix 0 ≤ l.sum := by
  induction l generalizing ix with
  | nil => simp
  | cons n rest ih =>
    cases ix with
    | zero => simp
    | succ i =>
      have := ih i
      simp only [List.take_succ_cons, List.sum_cons, List.getD_cons_succ]
      omega

theorem takeWhile_take_length {α : Type} (p : α → Bool) (b : List α) (m : Nat) :
    ((b.take m).takeWhile p).length = min m (b.takeWhile p).length := by
  induction b generalizing m with
  | nil => simp
  | cons x rest ih =>
    cases m with
    | zero => simp
    | succ k =>
      simp only [List.take_succ_cons, List.takeWhile_cons]
      by_cases hp : p x = true
      · simp only [hp, if_true, List.length_cons, ih k]; omega
      · simp [hp]

theorem takeWhile_eq_take_length {α : Type} (p : α → Bool) (l : List α) :
    l.takeWhile p = l.take (l.takeWhile p).length := by
  induction l with
  | nil => simp
  | cons x rest ih =>
    simp only [List.takeWhile_cons]
    by_cases hp : p x = true
    · simp only [hp, if_true, List.length_cons, List.take_succ_cons]; rw [← ih]
    · simp [hp]

theorem flatMap_layout {α : Type} (l : List Nat) (xs : List α) (h : xs.length ≤ l.sum) :
    (List.range l.length).flatMap (fun ix => (xs.drop (l.take ix).sum).take (l.getD ix 0)) = xs := by
  induction l generalizing xs with
  | nil =>
    have : xs = [] := by simpa using h
    simp [this]
  | cons n rest ih =>
    simp only [List.length_cons, List.range_succ_eq_map, List.flatMap_cons, List.flatMap_map,
      List.take_zero, List.sum_nil, List.drop_zero, List.getD_cons_zero, Nat.succ_eq_add_one,
      List.take_succ_cons, List.sum_cons, List.getD_cons_succ]
    have hl : (xs.drop n).length ≤ rest.sum := by
      simp only [List.length_drop, List.sum_cons] at *; omega
    have := ih (xs.drop n) hl
    simp only [List.drop_drop] at this
    rw [this, List.take_append_drop]

theorem flatMap_congr' {α β : Type} (l : List α) (f g : α → List β) (h : ∀ a ∈ l, f a = g a) :
    l.flatMap f = l.flatMap g := by
  rw [List.flatMap_def, List.flatMap_def, List.map_congr_left h]

/-! ### the specifications -/

theorem stopAfter_spec (s : Series) (vis : Nat → Bool) (ix : Nat) (h : s.WF)
    (hun : ∀ x ∈ s.untracked, vis x.id = true) (hix : ix < s.layout.length) :
    s.stopAfter vis ix = min (s.layout.getD ix 0) (s.visLen vis - (s.layout.take ix).sum) := by
  have _ := hix
  have hE := take_sum_add_getD_le s.layout ix
  have hL := h.layout
  have hc := h.count
  -- split the samples into the untracked and the tracked part
  have hsplit : s.samples = s.untracked ++ s.samples.drop (s.samples.length - s.ring.count) := by
    simp [Series.untracked, List.take_append_drop]
  have hUlen : s.untracked.length = s.samples.length - s.ring.count := by
    simp [Series.untracked]
  have hV : s.visLen vis = (s.samples.length - s.ring.count) +
      ((s.samples.drop (s.samples.length - s.ring.count)).takeWhile fun x => vis x.id).length := by
    unfold Series.visLen
    conv => lhs; rw [hsplit]
    rw [List.takeWhile_append_of_pos (p := fun x : Sample => vis x.id) hun, List.length_append, hUlen]
  -- the totals computed by the code
  have htot : s.mm.sum + (if s.hd.isEmpty then 0 else s.hd.sum) = s.layout.sum := by
    unfold Series.layout
    cases s.hd <;> simp
  have hprev : sumBelow ix 0 s.mm + (if s.hd.isEmpty then 0 else sumBelow ((ix : Int) - s.mm.length) 0 s.hd)
      = (s.layout.take ix).sum := by
    unfold Series.layout
    rw [← sumBelow_layout]
    cases s.hd <;> simp [sumBelow]
  unfold Series.stopAfter
  simp only [htot, hprev]
  generalize hm : ((s.ring.count : Int) - ((s.layout.sum : Int) -
    (((s.layout.take ix).sum : Nat) + (s.layout.getD ix 0 : Nat)))).toNat = m
  have hmc : m ≤ s.ring.count := by omega
  rw [stopLoop_spec s.ring vis _ m h.ring hmc, h.tracks, ← List.map_take, List.takeWhile_map,
    List.length_map, takeWhile_take_length, hV]
  have hcomp : (vis ∘ fun x : Sample => x.id) = fun x : Sample => vis x.id := rfl
  rw [hcomp]
  generalize ((s.samples.drop (s.samples.length - s.ring.count)).takeWhile fun x => vis x.id).length = W
  split <;> omega

theorem readChunk_spec (s : Series) (r : Reader) (ix : Nat) (h : s.WF)
    (hun : ∀ x ∈ s.untracked, r.vis x.id = true) (hix : ix < s.layout.length) :
    s.readChunk r ix = ((s.samples.takeWhile fun x => r.vis x.id).drop (s.layout.take ix).sum).take (s.layout.getD ix 0) := by
  unfold Series.readChunk Series.chunkSamples
  rw [stopAfter_spec s r.vis ix h hun hix, takeWhile_eq_take_length (fun x : Sample => r.vis x.id) s.samples,
    List.take_take, List.drop_take, List.take_take]
  congr 1
  unfold Series.visLen
  omega

theorem read_spec (s : Series) (r : Reader) (h : s.WF) (hun : ∀ x ∈ s.untracked, r.vis x.id = true) :
    s.read r = s.samples.takeWhile fun x => r.vis x.id := by
  unfold Series.read
  rw [flatMap_congr' _ _ (fun ix => ((s.samples.takeWhile fun x => r.vis x.id).drop
      (s.layout.take ix).sum).take (s.layout.getD ix 0))
    (fun ix hmem => readChunk_spec s r ix h hun (by simpa using hmem))]
  apply flatMap_layout
  rw [h.layout]
  exact (List.takeWhile_sublist _).length_le

end Prom.Iso
