import PromModel.Tsdb.CompactPlan
/-
  Helper lemmas for C08 (core Lean only).
-/
namespace Prom.CompactPlan

/-! ### sorting -/

theorem insR_perm (x : DirMeta) (l : List DirMeta) : (insR x l).Perm (x :: l) := by
  induction l with
  | nil => simp [insR]
  | cons y ys ih =>
    simp only [insR]
    split
    · exact (List.Perm.cons y ih).trans (List.Perm.swap x y ys)
    · exact List.Perm.refl _

theorem foldl_insR_perm (ds acc : List DirMeta) :
    (ds.foldl (fun acc x => insR x acc) acc).Perm (ds ++ acc) := by
  induction ds generalizing acc with
  | nil => simp
  | cons d ds ih =>
    simp only [List.foldl_cons]
    refine (ih _).trans ?_
    refine (List.Perm.append_left ds (insR_perm d acc)).trans ?_
    simp

theorem sortByMint_perm (ds : List DirMeta) : (sortByMint ds).Perm ds := by
  unfold sortByMint sortRev
  refine (List.reverse_perm _).trans ?_
  simpa using foldl_insR_perm ds []

theorem insR_desc (x : DirMeta) (l : List DirMeta)
    (h : l.Pairwise (fun a b => b.bm.mint ≤ a.bm.mint)) :
    (insR x l).Pairwise (fun a b => b.bm.mint ≤ a.bm.mint) := by
  induction l with
  | nil => simp [insR]
  | cons y ys ih =>
    simp only [insR]
    rw [List.pairwise_cons] at h
    split
    · rename_i hlt
      rw [List.pairwise_cons]
      refine ⟨?_, ih h.2⟩
      intro z hz
      have := (insR_perm x ys).mem_iff.mp hz
      rcases List.mem_cons.mp this with rfl | hz'
      · omega
      · exact h.1 z hz'
    · rename_i hge
      rw [List.pairwise_cons]
      refine ⟨?_, List.pairwise_cons.mpr h⟩
      intro z hz
      rcases List.mem_cons.mp hz with rfl | hz'
      · omega
      · have := h.1 z hz'; omega

theorem foldl_insR_desc (ds acc : List DirMeta)
    (h : acc.Pairwise (fun a b => b.bm.mint ≤ a.bm.mint)) :
    (ds.foldl (fun acc x => insR x acc) acc).Pairwise (fun a b => b.bm.mint ≤ a.bm.mint) := by
  induction ds generalizing acc with
  | nil => simpa
  | cons d ds ih => exact ih _ (insR_desc d acc h)

theorem sortByMint_sorted (ds : List DirMeta) :
    (sortByMint ds).Pairwise (fun a b => a.bm.mint ≤ b.bm.mint) := by
  unfold sortByMint sortRev
  rw [List.pairwise_reverse]
  exact foldl_insR_desc ds [] List.Pairwise.nil

/-! ### selectOverlappingDirs -/

theorem ovTake_sublist (g : Int) (l : List DirMeta) : (ovTake g l).Sublist l := by
  induction l generalizing g with
  | nil => simp [ovTake]
  | cons d rest ih =>
    simp only [ovTake]
    split
    · exact (ih _).cons_cons d
    · exact List.nil_sublist _

theorem ovFind_sublist (g : Int) (prev : DirMeta) (l : List DirMeta) :
    (ovFind g prev l).Sublist (prev :: l) := by
  induction l generalizing g prev with
  | nil => simp [ovFind]
  | cons d rest ih =>
    simp only [ovFind]
    split
    · exact ((ovTake_sublist _ rest).cons_cons d).cons_cons prev
    · exact (ih _ d).cons prev

theorem selectOverlappingDirs_sublist (cfg : Cfg) (l : List DirMeta) :
    (selectOverlappingDirs cfg l).Sublist l := by
  unfold selectOverlappingDirs
  split
  · exact List.nil_sublist _
  · split
    · exact List.nil_sublist _
    · exact List.nil_sublist _
    · exact ovFind_sublist _ _ _

theorem ovFind_length (g : Int) (prev : DirMeta) (l : List DirMeta) :
    ovFind g prev l = [] ∨ 2 ≤ (ovFind g prev l).length := by
  induction l generalizing g prev with
  | nil => simp [ovFind]
  | cons d rest ih =>
    simp only [ovFind]
    split
    · right; simp
    · exact ih _ d

theorem selectOverlappingDirs_length (cfg : Cfg) (l : List DirMeta) :
    selectOverlappingDirs cfg l = [] ∨ 2 ≤ (selectOverlappingDirs cfg l).length := by
  unfold selectOverlappingDirs
  split
  · simp
  · split
    · simp
    · simp
    · exact ovFind_length _ _ _

theorem selectOverlappingDirs_disabled (cfg : Cfg) (l : List DirMeta) (h : cfg.overlapping = false) :
    selectOverlappingDirs cfg l = [] := by
  simp [selectOverlappingDirs, h]

theorem ovFind_nil (g : Int) (prev : DirMeta) (l : List DirMeta) (h : ovFind g prev l = []) :
    (∀ d ∈ l, g ≤ d.bm.mint) ∧ l.Pairwise (fun a b => a.bm.maxt ≤ b.bm.mint) := by
  induction l generalizing g prev with
  | nil => simp
  | cons d rest ih =>
    simp only [ovFind] at h
    split at h
    · simp at h
    · rename_i hge
      have ⟨h1, h2⟩ := ih _ d h
      refine ⟨?_, List.pairwise_cons.mpr ⟨?_, h2⟩⟩
      · intro e he
        rcases List.mem_cons.mp he with rfl | he'
        · omega
        · have := h1 e he'; omega
      · intro e he
        have := h1 e he; omega

theorem selectOverlappingDirs_nil (cfg : Cfg) (l : List DirMeta) (hen : cfg.overlapping = true)
    (h : selectOverlappingDirs cfg l = []) : l.Pairwise (fun a b => a.bm.maxt ≤ b.bm.mint) := by
  unfold selectOverlappingDirs at h
  simp [hen] at h
  split at h
  · simp
  · simp
  · rename_i d0 rest _
    have ⟨h1, h2⟩ := ovFind_nil _ _ _ h
    exact List.pairwise_cons.mpr ⟨h1, h2⟩

/-! ### the overlap shape -/

/-- `b` is another block of the listing that overlaps `a` -/
def OvPartner (r : List DirMeta) (a : DirMeta) : Prop :=
  ∃ b ∈ r, b.dir ≠ a.dir ∧ intersects a.bm b.bm

theorem OvPartner.mono {r r' : List DirMeta} {a : DirMeta} (h : OvPartner r a) (hs : ∀ x ∈ r, x ∈ r') :
    OvPartner r' a := by
  obtain ⟨b, hb, h1, h2⟩ := h
  exact ⟨b, hs b hb, h1, h2⟩

theorem ovTake_shape (g : Int) (w : DirMeta) (l : List DirMeta)
    (hw : w.bm.maxt = g) (hwf : ∀ d ∈ l, d.bm.WF)
    (hs : (w :: l).Pairwise (fun a b => a.bm.mint ≤ b.bm.mint))
    (hnd : ((w :: l).map (·.dir)).Nodup) :
    ∀ a ∈ ovTake g l, OvPartner (w :: ovTake g l) a := by
  induction l generalizing g w with
  | nil => simp [ovTake]
  | cons d rest ih =>
    simp only [ovTake]
    split
    · rename_i hlt
      have hs' := List.pairwise_cons.mp hs
      have hs'' := List.pairwise_cons.mp hs'.2
      have hwfd : d.bm.mint < d.bm.maxt := hwf d (by simp)
      have hnd' : w.dir ≠ d.dir ∧ w.dir ∉ rest.map (·.dir) ∧ d.dir ∉ rest.map (·.dir) ∧ (rest.map (·.dir)).Nodup := by
        simp only [List.map_cons, List.nodup_cons, List.mem_cons, not_or] at hnd
        exact ⟨hnd.1.1, hnd.1.2, hnd.2.1, hnd.2.2⟩
      intro a ha
      rcases List.mem_cons.mp ha with rfl | ha'
      · refine ⟨w, by simp, hnd'.1, ?_⟩
        have := hs'.1 a (by simp)
        unfold intersects; omega
      · -- anchor for the tail
        by_cases hgt : d.bm.maxt > g
        · have hmax : max g d.bm.maxt = d.bm.maxt := by omega
          have := ih (max g d.bm.maxt) d hmax.symm (fun x hx => hwf x (by simp [hx])) hs'.2
            (by simp only [List.map_cons, List.nodup_cons]; exact ⟨hnd'.2.2.1, hnd'.2.2.2⟩) a ha'
          exact this.mono (by
            intro x hx
            rcases List.mem_cons.mp hx with rfl | hx
            · simp
            · exact List.mem_cons_of_mem _ (List.mem_cons_of_mem _ hx))
        · have hmax : max g d.bm.maxt = g := by omega
          have hsw : (w :: rest).Pairwise (fun a b => a.bm.mint ≤ b.bm.mint) :=
            List.pairwise_cons.mpr ⟨fun x hx => hs'.1 x (by simp [hx]), hs''.2⟩
          have := ih (max g d.bm.maxt) w (by omega) (fun x hx => hwf x (by simp [hx])) hsw
            (by simp only [List.map_cons, List.nodup_cons]; exact ⟨hnd'.2.1, hnd'.2.2.2⟩) a ha'
          exact this.mono (by
            intro x hx
            rcases List.mem_cons.mp hx with rfl | hx
            · simp
            · exact List.mem_cons_of_mem _ (List.mem_cons_of_mem _ hx))
    · simp

theorem ovFind_shape (g : Int) (prev : DirMeta) (l : List DirMeta)
    (hg : prev.bm.maxt = g) (hwf : ∀ d ∈ l, d.bm.WF)
    (hs : (prev :: l).Pairwise (fun a b => a.bm.mint ≤ b.bm.mint))
    (hnd : ((prev :: l).map (·.dir)).Nodup) :
    ∀ a ∈ ovFind g prev l, OvPartner (ovFind g prev l) a := by
  induction l generalizing g prev with
  | nil => simp [ovFind]
  | cons d rest ih =>
    have hs' := List.pairwise_cons.mp hs
    have hs'' := List.pairwise_cons.mp hs'.2
    have hwfd : d.bm.mint < d.bm.maxt := hwf d (by simp)
    have hnd' : prev.dir ≠ d.dir ∧ prev.dir ∉ rest.map (·.dir) ∧ d.dir ∉ rest.map (·.dir) ∧ (rest.map (·.dir)).Nodup := by
      simp only [List.map_cons, List.nodup_cons, List.mem_cons, not_or] at hnd
      exact ⟨hnd.1.1, hnd.1.2, hnd.2.1, hnd.2.2⟩
    have hpd := hs'.1 d (by simp)
    simp only [ovFind]
    split
    · rename_i hlt
      intro a ha
      rcases List.mem_cons.mp ha with rfl | ha
      · exact ⟨d, by simp, fun h => hnd'.1 h.symm, by unfold intersects; omega⟩
      rcases List.mem_cons.mp ha with rfl | ha
      · exact ⟨prev, by simp, hnd'.1, by unfold intersects; omega⟩
      · by_cases hgt : d.bm.maxt > g
        · have hmax : max g d.bm.maxt = d.bm.maxt := by omega
          have := ovTake_shape (max g d.bm.maxt) d rest hmax.symm (fun x hx => hwf x (by simp [hx])) hs'.2
            (by simp only [List.map_cons, List.nodup_cons]; exact ⟨hnd'.2.2.1, hnd'.2.2.2⟩) a ha
          exact this.mono (by
            intro x hx
            rcases List.mem_cons.mp hx with rfl | hx
            · simp
            · exact List.mem_cons_of_mem _ (List.mem_cons_of_mem _ hx))
        · have hsw : (prev :: rest).Pairwise (fun a b => a.bm.mint ≤ b.bm.mint) :=
            List.pairwise_cons.mpr ⟨fun x hx => hs'.1 x (by simp [hx]), hs''.2⟩
          have := ovTake_shape (max g d.bm.maxt) prev rest (by omega) (fun x hx => hwf x (by simp [hx])) hsw
            (by simp only [List.map_cons, List.nodup_cons]; exact ⟨hnd'.2.1, hnd'.2.2.2⟩) a ha
          exact this.mono (by
            intro x hx
            rcases List.mem_cons.mp hx with rfl | hx
            · simp
            · exact List.mem_cons_of_mem _ (List.mem_cons_of_mem _ hx))
    · rename_i hge
      have hmax : max g d.bm.maxt = d.bm.maxt := by omega
      exact ih (max g d.bm.maxt) d hmax.symm (fun x hx => hwf x (by simp [hx])) hs'.2
        (by simp only [List.map_cons, List.nodup_cons]; exact ⟨hnd'.2.2.1, hnd'.2.2.2⟩)

theorem selectOverlappingDirs_shape (cfg : Cfg) (l : List DirMeta) (hwf : ∀ d ∈ l, d.bm.WF)
    (hs : l.Pairwise (fun a b => a.bm.mint ≤ b.bm.mint)) (hnd : (l.map (·.dir)).Nodup) :
    ∀ a ∈ selectOverlappingDirs cfg l, OvPartner (selectOverlappingDirs cfg l) a := by
  unfold selectOverlappingDirs
  split
  · simp
  · split
    · simp
    · simp
    · exact ovFind_shape _ _ _ rfl (fun x hx => hwf x (by simp [hx])) hs hnd

end Prom.CompactPlan
