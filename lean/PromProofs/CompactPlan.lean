import PromModel.Tsdb.CompactPlan
/-
  Helper lemmas for C08 (core Lean only).
-/
namespace Prom.CompactPlan

/-! ### sorting -/

theorem insR_perm (x : DirMeta) (l : List DirMeta) : (insR x l).Perm (x :: l) := by
  induction l with
  | nil => simp [insR]
  | cons y ys ih =>
    simp only [insR]
    split
    · exact (List.Perm.cons y ih).trans (List.Perm.swap x y ys)
    · exact List.Perm.refl _

theorem foldl_insR_perm (ds acc : List DirMeta) :
    (ds.foldl (fun acc x => insR x acc) acc).Perm (ds ++ acc) := by
  induction ds generalizing acc with
  | nil => simp
  | cons d ds ih =>
    simp only [List.foldl_cons]
    refine (ih _).trans ?_
    refine (List.Perm.append_left ds (insR_perm d acc)).trans ?_
    simp

theorem sortByMint_perm (ds : List DirMeta) : (sortByMint ds).Perm ds := by
  unfold sortByMint sortRev
  refine (List.reverse_perm _).trans ?_
  simpa using foldl_insR_perm ds []

theorem insR_desc (x : DirMeta) (l : List DirMeta)
    (h : l.Pairwise (fun a b => b.bm.mint ≤ a.bm.mint)) :
    (insR x l).Pairwise (fun a b => b.bm.mint ≤ a.bm.mint) := by
  induction l with
  | nil => simp [insR]
  | cons y ys ih =>
    simp only [insR]
    rw [List.pairwise_cons] at h
    split
    · rename_i hlt
      rw [List.pairwise_cons]
      refine ⟨?_, ih h.2⟩
      intro z hz
      have := (insR_perm x ys).mem_iff.mp hz
      rcases List.mem_cons.mp this with rfl | hz'
      · omega
      · exact h.1 z hz'
    · rename_i hge
      rw [List.pairwise_cons]
      refine ⟨?_, List.pairwise_cons.mpr h⟩
      intro z hz
      rcases List.mem_cons.mp hz with rfl | hz'
      · omega
      · have := h.1 z hz'; omega

theorem foldl_insR_desc (ds acc : List DirMeta)
    (h : acc.Pairwise (fun a b => b.bm.mint ≤ a.bm.mint)) :
    (ds.foldl (fun acc x => insR x acc) acc).Pairwise (fun a b => b.bm.mint ≤ a.bm.mint) := by
  induction ds generalizing acc with
  | nil => simpa
  | cons d ds ih => exact ih _ (insR_desc d acc h)

theorem sortByMint_sorted (ds : List DirMeta) :
    (sortByMint ds).Pairwise (fun a b => a.bm.mint ≤ b.bm.mint) := by
  unfold sortByMint sortRev
  rw [List.pairwise_reverse]
  exact foldl_insR_desc ds [] List.Pairwise.nil

/-! ### selectOverlappingDirs -/

theorem ovTake_sublist (g : Int) (l : List DirMeta) : (ovTake g l).Sublist l := by
  induction l generalizing g with
  | nil => simp [ovTake]
  | cons d rest ih =>
    simp only [ovTake]
    split
    · exact (ih _).cons_cons d
    · exact List.nil_sublist _

theorem ovFind_sublist (g : Int) (prev : DirMeta) (l : List DirMeta) :
    (ovFind g prev l).Sublist (prev :: l) := by
  induction l generalizing g prev with
  | nil => simp [ovFind]
  | cons d rest ih =>
    simp only [ovFind]
    split
    · exact ((ovTake_sublist _ rest).cons_cons d).cons_cons prev
    · exact (ih _ d).cons prev

theorem selectOverlappingDirs_sublist (cfg : Cfg) (l : List DirMeta) :
    (selectOverlappingDirs cfg l).Sublist l := by
  unfold selectOverlappingDirs
  split
  · exact List.nil_sublist _
  · split
    · exact List.nil_sublist _
    · exact List.nil_sublist _
    · exact ovFind_sublist _ _ _

theorem ovFind_length (g : Int) (prev : DirMeta) (l : List DirMeta) :
    ovFind g prev l = [] ∨ 2 ≤ (ovFind g prev l).length := by
  induction l generalizing g prev with
  | nil => simp [ovFind]
  | cons d rest ih =>
    simp only [ovFind]
    split
    · right; simp
    · exact ih _ d

theorem selectOverlappingDirs_length (cfg : Cfg) (l : List DirMeta) :
    selectOverlappingDirs cfg l = [] ∨ 2 ≤ (selectOverlappingDirs cfg l).length := by
  unfold selectOverlappingDirs
  split
  · simp
  · split
    · simp
    · simp
    · exact ovFind_length _ _ _

theorem selectOverlappingDirs_disabled (cfg : Cfg) (l : List DirMeta) (h : cfg.overlapping = false) :
    selectOverlappingDirs cfg l = [] := by
  simp [selectOverlappingDirs, h]

theorem ovFind_nil (g : Int) (prev : DirMeta) (l : List DirMeta) (h : ovFind g prev l = []) :
    (∀ d ∈ l, g ≤ d.bm.mint) ∧ l.Pairwise (fun a b => a.bm.maxt ≤ b.bm.mint) := by
  induction l generalizing g prev with
  | nil => simp
  | cons d rest ih =>
    simp only [ovFind] at h
    split at h
    · simp at h
    · rename_i hge
      have ⟨h1, h2⟩ := ih _ d h
      refine ⟨?_, List.pairwise_cons.mpr ⟨?_, h2⟩⟩
      · intro e he
        rcases List.mem_cons.mp he with rfl | he'
        · omega
        · have := h1 e he'; omega
      · intro e he
        have := h1 e he; omega

theorem selectOverlappingDirs_nil (cfg : Cfg) (l : List DirMeta) (hen : cfg.overlapping = true)
    (h : selectOverlappingDirs cfg l = []) : l.Pairwise (fun a b => a.bm.maxt ≤ b.bm.mint) := by
  unfold selectOverlappingDirs at h
  simp [hen] at h
  split at h
  · simp
  · simp
  · rename_i d0 rest _
    have ⟨h1, h2⟩ := ovFind_nil _ _ _ h
    exact List.pairwise_cons.mpr ⟨h1, h2⟩

/-! ### the overlap shape -/

/-- `b` is another block of the listing that overlaps `a` -/
def OvPartner (r : List DirMeta) (a : DirMeta) : Prop :=
  ∃ b ∈ r, b.dir ≠ a.dir ∧ intersects a.bm b.bm

theorem OvPartner.mono {r r' : List DirMeta} {a : DirMeta} (h : OvPartner r a) (hs : ∀ x ∈ r, x ∈ r') :
    OvPartner r' a := by
  obtain ⟨b, hb, h1, h2⟩ := h
  exact ⟨b, hs b hb, h1, h2⟩

theorem ovTake_shape (g : Int) (w : DirMeta) (l : List DirMeta)
    (hw : w.bm.maxt = g) (hwf : ∀ d ∈ l, d.bm.WF)
    (hs : (w :: l).Pairwise (fun a b => a.bm.mint ≤ b.bm.mint))
    (hnd : ((w :: l).map (·.dir)).Nodup) :
    ∀ a ∈ ovTake g l, OvPartner (w :: ovTake g l) a := by
  induction l generalizing g w with
  | nil => simp [ovTake]
  | cons d rest ih =>
    simp only [ovTake]
    split
    · rename_i hlt
      have hs' := List.pairwise_cons.mp hs
      have hs'' := List.pairwise_cons.mp hs'.2
      have hwfd : d.bm.mint < d.bm.maxt := hwf d (by simp)
      have hnd' : w.dir ≠ d.dir ∧ w.dir ∉ rest.map (·.dir) ∧ d.dir ∉ rest.map (·.dir) ∧ (rest.map (·.dir)).Nodup := by
        simp only [List.map_cons, List.nodup_cons, List.mem_cons, not_or] at hnd
        exact ⟨hnd.1.1, hnd.1.2, hnd.2.1, hnd.2.2⟩
      intro a ha
      rcases List.mem_cons.mp ha with rfl | ha'
      · refine ⟨w, by simp, hnd'.1, ?_⟩
        have := hs'.1 a (by simp)
        unfold intersects; omega
      · -- anchor for the tail
        by_cases hgt : d.bm.maxt > g
        · have hmax : max g d.bm.maxt = d.bm.maxt := by omega
          have := ih (max g d.bm.maxt) d hmax.symm (fun x hx => hwf x (by simp [hx])) hs'.2
            (by simp only [List.map_cons, List.nodup_cons]; exact ⟨hnd'.2.2.1, hnd'.2.2.2⟩) a ha'
          exact this.mono (by
            intro x hx
            rcases List.mem_cons.mp hx with rfl | hx
            · simp
            · exact List.mem_cons_of_mem _ (List.mem_cons_of_mem _ hx))
        · have hmax : max g d.bm.maxt = g := by omega
          have hsw : (w :: rest).Pairwise (fun a b => a.bm.mint ≤ b.bm.mint) :=
            List.pairwise_cons.mpr ⟨fun x hx => hs'.1 x (by simp [hx]), hs''.2⟩
          have := ih (max g d.bm.maxt) w (by omega) (fun x hx => hwf x (by simp [hx])) hsw
            (by simp only [List.map_cons, List.nodup_cons]; exact ⟨hnd'.2.1, hnd'.2.2.2⟩) a ha'
          exact this.mono (by
            intro x hx
            rcases List.mem_cons.mp hx with rfl | hx
            · simp
            · exact List.mem_cons_of_mem _ (List.mem_cons_of_mem _ hx))
    · simp

theorem ovFind_shape (g : Int) (prev : DirMeta) (l : List DirMeta)
    (hg : prev.bm.maxt = g) (hwf : ∀ d ∈ l, d.bm.WF)
    (hs : (prev :: l).Pairwise (fun a b => a.bm.mint ≤ b.bm.mint))
    (hnd : ((prev :: l).map (·.dir)).Nodup) :
    ∀ a ∈ ovFind g prev l, OvPartner (ovFind g prev l) a := by
  induction l generalizing g prev with
  | nil => simp [ovFind]
  | cons d rest ih =>
    have hs' := List.pairwise_cons.mp hs
    have hs'' := List.pairwise_cons.mp hs'.2
    have hwfd : d.bm.mint < d.bm.maxt := hwf d (by simp)
    have hnd' : prev.dir ≠ d.dir ∧ prev.dir ∉ rest.map (·.dir) ∧ d.dir ∉ rest.map (·.dir) ∧ (rest.map (·.dir)).Nodup := by
      simp only [List.map_cons, List.nodup_cons, List.mem_cons, not_or] at hnd
      exact ⟨hnd.1.1, hnd.1.2, hnd.2.1, hnd.2.2⟩
    have hpd := hs'.1 d (by simp)
    simp only [ovFind]
    split
    · rename_i hlt
      intro a ha
      rcases List.mem_cons.mp ha with rfl | ha
      · exact ⟨d, by simp, fun h => hnd'.1 h.symm, by unfold intersects; omega⟩
      rcases List.mem_cons.mp ha with rfl | ha
      · exact ⟨prev, by simp, hnd'.1, by unfold intersects; omega⟩
      · by_cases hgt : d.bm.maxt > g
        · have hmax : max g d.bm.maxt = d.bm.maxt := by omega
          have := ovTake_shape (max g d.bm.maxt) d rest hmax.symm (fun x hx => hwf x (by simp [hx])) hs'.2
            (by simp only [List.map_cons, List.nodup_cons]; exact ⟨hnd'.2.2.1, hnd'.2.2.2⟩) a ha
          exact this.mono (by
            intro x hx
            rcases List.mem_cons.mp hx with rfl | hx
            · simp
            · exact List.mem_cons_of_mem _ (List.mem_cons_of_mem _ hx))
        · have hsw : (prev :: rest).Pairwise (fun a b => a.bm.mint ≤ b.bm.mint) :=
            List.pairwise_cons.mpr ⟨fun x hx => hs'.1 x (by simp [hx]), hs''.2⟩
          have := ovTake_shape (max g d.bm.maxt) prev rest (by omega) (fun x hx => hwf x (by simp [hx])) hsw
            (by simp only [List.map_cons, List.nodup_cons]; exact ⟨hnd'.2.1, hnd'.2.2.2⟩) a ha
          exact this.mono (by
            intro x hx
            rcases List.mem_cons.mp hx with rfl | hx
            · simp
            · exact List.mem_cons_of_mem _ (List.mem_cons_of_mem _ hx))
    · rename_i hge
      have hmax : max g d.bm.maxt = d.bm.maxt := by omega
      exact ih (max g d.bm.maxt) d hmax.symm (fun x hx => hwf x (by simp [hx])) hs'.2
        (by simp only [List.map_cons, List.nodup_cons]; exact ⟨hnd'.2.2.1, hnd'.2.2.2⟩)

theorem selectOverlappingDirs_shape (cfg : Cfg) (l : List DirMeta) (hwf : ∀ d ∈ l, d.bm.WF)
    (hs : l.Pairwise (fun a b => a.bm.mint ≤ b.bm.mint)) (hnd : (l.map (·.dir)).Nodup) :
    ∀ a ∈ selectOverlappingDirs cfg l, OvPartner (selectOverlappingDirs cfg l) a := by
  unfold selectOverlappingDirs
  split
  · simp
  · split
    · simp
    · simp
    · exact ovFind_shape _ _ _ rfl (fun x hx => hwf x (by simp [hx])) hs hnd

/-! ### splitByRange -/

theorem mem_takeWhile_imp' {α} (p : α → Bool) (l : List α) (x : α) (h : x ∈ l.takeWhile p) : p x = true := by
  induction l with
  | nil => simp at h
  | cons y ys ih =>
    simp only [List.takeWhile_cons] at h
    split at h
    · rcases List.mem_cons.mp h with rfl | h'
      · assumption
      · exact ih h'
    · simp at h


/-- the code's two-branch formula is floor division, for every (also negative) block start -/
theorem alignT0_eq_floor (m tr : Int) (htr : 0 < tr) : alignT0 m tr = tr * (m / tr) := by
  unfold alignT0
  split
  · rename_i h
    rw [Int.tdiv_eq_ediv_of_nonneg (by omega)]
  · rename_i h
    have hneg : m - tr + 1 = -(tr - 1 - m) := by omega
    rw [hneg, Int.neg_tdiv, Int.tdiv_eq_ediv_of_nonneg (by omega)]
    -- floor(m/tr) = -((tr-1-m)/tr)
    have h1 := Int.mul_ediv_self_le (x := tr - 1 - m) (k := tr) (by omega)
    have h2 := Int.lt_mul_ediv_self_add (x := tr - 1 - m) (k := tr) htr
    have h3 := Int.mul_ediv_self_le (x := m) (k := tr) (by omega)
    have h4 := Int.lt_mul_ediv_self_add (x := m) (k := tr) htr
    generalize (tr - 1 - m) / tr = q at *
    generalize m / tr = p at *
    -- tr*q ≤ tr-1-m < tr*q + tr ; tr*p ≤ m < tr*p + tr ⇒ p = -q
    have : p = -q := by
      have a1 : tr * (p + q) < tr * 1 := by rw [Int.mul_add]; omega
      have a2 : tr * (-1) < tr * (p + q) := by rw [Int.mul_add]; omega
      have b1 := Int.lt_of_mul_lt_mul_left a1 (by omega)
      have b2 := Int.lt_of_mul_lt_mul_left a2 (by omega)
      omega
    subst this
    rw [Int.mul_neg]

theorem alignT0_spec (m tr : Int) (htr : 0 < tr) : alignT0 m tr ≤ m ∧ m < alignT0 m tr + tr := by
  rw [alignT0_eq_floor m tr htr]
  exact ⟨Int.mul_ediv_self_le (by omega), Int.lt_mul_ediv_self_add htr⟩

theorem splitByRange_groups (tr : Int) (fuel : Nat) (l : List DirMeta) :
    ∀ g ∈ splitByRange tr fuel l, ∃ d rest, g = d :: rest ∧ g.Sublist l ∧
      ∀ x ∈ g, x.bm.maxt ≤ alignT0 d.bm.mint tr + tr := by
  induction fuel generalizing l with
  | zero => simp [splitByRange]
  | succ n ih =>
    cases l with
    | nil => simp [splitByRange]
    | cons d rest =>
      simp only [splitByRange]
      split
      · intro g hg
        obtain ⟨d', r', h1, h2, h3⟩ := ih rest g hg
        exact ⟨d', r', h1, h2.cons d, h3⟩
      · rename_i hle
        intro g hg
        rcases List.mem_cons.mp hg with rfl | hg'
        · refine ⟨d, _, rfl, (List.takeWhile_sublist _).cons_cons d, ?_⟩
          intro x hx
          rcases List.mem_cons.mp hx with rfl | hx'
          · omega
          · have := mem_takeWhile_imp' _ _ _ hx'
            simpa using this
        · obtain ⟨d', r', h1, h2, h3⟩ := ih _ g hg'
          exact ⟨d', r', h1, (h2.trans (List.dropWhile_sublist _)).cons d, h3⟩

/-! ### selectDirs -/

theorem selectDirsLoop_spec (ds : List DirMeta) (hi : Int) (ivs : List Int) (hpos : ∀ iv ∈ ivs, 0 < iv) :
    ∃ p, selectDirsLoop ds hi ivs = .ok p ∧
      (p = [] ∨ ∃ iv ∈ ivs, p ∈ splitByRange iv ds.length ds ∧ partOk iv hi p = true) := by
  induction ivs with
  | nil => exact ⟨[], rfl, Or.inl rfl⟩
  | cons iv ivs ih =>
    have hiv : 0 < iv := hpos iv (by simp)
    simp only [selectDirsLoop]
    rw [if_neg (by omega)]
    split
    · rename_i p hp
      refine ⟨p, rfl, Or.inr ⟨iv, by simp, List.mem_of_find?_eq_some hp, ?_⟩⟩
      exact List.find?_some hp
    · obtain ⟨p, h1, h2⟩ := ih (fun x hx => hpos x (by simp [hx]))
      refine ⟨p, h1, ?_⟩
      rcases h2 with h2 | ⟨iv', hm, h3⟩
      · exact Or.inl h2
      · exact Or.inr ⟨iv', by simp [hm], h3⟩

theorem selectDirs_spec (cfg : Cfg) (ds : List DirMeta) (hpos : ∀ iv ∈ cfg.ranges.tail, 0 < iv) :
    ∃ p, selectDirs cfg ds = .ok p ∧
      (p = [] ∨ ∃ iv ∈ cfg.ranges.tail, p ∈ splitByRange iv ds.length ds ∧
        partOk iv (ds.getLast?.getD default).bm.mint p = true) := by
  unfold selectDirs
  split
  · exact ⟨[], rfl, Or.inl rfl⟩
  · exact selectDirsLoop_spec ds _ _ hpos

/-! ### tombstones -/

theorem tombRatio_sound (nt ns : Nat) (h : tombRatioExceeds nt ns = true) : ns + 1 < 20 * nt := by
  simp [tombRatioExceeds] at h; omega

/-- inside `ns + 1 ≤ 2^52` the float comparison and the exact rational rule coincide -/
theorem tombRatio_exact (nt ns : Nat) (hs : ns + 1 ≤ 2 ^ 52) :
    tombRatioExceeds nt ns = true ↔ ns + 1 < 20 * nt := by
  simp [tombRatioExceeds]; omega

theorem midRange_eq (cfg : Cfg) (h : cfg.ranges ≠ []) :
    cfg.ranges[cfg.ranges.length / 2]? = some (midRange cfg) := by
  unfold midRange
  have hl : 0 < cfg.ranges.length := List.length_pos_iff.mpr h
  have : cfg.ranges.length / 2 < cfg.ranges.length := by omega
  rw [List.getElem?_eq_getElem this]; rfl

theorem tombPick_spec (cfg : Cfg) (l : List DirMeta) (h : cfg.ranges ≠ []) :
    ∃ p, tombPick cfg l = .ok p ∧ (p = [] ∨ ∃ v ∈ l, p = [v] ∧ TombRule cfg v.bm) := by
  induction l with
  | nil => exact ⟨[], rfl, Or.inl rfl⟩
  | cons v rest ih =>
    simp only [tombPick, midRange_eq cfg h]
    split
    · rename_i hsmall
      split
      · rename_i hd
        exact ⟨[v], rfl, Or.inr ⟨v, by simp, rfl, Or.inl ⟨hsmall, by omega, by omega⟩⟩⟩
      · exact ⟨[], rfl, Or.inl rfl⟩
    · rename_i hbig
      split
      · rename_i hr
        exact ⟨[v], rfl, Or.inr ⟨v, by simp, rfl, Or.inr ⟨by omega, tombRatio_sound _ _ hr⟩⟩⟩
      · obtain ⟨p, h1, h2⟩ := ih
        refine ⟨p, h1, ?_⟩
        rcases h2 with h2 | ⟨w, hw, h3⟩
        · exact Or.inl h2
        · exact Or.inr ⟨w, by simp [hw], h3⟩

/-! ### planClass -/

theorem isEmpty_false_iff {α} (l : List α) : (!l.isEmpty) = true ↔ l ≠ [] := by
  cases l <;> simp

/-- what `planClass` returns, by the branch that produced it -/
theorem planClass_cases (cfg : Cfg) (dms : List DirMeta) (hok : cfg.Ok) :
    ∃ p, planClass cfg dms = .ok p ∧
      (p = [] ∨
       (p = selectOverlappingDirs cfg (sortByMint dms) ∧ p ≠ []) ∨
       (selectOverlappingDirs cfg (sortByMint dms) = [] ∧ p ≠ [] ∧ ∃ iv ∈ cfg.ranges.tail,
          p ∈ splitByRange iv (sortByMint dms).dropLast.length (sortByMint dms).dropLast ∧
          partOk iv ((sortByMint dms).dropLast.getLast?.getD default).bm.mint p = true) ∨
       (∃ v ∈ (sortByMint dms).dropLast, p = [v] ∧ TombRule cfg v.bm)) := by
  unfold planClass
  split
  · exact ⟨[], rfl, Or.inl rfl⟩
  · simp only []
    split
    · rename_i h
      exact ⟨_, rfl, Or.inr (Or.inl ⟨rfl, (isEmpty_false_iff _).mp h⟩)⟩
    · rename_i hov
      have hov' : selectOverlappingDirs cfg (sortByMint dms) = [] := by
        cases h : selectOverlappingDirs cfg (sortByMint dms) with
        | nil => rfl
        | cons a b => simp [h] at hov
      obtain ⟨sel, hsel, hcase⟩ := selectDirs_spec cfg (sortByMint dms).dropLast hok.2
      rw [hsel]
      simp only []
      split
      · rename_i hne
        have hne' := (isEmpty_false_iff _).mp hne
        rcases hcase with h | h
        · exact absurd h hne'
        · exact ⟨sel, rfl, Or.inr (Or.inr (Or.inl ⟨hov', hne', h⟩))⟩
      · obtain ⟨p, hp, hcase⟩ := tombPick_spec cfg (sortByMint dms).dropLast.reverse hok.1
        refine ⟨p, hp, ?_⟩
        rcases hcase with h | ⟨v, hv, h1, h2⟩
        · exact Or.inl h
        · exact Or.inr (Or.inr (Or.inr ⟨v, by simpa using hv, h1, h2⟩))

/-- `p` is a sublist of a permutation of a sublist of `dms` (what sorting a class and selecting does) -/
def SubOf (p dms : List DirMeta) : Prop := ∃ cls l, cls.Sublist dms ∧ l.Perm cls ∧ p.Sublist l

theorem SubOf.mem {p dms : List DirMeta} (h : SubOf p dms) : ∀ d ∈ p, d ∈ dms := by
  obtain ⟨cls, l, h1, h2, h3⟩ := h
  intro d hd
  exact h1.subset (h2.mem_iff.mp (h3.subset hd))

theorem SubOf.nodup {p dms : List DirMeta} (h : SubOf p dms) (hn : (dms.map (·.dir)).Nodup) :
    (p.map (·.dir)).Nodup := by
  obtain ⟨cls, l, h1, h2, h3⟩ := h
  have a := hn.sublist (h1.map (·.dir))
  have b := (h2.map (·.dir)).nodup_iff.mpr a
  exact b.sublist (h3.map (·.dir))

theorem SubOf.filter_length {p dms : List DirMeta} (h : SubOf p dms) (q : DirMeta → Bool) :
    (p.filter q).length ≤ (dms.filter q).length := by
  obtain ⟨cls, l, h1, h2, h3⟩ := h
  have a := (h3.filter q).length_le
  have b := (h2.filter q).length_eq
  have c := (h1.filter q).length_le
  omega

theorem SubOf.of_sublist {p cls dms : List DirMeta} (h : SubOf p cls) (hs : cls.Sublist dms) : SubOf p dms := by
  obtain ⟨c, l, h1, h2, h3⟩ := h
  exact ⟨c, l, h1.trans hs, h2, h3⟩

theorem planClass_subOf (cfg : Cfg) (dms p : List DirMeta) (hok : cfg.Ok) (h : planClass cfg dms = .ok p) :
    SubOf p dms := by
  obtain ⟨p', hp', hc⟩ := planClass_cases cfg dms hok
  rw [h] at hp'; cases hp'
  have hperm := sortByMint_perm dms
  refine ⟨dms, sortByMint dms, List.Sublist.refl _, hperm, ?_⟩
  rcases hc with rfl | ⟨rfl, _⟩ | ⟨_, _, iv, _, hm, _⟩ | ⟨v, hv, rfl, _⟩
  · exact List.nil_sublist _
  · exact selectOverlappingDirs_sublist _ _
  · obtain ⟨d, r, _, hsub, _⟩ := splitByRange_groups _ _ _ p hm
    exact hsub.trans (List.dropLast_sublist _)
  · have : [v].Sublist (sortByMint dms).dropLast := List.singleton_sublist.mpr hv
    exact this.trans (List.dropLast_sublist _)

/-- size/tombstone facts used by the convergence argument (no hypothesis on the blocks) -/
theorem planClass_size (cfg : Cfg) (dms p : List DirMeta) (hok : cfg.Ok) (h : planClass cfg dms = .ok p) :
    p = [] ∨ 2 ≤ p.length ∨ ∃ v, p = [v] ∧ 0 < v.bm.numTombstones := by
  obtain ⟨p', hp', hc⟩ := planClass_cases cfg dms hok
  rw [h] at hp'; cases hp'
  rcases hc with rfl | ⟨rfl, hne⟩ | ⟨_, _, iv, _, hm, hpo⟩ | ⟨v, hv, rfl, ht⟩
  · exact Or.inl rfl
  · rcases selectOverlappingDirs_length cfg (sortByMint dms) with h0 | h2
    · exact absurd h0 hne
    · exact Or.inr (Or.inl h2)
  · simp only [partOk, Bool.and_eq_true, decide_eq_true_eq] at hpo
    exact Or.inr (Or.inl hpo.2)
  · refine Or.inr (Or.inr ⟨v, rfl, ?_⟩)
    rcases ht with ⟨_, h1, _⟩ | ⟨_, h2⟩ <;> omega

/-! ### shapes of a class plan -/

theorem planClass_shape (cfg : Cfg) (dms p : List DirMeta) (hok : cfg.Ok)
    (hwf : ∀ d ∈ dms, d.bm.WF) (hnd : (dms.map (·.dir)).Nodup)
    (hcl : ∀ a ∈ dms, ∀ b ∈ dms, a.bm.cls = b.bm.cls)
    (h : planClass cfg dms = .ok p) :
    p = [] ∨ ShapeOverlap cfg p ∨ ShapeRange cfg dms p ∨ ShapeTomb cfg p := by
  obtain ⟨p', hp', hc⟩ := planClass_cases cfg dms hok
  rw [h] at hp'; cases hp'
  have hperm := sortByMint_perm dms
  have hsorted := sortByMint_sorted dms
  have hnds : ((sortByMint dms).map (·.dir)).Nodup := (hperm.map (·.dir)).nodup_iff.mpr hnd
  rcases hc with rfl | ⟨rfl, hne⟩ | ⟨hov, hne, iv, hiv, hm, hpo⟩ | ⟨v, hv, rfl, ht⟩
  · exact Or.inl rfl
  · -- overlapping set
    right; left
    refine ⟨?_, ?_, ?_⟩
    · cases hen : cfg.overlapping with
      | true => rfl
      | false => exact absurd (selectOverlappingDirs_disabled cfg _ hen) hne
    · rcases selectOverlappingDirs_length cfg (sortByMint dms) with h0 | h2
      · exact absurd h0 hne
      · exact h2
    · exact selectOverlappingDirs_shape cfg _ (fun d hd => hwf d (hperm.mem_iff.mp hd)) hsorted hnds
  · -- a group of one aligned range
    right; right; left
    have hivpos : 0 < iv := hok.2 iv hiv
    obtain ⟨d, r, hpd, hsub, hmax⟩ := splitByRange_groups _ _ _ p hm
    simp only [partOk, Bool.and_eq_true, decide_eq_true_eq, List.all_eq_true, Bool.not_eq_true'] at hpo
    have hsubs : p.Sublist (sortByMint dms) := hsub.trans (List.dropLast_sublist _)
    have hps : p.Pairwise (fun a b => a.bm.mint ≤ b.bm.mint) := hsorted.sublist hsubs
    -- the newest block of the class
    have hsne : sortByMint dms ≠ [] := by
      intro h0; rw [h0] at hsubs; rw [hpd] at hsubs; simp at hsubs
    have hsplit := List.dropLast_concat_getLast hsne
    generalize hn : (sortByMint dms).getLast hsne = n at hsplit
    generalize hs' : (sortByMint dms).dropLast = s' at *
    refine ⟨hpo.2, hpo.1.1, ⟨iv, hiv, d, by rw [hpd]; simp, ?_⟩, ⟨n, ?_, ?_, ?_⟩, ?_⟩
    · intro b hb
      rw [← alignT0_eq_floor _ _ hivpos]
      refine ⟨?_, hmax b hb⟩
      have hd := (alignT0_spec d.bm.mint iv hivpos).1
      rw [hpd] at hb hps
      rcases List.mem_cons.mp hb with rfl | hb'
      · exact hd
      · have := (List.pairwise_cons.mp hps).1 b hb'; omega
    · exact hperm.mem_iff.mp (by rw [← hsplit]; simp)
    · rw [← hsplit] at hnds
      simp only [List.map_append, List.map_cons, List.map_nil] at hnds
      have := (List.nodup_append.mp hnds).2.2
      intro hmem
      have hmem' : n.dir ∈ s'.map (·.dir) := (hsub.map (·.dir)).subset hmem
      exact this _ hmem' _ (by simp) rfl
    · intro b hb
      have hbs' : b ∈ s' := hsub.subset hb
      have hbd : b ∈ dms := hperm.mem_iff.mp (by rw [← hsplit]; simp [hbs'])
      have hnd' : n ∈ dms := hperm.mem_iff.mp (by rw [← hsplit]; simp)
      refine ⟨hcl b hbd n hnd', ?_⟩
      rw [← hsplit] at hsorted
      exact (List.pairwise_append.mp hsorted).2.2 b hbs' n (by simp)
    · intro hen
      have := selectOverlappingDirs_nil cfg _ hen hov
      refine (this.sublist hsubs).imp ?_
      intro a b hab hint
      unfold intersects at hint; omega
  · -- a single block with tombstones
    right; right; right
    exact ⟨rfl, by intro d hd; simp at hd; subst hd; exact ht⟩

/-! ### plan -/

theorem planClass_ok (cfg : Cfg) (dms : List DirMeta) (hok : cfg.Ok) : ∃ p, planClass cfg dms = .ok p := by
  obtain ⟨p, hp, _⟩ := planClass_cases cfg dms hok
  exact ⟨p, hp⟩

theorem cls_of_isStale {d : DirMeta} (h : isStale d = true) : d.bm.cls = .stale := by
  simp [isStale] at h; simp [Meta.cls, h]
theorem cls_of_isSelected {d : DirMeta} (h : isSelected d = true) : d.bm.cls = .selected := by
  simp [isSelected] at h; simp [Meta.cls, h]
theorem cls_of_isNonHint {d : DirMeta} (h : isNonHint d = true) : d.bm.cls = .regular := by
  simp [isNonHint] at h; simp [Meta.cls, h]

theorem filter_sameClass (dms : List DirMeta) (f : DirMeta → Bool) (c : Cls)
    (hf : ∀ d, f d = true → d.bm.cls = c) :
    ∀ a ∈ dms.filter f, ∀ b ∈ dms.filter f, a.bm.cls = b.bm.cls := by
  intro a ha b hb
  rw [hf a (List.mem_filter.mp ha).2, hf b (List.mem_filter.mp hb).2]

theorem isEmpty_filter_false {α} (l : List α) (f : α → Bool) (x : α) (hx : x ∈ l) (hf : f x = true) :
    (l.filter f).isEmpty = false := by
  have : x ∈ l.filter f := List.mem_filter.mpr ⟨hx, hf⟩
  cases h : l.filter f with
  | nil => rw [h] at this; simp at this
  | cons a b => rfl

theorem planMulti_spec (cfg : Cfg) (dms p : List DirMeta) (hok : cfg.Ok) (h : planMulti cfg dms = .ok p) :
    ∃ cls, cls.Sublist dms ∧ (∀ a ∈ cls, ∀ b ∈ cls, a.bm.cls = b.bm.cls) ∧ planClass cfg cls = .ok p := by
  unfold planMulti at h
  obtain ⟨p1, hp1⟩ := planClass_ok cfg (dms.filter isNonHint) hok
  rw [hp1] at h
  simp only [] at h
  by_cases e1 : (!p1.isEmpty) = true
  · rw [if_pos e1] at h; cases h
    exact ⟨_, List.filter_sublist, filter_sameClass dms _ .regular (fun d => cls_of_isNonHint), hp1⟩
  · rw [if_neg e1] at h
    obtain ⟨p2, hp2⟩ := planClass_ok cfg (dms.filter isStale) hok
    rw [hp2] at h
    simp only [] at h
    by_cases e2 : (!p2.isEmpty) = true
    · rw [if_pos e2] at h; cases h
      exact ⟨_, List.filter_sublist, filter_sameClass dms _ .stale (fun d => cls_of_isStale), hp2⟩
    · rw [if_neg e2] at h
      exact ⟨_, List.filter_sublist, filter_sameClass dms _ .selected (fun d => cls_of_isSelected), h⟩

/-- the plan is the `planClass` result of one single-class sub-listing -/
theorem plan_spec (cfg : Cfg) (dms p : List DirMeta) (hok : cfg.Ok) (h : plan cfg dms = .ok p) :
    ∃ cls, cls.Sublist dms ∧ (∀ a ∈ cls, ∀ b ∈ cls, a.bm.cls = b.bm.cls) ∧ planClass cfg cls = .ok p := by
  unfold plan at h
  by_cases he : dms.isEmpty = true
  · rw [if_pos he] at h; cases h
    exact ⟨[], List.nil_sublist _, by simp, by simp [planClass]⟩
  · rw [if_neg he] at h
    by_cases hcls : classCount dms > 1
    · rw [if_pos hcls] at h
      exact planMulti_spec cfg dms p hok h
    · rw [if_neg hcls] at h
      refine ⟨dms, List.Sublist.refl _, ?_, h⟩
      intro a ha b hb
      apply Classical.byContradiction
      intro hne
      apply hcls
      have hS : ∀ x ∈ dms, x.bm.cls = .stale → (if (dms.filter isStale).isEmpty then 0 else 1) = 1 := by
        intro x hx h
        rw [isEmpty_filter_false dms isStale x hx (by
          unfold Meta.cls at h; unfold isStale
          cases h1 : x.bm.stale <;> cases h2 : x.bm.selected <;> simp [h1, h2] at h ⊢)]
        rfl
      have hE : ∀ x ∈ dms, x.bm.cls = .selected → (if (dms.filter isSelected).isEmpty then 0 else 1) = 1 := by
        intro x hx h
        rw [isEmpty_filter_false dms isSelected x hx (by
          unfold Meta.cls at h; unfold isSelected
          cases h1 : x.bm.stale <;> cases h2 : x.bm.selected <;> simp [h1, h2] at h ⊢)]
        rfl
      have hR : ∀ x ∈ dms, x.bm.cls = .regular → (if (dms.filter isNonHint).isEmpty then 0 else 1) = 1 := by
        intro x hx h
        rw [isEmpty_filter_false dms isNonHint x hx (by
          unfold Meta.cls at h; unfold isNonHint
          cases h1 : x.bm.stale <;> cases h2 : x.bm.selected <;> simp [h1, h2] at h ⊢)]
        rfl
      unfold classCount
      cases hca : a.bm.cls <;> cases hcb : b.bm.cls <;>
        first
        | exact absurd (hca.trans hcb.symm) hne
        | (have := hS a ha hca; have := hE b hb hcb; omega)
        | (have := hS a ha hca; have := hR b hb hcb; omega)
        | (have := hE a ha hca; have := hS b hb hcb; omega)
        | (have := hE a ha hca; have := hR b hb hcb; omega)
        | (have := hR a ha hca; have := hS b hb hcb; omega)
        | (have := hR a ha hca; have := hE b hb hcb; omega)

theorem planMulti_ok (cfg : Cfg) (dms : List DirMeta) (hok : cfg.Ok) : ∃ p, planMulti cfg dms = .ok p := by
  unfold planMulti
  obtain ⟨p1, hp1⟩ := planClass_ok cfg (dms.filter isNonHint) hok
  rw [hp1]; simp only []
  by_cases e1 : (!p1.isEmpty) = true
  · rw [if_pos e1]; exact ⟨_, rfl⟩
  · rw [if_neg e1]
    obtain ⟨p2, hp2⟩ := planClass_ok cfg (dms.filter isStale) hok
    rw [hp2]; simp only []
    by_cases e2 : (!p2.isEmpty) = true
    · rw [if_pos e2]; exact ⟨_, rfl⟩
    · rw [if_neg e2]; exact planClass_ok cfg _ hok

theorem plan_ok (cfg : Cfg) (dms : List DirMeta) (hok : cfg.Ok) : ∃ p, plan cfg dms = .ok p := by
  unfold plan
  by_cases he : dms.isEmpty = true
  · rw [if_pos he]; exact ⟨_, rfl⟩
  · rw [if_neg he]
    by_cases hcls : classCount dms > 1
    · rw [if_pos hcls]; exact planMulti_ok cfg dms hok
    · rw [if_neg hcls]; exact planClass_ok cfg _ hok

theorem ExcludesNewest.mono {cls dms p : List DirMeta} (h : ExcludesNewest cls p) (hs : cls.Sublist dms) :
    ExcludesNewest dms p := by
  obtain ⟨n, hn, h1, h2⟩ := h
  exact ⟨n, hs.subset hn, h1, h2⟩

theorem plan_allowed (cfg : Cfg) (dms p : List DirMeta) (hok : cfg.Ok)
    (hwf : ∀ d ∈ dms, d.bm.WF) (hnd : (dms.map (·.dir)).Nodup) (h : plan cfg dms = .ok p) :
    PlanAllowed cfg dms p := by
  obtain ⟨cls, hsub, hcl, hpc⟩ := plan_spec cfg dms p hok h
  have hso : SubOf p dms := (planClass_subOf cfg cls p hok hpc).of_sublist hsub
  have hndc : (cls.map (·.dir)).Nodup := hnd.sublist (hsub.map (·.dir))
  have hsh := planClass_shape cfg cls p hok (fun d hd => hwf d (hsub.subset hd)) hndc hcl hpc
  rcases hsh with h0 | hsh
  · exact Or.inl h0
  · right
    refine ⟨hso.mem, hso.nodup hnd, ?_, ?_⟩
    · intro a ha b hb
      have hm := (planClass_subOf cfg cls p hok hpc).mem
      exact hcl a (hm a ha) b (hm b hb)
    · rcases hsh with h1 | h2 | h3
      · exact Or.inl h1
      · exact Or.inr (Or.inl ⟨h2.1, h2.2.1, h2.2.2.1, h2.2.2.2.1.mono hsub, h2.2.2.2.2⟩)
      · exact Or.inr (Or.inr h3)

/-! ### the metadata-level loop decreases `measure` -/

theorem filter_split_length {α} (l : List α) (f : α → Bool) :
    (l.filter f).length + (l.filter (fun x => !f x)).length = l.length := by
  induction l with
  | nil => rfl
  | cons x xs ih =>
    simp only [List.filter_cons]
    cases f x <;> simp <;> omega

def tombD (d : DirMeta) : Bool := decide (d.bm.numTombstones > 0)

theorem measure_map (l : List DirMeta) :
    measure (l.map (·.bm)) = l.length + (l.filter tombD).length := by
  unfold measure
  rw [List.length_map, List.filter_map, List.length_map]
  rfl

theorem enumFrom_map_bm (k : Nat) (ms : List Meta) : (enumFrom k ms).map (·.bm) = ms := by
  induction ms generalizing k with
  | nil => rfl
  | cons m ms ih => simp [enumFrom, ih]

theorem enumFrom_dir_ge (k : Nat) (ms : List Meta) : ∀ d ∈ enumFrom k ms, k ≤ d.dir := by
  induction ms generalizing k with
  | nil => simp [enumFrom]
  | cons m ms ih =>
    intro d hd
    simp only [enumFrom, List.mem_cons] at hd
    rcases hd with rfl | hd
    · exact Nat.le_refl _
    · have := ih (k + 1) d hd; omega

theorem enumFrom_nodup (k : Nat) (ms : List Meta) : ((enumFrom k ms).map (·.dir)).Nodup := by
  induction ms generalizing k with
  | nil => simp [enumFrom]
  | cons m ms ih =>
    simp only [enumFrom, List.map_cons, List.nodup_cons]
    refine ⟨?_, ih (k + 1)⟩
    intro hmem
    obtain ⟨d, hd, hdk⟩ := List.mem_map.mp hmem
    have := enumFrom_dir_ge (k + 1) ms d hd
    omega

theorem enum_nodup (ms : List Meta) : ((enum ms).map (·.dir)).Nodup := enumFrom_nodup 0 ms

theorem measure_append_clean (ms : List Meta) (m : Meta) (h : m.numTombstones = 0) :
    measure (ms ++ [m]) = measure ms + 1 := by
  unfold measure
  simp [List.filter_append, h]
  omega

theorem applyPlan_measure_le (metas : List Meta) (p : List DirMeta) :
    measure (applyPlan metas p) ≤
      measure (((enum metas).filter fun d => !(p.map (·.dir)).contains d.dir).map (·.bm)) + 1 := by
  unfold applyPlan
  simp only []
  split
  · omega
  · split
    · rw [measure_append_clean _ _ rfl]; omega
    · omega

theorem step_decreases (cfg : Cfg) (metas : List Meta) (p : List DirMeta) (hok : cfg.Ok)
    (h : planMetas cfg metas = .ok p) (hne : p ≠ []) :
    measure (applyPlan metas p) < measure metas := by
  unfold planMetas at h
  obtain ⟨cls, hsub, _, hpc⟩ := plan_spec cfg _ p hok h
  have hso : SubOf p (enum metas) := (planClass_subOf cfg cls p hok hpc).of_sublist hsub
  have hsize := planClass_size cfg cls p hok hpc
  have hle := applyPlan_measure_le metas p
  rw [measure_map] at hle
  have hm : measure metas = (enum metas).length + ((enum metas).filter tombD).length := by
    rw [← measure_map, enum, enumFrom_map_bm]
  generalize enum metas = E at *
  let planned : DirMeta → Bool := fun d => (p.map (·.dir)).contains d.dir
  have hkeep : (fun d : DirMeta => !(p.map (·.dir)).contains d.dir) = fun d => !planned d := rfl
  rw [hkeep] at hle
  have hsplit := filter_split_length E planned
  have hpall : p.filter planned = p := by
    apply List.filter_eq_self.mpr
    intro d hd
    simp only [planned, List.contains_eq_mem, decide_eq_true_eq]
    exact List.mem_map.mpr ⟨d, hd, rfl⟩
  have hcount := hso.filter_length planned
  rw [hpall] at hcount
  have htsub : ((E.filter fun d => !planned d).filter tombD).length ≤ (E.filter tombD).length :=
    (List.filter_sublist.filter tombD).length_le
  rcases hsize with h0 | h2 | ⟨v, rfl, hv⟩
  · exact absurd h0 hne
  · omega
  · -- single block: its tombstones disappear
    have hq := hso.filter_length (fun d => planned d && tombD d)
    have hv' : ([v].filter fun d => planned d && tombD d) = [v] := by
      apply List.filter_eq_self.mpr
      intro d hd
      simp only [List.mem_singleton] at hd
      subst hd
      simp [planned, tombD, hv]
    rw [hv'] at hq
    have hts := filter_split_length (E.filter tombD) planned
    rw [List.filter_filter, List.filter_filter] at hts
    have e1 : (E.filter fun a => (planned a && tombD a)).length = (E.filter fun d => planned d && tombD d).length := rfl
    have e2 : ((E.filter fun d => !planned d).filter tombD).length = (E.filter fun a => (!planned a && tombD a)).length := by
      rw [List.filter_filter]
      congr 1
      apply List.filter_congr
      intro x _
      exact Bool.and_comm _ _
    simp only [List.length_singleton] at hq hcount
    omega

theorem plan_converges_aux (cfg : Cfg) (hok : cfg.Ok) :
    ∀ n metas, measure metas ≤ n →
      ∃ k, k ≤ measure metas ∧ planMetas cfg (iterate cfg k metas) = .ok [] := by
  intro n
  induction n with
  | zero =>
    intro metas hm
    obtain ⟨p, hp⟩ := plan_ok cfg (enum metas) hok
    cases p with
    | nil => exact ⟨0, Nat.zero_le _, hp⟩
    | cons a b =>
      have := step_decreases cfg metas (a :: b) hok hp (by simp)
      omega
  | succ n ih =>
    intro metas hm
    obtain ⟨p, hp⟩ := plan_ok cfg (enum metas) hok
    cases p with
    | nil => exact ⟨0, Nat.zero_le _, hp⟩
    | cons a b =>
      have hdec := step_decreases cfg metas (a :: b) hok hp (by simp)
      have hstep : compactStep cfg metas = applyPlan metas (a :: b) := by
        unfold compactStep
        rw [show planMetas cfg metas = .ok (a :: b) from hp]
      obtain ⟨k, hk, hfin⟩ := ih (applyPlan metas (a :: b)) (by omega)
      refine ⟨k + 1, by omega, ?_⟩
      show planMetas cfg (iterate cfg k (compactStep cfg metas)) = .ok []
      rw [hstep]; exact hfin

end Prom.CompactPlan
