import PromModel.Tsdb.BlockPopulate
import PromProofs.IntervalsIter
import PromProofs.IntervalsAdd
/-
  Helper lemmas for C07 (PromModel/Tsdb/BlockPopulate.lean).
-/
namespace Prom.BlockPopulate
open Prom.Merge
open Prom.Intervals (Interval Intervals)

/-! ### the writer loop -/

/-- what `index.Writer.AddSeries` accepts is ordered, disjoint and well-formed -/
theorem chunksAccepted_spec : ∀ (cs : List Chunk) (prev : Option Int), chunksAccepted prev cs = true →
    (∀ c ∈ cs, c.mint ≤ c.maxt ∧ ∀ p, prev = some p → p < c.mint) ∧
    cs.Pairwise (fun a b => a.maxt < b.mint)
  | [], _, _ => ⟨by simp, List.Pairwise.nil⟩
  | c :: r, prev, h => by
    simp only [chunksAccepted, Bool.and_eq_true, decide_eq_true_eq] at h
    obtain ⟨⟨h1, h2⟩, h3⟩ := h
    obtain ⟨ih1, ih2⟩ := chunksAccepted_spec r (some c.maxt) h3
    have hp : ∀ p, prev = some p → p < c.mint := by
      intro p hp; subst hp; simpa using h1
    refine ⟨?_, ?_⟩
    · intro x hx
      rcases List.mem_cons.1 hx with rfl | hx
      · exact ⟨h2, hp⟩
      · obtain ⟨a, b⟩ := ih1 x hx
        have := b c.maxt rfl
        exact ⟨a, fun p hpp => by have := hp p hpp; omega⟩
    · refine List.Pairwise.cons ?_ ih2
      intro x hx
      exact (ih1 x hx).2 c.maxt rfl

/-- recount of `meta.Stats` from a list of written series -/
def chunkStats (cs : List Chunk) : Nat × Nat × Nat :=
  ((cs.map (·.samples.length)).sum,
   ((cs.filter fun c => !chunkIsHist c).map (·.samples.length)).sum,
   ((cs.filter fun c => chunkIsHist c).map (·.samples.length)).sum)

def recount (ss : List CS) : Stats :=
  let cs := ss.flatMap (·.2)
  ⟨ss.length, cs.length, (chunkStats cs).1, (chunkStats cs).2.1, (chunkStats cs).2.2⟩

theorem addChunkStats_spec : ∀ (cs : List Chunk) (st : Stats),
    addChunkStats st cs =
      { st with numSamples := st.numSamples + (chunkStats cs).1,
                numFloat := st.numFloat + (chunkStats cs).2.1,
                numHist := st.numHist + (chunkStats cs).2.2 }
  | [], st => by simp [addChunkStats, chunkStats]
  | c :: r, st => by
    rw [addChunkStats, addChunkStats_spec r]
    cases hh : chunkIsHist c <;>
      simp [chunkStats, hh, List.filter_cons] <;> omega

theorem chunkStats_append (a b : List Chunk) :
    chunkStats (a ++ b) = ((chunkStats a).1 + (chunkStats b).1, (chunkStats a).2.1 + (chunkStats b).2.1,
      (chunkStats a).2.2 + (chunkStats b).2.2) := by
  simp [chunkStats, List.filter_append]

/-- every label set is above its predecessor, as `index.Writer.AddSeries` demands -/
def Asc : List Labels → Prop
  | [] => True
  | [_] => True
  | a :: b :: r => Labels.compare b a = .gt ∧ Asc (b :: r)

theorem asc_snoc : ∀ (l : List Labels) (x : Labels),
    Asc (l ++ [x]) ↔ Asc l ∧ ∀ y, l.getLast? = some y → Labels.compare x y = .gt
  | [], x => by simp [Asc]
  | [a], x => by simp [Asc]
  | a :: b :: r, x => by
    have ih := asc_snoc (b :: r) x
    simp only [List.cons_append] at ih ⊢
    simp only [Asc, ih, List.getLast?_cons_cons]
    exact and_assoc.symm

/-- invariant of the writer loop -/
structure WInv (out : List CS) (st : Stats) (last : Labels) : Prop where
  stats : st = recount out.reverse
  nonempty : ∀ s ∈ out, s.2 ≠ []
  accepted : ∀ s ∈ out, chunksAccepted none s.2 = true
  chain : Asc (out.reverse.map (·.1))
  lastEq : ∀ s, out.head? = some s → last = s.1

theorem recount_snoc (out : List CS) (s : CS) :
    recount (out ++ [s]) =
      ⟨(recount out).numSeries + 1, (recount out).numChunks + s.2.length,
        (recount out).numSamples + (chunkStats s.2).1, (recount out).numFloat + (chunkStats s.2).2.1,
        (recount out).numHist + (chunkStats s.2).2.2⟩ := by
  simp [recount, List.flatMap_append, chunkStats_append]

theorem writeLoop_spec : ∀ (l out : List CS) (st : Stats) (last : Labels) (res : List CS) (st' : Stats),
    WInv out st last → writeLoop l out st last = .ok (res, st') →
    ∃ out', res = out'.reverse ∧ WInv out' st' (match out'.head? with | some s => s.1 | none => last) ∧
      (∃ pre, out' = pre ++ out) ∧
      (out'.reverse.map fun s => s) = out.reverse ++ l.filter (fun s => !s.2.isEmpty)
  | [], out, st, last, res, st', inv, h => by
    simp only [writeLoop, Except.ok.injEq, Prod.mk.injEq] at h
    obtain ⟨rfl, rfl⟩ := h
    refine ⟨out, rfl, ?_, ⟨[], rfl⟩, by simp⟩
    cases ho : out.head? with
    | none => exact ⟨inv.stats, inv.nonempty, inv.accepted, inv.chain, by simp [ho]⟩
    | some s => exact ⟨inv.stats, inv.nonempty, inv.accepted, inv.chain, by intro s' hs'; simp_all⟩
  | s :: r, out, st, last, res, st', inv, h => by
    rw [writeLoop] at h
    split at h
    · rename_i he
      obtain ⟨out', h1, h2, h3, h4⟩ := writeLoop_spec r out st last res st' inv h
      refine ⟨out', h1, h2, h3, ?_⟩
      rw [h4]; simp [List.filter_cons, he]
    · rename_i he
      split at h
      · cases h
      · rename_i hc
        split at h
        · cases h
        · rename_i ha
          have hgt : Labels.compare s.1 last = .gt := by
            cases hcmp : Labels.compare s.1 last <;> simp_all
          have hacc : chunksAccepted none s.2 = true := by simpa using ha
          have hne : s.2 ≠ [] := by intro h0; simp [h0] at he
          have inv' : WInv (s :: out)
              (addChunkStats { st with numChunks := st.numChunks + s.2.length, numSeries := st.numSeries + 1 } s.2) s.1 := by
            refine ⟨?_, ?_, ?_, ?_, ?_⟩
            · rw [addChunkStats_spec, List.reverse_cons, recount_snoc, inv.stats]
            · intro x hx; rcases List.mem_cons.1 hx with rfl | hx
              · exact hne
              · exact inv.nonempty x hx
            · intro x hx; rcases List.mem_cons.1 hx with rfl | hx
              · exact hacc
              · exact inv.accepted x hx
            · rw [List.reverse_cons, List.map_append, List.map_cons, List.map_nil, asc_snoc]
              refine ⟨inv.chain, ?_⟩
              intro y hy
              cases out with
              | nil => simp at hy
              | cons o os =>
                have := inv.lastEq o rfl
                simp at hy
                rw [← hy, ← this]; exact hgt
            · intro x hx; simp at hx; rw [hx]
          obtain ⟨out', h1, h2, ⟨pre, h3⟩, h4⟩ := writeLoop_spec r (s :: out) _ s.1 res st' inv' h
          refine ⟨out', h1, ?_, ⟨pre ++ [s], by simp [h3]⟩, ?_⟩
          · have hh : out'.head? ≠ none := by
              rw [h3]; cases pre <;> simp
            cases ho : out'.head? with
            | none => exact absurd ho hh
            | some x => simpa [ho] using h2
          · rw [h4]; simp [List.filter_cons, he]

theorem winv_nil : WInv [] ⟨0, 0, 0, 0, 0⟩ [] :=
  ⟨by simp [recount, chunkStats], by simp, by simp, by simp [Asc], by simp⟩

/-- the stages of a successful `populate` -/
theorem populate_ok {m : Merger} {blocks : List Block} {mint maxt : Int} {o : Output}
    (h : populate m blocks mint maxt = .ok o) :
    blocks ≠ [] ∧ ∃ sets groups merged,
      blockSets mint maxt blocks = .ok sets ∧ groupSets sets = (groups, false) ∧
      mergeGroups m groups = .ok merged ∧
      writeLoop merged [] ⟨0, 0, 0, 0, 0⟩ [] = .ok (o.series, o.stats) := by
  unfold populate at h
  split at h
  · cases h
  · rename_i hne
    split at h
    · cases h
    · rename_i sets hs
      split at h
      · cases h
      · rename_i groups hg
        split at h
        · cases h
        · rename_i merged hm
          split at h
          · cases h
          · rename_i out st hw
            cases h
            exact ⟨by intro h0; simp [h0] at hne, sets, groups, merged, hs, hg, hm, hw⟩

/-- what the writer loop leaves of a successful `populate` -/
theorem populate_written {m : Merger} {blocks : List Block} {mint maxt : Int} {o : Output}
    (h : populate m blocks mint maxt = .ok o) :
    WInv o.series.reverse o.stats (match o.series.reverse.head? with | some s => s.1 | none => []) ∧
    ∃ merged, (∃ sets groups, blockSets mint maxt blocks = .ok sets ∧ groupSets sets = (groups, false) ∧
      mergeGroups m groups = .ok merged) ∧ o.series = merged.filter (fun s => !s.2.isEmpty) := by
  obtain ⟨_, sets, groups, merged, hs, hg, hm, hw⟩ := populate_ok h
  obtain ⟨out', h1, h2, _, h4⟩ := writeLoop_spec merged [] _ [] _ _ winv_nil hw
  have : out' = o.series.reverse := by rw [h1]; simp
  subst this
  refine ⟨h2, merged, ⟨sets, groups, hs, hg, hm⟩, ?_⟩
  simpa using h4

end Prom.BlockPopulate
