import PromModel.Promql.RangeEval
/-
  Helper lemmas for C27 (PromProps/C27.lean): sorted-list window lemmas behind `window_reuse_eq_fresh`,
  the loop invariant of `overRange`, and the structural lemmas about `preprocess`.
-/
namespace Prom.RangeEval

/-! ### sorted lists of samples -/

abbrev SortedT (xs : List Sample) : Prop := xs.Pairwise (fun a b => a.t < b.t)

theorem dropWhile_filter_sorted (p : Sample → Bool) (c : Int) :
    ∀ xs : List Sample, SortedT xs →
      (xs.filter p).dropWhile (fun s => decide (s.t ≤ c)) = xs.filter (fun s => p s && decide (c < s.t))
  | [], _ => by simp
  | x :: xs, h => by
    have hx : ∀ y ∈ xs, x.t < y.t := (List.pairwise_cons.mp h).1
    have hs : SortedT xs := (List.pairwise_cons.mp h).2
    have ih := dropWhile_filter_sorted p c xs hs
    by_cases hp : p x = true
    · by_cases hc : x.t ≤ c
      · have : ¬ c < x.t := by omega
        simp [List.filter_cons, hp, List.dropWhile_cons, hc, this, ih]
      · have hc' : c < x.t := by omega
        have : xs.filter (fun s => p s && decide (c < s.t)) = xs.filter p := by
          apply List.filter_congr
          intro y hy
          have := hx y hy
          have : c < y.t := by omega
          simp [this]
        simp [List.filter_cons, hp, List.dropWhile_cons, hc, hc', this]
    · simp [List.filter_cons, hp, ih]

theorem filter_split_sorted (p : Sample → Bool) (c : Int) :
    ∀ xs : List Sample, SortedT xs →
      xs.filter p = xs.filter (fun s => p s && decide (s.t ≤ c)) ++ xs.filter (fun s => p s && decide (c < s.t))
  | [], _ => by simp
  | x :: xs, h => by
    have hx : ∀ y ∈ xs, x.t < y.t := (List.pairwise_cons.mp h).1
    have hs : SortedT xs := (List.pairwise_cons.mp h).2
    have ih := filter_split_sorted p c xs hs
    by_cases hc : x.t ≤ c
    · have hn : ¬ c < x.t := by omega
      by_cases hp : p x = true
      · simp only [List.filter_cons, hp, hc, hn, decide_true, decide_false, Bool.and_true, Bool.and_false, if_true]
        simp only [Bool.false_eq_true, if_false, List.cons_append]
        rw [← ih]
      · simp only [List.filter_cons, hp, Bool.false_and, Bool.false_eq_true, if_false]
        exact ih
    · have hc' : c < x.t := by omega
      have h1 : (x :: xs).filter (fun s => p s && decide (s.t ≤ c)) = [] := by
        apply List.filter_eq_nil_iff.mpr
        intro y hy
        rcases List.mem_cons.mp hy with rfl | hy
        · simp [hc]
        · have := hx y hy
          have : ¬ y.t ≤ c := by omega
          simp [this]
      have h2 : (x :: xs).filter (fun s => p s && decide (c < s.t)) = (x :: xs).filter p := by
        apply List.filter_congr
        intro y hy
        rcases List.mem_cons.mp hy with rfl | hy
        · simp [hc']
        · have := hx y hy
          have : c < y.t := by omega
          simp [this]
      rw [h1, h2]; rfl

theorem getLast_max : ∀ (l : List Sample) (x : Sample), SortedT l → l.getLast? = some x →
    x ∈ l ∧ ∀ y ∈ l, y.t ≤ x.t
  | [], _, _, h => by simp at h
  | [a], x, _, h => by
    simp at h; subst h; simp
  | a :: b :: rest, x, hs, h => by
    have hab : ∀ y ∈ b :: rest, a.t < y.t := (List.pairwise_cons.mp hs).1
    have hs' : SortedT (b :: rest) := (List.pairwise_cons.mp hs).2
    have h' : (b :: rest).getLast? = some x := by simpa [List.getLast?_cons_cons] using h
    obtain ⟨hm, hle⟩ := getLast_max (b :: rest) x hs' h'
    refine ⟨List.mem_cons_of_mem _ hm, ?_⟩
    intro y hy
    rcases List.mem_cons.mp hy with rfl | hy
    · have := hab x hm; omega
    · exact hle y hy

theorem sorted_fresh {xs : List Sample} (h : SortedT xs) (m M : Int) : SortedT (fresh xs m M) :=
  List.Pairwise.filter _ h

theorem fresh_empty (xs : List Sample) (m : Int) : fresh xs m m = [] := by
  unfold fresh
  apply List.filter_eq_nil_iff.mpr
  intro y _
  by_cases h : m < y.t
  · have : ¬ y.t ≤ m := by omega
    simp [this]
  · simp [h]

/-- Sliding the window forward (dropping the samples that left it, appending only samples newer than the
    last kept one) equals recomputing it from scratch. -/
theorem slide_eq_fresh (xs : List Sample) (hs : SortedT xs) (m0 M0 mint maxt : Int)
    (hm : m0 ≤ mint) (hM : M0 ≤ maxt) :
    slide (fresh xs m0 M0) xs mint maxt = fresh xs mint maxt := by
  unfold slide
  cases hl : (fresh xs m0 M0).getLast? with
  | none => rfl
  | some l =>
    simp only
    by_cases hlt : mint < l.t
    · simp only [hlt, if_true]
      obtain ⟨hmem, hmax⟩ := getLast_max _ l (sorted_fresh hs m0 M0) hl
      have hl0 : (m0 < l.t ∧ l.t ≤ M0) ∧ l.stale = false := by
        have := (List.mem_filter.mp hmem).2
        simpa using this
      have e1 : (fresh xs m0 M0).dropWhile (fun s => decide (s.t ≤ mint))
          = xs.filter (fun s => (decide (m0 < s.t) && decide (s.t ≤ M0) && !s.stale) && decide (mint < s.t)) := by
        unfold fresh
        exact dropWhile_filter_sorted _ mint xs hs
      have e2 := filter_split_sorted (fun s => decide (mint < s.t) && decide (s.t ≤ maxt) && !s.stale) l.t xs hs
      rw [e1]
      unfold fresh
      rw [e2]
      congr 1
      · apply List.filter_congr
        intro s hsx
        by_cases hst : s.stale = true
        · simp [hst]
        · have hst' : s.stale = false := by simpa using hst
          by_cases hin : m0 < s.t ∧ s.t ≤ M0
          · have hsm : s ∈ fresh xs m0 M0 := by
              unfold fresh
              apply List.mem_filter.mpr
              refine ⟨hsx, ?_⟩
              simp [hin.1, hin.2, hst']
            have := hmax s hsm
            have h1 : s.t ≤ maxt := by omega
            simp [hin.1, hin.2, hst', h1, this]
          · have : ¬ (mint < s.t ∧ s.t ≤ l.t) := by
              intro hh
              apply hin
              constructor <;> omega
            by_cases ha : m0 < s.t
            · have hb : ¬ s.t ≤ M0 := fun hb => hin ⟨ha, hb⟩
              have hc : ¬ s.t ≤ l.t := by omega
              simp [ha, hb, hc, hst']
            · have hc : ¬ mint < s.t := by omega
              simp [ha, hc, hst']
      · apply List.filter_congr
        intro s _
        by_cases hgt : l.t < s.t
        · have : mint < s.t := by omega
          simp [hgt, this]
        · simp [hgt]
    · simp [hlt]

/-! ### small list lemmas -/

theorem zipWith_map_self {α β γ} (f : α → β → γ) (g : α → β) :
    ∀ l : List α, List.zipWith f l (l.map g) = l.map (fun x => f x (g x))
  | [] => rfl
  | x :: xs => by simp [zipWith_map_self f g xs]

theorem zipWith_map_map {α β γ δ} (h : β → γ → δ) (f : α → β) (g : α → γ) :
    ∀ l : List α, List.zipWith h (l.map f) (l.map g) = l.map (fun x => h (f x) (g x))
  | [] => rfl
  | x :: xs => by simp [zipWith_map_map h f g xs]

theorem reorder_id (v : Value) : reorder id v = v := by cases v <;> rfl

/-! ### the loop over steps -/

/-- With re-fetching at every step, the carried windows are always the fresh windows of the previous
    step, hence every step's vector is the instant semantics at that step's window. -/
theorem overRange_refetch (f : OverFn) (sers : List Series) (hs : ∀ ser ∈ sers, SortedT ser.samples) :
    ∀ (bounds : List (Int × Int)) (m0 M0 : Int) (first : Bool),
      (∀ b ∈ bounds, m0 ≤ b.1 ∧ M0 ≤ b.2) →
      bounds.Pairwise (fun a b => a.1 ≤ b.1 ∧ a.2 ≤ b.2) →
      overRange f sers true (sers.map fun ser => fresh ser.samples m0 M0) first bounds
        = bounds.map fun b => overAt f sers b.1 b.2
  | [], _, _, _, _, _ => by simp [overRange]
  | b :: rest, m0, M0, first, h0, hp => by
    have hb := h0 b (List.mem_cons_self)
    have hws : List.zipWith (fun ser prev => slide prev ser.samples b.1 b.2) sers
        (sers.map fun ser => fresh ser.samples m0 M0) = sers.map fun ser => fresh ser.samples b.1 b.2 := by
      rw [zipWith_map_self]
      apply List.map_congr_left
      intro ser hser
      exact slide_eq_fresh ser.samples (hs ser hser) m0 M0 b.1 b.2 hb.1 hb.2
    have hrest := overRange_refetch f sers hs rest b.1 b.2 false
      (fun b' hb' => (List.pairwise_cons.mp hp).1 b' hb') (List.pairwise_cons.mp hp).2
    simp only [overRange, Bool.or_true, if_true, hws, hrest, List.map_cons, overAt]

/-- Without re-fetching (an `@` modifier), the first step's windows are used at every step. -/
theorem overRange_keep (f : OverFn) (sers : List Series) (ws : List (List Sample)) :
    ∀ bounds : List (Int × Int), overRange f sers false ws false bounds = bounds.map fun _ => mkVec f sers ws
  | [] => by simp [overRange]
  | b :: rest => by
    simp [overRange, overRange_keep f sers ws rest]

/-! ### reference times -/

theorem refTime_of_isSet (cfg : Cfg) (a : AtMod) (off t t' : Int) (h : a.isSet = true) :
    refTime cfg a off t = refTime cfg a off t' := by
  cases a <;> simp_all [refTime, AtMod.isSet]

theorem refTime_cfg (lb ds a b a' b' : Int) (at_ : AtMod) (off t : Int) (h : at_.mentionsRange = false) :
    refTime ⟨lb, ds, a, b⟩ at_ off t = refTime ⟨lb, ds, a', b'⟩ at_ off t := by
  cases at_ <;> simp_all [refTime, AtMod.mentionsRange]

/-! ### preprocess -/

theorem evalAt_pp (cfg : Cfg) (env : Env) : ∀ (e : Expr) (t : Int), evalAt cfg env (pp e) t = evalAt cfg env e t
  | .num _, _ => rfl
  | .time, _ => rfl
  | .sel _, _ => rfl
  | .overSel _ _ _, _ => rfl
  | .overSub f e r st off a, t => by
    have ih := evalAt_pp cfg env e
    by_cases h : stepInvariant e = true <;> simp [pp, evalAt, h, ih]
  | .bin op b l r, t => by
    have ihl := evalAt_pp cfg env l
    have ihr := evalAt_pp cfg env r
    by_cases h : (stepInvariant l && stepInvariant r) = true
    · simp [pp, h, evalAt, ihl, ihr]
    · by_cases hl : shouldWrap l = true <;> by_cases hr : shouldWrap r = true <;>
        simp [pp, h, hl, hr, evalAt, ihl, ihr]
  | .agg op wo ls e, t => by simp [pp, evalAt, evalAt_pp cfg env e]
  | .stepInv e, t => by simp [pp, evalAt, evalAt_pp cfg env e]

theorem evalAt_preprocess (cfg : Cfg) (env : Env) (e : Expr) (t : Int) :
    evalAt cfg env (preprocess e) t = evalAt cfg env e t := by
  unfold preprocess
  by_cases h : shouldWrap e = true <;> simp [h, evalAt, evalAt_pp]

theorem shouldWrap_stepInvariant : ∀ e : Expr, shouldWrap e = true → stepInvariant e = true
  | .num _, h => by simp [shouldWrap] at h
  | .time, h => by simpa [shouldWrap] using h
  | .sel _, h => by simpa [shouldWrap] using h
  | .overSel _ _ _, h => by simpa [shouldWrap] using h
  | .overSub _ _ _ _ _ _, h => by simpa [shouldWrap] using h
  | .bin _ _ _ _, h => by simpa [shouldWrap] using h
  | .agg _ _ _ e, h => by
    simp only [shouldWrap] at h
    simpa [stepInvariant] using shouldWrap_stepInvariant e h
  | .stepInv _, h => by simp [shouldWrap] at h

theorem stepInvariant_pp : ∀ e : Expr, stepInvariant (pp e) = stepInvariant e
  | .num _ => rfl
  | .time => rfl
  | .sel _ => rfl
  | .overSel _ _ _ => rfl
  | .overSub _ _ _ _ _ _ => by simp [pp, stepInvariant]
  | .bin op b l r => by
    have ihl := stepInvariant_pp l
    have ihr := stepInvariant_pp r
    by_cases h : (stepInvariant l && stepInvariant r) = true
    · simp [pp, h, stepInvariant, ihl, ihr]
    · by_cases hl : shouldWrap l = true <;> by_cases hr : shouldWrap r = true <;>
        simp [pp, h, hl, hr, stepInvariant, ihl, ihr]
  | .agg _ _ _ e => by simp [pp, stepInvariant, stepInvariant_pp e]
  | .stepInv e => by simp [pp, stepInvariant, stepInvariant_pp e]

theorem wrapOk_pp : ∀ e : Expr, wrapOk e = true → wrapOk (pp e) = true
  | .num _, _ => rfl
  | .time, _ => rfl
  | .sel _, _ => rfl
  | .overSel _ _ _, _ => rfl
  | .overSub f e r st off a, h => by
    have ih := wrapOk_pp e (by simpa [wrapOk] using h)
    by_cases hi : stepInvariant e = true <;> simp [pp, wrapOk, hi, ih, stepInvariant_pp]
  | .bin op b l r, h => by
    have h' : wrapOk l = true ∧ wrapOk r = true := by simpa [wrapOk] using h
    have ihl := wrapOk_pp l h'.1
    have ihr := wrapOk_pp r h'.2
    have sl := shouldWrap_stepInvariant l
    have sr := shouldWrap_stepInvariant r
    cases hsl : stepInvariant l <;> cases hsr : stepInvariant r <;>
      cases hl : shouldWrap l <;> cases hr : shouldWrap r <;>
      simp_all [pp, wrapOk, stepInvariant_pp]
  | .agg _ _ _ e, h => by
    simpa [pp, wrapOk] using wrapOk_pp e (by simpa [wrapOk] using h)
  | .stepInv e, h => by
    have h' : stepInvariant e = true ∧ wrapOk e = true := by simpa [wrapOk] using h
    simp [pp, wrapOk, stepInvariant_pp, h'.1, wrapOk_pp e h'.2]

theorem wrapOk_preprocess (e : Expr) (h : wrapOk e = true) : wrapOk (preprocess e) = true := by
  unfold preprocess
  by_cases hw : shouldWrap e = true
  · simp [hw, wrapOk, stepInvariant_pp, shouldWrap_stepInvariant e hw, wrapOk_pp e h]
  · simp [hw, wrapOk_pp e h]

/-! ### subquery alignment -/

theorem neg_lt_tmod (x step : Int) (h : 0 < step) : -step < x.tmod step := by
  rcases Int.le_total 0 x with hx | hx
  · have := Int.tmod_nonneg step hx; omega
  · have h1 : (-x).tmod step = -(x.tmod step) := Int.neg_tmod x step
    have h2 := Int.tmod_lt_of_pos (-x) h
    omega

theorem firstMultipleAfter_spec (x step : Int) (h : 0 < step) :
    x < firstMultipleAfter x step ∧ firstMultipleAfter x step ≤ x + step ∧ step ∣ firstMultipleAfter x step := by
  unfold firstMultipleAfter
  have h1 := Int.mul_tdiv_add_tmod x step
  have h2 := Int.tmod_lt_of_pos x h
  have h3 := neg_lt_tmod x step h
  simp only
  split
  · refine ⟨by omega, by omega, ?_⟩
    exact Int.dvd_add (Int.dvd_mul_right _ _) (Int.dvd_refl _)
  · refine ⟨by omega, by omega, Int.dvd_mul_right _ _⟩

end Prom.RangeEval
