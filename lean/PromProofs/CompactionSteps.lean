import PromProofs.CompactionReaders
/-
  Invariants of the compaction protocol (C06), part 3: every step of the maintenance thread and every
  step of a reader preserves the per-reader invariants.
-/
namespace Prom.CompactionProtocol
set_option maxHeartbeats 4000000

theorem holdsLock_of_pc (r : Reader) :
    r.holdsLock = true ↔ (r.pc = .locked ∨ r.pc = .gotMin ∨ r.pc = .registered ∨ r.pc = .sawFlag ∨ r.pc = .checked ∨ r.pc = .tracked) := by
  unfold Reader.holdsLock; cases r.pc <;> simp

theorem T_le_cov (σ : State) (T : Int)
    (h : σ.mpc = .hSwapped T ∨ σ.mpc = .hTimeStored T ∨ σ.mpc = .hFlagSet T ∨ σ.mpc = .hWaited T
          ∨ σ.mpc = .hMinSet T ∨ σ.mpc = .hGcDone T) : T ≤ cov σ := by
  unfold cov; rcases h with h | h | h | h | h | h <;> simp only [h] <;> omega

theorem safeBelow_mono (d : List Sample) (r : Reader) (X Y : Int) (h : safeBelow d r X) (hxy : Y ≤ X) :
    safeBelow d r Y := fun s hw ho ht => h s hw ho (by omega)

/-- No in-order sample lies in [A, B): being safe below A is being safe below B. -/
theorem safeBelow_gap (d : List Sample) (r : Reader) (A B : Int)
    (hgap : ∀ x ∈ d, (x.ooo = true ∨ x.t < A) ∨ B ≤ x.t) (h : safeBelow d r A) : safeBelow d r B := by
  intro s hw ho ht
  rcases hgap s hw.1 with (h1 | h1) | h1
  · simp [ho] at h1
  · exact h s hw ho h1
  · omega

/-- The truncation's wait is over: a reader with a head part is safe below the truncation time. -/
theorem wait_done_safe (σ : State) (r : Reader) (T l : Int) (hh : RInvH σ r) (hpc : r.pc = .reading)
    (hl : r.headLo = some l)
    (hwait : (match r.reg with | some (a, b) => !ovl a b σ.headMin (T - 1) | none => true) = true) :
    safeBelow σ.data r T := by
  have hd := hh.hd (Or.inr (Or.inr hpc))
  rw [hl] at hd
  obtain ⟨hsl, a, hreg, hal⟩ := hd
  rw [hreg] at hwait
  simp only [ovl, Bool.not_eq_eq_eq_not, Bool.not_true, Bool.and_eq_false_iff, decide_eq_false_iff_not] at hwait
  rcases hwait with h | h
  · exact safeBelow_mono _ _ _ _ hsl (by omega)
  · intro s hw ho _
    exact hh.d hpc l hl s hw ho (by have := hw.2.2.1; omega)

theorem mstep_rinvH (σ σ' : State) (a : MAct) (r : Reader) (hg : GInv σ) (hm : r ∈ σ.readers)
    (hb : RInvB σ r) (hh : RInvH σ r) (h : mstep σ a = some σ') : RInvH σ' r := by
  have hh0 := hh
  obtain ⟨ri2, regE, regR, sf, hd, d, w⟩ := hh
  have gp := hg.gp
  have gf := hg.gf
  have lsb := locked_safeBelow σ r hg hb
  have hmc := headMin_le_cov σ
  rw [holdsLock_of_pc] at lsb
  have hcov := T_le_cov σ
  have hgap := safeBelow_gap σ.data r
  have hwd := wait_done_safe σ r
  cases a
  all_goals (
    simp only [mstep] at h
    split at h <;> (try (simp at h; done)) <;> (try split at h) <;> (try (simp at h; done)))
  all_goals (
    simp only [Option.some.injEq] at h
    subst h
    constructor <;>
      (simp only [pendingOk, flagOk, noLockHeld, headWaitDone, List.all_eq_true, Bool.and_eq_true, Bool.or_eq_true,
        Bool.not_eq_eq_eq_not, Bool.not_true, bne_iff_ne, ne_eq, decide_eq_true_eq] at *) <;> (try grind))

theorem mstep_readers (σ σ' : State) (a : MAct) (h : mstep σ a = some σ') : σ'.readers = σ.readers := by
  cases a <;> simp only [mstep] at h <;> (split at h <;> try (split at h)) <;> simp_all <;> (subst h; rfl)

theorem mstep_rinvB (σ σ' : State) (a : MAct) (r : Reader) (hg : GInv σ) (hm : r ∈ σ.readers)
    (hb : RInvB σ r) (h : mstep σ a = some σ') : RInvB σ' r := by
  obtain ⟨l, br, brw⟩ := hb
  have gp := hg.gp
  cases a
  all_goals (
    simp only [mstep] at h
    split at h <;> (try (simp at h; done)) <;> (try split at h) <;> (try (simp at h; done)))
  all_goals (
    simp only [Option.some.injEq] at h
    subst h
    constructor <;>
      (simp only [pendingOk, noLockHeld, blockFree, List.all_eq_true, Bool.and_eq_true, Bool.or_eq_true,
        Bool.not_eq_eq_eq_not, Bool.not_true, bne_iff_ne, ne_eq, decide_eq_true_eq] at *) <;> (try grind))

theorem mstep_rinvO (σ σ' : State) (a : MAct) (r : Reader) (hg : GInv σ) (hm : r ∈ σ.readers)
    (hb : RInvB σ r) (ho : RInvO σ r) (h : mstep σ a = some σ') : RInvO σ' r := by
  obtain ⟨oa, ob, oc, oc0, od, ow⟩ := ho
  have gp := hg.gp
  have g4 := hg.g4
  have hl := hb.l
  cases a
  all_goals (
    simp only [mstep] at h
    split at h <;> (try (simp at h; done)) <;> (try split at h) <;> (try (simp at h; done)))
  all_goals (
    simp only [Option.some.injEq] at h
    subst h
    constructor <;>
      (simp only [pendingOk, noLockHeld, oooWaitDone, List.all_eq_true, Bool.and_eq_true, Bool.or_eq_true,
        Bool.not_eq_eq_eq_not, Bool.not_true, bne_iff_ne, ne_eq, decide_eq_true_eq, want] at *) <;> (try grind))

theorem isOpen_of_pc (r : Reader) : r.isOpen = true ↔ (r.pc ≠ .idle ∧ r.pc ≠ .closed) := by
  unfold Reader.isOpen; cases r.pc <;> simp

theorem rstep_rinvB (σ : State) (r r' : Reader) (a : RAct) (hg : GInv σ)
    (hb : RInvB σ r) (h : rstep σ r a = some r') : RInvB σ r' := by
  obtain ⟨l, br, brw⟩ := hb
  have gp := hg.gp
  have g5 := hg.g5
  rw [holdsLock_of_pc] at l
  rw [isOpen_of_pc] at br
  simp only [isOpen_of_pc] at brw
  cases a
  all_goals (
    simp only [rstep] at h
    split at h <;> (try (simp at h; done)) <;> (try split at h) <;> (try (simp at h; done)) <;> (try split at h) <;> (try (simp at h; done)))
  all_goals (
    simp only [Option.some.injEq] at h
    subst h
    constructor <;>
      (simp only [pendingOk, holdsLock_of_pc, isOpen_of_pc, List.mem_filter] at *) <;> (try grind))

theorem rstep_rinvH (σ : State) (r r' : Reader) (a : RAct) (hg : GInv σ)
    (hb : RInvB σ r) (hb' : RInvB σ r') (hh : RInvH σ r) (h : rstep σ r a = some r') : RInvH σ r' := by
  obtain ⟨ri2, regE, regR, sf, hd, d, w⟩ := hh
  have gp := hg.gp
  have gf := hg.gf
  have lsb := locked_safeBelow σ r' hg hb'
  have hmc := headMin_le_cov σ
  rw [holdsLock_of_pc] at lsb
  have lsbr := locked_safeBelow σ r hg hb
  rw [holdsLock_of_pc] at lsbr
  have hcov := T_le_cov σ
  have hmono := safeBelow_mono σ.data r'
  cases a
  all_goals (
    simp only [rstep] at h
    split at h <;> (try (simp at h; done)) <;> (try split at h) <;> (try (simp at h; done)) <;> (try split at h) <;> (try (simp at h; done)))
  all_goals (
    simp only [Option.some.injEq] at h
    subst h
    constructor <;>
      (simp only [pendingOk, flagOk, safeBelow, want, inBlk] at *) <;> (try grind))

/-- A reader under the RLock: an OOO sample at or below lastGC is in its block list. -/
theorem locked_ooo_covered (σ : State) (r : Reader) (hg : GInv σ) (hb : RInvB σ r) (hl : r.holdsLock = true)
    (s : Sample) (hw : want σ.data r s) (ho : s.ooo = true) (href : s.ref ≤ σ.lastGC) : inBlk r s := by
  have hret : s ∉ σ.retired := by
    have := (hb.l hl).2.2; rw [← this]; exact hw.2.2.2
  have : σ.lastGC ≤ ocov σ := by unfold ocov; split <;> omega
  exact locked_covers σ r hg hb hl s hw (hg.g2 s hw.1 ho hret (by omega))

theorem rstep_rinvO (σ : State) (r r' : Reader) (a : RAct) (hg : GInv σ)
    (hb : RInvB σ r) (hb' : RInvB σ r') (ho : RInvO σ r) (h : rstep σ r a = some r') : RInvO σ r' := by
  obtain ⟨oa, ob, oc, oc0, od, ow⟩ := ho
  have gp := hg.gp
  have g3 := hg.g3
  have g4 := hg.g4
  have loc := locked_ooo_covered σ r' hg hb'
  have hl := hb.l
  rw [holdsLock_of_pc] at loc hl
  rw [isOpen_of_pc] at oa
  cases a
  all_goals (
    simp only [rstep] at h
    split at h <;> (try (simp at h; done)) <;> (try split at h) <;> (try (simp at h; done)) <;> (try split at h) <;> (try (simp at h; done)))
  all_goals (
    simp only [Option.some.injEq] at h
    subst h
    constructor <;>
      (simp only [pendingOk, want, inBlk, isOpen_of_pc, ovl, Bool.and_eq_true, decide_eq_true_eq] at *) <;> (try grind))

end Prom.CompactionProtocol
