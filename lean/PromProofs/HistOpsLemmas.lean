import PromModel.Promql.HistOps
/-
  Helper lemmas for C31: the bucket-map semantics `bucketAt`, and the invariant of the span builder
  (`RR.push`, the loop body of `reduceResolution`, also used by the compaction model).
-/
namespace Prom.HistOps

/-- Bucket-map semantics: total count carried by the explicit buckets with index `j`. -/
def bucketAt (l : Buckets) (j : Int) : Rat :=
  l.foldr (fun p acc => (if p.1 = j then p.2 else 0) + acc) 0

@[simp] theorem bucketAt_nil (j : Int) : bucketAt [] j = 0 := rfl

@[simp] theorem bucketAt_cons (p : Int × Rat) (l : Buckets) (j : Int) :
    bucketAt (p :: l) j = (if p.1 = j then p.2 else 0) + bucketAt l j := rfl

theorem bucketAt_append (a b : Buckets) (j : Int) : bucketAt (a ++ b) j = bucketAt a j + bucketAt b j := by
  induction a with
  | nil => simp [Rat.zero_add]
  | cons p a ih => simp [ih, Rat.add_assoc]

/-- Index after the last bucket denoted by `spans`, starting from `cur`. -/
def extent (cur : Int) : List Span → Int
  | [] => cur
  | s :: ss => extent (cur + s.offset + s.length) ss

theorem extent_append (cur : Int) (a b : List Span) : extent cur (a ++ b) = extent (extent cur a) b := by
  induction a generalizing cur with
  | nil => rfl
  | cons s a ih => simp [extent, ih]

theorem spanIdx_append (cur : Int) (a b : List Span) :
    spanIdx cur (a ++ b) = spanIdx cur a ++ spanIdx (extent cur a) b := by
  induction a generalizing cur with
  | nil => rfl
  | cons s a ih => simp [spanIdx, extent, ih]

theorem idxRange_succ (a : Int) (n : Nat) : idxRange a (n + 1) = idxRange a n ++ [a + n] := by
  induction n generalizing a with
  | zero => simp [idxRange]
  | succ n ih =>
    rw [idxRange, ih (a + 1)]
    simp only [idxRange, List.cons_append]
    congr 2
    simp; omega

theorem idxRange_length (a : Int) (n : Nat) : (idxRange a n).length = n := by
  induction n generalizing a with
  | zero => rfl
  | succ n ih => simp [idxRange, ih]

theorem zip_snoc {α β} (I : List α) (B : List β) (x : α) (y : β) (h : I.length = B.length) :
    (I ++ [x]).zip (B ++ [y]) = I.zip B ++ [(x, y)] := by
  rw [List.zip_append h]; rfl

/-- Semantics of a builder state. -/
def RR.sem (st : RR) (j : Int) : Rat := bucketAt (expand st.rspans.reverse st.rbuckets.reverse) j

/-- Invariant of a non-empty builder state: the spans denote `I ++ [last]`, one bucket per index. -/
structure RR.Inv (st : RR) : Prop where
  ne : st.rspans ≠ []
  idx : ∃ I, spanIdx 0 st.rspans.reverse = I ++ [st.last] ∧ st.rbuckets.length = I.length + 1
  ext : extent 0 st.rspans.reverse = st.last + 1

def RR.Inv0 (st : RR) : Prop := st.rspans = [] ∨ st.Inv

theorem RR.push_empty (st : RR) (t : Int) (c : Rat) (h : st.rspans = []) :
    (st.push t c).Inv ∧ (st.push t c).last = t ∧ ∀ j, (st.push t c).sem j = st.sem j + (if t = j then c else 0) := by
  have hp : st.push t c = ⟨[⟨t, 1⟩], [c], t⟩ := by unfold RR.push; rw [h]
  rw [hp]
  refine ⟨⟨by simp, ⟨[], by simp [spanIdx, idxRange]⟩, by simp [extent]⟩, rfl, ?_⟩
  intro j
  simp [RR.sem, expand, spanIdx, idxRange, h, Rat.add_zero, Rat.zero_add]

theorem RR.push_inv (st : RR) (t : Int) (c : Rat) (hi : st.Inv) (ht : st.last ≤ t) :
    (st.push t c).Inv ∧ (st.push t c).last = t ∧ ∀ j, (st.push t c).sem j = st.sem j + (if t = j then c else 0) := by
  obtain ⟨hne, ⟨I, hI, hlen⟩, hext⟩ := hi
  obtain ⟨rspans, rbuckets, last⟩ := st
  simp only at hne hI hlen hext ht
  match rspans, rbuckets, hne, hlen with
  | s :: ss, b :: bs, _, hlen =>
    have hlen' : bs.reverse.length = I.length := by simp at hlen; simp; omega
    have hsem : ∀ j, (RR.mk (s :: ss) (b :: bs) last).sem j = bucketAt (I.zip bs.reverse) j + (if last = j then b else 0) := by
      intro j
      simp only [RR.sem, expand]
      rw [hI]
      simp only [List.reverse_cons]
      rw [zip_snoc _ _ _ _ hlen'.symm, bucketAt_append]; simp [Rat.add_zero]
    simp only [List.reverse_cons, spanIdx_append, extent_append] at hI hext
    simp only [spanIdx, extent, List.append_nil] at hI hext
    by_cases h1 : last = t
    · -- same target bucket
      have hp : (RR.mk (s :: ss) (b :: bs) last).push t c = ⟨s :: ss, (b + c) :: bs, last⟩ := by
        simp [RR.push, h1]
      rw [hp]
      refine ⟨⟨by simp, ⟨I, by simp [List.reverse_cons, spanIdx_append, spanIdx, hI], by simpa using hlen⟩,
        by simp [List.reverse_cons, extent_append, extent, hext]⟩, h1, ?_⟩
      intro j
      rw [hsem j]
      simp only [RR.sem, expand, List.reverse_cons, spanIdx_append, spanIdx, List.append_nil, hI]
      rw [zip_snoc _ _ _ _ hlen'.symm, bucketAt_append]
      subst h1
      by_cases hj : last = j <;> simp [hj] <;> grind
    · by_cases h2 : last + 1 = t
      · have hp : (RR.mk (s :: ss) (b :: bs) last).push t c = ⟨⟨s.offset, s.length + 1⟩ :: ss, c :: b :: bs, last + 1⟩ := by
          simp [RR.push, h1, h2]
        rw [hp]
        have hidx : spanIdx 0 (ss.reverse ++ [⟨s.offset, s.length + 1⟩]) = (I ++ [last]) ++ [t] := by
          rw [spanIdx_append]
          simp only [spanIdx, List.append_nil]
          rw [idxRange_succ, ← List.append_assoc, hI]
          congr 2; omega
        refine ⟨⟨by simp, ⟨I ++ [last], by simp only [List.reverse_cons]; rw [hidx]; simp [← h2], by simp at hlen ⊢; omega⟩,
          by simp only [List.reverse_cons, extent_append, extent]; push_cast; omega⟩, h2, ?_⟩
        intro j
        rw [hsem j]
        simp only [RR.sem, expand, List.reverse_cons]
        rw [hidx, zip_snoc _ _ _ _ (by simp at hlen ⊢; omega), zip_snoc _ _ _ _ hlen'.symm, bucketAt_append, bucketAt_append]
        simp [Rat.add_zero]
      · have h3 : last + 1 < t := by omega
        have hp : (RR.mk (s :: ss) (b :: bs) last).push t c = ⟨⟨t - last - 1, 1⟩ :: s :: ss, c :: b :: bs, t⟩ := by
          simp [RR.push, h1, h2, h3]
        rw [hp]
        have hidx : spanIdx 0 ((ss.reverse ++ [s]) ++ [⟨t - last - 1, 1⟩]) = (I ++ [last]) ++ [t] := by
          rw [spanIdx_append, spanIdx_append]
          simp only [spanIdx, idxRange, List.append_nil, extent_append, extent]
          rw [hI]
          congr 2; omega
        refine ⟨⟨by simp, ⟨I ++ [last], by simp only [List.reverse_cons]; rw [hidx], by simp at hlen ⊢; omega⟩,
          by simp only [List.reverse_cons, extent_append, extent]; push_cast; omega⟩, rfl, ?_⟩
        intro j
        rw [hsem j]
        simp only [RR.sem, expand, List.reverse_cons]
        rw [hidx, zip_snoc _ _ _ _ (by simp at hlen ⊢; omega), zip_snoc _ _ _ _ hlen'.symm, bucketAt_append, bucketAt_append]
        simp [Rat.add_zero]

/-- The image of a bucket list under the index map of a resolution reduction by `k` steps. -/
def mapTarget (k : Nat) (l : Buckets) : Buckets := l.map fun p => (targetIdx p.1 k, p.2)

theorem rrFold_sem (k : Nat) (l : Buckets) (st : RR) (h0 : st.Inv0)
    (hlast : st.rspans ≠ [] → ∀ p ∈ l, st.last ≤ targetIdx p.1 k)
    (hs : l.Pairwise fun a b => targetIdx a.1 k ≤ targetIdx b.1 k) :
    (rrFold k st l).Inv0 ∧ ∀ j, (rrFold k st l).sem j = st.sem j + bucketAt (mapTarget k l) j := by
  induction l generalizing st with
  | nil => exact ⟨h0, by intro j; simp [rrFold, mapTarget, Rat.add_zero]⟩
  | cons p r ih =>
    obtain ⟨i, c⟩ := p
    have hstep : (st.push (targetIdx i k) c).Inv ∧ (st.push (targetIdx i k) c).last = targetIdx i k ∧
        ∀ j, (st.push (targetIdx i k) c).sem j = st.sem j + (if targetIdx i k = j then c else 0) := by
      rcases h0 with he | hi
      · exact RR.push_empty st _ c he
      · exact RR.push_inv st _ c hi (hlast hi.ne (i, c) (by simp))
    obtain ⟨hinv, hl, hsem⟩ := hstep
    have hs' := List.pairwise_cons.mp hs
    have := ih (st.push (targetIdx i k) c) (Or.inr hinv)
      (by intro _ p hp; rw [hl]; exact hs'.1 p hp) hs'.2
    refine ⟨this.1, ?_⟩
    intro j
    simp only [rrFold]
    rw [this.2 j, hsem j]
    simp [mapTarget, Rat.add_assoc]

theorem shr_mono (a b : Int) (k : Nat) (h : a ≤ b) : shr a k ≤ shr b k := by
  unfold shr
  exact Int.ediv_le_ediv (Int.pow_pos (by decide)) h

theorem targetIdx_mono (a b : Int) (k : Nat) (h : a ≤ b) : targetIdx a k ≤ targetIdx b k := by
  unfold targetIdx
  have := shr_mono (a - 1) (b - 1) k (by omega)
  omega

theorem targetIdx_zero (i : Int) : targetIdx i 0 = i := by
  simp [targetIdx, shr]

/-- The span builder applied to index-sorted buckets realises the index map bucket-wise. -/
theorem rrFold_init_sem (k : Nat) (l : Buckets) (hs : l.Pairwise fun a b => a.1 ≤ b.1) (j : Int) :
    bucketAt (expand (rrFold k .init l).finish.1 (rrFold k .init l).finish.2) j = bucketAt (mapTarget k l) j := by
  have := (rrFold_sem k l .init (Or.inl rfl) (by intro h; exact absurd rfl h)
    (hs.imp (fun h => targetIdx_mono _ _ k h))).2 j
  simpa [RR.sem, RR.finish, RR.init, expand, spanIdx, Rat.zero_add] using this

end Prom.HistOps

namespace Prom.HistOps

theorem bucketAt_dropZeros (l : Buckets) (j : Int) : bucketAt (dropZeros l) j = bucketAt l j := by
  induction l with
  | nil => rfl
  | cons p l ih =>
    unfold dropZeros at ih ⊢
    by_cases hp : p.2 = 0
    · simp [List.filter_cons, hp, ih, Rat.zero_add]
    · simp [List.filter_cons, hp, ih]

theorem bucketAt_zerosFrom (a : Int) (n : Nat) (j : Int) : bucketAt (zerosFrom a n) j = 0 := by
  induction n generalizing a with
  | zero => rfl
  | succ n ih => simp [zerosFrom, ih, Rat.add_zero]

theorem bucketAt_fillGaps (m : Nat) (l : Buckets) (j : Int) : bucketAt (fillGaps m l) j = bucketAt l j := by
  fun_induction fillGaps m l with
  | case1 => rfl
  | case2 => rfl
  | case3 x y r gap h ih => simp [bucketAt_append, bucketAt_zerosFrom, ih, Rat.zero_add]
  | case4 x y r gap h ih => simp [ih]

theorem mapTarget_zero (l : Buckets) : mapTarget 0 l = l := by
  unfold mapTarget
  conv => rhs; rw [← List.map_id l]
  apply List.map_congr_left
  intro p _
  simp [targetIdx_zero]

/-- Strictly increasing bucket indices. -/
def Sorted (l : Buckets) : Prop := l.Pairwise fun a b => a.1 < b.1

theorem zerosFrom_mem (a : Int) (n : Nat) (p : Int × Rat) (h : p ∈ zerosFrom a n) : a ≤ p.1 ∧ p.1 < a + n := by
  induction n generalizing a with
  | zero => simp [zerosFrom] at h
  | succ n ih =>
    simp only [zerosFrom, List.mem_cons] at h
    rcases h with h | h
    · subst h; simp; omega
    · have := ih (a + 1) h; push_cast; omega

theorem zerosFrom_sorted (a : Int) (n : Nat) : Sorted (zerosFrom a n) := by
  induction n generalizing a with
  | zero => exact List.Pairwise.nil
  | succ n ih =>
    simp only [zerosFrom, Sorted, List.pairwise_cons]
    exact ⟨fun p hp => by have := zerosFrom_mem (a + 1) n p hp; simp; omega, ih (a + 1)⟩

theorem fillGaps_head (m : Nat) (x : Int × Rat) (r : Buckets) : ∃ t, fillGaps m (x :: r) = x :: t := by
  cases r with
  | nil => exact ⟨[], rfl⟩
  | cons y r => unfold fillGaps; simp only; split <;> exact ⟨_, rfl⟩

theorem fillGaps_sorted (m : Nat) (l : Buckets) (h : Sorted l) :
    Sorted (fillGaps m l) ∧ ∀ x r, l = x :: r → ∀ p ∈ fillGaps m l, x.1 ≤ p.1 := by
  fun_induction fillGaps m l with
  | case1 => exact ⟨List.Pairwise.nil, by intro x r h; cases h⟩
  | case2 x => exact ⟨h, by intro x' r h' p hp; simp at h' hp; rw [hp, h'.1]; omega⟩
  | case3 x y r gap hg ih =>
    have hs := List.pairwise_cons.mp h
    have ⟨ihs, ihl⟩ := ih hs.2
    have hxy : x.1 < y.1 := hs.1 y (by simp)
    have hlow : ∀ p ∈ fillGaps m (y :: r), y.1 ≤ p.1 := ihl y r rfl
    refine ⟨?_, ?_⟩
    · simp only [Sorted, List.pairwise_cons, List.pairwise_append, List.mem_append]
      refine ⟨?_, zerosFrom_sorted _ _, ihs, ?_⟩
      · intro p hp
        rcases hp with hp | hp
        · have := zerosFrom_mem _ _ p hp; omega
        · have := hlow p hp; omega
      · intro a ha b hb
        have := zerosFrom_mem _ _ a ha
        have := hlow b hb
        simp only [gap] at hg; omega
    · intro x' r' h' p hp
      simp only [List.cons.injEq] at h'
      simp only [List.mem_cons, List.mem_append] at hp
      rw [← h'.1]
      rcases hp with hp | hp | hp
      · rw [hp]; omega
      · have := zerosFrom_mem _ _ p hp; omega
      · have := hlow p hp; omega
  | case4 x y r gap hg ih =>
    have hs := List.pairwise_cons.mp h
    have ⟨ihs, ihl⟩ := ih hs.2
    have hxy : x.1 < y.1 := hs.1 y (by simp)
    have hlow : ∀ p ∈ fillGaps m (y :: r), y.1 ≤ p.1 := ihl y r rfl
    refine ⟨?_, ?_⟩
    · simp only [Sorted, List.pairwise_cons]
      exact ⟨fun p hp => by have := hlow p hp; omega, ihs⟩
    · intro x' r' h' p hp
      simp only [List.cons.injEq] at h'
      simp only [List.mem_cons] at hp
      rw [← h'.1]
      rcases hp with hp | hp
      · rw [hp]; omega
      · have := hlow p hp; omega

theorem idxRange_mem (a : Int) (n : Nat) (i : Int) (h : i ∈ idxRange a n) : a ≤ i ∧ i < a + n := by
  induction n generalizing a with
  | zero => simp [idxRange] at h
  | succ n ih =>
    simp only [idxRange, List.mem_cons] at h
    rcases h with h | h
    · subst h; omega
    · have := ih (a + 1) h; push_cast; omega

theorem idxRange_sorted (a : Int) (n : Nat) : (idxRange a n).Pairwise (· < ·) := by
  induction n generalizing a with
  | zero => exact List.Pairwise.nil
  | succ n ih =>
    simp only [idxRange, List.pairwise_cons]
    exact ⟨fun i hi => by have := idxRange_mem (a + 1) n i hi; omega, ih (a + 1)⟩

/-- Validity of a span list as `Validate` demands it for the later spans: no negative offset. -/
def SpansOk (spans : List Span) : Prop := ∀ s ∈ spans.drop 1, 0 ≤ s.offset

theorem spanIdx_lower (cur : Int) (spans : List Span) (h : ∀ s ∈ spans, 0 ≤ s.offset) :
    ∀ i ∈ spanIdx cur spans, cur ≤ i := by
  induction spans generalizing cur with
  | nil => simp [spanIdx]
  | cons s ss ih =>
    intro i hi
    simp only [spanIdx, List.mem_append] at hi
    have h0 := h s (by simp)
    rcases hi with hi | hi
    · have := idxRange_mem _ _ i hi; omega
    · have := ih (cur + s.offset + s.length) (fun s' hs' => h s' (by simp [hs'])) i hi; omega

theorem spanIdx_sorted (cur : Int) (spans : List Span) (h : SpansOk spans) : (spanIdx cur spans).Pairwise (· < ·) := by
  induction spans generalizing cur with
  | nil => exact List.Pairwise.nil
  | cons s ss ih =>
    simp only [spanIdx, List.pairwise_append]
    have hss : ∀ s' ∈ ss, 0 ≤ s'.offset := by simpa [SpansOk] using h
    refine ⟨idxRange_sorted _ _, ?_, ?_⟩
    · apply ih
      intro s' hs'
      exact hss s' (List.mem_of_mem_drop hs')
    · intro a ha b hb
      have := idxRange_mem _ _ a ha
      have := spanIdx_lower _ ss hss b hb
      omega

theorem zip_sorted (I : List Int) (B : List Rat) (h : I.Pairwise (· < ·)) : Sorted (I.zip B) := by
  induction I generalizing B with
  | nil => simp [Sorted]
  | cons i I ih =>
    cases B with
    | nil => simp [Sorted]
    | cons b B =>
      simp only [List.zip_cons_cons, Sorted, List.pairwise_cons]
      have h' := List.pairwise_cons.mp h
      exact ⟨fun p hp => h'.1 p.1 (List.of_mem_zip hp).1, ih B h'.2⟩

theorem expand_sorted (spans : List Span) (bs : List Rat) (h : SpansOk spans) : Sorted (expand spans bs) :=
  zip_sorted _ _ (spanIdx_sorted 0 spans h)

theorem Sorted.le {l : Buckets} (h : Sorted l) : l.Pairwise fun a b => a.1 ≤ b.1 :=
  List.Pairwise.imp (fun h => Int.le_of_lt h) h

theorem dropZeros_sorted (l : Buckets) (h : Sorted l) : Sorted (dropZeros l) := List.Pairwise.filter _ h

end Prom.HistOps
