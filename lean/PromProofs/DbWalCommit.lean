import PromProofs.DbMaxBlk
/-
  C01 refinement, restart: `Commit` keeps the WAL invariant. The commit loop (`commitStep`, live head)
  and the replay of the logged batch (`reSmp`) run in lockstep: both store a batch element iff it is
  newer than the newest sample of its series (the replay in addition only at or above the cutoff).
-/
namespace Prom.Db
open Prom.Intervals

/-- Facts about the live head in function view. -/
structure LiveOk (e : Db) : Prop where
  sinc : ∀ i, SInc (e.getSeries i).phys
  tombHi : ∀ i iv, iv ∈ (e.getSeries i).tombs → ∀ l, (e.getSeries i).phys.getLast? = some l → iv.maxt ≤ l.t
  tombsNil : ∀ i, (e.getSeries i).phys = [] → (e.getSeries i).tombs = []

theorem liveOk_of_inv {d : Db} (hI : Inv d) : LiveOk d := by
  refine ⟨?_, ?_, ?_⟩
  · intro i
    rcases getSeries_cases d i with hc | hc
    · exact hI.physInc _ hc.1
    · rw [hc.2]; simp [SInc]
  · intro i iv hiv l hl
    rcases getSeries_cases d i with hc | hc
    · exact hI.tombHi _ hc.1 iv hiv l hl
    · rw [hc.2] at hiv; simp at hiv
  · intro i hp
    rcases getSeries_cases d i with hc | hc
    · exact absurd hp (hI.physNe _ hc.1)
    · rw [hc.2]

theorem RInv.tombsNil {c : Int} {h : Db} (hR : RInv c h) (i : Nat) (hp : (h.getSeries i).phys = []) :
    (h.getSeries i).tombs = [] := by
  rcases getSeries_cases h i with hc | hc
  · exact absurd hp (hR.physNe _ hc.1)
  · rw [hc.2]

theorem lt_of_tombs {s : HSeries} {x : Smp}
    (hHi : ∀ iv ∈ s.tombs, ∀ l, s.phys.getLast? = some l → iv.maxt ≤ l.t)
    (hNil : s.phys = [] → s.tombs = []) (hlt : ∀ y ∈ s.phys, y.t < x.t) :
    ∀ iv ∈ s.tombs, iv.maxt < x.t := by
  intro iv hiv
  cases hl : s.phys.getLast? with
  | none =>
    have : s.phys = [] := by simpa using hl
    rw [hNil this] at hiv; simp at hiv
  | some l =>
    have h1 := hHi iv hiv l hl
    have h2 := hlt l (getLast?_mem hl)
    omega

/-- One lockstep step, abstractly: the live head appends `x` to series `i` iff `sL`, the replayed
    head iff `sR`, where `sR ↔ sL ∧ c ≤ x.t`. -/
theorem rel_store {c : Int} {e h e' h' : Db} {i : Nat} {x : Smp} {sL sR : Prop} [Decidable sL] [Decidable sR]
    (he' : ∀ j, e'.getSeries j =
      if j = i ∧ sL then { e.getSeries i with phys := (e.getSeries i).phys ++ [x] } else e.getSeries j)
    (hh' : ∀ j, h'.getSeries j =
      if j = i ∧ sR then { h.getSeries i with phys := (h.getSeries i).phys ++ [x] } else h.getSeries j)
    (hiff : sR ↔ (sL ∧ c ≤ x.t))
    (hLnew : sL → ∀ y ∈ (e.getSeries i).phys, y.t < x.t)
    (hmv : e.minValid ≤ x.t) (hmv' : e'.minValid = e.minValid) (x64 : MinI64 ≤ x.t ∧ x.t < MaxI64)
    (hL : LiveOk e) (hR : Rel c e h) (hrinv' : RInv c h') :
    LiveOk e' ∧ Rel c e' h' := by
  -- the replayed samples of series `i` are older than `x` whenever the live head stores `x`
  have hRnew : sL → ∀ y ∈ (h.getSeries i).phys, y.t < x.t := by
    intro hs y hy
    rcases hR.sup i y hy with h1 | h1
    · exact hLnew hs y h1
    · omega
  have hvisE : sL → visible (e.getSeries i).tombs x = true := fun hs =>
    visible_of_maxt_lt (lt_of_tombs (hL.tombHi i) (hL.tombsNil i) (hLnew hs))
  have htombH : sL → ∀ iv ∈ (h.getSeries i).tombs, iv.maxt < x.t := fun hs =>
    lt_of_tombs (hR.tombHi i) (hR.rinv.tombsNil i) (hRnew hs)
  have hvisH : sL → visible (h.getSeries i).tombs x = true := fun hs => visible_of_maxt_lt (htombH hs)
  constructor
  · refine ⟨?_, ?_, ?_⟩
    · intro j
      rw [he']
      split
      · rename_i hc
        exact (hL.sinc i).append_one (hLnew hc.2)
      · exact hL.sinc j
    · intro j iv hiv l hl
      rw [he'] at hiv hl
      split at hiv
      · rename_i hc
        rw [if_pos hc] at hl
        simp only [List.getLast?_append, List.getLast?_singleton, Option.some_or, Option.some.injEq] at hl
        subst hl
        have := lt_of_tombs (hL.tombHi i) (hL.tombsNil i) (hLnew hc.2) iv hiv
        omega
      · rename_i hc
        rw [if_neg hc] at hl
        exact hL.tombHi j iv hiv l hl
    · intro j hp
      rw [he'] at hp ⊢
      split at hp
      · simp at hp
      · rename_i hc; rw [if_neg hc]; exact hL.tombsNil j hp
  · have htE : ∀ j, (e'.getSeries j).tombs = (e.getSeries j).tombs := by
      intro j; rw [he']; split
      · rename_i hc; obtain ⟨rfl, _⟩ := hc; rfl
      · rfl
    have htH : ∀ j, (h'.getSeries j).tombs = (h.getSeries j).tombs := by
      intro j; rw [hh']; split
      · rename_i hc; obtain ⟨rfl, _⟩ := hc; rfl
      · rfl
    have hpE : ∀ j y, y ∈ (e'.getSeries j).phys ↔ y ∈ (e.getSeries j).phys ∨ (j = i ∧ sL ∧ y = x) := by
      intro j y; rw [he']; split
      · rename_i hc; obtain ⟨rfl, hs⟩ := hc
        simp only [List.mem_append, List.mem_singleton, true_and, hs]
      · rename_i hc
        constructor
        · exact Or.inl
        · rintro (h1 | ⟨h1, h2, _⟩)
          · exact h1
          · exact absurd ⟨h1, h2⟩ hc
    have hpH : ∀ j y, y ∈ (h'.getSeries j).phys ↔ y ∈ (h.getSeries j).phys ∨ (j = i ∧ sR ∧ y = x) := by
      intro j y; rw [hh']; split
      · rename_i hc; obtain ⟨rfl, hs⟩ := hc
        simp only [List.mem_append, List.mem_singleton, true_and, hs]
      · rename_i hc
        constructor
        · exact Or.inl
        · rintro (h1 | ⟨h1, h2, _⟩)
          · exact h1
          · exact absurd ⟨h1, h2⟩ hc
    refine ⟨hrinv', ?_, ?_, ?_, ?_, ?_, ?_⟩
    · -- sub
      intro j y hy hcy
      rw [hpH]
      rcases (hpE j y).1 hy with h1 | ⟨rfl, hs, rfl⟩
      · exact Or.inl (hR.sub j y h1 hcy)
      · exact Or.inr ⟨rfl, hiff.2 ⟨hs, hcy⟩, rfl⟩
    · -- sup
      intro j y hy
      rw [hpE, htH, hmv']
      rcases (hpH j y).1 hy with h1 | ⟨rfl, hs, rfl⟩
      · rcases hR.sup j y h1 with h2 | h2
        · exact Or.inl (Or.inl h2)
        · exact Or.inr h2
      · exact Or.inl (Or.inr ⟨rfl, (hiff.1 hs).1, rfl⟩)
    · -- vis
      intro j y hy hcy
      rw [htH, htE]
      rcases (hpE j y).1 hy with h1 | ⟨rfl, hs, rfl⟩
      · exact hR.vis j y h1 hcy
      · rw [hvisH hs, hvisE hs]
    · -- tombHi
      intro j iv hiv l hl
      rw [htH] at hiv
      rw [hh'] at hl
      split at hl
      · rename_i hc
        obtain ⟨rfl, hs⟩ := hc
        simp only [List.getLast?_append, List.getLast?_singleton, Option.some_or, Option.some.injEq] at hl
        subst hl
        have := htombH (hiff.1 hs).1 iv hiv
        omega
      · exact hR.tombHi j iv hiv l hl
    · -- tombsOk
      intro j
      rw [htH]; exact hR.tombsOk j
    · -- phys64
      intro j y hy
      rcases (hpH j y).1 hy with h1 | ⟨_, _, rfl⟩
      · exact hR.phys64 j y h1
      · exact x64

/-- The lockstep step for one batch element. -/
theorem commit_lockstep_step {c : Int} {a : App} (accL accR : Db × Int × Int) (p : Nat × Smp)
    (hp : a.minValid ≤ p.2.t ∧ MinI64 ≤ p.2.t ∧ p.2.t < MaxI64)
    (how : accL.1.cfg.oooWin = 0) (hmv : accL.1.minValid ≤ a.minValid)
    (hL : LiveOk accL.1) (hR : Rel c accL.1 accR.1) :
    LiveOk (commitStep a accL p).1 ∧ Rel c (commitStep a accL p).1 (reSmp c accR p).1 ∧
      (commitStep a accL p).1.cfg = accL.1.cfg ∧ (commitStep a accL p).1.minValid = accL.1.minValid := by
  obtain ⟨i, x⟩ := p
  simp only at hp
  have hrinv' := reSmp_RInv c accR (i, x) hR.rinv
  have hidxE := getSeries_idx accL.1 i
  by_cases hcase : ∀ l, (accL.1.getSeries i).phys.getLast? = some l → l.t < x.t
  · -- the live head stores `x`
    have hco := commitOne_stored (accL.1.getSeries i) x a hp.1 hcase
    have hstep : commitStep a accL (i, x) =
        (accL.1.setSeries { accL.1.getSeries i with phys := (accL.1.getSeries i).phys ++ [x] },
          min accL.2.1 x.t, max accL.2.2 x.t) := by
      simp only [commitStep, how, hco, if_true]
    have hLnew : ∀ y ∈ (accL.1.getSeries i).phys, y.t < x.t := by
      intro y hy
      cases hl : (accL.1.getSeries i).phys.getLast? with
      | none => have : (accL.1.getSeries i).phys = [] := by simpa using hl
                rw [this] at hy; simp at hy
      | some l =>
        have := (hL.sinc i).le_getLast hl y hy
        have := hcase l hl
        omega
    have he' : ∀ j, (commitStep a accL (i, x)).1.getSeries j =
        if j = i ∧ True then { accL.1.getSeries i with phys := (accL.1.getSeries i).phys ++ [x] }
        else accL.1.getSeries j := by
      intro j
      rw [hstep, getSeries_setSeries]
      simp only [hidxE, and_true]
    have hRlast : ∀ l, (accR.1.getSeries i).phys.getLast? = some l → l.t < x.t := by
      intro l hl
      rcases hR.sup i l (getLast?_mem hl) with h1 | h1
      · exact hLnew l h1
      · omega
    have hh' : ∀ j, (reSmp c accR (i, x)).1.getSeries j =
        if j = i ∧ c ≤ x.t then { accR.1.getSeries i with phys := (accR.1.getSeries i).phys ++ [x] }
        else accR.1.getSeries j := by
      intro j
      rw [reSmp_getSeries]
      by_cases hc : c ≤ x.t ∧ j = i
      · obtain ⟨h1, rfl⟩ := hc
        rw [if_pos ⟨h1, rfl⟩, if_pos ⟨rfl, h1⟩, reIns_stored hRlast]
      · rw [if_neg hc, if_neg (fun h => hc ⟨h.2, h.1⟩)]
    have hmv' : (commitStep a accL (i, x)).1.minValid = accL.1.minValid := by rw [hstep]; simp
    have hcfg' : (commitStep a accL (i, x)).1.cfg = accL.1.cfg := by rw [hstep]; simp
    have := rel_store (sL := True) (sR := c ≤ x.t) he' hh' (by simp) (fun _ => hLnew) (by omega) hmv'
      ⟨hp.2.1, hp.2.2⟩ hL hR hrinv'
    exact ⟨this.1, this.2, hcfg', hmv'⟩
  · -- the live head skips `x`
    have hcase' : ∃ l, (accL.1.getSeries i).phys.getLast? = some l ∧ x.t ≤ l.t := by
      apply Classical.byContradiction
      intro hn
      apply hcase
      intro l hl
      apply Classical.byContradiction
      intro hlt
      exact hn ⟨l, hl, by omega⟩
    obtain ⟨l, hl, hle⟩ := hcase'
    have hstep : commitStep a accL (i, x) = accL := by
      simp only [commitStep, commitOne_skipped (accL.1.getSeries i) x a _ l hl hle]
      rfl
    have he' : ∀ j, (commitStep a accL (i, x)).1.getSeries j =
        if j = i ∧ False then { accL.1.getSeries i with phys := (accL.1.getSeries i).phys ++ [x] }
        else accL.1.getSeries j := by
      intro j; rw [hstep]; simp
    have hh' : ∀ j, (reSmp c accR (i, x)).1.getSeries j =
        if j = i ∧ False then { accR.1.getSeries i with phys := (accR.1.getSeries i).phys ++ [x] }
        else accR.1.getSeries j := by
      intro j
      rw [reSmp_getSeries]
      simp only [and_false, if_false]
      by_cases hc : c ≤ x.t ∧ j = i
      · obtain ⟨h1, rfl⟩ := hc
        rw [if_pos ⟨h1, rfl⟩]
        have hlm : l ∈ (accR.1.getSeries j).phys := hR.sub j l (getLast?_mem hl) (by omega)
        cases hl' : (accR.1.getSeries j).phys.getLast? with
        | none => have : (accR.1.getSeries j).phys = [] := by simpa using hl'
                  rw [this] at hlm; simp at hlm
        | some l' =>
          have hs : SInc (accR.1.getSeries j).phys := by
            rcases getSeries_cases accR.1 j with hc | hc
            · exact hR.rinv.physInc _ hc.1
            · rw [hc.2]; simp [SInc]
          have := hs.le_getLast hl' l hlm
          exact reIns_skipped hl' (by omega)
      · rw [if_neg hc]
    have hmv' : (commitStep a accL (i, x)).1.minValid = accL.1.minValid := by rw [hstep]
    have hcfg' : (commitStep a accL (i, x)).1.cfg = accL.1.cfg := by rw [hstep]
    have := rel_store (sL := False) (sR := False) he' hh' (by simp) (fun h => h.elim) (by omega) hmv'
      ⟨hp.2.1, hp.2.2⟩ hL hR hrinv'
    exact ⟨this.1, this.2, hcfg', hmv'⟩

theorem commit_lockstep {c : Int} {a : App} : ∀ (ps : List (Nat × Smp)) (accL accR : Db × Int × Int),
    (∀ p ∈ ps, a.minValid ≤ p.2.t ∧ MinI64 ≤ p.2.t ∧ p.2.t < MaxI64) →
    accL.1.cfg.oooWin = 0 → accL.1.minValid ≤ a.minValid → LiveOk accL.1 → Rel c accL.1 accR.1 →
    Rel c (ps.foldl (commitStep a) accL).1 (ps.foldl (reSmp c) accR).1 ∧
      (ps.foldl (commitStep a) accL).1.minValid = accL.1.minValid
  | [], _, _, _, _, _, _, hR => ⟨hR, rfl⟩
  | p :: ps, accL, accR, hp, how, hmv, hL, hR => by
    obtain ⟨h1, h2, h3, h4⟩ := commit_lockstep_step accL accR p (hp p (by simp)) how hmv hL hR
    have ih := commit_lockstep ps (commitStep a accL p) (reSmp c accR p) (fun q hq => hp q (by simp [hq]))
      (by rw [h3]; exact how) (by rw [h4]; exact hmv) h1 h2
    simp only [List.foldl_cons]
    exact ⟨ih.1, by rw [ih.2, h4]⟩

theorem rep_snoc (c : Int) (wal : List Rec) (r : Rec) :
    rep c (wal ++ [r]) = (reRec c (reFold c { cfg := ⟨0, 0⟩ } wal) r).1 := by
  unfold rep reFold
  rw [List.foldl_append]
  rfl

theorem commitStep_wal (a : App) (acc : Db × Int × Int) (p : Nat × Smp) :
    (commitStep a acc p).1.wal = acc.1.wal := by
  unfold commitStep; simp only; split
  · simp
  · rfl

theorem commitFold_wal (a : App) : ∀ (ps : List (Nat × Smp)) (acc : Db × Int × Int),
    (ps.foldl (commitStep a) acc).1.wal = acc.1.wal
  | [], _ => rfl
  | p :: ps, acc => by
    rw [List.foldl_cons, commitFold_wal a ps, commitStep_wal]

/-- `Commit` keeps the WAL invariant. -/
theorem commit_walInv {d : Db} (hI : Inv d) (hT : TInv d) (hX : XInv d) (how : d.cfg.oooWin = 0)
    (hW : WalInv d) : WalInv d.commit.1 := by
  cases happ : d.app with
  | none =>
    have : d.commit = (d, .error .noapp) := by unfold Db.commit; rw [happ]
    rw [this]; exact hW
  | some a =>
    by_cases hb : a.batch = []
    · have : d.commit = ({ d with app := none }, .ok ()) := by
        unfold Db.commit; rw [happ]; simp [hb]
      rw [this]
      intro c hc
      exact (hW c hc).congr rfl rfl
    · rw [Db.commit_some d a happ hb]
      have hA := hI.appInv a happ
      have hinit : a.init = false := by
        cases hi : a.init with
        | false => rfl
        | true => exact absurd (hA.initBatch hi) hb
      have hmv := hX.appMV a happ hinit
      have hpend : pendingOf d = a.batch := by unfold pendingOf; rw [happ]
      intro c hc
      have hblk := commitFold_blocks a a.batch ({ d with wal := d.wal ++ [Rec.samples a.batch] }, MaxI64, MinI64)
      have hwal := commitFold_wal a a.batch ({ d with wal := d.wal ++ [Rec.samples a.batch] }, MaxI64, MinI64)
      simp only at hblk hwal hc
      rw [hblk] at hc
      have h0 : Rel c ({ d with wal := d.wal ++ [Rec.samples a.batch] } : Db) (reFold c { cfg := ⟨0, 0⟩ } d.wal).1 :=
        (hW c hc).congr rfl rfl
      have hlock := commit_lockstep (c := c) (a := a) a.batch
        ({ d with wal := d.wal ++ [Rec.samples a.batch] }, MaxI64, MinI64) (reFold c { cfg := ⟨0, 0⟩ } d.wal)
        (fun p hp => ⟨(hA.batchGe p hp).1, hT.batchMin p (by rw [hpend]; exact hp), (hA.batchGe p hp).2⟩)
        how hmv (liveOk_of_inv (d := { d with wal := d.wal ++ [Rec.samples a.batch] })
          ⟨hI.toInvS.congr rfl rfl rfl rfl rfl, fun a' ha' => by
            have := hI.appInv a' ha'
            exact ⟨this.initBatch, this.blkLt, this.batchGe⟩⟩) h0
      simp only
      rw [hwal, rep_snoc]
      exact hlock.1.congr rfl rfl

end Prom.Db
