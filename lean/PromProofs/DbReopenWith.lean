import PromProofs.DbReplay
/-
  `Db.reopenWith []` (restart with the empty m-mapped-chunk oracle) is `Db.reopen`, provided no head
  sample and no logged sample sits at `MinInt64` (the oracle's default `mmMaxTime`).
-/
namespace Prom.Db
open Prom.Intervals

theorem foldl_ext_mem {α β} (f g : α → β → α) :
    ∀ (l : List β) (a : α), (∀ a, ∀ b ∈ l, f a b = g a b) → l.foldl f a = l.foldl g a := by
  intro l
  induction l with
  | nil => intro a _; rfl
  | cons b l ih =>
    intro a h
    simp only [List.foldl_cons]
    rw [h a b (List.mem_cons_self ..)]
    exact ih _ fun a b hb => h a b (List.mem_cons_of_mem _ hb)

/-- The oracle lookup of `Db.reopenWith`. -/
def rwMmOf (mm : List (Nat × Int)) (i : Nat) : Int := ((mm.find? (·.1 = i)).map (·.2)).getD MinI64

/-- The m-mapped part of the head kept by `Db.reopenWith`. -/
def rwKept (mmOf : Nat → Int) (c : Int) (ss : List HSeries) : List HSeries :=
  ss.filterMap fun s =>
    let xs := s.phys.filter fun x => x.t ≤ mmOf s.idx ∧ x.t ≥ c
    if xs.isEmpty then none else some ⟨s.idx, xs, []⟩

def rwLo (kept : List HSeries) : Int :=
  kept.foldl (fun m s => match s.phys.head? with | some f => min m f.t | none => m) MaxI64

def rwHi (kept : List HSeries) : Int :=
  kept.foldl (fun m s => match s.phys.getLast? with | some l => max m l.t | none => m) MinI64

/-- Replay of one logged sample with cutoff `c` and oracle `mmOf`. -/
def rwSmp (mmOf : Nat → Int) (c : Int) (acc : Db × Int × Int) (p : Nat × Smp) : Db × Int × Int :=
  if p.2.t < c ∨ p.2.t ≤ mmOf p.1 then acc else
  (acc.1.setSeries (reIns (acc.1.getSeries p.1) p.2), min acc.2.1 p.2.t, max acc.2.2 p.2.t)

def rwRec (mmOf : Nat → Int) (c : Int) (acc : Db × Int × Int) : Rec → Db × Int × Int
  | .samples xs => xs.foldl (rwSmp mmOf c) acc
  | .stones xs => (xs.foldl (reStone c) acc.1, acc.2.1, acc.2.2)

theorem reopenWith_eq (mm : List (Nat × Int)) (d : Db) :
    Db.reopenWith mm d =
      reFinish (d.wal.foldl (rwRec (rwMmOf mm) (maxBlk d.blocks))
        ({ reBase d with series := rwKept (rwMmOf mm) (maxBlk d.blocks) d.series },
          rwLo (rwKept (rwMmOf mm) (maxBlk d.blocks) d.series),
          rwHi (rwKept (rwMmOf mm) (maxBlk d.blocks) d.series))) := by
  rfl

theorem rwMmOf_nil (i : Nat) : rwMmOf [] i = MinI64 := rfl

theorem rwKept_nil (c : Int) (ss : List HSeries)
    (h1 : ∀ s ∈ ss, ∀ x ∈ s.phys, MinI64 < x.t) : rwKept (rwMmOf []) c ss = [] := by
  unfold rwKept
  rw [List.filterMap_eq_nil_iff]
  intro s hs
  have : (s.phys.filter fun x => decide (x.t ≤ rwMmOf [] s.idx ∧ x.t ≥ c)) = [] := by
    rw [List.filter_eq_nil_iff]
    intro x hx
    have := h1 s hs x hx
    rw [rwMmOf_nil]
    intro h
    exact absurd (of_decide_eq_true h).1 (Int.not_le.mpr this)
  simp only [this, List.isEmpty_nil, if_true]

theorem reBase_series_W (d : Db) : ({ reBase d with series := [] } : Db) = reBase d := by
  unfold reBase
  split <;> rfl

theorem rwSmp_nil (c : Int) (acc : Db × Int × Int) (p : Nat × Smp) (h : MinI64 < p.2.t) :
    rwSmp (rwMmOf []) c acc p = reSmp c acc p := by
  unfold rwSmp reSmp
  have : (p.2.t < c ∨ p.2.t ≤ rwMmOf [] p.1) ↔ p.2.t < c := by
    rw [rwMmOf_nil]
    exact ⟨fun h' => h'.elim id fun h'' => absurd h'' (Int.not_le.mpr h), Or.inl⟩
  simp only [this]

theorem reopenWith_nil (d : Db) (h1 : ∀ s ∈ d.series, ∀ x ∈ s.phys, MinI64 < x.t)
    (h2 : ∀ xs, Rec.samples xs ∈ d.wal → ∀ p ∈ xs, MinI64 < p.2.t) :
    Db.reopenWith [] d = d.reopen := by
  rw [reopenWith_eq, reopen_eq, rwKept_nil _ _ h1, reBase_series_W]
  unfold reFold
  congr 1
  apply foldl_ext_mem
  intro acc r hr
  cases r with
  | stones xs => rfl
  | samples xs =>
    show xs.foldl (rwSmp (rwMmOf []) _) acc = xs.foldl (reSmp _) acc
    apply foldl_ext_mem
    intro a p hp
    exact rwSmp_nil _ a p (h2 xs hr p hp)

/-- The hypotheses are needed only because of the `MinInt64` default of the oracle: a head sample at
    `MinInt64` is kept by `reopenWith []` but not rebuilt by `reopen` (`Db` has no `DecidableEq`, so the
    difference is shown on the number of head series). -/
example : (Db.reopenWith [] { cfg := ⟨100, 0⟩, series := [⟨0, [⟨MinI64, 1⟩], []⟩] }).series.length ≠
    (({ cfg := ⟨100, 0⟩, series := [⟨0, [⟨MinI64, 1⟩], []⟩] } : Db).reopen).series.length := by
  decide

end Prom.Db
