import PromModel.Suites.IntervalsSuite
import PromProofs.IntervalsAdd
import PromProofs.IntervalsIter
/-
  C20: the suite's statement-as-oracle (`verdict`) accepts the model's own outputs for every
  sequence of in-range operations.
-/
namespace Prom.Intervals

/-- Invariant tying the model state to the list of requested ranges. -/
structure Inv (st added : Intervals) : Prop where
  canon : Canon st
  range : AllI64 st
  cov : ∀ t, covers st t ↔ covers added t

def OpInRange : Op → Prop
  | .add a b => I64 a ∧ I64 b
  | _ => True

theorem inv_nil : Inv [] [] := ⟨canon_nil, by intro x hx; simp at hx, fun _ => Iff.rfl⟩

theorem verdict_runOps : ∀ (ops : List Op) (st added : Intervals) (k : Nat), Inv st added →
    (∀ op ∈ ops, OpInRange op) → verdict added k ops (runOps st ops) = none
  | [], _, _, _, _, _ => by simp [verdict]
  | op :: ops, st, added, k, inv, hr => by
    have hr' : ∀ op ∈ ops, OpInRange op := fun o ho => hr o (List.mem_cons_of_mem _ ho)
    have hop := hr op List.mem_cons_self
    cases op with
    | reset =>
      simp only [runOps, stepOp, verdict]
      exact verdict_runOps ops [] [] (k + 1) inv_nil hr'
    | bad => simp [runOps, stepOp, verdict]
    | inb a b t =>
      simp only [runOps, stepOp, verdict]
      have : (Out.bool ((⟨a, b⟩ : Interval).inBounds t) = Out.bool (decide (a ≤ t ∧ t ≤ b))) := by
        congr 1
        rw [Bool.eq_iff_iff, inBounds_iff]; simp
      rw [if_pos this]
      exact verdict_runOps ops st added (k + 1) inv hr'
    | sub a b =>
      simp only [runOps, stepOp, verdict]
      by_cases hab : a > b
      · rw [if_pos hab]; exact verdict_runOps ops st added (k + 1) inv hr'
      · rw [if_neg hab]
        have : (Out.bool ((⟨a, b⟩ : Interval).isSubrange st) = Out.bool (rangeCoveredB added a b)) := by
          congr 1
          rw [Bool.eq_iff_iff, isSubrange_iff ⟨a, b⟩ st inv.canon (by simp only; omega), rangeCoveredB_iff]
          constructor
          · intro h t h1 h2; exact (inv.cov t).mp (h t h1 h2)
          · intro h t h1 h2; exact (inv.cov t).mpr (h t h1 h2)
        rw [if_pos this]
        exact verdict_runOps ops st added (k + 1) inv hr'
    | iter seek ts =>
      by_cases hs : ts.Pairwise (· < ·)
      · have hcov : ∀ t, coversB st t = coversB added t := fun t => coversB_eq_of_iff (inv.cov t)
        cases seek with
        | none =>
          simp only [runOps, stepOp, verdict, hs, decide_true, Bool.not_true, Bool.false_eq_true,
            if_false, Bool.true_and]
          rw [drain_eq_filter ts st hs inv.canon]
          have : ts.filter (fun t => !coversB st t) = ts.filter (fun t => !coversB added t) := by
            apply List.filter_congr; intro x _; rw [hcov]
          rw [this, if_pos rfl]
          exact verdict_runOps ops st added (k + 1) inv hr'
        | some s =>
          simp only [runOps, stepOp, verdict, hs, decide_true, Bool.not_true, Bool.false_eq_true,
            if_false]
          rw [seekDrain_eq_filter s ts st hs inv.canon]
          have : ts.filter (fun t => decide (s ≤ t) && !coversB st t) =
              ts.filter (fun t => decide (s ≤ t) && !coversB added t) := by
            apply List.filter_congr; intro x _; rw [hcov]
          rw [this, if_pos rfl]
          exact verdict_runOps ops st added (k + 1) inv hr'
      · cases seek <;>
        · simp only [runOps, stepOp, verdict, hs, decide_false, Bool.not_false, if_true]
          exact verdict_runOps ops st added (k + 1) inv hr'
    | add a b =>
      simp only [runOps, stepOp, verdict]
      by_cases hab : a > b
      · rw [if_pos hab]
      · rw [if_neg hab]
        obtain ⟨ys, hys, hcan, hcov⟩ := add_correct st ⟨a, b⟩ inv.canon inv.range (by simp only; omega)
        have hrange := add_range st ys ⟨a, b⟩ inv.range hop hys
        rw [hys]
        simp only
        have hcb : canonB ys = true := by simp [canonB, hcan]
        rw [hcb]
        simp only [Bool.not_true, Bool.false_eq_true, if_false]
        have hcov' : ∀ t, covers ys t ↔ covers (⟨a, b⟩ :: added) t := by
          intro t
          rw [hcov t, covers_cons, inv.cov t]
          simp only
          constructor
          · rintro (h | h); exact Or.inr h; exact Or.inl h
          · rintro (h | h); exact Or.inr h; exact Or.inl h
        have hfind : List.find? (fun t => coversB ys t != coversB (⟨a, b⟩ :: added) t)
            ((((⟨a, b⟩ : Interval) :: added) ++ ys).flatMap (fun x => [x.mint - 1, x.mint, x.maxt, x.maxt + 1])) = none := by
          rw [List.find?_eq_none]
          intro t _
          rw [coversB_eq_of_iff (hcov' t)]; simp
        rw [hfind]
        exact verdict_runOps ops ys (⟨a, b⟩ :: added) (k + 1) ⟨hcan, hrange, hcov'⟩ hr'

end Prom.Intervals
