import PromModel.Suites.HintSuite
import PromProofs.MergeHintDefs
import PromProofs.HistHint
/-
  C12 through the merge: if the chain iterator's trace satisfies `Merge.Tr`, merging hint-sound sources
  (`mergeRead`) gives a hint-sound stream.
-/
namespace Prom.HintSuite
open Prom.Hist Prom.HistSuite

theorem hintNum_lt (h : Hint) : hintNum h < 4 := by cases h <;> decide

theorem hintNum_eq_two (h : Hint) (e : hintNum h = 2) : h = .notReset := by
  cases h <;> simp [hintNum] at e ⊢

theorem hintOfNum?_notReset (n : Nat) (h : hintOfNum? n = some .notReset) : n = 2 := by
  unfold hintOfNum? at h
  split at h <;> first | rfl | cases h

/-- decoding of one merged sample in `mergeRead` -/
def decode (table : List Hist) (s : Merge.Sample) : Option (Int × Hist) := do
  let h ← table[s.payload / 4]?
  let hint ← hintOfNum? (s.payload % 4)
  pure (s.t, { h with hint })

theorem decode_some (table : List Hist) (s : Merge.Sample) (x : Int × Hist) (h : decode table s = some x) :
    ∃ hb hint, table[s.payload / 4]? = some hb ∧ hintOfNum? (s.payload % 4) = some hint ∧
      x = (s.t, { hb with hint := hint }) := by
  unfold decode at h
  cases h1 : table[s.payload / 4]? with
  | none => simp [h1] at h
  | some hb =>
    cases h2 : hintOfNum? (s.payload % 4) with
    | none => simp [h1, h2] at h
    | some hint =>
      simp [h1, h2] at h
      exact ⟨hb, hint, rfl, rfl, h.symm⟩

theorem mergeRead_eq (srcs : List (List (Int × Hist))) :
    mergeRead srcs =
      match (Merge.Chain.ofLists ((toMergeInputs 0 srcs).1.map fun l => (l, false))).drain with
      | none => none
      | some (_, out) => out.mapM (decode (toMergeInputs 0 srcs).2) := rfl

theorem toMergeInputs_length : ∀ (base : Nat) (srcs : List (List (Int × Hist))),
    (toMergeInputs base srcs).1.length = srcs.length
  | _, [] => rfl
  | base, src :: rest => by
    simp only [toMergeInputs, List.length_cons, toMergeInputs_length (base + src.length) rest]

/-- position lemma: where sample `k` of source `j` ends up -/
theorem toMergeInputs_pos : ∀ (srcs : List (List (Int × Hist))) (base j : Nat) (src : List (Int × Hist)),
    srcs[j]? = some src →
    ∃ l, (toMergeInputs base srcs).1[j]? = some l ∧ l.length = src.length ∧
      ∀ (k : Nat) (t : Int) (hh : Hist), src[k]? = some (t, hh) →
        ∃ smp : Merge.Sample, l[k]? = some smp ∧ smp.t = t ∧ smp.kind ≠ .float ∧ smp.payload % 4 = hintNum hh.hint ∧
          base ≤ smp.payload / 4 ∧ (toMergeInputs base srcs).2[smp.payload / 4 - base]? = some hh
  | [], _, _, _, h => by simp at h
  | s0 :: rest, base, 0, src, h => by
    simp only [List.getElem?_cons_zero, Option.some.injEq] at h
    subst h
    refine ⟨_, rfl, by simp, ?_⟩
    intro k t hh hk
    have hlt := hintNum_lt hh.hint
    refine ⟨{ t := t, kind := if hh.float then .fhist else .hist, payload := 4 * (base + k) + hintNum hh.hint }, ?_,
      rfl, ?_, ?_, ?_, ?_⟩
    · simp [List.getElem?_map, List.getElem?_zipIdx, hk]
    · show (if hh.float then Merge.Kind.fhist else Merge.Kind.hist) ≠ .float
      cases hh.float <;> simp
    · show (4 * (base + k) + hintNum hh.hint) % 4 = hintNum hh.hint
      omega
    · show base ≤ (4 * (base + k) + hintNum hh.hint) / 4
      omega
    · show (toMergeInputs base (s0 :: rest)).2[(4 * (base + k) + hintNum hh.hint) / 4 - base]? = some hh
      have e : (4 * (base + k) + hintNum hh.hint) / 4 - base = k := by omega
      rw [e]
      simp only [toMergeInputs]
      have hk' : k < s0.length := by
        obtain ⟨h', _⟩ := List.getElem?_eq_some_iff.mp hk
        exact h'
      rw [List.getElem?_append_left (by simpa using hk')]
      simp [List.getElem?_map, hk]
  | s0 :: rest, base, j + 1, src, h => by
    simp only [List.getElem?_cons_succ] at h
    obtain ⟨l, hl, hlen, hpos⟩ := toMergeInputs_pos rest (base + s0.length) j src h
    refine ⟨l, by simpa only [toMergeInputs, List.getElem?_cons_succ] using hl, hlen, ?_⟩
    intro k t hh hk
    obtain ⟨smp, h1, h2, h3, h4, h5, h6⟩ := hpos k t hh hk
    refine ⟨smp, h1, h2, h3, h4, by omega, ?_⟩
    simp only [toMergeInputs]
    rw [List.getElem?_append_right (by simp only [List.length_map]; omega)]
    simp only [List.length_map]
    rw [show smp.payload / 4 - base - s0.length = smp.payload / 4 - (base + s0.length) by omega]
    exact h6

/-- an adjacency inside one encoded input is an adjacency inside one source -/
theorem adj_srcs (srcs : List (List (Int × Hist))) (p s : Merge.Sample)
    (hadj : Merge.Adj (toMergeInputs 0 srcs).1 p s) :
    ∃ src k tp a ts b, src ∈ srcs ∧ src[k]? = some (tp, a) ∧ src[k + 1]? = some (ts, b) ∧
      (toMergeInputs 0 srcs).2[p.payload / 4]? = some a ∧ (toMergeInputs 0 srcs).2[s.payload / 4]? = some b ∧
      s.payload % 4 = hintNum b.hint := by
  obtain ⟨j, pre, post, hj⟩ := hadj
  have hjlt : j < srcs.length := by
    obtain ⟨h', _⟩ := List.getElem?_eq_some_iff.mp hj
    rw [toMergeInputs_length] at h'
    exact h'
  have hsrc : srcs[j]? = some srcs[j] := List.getElem?_eq_getElem hjlt
  obtain ⟨l, hl, hlen, hpos⟩ := toMergeInputs_pos srcs 0 j _ hsrc
  rw [hj] at hl
  simp only [Option.some.injEq] at hl
  subst hl
  simp only [List.length_append, List.length_cons] at hlen
  have hk0 : pre.length < srcs[j].length := by omega
  have hk1 : pre.length + 1 < srcs[j].length := by omega
  have e0 : srcs[j][pre.length]? = some (srcs[j][pre.length].1, srcs[j][pre.length].2) :=
    List.getElem?_eq_getElem hk0
  have e1 : srcs[j][pre.length + 1]? = some (srcs[j][pre.length + 1].1, srcs[j][pre.length + 1].2) :=
    List.getElem?_eq_getElem hk1
  obtain ⟨sp, p1, _, _, _, _, p6⟩ := hpos _ _ _ e0
  obtain ⟨ss, s1, _, _, s4, _, s6⟩ := hpos _ _ _ e1
  have hp : (pre ++ p :: s :: post)[pre.length]? = some p := by
    rw [List.getElem?_append_right (Nat.le_refl _)]; simp
  have hs' : (pre ++ p :: s :: post)[pre.length + 1]? = some s := by
    rw [List.getElem?_append_right (by omega)]
    rw [show pre.length + 1 - pre.length = 1 by omega]; rfl
  rw [hp] at p1; rw [hs'] at s1
  simp only [Option.some.injEq] at p1 s1
  subst p1; subst s1
  exact ⟨srcs[j], pre.length, _, _, _, _, List.mem_of_getElem? hsrc, e0, e1, by simpa using p6, by simpa using s6, s4⟩

/-- in a hint-sound list, a non-stale sample marked NotCounterReset shows no reset from its predecessor -/
theorem unsound_adj (tp ts : Int) (a b : Hist) (hb : b.hint = .notReset) (hst : b.stale = false) :
    ∀ (src : List (Int × Hist)) (prev : Option Hist) (n k : Nat), unsoundAt prev n src = none →
      src[k]? = some (tp, a) → src[k + 1]? = some (ts, b) → noReset a b = true
  | [], _, _, _, _, h, _ => by simp at h
  | (t, h) :: rest, prev, n, k, hu, h0, h1 => by
    by_cases hc : h.hint = .notReset ∧ (!h.stale) = true ∧ (!prevOk prev h) = true
    · rw [unsoundAt_cons_pos _ _ _ _ _ hc] at hu; cases hu
    · rw [unsoundAt_cons _ _ _ _ _ hc] at hu
      cases k with
      | succ k =>
        simp only [List.getElem?_cons_succ] at h0 h1
        exact unsound_adj tp ts a b hb hst rest _ _ k hu h0 h1
      | zero =>
        simp only [List.getElem?_cons_zero, Option.some.injEq, Prod.mk.injEq] at h0
        obtain ⟨_, rfl⟩ := h0
        simp only [Nat.zero_add, List.getElem?_cons_succ] at h1
        cases rest with
        | nil => simp at h1
        | cons y rest' =>
          simp only [List.getElem?_cons_zero, Option.some.injEq] at h1
          subst h1
          by_cases hc2 : b.hint = .notReset ∧ (!b.stale) = true ∧ (!prevOk (some h) b) = true
          · rw [unsoundAt_cons_pos _ _ _ _ _ hc2] at hu; cases hu
          · cases hn : noReset h b with
            | true => rfl
            | false =>
              exfalso; apply hc2
              refine ⟨hb, by rw [hst]; rfl, ?_⟩
              show (!noReset h b) = true
              rw [hn]; rfl

theorem tr_sound (srcs : List (List (Int × Hist))) (hs : ∀ s ∈ srcs, hintsSound s = true)
    (prev : Option Merge.Sample) (r o : List Merge.Sample)
    (htr : Merge.Tr (toMergeInputs 0 srcs).1 prev r o) :
    (∀ s ∈ r, s.kind ≠ .float) →
    ∀ (prevH : Option Hist) (k : Nat) (outs : List (Int × Hist)),
      (∀ p, prev = some p → ∃ a a', (toMergeInputs 0 srcs).2[p.payload / 4]? = some a ∧ prevH = some a' ∧
        a'.sem = a.sem) →
      o.mapM (decode (toMergeInputs 0 srcs).2) = some outs → unsoundAt prevH k outs = none := by
  induction htr with
  | nil prev =>
    intro _ prevH k outs _ hm
    simp only [List.mapM_nil, pure, Option.some.injEq] at hm
    subst hm; rfl
  | cons prev s o raws outs0 ho hadj tl ih =>
    intro hraw prevH k outs hinv hm
    rw [List.mapM_cons] at hm
    cases hd : decode (toMergeInputs 0 srcs).2 o with
    | none => simp [hd] at hm
    | some x =>
      cases hrest : List.mapM (decode (toMergeInputs 0 srcs).2) outs0 with
      | none => simp [hd, hrest] at hm
      | some xs =>
        simp [hd, hrest] at hm
        subst hm
        obtain ⟨hb, hint, htab, hhint, rfl⟩ := decode_some _ _ _ hd
        have hpay : o.payload / 4 = s.payload / 4 := by
          rcases ho with rfl | rfl
          · rfl
          · show s.payload / 4 * 4 / 4 = s.payload / 4
            omega
        rw [hpay] at htab
        rw [unsoundAt_cons]
        · refine ih (fun q hq => hraw q (List.mem_cons_of_mem _ hq)) _ _ _ ?_ hrest
          intro p hp
          simp only [Option.some.injEq] at hp
          subst hp
          exact ⟨hb, _, htab, rfl, rfl⟩
        · rintro ⟨hh, hst, hno⟩
          have hh' : hint = .notReset := hh
          subst hh'
          have h2 : o.payload % 4 = 2 := hintOfNum?_notReset _ hhint
          have hs2 : s.payload % 4 = 2 := by
            rcases ho with rfl | rfl
            · exact h2
            · have h2' : (s.payload / 4 * 4) % 4 = 2 := h2
              omega
          obtain ⟨p, hp, hadj'⟩ := hadj (hraw s (List.mem_cons_self ..)) h2
          obtain ⟨src, kk, tp, a, ts, b, hmem, e0, e1, ta, tb, hbn⟩ := adj_srcs srcs p s hadj'
          rw [htab] at tb
          simp only [Option.some.injEq] at tb
          subst tb
          have hbh : hb.hint = .notReset := hintNum_eq_two _ (by omega)
          have hbst : hb.stale = false := by
            have : (!hb.stale) = true := hst
            cases e : hb.stale with
            | false => rfl
            | true => rw [e] at this; cases this
          have hsound := hs src hmem
          have hu : unsoundAt none 0 src = none := by
            unfold hintsSound at hsound
            cases e : unsoundAt none 0 src with
            | none => rfl
            | some i => rw [e] at hsound; cases hsound
          have hnr := unsound_adj tp ts a hb hbh hbst src none 0 kk hu e0 e1
          obtain ⟨a2, a', ta2, hprevH, hsem⟩ := hinv p hp
          rw [ta] at ta2
          simp only [Option.some.injEq] at ta2
          subst ta2
          subst hprevH
          have hno' : (!noReset a' { hb with hint := Hint.notReset }) = true := hno
          rw [noReset_sem a' a { hb with hint := Hint.notReset } hb hsem rfl, hnr] at hno'
          cases hno'

/-- If the chain iterator's trace over the encoded inputs satisfies `Tr` (a surviving NotCounterReset hint ⇒ the
    sample directly follows the previously returned one inside one input), then merging hint-sound sources
    gives a hint-sound stream. -/
theorem mergeRead_sound_of_tr (srcs : List (List (Int × Hist))) (out : List (Int × Hist))
    (hs : ∀ s ∈ srcs, hintsSound s = true)
    (htr : ∀ r o, (Merge.Chain.ofLists ((toMergeInputs 0 srcs).1.map fun l => (l, false))).drain = some (r, o) →
      Merge.Tr (toMergeInputs 0 srcs).1 none r o)
    (hraw : ∀ r o, (Merge.Chain.ofLists ((toMergeInputs 0 srcs).1.map fun l => (l, false))).drain = some (r, o) →
      ∀ s ∈ r, s.kind ≠ .float)
    (h : mergeRead srcs = some out) : hintsSound out = true := by
  rw [mergeRead_eq] at h
  cases hd : (Merge.Chain.ofLists ((toMergeInputs 0 srcs).1.map fun l => (l, false))).drain with
  | none => simp only [hd] at h; cases h
  | some ro =>
    obtain ⟨r, o⟩ := ro
    simp only [hd] at h
    have := tr_sound srcs hs none r o (htr r o hd) (hraw r o hd) none 0 out (fun p hp => by cases hp) h
    unfold hintsSound
    rw [this]; rfl

end Prom.HintSuite
