import PromProofs.BlockPopulateSeries
/-
  C07 helper lemmas, part 3: one source block (head → block, single-block rewrite): no merging happens.
-/
namespace Prom.BlockPopulate
open Prom.Merge
open Prom.Intervals (Interval Intervals Canon AllI64 I64 covers coversB)

/-- what a reader of the written series sees: label set and samples -/
def proj (cs : CS) : Labels × List Sample := (cs.1, csSamples cs)

theorem isEmpty_chunks_iff (cs : CS) (h : ∀ c ∈ cs.2, c.samples ≠ []) :
    cs.2.isEmpty = (csSamples cs).isEmpty := by
  unfold csSamples
  cases hc : cs.2 with
  | nil => rfl
  | cons c r =>
    have := h c (by rw [hc]; exact List.mem_cons_self ..)
    cases hs : c.samples with
    | nil => exact absurd hs this
    | cons x xs => simp [hs]

theorem blockSet_spec (mint maxt : Int)
    (hmint : Intervals.MinI64 < mint ∧ mint ≤ Intervals.MaxI64) (hmaxt : Intervals.MinI64 ≤ maxt ∧ maxt < Intervals.MaxI64) :
    ∀ (ss : List Series), (∀ s ∈ ss, SeriesWF s) →
    ∃ out, blockSet mint maxt ss = .ok out ∧
      (out.filter (fun cs => !cs.2.isEmpty)).map proj =
        (ss.map fun s => (s.labels, visible mint maxt s)).filter (fun p => !p.2.isEmpty) ∧
      ∀ cs ∈ out, ∀ c ∈ cs.2, c.samples ≠ []
  | [], _ => ⟨[], rfl, rfl, by simp⟩
  | s :: r, wf => by
    obtain ⟨o, h1, h2, h3, h4⟩ := popSeries_spec mint maxt s (wf s (List.mem_cons_self ..)) hmint hmaxt
    obtain ⟨out, g1, g2, g3⟩ := blockSet_spec mint maxt hmint hmaxt r (fun x hx => wf x (List.mem_cons_of_mem _ hx))
    refine ⟨o.toList ++ out, by unfold blockSet; rw [h1, g1], ?_, ?_⟩
    · rw [List.filter_append, List.map_append, g2, List.map_cons, List.filter_cons]
      cases o with
      | none => simp [h3 rfl]
      | some cs =>
        have hne := h4 cs (by simp)
        simp only [Option.toList_some, List.map_cons, List.map_nil, Option.isSome_some, if_true, List.cons.injEq,
          and_true] at h2
        have hp : proj cs = (s.labels, visible mint maxt s) := h2
        have he := isEmpty_chunks_iff cs hne
        have hv : csSamples cs = visible mint maxt s := by
          have := congrArg Prod.snd hp; simpa [proj] using this
        simp only [Option.toList_some, List.filter_cons, List.filter_nil]
        rw [he, hv]
        cases hvis : (visible mint maxt s).isEmpty <;> simp [hp]
    · intro cs hcs
      rcases List.mem_append.1 hcs with h | h
      · exact h4 cs h
      · exact g3 cs h

/-- `NewMergeChunkSeriesSet` of one set / `set = sets[0]`: the set itself, series by series -/
theorem drainAux_single {σ} (lab : σ → Labels) : ∀ (fuel : Nat) (s : SetIt σ) (acc : List (List σ)),
    s.errEnd = false → s.rest.length + 1 ≤ fuel →
    MSet.drainAux lab fuel (.single s) acc = (acc.reverse ++ s.rest.map ([·]), false)
  | 0, s, acc, _, h => by omega
  | fuel + 1, s, acc, he, h => by
    unfold MSet.drainAux
    cases hr : s.rest with
    | nil =>
      simp [MSet.next, SetIt.next, hr, MSet.err, SetIt.err, he]
    | cons x r =>
      simp only [MSet.next, SetIt.next, hr]
      rw [drainAux_single lab fuel _ _ (by simpa using he) (by simp [hr] at h ⊢; omega)]
      simp [MSet.at]

theorem groupSets_single (set : List CS) : groupSets [set] = (set.map ([·]), false) := by
  unfold groupSets
  have : MSet.new (fun x : CS => x.1) (([set].zipIdx).map fun (s, i) => SetIt.ofList i s) 0
      = .single (SetIt.ofList 0 set) := by
    simp [MSet.new, List.zipIdx]
  rw [this, drainAux_single]
  · simp [SetIt.ofList]
  · rfl
  · simp [SetIt.ofList]

theorem mergeGroups_singletons (m : Merger) : ∀ (set : List CS), mergeGroups m (set.map ([·])) = .ok set
  | [] => rfl
  | x :: r => by
    simp only [List.map_cons, mergeGroups, mergeGroup]
    rw [mergeGroups_singletons m r]
    rfl

/-- one source block: the written series are exactly the label sets with at least one visible sample,
    in source order, each with exactly its visible samples -/
theorem populate_single (m : Merger) (b : Block) (mint maxt : Int) (o : Output)
    (wf : ∀ s ∈ b.series, SeriesWF s)
    (hmint : Intervals.MinI64 < mint ∧ mint ≤ Intervals.MaxI64) (hmaxt : Intervals.MinI64 ≤ maxt ∧ maxt < Intervals.MaxI64)
    (h : populate m [b] mint maxt = .ok o) :
    o.series.map proj = (b.series.map fun s => (s.labels, visible mint maxt s)).filter (fun p => !p.2.isEmpty) ∧
    ∀ cs ∈ o.series, ∀ c ∈ cs.2, c.samples ≠ [] := by
  obtain ⟨_, merged, ⟨sets, groups, hs, hg, hm⟩, hser⟩ := populate_written h
  obtain ⟨out, g1, g2, g3⟩ := blockSet_spec mint maxt hmint hmaxt b.series wf
  have hsets : sets = [out] := by
    simp only [blockSets, g1] at hs
    cases hs; rfl
  subst hsets
  rw [groupSets_single] at hg
  cases hg
  rw [mergeGroups_singletons] at hm
  cases hm
  refine ⟨by rw [hser, g2], ?_⟩
  intro cs hcs
  rw [hser] at hcs
  exact g3 cs (List.mem_filter.1 hcs).1

/-- a block without samples has no series (every written series has a chunk, every chunk a sample) -/
theorem no_samples_no_series (ss : List CS) (h0 : (recount ss).numSamples = 0)
    (h1 : ∀ s ∈ ss, s.2 ≠ []) (h2 : ∀ s ∈ ss, ∀ c ∈ s.2, c.samples ≠ []) : ss = [] := by
  cases ss with
  | nil => rfl
  | cons s r =>
    exfalso
    have hs := h1 s (List.mem_cons_self ..)
    cases hc : s.2 with
    | nil => exact hs hc
    | cons c cr =>
      have hne := h2 s (List.mem_cons_self ..) c (by rw [hc]; exact List.mem_cons_self ..)
      simp only [recount, chunkStats, List.flatMap_cons, hc, List.cons_append, List.map_cons, List.sum_cons] at h0
      have : c.samples.length = 0 := by omega
      exact hne (List.length_eq_zero_iff.1 this)

end Prom.BlockPopulate
