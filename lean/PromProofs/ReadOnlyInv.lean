import PromProofs.ReadOnlyMain
/-
  C53, history level: every block of the model is cut at a `rangeForTimestamp` boundary of its
  MinTime (`Aligned`), along every history; `rangeForTimestamp` is monotone, so `Aligned` directories
  with int64 block times satisfy `BlocksOk`.
-/
namespace Prom.Db
open Prom.Intervals

theorem tmod_nonpos_of_neg' (t w : Int) (ht : t < 0) : t.tmod w ≤ 0 := by
  have h := Int.tmod_nonneg (a := -t) w (by omega)
  rw [Int.neg_tmod] at h
  omega

/-- `rangeStartForTimestamp t w` is the multiple of `w` at or below `t` (floor alignment). -/
theorem rangeStart_spec (t w : Int) (hw : 0 < w) :
    ∃ q : Int, rangeStartForTimestamp t w = w * q ∧ w * q ≤ t ∧ t < w * q + w := by
  unfold rangeStartForTimestamp
  simp only []
  have h1 := Int.tmod_def t w
  have h2 := Int.tmod_lt_of_pos t hw
  have h3 := Int.lt_tmod_of_pos t hw
  have hc : t.tdiv w * w = w * t.tdiv w := Int.mul_comm _ _
  split
  · rename_i hneg
    have h4 := tmod_nonpos_of_neg' t w hneg.1
    have h5 := hneg.2
    refine ⟨t.tdiv w - 1, ?_, ?_, ?_⟩ <;> rw [Int.mul_sub, Int.mul_one] <;> omega
  · rename_i hneg
    refine ⟨t.tdiv w, ?_, ?_, ?_⟩
    · omega
    · by_cases ht : t < 0
      · have h5 : t.tmod w = 0 := by
          by_cases h : t.tmod w = 0
          · exact h
          · exact absurd ⟨ht, h⟩ hneg
        omega
      · have h4 := Int.tmod_nonneg (a := t) w (by omega)
        omega
    · by_cases ht : t < 0
      · have h5 : t.tmod w = 0 := by
          by_cases h : t.tmod w = 0
          · exact h
          · exact absurd ⟨ht, h⟩ hneg
        omega
      · omega

theorem rft_gt (t w : Int) (hw : 0 < w) : t < rangeForTimestamp t w := by
  unfold rangeForTimestamp
  obtain ⟨q, hq, _, h2⟩ := rangeStart_spec t w hw
  omega

theorem rft_mono (a b w : Int) (hw : 0 < w) (h : a ≤ b) : rangeForTimestamp a w ≤ rangeForTimestamp b w := by
  unfold rangeForTimestamp
  obtain ⟨qa, hqa, ha1, _⟩ := rangeStart_spec a w hw
  obtain ⟨qb, hqb, _, hb2⟩ := rangeStart_spec b w hw
  have hlt : w * qa < w * (qb + 1) := by rw [Int.mul_add, Int.mul_one]; omega
  have hq : qa < qb + 1 := Int.lt_of_mul_lt_mul_left hlt (Int.le_of_lt hw)
  have hle : w * qa ≤ w * qb := Int.mul_le_mul_of_nonneg_left (by omega) (Int.le_of_lt hw)
  omega

/-- Every block ends at the range boundary above its MinTime. -/
def Aligned (d : Db) : Prop := ∀ b ∈ d.blocks, b.maxt = rangeForTimestamp b.mint d.cfg.chunkRange

theorem blocksOk_of_aligned (d : Db) (ha : Aligned d) (hcr : 0 < d.cfg.chunkRange)
    (hi : ∀ b ∈ d.blocks, MinI64 ≤ b.mint) : BlocksOk d := by
  intro b hb
  refine ⟨?_, ?_⟩
  · have := rft_gt b.mint _ hcr; have := ha b hb; have := hi b hb; omega
  · intro c hc hle
    rw [ha b hb, ha c hc]
    exact rft_mono _ _ _ hcr hle

/-! ### `Aligned` along histories: only head compaction adds a block, and it adds an aligned one -/

def SameDisk (d' d : Db) : Prop := d'.blocks = d.blocks ∧ d'.cfg = d.cfg

theorem aligned_of_sameDisk (d' d : Db) (h : SameDisk d' d) (ha : Aligned d) : Aligned d' := by
  intro b hb; rw [h.1] at hb; rw [h.2]; exact ha b hb

theorem setSeries_sameDisk (h : Db) (s : HSeries) : SameDisk (h.setSeries s) h := by
  unfold Db.setSeries SameDisk; split <;> exact ⟨rfl, rfl⟩

theorem begin_sameDisk (d : Db) : SameDisk d.begin d := by
  unfold Db.begin SameDisk; split <;> exact ⟨rfl, rfl⟩

theorem append_sameDisk (d : Db) (i : Nat) (t : Int) (v : Nat) : SameDisk (d.append i t v).1 d := by
  unfold Db.append SameDisk
  cases d.app with
  | none => exact ⟨rfl, rfl⟩
  | some a =>
    simp only []
    by_cases hi : a.init = true
    · simp only [hi, if_true]
      repeat' split
      all_goals exact ⟨rfl, rfl⟩
    · simp only [hi]
      repeat' split
      all_goals exact ⟨rfl, rfl⟩

theorem commit_sameDisk (d : Db) : SameDisk d.commit.1 d := by
  unfold Db.commit
  cases d.app with
  | none => exact ⟨rfl, rfl⟩
  | some a =>
    simp only []
    split
    · exact ⟨rfl, rfl⟩
    · have key := foldl_inv (fun (acc : Db × Int × Int) => acc.1.blocks = d.blocks ∧ acc.1.cfg = d.cfg)
        (fun (acc : Db × Int × Int) (p : Nat × Smp) =>
          if (commitOne (acc.fst.getSeries p.fst) p.snd a acc.fst.cfg.oooWin).snd = true then
            (acc.fst.setSeries (commitOne (acc.fst.getSeries p.fst) p.snd a acc.fst.cfg.oooWin).fst,
              min acc.2.fst p.snd.t, max acc.2.snd p.snd.t)
          else (acc.fst, acc.2.fst, acc.2.snd)) a.batch
        (by
          intro acc p h
          split
          · have := setSeries_sameDisk acc.1 (commitOne (acc.fst.getSeries p.fst) p.snd a acc.fst.cfg.oooWin).fst
            exact ⟨this.1.trans h.1, this.2.trans h.2⟩
          · exact h)
        (({ cfg := d.cfg, minT := d.minT, maxT := d.maxT, minValid := d.minValid, series := d.series,
            blocks := d.blocks, wal := d.wal ++ [Rec.samples a.batch], app := some a } : Db), MaxI64, MinI64) ⟨rfl, rfl⟩
      exact ⟨key.1, key.2⟩

theorem rollback_sameDisk (d : Db) : SameDisk d.rollback.1 d := by
  unfold Db.rollback; cases d.app <;> exact ⟨rfl, rfl⟩

theorem delete_aligned (d : Db) (a b : Int) (sel : Option Nat) (ha : Aligned d) : Aligned (d.delete a b sel) := by
  -- blocks are mapped with mint/maxt kept; the head part keeps the blocks
  have hblk : ∀ x ∈ (d.delete a b sel).blocks, ∃ y ∈ d.blocks, x.mint = y.mint ∧ x.maxt = y.maxt := by
    unfold Db.delete
    simp only []
    split
    all_goals
      intro x hx
      simp only [List.mem_map] at hx
      obtain ⟨y, hy, rfl⟩ := hx
      refine ⟨y, hy, ?_⟩
      split <;> exact ⟨rfl, rfl⟩
  have hcfg : (d.delete a b sel).cfg = d.cfg := by
    unfold Db.delete; simp only []; split <;> rfl
  intro x hx
  obtain ⟨y, hy, e1, e2⟩ := hblk x hx
  rw [e1, e2, hcfg]; exact ha y hy

theorem cleanTombstones_aligned (d : Db) (ha : Aligned d) : Aligned d.cleanTombstones := by
  intro x hx
  unfold Db.cleanTombstones at hx
  simp only [List.mem_filterMap] at hx
  obtain ⟨y, hy, hxy⟩ := hx
  have : x.mint = y.mint ∧ x.maxt = y.maxt := by
    split at hxy
    · simp only [Option.some.injEq] at hxy; subst hxy; exact ⟨rfl, rfl⟩
    · split at hxy
      · simp at hxy
      · simp only [Option.some.injEq] at hxy; subst hxy; exact ⟨rfl, rfl⟩
  rw [this.1, this.2]
  exact ha y hy

theorem compactHeadOnce_aligned (d : Db) (ha : Aligned d) : Aligned d.compactHeadOnce := by
  have hblk : ∀ x ∈ d.compactHeadOnce.blocks, x ∈ d.blocks ∨ x.maxt = rangeForTimestamp x.mint d.cfg.chunkRange := by
    unfold Db.compactHeadOnce
    simp only []
    intro x hx
    repeat' split at hx
    all_goals
      first
      | exact Or.inl hx
      | (simp only [List.mem_append, List.mem_singleton] at hx
         rcases hx with hx | rfl
         · exact Or.inl hx
         · exact Or.inr rfl)
  have hcfg : d.compactHeadOnce.cfg = d.cfg := by
    unfold Db.compactHeadOnce
    simp only []
    repeat' split
    all_goals rfl
  intro x hx
  rw [hcfg]
  rcases hblk x hx with h | h
  · exact ha x h
  · exact h

theorem compact_aligned (d : Db) (ha : Aligned d) : Aligned d.compact := by
  unfold Db.compact
  generalize 64 = fuel
  induction fuel generalizing d with
  | zero => exact ha
  | succ n ih =>
    simp only [Db.compact.go]
    split
    · exact ih _ (compactHeadOnce_aligned d ha)
    · exact ha

theorem reopen_sameDisk (d : Db) : SameDisk d.reopen d := by
  rw [Db.reopen_eq_initHead]
  refine ⟨?_, ?_⟩
  · rw [initHead_blocks _ _ (rwBase_series d), rwBase_blocks]
  · obtain ⟨h, lo, hi, e, _, _, _⟩ := initHead_spec d.rwBase d.rwCut
    have key := fold_runInv d.rwBase d.rwCut (rwBase_series d)
    rw [e] at key
    have hc : d.rwBase.cfg = d.cfg := by unfold Db.rwBase; split <;> rfl
    have : (initHead d.rwBase d.rwCut).cfg = h.cfg := by
      unfold initHead; rw [e]; simp only []; (repeat' split) <;> rfl
    rw [this, key.1.2.2.2.2.1, hc]

theorem delete_cfg (d : Db) (a b : Int) (sel : Option Nat) : (d.delete a b sel).cfg = d.cfg := by
  unfold Db.delete; simp only []; split <;> rfl

theorem compactHeadOnce_cfg (d : Db) : d.compactHeadOnce.cfg = d.cfg := by
  unfold Db.compactHeadOnce
  simp only []
  repeat' split
  all_goals rfl

theorem compact_cfg (d : Db) : d.compact.cfg = d.cfg := by
  unfold Db.compact
  generalize 64 = fuel
  induction fuel generalizing d with
  | zero => rfl
  | succ n ih =>
    simp only [Db.compact.go]
    split
    · rw [ih, compactHeadOnce_cfg]
    · rfl

/-- `Aligned` together with the (constant) configuration. -/
def AlignedC (c : Cfg) (d : Db) : Prop := d.cfg = c ∧ Aligned d

theorem alignedC_of_sameDisk (c : Cfg) (d' d : Db) (h : SameDisk d' d) (ha : AlignedC c d) : AlignedC c d' :=
  ⟨h.2.trans ha.1, aligned_of_sameDisk d' d h ha.2⟩

theorem step_aligned (c : Cfg) (d : Db) (op : Op) (ha : AlignedC c d) : AlignedC c (d.step op).1 := by
  cases op with
  | begin => exact alignedC_of_sameDisk c _ _ (begin_sameDisk d) ha
  | app s t v => exact alignedC_of_sameDisk c _ _ (append_sameDisk d s t v) ha
  | commit => exact alignedC_of_sameDisk c _ _ (commit_sameDisk d) ha
  | rollback => exact alignedC_of_sameDisk c _ _ (rollback_sameDisk d) ha
  | del a b sel => exact ⟨(delete_cfg d a b sel).trans ha.1, delete_aligned d a b sel ha.2⟩
  | compact => exact ⟨(compact_cfg d).trans ha.1, compact_aligned d ha.2⟩
  | cleantomb => exact ⟨ha.1, cleanTombstones_aligned d ha.2⟩
  | reopen =>
    have := reopen_sameDisk d
    exact alignedC_of_sameDisk c _ d ⟨this.1, this.2⟩ ha
  | q a b => exact ha
  | win => exact ha

theorem xstep_aligned (c : Cfg) (d : Db) (op : XOp) (ha : AlignedC c d) : AlignedC c (d.xstep op).1 := by
  have hre : AlignedC c ({ d.closeState.reopen with app := none } : Db) := by
    have := reopen_sameDisk d.closeState
    exact alignedC_of_sameDisk c _ d ⟨this.1, this.2⟩ ha
  cases op with
  | base op => exact step_aligned c d op ha
  | roq a b clean => simp only [Db.xstep]; split <;> assumption
  | rofl clean => simp only [Db.xstep]; split <;> assumption

theorem xafter_aligned (c : Cfg) (d : Db) (ops : List XOp) (ha : AlignedC c d) : AlignedC c (d.xafter ops) := by
  induction ops generalizing d with
  | nil => exact ha
  | cons op ops ih => exact ih _ (xstep_aligned c d op ha)

end Prom.Db
