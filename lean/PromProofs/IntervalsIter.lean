import PromProofs.Intervals
/-
  Helper lemmas for C20: `DeletedIterator` (Next/Seek) returns exactly the samples not covered by
  the deletion intervals; `Interval.IsSubrange` on canonical sets; the decidable coverage-of-a-range
  predicate used by the judge.
-/
namespace Prom.Intervals

theorem inBounds_iff (tr : Interval) (t : Int) : tr.inBounds t = true ↔ tr.mint ≤ t ∧ t ≤ tr.maxt := by
  simp [Interval.inBounds]

theorem coversB_cons (x : Interval) (xs : Intervals) (t : Int) :
    coversB (x :: xs) t = (x.inBounds t || coversB xs t) := by
  simp [coversB, Interval.inBounds]

theorem coversB_eq_of_iff {xs ys : Intervals} {t : Int} (h : covers xs t ↔ covers ys t) :
    coversB xs t = coversB ys t := by
  rw [Bool.eq_iff_iff, coversB_iff, coversB_iff]; exact h

/-! ### DeletedIterator -/

theorem skipTo_spec (t : Int) : ∀ (ivs : Intervals), Canon ivs →
    (skipTo t ivs).1 = coversB ivs t ∧ Canon (skipTo t ivs).2 ∧
    ∀ t', t < t' → coversB (skipTo t ivs).2 t' = coversB ivs t'
  | [], _ => by simp [skipTo, coversB, canon_nil]
  | tr :: rest, hc => by
    obtain ⟨hv, hcr, hlt⟩ := canon_cons.mp hc
    unfold skipTo
    by_cases h1 : tr.inBounds t = true
    · rw [if_pos h1]
      exact ⟨by simp [coversB_cons, h1], hc, fun _ _ => rfl⟩
    · rw [if_neg h1]
      have h1' : ¬ (tr.mint ≤ t ∧ t ≤ tr.maxt) := fun h => h1 ((inBounds_iff tr t).mpr h)
      by_cases h2 : t ≤ tr.maxt
      · rw [if_pos h2]
        refine ⟨?_, hc, fun _ _ => rfl⟩
        have hnc : ¬ covers (tr :: rest) t := by
          rw [covers_cons]
          rintro (h | ⟨y, hy, h3, h4⟩)
          · exact h1' h
          · have := hlt y hy; omega
        have : coversB (tr :: rest) t = false := by
          cases hb : coversB (tr :: rest) t with
          | false => rfl
          | true => exact absurd ((coversB_iff _ _).mp hb) hnc
        simp [this]
      · rw [if_neg h2]
        obtain ⟨i1, i2, i3⟩ := skipTo_spec t rest hcr
        have hb : ∀ t', t ≤ t' → tr.inBounds t' = false := by
          intro t' ht'
          cases hq : tr.inBounds t' with
          | false => rfl
          | true => have := (inBounds_iff tr t').mp hq; omega
        refine ⟨?_, i2, ?_⟩
        · rw [i1, coversB_cons, hb t (Int.le_refl _)]; simp
        · intro t' ht'
          rw [i3 t' ht', coversB_cons, hb t' (by omega)]; simp

theorem seekSkip_eq_skipTo (t : Int) : ∀ (ivs : Intervals), (∀ x ∈ ivs, x.mint ≤ x.maxt) →
    seekSkip t ivs = skipTo t ivs
  | [], _ => rfl
  | itv :: rest, hv => by
    have hi := hv itv List.mem_cons_self
    have ih := seekSkip_eq_skipTo t rest (fun x hx => hv x (List.mem_cons_of_mem _ hx))
    unfold seekSkip skipTo
    by_cases h1 : t < itv.mint
    · rw [if_pos h1]
      have : itv.inBounds t = false := by
        cases hq : itv.inBounds t with
        | false => rfl
        | true => have := (inBounds_iff itv t).mp hq; omega
      rw [this]; simp only [Bool.false_eq_true, if_false]
      rw [if_pos (by omega)]
    · rw [if_neg h1]
      by_cases h2 : t > itv.maxt
      · rw [if_pos h2]
        have : itv.inBounds t = false := by
          cases hq : itv.inBounds t with
          | false => rfl
          | true => have := (inBounds_iff itv t).mp hq; omega
        rw [this]; simp only [Bool.false_eq_true, if_false]
        rw [if_neg (by omega)]; exact ih
      · rw [if_neg h2]
        have : itv.inBounds t = true := (inBounds_iff itv t).mpr ⟨by omega, by omega⟩
        rw [this]; simp

/-- Draining a `DeletedIterator` with `Next()` returns exactly the samples that are not covered. -/
theorem drain_eq_filter : ∀ (ts : List Int) (ivs : Intervals), ts.Pairwise (· < ·) → Canon ivs →
    drain ts ivs = ts.filter (fun t => !coversB ivs t)
  | [], _, _, _ => rfl
  | t :: r, ivs, hs, hc => by
    obtain ⟨h1, h2, h3⟩ := skipTo_spec t ivs hc
    obtain ⟨hlt, hs'⟩ := List.pairwise_cons.mp hs
    have ih := drain_eq_filter r (skipTo t ivs).2 hs' h2
    have hcongr : r.filter (fun t' => !coversB (skipTo t ivs).2 t') = r.filter (fun t' => !coversB ivs t') := by
      apply List.filter_congr
      intro x hx
      rw [h3 x (hlt x hx)]
    unfold drain
    cases hsk : skipTo t ivs with
    | mk d ivs' =>
      rw [hsk] at h1 ih hcongr
      simp only at h1 ih hcongr
      cases d with
      | true =>
        simp only
        rw [ih, hcongr, List.filter_cons, ← h1]; simp
      | false =>
        simp only
        rw [ih, hcongr, List.filter_cons, ← h1]; simp

theorem dropWhile_lt_sorted (s : Int) : ∀ (ts : List Int), ts.Pairwise (· < ·) →
    ts.dropWhile (fun t => decide (t < s)) = ts.filter (fun t => decide (s ≤ t))
  | [], _ => rfl
  | t :: r, hs => by
    obtain ⟨hlt, hs'⟩ := List.pairwise_cons.mp hs
    by_cases h : t < s
    · rw [List.dropWhile_cons_of_pos (by simpa using h), List.filter_cons_of_neg (by simpa using h)]
      exact dropWhile_lt_sorted s r hs'
    · rw [List.dropWhile_cons_of_neg (by simpa using h), List.filter_cons_of_pos (by simp; omega)]
      congr 1
      symm
      rw [List.filter_eq_self]
      intro x hx
      have := hlt x hx
      simp; omega

/-- `Seek(s)` then draining returns exactly the samples `≥ s` that are not covered. -/
theorem seekDrain_eq_filter (s : Int) (ts : List Int) (ivs : Intervals)
    (hs : ts.Pairwise (· < ·)) (hc : Canon ivs) :
    seekDrain s ts ivs = ts.filter (fun t => decide (s ≤ t) && !coversB ivs t) := by
  have hd : seekDrain s ts ivs = drain (ts.dropWhile (fun t => decide (t < s))) ivs := by
    unfold seekDrain
    cases hq : ts.dropWhile (fun t => decide (t < s)) with
    | nil => rfl
    | cons t r => simp only; rw [seekSkip_eq_skipTo t ivs hc.valid]; rfl
  rw [hd, dropWhile_lt_sorted s ts hs, drain_eq_filter _ _ (hs.sublist List.filter_sublist) hc,
    List.filter_filter]
  apply List.filter_congr
  intro x _
  exact Bool.and_comm _ _

/-! ### IsSubrange -/

theorem pairwise_mem_cases {α} {R : α → α → Prop} : ∀ {l : List α}, l.Pairwise R → ∀ x ∈ l, ∀ y ∈ l,
    x = y ∨ R x y ∨ R y x
  | [], _, x, hx, _, _ => by simp at hx
  | a :: l, h, x, hx, y, hy => by
    obtain ⟨h1, h2⟩ := List.pairwise_cons.mp h
    rcases List.mem_cons.mp hx with hxa | hx' <;> rcases List.mem_cons.mp hy with hya | hy'
    · exact Or.inl (hxa.trans hya.symm)
    · exact Or.inr (Or.inl (hxa ▸ h1 y hy'))
    · exact Or.inr (Or.inr (hya ▸ h1 x hx'))
    · exact pairwise_mem_cases h2 x hx' y hy'

/-- On a canonical set, `IsSubrange` holds iff every timestamp of the (valid) range is covered. -/
theorem isSubrange_iff (tr : Interval) (dr : Intervals) (hc : Canon dr) (hv : tr.mint ≤ tr.maxt) :
    tr.isSubrange dr = true ↔ ∀ t, tr.mint ≤ t → t ≤ tr.maxt → covers dr t := by
  unfold Interval.isSubrange
  simp only [List.any_eq_true, Bool.and_eq_true, inBounds_iff]
  constructor
  · rintro ⟨r, hr, ⟨h1, _⟩, ⟨_, h4⟩⟩ t ht1 ht2
    exact ⟨r, hr, by omega, by omega⟩
  · intro h
    obtain ⟨r, hr, hr1, hr2⟩ := h tr.mint (Int.le_refl _) hv
    refine ⟨r, hr, ⟨hr1, hr2⟩, by omega, ?_⟩
    by_cases hle : tr.maxt ≤ r.maxt
    · exact hle
    · exfalso
      obtain ⟨r', hr', h1, h2⟩ := h (r.maxt + 1) (by omega) (by omega)
      have hrv := hc.valid r hr
      rcases pairwise_mem_cases hc.pw r hr r' hr' with rfl | h3 | h3 <;> omega

theorem rangeCoveredB_iff (xs : Intervals) (a b : Int) :
    rangeCoveredB xs a b = true ↔ ∀ t, a ≤ t → t ≤ b → covers xs t := by
  unfold rangeCoveredB
  simp only [List.all_eq_true, List.mem_cons, List.mem_map, Bool.or_eq_true, Bool.not_eq_true',
    Bool.and_eq_false_iff, decide_eq_false_iff_not, coversB_iff]
  constructor
  · intro h
    have key : ∀ d : Nat, a + d ≤ b → covers xs (a + d) := by
      intro d
      induction d with
      | zero =>
        intro hd
        rcases h a (Or.inl rfl) with (h1 | h1) | h1
        · omega
        · simp at hd; omega
        · simpa using h1
      | succ d ih =>
        intro hd
        obtain ⟨x, hx, h1, h2⟩ := ih (by omega)
        by_cases hq : a + ((d : Nat) + 1 : Nat) ≤ x.maxt
        · exact ⟨x, hx, by omega, hq⟩
        · rcases h (x.maxt + 1) (Or.inr ⟨x, hx, rfl⟩) with (h3 | h3) | h3
          · omega
          · omega
          · have : x.maxt + 1 = a + ((d + 1 : Nat) : Int) := by omega
            rw [← this]; exact h3
    intro t h1 h2
    have := key (t - a).toNat (by omega)
    have e : a + ((t - a).toNat : Int) = t := by omega
    rw [e] at this; exact this
  · intro h t _
    by_cases h1 : a ≤ t
    · by_cases h2 : t ≤ b
      · exact Or.inr (h t h1 h2)
      · exact Or.inl (Or.inr h2)
    · exact Or.inl (Or.inl h1)

end Prom.Intervals
