import PromProofs.CompactionSteps
/-
  Invariants of the compaction protocol (C06), part 4: the whole invariant, its preservation by `step`
  and `run`, and its validity in initial states.
-/
namespace Prom.CompactionProtocol

def Inv (σ : State) : Prop :=
  GInv σ ∧ ∀ r ∈ σ.readers, RInvB σ r ∧ RInvH σ r ∧ RInvO σ r

theorem ginv_readers (σ : State) (rs : List Reader) (h : GInv σ) : GInv { σ with readers := rs } :=
  ⟨h.g0, h.g1, h.g2, h.g3, h.g4, h.gw, h.g5, h.gp, h.gf⟩

theorem rinvB_readers (σ : State) (rs : List Reader) (r : Reader) (h : RInvB σ r) :
    RInvB { σ with readers := rs } r := ⟨h.l, h.br, h.brw⟩

theorem rinvH_readers (σ : State) (rs : List Reader) (r : Reader) (h : RInvH σ r) :
    RInvH { σ with readers := rs } r := ⟨h.ri2, h.regE, h.regR, h.sf, h.hd, h.d, h.w⟩

theorem rinvO_readers (σ : State) (rs : List Reader) (r : Reader) (h : RInvO σ r) :
    RInvO { σ with readers := rs } r := ⟨h.oa, h.ob, h.oc, h.oc0, h.od, h.ow⟩

/-- A freshly spawned (idle) reader satisfies its invariants in any state. -/
theorem fresh_reader (σ : State) (lo hi : Int) :
    RInvB σ { lo := lo, hi := hi } ∧ RInvH σ { lo := lo, hi := hi } ∧ RInvO σ { lo := lo, hi := hi } := by
  refine ⟨⟨?_, ?_, ?_⟩, ⟨?_, ?_, ?_, ?_, ?_, ?_, ?_⟩, ⟨?_, ?_, ?_, ?_, ?_, ?_⟩⟩ <;>
    simp [Reader.holdsLock, Reader.isOpen]

theorem step_inv (σ σ' : State) (a : Act) (hi : Inv σ) (h : step σ a = some σ') : Inv σ' := by
  obtain ⟨hg, hr⟩ := hi
  cases a with
  | spawn lo hi =>
    simp only [step, Option.some.injEq] at h
    subst h
    refine ⟨ginv_readers σ _ hg, ?_⟩
    intro r hm
    simp only [List.mem_append, List.mem_singleton] at hm
    rcases hm with hm | rfl
    · obtain ⟨b, hh, ho⟩ := hr r hm
      exact ⟨rinvB_readers σ _ r b, rinvH_readers σ _ r hh, rinvO_readers σ _ r ho⟩
    · obtain ⟨b, hh, ho⟩ := fresh_reader σ lo hi
      exact ⟨rinvB_readers σ _ _ b, rinvH_readers σ _ _ hh, rinvO_readers σ _ _ ho⟩
  | reader i ra =>
    simp only [step] at h
    split at h
    · rename_i r hget
      cases hrs : rstep σ r ra with
      | none => simp [hrs] at h
      | some r' =>
        simp only [hrs, Option.map_some, Option.some.injEq] at h
        subst h
        have hm : r ∈ σ.readers := List.mem_of_getElem? hget
        obtain ⟨b, hh, ho⟩ := hr r hm
        have b' := rstep_rinvB σ r r' ra hg b hrs
        have hh' := rstep_rinvH σ r r' ra hg b b' hh hrs
        have ho' := rstep_rinvO σ r r' ra hg b b' ho hrs
        refine ⟨ginv_readers σ _ hg, ?_⟩
        intro x hx
        rcases List.mem_or_eq_of_mem_set hx with hx | rfl
        · obtain ⟨b, hh, ho⟩ := hr x hx
          exact ⟨rinvB_readers σ _ x b, rinvH_readers σ _ x hh, rinvO_readers σ _ x ho⟩
        · exact ⟨rinvB_readers σ _ _ b', rinvH_readers σ _ _ hh', rinvO_readers σ _ _ ho'⟩
    · simp at h
  | maint ma =>
    simp only [step] at h
    have hrd := mstep_readers σ σ' ma h
    refine ⟨mstep_ginv σ σ' ma hg h, ?_⟩
    intro r hm
    rw [hrd] at hm
    obtain ⟨b, hh, ho⟩ := hr r hm
    exact ⟨mstep_rinvB σ σ' ma r hg hm b h, mstep_rinvH σ σ' ma r hg hm b hh h, mstep_rinvO σ σ' ma r hg hm b ho h⟩

theorem run_inv (σ σ' : State) (acts : List Act) (hi : Inv σ) (h : run σ acts = some σ') : Inv σ' := by
  induction acts generalizing σ with
  | nil => simp only [run, Option.some.injEq] at h; subst h; exact hi
  | cons a rest ih =>
    simp only [run] at h
    split at h
    · rename_i σ1 hs
      exact ih σ1 (step_inv σ σ1 a hi hs) h
    · simp at h

theorem init_inv (data : List Sample) (headMin oooLo oooHi : Int)
    (hok : initOk data headMin oooLo oooHi = true) : Inv (initState data headMin oooLo oooHi) := by
  simp only [initOk, List.all_eq_true] at hok
  refine ⟨⟨?_, ?_, ?_, ?_, ?_, ?_, ?_, ?_, ?_⟩, ?_⟩
  · simp [initState]
  · intro s hs ho _ ht
    have := hok s hs
    simp [ho] at this
    simp [initState, cov] at ht
    omega
  · intro s hs ho _ ht
    have := hok s hs
    simp [ho] at this
    simp [initState, ocov] at ht
    omega
  · intro s hs ho _
    have := hok s hs
    simp [ho] at this
    simp [initState]
    omega
  · simp [initState]
  · simp [initState]
  · simp [initState]
  · simp [initState, pendingOk]
  · simp [initState, flagOk]
  · simp [initState]

theorem step_data (σ σ' : State) (a : Act) (h : step σ a = some σ') : σ'.data = σ.data := by
  cases a with
  | spawn lo hi => simp only [step, Option.some.injEq] at h; subst h; rfl
  | reader i ra =>
    simp only [step] at h
    split at h
    · rename_i r hget
      cases hrs : rstep σ r ra with
      | none => simp [hrs] at h
      | some r' => simp only [hrs, Option.map_some, Option.some.injEq] at h; subst h; rfl
    · simp at h
  | maint ma => exact mstep_data σ σ' ma h

theorem run_data (σ σ' : State) (acts : List Act) (h : run σ acts = some σ') : σ'.data = σ.data := by
  induction acts generalizing σ with
  | nil => simp only [run, Option.some.injEq] at h; subst h; rfl
  | cons a rest ih =>
    simp only [run] at h
    split at h
    · rename_i σ1 hs
      rw [ih σ1 h, step_data σ σ1 a hs]
    · simp at h

/-- `eraseDups` has no duplicates. -/
theorem nodup_eraseDups (l : List Sample) : l.eraseDups.Nodup := by
  generalize hn : l.length = n
  induction n using Nat.strongRecOn generalizing l with
  | _ n ih =>
    cases l with
    | nil => simp
    | cons a as =>
      rw [List.eraseDups_cons]
      refine List.nodup_cons.mpr ⟨?_, ?_⟩
      · intro hmem
        have := List.mem_eraseDups.mp hmem
        simp at this
      · have hlen : (as.filter fun b => !b == a).length < n := by
          have := List.length_filter_le (fun b => !b == a) as
          simp at hn; omega
        exact ih _ hlen _ rfl

end Prom.CompactionProtocol
