import PromModel.Suites.LimitRatioSuite
/-
  Helper lemmas for C34 (core Lean only): sign preservation of the binary64 rounding model.
-/
namespace Prom.C34
open Prom.LimitRatio

theorem div_nonneg_of_pos (a b : Rat) (ha : 0 ≤ a) (hb : 0 < b) : 0 ≤ a / b := by
  have := Rat.div_lt_iff (a := a) (c := 0) hb
  grind

theorem rneMag_nonneg (a : Rat) : 0 ≤ rneMag a := by
  unfold rneMag
  apply div_nonneg_of_pos _ _ Rat.natCast_nonneg
  have : ((0 : Nat) : Rat) < ((U : Nat) : Rat) := Rat.natCast_lt_natCast.mpr (Nat.two_pow_pos _)
  exact this

/-- Rounding preserves the sign (weakly). -/
theorem rne53_nonpos (x : Rat) (hx : x ≤ 0) : rne53 x ≤ 0 := by
  unfold rne53
  split
  · have := rneMag_nonneg (-x); grind
  · have : x = 0 := by grind
    subst this
    decide +kernel

theorem rne53_one : rne53 1 = 1 := by decide +kernel

end Prom.C34
