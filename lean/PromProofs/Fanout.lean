import PromModel.Remote.Fanout
/-! Helper lemmas for property C54 (core Lean only). -/
namespace Prom.Fanout

/-! ### `insertK` / `unionK`: sorted de-duplicating union -/

section union
variable {α : Type} (key : α → Int) (comb : α → α → α)

theorem mem_keys_insertK (hk : ∀ a b, key (comb a b) = key a) (x : α) (l : List α) (k : Int) :
    k ∈ (insertK key comb x l).map key ↔ k = key x ∨ k ∈ l.map key := by
  induction l with
  | nil => simp [insertK]
  | cons y ys ih =>
    unfold insertK
    split
    · simp
    · split
      · rename_i h1 h2
        simp [hk, h2]
      · simp only [List.map_cons, List.mem_cons, ih]
        constructor
        · rintro (h | h | h) <;> simp [h]
        · rintro (h | h | h) <;> simp [h]

theorem sorted_insertK (hk : ∀ a b, key (comb a b) = key a) (x : α) (l : List α)
    (hs : (l.map key).Pairwise (· < ·)) : ((insertK key comb x l).map key).Pairwise (· < ·) := by
  induction l with
  | nil => simp [insertK]
  | cons y ys ih =>
    unfold insertK
    simp only [List.map_cons, List.pairwise_cons] at hs
    split
    · rename_i h1
      simp only [List.map_cons, List.pairwise_cons]
      refine ⟨?_, hs⟩
      intro a ha
      rcases List.mem_cons.1 ha with h | h
      · omega
      · have := hs.1 a h; omega
    · split
      · simp only [List.map_cons, List.pairwise_cons, hk]
        exact hs
      · rename_i h1 h2
        simp only [List.map_cons, List.pairwise_cons]
        refine ⟨?_, ih hs.2⟩
        intro a ha
        rcases (mem_keys_insertK key comb hk x ys a).1 ha with h | h
        · omega
        · exact hs.1 a h

theorem mem_keys_unionK (hk : ∀ a b, key (comb a b) = key a) (a b : List α) (k : Int) :
    k ∈ (unionK key comb a b).map key ↔ k ∈ a.map key ∨ k ∈ b.map key := by
  induction a with
  | nil => simp [unionK]
  | cons x xs ih =>
    have : unionK key comb (x :: xs) b = insertK key comb x (unionK key comb xs b) := rfl
    rw [this, mem_keys_insertK key comb hk, ih]
    simp only [List.map_cons, List.mem_cons]
    constructor
    · rintro (h | h | h) <;> simp [h]
    · rintro ((h | h) | h) <;> simp [h]

theorem sorted_unionK (hk : ∀ a b, key (comb a b) = key a) (a b : List α)
    (hs : (b.map key).Pairwise (· < ·)) : ((unionK key comb a b).map key).Pairwise (· < ·) := by
  induction a with
  | nil => simpa [unionK] using hs
  | cons x xs ih => exact sorted_insertK key comb hk x _ ih

/-- Elements of an insertion are old elements, the new element, or a combination of an old element
    with the new one (equal keys). -/
theorem mem_insertK (x : α) (l : List α) (z : α) (hz : z ∈ insertK key comb x l) :
    z = x ∨ z ∈ l ∨ ∃ y ∈ l, key x = key y ∧ z = comb y x := by
  induction l with
  | nil => simp [insertK] at hz; simp [hz]
  | cons y ys ih =>
    unfold insertK at hz
    split at hz
    · rcases List.mem_cons.1 hz with h | h
      · exact Or.inl h
      · exact Or.inr (Or.inl h)
    · split at hz
      · rename_i h2
        rcases List.mem_cons.1 hz with h | h
        · exact Or.inr (Or.inr ⟨y, by simp, h2, h⟩)
        · exact Or.inr (Or.inl (by simp [h]))
      · rcases List.mem_cons.1 hz with h | h
        · exact Or.inr (Or.inl (by simp [h]))
        · rcases ih h with h | h | ⟨w, hw, hk', hz'⟩
          · exact Or.inl h
          · exact Or.inr (Or.inl (by simp [h]))
          · exact Or.inr (Or.inr ⟨w, by simp [hw], hk', hz'⟩)

end union

/-! ### samples -/

theorem mergeSamples_ts (a b : List Sample) (t : Int) :
    t ∈ (mergeSamples a b).map (·.1) ↔ t ∈ a.map (·.1) ∨ t ∈ b.map (·.1) :=
  mem_keys_unionK (·.1) (fun old _ => old) (fun _ _ => rfl) a b t

theorem mergeSamples_sorted (a b : List Sample) (hb : (b.map (·.1)).Pairwise (· < ·)) :
    ((mergeSamples a b).map (·.1)).Pairwise (· < ·) :=
  sorted_unionK (·.1) (fun old _ => old) (fun _ _ => rfl) a b hb

/-- `ChainedSeriesMerge` invents no sample. -/
theorem mergeSamples_sub (a b : List Sample) (x : Sample) (hx : x ∈ mergeSamples a b) : x ∈ a ∨ x ∈ b := by
  induction a with
  | nil => exact Or.inr (by simpa [mergeSamples, unionK] using hx)
  | cons y ys ih =>
    have : mergeSamples (y :: ys) b = insertK (·.1) (fun old _ => old) y (mergeSamples ys b) := rfl
    rw [this] at hx
    rcases mem_insertK _ _ y _ x hx with h | h | ⟨w, hw, _, hz⟩
    · simp [h]
    · rcases ih h with h | h <;> simp [h]
    · subst hz; rcases ih hw with h | h <;> simp [h]

/-! ### series -/

theorem mergeSeries_lids (a b : List Series) (k : Int) :
    k ∈ (mergeSeries a b).map (fun s => (s.lid : Int)) ↔
      k ∈ a.map (fun s => (s.lid : Int)) ∨ k ∈ b.map (fun s => (s.lid : Int)) :=
  mem_keys_unionK _ combSeries (fun _ _ => rfl) a b k

theorem mergeSeries_sorted (a b : List Series) (hb : (b.map (fun s => (s.lid : Int))).Pairwise (· < ·)) :
    ((mergeSeries a b).map (fun s => (s.lid : Int))).Pairwise (· < ·) :=
  sorted_unionK _ combSeries (fun _ _ => rfl) a b hb

theorem mergeAll_lids (ls : List (List Series)) (k : Int) :
    k ∈ (mergeAll ls).map (fun s => (s.lid : Int)) ↔ ∃ l ∈ ls, k ∈ l.map (fun s => (s.lid : Int)) := by
  induction ls with
  | nil => simp [mergeAll]
  | cons l rest ih =>
    have : mergeAll (l :: rest) = mergeSeries l (mergeAll rest) := rfl
    rw [this, mergeSeries_lids, ih]
    simp

theorem mergeAll_sorted (ls : List (List Series)) :
    ((mergeAll ls).map (fun s => (s.lid : Int))).Pairwise (· < ·) := by
  induction ls with
  | nil => simp [mergeAll]
  | cons l rest ih => exact mergeSeries_sorted l _ ih

/-- Every sample of a merged series comes from an input series with the same label id, and the samples
    of every merged series are strictly ordered by timestamp if those of the inputs are. -/
def SamplesOK (l : List Series) : Prop := ∀ s ∈ l, (s.samples.map (·.1)).Pairwise (· < ·)

theorem mergeSeries_samples_from (a b : List Series) (s : Series) (hs : s ∈ mergeSeries a b)
    (x : Sample) (hx : x ∈ s.samples) : ∃ s' , (s' ∈ a ∨ s' ∈ b) ∧ s'.lid = s.lid ∧ x ∈ s'.samples := by
  induction a generalizing s with
  | nil => exact ⟨s, Or.inr (by simpa [mergeSeries, unionK] using hs), rfl, hx⟩
  | cons y ys ih =>
    have : mergeSeries (y :: ys) b = insertK (fun s => (s.lid : Int)) combSeries y (mergeSeries ys b) := rfl
    rw [this] at hs
    rcases mem_insertK _ _ y _ s hs with h | h | ⟨w, hw, hk, hz⟩
    · exact ⟨y, Or.inl (by simp), by rw [h], by rw [← h]; exact hx⟩
    · obtain ⟨s', h1, h2, h3⟩ := ih s h hx
      exact ⟨s', by rcases h1 with h1 | h1 <;> simp [h1], h2, h3⟩
    · subst hz
      simp only [combSeries] at hx
      rcases mergeSamples_sub _ _ x hx with h | h
      · exact ⟨y, Or.inl (by simp), by simp [combSeries]; omega, h⟩
      · obtain ⟨s', h1, h2, h3⟩ := ih w hw h
        exact ⟨s', by rcases h1 with h1 | h1 <;> simp [h1], by simp [combSeries, h2], h3⟩

theorem mergeAll_samples_from (ls : List (List Series)) (s : Series) (hs : s ∈ mergeAll ls)
    (x : Sample) (hx : x ∈ s.samples) : ∃ l ∈ ls, ∃ s' ∈ l, s'.lid = s.lid ∧ x ∈ s'.samples := by
  induction ls generalizing s with
  | nil => simp [mergeAll] at hs
  | cons l rest ih =>
    have : mergeAll (l :: rest) = mergeSeries l (mergeAll rest) := rfl
    rw [this] at hs
    obtain ⟨s', h1, h2, h3⟩ := mergeSeries_samples_from l _ s hs x hx
    rcases h1 with h1 | h1
    · exact ⟨l, by simp, s', h1, h2, h3⟩
    · obtain ⟨l', hl', s'', h4, h5, h6⟩ := ih s' h1 h3
      exact ⟨l', by simp [hl'], s'', h4, by omega, h6⟩

/-- Non-contributing (empty) sets do not change the merge. -/
theorem mergeAll_map_filter {β : Type} (f : β → List Series) (p : β → Bool) (l : List β)
    (h : ∀ s ∈ l, p s = false → f s = []) :
    mergeAll ((l.filter p).map f) = mergeAll (l.map f) := by
  induction l with
  | nil => rfl
  | cons x xs ih =>
    have ih' := ih (fun s hs => h s (by simp [hs]))
    by_cases hp : p x = true
    · have e1 : (x :: xs).filter p = x :: xs.filter p := by simp [hp]
      rw [e1]
      show mergeSeries (f x) (mergeAll _) = mergeSeries (f x) (mergeAll _)
      rw [ih']
    · have hp' : p x = false := by simpa using hp
      have e1 : (x :: xs).filter p = xs.filter p := by simp [hp']
      have : f x = [] := h x (by simp) hp'
      rw [e1, ih']
      show _ = mergeSeries (f x) (mergeAll _)
      rw [this]
      rfl

/-! ### secondaryQuerier probing -/

def SecQ.failed (s : SecQ) : Bool := s.sets.any (·.firstFails)

/-- The replacement states, once present, are the result of one probe of the current sets. -/
def SecQ.WF (s : SecQ) : Prop := s.lazy = none ∨ ∃ c, s.lazy = some (probeStates c s.sets)

theorem SecQ.probe_sets (s : SecQ) (c : Nat) : (s.probe c).sets = s.sets := by
  unfold SecQ.probe; split <;> rfl

theorem SecQ.probe_wf (s : SecQ) (c : Nat) (h : s.WF) : (s.probe c).WF := by
  unfold SecQ.probe
  split
  · exact h
  · exact Or.inr ⟨c, rfl⟩

theorem SecQ.probe_failed (s : SecQ) (c : Nat) : (s.probe c).failed = s.failed := by
  simp [SecQ.failed, SecQ.probe_sets]

theorem probeStates_failed_ne_real (c : Nat) (sets : List SetScript) (h : sets.any (·.firstFails) = true)
    (j : Nat) : (probeStates c sets)[j]? ≠ some LazySt.real := by
  simp only [probeStates, h, if_true]
  intro hc
  rw [List.getElem?_map] at hc
  cases hr : (List.range sets.length)[j]? with
  | none => simp [hr] at hc
  | some i =>
    simp only [hr, Option.map_some] at hc
    split at hc <;> simp at hc

theorem SecQ.failed_state_ne_real (s : SecQ) (hwf : s.WF) (hf : s.failed = true) (j : Nat) :
    s.state j ≠ some LazySt.real := by
  rcases hwf with h | ⟨c, h⟩
  · simp [SecQ.state, h]
  · simp only [SecQ.state, h, Option.bind_some]
    exact probeStates_failed_ne_real c s.sets hf j

theorem SecQ.failed_contrib (s : SecQ) (hwf : s.WF) (hf : s.failed = true) (j : Nat) :
    s.contrib j = [] ∧ s.errsAt j = false := by
  have := s.failed_state_ne_real hwf hf j
  simp [SecQ.contrib, SecQ.errsAt, this]

theorem probeStates_warn (c : Nat) (sets : List SetScript) (h : sets.any (·.firstFails) = true)
    (hc : c < sets.length) : (probeStates c sets)[c]? = some LazySt.warn := by
  simp [probeStates, h, hc]

theorem probeStates_healthy (c : Nat) (sets : List SetScript) (h : sets.any (·.firstFails) = false) (j : Nat) :
    (probeStates c sets)[j]? = sets[j]?.map fun s => if s.data.isEmpty then LazySt.quiet else LazySt.real := by
  simp [probeStates, h]

/-! ### probeAll -/

theorem probeAll_length (rs : List Nat) (j i : Nat) (secs : List SecQ) :
    (probeAll rs j i secs).length = secs.length := by
  induction secs generalizing i with
  | nil => rfl
  | cons s rest ih => simp [probeAll, ih]

theorem probeAll_getElem? (rs : List Nat) (j i : Nat) (secs : List SecQ) (p : Nat) :
    (probeAll rs j i secs)[p]? = secs[p]?.map fun s => if rs.contains (i + p) then s.probe j else s := by
  induction secs generalizing i p with
  | nil => simp [probeAll]
  | cons s rest ih =>
    cases p with
    | zero => simp [probeAll]
    | succ p =>
      simp only [probeAll, List.getElem?_cons_succ, ih]
      have : i + 1 + p = i + (p + 1) := by omega
      rw [this]

theorem probeAll_mem (rs : List Nat) (j i : Nat) (secs : List SecQ) (s' : SecQ)
    (h : s' ∈ probeAll rs j i secs) : ∃ s ∈ secs, s' = s ∨ s' = s.probe j := by
  induction secs generalizing i with
  | nil => simp [probeAll] at h
  | cons s rest ih =>
    simp only [probeAll, List.mem_cons] at h
    rcases h with h | h
    · refine ⟨s, by simp, ?_⟩
      split at h <;> simp [h]
    · obtain ⟨t, ht, hh⟩ := ih _ h
      exact ⟨t, by simp [ht], hh⟩

theorem probeAll_wf (rs : List Nat) (j i : Nat) (secs : List SecQ) (h : ∀ s ∈ secs, s.WF) :
    ∀ s ∈ probeAll rs j i secs, s.WF := by
  intro s' hs'
  obtain ⟨s, hs, hh⟩ := probeAll_mem rs j i secs s' hs'
  rcases hh with hh | hh
  · rw [hh]; exact h s hs
  · rw [hh]; exact s.probe_wf j (h s hs)

theorem warnIdx_nil (j i : Nat) (secs : List SecQ) (h : ∀ s ∈ secs, s.warnsAt j = false) :
    warnIdx j i secs = [] := by
  induction secs generalizing i with
  | nil => rfl
  | cons s rest ih =>
    simp only [warnIdx, h s (by simp)]
    simpa using ih (i + 1) (fun s hs => h s (by simp [hs]))

theorem mem_warnIdx (j i : Nat) (secs : List SecQ) (p : Nat) (s : SecQ) (hp : secs[p]? = some s)
    (hw : s.warnsAt j = true) : i + p ∈ warnIdx j i secs := by
  induction secs generalizing i p with
  | nil => simp at hp
  | cons x rest ih =>
    cases p with
    | zero =>
      simp at hp; subst hp
      simp [warnIdx, hw]
    | succ p =>
      simp only [List.getElem?_cons_succ] at hp
      have := ih (i + 1) p hp
      simp only [warnIdx, List.mem_append]
      right
      have e : i + 1 + p = i + (p + 1) := by omega
      rw [← e]; exact this

/-! ### commit / append loops -/

theorem commitSecs_after_error (e : Nat) (i : Nat) (secs : List Storage) (sas : List FakeApp)
    (hl : sas.length = secs.length) :
    commitSecs (some e) i secs sas = (some e, secs.map (fun _ => Call.rollback), secs.map (fun _ => [])) := by
  induction secs generalizing i sas with
  | nil => cases sas <;> simp_all [commitSecs]
  | cons st sts ih =>
    cases sas with
    | nil => simp at hl
    | cons a as =>
      simp only [commitSecs]
      rw [ih (i + 1) as (by simpa using hl)]
      rfl

theorem commitSecs_healthy (i : Nat) (secs : List Storage) (sas : List FakeApp)
    (hl : sas.length = secs.length) (hh : ∀ st ∈ secs, st.commitFails = false) :
    commitSecs none i secs sas = (none, secs.map (fun _ => Call.commit), sas.map (·.pending)) := by
  induction secs generalizing i sas with
  | nil => cases sas <;> simp_all [commitSecs]
  | cons st sts ih =>
    cases sas with
    | nil => simp at hl
    | cons a as =>
      have h1 : st.commitFails = false := hh st (by simp)
      have e := ih (i + 1) as (by simpa using hl) (fun s hs => hh s (by simp [hs]))
      simp [commitSecs, h1, e]

def pushRec (r : Rec) (a : FakeApp) : FakeApp := { n := a.n + 1, pending := a.pending ++ [r] }

theorem fakeAppend_healthy (idx : Nat) (st : Storage) (a : FakeApp) (ref : Nat) (r : Rec)
    (h : appFault st.faults = none) :
    fakeAppend idx st a ref r = (pushRec r a, if ref ≠ 0 then ref else 100 * (idx + 1) + r.lid, false) := by
  simp [fakeAppend, h, pushRec]

theorem appendSecs_healthy (ref : Nat) (r : Rec) (i : Nat) (secs : List Storage) (sas : List FakeApp)
    (hl : sas.length = secs.length) (hh : ∀ st ∈ secs, appFault st.faults = none) :
    appendSecs ref r i secs sas = (sas.map (pushRec r), none, sas.map fun _ => some ref) := by
  induction secs generalizing i sas with
  | nil => cases sas <;> simp_all [appendSecs]
  | cons st sts ih =>
    cases sas with
    | nil => simp at hl
    | cons a as =>
      have h1 := hh st (by simp)
      simp only [appendSecs, fakeAppend_healthy i st a ref r h1]
      rw [ih (i + 1) as (by simpa using hl) (fun s hs => hh s (by simp [hs]))]
      simp

end Prom.Fanout
