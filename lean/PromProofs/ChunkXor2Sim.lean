import PromProofs.ChunkXor2Lemmas
/-
  C10: encoder/decoder simulation for the XOR2 chunk with start timestamps.
-/
namespace Prom.ChunkXor2
open Prom.Bits Prom.Varbit Prom.ChunkXor

/-! ### int64 wrap-around -/

theorem wrapI_spec (x : Int) : ∃ k : Int, wrapI x = x + k * 18446744073709551616 ∧ I64 (wrapI x) := by
  refine ⟨-(x / 18446744073709551616) + (if (x % 18446744073709551616) < 9223372036854775808 then 0 else -1), ?_, ?_⟩
  · unfold wrapI toI toU two63 two64; split <;> split <;> omega
  · unfold wrapI toI toU I64 two63 two64; split <;> omega

theorem wrapI_I64 (x : Int) : I64 (wrapI x) := (wrapI_spec x).choose_spec.2

theorem st_rt {t st : Int} (hst : I64 st) : wrapI (t - wrapI (t - st)) = st := by
  obtain ⟨k1, e1, i1⟩ := wrapI_spec (t - st)
  obtain ⟨k2, e2, i2⟩ := wrapI_spec (t - wrapI (t - st))
  unfold I64 two63 at *
  omega

theorem sd_rt {a nsd : Int} (hn : I64 nsd) : wrapI (a + wrapI (nsd - a)) = nsd := by
  obtain ⟨k1, e1, i1⟩ := wrapI_spec (nsd - a)
  obtain ⟨k2, e2, i2⟩ := wrapI_spec (a + wrapI (nsd - a))
  unfold I64 two63 at *
  omega

/-! ### timestamp + value part -/

structure TVRel (a : App) (d : Dec) : Prop where
  win : WinRel a.leading a.trailing d.leading d.trailing
  base : a.v = d.base
  vlt : a.v < 2 ^ 64
  t : a.t = d.t
  ti : I64 a.t
  td : a.tDelta = d.tDelta
  tdlt : a.tDelta < 2 ^ 64

theorem dod_zero {td ptd : Nat} (h1 : td < 2 ^ 64) (h2 : ptd < 2 ^ 64)
    (h : toI ((td + two64 - ptd) % two64) = 0) : td = ptd := by
  unfold toI two63 two64 at h
  split at h <;> omega

theorem advT_eq {t pt : Int} (ht : I64 t) (hp : I64 pt) : advT pt (toU (t - pt)) = t := ts_step ht hp

theorem baseOf_self (v : Nat) : baseOf v v = v := by unfold baseOf; split <;> rfl

theorem decTV_dod (d : Dec) (k w td v b l tr : Nat) (bits body r1 r' : Bits)
    (hk : k = 2 ∨ k = 3 ∨ k = 4) (hw : w = (if k = 2 then 13 else if k = 3 then 20 else 64))
    (hp : readPrefix 5 bits = some (k, body)) (hr : readDod2 w d.tDelta body = some (td, r1))
    (hdv : decodeValue d.base d.leading d.trailing r1 = some (v, b, l, tr, r')) :
    decTV d bits = some (advT d.t td, v, b, td, l, tr, r') := by
  subst hw
  rcases hk with rfl | rfl | rfl <;> simp [decTV, hp] <;> simp at hr <;> simp [hr, hdv]

theorem decTV_encodeJoint (a : App) (d : Dec) (t : Int) (v : Nat) (rest : Bits)
    (h : TVRel a d) (ht : I64 t) (hv : v < 2 ^ 64) :
    ∃ dl' dt', decTV d ((encodeJoint a.v a.leading a.trailing
          (dodOf a t) v).1 ++ rest)
        = some (t, v, baseOf a.v v, toU (t - a.t), dl', dt', rest) ∧
      WinRel (encodeJoint a.v a.leading a.trailing (dodOf a t) v).2.1
        (encodeJoint a.v a.leading a.trailing (dodOf a t) v).2.2 dl' dt' := by
  obtain ⟨hw, hb, hvl, e1, i1, e2, i2⟩ := h
  unfold dodOf
  have hT : advT d.t (toU (t - a.t)) = t := by rw [← e1]; exact advT_eq ht i1
  have hlt : (toU (t - a.t) + two64 - a.tDelta) % two64 < 2 ^ 64 := Nat.mod_lt _ (by decide)
  have hTD : (d.tDelta + toU (toI ((toU (t - a.t) + two64 - a.tDelta) % two64))) % two64 = toU (t - a.t) := by
    rw [← e2]; exact td_step (toU_lt _) i2
  generalize hdod : toI ((toU (t - a.t) + two64 - a.tDelta) % two64) = dod at *
  unfold encodeJoint
  split
  · next hd0 =>
    have htd : toU (t - a.t) = a.tDelta := by
      subst hd0
      exact dod_zero (toU_lt _) i2 hdod
    rw [htd] at hT ⊢
    rw [e2] at hT ⊢
    split
    · next hs =>
      refine ⟨d.leading, d.trailing, ?_, hw⟩
      simp [decTV, readPrefix, hT, baseOf, hs, hb]
    · next hs =>
      split
      · next hz =>
        have := eq_of_xor_eq_zero hz
        refine ⟨d.leading, d.trailing, ?_, hw⟩
        simp [decTV, readPrefix, hT, this, baseOf_self, hb]
      · next hz =>
        obtain ⟨dl', dt', h1, h2⟩ := decodeValueNN_writeVDeltaNN a.v v a.leading a.trailing d.leading d.trailing
          rest hvl hv hz hs hw
        refine ⟨dl', dt', ?_, h2⟩
        rw [hb] at h1
        simp [decTV, readPrefix, hT, h1, hb]
  · next hd0 =>
    obtain ⟨k, w, hk, hw', body, hp, hr⟩ := dodBits2_read dod d.tDelta
      ((if v = a.v then [false] else (writeVDelta a.v a.leading a.trailing v).1) ++ rest)
    rw [hTD] at hr
    split
    · next hva =>
      refine ⟨d.leading, d.trailing, ?_, hw⟩
      simp only [hva, if_true] at hp hr
      have hdv : decodeValue d.base d.leading d.trailing ([false] ++ rest) = some (d.base, d.base, d.leading, d.trailing, rest) := rfl
      show decTV d ((dodBits2 dod ++ [false]) ++ rest) = _
      rw [List.append_assoc, decTV_dod d k w _ _ _ _ _ _ body _ _ hk hw' hp hr hdv, hT, hva, baseOf_self, hb]
    · next hva =>
      obtain ⟨dl', dt', h1, h2⟩ := decodeValue_writeVDelta a.v v a.leading a.trailing d.leading d.trailing
        rest hvl hv hw
      refine ⟨dl', dt', ?_, h2⟩
      simp only [hva, if_false] at hp hr
      have h1' : decodeValue d.base d.leading d.trailing ((writeVDelta a.v a.leading a.trailing v).1 ++ rest)
          = some (v, baseOf a.v v, dl', dt', rest) := by rw [← hb]; exact h1
      show decTV d ((dodBits2 dod ++ (writeVDelta a.v a.leading a.trailing v).1) ++ rest) = _
      rw [List.append_assoc, decTV_dod d k w _ _ _ _ _ _ body _ _ hk hw' hp hr h1', hT]

theorem decTV_tvBits (a : App) (d : Dec) (t : Int) (v : Nat) (rest : Bits)
    (h : TVRel a d) (ht : I64 t) (hv : v < 2 ^ 64) :
    ∃ dl' dt', decTV d ((tvBits a.v a.leading a.trailing
          (dodOf a t) v).1 ++ rest)
        = some (t, v, baseOf a.v v, toU (t - a.t), dl', dt', rest) ∧
      WinRel (tvBits a.v a.leading a.trailing (dodOf a t) v).2.1
        (tvBits a.v a.leading a.trailing (dodOf a t) v).2.2 dl' dt' := by
  have hj := decTV_encodeJoint a d t v rest h ht hv
  obtain ⟨hw, hb, hvl, e1, i1, e2, i2⟩ := h
  unfold dodOf at hj ⊢
  unfold tvBits
  split
  · next hc =>
    obtain ⟨hd0, hva⟩ := hc
    have htd : toU (t - a.t) = a.tDelta := dod_zero (toU_lt _) i2 hd0
    have hT : advT d.t d.tDelta = t := by rw [← e1, ← e2, ← htd]; exact advT_eq ht i1
    refine ⟨d.leading, d.trailing, ?_, hw⟩
    simp [decTV, readPrefix, hT, hva, baseOf_self, hb, htd, e2]
  · next hc =>
    split
    · next hc2 =>
      obtain ⟨hlo, hhi, hva⟩ := hc2
      have hd0 : toI ((toU (t - a.t) + two64 - a.tDelta) % two64) ≠ 0 := fun h0 => hc ⟨h0, hva⟩
      have : encodeJoint a.v a.leading a.trailing (toI ((toU (t - a.t) + two64 - a.tDelta) % two64)) v =
          (true :: true :: false :: (natToBits (toU (toI ((toU (t - a.t) + two64 - a.tDelta) % two64))) 13 ++ [false]),
            a.leading, a.trailing) := by
        simp [encodeJoint, hd0, hva, dodBits2, hlo, hhi]
      rw [this] at hj
      exact hj
    · exact hj

/-! ### sample-level simulation -/

/-- Appender `a` vs iterator `d` after `k` samples, for a chunk whose FINAL ST header is `(K, F)`. -/
structure StRel (K : Bool) (F k : Nat) (a : App) (d : Dec) : Prop where
  win : WinRel a.leading a.trailing d.leading d.trailing
  base : a.v = d.base ∧ a.v < 2 ^ 64
  ts : 1 ≤ k → a.t = d.t ∧ I64 a.t
  td : 2 ≤ k → a.tDelta = d.tDelta ∧ a.tDelta < 2 ^ 64
  st : a.st = d.st ∧ I64 a.st
  zero : k = 0 → a.known = false ∧ a.st = 0
  known : 1 ≤ k → a.known = K
  act : a.fsco ≠ 0 → a.fsco = F ∧ a.fsco < k ∧ a.stDiff = d.stDiff ∧ I64 a.stDiff
  pas : a.fsco = 0 → (F = 0 ∨ k ≤ F) ∧ k ≤ 127

/-- What the rest of the run guarantees about the state after the sample (the header is final). -/
def Post (K : Bool) (F k : Nat) (a' : App) : Prop :=
  (a'.fsco ≠ 0 → a'.fsco = F) ∧ (a'.fsco = 0 → F = 0 ∨ k ≤ F) ∧ a'.known = K

theorem step0 (K : Bool) (F : Nat) (a : App) (d : Dec) (st t : Int) (v : Nat) (rest : Bits)
    (hrel : StRel K F 0 a d) (hst : I64 st) (ht : I64 t) (hv : v < 2 ^ 64)
    (hpost : Post K F 1 (encSample 0 a st t v).2) :
    ∃ d', decSample K F 0 d ((encSample 0 a st t v).1 ++ rest) = some (d', rest) ∧
      StRel K F 1 (encSample 0 a st t v).2 d' ∧ d'.st = st ∧ d'.t = t ∧ d'.val = v := by
  obtain ⟨hw, ⟨hb, hbl⟩, _, _, ⟨hs, hsi⟩, hz, _, hact, hpas⟩ := hrel
  obtain ⟨hk0, hs0⟩ := hz rfl
  have hf0 : a.fsco = 0 := by
    by_cases h : a.fsco = 0
    · exact h
    · exact absurd (hact h).2.1 (by omega)
  obtain ⟨p1, p2, p3⟩ := hpost
  simp only [encSample, hk0, Bool.false_or] at p1 p2 p3
  by_cases hst0 : st = 0
  · -- no ST on the first sample
    have hK : K = false := by rw [← p3]; simp [hst0]
    refine ⟨{ d with t := t, val := v, base := baseOf d.base v }, ?_, ?_, ?_, rfl, rfl⟩
    · simp only [encSample, decSample, hst0, ne_eq, not_true_eq_false, if_false, List.append_nil,
        List.append_assoc, hK]
      rw [readVarint_put false t _ ht]
      simp only []
      rw [readBits_natToBits_lt rest hv]
      simp
    · simp only [encSample]
      exact ⟨hw, ⟨by rw [hb], baseOf_lt hbl hv⟩, fun _ => ⟨rfl, ht⟩, fun h => absurd h (by decide),
        ⟨by rw [hst0, ← hs, hs0], hst⟩, fun h => absurd h (by decide), fun _ => by simp only [hk0, Bool.false_or]; exact p3,
        fun h => absurd hf0 h, fun _ => ⟨by have := p2 hf0; omega, by decide⟩⟩
    · simp [← hs, hs0, hst0]
  · have hK : K = true := by rw [← p3]; simp [hst0]
    refine ⟨{ d with t := t, val := v, base := baseOf d.base v, st := st }, ?_, ?_, rfl, rfl, rfl⟩
    · simp only [encSample, decSample, hst0, ne_eq, not_false_eq_true, if_true, List.append_assoc, hK]
      rw [readVarint_put false t _ ht]
      simp only []
      rw [readBits_natToBits_lt _ hv]
      simp only []
      rw [readVarint_put false _ rest (wrapI_I64 _)]
      simp only [st_rt hst]
    · simp only [encSample]
      exact ⟨hw, ⟨by rw [hb], baseOf_lt hbl hv⟩, fun _ => ⟨rfl, ht⟩, fun h => absurd h (by decide),
        ⟨rfl, hst⟩, fun h => absurd h (by decide), fun _ => by simp only [hk0, Bool.false_or]; exact p3,
        fun h => absurd hf0 h, fun _ => ⟨by have := p2 hf0; omega, by decide⟩⟩

theorem step1 (K : Bool) (F : Nat) (a : App) (d : Dec) (st t : Int) (v : Nat) (rest : Bits)
    (hrel : StRel K F 1 a d) (hst : I64 st) (ht : I64 t) (hv : v < 2 ^ 64)
    (hpost : Post K F 2 (encSample 1 a st t v).2) :
    ∃ d', decSample K F 1 d ((encSample 1 a st t v).1 ++ rest) = some (d', rest) ∧
      StRel K F 2 (encSample 1 a st t v).2 d' ∧ d'.st = st ∧ d'.t = t ∧ d'.val = v := by
  obtain ⟨hw, ⟨hb, hbl⟩, hts, _, ⟨hs, hsi⟩, _, hkn, hact, hpas⟩ := hrel
  obtain ⟨e1, i1⟩ := hts (Nat.le_refl _)
  have hf0 : a.fsco = 0 := by
    by_cases h : a.fsco = 0
    · exact h
    · exact absurd (hact h).2.1 (by omega)
  obtain ⟨p1, p2, p3⟩ := hpost
  simp only [encSample] at p1 p2 p3
  have hT : advT d.t (toU (t - a.t)) = t := by rw [← e1]; exact advT_eq ht i1
  by_cases hchg : st = a.st
  · -- ST unchanged: nothing written, the header index is not 1
    have hF1 : F ≠ 1 := by
      have : (if decide (st ≠ a.st) = true then 1 else a.fsco) = 0 := by simp [hchg, hf0]
      have := p2 this
      omega
    obtain ⟨dl', dt', hx, hw'⟩ := decodeValue_writeVDelta a.v v a.leading a.trailing d.leading d.trailing
      rest hbl hv hw
    refine ⟨{ d with t := t, val := v, base := baseOf a.v v, tDelta := toU (t - a.t), leading := dl', trailing := dt' },
      ?_, ?_, ?_, rfl, rfl⟩
    · simp only [encSample, decSample, hchg, ne_eq, not_true_eq_false, decide_false, Bool.false_eq_true,
        if_false, List.append_nil, List.append_assoc, hF1]
      rw [readUvarint_put false _ _ (toU_lt _)]
      simp only []
      rw [← hb, hx, hT]
    · simp only [encSample, hchg, ne_eq, not_true_eq_false, decide_false, Bool.false_eq_true, if_false]
      exact ⟨hw', ⟨rfl, baseOf_lt hbl hv⟩, fun _ => ⟨rfl, ht⟩, fun _ => ⟨rfl, toU_lt _⟩, ⟨hs, hsi⟩,
        fun h => absurd h (by decide), fun _ => by simpa [hchg] using p3,
        fun h => absurd hf0 h, fun _ => ⟨by
          have : (if decide (st ≠ a.st) = true then 1 else a.fsco) = 0 := by simp [hchg, hf0]
          have := p2 this
          omega, by decide⟩⟩
    · simp [← hs, hchg]
  · have hF1 : F = 1 := by
      have : (if decide (st ≠ a.st) = true then 1 else a.fsco) ≠ 0 := by simp [hchg]
      have := p1 this
      simpa [hchg] using this.symm
    obtain ⟨dl', dt', hx, hw'⟩ := decodeValue_writeVDelta a.v v a.leading a.trailing d.leading d.trailing
      (putVarbitInt (wrapI (a.t - st)) ++ rest) hbl hv hw
    refine ⟨{ d with t := t, val := v, base := baseOf a.v v, tDelta := toU (t - a.t), leading := dl', trailing := dt',
                     stDiff := wrapI (a.t - st), st := st }, ?_, ?_, rfl, rfl, rfl⟩
    · simp only [encSample, decSample, hchg, ne_eq, not_false_eq_true, decide_true, if_true,
        List.append_assoc, hF1]
      rw [readUvarint_put false _ _ (toU_lt _)]
      simp only []
      rw [← hb, hx]
      simp only []
      rw [readVarbitInt_put _ rest (wrapI_I64 _), hT, ← e1]
      simp only [st_rt hst]
    · simp only [encSample, hchg, ne_eq, not_false_eq_true, decide_true, if_true]
      exact ⟨hw', ⟨rfl, baseOf_lt hbl hv⟩, fun _ => ⟨rfl, ht⟩, fun _ => ⟨rfl, toU_lt _⟩, ⟨rfl, hst⟩,
        fun h => absurd h (by decide), fun _ => by simpa [hchg] using p3,
        fun _ => ⟨hF1.symm, by show 1 < 2; decide, rfl, wrapI_I64 _⟩, fun h => absurd h (by show ¬ (1 = 0); decide)⟩

theorem decNext_of (F k : Nat) (d : Dec) (bits r1 : Bits) (t : Int) (v b td l tr : Nat)
    (h : decTV d bits = some (t, v, b, td, l, tr, r1)) :
    decNext F k d bits =
      decST F k d { d with t := t, val := v, base := b, tDelta := td, leading := l, trailing := tr } r1 := by
  simp only [decNext, h]

theorem decST_skip (F k : Nat) (d d1 : Dec) (r1 : Bits) (h : ¬ (F > 0 ∧ k ≥ F)) :
    decST F k d d1 r1 = some (d1, r1) := by
  simp only [decST, if_neg h]

theorem decST_read (F k : Nat) (d d1 : Dec) (r1 r2 : Bits) (sdod : Int) (h : F > 0 ∧ k ≥ F)
    (hr : readVarbitInt r1 = some (sdod, r2)) :
    decST F k d d1 r1 =
      some ({ d1 with stDiff := if k = F then sdod else wrapI (d.stDiff + sdod),
                      st := wrapI (d.t - (if k = F then sdod else wrapI (d.stDiff + sdod))) }, r2) := by
  simp only [decST, if_pos h, hr]

theorem slow_chg {k : Nat} {a : App} {st : Int}
    (hc : ¬ (a.fsco = 0 ∧ st = a.st ∧ k ≠ 127)) (hpos : ¬ a.fsco > 0) : st ≠ a.st ∨ k = 127 := by
  by_cases h1 : st = a.st
  · by_cases h2 : k = 127
    · exact Or.inr h2
    · exact absurd ⟨by omega, h1, h2⟩ hc
  · exact Or.inl h1

theorem encNext_fast (k : Nat) (a : App) (st t : Int) (v : Nat) (hc : a.fsco = 0 ∧ st = a.st ∧ k ≠ 127) :
    encNext k a st t v = encFast a t v := by
  unfold encNext
  rw [if_pos hc]

theorem encNext_active (k : Nat) (a : App) (st t : Int) (v : Nat)
    (hc : ¬ (a.fsco = 0 ∧ st = a.st ∧ k ≠ 127)) (hpos : a.fsco > 0) :
    encNext k a st t v = encActive a st t v := by
  unfold encNext
  rw [if_neg hc, if_pos hpos]

theorem encNext_slow (k : Nat) (a : App) (st t : Int) (v : Nat)
    (hc : ¬ (a.fsco = 0 ∧ st = a.st ∧ k ≠ 127)) (hpos : ¬ a.fsco > 0) :
    encNext k a st t v = encSlow k true a st t v := by
  unfold encNext
  rw [if_neg hc, if_neg hpos, decide_eq_true (slow_chg hc hpos)]


end Prom.ChunkXor2
