import PromModel.Promql.Parser
/-
  Property C26: the fragment of PromQL trees for which the print/parse round trip is proved, and the
  functions describing what the re-parse produces.
  * `rawVM`, `raw`  : the tree `parseExpr` builds from the printed text (before `checkAST`);
  * `norm`          : the tree `parse` returns (after `checkAST`): `e` with the matchers of every selector
                      in printed (sorted) order — equal to `e` up to matcher order;
  * `WT`            : the typing side conditions `checkAST` imposes on the fragment.
-/
namespace Prom.Promql

def vm0 : VM := ⟨0, false, [], [], none, none⟩

/-- the VectorMatching `parseBinModifier` builds from the printed modifiers of `vm` (no fill modifiers) -/
def rawVM : Option VM → VM
  | none => vm0
  | some m =>
    if m.card == 1 || m.card == 2 then ⟨m.card, m.on, m.labels, m.incl, none, none⟩
    else ⟨0, m.on, m.labels, [], none, none⟩

def insertM (x : Matcher) : List Matcher → List Matcher
  | [] => [x]
  | y :: ys => if bytesLt x.text y.text then x :: y :: ys else y :: insertM x ys

/-- matchers sorted by their printed text (the order in which the printer writes them) -/
def sortMs (xs : List Matcher) : List Matcher := xs.foldr insertM []

def nameMatcher (name : Bytes) : Matcher := ⟨.eq, metricNameB, name⟩

/-- the printed matchers of a selector (`__name__="<name>"` is hidden) -/
def keptMs (name : Bytes) (ms : List Matcher) : List Matcher :=
  ms.filter fun m => !(m.name == metricNameB && m.typ == .eq && m.value == name && !m.value.isEmpty)

/-- the matcher list of the re-parsed selector -/
def normMs (name : Bytes) (ms : List Matcher) : List Matcher :=
  if name.isEmpty then sortMs (keptMs name ms) else sortMs (keptMs name ms) ++ [nameMatcher name]

/-- the pre-`checkAST` tree the parser builds from the printed text of `e` -/
def raw : Expr → Expr
  | .vs name ms off offe atm ext => .vs name (normMs name ms) off offe atm ext
  | .mat sel r re => .mat (raw sel) r re
  | .bin op b vm l r => .bin op b (some (rawVM vm)) (raw l) (raw r)
  | .paren e => .paren (raw e)
  | .un neg e => .un neg (raw e)
  | e => e

/-- what `parse (print e)` returns: `e` with every selector's matchers in printed order -/
def norm : Expr → Expr
  | .vs name ms off offe atm ext => .vs name (normMs name ms) off offe atm ext
  | .mat sel r re => .mat (norm sel) r re
  | .bin op b vm l r => .bin op b vm (norm l) (norm r)
  | .paren e => .paren (norm e)
  | .un neg e => .un neg (norm e)
  | e => e

/-- the conditions `checkAST` puts on a selector's matcher list, as the parser builds it -/
def SelWT (name : Bytes) (ms : List Matcher) : Prop :=
  (name ≠ [] → ∃ ms0, ms = ms0 ++ [nameMatcher name] ∧ ∀ m ∈ ms0, m.name ≠ metricNameB) ∧
  (name = [] → ms.any (fun m => !matchesEmpty m) = true)

/-- the conditions `checkAST` puts on a binary node, and the VectorMatching it leaves behind -/
def binWT (op : BinOp) (b : Bool) (vm : Option VM) (lt rt : VT) : Bool :=
  (lt == .scalar || lt == .vector) && (rt == .scalar || rt == .vector) &&
  (!b || op.isComparison) && !(op.isComparison && !b && lt == .scalar && rt == .scalar) &&
  (if lt == .vector && rt == .vector then
     match vm with
     | none => false
     | some m =>
       m.fillL.isNone && m.fillR.isNone && !(m.on && m.labels.any (fun l => m.incl.contains l)) &&
       (if op.isSet then m.card == 3 && m.incl.isEmpty
        else (m.card == 0 && m.incl.isEmpty) || m.card == 1 || m.card == 2)
   else vm.isNone && !op.isSet)

inductive WT : Expr → Prop
  | num (v : F64Q.F64) (d : Bool) : WT (.num v d)
  | str (s : Bytes) : WT (.str s)
  | vs {name ms off offe atm ext} : SelWT name ms → WT (.vs name ms off offe atm ext)
  | mat {name ms off offe atm ext r re} : SelWT name ms → WT (.mat (.vs name ms off offe atm ext) r re)
  | paren {e} : WT e → WT (.paren e)
  | un {e} (neg : Bool) : WT e → (e.typ = .scalar ∨ e.typ = .vector) → WT (.un neg e)
  | bin {l r} (op : BinOp) (b : Bool) (vm : Option VM) : WT l → WT r → binWT op b vm l.typ r.typ = true →
      WT (.bin op b vm l r)

end Prom.Promql
