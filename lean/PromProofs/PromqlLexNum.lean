import PromProofs.PromqlDuration
import PromModel.Promql.Lexer

namespace Prom.Promql

theorem decDigits_eq : decDigits = [48, 49, 50, 51, 52, 53, 54, 55, 56, 57] := by
  have h : "0123456789".toByteArray = ⟨#[48, 49, 50, 51, 52, 53, 54, 55, 56, 57]⟩ := by rfl
  simp [decDigits, bs, String.toUTF8, h, ByteArray.toList, ByteArray.toList.loop, ByteArray.size, ByteArray.get!]

theorem bs_0dot : bs "0." = [48, 46] := by
  have h : "0.".toByteArray = ⟨#[48, 46]⟩ := by rfl
  simp [bs, String.toUTF8, h, ByteArray.toList, ByteArray.toList.loop, ByteArray.size, ByteArray.get!]

theorem inSet_decDigits (c : UInt8) : inSet decDigits c = isDigitB c := by
  rw [decDigits_eq, Bool.eq_iff_iff]
  simp [inSet, isDigitB, UInt8.le_iff_toNat_le, ← UInt8.toNat_inj]
  omega


/-- a byte that may follow the number: not alphanumeric and not `.` -/
def isDelimB (c : UInt8) : Prop := isAlnumB c = false ∧ c ≠ 46

theorem digit_facts (c : UInt8) (h : isDigitB c = true) :
    c ≠ 46 ∧ c ≠ 95 ∧ c ≠ 101 ∧ c ≠ 69 ∧ c ≠ 120 ∧ c ≠ 88 := by
  simp [isDigitB, UInt8.le_iff_toNat_le, ← UInt8.toNat_inj] at h ⊢
  omega

theorem delim_facts (c : UInt8) (h : isAlnumB c = false) :
    isDigitB c = false ∧ c ≠ 95 ∧ c ≠ 101 ∧ c ≠ 69 ∧ c ≠ 120 ∧ c ≠ 88 := by
  simp [isAlnumB, isAlphaB, isDigitB, UInt8.le_iff_toNat_le, ← UInt8.toNat_inj] at h ⊢
  omega

/-- the tail of `scanNumber` after the (absent) hex prefix -/
def scanTail (acc0 s0 : Bytes) : Bool × Bytes × Bytes :=
  let (acc1, s1) := match s0 with
    | 46 :: tl => ([46] ++ acc0, tl)
    | _ => (acc0, s0)
  let (acc2, s2) := match s1 with
    | c :: tl => if inSet decDigits c then (c :: acc1, tl) else (acc1, s1)
    | [] => (acc1, s1)
  let (ok, acc3, s3) := scanNumLoop false (s2.length + 1) false false acc2 s2
  if !ok then (false, acc3, s3)
  else if acc3.isEmpty then (false, acc3, s3)
  else match s3 with
    | c :: _ => if isAlnumB c then (false, acc3, s3) else (true, acc3, s3)
    | [] => (true, acc3, s3)

def scanPrefix (s : Bytes) : Bool × Bytes × Bytes :=
  match s with
  | 48 :: x :: tl =>
    if x == 120 || x == 88 then
      (match tl with
       | 95 :: tl' => (true, [95, x, 48], tl')
       | _ => (true, [x, 48], tl))
    else (false, [48], x :: tl)
  | 48 :: [] => (false, [48], [])
  | _ => (false, [], s)

def scanAfter (p : Bool × Bytes × Bytes) : Bool × Bytes × Bytes :=
  let (hex, acc0, s0) := p
  let digits := if hex then hexDigits else decDigits
  let (acc1, s1) := match s0 with
    | 46 :: tl => ([46] ++ acc0, tl)
    | _ => (acc0, s0)
  let (acc2, s2) := match s1 with
    | c :: tl => if inSet digits c then (c :: acc1, tl) else (acc1, s1)
    | [] => (acc1, s1)
  let (ok, acc3, s3) := scanNumLoop hex (s2.length + 1) false false acc2 s2
  if !ok then (false, acc3, s3)
  else if acc3.isEmpty then (false, acc3, s3)
  else match s3 with
    | c :: _ => if isAlnumB c then (false, acc3, s3) else (true, acc3, s3)
    | [] => (true, acc3, s3)

theorem scanNumber_eq (s : Bytes) : scanNumber s = scanAfter (scanPrefix s) := rfl

theorem scanAfter_false (acc0 s0 : Bytes) : scanAfter (false, acc0, s0) = scanTail acc0 s0 := rfl

theorem scanNumber_zero_nil : scanNumber [48] = scanTail [48] [] := rfl

theorem scanNumber_zero_cons (x : UInt8) (tl : Bytes) (h1 : x ≠ 120) (h2 : x ≠ 88) :
    scanNumber (48 :: x :: tl) = scanTail [48] (x :: tl) := by
  rw [scanNumber_eq, ← scanAfter_false]
  congr 1
  simp [scanPrefix, h1, h2]

theorem scanNumber_nonzero (d : UInt8) (tl : Bytes) (h : d ≠ 48) :
    scanNumber (d :: tl) = scanTail [] (d :: tl) := by
  rw [scanNumber_eq, ← scanAfter_false]
  congr 1
  unfold scanPrefix
  split
  · simp_all
  · simp_all
  · rfl

/-! ### the loop -/

theorem scanNumLoop_stop (n : Nat) (d e : Bool) (acc rest : Bytes)
    (hrest : ∀ c, rest.head? = some c → isAlnumB c = false ∧ c ≠ 46) :
    scanNumLoop false (n + 1) d e acc rest = (true, acc, rest) := by
  cases rest with
  | nil => simp [scanNumLoop]
  | cons c r =>
    obtain ⟨h1, h2⟩ := hrest c rfl
    obtain ⟨g1, g2, g3, g4, _, _⟩ := delim_facts c h1
    simp [scanNumLoop, inSet_decDigits, g1, g2, g3, g4, h2]

theorem inSet_decDigits_fun : inSet decDigits = isDigitB := funext inSet_decDigits

theorem scanNumLoop_run0 (n : Nat) (d e : Bool) (acc : Bytes) (c : UInt8) (tl : Bytes)
    (hc : isDigitB c = true) :
    scanNumLoop false (n + 1) d e acc (c :: tl) =
      scanNumLoop false n d e (((c :: tl).takeWhile isDigitB).reverse ++ acc)
        ((c :: tl).dropWhile isDigitB) := by
  obtain ⟨g1, g2, g3, g4, _, _⟩ := digit_facts c hc
  have b1 : (c == 46) = false := by simp [g1]
  have b2 : (c == 95) = false := by simp [g2]
  have b3 : (c == 101) = false := by simp [g3]
  have b4 : (c == 69) = false := by simp [g4]
  conv => lhs; unfold scanNumLoop
  simp only [inSet_decDigits_fun, hc, b1, b2, b3, b4, Bool.false_eq_true,
    if_false, Bool.true_or, Bool.not_true, Bool.false_and, Bool.or_self]

theorem scanNumLoop_run (n : Nat) (d e : Bool) (acc : Bytes) (c : UInt8) (ds r : Bytes)
    (hc : isDigitB c = true) (hds : ds.all isDigitB = true)
    (hr : ∀ x t', r = x :: t' → isDigitB x = false) :
    scanNumLoop false (n + 1) d e acc (c :: ds ++ r) =
      scanNumLoop false n d e ((c :: ds).reverse ++ acc) r := by
  have h := takeWhile_app (c :: ds) r (by simp [hc, hds]) hr
  rw [List.cons_append] at h ⊢
  rw [scanNumLoop_run0 n d e acc c _ hc, h.1, h.2]

theorem scanNumLoop_dot (n : Nat) (e : Bool) (acc : Bytes) (f : UInt8) (r : Bytes)
    (hf : isDigitB f = true) :
    scanNumLoop false (n + 1) false e acc (46 :: f :: r) =
      scanNumLoop false n true e (46 :: acc) (f :: r) := by
  obtain ⟨g1, g2, g3, g4, _, _⟩ := digit_facts f hf
  conv => lhs; unfold scanNumLoop
  simp [g1, g2]

/-- what may follow the first digit: a digit run, optionally followed by `.` and a non-empty digit run -/
def DecBody (b : Bytes) : Prop :=
  b.all isDigitB = true ∨
    ∃ ds fp, ds.all isDigitB = true ∧ fp ≠ [] ∧ fp.all isDigitB = true ∧ b = ds ++ 46 :: fp

def Delim (rest : Bytes) : Prop := ∀ c, rest.head? = some c → isAlnumB c = false ∧ c ≠ 46

theorem Delim.notDigit {rest : Bytes} (h : Delim rest) : ∀ x t', rest = x :: t' → isDigitB x = false := by
  intro x t' hx
  subst hx
  exact (delim_facts x (h x rfl).1).1

theorem scanNumLoop_digits (fuel : Nat) (d e : Bool) (acc ds rest : Bytes)
    (hds : ds.all isDigitB = true) (hrest : Delim rest) (hf : ds.length + 1 ≤ fuel) :
    scanNumLoop false fuel d e acc (ds ++ rest) = (true, ds.reverse ++ acc, rest) := by
  cases ds with
  | nil =>
    obtain ⟨n, rfl⟩ : ∃ n, fuel = n + 1 := ⟨fuel - 1, by simp at hf; omega⟩
    simpa using scanNumLoop_stop n d e acc rest hrest
  | cons c ds =>
    obtain ⟨n, rfl⟩ : ∃ n, fuel = n + 2 := ⟨fuel - 2, by simp at hf; omega⟩
    simp only [List.all_cons, Bool.and_eq_true] at hds
    rw [scanNumLoop_run (n + 1) d e acc c ds rest hds.1 hds.2 hrest.notDigit,
      scanNumLoop_stop n d e _ rest hrest]

theorem scanNumLoop_body (fuel : Nat) (e : Bool) (acc b rest : Bytes)
    (hb : DecBody b) (hrest : Delim rest) (hf : b.length + 1 ≤ fuel) :
    scanNumLoop false fuel false e acc (b ++ rest) = (true, b.reverse ++ acc, rest) := by
  rcases hb with hb | ⟨ds, fp, hds, hne, hfp, rfl⟩
  · exact scanNumLoop_digits fuel false e acc b rest hb hrest hf
  · cases fp with
    | nil => exact absurd rfl hne
    | cons f fp =>
      simp only [List.all_cons, Bool.and_eq_true] at hfp
      simp only [List.length_append, List.length_cons] at hf
      have hdot : ∀ (fuel : Nat) (acc : Bytes), fp.length + 3 ≤ fuel →
          scanNumLoop false fuel false e acc (46 :: f :: fp ++ rest) =
            (true, (46 :: f :: fp).reverse ++ acc, rest) := by
        intro fuel acc hf
        obtain ⟨n, rfl⟩ : ∃ n, fuel = n + 1 := ⟨fuel - 1, by omega⟩
        rw [List.cons_append, List.cons_append, scanNumLoop_dot n e acc f _ hfp.1, ← List.cons_append,
          scanNumLoop_digits n true e _ (f :: fp) rest (by simp [hfp.1, hfp.2]) hrest
            (by simp only [List.length_cons]; omega)]
        simp
      cases ds with
      | nil => simpa using hdot fuel acc (by simp at hf; omega)
      | cons c ds =>
        obtain ⟨n, rfl⟩ : ∃ n, fuel = n + 1 := ⟨fuel - 1, by omega⟩
        simp only [List.all_cons, Bool.and_eq_true] at hds
        simp only [List.length_cons] at hf
        rw [List.append_assoc, scanNumLoop_run n false e acc c ds _ hds.1 hds.2
          (by intro x t' hx; simp only [List.cons_append, List.cons.injEq] at hx; rw [← hx.1]; decide),
          hdot n _ (by omega)]
        simp

/-! ### the pieces of `scanTail` -/

def optDot (acc0 s0 : Bytes) : Bytes × Bytes :=
  match s0 with
  | 46 :: tl => ([46] ++ acc0, tl)
  | _ => (acc0, s0)

def optDigit (acc1 s1 : Bytes) : Bytes × Bytes :=
  match s1 with
  | c :: tl => if inSet decDigits c then (c :: acc1, tl) else (acc1, s1)
  | [] => (acc1, s1)

def scanFinish (r : Bool × Bytes × Bytes) : Bool × Bytes × Bytes :=
  let (ok, acc3, s3) := r
  if !ok then (false, acc3, s3)
  else if acc3.isEmpty then (false, acc3, s3)
  else match s3 with
    | c :: _ => if isAlnumB c then (false, acc3, s3) else (true, acc3, s3)
    | [] => (true, acc3, s3)

theorem scanTail_eq (acc0 s0 : Bytes) :
    scanTail acc0 s0 =
      scanFinish (scanNumLoop false ((optDigit (optDot acc0 s0).1 (optDot acc0 s0).2).2.length + 1) false false
        (optDigit (optDot acc0 s0).1 (optDot acc0 s0).2).1 (optDigit (optDot acc0 s0).1 (optDot acc0 s0).2).2) := rfl

theorem optDot_ne (acc : Bytes) (c : UInt8) (tl : Bytes) (h : c ≠ 46) : optDot acc (c :: tl) = (acc, c :: tl) := by
  unfold optDot
  split
  · simp_all
  · rfl

theorem optDot_nil (acc : Bytes) : optDot acc [] = (acc, []) := rfl
theorem optDot_dot (acc tl : Bytes) : optDot acc (46 :: tl) = (46 :: acc, tl) := rfl

theorem optDigit_digit (acc : Bytes) (c : UInt8) (tl : Bytes) (h : isDigitB c = true) :
    optDigit acc (c :: tl) = (c :: acc, tl) := by simp [optDigit, inSet_decDigits, h]

theorem optDigit_nondigit (acc : Bytes) (c : UInt8) (tl : Bytes) (h : isDigitB c = false) :
    optDigit acc (c :: tl) = (acc, c :: tl) := by simp [optDigit, inSet_decDigits, h]

theorem optDigit_nil (acc : Bytes) : optDigit acc [] = (acc, []) := rfl

theorem scanFinish_ok (acc rest : Bytes) (hacc : acc ≠ []) (hrest : Delim rest) :
    scanFinish (true, acc, rest) = (true, acc, rest) := by
  cases acc with
  | nil => exact absurd rfl hacc
  | cons a acc =>
    cases rest with
    | nil => simp [scanFinish]
    | cons c r => simp [scanFinish, (hrest c rfl).1]

/-- first byte a digit (the optional `.` is skipped, the digit is taken by the single-digit step) -/
theorem scanTail_digit (acc0 : Bytes) (c : UInt8) (b rest : Bytes) (hc : isDigitB c = true)
    (hb : DecBody b) (hrest : Delim rest) :
    scanTail acc0 (c :: b ++ rest) = (true, (c :: b).reverse ++ acc0, rest) := by
  rw [scanTail_eq, List.cons_append, optDot_ne _ _ _ (digit_facts c hc).1]
  simp only [optDigit_digit _ _ _ hc]
  rw [scanNumLoop_body _ false _ b rest hb hrest (by simp), scanFinish_ok _ _ (by simp) hrest]
  simp

/-- `.` then a non-empty digit run -/
theorem scanTail_dot (acc0 : Bytes) (f : UInt8) (fp rest : Bytes) (hf : isDigitB f = true)
    (hfp : fp.all isDigitB = true) (hrest : Delim rest) :
    scanTail acc0 (46 :: f :: fp ++ rest) = (true, (46 :: f :: fp).reverse ++ acc0, rest) := by
  rw [scanTail_eq, List.cons_append, List.cons_append, optDot_dot]
  simp only [optDigit_digit _ _ _ hf]
  rw [scanNumLoop_digits _ false false _ fp rest hfp hrest (by simp), scanFinish_ok _ _ (by simp) hrest]
  simp

/-- nothing more to read -/
theorem scanTail_none (acc0 rest : Bytes) (hacc : acc0 ≠ []) (hrest : Delim rest) :
    scanTail acc0 rest = (true, acc0, rest) := by
  rw [scanTail_eq]
  cases rest with
  | nil =>
    simp only [optDot_nil, optDigit_nil]
    rw [scanNumLoop_stop _ _ _ _ _ hrest, scanFinish_ok _ _ hacc hrest]
  | cons c r =>
    rw [optDot_ne _ _ _ (hrest c rfl).2]
    simp only [optDigit_nondigit _ _ _ (hrest.notDigit c r rfl)]
    rw [scanNumLoop_stop _ _ _ _ _ hrest, scanFinish_ok _ _ hacc hrest]

/-! ### `scanNumber` and the token -/

theorem DecBody.cons_cases {x : UInt8} {b : Bytes} (h : DecBody (x :: b)) :
    (isDigitB x = true ∧ DecBody b) ∨
      (x = 46 ∧ ∃ f fp, b = f :: fp ∧ isDigitB f = true ∧ fp.all isDigitB = true) := by
  rcases h with h | ⟨ds, fp, hds, hne, hfp, heq⟩
  · simp only [List.all_cons, Bool.and_eq_true] at h
    exact Or.inl ⟨h.1, Or.inl h.2⟩
  · cases ds with
    | nil =>
      simp only [List.nil_append, List.cons.injEq] at heq
      right
      refine ⟨heq.1, ?_⟩
      cases fp with
      | nil => exact absurd rfl hne
      | cons f fp =>
        simp only [List.all_cons, Bool.and_eq_true] at hfp
        exact ⟨f, fp, heq.2, hfp.1, hfp.2⟩
    | cons c ds =>
      simp only [List.cons_append, List.cons.injEq] at heq
      simp only [List.all_cons, Bool.and_eq_true] at hds
      left
      rw [heq.1]
      exact ⟨hds.1, Or.inr ⟨ds, fp, hds.2, hne, hfp, heq.2⟩⟩

theorem scanNumber_decimal (d : UInt8) (b rest : Bytes) (hd : isDigitB d = true) (hb : DecBody b)
    (hrest : Delim rest) :
    scanNumber (d :: b ++ rest) = (true, (d :: b).reverse, rest) := by
  by_cases h48 : d = 48
  · subst h48
    cases b with
    | nil =>
      cases rest with
      | nil => rw [List.append_nil, scanNumber_zero_nil, scanTail_none _ _ (by simp) hrest]; rfl
      | cons x tl =>
        obtain ⟨_, _, _, _, g5, g6⟩ := delim_facts x (hrest x rfl).1
        rw [List.cons_append, List.nil_append, scanNumber_zero_cons x tl g5 g6,
          scanTail_none _ _ (by simp) hrest]
        rfl
    | cons x b =>
      rcases hb.cons_cases with ⟨hx, hb'⟩ | ⟨rfl, f, fp, rfl, hf, hfp⟩
      · obtain ⟨_, _, _, _, g5, g6⟩ := digit_facts x hx
        rw [List.cons_append, List.cons_append, scanNumber_zero_cons x _ g5 g6, ← List.cons_append,
          scanTail_digit _ x b rest hx hb' hrest]
        simp
      · rw [List.cons_append, List.cons_append, scanNumber_zero_cons 46 _ (by decide) (by decide),
          ← List.cons_append, scanTail_dot _ f fp rest hf hfp hrest]
        simp
  · rw [List.cons_append, scanNumber_nonzero d _ h48, ← List.cons_append,
      scanTail_digit [] d b rest hd hb hrest]
    simp

theorem lexNumberOrDuration_body (d : UInt8) (b rest : Bytes) (hd : isDigitB d = true) (hb : DecBody b)
    (hrest : Delim rest) :
    lexNumberOrDuration (d :: b ++ rest) = some (.number (d :: b), rest) := by
  unfold lexNumberOrDuration
  rw [scanNumber_decimal d b rest hd hb hrest]
  simp

/-! ### plain decimal text -/

/-- plain decimal text `ip` or `ip.fp` (both parts non-empty digit runs) -/
def isDecimalText (t : Bytes) : Bool :=
  let ip := t.takeWhile isDigitB
  let r := t.dropWhile isDigitB
  !ip.isEmpty && (r.isEmpty || (r.head? == some 46 && !(r.drop 1).isEmpty && (r.drop 1).all isDigitB))

theorem all_takeWhile_self (p : UInt8 → Bool) (l : Bytes) : (l.takeWhile p).all p = true := by
  induction l with
  | nil => rfl
  | cons a l ih =>
    rw [List.takeWhile_cons]
    split
    · rename_i h; simp only [List.all_cons, h, ih, Bool.and_self]
    · rfl

theorem isDecimalText_iff (t : Bytes) :
    isDecimalText t = true ↔
      ∃ ip, ip ≠ [] ∧ ip.all isDigitB = true ∧
        (t = ip ∨ ∃ fp, fp ≠ [] ∧ fp.all isDigitB = true ∧ t = ip ++ 46 :: fp) := by
  constructor
  · intro h
    have hsplit : t.takeWhile isDigitB ++ t.dropWhile isDigitB = t := List.takeWhile_append_dropWhile
    have hall : (t.takeWhile isDigitB).all isDigitB = true := all_takeWhile_self _ t
    simp only [isDecimalText, Bool.and_eq_true, Bool.or_eq_true, Bool.not_eq_true',
      List.isEmpty_eq_false_iff, List.isEmpty_iff, beq_iff_eq] at h
    refine ⟨t.takeWhile isDigitB, h.1, hall, ?_⟩
    rcases h.2 with h2 | ⟨⟨h2, h3⟩, h4⟩
    · left; rw [h2, List.append_nil] at hsplit; exact hsplit.symm
    · right
      cases hr : t.dropWhile isDigitB with
      | nil => rw [hr] at h2; simp at h2
      | cons c fp =>
        rw [hr] at h2 h3 h4 hsplit
        simp only [List.head?_cons, Option.some.injEq] at h2
        simp only [List.drop_succ_cons, List.drop_zero] at h3 h4
        subst h2
        exact ⟨fp, h3, h4, hsplit.symm⟩
  · rintro ⟨ip, hne, hall, ht | ⟨fp, hfne, hfall, ht⟩⟩ <;> rw [ht]
    · have h := takeWhile_app ip [] hall (by intro c t' h; cases h)
      rw [List.append_nil] at h
      simp [isDecimalText, h.1, h.2, hne]
    · have h := takeWhile_app ip (46 :: fp) hall
        (by intro c t' h; simp only [List.cons.injEq] at h; rw [← h.1]; decide)
      simp [isDecimalText, h.1, h.2, hne, hfne, hfall]

/-- plain decimal text starts with a digit and continues with a `DecBody` -/
theorem isDecimalText_body {t : Bytes} (h : isDecimalText t = true) :
    ∃ d b, t = d :: b ∧ isDigitB d = true ∧ DecBody b := by
  obtain ⟨ip, hne, hall, ht⟩ := (isDecimalText_iff t).mp h
  cases ip with
  | nil => exact absurd rfl hne
  | cons d ds =>
    simp only [List.all_cons, Bool.and_eq_true] at hall
    rcases ht with rfl | ⟨fp, hfne, hfall, rfl⟩
    · exact ⟨d, ds, rfl, hall.1, Or.inl hall.2⟩
    · exact ⟨d, ds ++ 46 :: fp, rfl, hall.1, Or.inr ⟨ds, fp, hall.2, hfne, hfall, rfl⟩⟩

/-- companion: a plain decimal text starts with a digit -/
theorem isDecimalText_head {t : Bytes} (h : isDecimalText t = true) :
    ∃ c tl, t = c :: tl ∧ isDigitB c = true := by
  obtain ⟨d, b, ht, hd, _⟩ := isDecimalText_body h
  exact ⟨d, b, ht, hd⟩

/-- the lexer reads a plain decimal text followed by a delimiter as one NUMBER token -/
theorem lexNumberOrDuration_decimal (t rest : Bytes) (ht : isDecimalText t = true)
    (hrest : ∀ c, rest.head? = some c → isAlnumB c = false ∧ c ≠ 46) :
    lexNumberOrDuration (t ++ rest) = some (.number t, rest) := by
  obtain ⟨d, b, rfl, hd, hb⟩ := isDecimalText_body ht
  exact lexNumberOrDuration_body d b rest hd hb hrest

/-! ### `fmtFloatF` -/

theorem all_of_subset {p : UInt8 → Bool} {l l' : Bytes} (h : ∀ x, x ∈ l' → x ∈ l) (hl : l.all p = true) :
    l'.all p = true := by
  rw [List.all_eq_true] at hl ⊢
  intro x hx
  exact hl x (h x hx)

theorem strip_all (q : UInt8 → Bool) (l : Bytes) (hl : l.all isDigitB = true) :
    ((l.reverse.dropWhile q).reverse).all isDigitB = true := by
  refine all_of_subset (l := l) ?_ hl
  intro y hy
  rw [List.mem_reverse] at hy
  exact List.mem_reverse.mp ((List.dropWhile_sublist q).subset hy)

theorem shortestDigits_all (x : F64Q.F64) : (shortestDigits x).1.all isDigitB = true := by
  unfold shortestDigits
  exact strip_all _ _ (natDigits_all _)

theorem zerosB_all (n : Nat) : (zerosB n).all isDigitB = true := by
  rw [List.all_eq_true]
  intro x hx
  rw [zerosB, List.mem_replicate] at hx
  rw [hx.2]; decide

theorem layoutF_decimal (ds : Bytes) (pt : Int) (hne : ds ≠ []) (hall : ds.all isDigitB = true) :
    isDecimalText (layoutF ds pt) = true := by
  rw [isDecimalText_iff]
  unfold layoutF
  split
  · refine ⟨[48], by simp, by decide, Or.inr ⟨zerosB (-pt).toNat ++ ds, by simp [hne], ?_, ?_⟩⟩
    · rw [List.all_append, zerosB_all, hall]; rfl
    · rw [bs_0dot]; rfl
  · split
    · refine ⟨ds ++ zerosB (pt.toNat - ds.length), by simp [hne], ?_, Or.inl rfl⟩
      rw [List.all_append, zerosB_all, hall]; rfl
    · rename_i h1 h2
      have hk : 0 < pt.toNat := by omega
      have hlen : pt.toNat < ds.length := by omega
      refine ⟨ds.take pt.toNat, ?_, all_of_subset (fun x hx => List.mem_of_mem_take hx) hall,
        Or.inr ⟨ds.drop pt.toNat, ?_, all_of_subset (fun x hx => List.mem_of_mem_drop hx) hall, by simp⟩⟩
      · intro h; have := congrArg List.length h; rw [List.length_take, List.length_nil] at this; omega
      · intro h; have := congrArg List.length h; rw [List.length_drop, List.length_nil] at this; omega

/-- FormatFloat 'f' of a finite non-negative double is plain decimal text (given that the
    shortest-digit search produced at least one digit) -/
theorem fmtFloatF_decimal (v : F64Q.F64) (hn : v.isNaN = false) (hi : v.isInf = false) (hs : v.neg? = false)
    (hd : v.isZero = true ∨ (shortestDigits v).1 ≠ []) : isDecimalText (fmtFloatF v) = true := by
  unfold fmtFloatF
  simp only [hn, hi, hs, Bool.false_eq_true, if_false, List.nil_append]
  split
  · decide
  · rename_i hz
    rcases hd with hd | hd
    · exact absurd hd hz
    · exact layoutF_decimal _ _ hd (shortestDigits_all v)

end Prom.Promql
