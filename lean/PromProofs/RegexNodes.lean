import PromProofs.RegexSet
/-
  Helper lemmas for C17: specifications of the string primitives used by the `StringMatcher` nodes and the
  languages of the wildcard expressions `.*`, `.+`, `.?`, `(?-s:.*)` ….
-/
namespace Prom.Regex

theorem stripPrefix_iff : ∀ (s p t : Str), stripPrefix s p = some t ↔ s = p ++ t
  | s, [], t => by simp [stripPrefix, eq_comm]
  | [], _ :: _, t => by simp [stripPrefix]
  | c :: s, q :: ps, t => by
    simp only [stripPrefix]
    split
    · next h => subst h; simp [stripPrefix_iff s ps t]
    · next h =>
      simp only [List.cons_append, List.cons.injEq, false_iff, reduceCtorEq]
      rintro ⟨h1, _⟩; exact h h1

theorem stripSuffix_iff (s p t : Str) : stripSuffix s p = some t ↔ s = t ++ p := by
  simp only [stripSuffix, Option.map_eq_some_iff, stripPrefix_iff]
  constructor
  · rintro ⟨a, h1, rfl⟩
    have := congrArg List.reverse h1
    simpa using this
  · intro h
    exact ⟨t.reverse, by simp [h], by simp⟩

/-- `equalFold` relates strings rune by rune -/
theorem equalFold_cons_iff (a : Nat) (v t : Str) :
    equalFold (a :: v) t = true ↔ ∃ c t', t = c :: t' ∧ foldEq a c = true ∧ equalFold v t' = true := by
  cases t with
  | nil => simp [equalFold]
  | cons c t' =>
    simp only [equalFold, Bool.and_eq_true, List.cons.injEq]
    constructor
    · rintro ⟨h1, h2⟩; exact ⟨c, t', ⟨rfl, rfl⟩, h1, h2⟩
    · rintro ⟨c', t'', ⟨rfl, rfl⟩, h1, h2⟩; exact ⟨h1, h2⟩

theorem equalFold_nil_iff (t : Str) : equalFold [] t = true ↔ t = [] := by
  cases t <;> simp [equalFold]

/-- the language of a case-insensitive literal is `strings.EqualFold` -/
theorem litB_true_iff (rs : List Nat) (b e : Bool) (t : Str) : M (litB true rs) b e t ↔ equalFold rs t = true := by
  induction rs generalizing b e t with
  | nil => simp [litB, M_eps, equalFold_nil_iff]
  | cons r rs ih =>
    cases rs with
    | nil =>
      simp only [litB, M_chr, Pred.test, if_true, equalFold_cons_iff, equalFold_nil_iff]
      constructor
      · rintro ⟨c, h1, h2⟩; exact ⟨c, [], h1, h2, rfl⟩
      · rintro ⟨c, t', h1, h2, rfl⟩; exact ⟨c, h1, h2⟩
    | cons r2 rs2 =>
      simp only [litB, M_cat, M_chr, Pred.test, if_true]
      rw [equalFold_cons_iff]
      constructor
      · rintro ⟨s1, s2, hs, ⟨c, h1, h2⟩, h3⟩
        subst h1
        exact ⟨c, s2, hs, h2, (ih _ _ _).mp h3⟩
      · rintro ⟨c, t', h1, h2, h3⟩
        exact ⟨[c], t', h1, ⟨c, rfl, h2⟩, (ih _ _ _).mpr h3⟩

theorem anyMatches_iff : ∀ (ms : List SM) (s : Str), anyMatches ms s = true ↔ ∃ m ∈ ms, m.matches s = true
  | [], s => by simp [anyMatches]
  | m :: ms, s => by simp [anyMatches, anyMatches_iff ms s]

theorem anyOccur_iff (sub : Str) (f : Str → Str → Bool) :
    ∀ (s pre : Str), anyOccur sub f pre s = true ↔ ∃ a b, s = a ++ sub ++ b ∧ f (pre.reverse ++ a) b = true
  | [], pre => by
    simp only [anyOccur, Bool.and_eq_true, List.isEmpty_iff]
    constructor
    · rintro ⟨rfl, h⟩; exact ⟨[], [], by simp, by simpa using h⟩
    · rintro ⟨a, b, h, hf⟩
      have h' := h.symm
      simp only [List.append_eq_nil_iff] at h'
      obtain ⟨⟨rfl, rfl⟩, rfl⟩ := h'
      exact ⟨rfl, by simpa using hf⟩
  | c :: s, pre => by
    simp only [anyOccur, Bool.or_eq_true, anyOccur_iff sub f s (c :: pre)]
    constructor
    · rintro (h | ⟨a, b, rfl, hf⟩)
      · cases hp : stripPrefix (c :: s) sub with
        | none => simp [hp] at h
        | some r =>
          simp only [hp] at h
          have := (stripPrefix_iff _ _ _).mp hp
          exact ⟨[], r, by simpa using this, by simpa using h⟩
      · exact ⟨c :: a, b, by simp, by simpa using hf⟩
    · rintro ⟨a, b, hs, hf⟩
      cases a with
      | nil =>
        left
        have : stripPrefix (c :: s) sub = some b := (stripPrefix_iff _ _ _).mpr (by simpa using hs)
        simp only [this]
        simpa using hf
      | cons a0 a' =>
        right
        simp only [List.cons_append, List.cons.injEq] at hs
        obtain ⟨rfl, rfl⟩ := hs
        exact ⟨a', b, rfl, by simpa using hf⟩

/-! ### wildcards -/

theorem star_any_iff (b e : Bool) (s : Str) : M (.star (.chr .any)) b e s := by
  induction s generalizing b with
  | nil => exact M.starNil
  | cons c s ih =>
    have : M (.star (.chr .any)) b e ([c] ++ s) :=
      M.starCons (by simp) (M.chr (by simp [Pred.test])) (ih false)
    simpa using this

theorem star_notNL_iff (b e : Bool) (s : Str) : M (.star (.chr .notNL)) b e s ↔ noNL s = true := by
  induction s generalizing b with
  | nil => simp [noNL]; exact M.starNil
  | cons c s ih =>
    rw [M_star]
    constructor
    · rintro (h | ⟨s1, s2, hs, hne, h1, h2⟩)
      · cases h
      · obtain ⟨c', rfl, hc'⟩ := M_chr.mp h1
        simp only [List.cons_append, List.nil_append, List.cons.injEq] at hs
        obtain ⟨rfl, rfl⟩ := hs
        have := (ih false).mp h2
        simp only [Pred.test, bne_iff_ne, ne_eq] at hc'
        simp only [noNL, List.contains_cons, Bool.not_eq_true', Bool.or_eq_false_iff, beq_eq_false_iff_ne, ne_eq] at this ⊢
        exact ⟨fun h => hc' h.symm, this⟩
    · intro h
      right
      simp only [noNL, List.contains_cons, Bool.not_eq_true', Bool.or_eq_false_iff, beq_eq_false_iff_ne, ne_eq] at h
      refine ⟨[c], s, rfl, by simp, M.chr ?_, (ih false).mpr ?_⟩
      · simp only [Pred.test, bne_iff_ne, ne_eq]; exact fun hc => h.1 hc.symm
      · simp only [noNL, Bool.not_eq_true']; exact h.2

end Prom.Regex
