import PromModel.Tsdb.SeriesRefs
/-
  C22: every reference the head or the log names (apart from sample records) is at most `lastSeriesID`,
  along every history including restarts. Helper lemmas for `PromProps/C22.lean`.
-/
namespace Prom.Refs
open Prom.Db Prom.Intervals

/-- All references of the by-ref table, the open appender, `walExpiries`, the client-visible results of
    this lifetime, and the series / tombstone records of checkpoint ∪ segments are ≤ `lastSeriesID`. -/
def RefBound (s : RefDb) : Prop := ∀ r ∈ s.mentioned, r ≤ s.lastID

theorem mem_mentioned {s : RefDb} {r : Nat} :
    r ∈ s.mentioned ↔
      r ∈ s.live.map (·.1) ∨ r ∈ s.created.map (·.1) ∨ r ∈ s.pend ∨ r ∈ s.batchRefs ∨
      r ∈ s.expiries.map (·.1) ∨ r ∈ s.issued.map (·.1) ∨ r ∈ s.records.flatMap WRec.idRefs := by
  simp only [RefDb.mentioned, List.mem_append, or_assoc]

theorem lookup_mem {live : List (Nat × Nat)} {r j : Nat} (h : lookup live r = some j) :
    r ∈ live.map (·.1) := by
  unfold lookup at h
  cases hf : live.find? (·.1 = r) with
  | none => simp [hf] at h
  | some p =>
    have hm := List.mem_of_find?_eq_some hf
    have hp := List.find?_some hf
    simp at hp
    exact List.mem_map.mpr ⟨p, hm, hp⟩

theorem byLabels_mem {live : List (Nat × Nat)} {i r : Nat} (h : byLabels live i = some r) :
    r ∈ live.map (·.1) := by
  unfold byLabels at h
  cases hf : live.find? (·.2 = i) with
  | none => simp [hf] at h
  | some p =>
    have hm := List.mem_of_find?_eq_some hf
    simp [hf] at h
    exact List.mem_map.mpr ⟨p, hm, h⟩

theorem mem_insertLive {live : List (Nat × Nat)} {n i r : Nat} (h : r ∈ (insertLive live n i).map (·.1)) :
    r ∈ live.map (·.1) ∨ r = n := by
  simp only [insertLive, List.map_append, List.mem_append, List.mem_map, List.mem_filter] at h
  rcases h with ⟨p, ⟨hp, _⟩, rfl⟩ | ⟨p, hp, rfl⟩
  · exact Or.inl (List.mem_map.mpr ⟨p, hp, rfl⟩)
  · simp at hp; subst hp; exact Or.inr rfl

theorem mem_setExpiry {e : List (Nat × Int)} {n r : Nat} {t : Int} (h : r ∈ (setExpiry e n t).map (·.1)) :
    r ∈ e.map (·.1) ∨ r = n := by
  simp only [setExpiry, List.map_append, List.mem_append, List.mem_map, List.mem_filter] at h
  rcases h with ⟨p, ⟨hp, _⟩, rfl⟩ | ⟨p, hp, rfl⟩
  · exact Or.inl (List.mem_map.mpr ⟨p, hp, rfl⟩)
  · simp at hp; subst hp; exact Or.inr rfl

theorem records_log (s : RefDb) (w : WRec) : (s.log w).records = s.records ++ [w] := by
  simp [RefDb.log, RefDb.records, List.append_assoc]

theorem idRefs_filterRec (keep : Nat → Bool) (mint : Int) (w : WRec) {r : Nat}
    (h : r ∈ (filterRec keep mint w).idRefs) : r ∈ w.idRefs := by
  cases w with
  | series xs =>
    simp only [filterRec, WRec.idRefs, WRec.seriesRefs, WRec.stoneRefs, List.append_nil, List.mem_map,
      List.mem_filter] at h ⊢
    obtain ⟨p, ⟨hp, _⟩, rfl⟩ := h; exact ⟨p, hp, rfl⟩
  | samples xs => simp [filterRec, WRec.idRefs, WRec.seriesRefs, WRec.stoneRefs] at h
  | stones xs =>
    simp only [filterRec, WRec.idRefs, WRec.seriesRefs, WRec.stoneRefs, List.nil_append, List.mem_map,
      List.mem_filter] at h ⊢
    obtain ⟨p, ⟨hp, _⟩, rfl⟩ := h; exact ⟨p, hp, rfl⟩


/-- The seven parts of `mentioned`, each bounded. -/
theorem RefBound.of_parts {s : RefDb} (n : Nat) (hn : n = s.lastID)
    (h1 : ∀ r ∈ s.live.map (·.1), r ≤ n) (h2 : ∀ r ∈ s.created.map (·.1), r ≤ n)
    (h3 : ∀ r ∈ s.pend, r ≤ n) (h4 : ∀ r ∈ s.batchRefs, r ≤ n)
    (h5 : ∀ r ∈ s.expiries.map (·.1), r ≤ n) (h6 : ∀ r ∈ s.issued.map (·.1), r ≤ n)
    (h7 : ∀ r ∈ s.records.flatMap WRec.idRefs, r ≤ n) : RefBound s := by
  subst hn
  intro r hr
  rw [mem_mentioned] at hr
  rcases hr with hr | hr | hr | hr | hr | hr | hr
  · exact h1 r hr
  · exact h2 r hr
  · exact h3 r hr
  · exact h4 r hr
  · exact h5 r hr
  · exact h6 r hr
  · exact h7 r hr

theorem RefBound.live {s : RefDb} (h : RefBound s) : ∀ r ∈ s.live.map (·.1), r ≤ s.lastID :=
  fun r hr => h r (mem_mentioned.mpr (Or.inl hr))
theorem RefBound.created {s : RefDb} (h : RefBound s) : ∀ r ∈ s.created.map (·.1), r ≤ s.lastID :=
  fun r hr => h r (mem_mentioned.mpr (Or.inr (Or.inl hr)))
theorem RefBound.pend {s : RefDb} (h : RefBound s) : ∀ r ∈ s.pend, r ≤ s.lastID :=
  fun r hr => h r (mem_mentioned.mpr (Or.inr (Or.inr (Or.inl hr))))
theorem RefBound.batch {s : RefDb} (h : RefBound s) : ∀ r ∈ s.batchRefs, r ≤ s.lastID :=
  fun r hr => h r (mem_mentioned.mpr (Or.inr (Or.inr (Or.inr (Or.inl hr)))))
theorem RefBound.expiries {s : RefDb} (h : RefBound s) : ∀ r ∈ s.expiries.map (·.1), r ≤ s.lastID :=
  fun r hr => h r (mem_mentioned.mpr (Or.inr (Or.inr (Or.inr (Or.inr (Or.inl hr))))))
theorem RefBound.issued {s : RefDb} (h : RefBound s) : ∀ r ∈ s.issued.map (·.1), r ≤ s.lastID :=
  fun r hr => h r (mem_mentioned.mpr (Or.inr (Or.inr (Or.inr (Or.inr (Or.inr (Or.inl hr)))))))
theorem RefBound.recs {s : RefDb} (h : RefBound s) : ∀ r ∈ s.records.flatMap WRec.idRefs, r ≤ s.lastID :=
  fun r hr => h r (mem_mentioned.mpr (Or.inr (Or.inr (Or.inr (Or.inr (Or.inr (Or.inr hr)))))))

theorem idRefs_series (xs : List (Nat × Nat)) : (WRec.series xs).idRefs = xs.map (·.1) := by
  simp [WRec.idRefs, WRec.seriesRefs, WRec.stoneRefs]
theorem idRefs_samples (xs : List (Nat × Int)) : (WRec.samples xs).idRefs = [] := by
  simp [WRec.idRefs, WRec.seriesRefs, WRec.stoneRefs]
theorem idRefs_stones (xs : List (Nat × Interval)) : (WRec.stones xs).idRefs = xs.map (·.1) := by
  simp [WRec.idRefs, WRec.seriesRefs, WRec.stoneRefs]

theorem closeAppender_bound {s : RefDb} (h : RefBound s) (smps : List (Nat × Int)) :
    RefBound (s.closeAppender smps) := by
  refine RefBound.of_parts s.lastID rfl h.live ?_ ?_ ?_ h.expiries h.issued ?_
  · simp [RefDb.closeAppender]
  · simp [RefDb.closeAppender]
  · simp [RefDb.closeAppender]
  · intro r hr
    simp only [RefDb.closeAppender, RefDb.records, List.flatMap_append, List.mem_append,
      List.flatMap_cons, List.flatMap_nil, idRefs_series, idRefs_samples, List.append_nil] at hr
    rcases hr with (hr | hr) | hr | hr
    · exact h.recs r (by simp only [RefDb.records, List.flatMap_append, List.mem_append]; exact Or.inl (Or.inl hr))
    · exact h.recs r (by simp only [RefDb.records, List.flatMap_append, List.mem_append]; exact Or.inl (Or.inr hr))
    · exact h.recs r (by simp only [RefDb.records, List.flatMap_append, List.mem_append]; exact Or.inr hr)
    · exact h.created r hr

theorem rollbackOpen_bound {s : RefDb} (h : RefBound s) : RefBound s.rollbackOpen := by
  unfold RefDb.rollbackOpen; split
  · exact closeAppender_bound h _
  · exact h

theorem getSeries_bound {s : RefDb} (h : RefBound s) (r i : Nat) :
    RefBound (s.getSeries r i).1 ∧ (s.getSeries r i).2 ≤ (s.getSeries r i).1.lastID ∧
      (s.getSeries r i).1.db = s.db := by
  unfold RefDb.getSeries
  split
  · next j hj => exact ⟨h, h.live r (lookup_mem hj), rfl⟩
  · split
    · next r0 h0 => exact ⟨h, h.live r0 (byLabels_mem h0), rfl⟩
    · refine ⟨?_, Nat.le_refl _, rfl⟩
      refine RefBound.of_parts (s.lastID + 1) rfl ?_ ?_ ?_ ?_ ?_ ?_ ?_
      · intro x hx
        rcases mem_insertLive hx with hx | hx
        · exact Nat.le_succ_of_le (h.live x hx)
        · omega
      · intro x hx
        simp only [List.map_append, List.mem_append, List.map_cons, List.map_nil, List.mem_singleton] at hx
        rcases hx with hx | hx
        · exact Nat.le_succ_of_le (h.created x hx)
        · omega
      · intro x hx
        simp only [List.mem_cons] at hx
        rcases hx with hx | hx
        · omega
        · exact Nat.le_succ_of_le (h.pend x hx)
      · intro x hx; exact Nat.le_succ_of_le (h.batch x hx)
      · intro x hx; exact Nat.le_succ_of_le (h.expiries x hx)
      · intro x hx; exact Nat.le_succ_of_le (h.issued x hx)
      · intro x hx; exact Nat.le_succ_of_le (h.recs x hx)

/-- A reference `Append` allocates is above everything the head or the log names. -/
theorem getSeries_fresh {s : RefDb} (h : RefBound s) (r i : Nat)
    (hl : lookup s.live r = none) (hb : byLabels s.live i = none) :
    (s.getSeries r i).2 = s.lastID + 1 ∧ (s.getSeries r i).2 ∉ s.mentioned := by
  have : (s.getSeries r i).2 = s.lastID + 1 := by simp [RefDb.getSeries, hl, hb]
  refine ⟨this, fun hm => ?_⟩
  have := h _ hm
  omega

theorem append_bound {s : RefDb} (h : RefBound s) (r i : Nat) (t : Int) (v : Nat) :
    RefBound (s.append r i t v).1 := by
  unfold RefDb.append
  simp only
  split
  · exact h
  · split
    · exact h
    · obtain ⟨hb, hle, _⟩ := getSeries_bound h r i
      split
      · refine RefBound.of_parts _ rfl hb.live hb.created ?_ ?_ hb.expiries ?_ hb.recs
        · intro x hx
          simp only [List.mem_cons] at hx
          rcases hx with hx | hx
          · subst hx; exact hle
          · exact hb.pend x hx
        · intro x hx
          simp only [List.mem_append, List.mem_singleton] at hx
          rcases hx with hx | hx
          · exact hb.batch x hx
          · subst hx; exact hle
        · intro x hx
          simp only [List.map_cons, List.mem_cons] at hx
          rcases hx with hx | hx
          · subst hx; exact hle
          · exact hb.issued x hx
      · exact hb

theorem commit_bound {s : RefDb} (h : RefBound s) : RefBound s.commit.1 := by
  unfold RefDb.commit; split
  · exact h
  · exact closeAppender_bound h _

theorem rollback_bound {s : RefDb} (h : RefBound s) : RefBound s.rollback.1 := by
  unfold RefDb.rollback; split
  · exact h
  · exact closeAppender_bound h _

theorem log_bound {s : RefDb} (h : RefBound s) (w : WRec) (hw : ∀ r ∈ w.idRefs, r ≤ s.lastID) :
    RefBound (s.log w) := by
  refine RefBound.of_parts s.lastID rfl h.live h.created h.pend h.batch h.expiries h.issued ?_
  intro r hr
  rw [records_log] at hr
  simp only [List.flatMap_append, List.mem_append, List.flatMap_cons, List.flatMap_nil, List.append_nil] at hr
  rcases hr with hr | hr
  · exact h.recs r hr
  · exact hw r hr

theorem delete_bound {s : RefDb} (h : RefBound s) (a b : Int) (sel : Option Nat) :
    RefBound (s.delete a b sel) := by
  unfold RefDb.delete
  simp only
  split
  · split
    · apply log_bound (s := { s with db := s.db.delete a b sel }) h
      intro r hr
      rw [idRefs_stones] at hr
      simp only [List.mem_map, List.mem_filterMap] at hr
      obtain ⟨p, ⟨q, _, hq⟩, rfl⟩ := hr
      cases hbl : byLabels s.live q.1 with
      | none => simp [hbl] at hq
      | some r0 =>
        simp [hbl] at hq
        subst hq
        exact h.live r0 (byLabels_mem hbl)
    · exact h
  · exact h

theorem gc_bound {s : RefDb} (h : RefBound s) (k : Int) : RefBound (s.gc k) := by
  refine RefBound.of_parts s.lastID rfl ?_ h.created h.pend h.batch ?_ h.issued h.recs
  · intro r hr
    simp only [RefDb.gc, List.mem_map, List.mem_filter] at hr
    obtain ⟨p, ⟨hp, _⟩, rfl⟩ := hr
    exact h.live _ (List.mem_map.mpr ⟨p, hp, rfl⟩)
  · simp only [RefDb.gc]
    have : ∀ (dead : List (Nat × Nat)) (e : List (Nat × Int)),
        (∀ p ∈ dead, p.1 ≤ s.lastID) → (∀ r ∈ e.map (·.1), r ≤ s.lastID) →
        ∀ r ∈ (dead.foldl (fun e p => setExpiry e p.1 k) e).map (·.1), r ≤ s.lastID := by
      intro dead
      induction dead with
      | nil => intro e _ he; simpa using he
      | cons p ps ih =>
        intro e hd he
        simp only [List.foldl_cons]
        apply ih
        · intro q hq; exact hd q (List.mem_cons_of_mem _ hq)
        · intro r hr
          rcases mem_setExpiry hr with hr | hr
          · exact he r hr
          · subst hr; exact hd p List.mem_cons_self
    apply this _ _ _ h.expiries
    intro p hp
    simp only [List.mem_filter] at hp
    exact h.live _ (List.mem_map.mpr ⟨p, hp.1, rfl⟩)

theorem truncateWAL_bound {s : RefDb} (h : RefBound s) (mint : Int) : RefBound (s.truncateWAL mint) := by
  have hrec : ∀ (s' : RefDb), s'.lastID = s.lastID → s'.live = s.live → s'.created = s.created → s'.pend = s.pend →
      s'.batchRefs = s.batchRefs → s'.issued = s.issued →
      (∀ r ∈ s'.expiries.map (·.1), r ∈ s.expiries.map (·.1)) →
      (∀ r ∈ s'.records.flatMap WRec.idRefs, r ∈ s.records.flatMap WRec.idRefs) → RefBound s' := by
    intro s' e1 e2 e3 e4 e5 e6 e7 e8
    refine RefBound.of_parts s.lastID e1.symm ?_ ?_ ?_ ?_ ?_ ?_ ?_
    · rw [e2]; exact h.live
    · rw [e3]; exact h.created
    · rw [e4]; exact h.pend
    · rw [e5]; exact h.batch
    · intro r hr; exact h.expiries r (e7 r hr)
    · rw [e6]; exact h.issued
    · intro r hr; exact h.recs r (e8 r hr)
  unfold RefDb.truncateWAL
  simp only
  split
  · exact h
  · split
    · apply hrec <;> try rfl
      · intro r hr; exact hr
      · intro r hr
        simp only [RefDb.records, List.flatMap_append, List.mem_append, List.flatten_append, List.flatten_cons,
          List.flatten_nil, List.append_nil, List.flatMap_nil, List.not_mem_nil, or_false] at hr ⊢
        rcases hr with (hr | hr | hr)
        · exact Or.inl (Or.inl hr)
        · exact Or.inl (Or.inr hr)
        · exact Or.inr hr
    · split
      · apply hrec <;> try rfl
        · intro r hr; exact hr
        · intro r hr
          simp only [RefDb.records, List.flatMap_append, List.mem_append, List.flatten_append, List.flatten_cons,
            List.flatten_nil, List.append_nil, List.flatMap_nil, List.not_mem_nil, or_false] at hr ⊢
          rcases hr with (hr | hr | hr)
          · exact Or.inl (Or.inl hr)
          · exact Or.inl (Or.inr hr)
          · exact Or.inr hr
      · apply hrec <;> try rfl
        · intro r hr
          simp only [List.mem_map, List.mem_filter] at hr ⊢
          obtain ⟨p, ⟨hp, _⟩, rfl⟩ := hr
          exact ⟨p, hp, rfl⟩
        · intro r hr
          simp only [RefDb.records, List.flatMap_append, List.mem_append, List.flatMap_nil, List.not_mem_nil,
            or_false] at hr ⊢
          rcases hr with hr | hr
          · -- checkpoint: filtered records of the old checkpoint and of the covered segments
            obtain ⟨w, hw, hrw⟩ := List.mem_flatMap.mp hr
            obtain ⟨w0, hw0, rfl⟩ := List.mem_map.mp hw
            have hr0 := idRefs_filterRec _ _ _ hrw
            rcases List.mem_append.mp hw0 with hw0 | hw0
            · exact Or.inl (Or.inl (List.mem_flatMap.mpr ⟨w0, hw0, hr0⟩))
            · obtain ⟨seg, hseg, hws⟩ := List.mem_flatten.mp hw0
              have hseg' := List.mem_of_mem_take hseg
              rcases List.mem_append.mp hseg' with hs | hs
              · exact Or.inl (Or.inr (List.mem_flatMap.mpr ⟨w0, List.mem_flatten.mpr ⟨seg, hs, hws⟩, hr0⟩))
              · simp only [List.mem_singleton] at hs
                subst hs
                exact Or.inr (List.mem_flatMap.mpr ⟨w0, hws, hr0⟩)
          · obtain ⟨w, hw, hrw⟩ := List.mem_flatMap.mp hr
            obtain ⟨seg, hseg, hws⟩ := List.mem_flatten.mp hw
            have hseg' := List.mem_of_mem_drop hseg
            rcases List.mem_append.mp hseg' with hs | hs
            · exact Or.inl (Or.inr (List.mem_flatMap.mpr ⟨w, List.mem_flatten.mpr ⟨seg, hs, hws⟩, hrw⟩))
            · simp only [List.mem_singleton] at hs
              subst hs
              exact Or.inr (List.mem_flatMap.mpr ⟨w, hws, hrw⟩)

theorem compactHeadOnce_bound {s : RefDb} (h : RefBound s) : RefBound s.compactHeadOnce := by
  unfold RefDb.compactHeadOnce
  simp only
  split
  · exact gc_bound (s := { s with db := s.db.compactHeadOnce }) h _
  · exact h

theorem compactGo_bound (fuel : Nat) : ∀ {s : RefDb} (_ : RefBound s) (l : Int), RefBound (RefDb.compactGo fuel s l).1 := by
  induction fuel with
  | zero => intro s h l; exact h
  | succ n ih =>
    intro s h l
    unfold RefDb.compactGo
    split
    · exact ih (compactHeadOnce_bound h) _
    · exact h

theorem compact_bound {s : RefDb} (h : RefBound s) : RefBound s.compact := by
  unfold RefDb.compact
  exact truncateWAL_bound (compactGo_bound 64 h _) _

/-! ### Restart: the counter restored by the replay bounds everything the replay names -/

def ReplayBound (st : Replay) : Prop :=
  (∀ r ∈ st.live.map (·.1), r ≤ st.lastID) ∧ (∀ r ∈ st.multi.map (·.1), r ≤ st.lastID) ∧
  (∀ r ∈ st.expiries.map (·.1), r ≤ st.lastID)

def seriesStep (st : Replay) (p : Nat × Nat) : Replay :=
  let st := { st with lastID := max st.lastID p.1 }
  match byLabels st.live p.2 with
  | some r0 => { st with multi := st.multi ++ [(p.1, r0)] }
  | none => { st with live := insertLive st.live p.1 p.2 }

theorem seriesStep_spec (st : Replay) (p : Nat × Nat) (h : ReplayBound st) :
    ReplayBound (seriesStep st p) ∧ st.lastID ≤ (seriesStep st p).lastID ∧ p.1 ≤ (seriesStep st p).lastID := by
  obtain ⟨h1, h2, h3⟩ := h
  unfold seriesStep
  simp only
  split
  · refine ⟨⟨?_, ?_, ?_⟩, Nat.le_max_left _ _, Nat.le_max_right _ _⟩
    · intro r hr; exact Nat.le_trans (h1 r hr) (Nat.le_max_left _ _)
    · intro r hr
      simp only [List.map_append, List.mem_append, List.map_cons, List.map_nil, List.mem_singleton] at hr
      rcases hr with hr | hr
      · exact Nat.le_trans (h2 r hr) (Nat.le_max_left _ _)
      · subst hr; exact Nat.le_max_right _ _
    · intro r hr; exact Nat.le_trans (h3 r hr) (Nat.le_max_left _ _)
  · refine ⟨⟨?_, ?_, ?_⟩, Nat.le_max_left _ _, Nat.le_max_right _ _⟩
    · intro r hr
      rcases mem_insertLive hr with hr | hr
      · exact Nat.le_trans (h1 r hr) (Nat.le_max_left _ _)
      · subst hr; exact Nat.le_max_right _ _
    · intro r hr; exact Nat.le_trans (h2 r hr) (Nat.le_max_left _ _)
    · intro r hr; exact Nat.le_trans (h3 r hr) (Nat.le_max_left _ _)

theorem foldl_spec {α : Type} (f : Replay → α → Replay) (key : α → Option Nat)
    (hf : ∀ st p, ReplayBound st → ReplayBound (f st p) ∧ st.lastID ≤ (f st p).lastID ∧
      ∀ k, key p = some k → k ≤ (f st p).lastID) :
    ∀ (xs : List α) (st : Replay), ReplayBound st →
      ReplayBound (xs.foldl f st) ∧ st.lastID ≤ (xs.foldl f st).lastID ∧
      ∀ p ∈ xs, ∀ k, key p = some k → k ≤ (xs.foldl f st).lastID := by
  intro xs
  induction xs with
  | nil => intro st h; exact ⟨h, Nat.le_refl _, by simp⟩
  | cons x xs ih =>
    intro st h
    obtain ⟨a, b, c⟩ := hf st x h
    obtain ⟨a', b', c'⟩ := ih (f st x) a
    simp only [List.foldl_cons]
    refine ⟨a', Nat.le_trans b b', ?_⟩
    intro p hp k hk
    rcases List.mem_cons.mp hp with hp | hp
    · subst hp; exact Nat.le_trans (c k hk) b'
    · exact c' p hp k hk

theorem bumpExpiry_bound {st : Replay} (h : ReplayBound st) (r : Nat) (t : Int) (hr : st.multi.any (·.1 = r) = true) :
    ReplayBound { st with expiries := bumpExpiry st.expiries r t } := by
  obtain ⟨h1, h2, h3⟩ := h
  refine ⟨h1, h2, ?_⟩
  intro x hx
  rcases mem_setExpiry hx with hx | hx
  · exact h3 x hx
  · subst hx
    simp only [List.any_eq_true, decide_eq_true_eq] at hr
    obtain ⟨q, hq, rfl⟩ := hr
    exact h2 _ (List.mem_map.mpr ⟨q, hq, rfl⟩)

theorem replayRec_spec (mv : Int) (w : WRec) (st : Replay) (h : ReplayBound st) :
    ReplayBound (replayRec mv st w) ∧ st.lastID ≤ (replayRec mv st w).lastID ∧
      ∀ r ∈ w.idRefs, r ≤ (replayRec mv st w).lastID := by
  cases w with
  | series xs =>
    have := foldl_spec seriesStep (fun p => some p.1)
      (fun st p h => by
        obtain ⟨a, b, c⟩ := seriesStep_spec st p h
        exact ⟨a, b, fun k hk => by simp at hk; subst hk; exact c⟩) xs st h
    obtain ⟨a, b, c⟩ := this
    refine ⟨a, b, ?_⟩
    intro r hr
    rw [idRefs_series] at hr
    obtain ⟨p, hp, rfl⟩ := List.mem_map.mp hr
    exact c p hp _ rfl
  | samples xs =>
    have := foldl_spec (fun (st : Replay) (p : Nat × Int) =>
        if p.2 < mv then st else
        if st.multi.any (·.1 = p.1) then { st with expiries := bumpExpiry st.expiries p.1 p.2 } else st)
      (fun _ => none)
      (fun st p h => by
        refine ⟨?_, ?_, fun k hk => by simp at hk⟩
        · split
          · exact h
          · split
            · next hm => exact bumpExpiry_bound h _ _ hm
            · exact h
        · split
          · exact Nat.le_refl _
          · split <;> exact Nat.le_refl _) xs st h
    obtain ⟨a, b, _⟩ := this
    refine ⟨a, b, ?_⟩
    intro r hr
    rw [idRefs_samples] at hr
    simp at hr
  | stones xs =>
    have := foldl_spec (fun (st : Replay) (p : Nat × Interval) =>
        let st := { st with lastID := max st.lastID p.1 }
        if p.2.maxt < mv then st else
        if st.multi.any (·.1 = p.1) then { st with expiries := bumpExpiry st.expiries p.1 p.2.maxt } else st)
      (fun p => some p.1)
      (fun st p h => by
        have hb : ReplayBound { st with lastID := max st.lastID p.1 } := by
          obtain ⟨h1, h2, h3⟩ := h
          exact ⟨fun r hr => Nat.le_trans (h1 r hr) (Nat.le_max_left _ _),
                 fun r hr => Nat.le_trans (h2 r hr) (Nat.le_max_left _ _),
                 fun r hr => Nat.le_trans (h3 r hr) (Nat.le_max_left _ _)⟩
        refine ⟨?_, ?_, fun k hk => ?_⟩
        · simp only
          split
          · exact hb
          · split
            · next hm => exact bumpExpiry_bound hb _ _ hm
            · exact hb
        · simp only
          split
          · exact Nat.le_max_left _ _
          · split <;> exact Nat.le_max_left _ _
        · simp at hk; subst hk
          simp only
          split
          · exact Nat.le_max_right _ _
          · split <;> exact Nat.le_max_right _ _) xs st h
    obtain ⟨a, b, c⟩ := this
    refine ⟨a, b, ?_⟩
    intro r hr
    rw [idRefs_stones] at hr
    obtain ⟨p, hp, rfl⟩ := List.mem_map.mp hr
    exact c p hp _ rfl

theorem replay_spec (mv : Int) : ∀ (ws : List WRec) (st : Replay), ReplayBound st →
    ReplayBound (ws.foldl (replayRec mv) st) ∧ st.lastID ≤ (ws.foldl (replayRec mv) st).lastID ∧
      ∀ r ∈ ws.flatMap WRec.idRefs, r ≤ (ws.foldl (replayRec mv) st).lastID := by
  intro ws
  induction ws with
  | nil => intro st h; exact ⟨h, Nat.le_refl _, by simp⟩
  | cons w ws ih =>
    intro st h
    obtain ⟨a, b, c⟩ := replayRec_spec mv w st h
    obtain ⟨a', b', c'⟩ := ih _ a
    simp only [List.foldl_cons]
    refine ⟨a', Nat.le_trans b b', ?_⟩
    intro r hr
    simp only [List.flatMap_cons, List.mem_append] at hr
    rcases hr with hr | hr
    · exact Nat.le_trans (c r hr) b'
    · exact c' r hr

/-- After ANY restart — whatever the state before it — the restored counter bounds every reference the
    new head and the log name: no hypothesis on the state that was closed. -/
theorem reopen_bound (s : RefDb) : RefBound s.reopen := by
  unfold RefDb.reopen
  simp only
  apply gc_bound
  have hst := replay_spec (s.rollbackOpen.db.blocks.foldl (fun m b => max m b.maxt) MinI64) s.rollbackOpen.records {}
    ⟨by simp, by simp, by simp⟩
  obtain ⟨⟨h1, _, h3⟩, _, h4⟩ := hst
  refine RefBound.of_parts _ rfl h1 (by simp) (by simp) (by simp) h3 (by simp) ?_
  intro r hr
  apply h4
  simp only [RefDb.records, List.flatMap_append, List.mem_append, List.flatten_append, List.flatten_cons,
    List.flatten_nil, List.append_nil, List.flatMap_nil, List.not_mem_nil, or_false] at hr ⊢
  rcases hr with (hr | hr | hr)
  · exact Or.inl (Or.inl hr)
  · exact Or.inl (Or.inr hr)
  · exact Or.inr hr

theorem step_bound {s : RefDb} (h : RefBound s) (op : ROp) : RefBound (s.step op).1 := by
  cases op with
  | app r i t v k => exact append_bound h r i t v
  | base o =>
    cases o with
    | begin => exact (rollbackOpen_bound h)
    | app i t v => exact append_bound h 0 i t v
    | commit => exact commit_bound h
    | rollback => exact rollback_bound h
    | del a b sel => exact delete_bound h a b sel
    | compact => exact compact_bound h
    | cleantomb => exact h
    | reopen => exact reopen_bound s
    | q a b => exact h
    | win => exact h

theorem after_bound (ops : List ROp) : ∀ {s : RefDb}, RefBound s → RefBound (s.after ops) := by
  induction ops with
  | nil => intro s h; exact h
  | cons op ops ih => intro s h; exact ih (step_bound h op)

theorem init_bound (c : Cfg) : RefBound (RefDb.init c) := by
  intro r hr
  simp [RefDb.init, RefDb.mentioned, RefDb.records] at hr

end Prom.Refs
