import PromProofs.DbMaxBlk
/-
  C01 refinement, restart: `Db.reopen` (WAL replay) preserves the refinement relation `WGood`.

  1. the replayed series (and lo/hi) depend only on the `series` of the base (`reFold_series_congr_R`);
  2. `RF d d'`: what the restarted state `d'` has to do with the live state `d` (its head is the
     `maxBlk`-replay of the WAL, the window scalars bracket the replayed samples);
  3. `RF d d' → WGood d r → WGood d' r'`;
  4. `RF d { d.reopen with app := none }`.
-/
namespace Prom.Db
open Prom.Intervals

/-! ### 1. The replay depends only on the series of the base -/

theorem setSeries_series_R (d : Db) (s : HSeries) :
    (d.setSeries s).series =
      if d.series.any (·.idx = s.idx) then d.series.map fun x => if x.idx = s.idx then s else x
      else d.series ++ [s] := by
  unfold Db.setSeries
  split <;> rfl

theorem setSeries_series_congr_R {d d' : Db} (h : d.series = d'.series) (s : HSeries) :
    (d.setSeries s).series = (d'.setSeries s).series := by
  rw [setSeries_series_R, setSeries_series_R, h]

/-- Lockstep relation of two replay accumulators. -/
def AccEq_R (a a' : Db × Int × Int) : Prop := a.1.series = a'.1.series ∧ a.2 = a'.2

theorem reSmp_congr_R (c : Int) (a a' : Db × Int × Int) (p : Nat × Smp) (h : AccEq_R a a') :
    AccEq_R (reSmp c a p) (reSmp c a' p) := by
  obtain ⟨h1, h2⟩ := h
  unfold reSmp
  split
  · exact ⟨h1, h2⟩
  · refine ⟨?_, ?_⟩
    · dsimp only
      rw [getSeries_congr h1]
      exact setSeries_series_congr_R h1 _
    · dsimp only
      rw [h2]

theorem reStone_congr_R (c : Int) (h h' : Db) (p : Nat × Interval) (e : h.series = h'.series) :
    (reStone c h p).series = (reStone c h' p).series := by
  unfold reStone
  split
  · exact e
  · rw [e]
    split
    · rw [getSeries_congr e]
      exact setSeries_series_congr_R e _
    · exact e

theorem foldl_lockstep_R {α β : Type} (R : α → α → Prop) (f : α → β → α)
    (hf : ∀ a a' b, R a a' → R (f a b) (f a' b)) :
    ∀ (l : List β) (a a' : α), R a a' → R (l.foldl f a) (l.foldl f a') := by
  intro l
  induction l with
  | nil => intro a a' h; exact h
  | cons b bs ih => intro a a' h; rw [List.foldl_cons, List.foldl_cons]; exact ih _ _ (hf a a' b h)

theorem reRec_congr_R (c : Int) (a a' : Db × Int × Int) (r : Rec) (h : AccEq_R a a') :
    AccEq_R (reRec c a r) (reRec c a' r) := by
  cases r with
  | samples xs => exact foldl_lockstep_R AccEq_R (reSmp c) (reSmp_congr_R c) xs a a' h
  | stones xs =>
    obtain ⟨h1, h2⟩ := h
    refine ⟨?_, ?_⟩
    · exact foldl_lockstep_R (fun h h' : Db => h.series = h'.series) (reStone c)
        (reStone_congr_R c) xs a.1 a'.1 h1
    · show (a.2.1, a.2.2) = (a'.2.1, a'.2.2)
      rw [h2]

theorem reFold_series_congr_R (c : Int) (b b' : Db) (wal : List Rec) (h : b.series = b'.series) :
    (reFold c b wal).1.series = (reFold c b' wal).1.series ∧ (reFold c b wal).2 = (reFold c b' wal).2 :=
  foldl_lockstep_R AccEq_R (reRec c) (reRec_congr_R c) wal (b, MaxI64, MinI64) (b', MaxI64, MinI64)
    ⟨h, rfl⟩

theorem reBase_series_R (d : Db) : (reBase d).series = [] := by
  unfold reBase; split <;> rfl

/-- The head rebuilt by `reopen` has the series of `rep (maxBlk d.blocks) d.wal`. -/
theorem reFold_reBase_series_R (d : Db) :
    (reFold (maxBlk d.blocks) (reBase d) d.wal).1.series = (rep (maxBlk d.blocks) d.wal).series := by
  unfold rep
  exact (reFold_series_congr_R _ _ _ _ (by rw [reBase_series_R])).1

/-! ### reFinish, field by field -/

theorem reFinish_fields_R (H : Db) (lo hi : Int) :
    (reFinish (H, lo, hi)).blocks = H.blocks ∧ (reFinish (H, lo, hi)).cfg = H.cfg ∧
    (reFinish (H, lo, hi)).wal = H.wal ∧ (reFinish (H, lo, hi)).minValid = H.minValid ∧
    (reFinish (H, lo, hi)).series = (H.series.filter fun s => !s.phys.isEmpty) ∧
    (reFinish (H, lo, hi)).maxT = (if hi > H.maxT then hi else H.maxT) ∧
    (reFinish (H, lo, hi)).minT =
      (if (if lo < H.minT then lo else H.minT) < H.minValid then H.minValid
       else (if lo < H.minT then lo else H.minT)) := by
  unfold reFinish
  dsimp only
  by_cases hc : (if lo < H.minT then lo else H.minT) < H.minValid
  · rw [if_pos hc, if_pos hc]; exact ⟨rfl, rfl, rfl, rfl, rfl, rfl, rfl⟩
  · rw [if_neg hc, if_neg hc]; exact ⟨rfl, rfl, rfl, rfl, rfl, rfl, rfl⟩

theorem reBase_fields_R (d : Db) :
    (reBase d).blocks = d.blocks ∧ (reBase d).cfg = d.cfg ∧ (reBase d).wal = d.wal ∧
    ((d.blocks ≠ [] ∧ (reBase d).minT = maxBlk d.blocks ∧ (reBase d).maxT = maxBlk d.blocks ∧
        (reBase d).minValid = maxBlk d.blocks) ∨
     (d.blocks = [] ∧ (reBase d).minT = MaxI64 ∧ (reBase d).maxT = MinI64 ∧
        (reBase d).minValid = MinI64)) := by
  unfold reBase
  split
  · rename_i h
    have : d.blocks = [] := by simpa using h
    exact ⟨rfl, rfl, rfl, Or.inr ⟨this, rfl, rfl, rfl⟩⟩
  · rename_i h
    have : d.blocks ≠ [] := by simpa using h
    exact ⟨rfl, rfl, rfl, Or.inl ⟨this, rfl, rfl, rfl⟩⟩

/-! ### 2. The relation between the live state `d` and the restarted state `d'` -/

structure RF (d d' : Db) : Prop where
  blocks : d'.blocks = d.blocks
  wal : d'.wal = d.wal
  cfg : d'.cfg = d.cfg
  app : d'.app = none
  series : d'.series = (rep (maxBlk d.blocks) d.wal).series
  minValid : d'.minValid = maxBlk d.blocks
  minT_ge : d'.minValid ≤ d'.minT
  physLo : ∀ s ∈ d'.series, ∀ x ∈ s.phys, d'.minT ≤ x.t
  physHi : ∀ s ∈ d'.series, ∀ x ∈ s.phys, x.t ≤ d'.maxT
  maxT_ge : MinI64 ≤ d'.maxT
  maxT_blk : d.blocks ≠ [] → maxBlk d.blocks ≤ d'.maxT

theorem RF.gs {d d' : Db} (hF : RF d d') (i : Nat) :
    d'.getSeries i = (rep (maxBlk d.blocks) d.wal).getSeries i :=
  getSeries_congr hF.series i

/-- List view ↔ function view of "visible head sample of series `i`". -/
theorem mem_head_iff_R {e : Db} (hn : e.series.Pairwise (fun s s' => s.idx ≠ s'.idx)) (i : Nat)
    (x : Smp) :
    (∃ s ∈ e.series, s.idx = i ∧ x ∈ s.phys ∧ visible s.tombs x = true) ↔
      (x ∈ (e.getSeries i).phys ∧ visible (e.getSeries i).tombs x = true) := by
  constructor
  · rintro ⟨s, hs, rfl, hx, hv⟩
    rw [getSeries_of_mem hn hs]; exact ⟨hx, hv⟩
  · rintro ⟨hx, hv⟩
    rcases getSeries_cases e i with hc | hc
    · exact ⟨_, hc.1, hc.2, hx, hv⟩
    · rw [hc.2] at hx; cases hx

theorem RF.mem_R {d d' : Db} {r : Ref} (hF : RF d d') (hW : WGood d r) (s : HSeries)
    (hs : s ∈ d'.series) :
    s ∈ (rep (maxBlk d.blocks) d.wal).series ∧ (rep (maxBlk d.blocks) d.wal).getSeries s.idx = s := by
  have R := hW.wal _ (Int.le_refl _)
  rw [hF.series] at hs
  exact ⟨hs, R.rinv.getSeries_of_mem hs⟩

/-! ### 3. `RF` carries `WGood` over -/

theorem RF.inv {d d' : Db} {r : Ref} (hF : RF d d') (hW : WGood d r) : Inv d' := by
  have hI := hW.good.inv
  have R := hW.wal _ (Int.le_refl _)
  have hRI := R.rinv
  have hmem := hF.mem_R hW
  have hblk : ∀ b ∈ d'.blocks, b ∈ d.blocks ∧ b.maxt ≤ d'.minValid ∧ d.blocks ≠ [] := by
    intro b hb
    rw [hF.blocks] at hb
    refine ⟨hb, by rw [hF.minValid]; exact le_maxBlk hb, ?_⟩
    intro e; rw [e] at hb; cases hb
  refine ⟨{ idxNodup := ?_, physInc := ?_, physNe := ?_, physLo := hF.physLo, physHi := hF.physHi,
            physMax := ?_, tombHi := ?_, blkInc := ?_, blkRange := ?_, blkLtMinT := ?_,
            blkLtMinValid := ?_, blkLtMaxT := ?_, blkMax := ?_ }, ?_⟩
  · rw [hF.series]; exact hRI.idxNodup
  · intro s hs; exact hRI.physInc s (hmem s hs).1
  · intro s hs; exact hRI.physNe s (hmem s hs).1
  · intro s hs x hx
    exact (R.phys64 s.idx x (by rw [(hmem s hs).2]; exact hx)).2
  · intro s hs iv hiv l hl
    exact R.tombHi s.idx iv (by rw [(hmem s hs).2]; exact hiv) l (by rw [(hmem s hs).2]; exact hl)
  · intro b hb; exact hI.blkInc b (hblk b hb).1
  · intro b hb; exact hI.blkRange b (hblk b hb).1
  · intro b hb s hs x hx
    have h1 := (hI.blkRange b (hblk b hb).1 s hs x hx).2
    have h2 := (hblk b hb).2.1
    have h3 := hF.minT_ge
    show x.t < d'.minT
    omega
  · intro b hb s hs x hx
    have h1 := (hI.blkRange b (hblk b hb).1 s hs x hx).2
    have h2 := (hblk b hb).2.1
    show x.t < d'.minValid
    omega
  · intro b hb s hs x hx
    have h1 := (hI.blkRange b (hblk b hb).1 s hs x hx).2
    have h2 := (hblk b hb).2.1
    have h4 := hF.maxT_blk (hblk b hb).2.2
    rw [← hF.minValid] at h4
    show x.t < d'.maxT
    omega
  · intro b hb; exact hI.blkMax b (hblk b hb).1
  · intro a ha; rw [hF.app] at ha; cases ha

theorem head_iff_R {d : Db} {r : Ref} (hW : WGood d r) (i : Nat) (x : Smp) :
    (x ∈ ((rep (maxBlk d.blocks) d.wal).getSeries i).phys ∧
        visible ((rep (maxBlk d.blocks) d.wal).getSeries i).tombs x = true) ↔
      (x ∈ (d.getSeries i).phys ∧ visible (d.getSeries i).tombs x = true) := by
  have hI := hW.good.inv
  have R := hW.wal _ (Int.le_refl _)
  constructor
  · rintro ⟨hx, hv⟩
    rcases R.sup i x hx with hd | ⟨_, hh⟩
    · have hge := R.rinv.getSeries_ge i x hx
      have := R.vis i x hd hge
      exact ⟨hd, by rw [← this]; exact hv⟩
    · rw [hh] at hv; cases hv
  · rintro ⟨hx, hv⟩
    have hlo : d.minT ≤ x.t := by
      rcases getSeries_cases d i with hc | hc
      · exact hI.physLo _ hc.1 x hx
      · rw [hc.2] at hx; cases hx
    have h1 := hW.xinv.x1
    have h2 := hW.xinv.blkMaxt
    have hge : maxBlk d.blocks ≤ x.t := by omega
    exact ⟨R.sub i x hx hge, by rw [R.vis i x hx hge]; exact hv⟩

theorem RF.sim {d d' : Db} {r : Ref} (hF : RF d d') (hW : WGood d r) :
    Sim d' { r with pending := [], open_ := false } := by
  have hI := hW.good.inv
  have hS := hW.good.sim
  have R := hW.wal _ (Int.le_refl _)
  refine ⟨hS.sinc, ?_, ?_⟩
  · intro i x
    refine Iff.trans ?_ (hS.mem i x)
    have hn' : d'.series.Pairwise (fun s s' => s.idx ≠ s'.idx) := by
      rw [hF.series]; exact R.rinv.idxNodup
    unfold Db.mem
    rw [hF.blocks, mem_head_iff_R hn', mem_head_iff_R hI.idxNodup, hF.gs i]
    exact or_congr (head_iff_R hW i x) Iff.rfl
  · rw [hF.app]

theorem RF.pending_R {d d' : Db} (hF : RF d d') : pendingOf d' = [] := by
  unfold pendingOf; rw [hF.app]

theorem RF.tinv {d d' : Db} {r : Ref} (hF : RF d d') (hW : WGood d r) : TInv d' := by
  have R := hW.wal _ (Int.le_refl _)
  have hmem := hF.mem_R hW
  refine ⟨?_, ?_, ?_, ?_, ?_⟩
  · intro s hs x hx
    exact (R.phys64 s.idx x (by rw [(hmem s hs).2]; exact hx)).1
  · intro b hb; rw [hF.blocks] at hb; exact hW.tinv.blkMin b hb
  · intro p hp; rw [hF.pending_R] at hp; cases hp
  · intro s hs
    have := R.tombsOk s.idx
    rw [(hmem s hs).2] at this; exact this
  · intro b hb; rw [hF.blocks] at hb; exact hW.tinv.blkOk b hb

theorem RF.xinv {d d' : Db} (hF : RF d d') : XInv d' := by
  refine ⟨hF.minT_ge, ?_, hF.maxT_ge, ?_, ?_⟩
  · intro hm
    rw [hF.minValid]
    by_cases hb : d.blocks = []
    · rw [hb]; rfl
    · have h1 := hF.maxT_blk hb
      have h2 := maxBlk_ge d.blocks
      omega
  · rw [hF.blocks, hF.minValid]; exact Int.le_refl _
  · intro a ha; rw [hF.app] at ha; cases ha

theorem RF.walInv {d d' : Db} {r : Ref} (hF : RF d d') (hW : WGood d r) : WalInv d' := by
  intro c hc
  rw [hF.blocks] at hc
  rw [hF.wal]
  have R := hW.wal _ (Int.le_refl _)
  have Rc := hW.wal c hc
  have hmono : ∀ i, ((rep c d.wal).getSeries i).phys =
      (((rep (maxBlk d.blocks) d.wal).getSeries i).phys.filter fun x => decide (c ≤ x.t)) :=
    fun i => reFold_phys_mono (maxBlk d.blocks) c hc { cfg := ⟨0, 0⟩ } rfl d.wal i
  have hg := hF.gs
  refine ⟨Rc.rinv, ?_, ?_, ?_, Rc.tombHi, Rc.tombsOk, Rc.phys64⟩
  · intro i x hx hcx
    rw [hg] at hx
    rw [hmono, List.mem_filter]
    exact ⟨hx, by simpa using hcx⟩
  · intro i x hx
    left
    rw [hg]
    rw [hmono, List.mem_filter] at hx
    exact hx.1
  · intro i x hx hcx
    rw [hg] at hx ⊢
    have hmv : maxBlk d.blocks ≤ x.t := by omega
    have hxc : x ∈ ((rep c d.wal).getSeries i).phys := by
      rw [hmono, List.mem_filter]; exact ⟨hx, by simpa using hcx⟩
    by_cases hd : x ∈ (d.getSeries i).phys
    · rw [Rc.vis i x hd hcx, R.vis i x hd hmv]
    · rcases R.sup i x hx with h | ⟨_, h⟩
      · exact absurd h hd
      · rcases Rc.sup i x hxc with h' | ⟨_, h'⟩
        · exact absurd h' hd
        · rw [h, h']

theorem RF.wgood {d d' : Db} {r : Ref} (hF : RF d d') (hW : WGood d r) :
    WGood d' { r with pending := [], open_ := false } :=
  ⟨⟨hF.inv hW, LastOk.of_no_pending hF.pending_R, hF.sim hW,
    by rw [hF.cfg]; exact hW.good.ooo, by rw [hF.cfg]; exact hW.good.cr⟩,
   hF.tinv hW, hF.xinv, hF.walInv hW⟩

/-! ### 4. The restarted state -/

theorem reopen_RF (d : Db) : RF d { d.reopen with app := none } := by
  have hb0 := reBase_series_R d
  have hRI := reFold_RInv (maxBlk d.blocks) (reBase d) hb0 d.wal
  have hBd := reFold_bounds (maxBlk d.blocks) (reBase d) hb0 d.wal
  have hFl := reFold_fields (maxBlk d.blocks) (reBase d) d.wal
  have hser := reFold_reBase_series_R d
  have hmvge := maxBlk_ge d.blocks
  obtain ⟨b1, b2, b3, hcase⟩ := reBase_fields_R d
  rw [reopen_eq]
  generalize reFold (maxBlk d.blocks) (reBase d) d.wal = acc at hRI hBd hFl hser ⊢
  obtain ⟨H, lo, hi⟩ := acc
  dsimp only at hRI hBd hFl hser
  obtain ⟨f1, f2, f3, f4, f5, f6, f7⟩ := reFinish_fields_R H lo hi
  obtain ⟨g1, g2, g3, g4, g5, g6, _⟩ := hFl
  obtain ⟨hlohi, hlo, hhi, hloc⟩ := hBd
  have hfilt : (H.series.filter fun s => !s.phys.isEmpty) = H.series := by
    rw [List.filter_eq_self]
    intro s hs
    have := hRI.physNe s hs
    cases h : s.phys with
    | nil => exact absurd h this
    | cons a as => rfl
  have hscal : (d.blocks ≠ [] ∧ H.minT = maxBlk d.blocks ∧ H.maxT = maxBlk d.blocks ∧
        H.minValid = maxBlk d.blocks) ∨
      (d.blocks = [] ∧ H.minT = MaxI64 ∧ H.maxT = MinI64 ∧ H.minValid = MinI64 ∧
        maxBlk d.blocks = MinI64) := by
    rcases hcase with ⟨h0, h1, h2, h3⟩ | ⟨h0, h1, h2, h3⟩
    · exact Or.inl ⟨h0, g3.trans h1, g4.trans h2, g5.trans h3⟩
    · exact Or.inr ⟨h0, g3.trans h1, g4.trans h2, g5.trans h3, by rw [h0]; rfl⟩
  have hsers : ∀ s, s ∈ ({ reFinish (H, lo, hi) with app := none } : Db).series → s ∈ H.series := by
    intro s hs
    have h' : s ∈ (reFinish (H, lo, hi)).series := hs
    rw [f5, hfilt] at h'; exact h'
  refine
    { blocks := f1.trans (g1.trans b1), wal := f3.trans (g6.trans b3), cfg := f2.trans (g2.trans b2),
      app := rfl, series := ?_, minValid := ?_, minT_ge := ?_, physLo := ?_, physHi := ?_,
      maxT_ge := ?_, maxT_blk := ?_ }
  · show (reFinish (H, lo, hi)).series = _
    rw [f5, hfilt, hser]
  · show (reFinish (H, lo, hi)).minValid = _
    rw [f4]
    rcases hscal with ⟨_, _, _, h⟩ | ⟨_, _, _, h, h'⟩
    · exact h
    · rw [h, h']
  · show (reFinish (H, lo, hi)).minValid ≤ (reFinish (H, lo, hi)).minT
    rw [f4, f7]
    split <;> omega
  · intro s hs x hx
    have h1 := hlohi s (hsers s hs) x hx
    have h2 := hRI.physGe s (hsers s hs) x hx
    show (reFinish (H, lo, hi)).minT ≤ x.t
    rw [f7]
    rcases hscal with ⟨_, e1, _, e3⟩ | ⟨_, e1, _, e3, e4⟩
    · rw [e1, e3]; split <;> (try split) <;> omega
    · rw [e1, e3]; split <;> (try split) <;> omega
  · intro s hs x hx
    have h1 := hlohi s (hsers s hs) x hx
    show x.t ≤ (reFinish (H, lo, hi)).maxT
    rw [f6]
    split <;> omega
  · show MinI64 ≤ (reFinish (H, lo, hi)).maxT
    rw [f6]
    rcases hscal with ⟨_, _, e2, _⟩ | ⟨_, _, e2, _, _⟩
    · rw [e2]; split <;> omega
    · rw [e2]; split <;> omega
  · intro hne
    show _ ≤ (reFinish (H, lo, hi)).maxT
    rw [f6]
    rcases hscal with ⟨_, _, e2, _⟩ | ⟨he, _, _, _, _⟩
    · rw [e2]; split <;> omega
    · exact absurd he hne

/-- Restart (WAL replay) preserves the refinement relation. -/
theorem reopen_wgood {d : Db} {r : Ref} (hW : WGood d r) :
    WGood ({ d.reopen with app := none }) { r with pending := [], open_ := false } :=
  (reopen_RF d).wgood hW

end Prom.Db
