import PromModel.Rules.Alerting
import PromModel.Rules.AlertingRef
/-
  Helper definitions and lemmas for property C44 (alert state machine): abstraction of a map entry to
  the documented state, the entry invariant, per-fingerprint refinement of the reference semantics,
  `Eval` acts per fingerprint, and sequence-level facts about the reference fold.
-/
namespace Prom.C44
open Prom.Alerting

def abs : Option Alert → Ref.St
  | none => .idle
  | some a =>
    match a.state with
    | .pending => .pending a.activeAt
    | .firing => .firing a.activeAt (a.firedAt.getD 0) a.keepFiringSince
    | .inactive => .resolved a.activeAt (a.firedAt.getD 0) (a.resolvedAt.getD 0)

def Inv (a : Alert) : Prop := (a.state = .inactive ↔ a.resolvedAt.isSome)
def InvO (o : Option Alert) : Prop := ∀ a, o = some a → Inv a

theorem settle_pending (c : Cfg) (ts : Int) (a : Alert) (h : a.state = .pending) :
    settle c ts a = if ts - a.activeAt ≥ c.hold then { a with state := .firing, firedAt := some ts } else a := by
  simp only [settle, h]
  by_cases hh : ts - a.activeAt ≥ c.hold
  · simp [hh]
  · simp [hh, h]

theorem settle_firing (c : Cfg) (ts : Int) (a : Alert) (h : a.state = .firing) :
    settle c ts a = if ts - a.activeAt ≥ c.hold then a
      else { a with state := .pending, firedAt := none, lastSentAt := none, keepFiringSince := none } := by
  simp only [settle, h]
  by_cases hh : ts - a.activeAt ≥ c.hold
  · simp [hh, h]; omega
  · simp [hh, h]

theorem settle_inactive (c : Cfg) (ts : Int) (a : Alert) (h : a.state = .inactive) :
    settle c ts a = a := by
  simp [settle, h]


theorem perKey_refines (c : Cfg) (ts : Int) (k : Labels) (v : Option Nat) (old : Option Alert)
    (hinv : InvO old) :
    abs (perKey c ts k v old).kept = Ref.step c.hold c.kff ts v.isSome (abs old)
    ∧ InvO (perKey c ts k v old).kept := by
  cases old with
  | none =>
    cases v with
    | none => simp [perKey, merge1, abs, Ref.step, InvO]
    | some v =>
      have hp : (fresh k ts v).state = .pending := rfl
      simp only [perKey, merge1, advance, Option.isSome_some, if_true]
      rw [settle_pending _ _ _ (by simp [fresh])]
      by_cases hh : c.hold ≤ 0
      · have : ts - ts ≥ c.hold := by omega
        simp [fresh, this, abs, Ref.step, Ref.start, hh, InvO, Inv]
      · have : ¬ (ts - ts ≥ c.hold) := by omega
        simp [fresh, this, abs, Ref.step, Ref.start, hh, InvO, Inv]
  | some a =>
    have hi : Inv a := hinv a rfl
    unfold Inv at hi
    cases v with
    | some v =>
      cases hst : a.state with
      | inactive =>
        simp only [perKey, merge1, hst, advance, Option.isSome_some, if_true, ne_eq, not_true_eq_false, if_false]
        rw [settle_pending _ _ _ (by simp [fresh])]
        by_cases hh : c.hold ≤ 0
        · simp [fresh, abs, Ref.step, Ref.start, hh, InvO, Inv, hst]
        · simp [fresh, abs, Ref.step, Ref.start, hh, InvO, Inv, hst]
      | pending =>
        simp only [perKey, merge1, hst, advance, Option.isSome_some, if_true, ne_eq]
        simp only [reduceCtorEq, not_false_eq_true, if_true]
        rw [settle_pending _ _ _ (by simp [hst])]
        by_cases hh : ts - a.activeAt ≥ c.hold
        · simp [abs, Ref.step, hh, InvO, Inv, hst] ; simpa [hst] using hi
        · simp [abs, Ref.step, hh, InvO, Inv, hst] ; simpa [hst] using hi
      | firing =>
        simp only [perKey, merge1, hst, advance, Option.isSome_some, if_true, ne_eq]
        simp only [reduceCtorEq, not_false_eq_true, if_true]
        rw [settle_firing _ _ _ (by simp [hst])]
        by_cases hh : ts - a.activeAt ≥ c.hold
        · simp [abs, Ref.step, hh, InvO, Inv, hst] ; simpa [hst] using hi
        · simp [abs, Ref.step, hh, InvO, Inv, hst] ; simpa [hst] using hi
    | none =>
      cases hst : a.state with
      | pending =>
        simp [perKey, merge1, advance, hst, abs, Ref.step, InvO]
      | inactive =>
        have hr : a.resolvedAt.isSome := hi.mp hst
        obtain ⟨r, hr⟩ := Option.isSome_iff_exists.mp hr
        by_cases hh : ts - r > resolvedRetention
        · have hh' : ts - r > Ref.retention := by simpa [Ref.retention, resolvedRetention] using hh
          simp [perKey, merge1, advance, hst, abs, Ref.step, InvO, hr, hh, hh']
        · have hh' : ¬ ts - r > Ref.retention := by simpa [Ref.retention, resolvedRetention] using hh
          simp [perKey, merge1, advance, hst, abs, Ref.step, InvO, hr, hh, hh', Inv]
      | firing =>
        have hr : a.resolvedAt = none := by
          cases h : a.resolvedAt with
          | none => rfl
          | some r => have := hi.mpr (by simp [h]); simp [hst] at this
        by_cases hk : c.kff > 0
        · by_cases hw : ts - a.keepFiringSince.getD ts < c.kff
          · simp only [perKey, merge1, advance, hst, hk, hw, hr, Option.isSome_none]
            simp only [and_self, if_true, Bool.false_eq_true, if_false, reduceCtorEq, decide_false, Bool.or_false,
              not_true_eq_false, and_false, ne_eq, not_false_eq_true]
            rw [settle_firing _ _ _ (by simp [hst])]
            by_cases hh : ts - a.activeAt ≥ c.hold
            · simp [abs, Ref.step, hh, InvO, Inv, hst, hk, hw, hr]
            · simp [abs, Ref.step, hh, InvO, Inv, hst, hk, hw, hr]
          · simp [perKey, merge1, advance, hst, hk, hw, hr, abs, Ref.step, InvO, Inv]
        · simp [perKey, merge1, advance, hst, hk, hr, abs, Ref.step, InvO, Inv]


/-! ### From one fingerprint to `Eval` -/

/-- Is label set `k` among the alert label sets of the query result? -/
def present (c : Cfg) (res : List Sample) (k : Labels) : Bool := ((resultAlerts c res).lookup k).isSome

/-- A successful evaluation acts on every fingerprint independently through `perKey`. -/
theorem eval_ok_get (s : RuleSt) (ts qoff limit : Int) (res : List Sample) (vec : List OutSample)
    (h : (eval s ts qoff limit (some res)).2 = .ok vec) (k : Labels) :
    (eval s ts qoff limit (some res)).1.get k
      = (perKey s.cfg ts k ((resultAlerts s.cfg res).lookup k) (s.get k)).kept
    ∧ (eval s ts qoff limit (some res)).1.cfg = s.cfg
    ∧ (eval s ts qoff limit (some res)).1.restored = s.restored := by
  unfold eval at h ⊢
  cases hc : collect s.cfg res with
  | none => simp [hc] at h
  | some rs =>
    simp only [hc] at h ⊢
    have hrs : rs = resultAlerts s.cfg res := by
      simp only [collect] at hc; split at hc <;> simp_all
    split
    · rename_i hl; rw [if_pos hl] at h; simp at h
    · simp [hrs]


/-! ### Sequence-level facts about the reference fold -/
namespace RefL
open Ref

def foldSt (hold kff : Int) (s : St) (l : List (Int × Bool)) : St :=
  l.foldl (fun s e => step hold kff e.1 e.2 s) s

/-- State of an element continuously active at the (sorted) times `t0 :: …`: firing from the first
    evaluation at least `hold` after `t0`. -/
def activeSpec (hold t0 : Int) (l : List Int) : St :=
  match l.find? (fun t => decide (t - t0 ≥ hold)) with
  | some f => .firing t0 f none
  | none => .pending t0

theorem fold_active (hold kff t0 : Int) (pre rest : List Int)
    (hs : (pre ++ rest).Pairwise (· ≤ ·)) :
    foldSt hold kff (activeSpec hold t0 pre) (rest.map (·, true)) = activeSpec hold t0 (pre ++ rest) := by
  induction rest generalizing pre with
  | nil => simp [foldSt]
  | cons t rest ih =>
    have h1 : step hold kff t true (activeSpec hold t0 pre) = activeSpec hold t0 (pre ++ [t]) := by
      unfold activeSpec
      rw [List.find?_append]
      cases hf : pre.find? (fun t => decide (t - t0 ≥ hold)) with
      | some f =>
        have hp := List.find?_some hf
        have hm := List.mem_of_find?_eq_some hf
        have hle : f ≤ t := by
          rw [List.pairwise_append] at hs
          exact hs.2.2 f hm t (by simp)
        have : t - t0 ≥ hold := by simp at hp; omega
        simp [step, this]
      | none =>
        by_cases hh : t - t0 ≥ hold
        · simp [step, hh]
        · simp [step, hh]
    have h2 := ih (pre ++ [t]) (by simpa using hs)
    simp only [foldSt, List.map_cons, List.foldl_cons] at h2 ⊢
    rw [h1, h2]; simp

theorem absent_inactive_stays (hold kff : Int) (s : St) (l : List Int) (h : s.active = false) :
    (foldSt hold kff s (l.map (·, false))).active = false := by
  induction l generalizing s with
  | nil => simpa [foldSt]
  | cons t l ih =>
    simp only [foldSt, List.map_cons, List.foldl_cons]
    apply ih
    cases s with
    | idle => simp [step, St.active]
    | resolved a f r =>
      by_cases hh : t - r > retention
      · simp [step, St.active, hh]
      · simp [step, St.active, hh]
    | pending a => simp [St.active] at h
    | firing a f k => simp [St.active] at h

end RefL


namespace RefL
open Ref

/-- Keep-firing under continued absence: starting in `firing a f (some t1)` (first absence at `t1`),
    the alert is still firing (with the same `keepSince`) iff every evaluation is within `kff` of `t1`. -/
theorem fold_keep (hold kff a f t1 : Int) (l : List Int) (hk : kff > 0)
    (hh : ∀ t ∈ l, t - a ≥ hold) :
    (∀ t ∈ l, t - t1 < kff) → foldSt hold kff (.firing a f (some t1)) (l.map (·, false)) = .firing a f (some t1) := by
  induction l with
  | nil => intro _; simp [foldSt]
  | cons t l ih =>
    intro hw
    have h1 : t - t1 < kff := hw t (by simp)
    have h2 : t - a ≥ hold := hh t (by simp)
    simp only [foldSt, List.map_cons, List.foldl_cons]
    have : step hold kff t false (.firing a f (some t1)) = .firing a f (some t1) := by
      simp [step, hk, h1, h2]
    rw [this]
    exact ih (fun t ht => hh t (by simp [ht])) (fun t ht => hw t (by simp [ht]))

theorem fold_keep_expired (hold kff a f t1 : Int) (l : List Int) (hk : kff > 0)
    (hh : ∀ t ∈ l, t - a ≥ hold) :
    (∃ t ∈ l, ¬ t - t1 < kff) → (foldSt hold kff (.firing a f (some t1)) (l.map (·, false))).active = false := by
  induction l with
  | nil => intro ⟨t, ht, _⟩; simp at ht
  | cons t l ih =>
    intro hex
    simp only [foldSt, List.map_cons, List.foldl_cons]
    by_cases h1 : t - t1 < kff
    · have h2 : t - a ≥ hold := hh t (by simp)
      have : step hold kff t false (.firing a f (some t1)) = .firing a f (some t1) := by
        simp [step, hk, h1, h2]
      rw [this]
      apply ih (fun t ht => hh t (by simp [ht]))
      obtain ⟨u, hu, hnu⟩ := hex
      simp at hu
      rcases hu with rfl | hu
      · exact absurd h1 hnu
      · exact ⟨u, hu, hnu⟩
    · have : step hold kff t false (.firing a f (some t1)) = .resolved a f t := by
        simp [step, h1]
      rw [this]
      exact absent_inactive_stays hold kff _ l (by simp [St.active])

/-- Retention of a resolved alert under continued absence. -/
theorem fold_retained (hold kff a f r : Int) (l : List Int) (h : ∀ t ∈ l, t - r ≤ retention) :
    foldSt hold kff (.resolved a f r) (l.map (·, false)) = .resolved a f r := by
  induction l with
  | nil => simp [foldSt]
  | cons t l ih =>
    have h1 : ¬ t - r > retention := by have := h t (by simp); omega
    simp only [foldSt, List.map_cons, List.foldl_cons]
    have : step hold kff t false (.resolved a f r) = .resolved a f r := by simp [step, h1]
    rw [this]
    exact ih (fun t ht => h t (by simp [ht]))

theorem idle_absent_stays (hold kff : Int) (l : List Int) :
    foldSt hold kff .idle (l.map (·, false)) = .idle := by
  induction l with
  | nil => simp [foldSt]
  | cons t l ih => simpa [foldSt, step] using ih

theorem fold_retention_expired (hold kff a f r : Int) (l : List Int) (h : ∃ t ∈ l, t - r > retention) :
    foldSt hold kff (.resolved a f r) (l.map (·, false)) = .idle := by
  induction l with
  | nil => obtain ⟨t, ht, _⟩ := h; simp at ht
  | cons t l ih =>
    simp only [foldSt, List.map_cons, List.foldl_cons]
    by_cases h1 : t - r > retention
    · have : step hold kff t false (.resolved a f r) = .idle := by simp [step, h1]
      rw [this]; exact idle_absent_stays hold kff l
    · have : step hold kff t false (.resolved a f r) = .resolved a f r := by simp [step, h1]
      rw [this]
      apply ih
      obtain ⟨u, hu, hnu⟩ := h
      simp at hu
      rcases hu with rfl | hu
      · exact absurd hnu h1
      · exact ⟨u, hu, hnu⟩

end RefL

/-! ### Histories of successful evaluations -/

/-- Input of one evaluation. -/
structure EvalIn where
  ts : Int
  qoff : Int
  limit : Int
  res : List Sample

/-- Run a history of evaluations; `none` as soon as one of them returns an error. -/
def runOk (s : RuleSt) : List EvalIn → Option RuleSt
  | [] => some s
  | e :: rest =>
    match eval s e.ts e.qoff e.limit (some e.res) with
    | (s', .ok _) => runOk s' rest
    | (_, .error _) => none

/-- Every map entry satisfies the entry invariant. -/
def InvS (s : RuleSt) : Prop := ∀ k, InvO (s.get k)

/-- The documented trace of label set `k` in a history. -/
def traceOf (c : Cfg) (k : Labels) (h : List EvalIn) : List (Int × Bool) :=
  h.map fun e => (e.ts, present c e.res k)

theorem runOk_refines (s0 : RuleSt) (h : List EvalIn) (s : RuleSt) (k : Labels)
    (hinv : InvS s0) (hr : runOk s0 h = some s) :
    abs (s.get k) = RefL.foldSt s0.cfg.hold s0.cfg.kff (abs (s0.get k)) (traceOf s0.cfg k h)
    ∧ InvS s ∧ s.cfg = s0.cfg := by
  induction h generalizing s0 with
  | nil => simp [runOk] at hr; subst hr; simp [RefL.foldSt, traceOf, hinv]
  | cons e rest ih =>
    simp only [runOk] at hr
    split at hr
    · rename_i s' vec he
      have hok : (eval s0 e.ts e.qoff e.limit (some e.res)).2 = .ok vec := by rw [he]
      have hs' : (eval s0 e.ts e.qoff e.limit (some e.res)).1 = s' := by rw [he]
      have hinv' : InvS s' := by
        intro k'
        have := (eval_ok_get s0 e.ts e.qoff e.limit e.res vec hok k').1
        rw [hs'] at this; rw [this]
        exact (perKey_refines _ _ _ _ _ (hinv k')).2
      have hg := eval_ok_get s0 e.ts e.qoff e.limit e.res vec hok k
      rw [hs'] at hg
      obtain ⟨h1, h2, h3⟩ := ih s' hinv' hr
      refine ⟨?_, h2, by rw [h3, hg.2.1]⟩
      rw [h1, hg.2.1, hg.1, (perKey_refines _ _ _ _ _ (hinv k)).1]
      simp [RefL.foldSt, traceOf, present]
    · simp at hr

end Prom.C44
