import PromModel.Tsdb.HistChunk
import PromProofs.ChunkXorLemmas
import PromProofs.HistChunk
/-
  C11 stage 2: `decodeChunk (encodeChunk c) = some c` for integer histogram chunks (exponential schemas).
-/
namespace Prom.HistChunk
open Prom.Bits Prom.Varbit Prom.Hist Prom.ChunkXor

/-! ## layout -/

theorem readZeroThreshold_put (zt : Nat) (rest : Bits) (h64 : zt < 2 ^ 64) (hnz : zt ≠ 2 ^ 63) :
    readZeroThreshold (putZeroThreshold zt ++ rest) = some (zt, rest) := by
  unfold putZeroThreshold
  split
  · rename_i h0
    have : zt = 0 := by omega
    subst this
    simp [readZeroThreshold, readBits_natToBits]
  · split
    · rename_i h0 hp
      obtain ⟨hm, hlo, hhi⟩ := hp
      have hz : (zt / 2 ^ 52 - 779 + 779) * 2 ^ 52 = zt := by omega
      have hb1 : zt / 2 ^ 52 - 779 ≠ 0 := by omega
      have hb2 : zt / 2 ^ 52 - 779 ≠ 255 := by omega
      have hb : zt / 2 ^ 52 - 779 < 2 ^ 8 := by omega
      generalize zt / 2 ^ 52 - 779 = b at hz hb1 hb2 hb
      simp only [readZeroThreshold, readBits_natToBits_lt rest hb]
      rw [hz]
    · have hb : (255 : Nat) < 2 ^ 8 := by decide
      simp only [readZeroThreshold, List.append_assoc, readBits_natToBits_lt _ hb]
      exact readBits_natToBits_lt rest h64

def SpanOk (s : Span) : Prop := I64 s.offset ∧ s.length < 2 ^ 64

theorem readSpansN_put (spans : List Span) (rest : Bits) (h : ∀ s ∈ spans, SpanOk s) :
    readSpansN spans.length
      ((spans.flatMap fun s => putVarbitUint s.length ++ putVarbitInt s.offset) ++ rest) = some (spans, rest) := by
  induction spans with
  | nil => rfl
  | cons s tl ih =>
    obtain ⟨ho, hl⟩ := h s (by simp)
    simp only [List.length_cons, List.flatMap_cons, List.append_assoc, readSpansN,
      readVarbitUint_put _ _ hl, readVarbitInt_put _ _ ho, ih (fun x hx => h x (by simp [hx]))]

theorem readSpans_put (spans : List Span) (rest : Bits) (h : ∀ s ∈ spans, SpanOk s) (hl : spans.length < 2 ^ 64) :
    readSpans (putSpans spans ++ rest) = some (spans, rest) := by
  simp only [readSpans, putSpans, List.append_assoc, readVarbitUint_put _ _ hl]
  exact readSpansN_put spans rest h

structure LayoutOk (l : Layout) : Prop where
  zt : l.zt < 2 ^ 64
  ztNZ : l.zt ≠ 2 ^ 63
  schema : I64 l.schema
  notCustom : l.schema ≠ customSchema
  customNil : l.custom = []
  p : ∀ s ∈ l.pSpans, SpanOk s
  n : ∀ s ∈ l.nSpans, SpanOk s
  pl : l.pSpans.length < 2 ^ 64
  nl : l.nSpans.length < 2 ^ 64

theorem readLayout_put (l : Layout) (rest : Bits) (ok : LayoutOk l) :
    readLayout (putLayout l ++ rest) = some (l, rest) := by
  simp only [readLayout, putLayout, ok.notCustom, if_false, List.append_assoc, List.nil_append,
    readZeroThreshold_put _ _ ok.zt ok.ztNZ, readVarbitInt_put _ _ ok.schema,
    readSpans_put _ _ ok.p ok.pl, readSpans_put _ _ ok.n ok.nl]
  have := ok.customNil
  cases l
  simp_all

/-! ## samples -/

/-- small enough that no delta or delta-of-delta leaves int64 -/
def Sm (x : Int) : Prop := -(2 ^ 61 : Int) < x ∧ x < 2 ^ 61
def Sm2 (x : Int) : Prop := -(2 ^ 62 : Int) < x ∧ x < 2 ^ 62

theorem I64_of (x : Int) (h : -(2 ^ 63 : Int) ≤ x ∧ x < 2 ^ 63) : I64 x := by
  simp only [I64, two63]; omega

theorem readIntsN_put (l : List Int) (rest : Bits) (h : ∀ v ∈ l, I64 v) :
    readIntsN l.length (putInts l ++ rest) = some (l, rest) := by
  induction l with
  | nil => rfl
  | cons v tl ih =>
    simp only [List.length_cons, putInts, List.flatMap_cons, List.append_assoc, readIntsN,
      readVarbitInt_put _ _ (h v (by simp))]
    have := ih (fun x hx => h x (by simp [hx]))
    simp only [putInts] at this
    simp only [this]

theorem dodGo_nil (as ds : List Int) : dodGo [] as ds = ([], as, ds) := by
  cases as <;> cases ds <;> rfl

theorem dodGo_spec : ∀ (bs as ds : List Int), bs.length = as.length → as.length = ds.length →
    (∀ b ∈ bs, Sm b) → (∀ a ∈ as, Sm a) → (∀ d ∈ ds, Sm2 d) →
    (dodGo bs as ds).1.length = bs.length ∧ (dodGo bs as ds).2.1 = bs ∧
    applyDods (dodGo bs as ds).1 as ds = (bs, (dodGo bs as ds).2.2) ∧ (dodGo bs as ds).2.2.length = bs.length ∧
    (∀ x ∈ (dodGo bs as ds).1, I64 x) ∧ (∀ d ∈ (dodGo bs as ds).2.2, Sm2 d)
  | [], [], [], _, _, _, _, _ => by simp [dodGo, applyDods]
  | [], _ :: _, _, h, _, _, _, _ => by simp at h
  | [], [], _ :: _, _, h, _, _, _ => by simp at h
  | _ :: _, [], _, h, _, _, _, _ => by simp at h
  | _ :: _, _ :: _, [], _, h, _, _, _ => by simp at h
  | b :: bs, a :: as, d :: ds, h1, h2, hb, ha, hd => by
    obtain ⟨i1, i2, i3, i4, i5, i6⟩ := dodGo_spec bs as ds (by simpa using h1) (by simpa using h2)
      (fun x hx => hb x (by simp [hx])) (fun x hx => ha x (by simp [hx])) (fun x hx => hd x (by simp [hx]))
    have hb0 := hb b (by simp); have ha0 := ha a (by simp); have hd0 := hd d (by simp)
    simp only [Sm, Sm2] at hb0 ha0 hd0
    refine ⟨by simp [dodGo, i1], by simp [dodGo, i2], ?_, by simp [dodGo, i4], ?_, ?_⟩
    · simp only [dodGo, applyDods, i3, Prod.mk.injEq, List.cons.injEq, and_true]
      constructor <;> omega
    · intro x hx
      simp only [dodGo, List.mem_cons] at hx
      rcases hx with rfl | hx
      · exact I64_of _ (by omega)
      · exact i5 x hx
    · intro x hx
      simp only [dodGo, List.mem_cons] at hx
      rcases hx with rfl | hx
      · simp only [Sm2]; omega
      · exact i6 x hx

/-- encoder state vs. iterator state -/
structure Rel (a d : St) : Prop where
  t : a.t = d.t
  tDelta : a.tDelta = d.tDelta
  sum : a.sum = d.sum
  sum64 : a.sum < 2 ^ 64
  win : WinRel a.leading a.trailing d.leading d.trailing
  live : a.sum ≠ staleBits → a.cnt = d.cnt ∧ a.cntDelta = d.cntDelta ∧ a.zcnt = d.zcnt ∧ a.zcntDelta = d.zcntDelta ∧
    a.pB = d.pB ∧ a.pD = d.pD ∧ a.nB = d.nB ∧ a.nD = d.nD

structure Bnd (numP numN : Nat) (a : St) : Prop where
  t : Sm a.t
  tDelta : Sm2 a.tDelta
  cnt : 0 ≤ a.cnt ∧ a.cnt < 2 ^ 61
  cntDelta : Sm2 a.cntDelta
  zcnt : 0 ≤ a.zcnt ∧ a.zcnt < 2 ^ 61
  zDelta : Sm2 a.zcntDelta
  pB : ∀ b ∈ a.pB, Sm b
  pD : ∀ d ∈ a.pD, Sm2 d
  nB : ∀ b ∈ a.nB, Sm b
  nD : ∀ d ∈ a.nD, Sm2 d
  pl : a.pB.length = numP ∧ a.pD.length = numP
  nl : a.nB.length = numN ∧ a.nD.length = numN

/-- a stored sample the encoder can take (what the layout-level appender produces from valid histograms
    inside ±2^61) -/
structure SOk (numP numN : Nat) (s : Stored) : Prop where
  t : Sm s.t
  cnt : s.count < 2 ^ 61
  zcnt : s.zcount < 2 ^ 61
  sum : s.sum < 2 ^ 64
  stale : s.sum = staleBits → s.count = 0 ∧ s.zcount = 0 ∧ s.pB = [] ∧ s.nB = []
  live : s.sum ≠ staleBits → s.pB.length = numP ∧ s.nB.length = numN ∧ (∀ b ∈ s.pB, Sm b) ∧ (∀ b ∈ s.nB, Sm b)

theorem staleBits_lt : staleBits < 2 ^ 64 := by decide

theorem decNext_encNext (numP numN : Nat) (a d : St) (s : Stored) (rest : Bits) (rel : Rel a d)
    (bnd : Bnd numP numN a) (hs : SOk numP numN s) (hsuf : a.sum = staleBits → s.sum = staleBits) :
    ∃ d', decNext d ((encNext a s).1 ++ rest) = some (d', rest) ∧ Rel (encNext a s).2 d' ∧
      Bnd numP numN (encNext a s).2 ∧ storedOf d' = s := by
  have ht := hs.t; have hat := bnd.t; have hatd := bnd.tDelta
  have hc := bnd.cnt; have hcd := bnd.cntDelta; have hz := bnd.zcnt; have hzd := bnd.zDelta
  simp only [Sm, Sm2] at ht hat hatd hcd hzd
  have hsc := hs.cnt; have hsz := hs.zcnt
  obtain ⟨dl', dt', hx, hwin⟩ := xorRead_xorWrite a.sum s.sum a.leading a.trailing d.leading d.trailing
    (putInts (dodGo s.pB a.pB a.pD).1 ++ (putInts (dodGo s.nB a.nB a.nD).1 ++ rest)) rel.sum64 hs.sum rel.win
  have hds : d.sum = a.sum := rel.sum.symm
  have hI1 : I64 (s.t - a.t - a.tDelta) := I64_of _ (by omega)
  have hI0 : I64 0 := I64_of _ (by omega)
  have hI2 : I64 ((s.count : Int) - a.cnt - a.cntDelta) := I64_of _ (by omega)
  have hI3 : I64 ((s.zcount : Int) - a.zcnt - a.zcntDelta) := I64_of _ (by omega)
  by_cases hst : s.sum = staleBits
  · -- staleness marker: no counts, no buckets
    obtain ⟨c0, z0, p0, n0⟩ := hs.stale hst
    refine ⟨{ d with tDelta := d.tDelta + (s.t - a.t - a.tDelta), t := d.t + (d.tDelta + (s.t - a.t - a.tDelta)),
                     cntDelta := d.cntDelta + 0, cnt := d.cnt + (d.cntDelta + 0),
                     zcntDelta := d.zcntDelta + 0, zcnt := d.zcnt + (d.zcntDelta + 0),
                     sum := s.sum, leading := dl', trailing := dt' }, ?_, ?_, ?_, ?_⟩
    · simp only [p0, n0, dodGo_nil, putInts, List.flatMap_nil, List.nil_append] at hx
      simp only [encNext, decNext, hst, if_true, p0, n0, dodGo_nil, putInts, List.flatMap_nil, List.append_nil,
        List.append_assoc, readVarbitInt_put _ _ hI1, readVarbitInt_put _ _ hI0, hds]
      rw [hst] at hx
      simp only [hx, if_true]
    · refine ⟨?_, ?_, rfl, hs.sum, hwin, fun h => absurd hst h⟩
      · simp only [encNext]; rw [← rel.t, ← rel.tDelta]; omega
      · simp only [encNext]; rw [← rel.tDelta]; omega
    · simp only [encNext, p0, n0, dodGo_nil, c0, z0]
      refine ⟨hs.t, by simp only [Sm2]; omega, by simp, by simp only [Sm2]; omega, by simp,
        by simp only [Sm2]; omega, bnd.pB, bnd.pD, bnd.nB, bnd.nD, bnd.pl, bnd.nl⟩
    · simp only [storedOf, hst, if_true]
      have e1 : d.t + (d.tDelta + (s.t - a.t - a.tDelta)) = s.t := by rw [← rel.t, ← rel.tDelta]; omega
      cases s
      simp_all
  · -- live sample
    have hal : a.sum ≠ staleBits := fun h => hst (hsuf h)
    obtain ⟨l1, l2, l3, l4, l5, l6, l7, l8⟩ := rel.live hal
    obtain ⟨hpl, hnl, hpb, hnb⟩ := hs.live hst
    obtain ⟨p1, p2, p3, p4, p5, p6⟩ := dodGo_spec s.pB a.pB a.pD (by rw [hpl, bnd.pl.1]) (by rw [bnd.pl.1, bnd.pl.2])
      hpb bnd.pB bnd.pD
    obtain ⟨n1, n2, n3, n4, n5, n6⟩ := dodGo_spec s.nB a.nB a.nD (by rw [hnl, bnd.nl.1]) (by rw [bnd.nl.1, bnd.nl.2])
      hnb bnd.nB bnd.nD
    refine ⟨{ d with tDelta := d.tDelta + (s.t - a.t - a.tDelta), t := d.t + (d.tDelta + (s.t - a.t - a.tDelta)),
                     cntDelta := d.cntDelta + ((s.count : Int) - a.cnt - a.cntDelta),
                     cnt := d.cnt + (d.cntDelta + ((s.count : Int) - a.cnt - a.cntDelta)),
                     zcntDelta := d.zcntDelta + ((s.zcount : Int) - a.zcnt - a.zcntDelta),
                     zcnt := d.zcnt + (d.zcntDelta + ((s.zcount : Int) - a.zcnt - a.zcntDelta)),
                     sum := s.sum, leading := dl', trailing := dt', pB := s.pB, pD := (dodGo s.pB a.pB a.pD).2.2,
                     nB := s.nB, nD := (dodGo s.nB a.nB a.nD).2.2 }, ?_, ?_, ?_, ?_⟩
    · simp only [encNext, decNext, hst, if_false, List.append_assoc, readVarbitInt_put _ _ hI1,
        readVarbitInt_put _ _ hI2, readVarbitInt_put _ _ hI3, hds, hx]
      have e1 : d.pB.length = (dodGo s.pB a.pB a.pD).1.length := by rw [← l5, p1, hpl, bnd.pl.1]
      have e2 : d.nB.length = (dodGo s.nB a.nB a.nD).1.length := by rw [← l7, n1, hnl, bnd.nl.1]
      rw [e1, readIntsN_put _ _ p5]
      simp only
      rw [e2, readIntsN_put _ _ n5]
      simp only [← l5, ← l6, ← l7, ← l8, p3, n3]
    · refine ⟨?_, ?_, rfl, hs.sum, hwin, fun _ => ⟨?_, ?_, ?_, ?_, p2, rfl, n2, rfl⟩⟩
      · simp only [encNext]; rw [← rel.t, ← rel.tDelta]; omega
      · simp only [encNext]; rw [← rel.tDelta]; omega
      · simp only [encNext]; rw [← l1, ← l2]; omega
      · simp only [encNext]; rw [← l2]; omega
      · simp only [encNext]; rw [← l3, ← l4]; omega
      · simp only [encNext]; rw [← l4]; omega
    · exact {
        t := hs.t
        tDelta := by show Sm2 (s.t - a.t); simp only [Sm2]; omega
        cnt := by show (0 : Int) ≤ (s.count : Int) ∧ (s.count : Int) < 2 ^ 61; omega
        cntDelta := by show Sm2 ((s.count : Int) - a.cnt); simp only [Sm2]; omega
        zcnt := by show (0 : Int) ≤ (s.zcount : Int) ∧ (s.zcount : Int) < 2 ^ 61; omega
        zDelta := by show Sm2 ((s.zcount : Int) - a.zcnt); simp only [Sm2]; omega
        pB := by show ∀ b ∈ (dodGo s.pB a.pB a.pD).2.1, Sm b; rw [p2]; exact hpb
        pD := p6
        nB := by show ∀ b ∈ (dodGo s.nB a.nB a.nD).2.1, Sm b; rw [n2]; exact hnb
        nD := n6
        pl := ⟨by show (dodGo s.pB a.pB a.pD).2.1.length = numP; rw [p2]; exact hpl,
               by show (dodGo s.pB a.pB a.pD).2.2.length = numP; rw [p4]; exact hpl⟩
        nl := ⟨by show (dodGo s.nB a.nB a.nD).2.1.length = numN; rw [n2]; exact hnl,
               by show (dodGo s.nB a.nB a.nD).2.2.length = numN; rw [n4]; exact hnl⟩ }
    · simp only [storedOf, hst, if_false]
      have e1 : d.t + (d.tDelta + (s.t - a.t - a.tDelta)) = s.t := by rw [← rel.t, ← rel.tDelta]; omega
      have e2 : d.cnt + (d.cntDelta + ((s.count : Int) - a.cnt - a.cntDelta)) = s.count := by rw [← l1, ← l2]; omega
      have e3 : d.zcnt + (d.zcntDelta + ((s.zcount : Int) - a.zcnt - a.zcntDelta)) = s.zcount := by
        rw [← l3, ← l4]; omega
      rw [e1, e2, e3]
      cases s
      simp

/-- after a staleness marker only staleness markers (what `appendable` enforces) -/
def SufOk : Nat → List Stored → Prop
  | _, [] => True
  | ps, s :: r => (ps = staleBits → s.sum = staleBits) ∧ SufOk s.sum r

theorem encNext_sum (a : St) (s : Stored) : (encNext a s).2.sum = s.sum := rfl

theorem decRest_encRest (numP numN : Nat) : ∀ (ss : List Stored) (a d : St) (rest : Bits), Rel a d →
    Bnd numP numN a → (∀ s ∈ ss, SOk numP numN s) → SufOk a.sum ss →
    decRest ss.length d (encRest a ss ++ rest) = some ss
  | [], _, _, _, _, _, _, _ => rfl
  | s :: ss, a, d, rest, rel, bnd, hs, hsuf => by
    obtain ⟨d', hd, rel', bnd', hst⟩ := decNext_encNext numP numN a d s (encRest (encNext a s).2 ss ++ rest) rel bnd
      (hs s (by simp)) hsuf.1
    have ih := decRest_encRest numP numN ss (encNext a s).2 d' rest rel' bnd' (fun x hx => hs x (by simp [hx]))
      (by rw [encNext_sum]; exact hsuf.2)
    simp only [List.length_cons, decRest, encRest, List.append_assoc, hd, ih, hst]

theorem decFirst_encFirst (numP numN : Nat) (s : Stored) (rest : Bits) (hs : SOk numP numN s)
    (hl : s.pB.length = numP ∧ s.nB.length = numN) :
    ∃ d, decFirst numP numN ((encFirst numP numN s).1 ++ rest) = some (d, rest) ∧ Rel (encFirst numP numN s).2 d ∧
      Bnd numP numN (encFirst numP numN s).2 ∧ storedOf d = s := by
  have hb : (∀ b ∈ s.pB, Sm b) ∧ (∀ b ∈ s.nB, Sm b) := by
    by_cases hst : s.sum = staleBits
    · obtain ⟨_, _, p0, n0⟩ := hs.stale hst; simp [p0, n0]
    · exact (hs.live hst).2.2
  have ht := hs.t; simp only [Sm] at ht
  have hI : ∀ l : List Int, (∀ b ∈ l, Sm b) → ∀ v ∈ l, I64 v := by
    intro l hl v hv; have := hl v hv; simp only [Sm] at this; exact I64_of _ (by omega)
  have hsc := hs.cnt; have hsz := hs.zcnt
  have e1 : numP - s.pB.length = 0 := by omega
  have e2 : numN - s.nB.length = 0 := by omega
  refine ⟨{ t := s.t, tDelta := 0, cnt := s.count, cntDelta := 0, zcnt := s.zcount, zcntDelta := 0, sum := s.sum,
            leading := 0, trailing := 0, pB := s.pB, pD := List.replicate numP 0, nB := s.nB,
            nD := List.replicate numN 0 }, ?_, ?_, ?_, ?_⟩
  · simp only [encFirst, decFirst, List.append_assoc, readVarbitInt_put _ _ (I64_of s.t (by omega)),
      readVarbitUint_put _ _ (by omega : s.count < 2 ^ 64), readVarbitUint_put _ _ (by omega : s.zcount < 2 ^ 64),
      readBits_natToBits_lt _ hs.sum]
    rw [← hl.1, readIntsN_put _ _ (hI _ hb.1)]
    simp only
    rw [← hl.2, readIntsN_put _ _ (hI _ hb.2)]
  · refine ⟨rfl, rfl, rfl, hs.sum, Or.inl rfl, fun _ => ⟨rfl, rfl, rfl, rfl, ?_, rfl, ?_, rfl⟩⟩
    · simp [encFirst, e1]
    · simp [encFirst, e2]
  · exact {
      t := hs.t
      tDelta := by show Sm2 0; simp only [Sm2]; omega
      cnt := by show (0 : Int) ≤ (s.count : Int) ∧ (s.count : Int) < 2 ^ 61; omega
      cntDelta := by show Sm2 0; simp only [Sm2]; omega
      zcnt := by show (0 : Int) ≤ (s.zcount : Int) ∧ (s.zcount : Int) < 2 ^ 61; omega
      zDelta := by show Sm2 0; simp only [Sm2]; omega
      pB := by simp only [encFirst, e1, List.replicate_zero, List.append_nil]; exact hb.1
      pD := by
        intro x hx; simp only [encFirst] at hx
        have := List.eq_of_mem_replicate hx; subst this; simp only [Sm2]; omega
      nB := by simp only [encFirst, e2, List.replicate_zero, List.append_nil]; exact hb.2
      nD := by
        intro x hx; simp only [encFirst] at hx
        have := List.eq_of_mem_replicate hx; subst this; simp only [Sm2]; omega
      pl := ⟨by simp only [encFirst, e1, List.replicate_zero, List.append_nil]; exact hl.1, by simp [encFirst]⟩
      nl := ⟨by simp only [encFirst, e2, List.replicate_zero, List.append_nil]; exact hl.2, by simp [encFirst]⟩ }
  · simp only [storedOf]
    by_cases hst : s.sum = staleBits
    · obtain ⟨c0, z0, p0, n0⟩ := hs.stale hst
      simp only [hst, if_true]
      cases s; simp_all
    · simp only [hst, if_false, Int.toNat_natCast]

/-- what the round trip needs of a layout-level integer chunk -/
structure ChunkOk (c : Hist.Chunk) (s0 : Stored) (ss : List Stored) : Prop where
  int : c.float = false
  num : c.num < 65536
  layout : LayoutOk (layoutOf c)
  rev : c.rev.reverse = s0 :: ss
  first : s0.pB.length = countSpans c.pSpans ∧ s0.nB.length = countSpans c.nSpans
  samples : ∀ s ∈ s0 :: ss, SOk (countSpans c.pSpans) (countSpans c.nSpans) s
  suffix : SufOk s0.sum ss

theorem hdrOfByte_hdrByte (h : Hdr) : hdrOfByte (hdrByte h) = h := by cases h <;> rfl

/-- **histchunk_roundtrip.**  The transcribed `histogramIterator` reads back exactly the chunk whose bytes the
    transcribed `HistogramAppender` wrote: header, layout and every stored sample. -/
theorem decodeChunk_encodeChunk (c : Hist.Chunk) (s0 : Stored) (ss : List Stored) (ok : ChunkOk c s0 ss) :
    decodeChunk (encodeChunk c) = some c := by
  have hnum : c.num = ss.length + 1 := by
    have := congrArg List.length ok.rev
    simpa [Hist.Chunk.num] using this
  have h65 := ok.num
  have hn1 : c.num / 256 % 256 * 256 + c.num % 256 = c.num := by omega
  have hn0 : c.num ≠ 0 := by omega
  obtain ⟨d, hd, rel, bnd, hst⟩ := decFirst_encFirst (countSpans c.pSpans) (countSpans c.nSpans) s0
    (encRest (encFirst (countSpans c.pSpans) (countSpans c.nSpans) s0).2 ss ++
      List.replicate (padLen (encodeBits c).length) false) (ok.samples s0 (by simp)) ok.first
  have hrest := decRest_encRest (countSpans c.pSpans) (countSpans c.nSpans) ss _ d
    (List.replicate (padLen (encodeBits c).length) false) rel bnd (fun s hs => ok.samples s (by simp [hs]))
    (by show SufOk s0.sum ss; exact ok.suffix)
  have hbits : encodeBits c = putLayout (layoutOf c) ++ (encFirst (countSpans c.pSpans) (countSpans c.nSpans) s0).1 ++
      encRest (encFirst (countSpans c.pSpans) (countSpans c.nSpans) s0).2 ss := by
    simp only [encodeBits, ok.rev]
  simp only [decodeChunk, encodeChunk, ok.int, Bool.false_eq_true, hn1, hn0, if_false, fromBytes_toBytes, padTo8]
  rw [hbits] at hd hrest ⊢
  simp only [List.append_assoc] at hd hrest ⊢
  rw [readLayout_put _ _ ok.layout]
  simp only [layoutOf] at hd hrest ⊢
  have hnl : c.num - 1 = ss.length := by omega
  rw [hd]
  simp only [hnl, hrest, hst, hdrOfByte_hdrByte]
  have hr : c.rev = (s0 :: ss).reverse := by rw [← ok.rev, List.reverse_reverse]
  have hf := ok.int
  cases c
  simp_all

/-! ## float histogram chunks -/

/-- encoder-side vs. iterator-side `xorValue` -/
def XRel (a d : XV) : Prop := a.value = d.value ∧ a.value < 2 ^ 64 ∧ WinRel a.leading a.trailing d.leading d.trailing

theorem xvRead_xvWrite (a d : XV) (v : Nat) (rest : Bits) (hv : v < 2 ^ 64) (rel : XRel a d) :
    ∃ d', xvRead d ((xvWrite a v).1 ++ rest) = some (d', rest) ∧ XRel (xvWrite a v).2 d' ∧ d'.value = v := by
  obtain ⟨dl', dt', hx, hw⟩ := xorRead_xorWrite a.value v a.leading a.trailing d.leading d.trailing rest rel.2.1 hv rel.2.2
  refine ⟨⟨v, dl', dt'⟩, ?_, ⟨rfl, hv, hw⟩, rfl⟩
  simp only [xvRead, xvWrite, ← rel.1, hx]

theorem xvGo_nil (xs : List XV) : xvGo [] xs = ([], xs) := by cases xs <;> rfl

theorem xvReadAll_xvGo : ∀ (bs : List Int) (as ds : List XV) (rest : Bits), bs.length = as.length →
    All2 XRel as ds → (∀ b ∈ bs, 0 ≤ b ∧ b < 2 ^ 64) →
    ∃ ds', xvReadAll ds ((xvGo bs as).1 ++ rest) = some (ds', rest) ∧ All2 XRel (xvGo bs as).2 ds' ∧
      ds'.map (fun x => (x.value : Int)) = bs ∧ (xvGo bs as).2.length = as.length
  | [], [], [], _, _, _, _ => ⟨[], rfl, trivial, rfl, rfl⟩
  | [], [], _ :: _, _, _, h, _ => h.elim
  | [], _ :: _, _, _, h, _, _ => by simp at h
  | _ :: _, [], _, _, h, _, _ => by simp at h
  | _ :: _, _ :: _, [], _, _, h, _ => h.elim
  | b :: bs, a :: as, d :: ds, rest, hl, hr, hb => by
    have hb0 := hb b (by simp)
    obtain ⟨d', h1, r1, v1⟩ := xvRead_xvWrite a d b.toNat ((xvGo bs as).1 ++ rest) (by omega) hr.1
    obtain ⟨ds', h2, r2, v2, l2⟩ := xvReadAll_xvGo bs as ds rest (by simpa using hl) hr.2
      (fun x hx => hb x (by simp [hx]))
    refine ⟨d' :: ds', ?_, ⟨r1, r2⟩, ?_, by simp [xvGo, l2]⟩
    · simp only [xvGo, xvReadAll, List.append_assoc, h1, h2]
    · simp only [List.map_cons, v1, v2, List.cons.injEq, and_true]; omega

structure RelF (a d : FSt) : Prop where
  t : a.t = d.t
  tDelta : a.tDelta = d.tDelta
  cnt : XRel a.cnt d.cnt
  zcnt : XRel a.zcnt d.zcnt
  sum : XRel a.sum d.sum
  pB : All2 XRel a.pB d.pB
  nB : All2 XRel a.nB d.nB

structure BndF (numP numN : Nat) (a : FSt) : Prop where
  t : Sm a.t
  tDelta : Sm2 a.tDelta
  pl : a.pB.length = numP
  nl : a.nB.length = numN

structure SOkF (numP numN : Nat) (s : Stored) : Prop where
  t : Sm s.t
  cnt : s.count < 2 ^ 64
  zcnt : s.zcount < 2 ^ 64
  sum : s.sum < 2 ^ 64
  stale : s.sum = staleBits → s.count = 0 ∧ s.zcount = 0 ∧ s.pB = [] ∧ s.nB = []
  live : s.sum ≠ staleBits → s.pB.length = numP ∧ s.nB.length = numN ∧ (∀ b ∈ s.pB, 0 ≤ b ∧ b < 2 ^ 64) ∧
    (∀ b ∈ s.nB, 0 ≤ b ∧ b < 2 ^ 64)

theorem decNextF_encNextF (numP numN : Nat) (a d : FSt) (s : Stored) (rest : Bits) (rel : RelF a d)
    (bnd : BndF numP numN a) (hs : SOkF numP numN s) :
    ∃ d', decNextF d ((encNextF a s).1 ++ rest) = some (d', rest) ∧ RelF (encNextF a s).2 d' ∧
      BndF numP numN (encNextF a s).2 ∧ storedOfF d' = s := by
  have ht := hs.t; have hat := bnd.t; have hatd := bnd.tDelta
  simp only [Sm, Sm2] at ht hat hatd
  have hI1 : I64 (s.t - a.t - a.tDelta) := I64_of _ (by omega)
  obtain ⟨sm', hsm, rsm, vsm⟩ := xvRead_xvWrite a.sum d.sum s.sum
    ((xvGo s.pB a.pB).1 ++ ((xvGo s.nB a.nB).1 ++ rest)) hs.sum rel.sum
  obtain ⟨zc', hzc, rzc, vzc⟩ := xvRead_xvWrite a.zcnt d.zcnt s.zcount
    ((xvWrite a.sum s.sum).1 ++ ((xvGo s.pB a.pB).1 ++ ((xvGo s.nB a.nB).1 ++ rest))) hs.zcnt rel.zcnt
  obtain ⟨cn', hcn, rcn, vcn⟩ := xvRead_xvWrite a.cnt d.cnt s.count
    ((xvWrite a.zcnt s.zcount).1 ++ ((xvWrite a.sum s.sum).1 ++ ((xvGo s.pB a.pB).1 ++ ((xvGo s.nB a.nB).1 ++ rest))))
    hs.cnt rel.cnt
  have e1 : d.t + (d.tDelta + (s.t - a.t - a.tDelta)) = s.t := by rw [← rel.t, ← rel.tDelta]; omega
  have e2 : d.tDelta + (s.t - a.t - a.tDelta) = s.t - a.t := by rw [← rel.tDelta]; omega
  by_cases hst : s.sum = staleBits
  · obtain ⟨c0, z0, p0, n0⟩ := hs.stale hst
    refine ⟨{ d with tDelta := d.tDelta + (s.t - a.t - a.tDelta), t := d.t + (d.tDelta + (s.t - a.t - a.tDelta)),
                     cnt := cn', zcnt := zc', sum := sm' }, ?_, ?_, ?_, ?_⟩
    · simp only [p0, n0, xvGo_nil, List.nil_append] at hsm hzc hcn
      simp only [encNextF, decNextF, p0, n0, xvGo_nil, List.append_nil, List.append_assoc,
        readVarbitInt_put _ _ hI1, hcn, hzc, hsm]
      simp only [vsm, hst, if_true]
    · exact ⟨by simp only [encNextF]; rw [e1], by simp only [encNextF]; rw [e2], rcn, rzc, rsm,
        by simp only [encNextF, p0, xvGo_nil]; exact rel.pB, by simp only [encNextF, n0, xvGo_nil]; exact rel.nB⟩
    · exact ⟨hs.t, by show Sm2 (s.t - a.t); simp only [Sm2]; omega,
        by simp only [encNextF, p0, xvGo_nil]; exact bnd.pl, by simp only [encNextF, n0, xvGo_nil]; exact bnd.nl⟩
    · simp only [storedOfF, vsm, hst, if_true, e1]
      cases s; simp_all
  · obtain ⟨hpl, hnl, hpb, hnb⟩ := hs.live hst
    obtain ⟨pn', hpn, rpn, vpn, lpn⟩ := xvReadAll_xvGo s.pB a.pB d.pB ((xvGo s.nB a.nB).1 ++ rest)
      (by rw [hpl, bnd.pl]) rel.pB hpb
    obtain ⟨nn', hnn, rnn, vnn, lnn⟩ := xvReadAll_xvGo s.nB a.nB d.nB rest (by rw [hnl, bnd.nl]) rel.nB hnb
    refine ⟨{ d with tDelta := d.tDelta + (s.t - a.t - a.tDelta), t := d.t + (d.tDelta + (s.t - a.t - a.tDelta)),
                     cnt := cn', zcnt := zc', sum := sm', pB := pn', nB := nn' }, ?_, ?_, ?_, ?_⟩
    · simp only [encNextF, decNextF, List.append_assoc, readVarbitInt_put _ _ hI1, hcn, hzc, hsm]
      simp only [vsm, hst, if_false, hpn, hnn]
    · exact ⟨by simp only [encNextF]; rw [e1], by simp only [encNextF]; rw [e2], rcn, rzc, rsm, rpn, rnn⟩
    · exact ⟨hs.t, by show Sm2 (s.t - a.t); simp only [Sm2]; omega,
        by show (xvGo s.pB a.pB).2.length = numP; rw [lpn]; exact bnd.pl,
        by show (xvGo s.nB a.nB).2.length = numN; rw [lnn]; exact bnd.nl⟩
    · simp only [storedOfF, vsm, hst, if_false, e1, vcn, vzc, vpn, vnn]

theorem decRestF_encRestF (numP numN : Nat) : ∀ (ss : List Stored) (a d : FSt) (rest : Bits), RelF a d →
    BndF numP numN a → (∀ s ∈ ss, SOkF numP numN s) → decRestF ss.length d (encRestF a ss ++ rest) = some ss
  | [], _, _, _, _, _, _ => rfl
  | s :: ss, a, d, rest, rel, bnd, hs => by
    obtain ⟨d', hd, rel', bnd', hst⟩ := decNextF_encNextF numP numN a d s (encRestF (encNextF a s).2 ss ++ rest) rel bnd
      (hs s (by simp))
    have ih := decRestF_encRestF numP numN ss (encNextF a s).2 d' rest rel' bnd' (fun x hx => hs x (by simp [hx]))
    simp only [List.length_cons, decRestF, encRestF, List.append_assoc, hd, ih, hst]

theorem readRawN_put (l : List Int) (rest : Bits) (h : ∀ b ∈ l, 0 ≤ b ∧ b < 2 ^ 64) :
    readRawN l.length (putRaw l ++ rest) = some (l.map Int.toNat, rest) := by
  induction l with
  | nil => rfl
  | cons b tl ih =>
    have hb := h b (by simp)
    have := ih (fun x hx => h x (by simp [hx]))
    simp only [putRaw] at this
    simp only [List.length_cons, putRaw, List.flatMap_cons, List.append_assoc, readRawN,
      readBits_natToBits_lt _ (by omega : b.toNat < 2 ^ 64), this, List.map_cons]

theorem all2_fresh : ∀ (l : List Int), (∀ b ∈ l, 0 ≤ b ∧ b < 2 ^ 64) →
    All2 XRel (l.map fun b => (⟨b.toNat, 255, 0⟩ : XV)) ((l.map Int.toNat).map fun v => (⟨v, 0, 0⟩ : XV))
  | [], _ => trivial
  | b :: tl, h => by
    have hb := h b (by simp)
    exact ⟨⟨rfl, by show b.toNat < 2 ^ 64; omega, Or.inl rfl⟩, all2_fresh tl (fun x hx => h x (by simp [hx]))⟩

theorem map_toNat_cast : ∀ (l : List Int), (∀ b ∈ l, 0 ≤ b ∧ b < 2 ^ 64) →
    ((l.map Int.toNat).map fun v => (⟨v, 0, 0⟩ : XV)).map (fun x => (x.value : Int)) = l
  | [], _ => rfl
  | b :: tl, h => by
    have hb := h b (by simp)
    simp only [List.map_cons, map_toNat_cast tl (fun x hx => h x (by simp [hx])), List.cons.injEq, and_true]
    omega

theorem decFirstF_encFirstF (numP numN : Nat) (s : Stored) (rest : Bits) (hs : SOkF numP numN s)
    (hl : s.pB.length = numP ∧ s.nB.length = numN) :
    ∃ d, decFirstF numP numN ((encFirstF s).1 ++ rest) = some (d, rest) ∧ RelF (encFirstF s).2 d ∧
      BndF numP numN (encFirstF s).2 ∧ storedOfF d = s := by
  have hb : (∀ b ∈ s.pB, 0 ≤ b ∧ b < 2 ^ 64) ∧ (∀ b ∈ s.nB, 0 ≤ b ∧ b < 2 ^ 64) := by
    by_cases hst : s.sum = staleBits
    · obtain ⟨_, _, p0, n0⟩ := hs.stale hst; simp [p0, n0]
    · exact (hs.live hst).2.2
  have ht := hs.t; simp only [Sm] at ht
  refine ⟨{ t := s.t, tDelta := 0, cnt := ⟨s.count, 0, 0⟩, zcnt := ⟨s.zcount, 0, 0⟩, sum := ⟨s.sum, 0, 0⟩,
            pB := (s.pB.map Int.toNat).map fun v => ⟨v, 0, 0⟩, nB := (s.nB.map Int.toNat).map fun v => ⟨v, 0, 0⟩ },
    ?_, ?_, ?_, ?_⟩
  · simp only [encFirstF, decFirstF, List.append_assoc, readVarbitInt_put _ _ (I64_of s.t (by omega)),
      readBits_natToBits_lt _ hs.cnt, readBits_natToBits_lt _ hs.zcnt, readBits_natToBits_lt _ hs.sum]
    rw [← hl.1, readRawN_put _ _ hb.1]
    simp only
    rw [← hl.2, readRawN_put _ _ hb.2]
  · exact ⟨rfl, rfl, ⟨rfl, hs.cnt, Or.inl rfl⟩, ⟨rfl, hs.zcnt, Or.inl rfl⟩, ⟨rfl, hs.sum, Or.inl rfl⟩,
      all2_fresh _ hb.1, all2_fresh _ hb.2⟩
  · exact ⟨hs.t, by show Sm2 0; simp only [Sm2]; omega, by simp [encFirstF, hl.1], by simp [encFirstF, hl.2]⟩
  · simp only [storedOfF]
    by_cases hst : s.sum = staleBits
    · obtain ⟨c0, z0, p0, n0⟩ := hs.stale hst
      simp only [hst, if_true]
      cases s; simp_all
    · simp only [hst, if_false, map_toNat_cast _ hb.1, map_toNat_cast _ hb.2]

structure ChunkOkF (c : Hist.Chunk) (s0 : Stored) (ss : List Stored) : Prop where
  flt : c.float = true
  num : c.num < 65536
  layout : LayoutOk (layoutOf c)
  rev : c.rev.reverse = s0 :: ss
  first : s0.pB.length = countSpans c.pSpans ∧ s0.nB.length = countSpans c.nSpans
  samples : ∀ s ∈ s0 :: ss, SOkF (countSpans c.pSpans) (countSpans c.nSpans) s

/-- **histchunk_roundtrip, float flavour.** -/
theorem decodeChunkF_encodeChunk (c : Hist.Chunk) (s0 : Stored) (ss : List Stored) (ok : ChunkOkF c s0 ss) :
    decodeChunkF (encodeChunk c) = some c := by
  have hnum : c.num = ss.length + 1 := by
    have := congrArg List.length ok.rev
    simpa [Hist.Chunk.num] using this
  have h65 := ok.num
  have hn1 : c.num / 256 % 256 * 256 + c.num % 256 = c.num := by omega
  have hn0 : c.num ≠ 0 := by omega
  obtain ⟨d, hd, rel, bnd, hst⟩ := decFirstF_encFirstF (countSpans c.pSpans) (countSpans c.nSpans) s0
    (encRestF (encFirstF s0).2 ss ++ List.replicate (padLen (encodeBitsF c).length) false)
    (ok.samples s0 (by simp)) ok.first
  have hrest := decRestF_encRestF (countSpans c.pSpans) (countSpans c.nSpans) ss _ d
    (List.replicate (padLen (encodeBitsF c).length) false) rel bnd (fun s hs => ok.samples s (by simp [hs]))
  have hbits : encodeBitsF c = putLayout (layoutOf c) ++ (encFirstF s0).1 ++ encRestF (encFirstF s0).2 ss := by
    simp only [encodeBitsF, ok.rev]
  simp only [decodeChunkF, encodeChunk, ok.flt, if_true, hn1, hn0, if_false, fromBytes_toBytes, padTo8]
  rw [hbits] at hd hrest ⊢
  simp only [List.append_assoc] at hd hrest ⊢
  rw [readLayout_put _ _ ok.layout]
  simp only [layoutOf] at hd hrest ⊢
  have hnl : c.num - 1 = ss.length := by omega
  rw [hd]
  simp only [hnl, hrest, hst, hdrOfByte_hdrByte]
  have hr : c.rev = (s0 :: ss).reverse := by rw [← ok.rev, List.reverse_reverse]
  have hf := ok.flt
  cases c
  simp_all

end Prom.HistChunk
