import PromModel.Tsdb.ReadOnly
/-
  Helper lemmas for C53 (query side): the merge of `Db.query` ignores series rows without samples,
  so a head whose samples all lie above the query range is as good as no head.
-/
namespace Prom.Db

/-! ### `Db.query` restated over the list of (series, samples) parts -/

def qF (all : List (Nat × List Smp)) (i : Nat) : Option (Nat × List Smp) :=
  let xs := (all.filter (·.1 = i)).foldl (fun acc p => mergeSmps acc p.2) []
  if xs.isEmpty then none else some (i, xs)

def queryOf (all : List (Nat × List Smp)) : List (Nat × List Smp) :=
  (sortIdxs (all.map (·.1))).filterMap (qF all)

def Db.headPart (d : Db) (mint maxt : Int) : List (Nat × List Smp) :=
  if maxt ≥ d.minT then d.series.map fun s => (s.idx, s.phys.filter fun x => decide (mint ≤ x.t ∧ x.t ≤ maxt) && visible s.tombs x) else []

def Db.blockParts (d : Db) (mint maxt : Int) : List (Nat × List Smp) :=
  d.blocks.flatMap fun b =>
    if b.mint ≤ maxt ∧ mint < b.maxt then b.series.map fun s => (s.idx, s.smps.filter fun x => decide (mint ≤ x.t ∧ x.t ≤ maxt) && visible s.tombs x) else []

theorem Db.query_eq (d : Db) (a b : Int) : d.query a b = queryOf (d.headPart a b ++ d.blockParts a b) := rfl

/-! ### sorted index lists -/

theorem mem_insertIdx (i x : Nat) (S : List Nat) : x ∈ insertIdx i S ↔ x = i ∨ x ∈ S := by
  induction S with
  | nil => simp [insertIdx]
  | cons j js ih =>
    simp only [insertIdx]
    split
    · simp
    · split
      · subst_vars; simp
      · simp [ih, or_left_comm]

theorem mem_sortIdxs (x : Nat) (L : List Nat) : x ∈ sortIdxs L ↔ x ∈ L := by
  induction L with
  | nil => simp [sortIdxs]
  | cons j js ih =>
    have : sortIdxs (j :: js) = insertIdx j (sortIdxs js) := rfl
    rw [this, mem_insertIdx, ih]; simp

theorem sorted_insertIdx (i : Nat) (S : List Nat) (h : S.Pairwise (· < ·)) : (insertIdx i S).Pairwise (· < ·) := by
  induction S with
  | nil => simp [insertIdx]
  | cons j js ih =>
    simp only [insertIdx]
    have hj := List.pairwise_cons.mp h
    split
    · refine List.pairwise_cons.mpr ⟨?_, h⟩
      intro x hx
      rcases List.mem_cons.mp hx with rfl | hx
      · assumption
      · have := hj.1 x hx; omega
    · split
      · exact h
      · refine List.pairwise_cons.mpr ⟨?_, ih hj.2⟩
        intro x hx
        rcases (mem_insertIdx i x js).mp hx with rfl | hx
        · omega
        · exact hj.1 x hx

theorem sorted_sortIdxs (L : List Nat) : (sortIdxs L).Pairwise (· < ·) := by
  induction L with
  | nil => simp [sortIdxs]
  | cons j js ih => exact sorted_insertIdx j _ ih

theorem filterMap_insertIdx {β : Type} (G : Nat → Option β) (i : Nat) (S : List Nat)
    (hs : S.Pairwise (· < ·)) (h : G i = none ∨ i ∈ S) :
    (insertIdx i S).filterMap G = S.filterMap G := by
  induction S with
  | nil =>
    rcases h with h | h
    · simp [insertIdx, h]
    · simp at h
  | cons j js ih =>
    have hj := List.pairwise_cons.mp hs
    simp only [insertIdx]
    split
    · rename_i hij
      have : G i = none := by
        rcases h with h | h
        · exact h
        · rcases List.mem_cons.mp h with rfl | h
          · omega
          · have := hj.1 i h; omega
      simp [List.filterMap_cons, this]
    · split
      · rfl
      · rename_i h1 h2
        have h' : G i = none ∨ i ∈ js := by
          rcases h with h | h
          · exact Or.inl h
          · rcases List.mem_cons.mp h with rfl | h
            · exact absurd rfl h2
            · exact Or.inr h
        simp [List.filterMap_cons, ih hj.2 h']

/-! ### rows without samples do not matter -/

theorem qF_cons_nil (i : Nat) (all : List (Nat × List Smp)) (j : Nat) :
    qF ((i, []) :: all) j = qF all j := by
  unfold qF
  by_cases h : i = j
  · subst h
    simp [mergeSmps, mergeSmpsAux]
  · simp [h]

theorem qF_none_of_not_mem (all : List (Nat × List Smp)) (i : Nat) (h : i ∉ all.map (·.1)) :
    qF all i = none := by
  unfold qF
  have : all.filter (·.1 = i) = [] := by
    apply List.filter_eq_nil_iff.mpr
    intro p hp hpi
    apply h
    simp only [decide_eq_true_eq] at hpi
    exact List.mem_map.mpr ⟨p, hp, hpi⟩
  simp [this]

theorem queryOf_cons_nil (i : Nat) (all : List (Nat × List Smp)) :
    queryOf ((i, []) :: all) = queryOf all := by
  unfold queryOf
  have hF : qF ((i, []) :: all) = qF all := funext (qF_cons_nil i all)
  rw [hF]
  show (insertIdx i (sortIdxs (all.map (·.1)))).filterMap (qF all) = _
  apply filterMap_insertIdx _ _ _ (sorted_sortIdxs _)
  by_cases h : i ∈ all.map (·.1)
  · exact Or.inr ((mem_sortIdxs _ _).mpr h)
  · exact Or.inl (qF_none_of_not_mem all i h)

theorem queryOf_append_empty (E B : List (Nat × List Smp)) (h : ∀ p ∈ E, p.2 = []) :
    queryOf (E ++ B) = queryOf B := by
  induction E with
  | nil => rfl
  | cons p ps ih =>
    obtain ⟨i, xs⟩ := p
    have : xs = [] := h (i, xs) (List.mem_cons_self)
    subst this
    rw [List.cons_append, queryOf_cons_nil]
    exact ih fun q hq => h q (List.mem_cons_of_mem _ hq)

/-- Two states with the same series and blocks whose heads both lie above every query they exclude
    answer every query alike. -/
theorem query_eq_of_series_eq (d1 d2 : Db) (a b : Int)
    (hs : d1.series = d2.series) (hb : d1.blocks = d2.blocks)
    (h1 : ∀ s ∈ d1.series, ∀ x ∈ s.phys, d1.minT ≤ x.t)
    (h2 : ∀ s ∈ d2.series, ∀ x ∈ s.phys, d2.minT ≤ x.t) :
    d1.query a b = d2.query a b := by
  rw [Db.query_eq, Db.query_eq]
  have hbp : d1.blockParts a b = d2.blockParts a b := by unfold Db.blockParts; rw [hb]
  rw [hbp]
  -- a head that is excluded by `maxt < minT` has only rows without samples in range
  have key : ∀ d : Db, (∀ s ∈ d.series, ∀ x ∈ s.phys, d.minT ≤ x.t) → ¬ b ≥ d.minT →
      ∀ p ∈ (d.series.map fun s => (s.idx, s.phys.filter fun x => decide (a ≤ x.t ∧ x.t ≤ b) && visible s.tombs x)), p.2 = [] := by
    intro d hd hlt p hp
    obtain ⟨s, hs, rfl⟩ := List.mem_map.mp hp
    apply List.filter_eq_nil_iff.mpr
    intro x hx
    have := hd s hs x hx
    simp only [Bool.and_eq_true, decide_eq_true_eq, not_and]
    intro hab; omega
  unfold Db.headPart
  by_cases c1 : b ≥ d1.minT <;> by_cases c2 : b ≥ d2.minT
  · simp only [c1, c2, if_true, hs]
  · simp only [c1, c2, if_true, if_false, List.nil_append]
    rw [hs]
    exact queryOf_append_empty _ _ (key d2 h2 c2)
  · simp only [c1, c2, if_true, if_false, List.nil_append]
    rw [← hs]
    exact (queryOf_append_empty _ _ (key d1 h1 c1)).symm
  · simp only [c1, c2, if_false]

end Prom.Db
