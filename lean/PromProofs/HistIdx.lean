import PromModel.Tsdb.HistLayout
/-
  Index-level specification of the native-histogram layout functions (C11/C12): what the insert lists
  of `expandIntSpansAndBuckets`/`expandFloatSpansAndBuckets`/`expandSpansBothWays` denote and what
  `insert` does with them, as plain list functions that recurse in lockstep with the Go loops.
-/
namespace Prom.Hist

/-- bucket indices of the merged layout (lockstep with the comparison loops; for strictly increasing
    `A`, `B` this is the sorted union) -/
def mergeU : List Int → List Int → List Int
  | a :: A, b :: B =>
    if a = b then a :: mergeU A B
    else if a < b then a :: mergeU A (b :: B)
    else b :: mergeU (a :: A) B
  | a :: A, [] => a :: A
  | [], B => B
termination_by a b => a.length + b.length
decreasing_by all_goals simp_wf <;> omega

/-- unit inserts (position in `A`, bucket index) that turn layout `A` into `mergeU A B`;
    `k` = number of `A` buckets already passed -/
def specF (k : Nat) : List Int → List Int → List (Nat × Int)
  | a :: A, b :: B =>
    if a = b then specF (k + 1) A B
    else if a < b then specF (k + 1) A (b :: B)
    else (k, b) :: specF k (a :: A) B
  | _ :: _, [] => []
  | [], B => B.map fun b => (k, b)
termination_by a b => a.length + b.length
decreasing_by all_goals simp_wf <;> omega

/-- `insert` on absolute values: a zero for every unit insert position, `i` = current position -/
def weave : Nat → List Int → List Nat → List Int
  | _, xs, [] => xs
  | i, [], _ :: P => 0 :: weave i [] P
  | i, x :: xs, p :: P => if p = i then 0 :: weave i (x :: xs) P else x :: weave (i + 1) xs (p :: P)
termination_by _ xs P => xs.length + P.length
decreasing_by all_goals simp_wf <;> omega

/-- the positions an insert list stands for, one per inserted bucket -/
def posOf (ins : List Insert) : List Nat := ins.flatMap fun x => List.replicate x.num x.pos

/-- every insert inserts at least one bucket (`insert` emits one element even for `num = 0`) -/
def AllPos (ins : List Insert) : Prop := ∀ x ∈ ins, 0 < x.num

/-- the insert list `expandGo` would return if it stopped now -/
def CW.curA (s : CW) : List Insert := (if s.aI.num > 0 then s.aI :: s.aIns else s.aIns).reverse
def CW.curB (s : CW) : List Insert := (if s.bI.num > 0 then s.bI :: s.bIns else s.bIns).reverse

/-- the insert lists `bothGo` would return if it stopped now -/
def BW.curF (s : BW) : List Insert := s.flushF.f.reverse
def BW.curB (s : BW) : List Insert := s.flushB.b.reverse

/-- the `cur` value of `idxsFrom` after the spans -/
def endFrom (cur : Int) : List Span → Int
  | [] => cur
  | s :: r => endFrom (cur + s.offset + (s.length : Int)) r

/-- `MS` bookkeeping: `last` is the last bucket added -/
def MSOk (m : MS) : Prop := (m.rev = [] ∧ m.last = 0) ∨ (m.rev ≠ [] ∧ endFrom 0 m.spans = m.last + 1)

/-- what the two loops of `adjustForInserts` enumerate (buckets `B`, insert indices `I`) -/
def adjMerge : List Int → List Int → List Int
  | b :: B, i :: I => if i < b then i :: adjMerge (b :: B) I else b :: adjMerge B (i :: I)
  | b :: B, [] => b :: B
  | [], I => I
termination_by a b => a.length + b.length
decreasing_by all_goals simp_wf <;> omega

/-- every span holds at least one bucket (what `addBucket` builds) -/
def LenPos (sp : List Span) : Prop := ∀ s ∈ sp, 1 ≤ s.length

/-- where the layout of a chunk after an accepted append comes from: the chunk's old spans, the histogram's
    spans, or spans built by `addBucket` that enumerate the merged layout -/
def SpanSrc (cS hS S : List Span) : Prop :=
  S = cS ∨ S = hS ∨ (LenPos S ∧ idxs S = mergeU (idxs cS) (idxs hS))

end Prom.Hist
