import PromProofs.DbClean
/-
  C01 refinement: `DB.Delete`. Exactly the samples of the selected series inside the closed range
  disappear. The coverage property of `Intervals.add` is an explicit hypothesis (`AddCoversAt`),
  restricted to the tombstone lists present in the state (C20 develops it separately).
-/
namespace Prom.Db
open Prom.Intervals

theorem idx_mem {xs : Intervals} {k : Nat} {b : Interval} (h : idx xs k = .ok b) : b ∈ xs := by
  unfold idx at h
  split at h
  · rename_i x hx
    simp only [Except.ok.injEq] at h; subst h
    exact List.mem_of_getElem? hx
  · simp at h

def addCore (xs : Intervals) (n : Interval) (mini maxi : Nat) : Except Err Intervals :=
  if n.mint ≠ MinI64 ∧ mini = xs.length then .ok (xs ++ [n]) else
  if n.maxt ≠ MaxI64 ∧ maxi = 0 then .ok (xs.take mini ++ n :: xs.drop mini) else
  do
    let a ← idx xs mini
    let b ← idx xs (maxi + mini - 1)
    if maxi + mini > xs.length then .error .panic else
    let merged : Interval := ⟨if n.mint < a.mint then n.mint else a.mint, max n.maxt b.maxt⟩
    .ok (xs.take mini ++ merged :: xs.drop (maxi + mini))

theorem add_eq_core (xs : Intervals) (n : Interval) :
    ∃ mini maxi, add xs n = if xs.length = 0 then .ok [n] else addCore xs n mini maxi :=
  ⟨_, _, rfl⟩

theorem addCore_maxt_le (ts : Intervals) (iv : Interval) (mini maxi : Nat) (B : Int)
    (h1 : ∀ x ∈ ts, x.maxt ≤ B) (h2 : iv.maxt ≤ B) (r : Intervals)
    (hr : addCore ts iv mini maxi = .ok r) : ∀ x ∈ r, x.maxt ≤ B := by
  intro x hx
  unfold addCore at hr
  split at hr
  · simp only [Except.ok.injEq] at hr; subst hr
    simp only [List.mem_append, List.mem_singleton] at hx
    rcases hx with hx | rfl
    · exact h1 x hx
    · exact h2
  · split at hr
    · simp only [Except.ok.injEq] at hr; subst hr
      simp only [List.mem_append, List.mem_cons] at hx
      rcases hx with hx | rfl | hx
      · exact h1 x (List.mem_of_mem_take hx)
      · exact h2
      · exact h1 x (List.mem_of_mem_drop hx)
    · cases ha : idx ts mini with
      | error e => simp [ha, bind, Except.bind] at hr
      | ok a =>
        cases hb : idx ts (maxi + mini - 1) with
        | error e => simp [ha, hb, bind, Except.bind] at hr
        | ok b =>
          simp only [ha, hb, bind, Except.bind] at hr
          split at hr
          · simp at hr
          · simp only [Except.ok.injEq] at hr; subst hr
            simp only [List.mem_append, List.mem_cons] at hx
            rcases hx with hx | rfl | hx
            · exact h1 x (List.mem_of_mem_take hx)
            · have := h1 b (idx_mem hb)
              simp only; omega
            · exact h1 x (List.mem_of_mem_drop hx)

theorem addTomb_maxt_le (ts : Intervals) (iv : Interval) (B : Int) (h1 : ∀ x ∈ ts, x.maxt ≤ B)
    (h2 : iv.maxt ≤ B) : ∀ x ∈ addTomb ts iv, x.maxt ≤ B := by
  intro x hx
  unfold addTomb at hx
  obtain ⟨mini, maxi, he⟩ := add_eq_core ts iv
  rw [he] at hx
  split at hx
  · rename_i r hr
    split at hr
    · simp only [Except.ok.injEq] at hr; subst hr; simp at hx; subst hx; exact h2
    · exact addCore_maxt_le ts iv mini maxi B h1 h2 r hr x hx
  · exact h1 x hx

def hitSel (sel : Option Nat) (i : Nat) : Bool := match sel with | none => true | some j => i = j

/-- Coverage of `Intervals.add` for one tombstone list and one new interval. -/
def AddCoversAt (ts : Intervals) (iv : Interval) : Prop :=
  ∀ t, coversB (addTomb ts iv) t = (coversB ts t || decide (iv.mint ≤ t ∧ t ≤ iv.maxt))

/-- The reference after `del a b sel`. -/
def Ref.del (r : Ref) (a b : Int) (sel : Option Nat) : Ref :=
  { r with store := r.store.map fun p =>
      if hitSel sel p.1 then (p.1, p.2.filter fun x => ¬ (a ≤ x.t ∧ x.t ≤ b)) else p }

theorem Ref.step_del (r : Ref) (a b : Int) (sel : Option Nat) (o : Out) :
    Ref.step r (.del a b sel) o = some (r.del a b sel) := rfl

theorem Ref.get_del (r : Ref) (a b : Int) (sel : Option Nat) (i : Nat) :
    (r.del a b sel).get i =
      if hitSel sel i then (r.get i).filter fun x => ¬ (a ≤ x.t ∧ x.t ≤ b) else r.get i := by
  unfold Ref.del Ref.get
  simp only
  induction r.store with
  | nil => simp
  | cons p ps ih =>
    simp only [List.map_cons, List.find?_cons]
    by_cases hpi : p.1 = i
    · subst hpi
      by_cases hh : hitSel sel p.1 = true
      · simp [hh]
      · simp [hh]
    · have h1 : (if hitSel sel p.1 = true then (p.1, p.2.filter fun x => ¬ (a ≤ x.t ∧ x.t ≤ b)) else p).1 = p.1 := by
        split <;> rfl
      simp only [h1, hpi, decide_false]
      exact ih

/-- Re-tombstoning: new tombstone lists that hide exactly the selected samples in range. -/
theorem retomb_preserves {d : Db} {r : Ref} (hI : Inv d) (hS : Sim d r) (a b : Int) (sel : Option Nat)
    (hT : HSeries → Intervals) (bT : Block → BSeries → Intervals) (w : List Rec)
    (Vh : ∀ s ∈ d.series, ∀ x ∈ s.phys,
      visible (hT s) x = (visible s.tombs x && !(hitSel sel s.idx && decide (a ≤ x.t ∧ x.t ≤ b))))
    (Vb : ∀ blk ∈ d.blocks, ∀ s ∈ blk.series, ∀ x ∈ s.smps,
      visible (bT blk s) x = (visible s.tombs x && !(hitSel sel s.idx && decide (a ≤ x.t ∧ x.t ≤ b))))
    (Th : ∀ s ∈ d.series, ∀ iv ∈ hT s, ∀ l, s.phys.getLast? = some l → iv.maxt ≤ l.t) :
    let d' : Db := { d with series := d.series.map (fun s => { s with tombs := hT s }), blocks := d.blocks.map (fun blk => { blk with series := blk.series.map (fun s => { s with tombs := bT blk s }) }), wal := w }
    Inv d' ∧ Sim d' (r.del a b sel) := by
  intro d'
  have hblkAll : ∀ P, d.blkAll P → d'.blkAll P := by
    intro P h blk' hb' s' hs' x hx
    simp only [d', List.mem_map] at hb'
    obtain ⟨blk, hb, rfl⟩ := hb'
    simp only [List.mem_map] at hs'
    obtain ⟨s, hs, rfl⟩ := hs'
    exact h blk hb s hs x hx
  refine ⟨⟨?_, ?_⟩, ⟨?_, ?_, ?_⟩⟩
  · refine
      { idxNodup := ?_, physInc := ?_, physNe := ?_, physLo := ?_, physHi := ?_, physMax := ?_,
        tombHi := ?_, blkInc := ?_, blkRange := ?_, blkLtMinT := hblkAll _ hI.blkLtMinT,
        blkLtMinValid := hblkAll _ hI.blkLtMinValid, blkLtMaxT := hblkAll _ hI.blkLtMaxT,
        blkMax := hblkAll _ hI.blkMax }
    · show (d.series.map _).Pairwise _
      rw [List.pairwise_map]
      exact hI.idxNodup
    · intro s' hs'
      simp only [d', List.mem_map] at hs'
      obtain ⟨s, hs, rfl⟩ := hs'
      exact hI.physInc s hs
    · intro s' hs'
      simp only [d', List.mem_map] at hs'
      obtain ⟨s, hs, rfl⟩ := hs'
      exact hI.physNe s hs
    · intro s' hs'
      simp only [d', List.mem_map] at hs'
      obtain ⟨s, hs, rfl⟩ := hs'
      exact hI.physLo s hs
    · intro s' hs'
      simp only [d', List.mem_map] at hs'
      obtain ⟨s, hs, rfl⟩ := hs'
      exact hI.physHi s hs
    · intro s' hs'
      simp only [d', List.mem_map] at hs'
      obtain ⟨s, hs, rfl⟩ := hs'
      exact hI.physMax s hs
    · intro s' hs'
      simp only [d', List.mem_map] at hs'
      obtain ⟨s, hs, rfl⟩ := hs'
      exact Th s hs
    · intro blk' hb' s' hs'
      simp only [d', List.mem_map] at hb'
      obtain ⟨blk, hb, rfl⟩ := hb'
      simp only [List.mem_map] at hs'
      obtain ⟨s, hs, rfl⟩ := hs'
      exact hI.blkInc blk hb s hs
    · intro blk' hb' s' hs'
      simp only [d', List.mem_map] at hb'
      obtain ⟨blk, hb, rfl⟩ := hb'
      simp only [List.mem_map] at hs'
      obtain ⟨s, hs, rfl⟩ := hs'
      exact hI.blkRange blk hb s hs
  · intro ap ha
    have hA := hI.appInv ap ha
    exact ⟨hA.initBatch, fun h => hblkAll _ (hA.blkLt h), hA.batchGe⟩
  · intro i
    rw [Ref.get_del]
    split
    · exact (hS.sinc i).filter _
    · exact hS.sinc i
  · intro i x
    have key : d'.mem i x ↔ (d.mem i x ∧ ¬ (hitSel sel i = true ∧ a ≤ x.t ∧ x.t ≤ b)) := by
      unfold Db.mem
      constructor
      · rintro (⟨s', hs', hi, hx, hv⟩ | ⟨blk', hb', s', hs', hi, hx, hv⟩)
        · simp only [d', List.mem_map] at hs'
          obtain ⟨s, hs, rfl⟩ := hs'
          simp only at hi hx hv
          rw [Vh s hs x hx] at hv
          simp only [Bool.and_eq_true, Bool.not_eq_true', Bool.and_eq_false_iff, decide_eq_false_iff_not] at hv
          refine ⟨Or.inl ⟨s, hs, hi, hx, hv.1⟩, ?_⟩
          rw [← hi]; rintro ⟨h1, h2⟩
          rcases hv.2 with h | h
          · rw [h1] at h; simp at h
          · exact h h2
        · simp only [d', List.mem_map] at hb'
          obtain ⟨blk, hb, rfl⟩ := hb'
          simp only [List.mem_map] at hs'
          obtain ⟨s, hs, rfl⟩ := hs'
          simp only at hi hx hv
          rw [Vb blk hb s hs x hx] at hv
          simp only [Bool.and_eq_true, Bool.not_eq_true', Bool.and_eq_false_iff, decide_eq_false_iff_not] at hv
          refine ⟨Or.inr ⟨blk, hb, s, hs, hi, hx, hv.1⟩, ?_⟩
          rw [← hi]; rintro ⟨h1, h2⟩
          rcases hv.2 with h | h
          · rw [h1] at h; simp at h
          · exact h h2
      · rintro ⟨(⟨s, hs, hi, hx, hv⟩ | ⟨blk, hb, s, hs, hi, hx, hv⟩), hn⟩
        · left
          refine ⟨{ s with tombs := hT s }, ?_, hi, hx, ?_⟩
          · simp only [d', List.mem_map]; exact ⟨s, hs, rfl⟩
          · simp only
            rw [Vh s hs x hx, hv, hi]
            simp only [Bool.true_and, Bool.not_eq_true', Bool.and_eq_false_iff, decide_eq_false_iff_not]
            by_cases hh : hitSel sel i = true
            · right; exact fun h2 => hn ⟨hh, h2⟩
            · left; simpa using hh
        · right
          refine ⟨{ blk with series := blk.series.map (fun s => { s with tombs := bT blk s }) }, ?_,
            { s with tombs := bT blk s }, ?_, hi, hx, ?_⟩
          · simp only [d', List.mem_map]; exact ⟨blk, hb, rfl⟩
          · simp only [List.mem_map]; exact ⟨s, hs, rfl⟩
          · simp only
            rw [Vb blk hb s hs x hx, hv, hi]
            simp only [Bool.true_and, Bool.not_eq_true', Bool.and_eq_false_iff, decide_eq_false_iff_not]
            by_cases hh : hitSel sel i = true
            · right; exact fun h2 => hn ⟨hh, h2⟩
            · left; simpa using hh
    rw [key, Ref.get_del, hS.mem i x]
    split
    · rename_i hh
      simp only [List.mem_filter, decide_eq_true_eq, hh, true_and]
    · rename_i hh
      simp only [hh, Bool.false_eq_true, false_and, not_false_eq_true, and_true]
  · exact hS.app

/-! ### `Db.delete` is a re-tombstoning -/

theorem Db.ext' {d d' : Db} (h1 : d.cfg = d'.cfg) (h2 : d.minT = d'.minT) (h3 : d.maxT = d'.maxT)
    (h4 : d.minValid = d'.minValid) (h5 : d.series = d'.series) (h6 : d.blocks = d'.blocks)
    (h7 : d.wal = d'.wal) (h8 : d.app = d'.app) : d = d' := by
  cases d; cases d'; simp_all

def delBT (a b : Int) (sel : Option Nat) (blk : Block) (s : BSeries) : Intervals :=
  if blk.mint ≤ b ∧ a < blk.maxt then (if hitSel sel s.idx then (blockDeleteSeries a b s).tombs else s.tombs)
  else s.tombs

def delStones (d : Db) (a b : Int) (sel : Option Nat) : List (Nat × Interval) :=
  d.series.filterMap fun s =>
    if hitSel sel s.idx then
      match s.phys.head?, s.phys.getLast? with
      | some f, some l =>
        if (clampInterval (clampInterval a b d.minT d.maxT).1 (clampInterval a b d.minT d.maxT).2 f.t l.t).1 >
           (clampInterval (clampInterval a b d.minT d.maxT).1 (clampInterval a b d.minT d.maxT).2 f.t l.t).2 then none else
        some (s.idx, ⟨(clampInterval (clampInterval a b d.minT d.maxT).1 (clampInterval a b d.minT d.maxT).2 f.t l.t).1,
                      (clampInterval (clampInterval a b d.minT d.maxT).1 (clampInterval a b d.minT d.maxT).2 f.t l.t).2⟩)
      | _, _ => none
    else none

theorem clamp_inverted {a b m M f l x : Int}
    (h : (clampInterval (clampInterval a b m M).1 (clampInterval a b m M).2 f l).1 >
         (clampInterval (clampInterval a b m M).1 (clampInterval a b m M).2 f l).2)
    (h1 : m ≤ x) (h2 : x ≤ M) (h3 : f ≤ x) (h4 : x ≤ l) : ¬ (a ≤ x ∧ x ≤ b) := by
  simp only [clampInterval] at h
  by_cases c1 : a < m <;> by_cases c2 : b > M <;> simp only [c1, c2, if_true, if_false] at h <;>
    (split at h <;> split at h <;> omega)

/-- The head stone of one series (none when the requested range misses the series' own range). -/
def stoneOf (d : Db) (a b : Int) (sel : Option Nat) (s : HSeries) : Option (Nat × Interval) :=
  if hitSel sel s.idx then
    match s.phys.head?, s.phys.getLast? with
    | some f, some l =>
      if (clampInterval (clampInterval a b d.minT d.maxT).1 (clampInterval a b d.minT d.maxT).2 f.t l.t).1 >
         (clampInterval (clampInterval a b d.minT d.maxT).1 (clampInterval a b d.minT d.maxT).2 f.t l.t).2 then none else
      some (s.idx, ⟨(clampInterval (clampInterval a b d.minT d.maxT).1 (clampInterval a b d.minT d.maxT).2 f.t l.t).1,
                    (clampInterval (clampInterval a b d.minT d.maxT).1 (clampInterval a b d.minT d.maxT).2 f.t l.t).2⟩)
    | _, _ => none
  else none

theorem delStones_eq (d : Db) (a b : Int) (sel : Option Nat) :
    delStones d a b sel = d.series.filterMap (stoneOf d a b sel) := rfl

theorem stoneOf_key {d : Db} {a b : Int} {sel : Option Nat} (u : HSeries) (p : Nat × Interval)
    (hp : stoneOf d a b sel u = some p) : p.1 = u.idx := by
  unfold stoneOf at hp
  split at hp
  · split at hp
    · split at hp
      · simp at hp
      · simp only [Option.some.injEq] at hp; rw [← hp]
    · simp at hp
  · simp at hp

/-- Every logged head stone is a valid interval. -/
theorem stoneOf_valid {d : Db} {a b : Int} {sel : Option Nat} (u : HSeries) (p : Nat × Interval)
    (hp : stoneOf d a b sel u = some p) : p.2.mint ≤ p.2.maxt := by
  unfold stoneOf at hp
  split at hp
  · split at hp
    · split at hp
      · simp at hp
      · rename_i hgt
        simp only [Option.some.injEq] at hp; rw [← hp]
        simp only; omega
    · simp at hp
  · simp at hp

def delHT (d : Db) (a b : Int) (sel : Option Nat) (s : HSeries) : Intervals :=
  if d.minT ≤ b ∧ a ≤ d.maxT then
    (match (delStones d a b sel).find? (fun p => p.1 = s.idx) with
     | some (_, iv) => addTomb s.tombs iv
     | none => s.tombs)
  else s.tombs

theorem blockDeleteSeries_eq (a b : Int) (s : BSeries) :
    blockDeleteSeries a b s = { s with tombs := (blockDeleteSeries a b s).tombs } := by
  unfold blockDeleteSeries
  split
  · split <;> rfl
  · rfl

theorem delete_blocks (d : Db) (a b : Int) (sel : Option Nat) :
    (d.delete a b sel).blocks = d.blocks.map (fun blk => { blk with series := blk.series.map (fun s => { s with tombs := delBT a b sel blk s }) }) := by
  have : (d.delete a b sel).blocks = d.blocks.map fun blk =>
      if blk.mint ≤ b ∧ a < blk.maxt then
        { blk with series := blk.series.map fun s => if hitSel sel s.idx then blockDeleteSeries a b s else s }
      else blk := by
    unfold Db.delete
    simp only
    split <;> rfl
  rw [this]
  apply List.map_congr_left
  intro blk _
  unfold delBT
  split
  · congr 1
    apply List.map_congr_left
    intro s _
    split
    · exact blockDeleteSeries_eq a b s
    · rfl
  · show blk = { blk with series := blk.series.map fun s => s }
    simp

theorem delete_series (d : Db) (a b : Int) (sel : Option Nat) :
    (d.delete a b sel).series = d.series.map (fun s => { s with tombs := delHT d a b sel s }) := by
  unfold Db.delete delHT
  simp only
  split
  · simp only
    apply List.map_congr_left
    intro s _
    show _ = ({ s with tombs := match (delStones d a b sel).find? (fun p => p.1 = s.idx) with | some (_, iv) => addTomb s.tombs iv | none => s.tombs } : HSeries)
    show (match (delStones d a b sel).find? (fun p => p.1 = s.idx) with | some (_, iv) => ({ s with tombs := addTomb s.tombs iv } : HSeries) | none => s) = _
    split <;> rfl
  · show d.series = d.series.map fun s => s
    simp

theorem delete_scalars (d : Db) (a b : Int) (sel : Option Nat) :
    (d.delete a b sel).cfg = d.cfg ∧ (d.delete a b sel).minT = d.minT ∧ (d.delete a b sel).maxT = d.maxT ∧
    (d.delete a b sel).minValid = d.minValid ∧ (d.delete a b sel).app = d.app := by
  unfold Db.delete
  simp only
  split <;> exact ⟨rfl, rfl, rfl, rfl, rfl⟩

/-- Coverage hypothesis for the tombstone lists present in the state. -/
structure CoverHyp (d : Db) : Prop where
  head : ∀ s ∈ d.series, ∀ iv, AddCoversAt s.tombs iv
  blk : ∀ blk ∈ d.blocks, ∀ s ∈ blk.series, ∀ iv, AddCoversAt s.tombs iv

theorem find_filterMap_key {l : List HSeries} (hn : l.Pairwise (fun s s' => s.idx ≠ s'.idx))
    (g : HSeries → Option (Nat × Interval)) (hg : ∀ u p, g u = some p → p.1 = u.idx)
    {s : HSeries} (hs : s ∈ l) :
    (l.filterMap g).find? (fun p => p.1 = s.idx) = g s := by
  cases h : (l.filterMap g).find? (fun p => p.1 = s.idx) with
  | none =>
    rw [List.find?_eq_none] at h
    cases hgs : g s with
    | none => rfl
    | some p =>
      have := h p (List.mem_filterMap.2 ⟨s, hs, hgs⟩)
      simp [hg s p hgs] at this
  | some q =>
    have h1 := List.mem_of_find?_eq_some h
    have h2 := List.find?_some h
    simp only [decide_eq_true_eq] at h2
    obtain ⟨u, hu, hgu⟩ := List.mem_filterMap.1 h1
    have : u = s := eq_of_idx_eq hn hu hs (by rw [← hg u q hgu, h2])
    rw [← this, hgu]

theorem visible_addTomb {ts : Intervals} {iv : Interval} (hc : AddCoversAt ts iv) (x : Smp) :
    visible (addTomb ts iv) x = (visible ts x && !decide (iv.mint ≤ x.t ∧ x.t ≤ iv.maxt)) := by
  simp only [visible, hc x.t, Bool.not_or]

/-- (d) `DB.Delete`: exactly the samples of the selected series with `a ≤ t ≤ b` disappear
    (`Inv` and `Sim` are preserved; `LastVis` is not — that is finding F28). -/
theorem delete_preserves_at {d : Db} {r : Ref} (hI : Inv d) (hS : Sim d r)
    (a b : Int) (sel : Option Nat)
    (hCh : ∀ s ∈ d.series, hitSel sel s.idx = true → ∀ f l, s.phys.head? = some f → s.phys.getLast? = some l →
      (d.minT ≤ b ∧ a ≤ d.maxT) →
      (clampInterval (clampInterval a b d.minT d.maxT).1 (clampInterval a b d.minT d.maxT).2 f.t l.t).1 ≤
        (clampInterval (clampInterval a b d.minT d.maxT).1 (clampInterval a b d.minT d.maxT).2 f.t l.t).2 →
      AddCoversAt s.tombs ⟨(clampInterval (clampInterval a b d.minT d.maxT).1 (clampInterval a b d.minT d.maxT).2 f.t l.t).1,
                           (clampInterval (clampInterval a b d.minT d.maxT).1 (clampInterval a b d.minT d.maxT).2 f.t l.t).2⟩)
    (hCb : ∀ blk ∈ d.blocks, ∀ s ∈ blk.series, hitSel sel s.idx = true → ∀ f l, s.smps.head? = some f →
      s.smps.getLast? = some l → (s.smps.any fun x => a ≤ x.t ∧ x.t ≤ b) = true →
      AddCoversAt s.tombs ⟨(clampInterval a b f.t l.t).1, (clampInterval a b f.t l.t).2⟩) :
    Inv (d.delete a b sel) ∧ Sim (d.delete a b sel) (r.del a b sel) := by
  obtain ⟨e1, e2, e3, e4, e5⟩ := delete_scalars d a b sel
  have hd : d.delete a b sel = { d with series := d.series.map (fun s => { s with tombs := delHT d a b sel s }), blocks := d.blocks.map (fun blk => { blk with series := blk.series.map (fun s => { s with tombs := delBT a b sel blk s }) }), wal := (d.delete a b sel).wal } :=
    Db.ext' e1 e2 e3 e4 (delete_series d a b sel) (delete_blocks d a b sel) rfl e5
  rw [hd]
  -- the stone of a head series
  have hstone : ∀ s ∈ d.series, (delStones d a b sel).find? (fun p => p.1 = s.idx) = stoneOf d a b sel s := by
    intro s hs
    rw [delStones_eq]
    exact find_filterMap_key hI.idxNodup _ (fun u p hp => stoneOf_key u p hp) hs
  apply retomb_preserves hI hS a b sel
  · -- head visibility
    intro s hs x hx
    unfold delHT
    have hlo := hI.physLo s hs x hx
    have hhi := hI.physHi s hs x hx
    split
    · rw [hstone s hs]
      unfold stoneOf
      cases hf : s.phys.head? with
      | none => have : s.phys = [] := by simpa using hf
                rw [this] at hx; simp at hx
      | some f =>
        cases hl : s.phys.getLast? with
        | none => have : s.phys = [] := by simpa using hl
                  rw [this] at hx; simp at hx
        | some l =>
          have h1 := (hI.physInc s hs).head_le hf x hx
          have h2 := (hI.physInc s hs).le_getLast hl x hx
          by_cases hh : hitSel sel s.idx = true
          · simp only [hh, if_true, Bool.true_and]
            by_cases hinv : (clampInterval (clampInterval a b d.minT d.maxT).1 (clampInterval a b d.minT d.maxT).2 f.t l.t).1 >
                (clampInterval (clampInterval a b d.minT d.maxT).1 (clampInterval a b d.minT d.maxT).2 f.t l.t).2
            · -- inverted: the requested range misses the series, nothing is hidden
              have : ¬ (a ≤ x.t ∧ x.t ≤ b) := clamp_inverted hinv hlo hhi h1 h2
              simp [hinv, this]
            · simp only [hinv, if_false]
              rw [visible_addTomb (hCh s hs hh f l hf hl (by assumption) (by omega))]
              congr 2
              simp only [clampInterval]
              apply decide_eq_decide.2
              constructor
              · rintro ⟨h3, h4⟩
                constructor
                · split at h3 <;> split at h3 <;> omega
                · split at h4 <;> split at h4 <;> omega
              · rintro ⟨h3, h4⟩
                constructor
                · split <;> split <;> omega
                · split <;> split <;> omega
          · simp [hh]
    · rename_i hov
      have : ¬ (a ≤ x.t ∧ x.t ≤ b) := by omega
      simp [this]
  · -- block visibility
    intro blk hb s hs x hx
    unfold delBT
    have hr := hI.blkRange blk hb s hs x hx
    split
    · by_cases hh : hitSel sel s.idx = true
      · simp only [hh, if_true, Bool.true_and]
        unfold blockDeleteSeries
        cases hf : s.smps.head? with
        | none => have : s.smps = [] := by simpa using hf
                  rw [this] at hx; simp at hx
        | some f =>
          cases hl : s.smps.getLast? with
          | none => have : s.smps = [] := by simpa using hl
                    rw [this] at hx; simp at hx
          | some l =>
            have h1 := (hI.blkInc blk hb s hs).head_le hf x hx
            have h2 := (hI.blkInc blk hb s hs).le_getLast hl x hx
            simp only
            split
            · rename_i hany
              simp only
              rw [visible_addTomb (hCb blk hb s hs hh f l hf hl hany)]
              congr 2
              simp only [clampInterval]
              apply decide_eq_decide.2
              constructor
              · rintro ⟨h3, h4⟩
                constructor
                · split at h3 <;> omega
                · split at h4 <;> omega
              · rintro ⟨h3, h4⟩
                constructor
                · split <;> omega
                · split <;> omega
            · rename_i hany
              simp only [List.any_eq_true, decide_eq_true_eq, not_exists, not_and] at hany
              have := hany x hx
              have : ¬ (a ≤ x.t ∧ x.t ≤ b) := fun h => this h.1 h.2
              simp [this]
      · simp [hh]
    · rename_i hov
      have : ¬ (a ≤ x.t ∧ x.t ≤ b) := by omega
      simp [this]
  · -- tombstones end at the newest sample
    intro s hs iv hiv l hl
    unfold delHT at hiv
    split at hiv
    · rw [hstone s hs] at hiv
      unfold stoneOf at hiv
      by_cases hh : hitSel sel s.idx = true
      · simp only [hh, if_true] at hiv
        cases hf : s.phys.head? with
        | none => have : s.phys = [] := by simpa using hf
                  rw [this] at hl; simp at hl
        | some f =>
          simp only [hf, hl] at hiv
          by_cases hinv : (clampInterval (clampInterval a b d.minT d.maxT).1 (clampInterval a b d.minT d.maxT).2 f.t l.t).1 >
              (clampInterval (clampInterval a b d.minT d.maxT).1 (clampInterval a b d.minT d.maxT).2 f.t l.t).2
          · simp only [hinv, if_true] at hiv
            exact hI.tombHi s hs iv hiv l hl
          · simp only [hinv, if_false] at hiv
            refine addTomb_maxt_le s.tombs _ l.t (fun y hy => hI.tombHi s hs y hy l hl) ?_ iv hiv
            simp only [clampInterval]
            split <;> omega
      · simp only [hh, Bool.false_eq_true, if_false] at hiv
        exact hI.tombHi s hs iv hiv l hl
    · exact hI.tombHi s hs iv hiv l hl

/-- The same under the blanket coverage hypothesis. -/
theorem delete_preserves {d : Db} {r : Ref} (hI : Inv d) (hS : Sim d r) (hC : CoverHyp d)
    (a b : Int) (sel : Option Nat) :
    Inv (d.delete a b sel) ∧ Sim (d.delete a b sel) (r.del a b sel) :=
  delete_preserves_at hI hS a b sel (fun s hs _ _ _ _ _ _ _ => hC.head s hs _)
    (fun blk hb s hs _ _ _ _ _ _ => hC.blk blk hb s hs _)

end Prom.Db
