import PromModel.Ingest.Nhcb
/-
  IEEE `<` / `==` on bit patterns (`Prom.Nhcb.flt`/`feq`) form a strict total order on non-NaN doubles
  (modulo `feq`, which identifies +0 and -0).
-/
namespace Prom.Nhcb

theorem flt_iff (a b : Nat) : flt a b = true ↔
    ∃ i x j y, key a = some (i, x) ∧ key b = some (j, y) ∧ (i < j ∨ (i = j ∧ x < y)) := by
  unfold flt
  constructor
  · intro h
    split at h
    · rename_i i x j y ha hb
      refine ⟨i, x, j, y, ha, hb, ?_⟩
      simpa using h
    · simp at h
  · rintro ⟨i, x, j, y, ha, hb, h⟩
    rw [ha, hb]
    simpa using h

theorem feq_iff (a b : Nat) : feq a b = true ↔ ∃ k, key a = some k ∧ key b = some k := by
  unfold feq
  constructor
  · intro h
    split at h
    · rename_i x y ha hb
      have : x = y := by simpa using h
      subst this
      exact ⟨x, ha, hb⟩
    · simp at h
  · rintro ⟨k, ha, hb⟩
    rw [ha, hb]; simp

theorem isNaN_iff (a : Nat) : isNaN a = false ↔ ∃ k, key a = some k := by
  unfold isNaN
  cases key a <;> simp

theorem flt_trans {a b c : Nat} (h1 : flt a b = true) (h2 : flt b c = true) : flt a c = true := by
  rw [flt_iff] at *
  obtain ⟨i, x, j, y, ha, hb, h⟩ := h1
  obtain ⟨j', y', k, z, hb', hc, h'⟩ := h2
  rw [hb] at hb'
  cases hb'
  refine ⟨i, x, k, z, ha, hc, ?_⟩
  grind

theorem flt_irrefl (a : Nat) : flt a a = false := by
  cases h : flt a a
  · rfl
  · rw [flt_iff] at h
    obtain ⟨i, x, j, y, ha, hb, h⟩ := h
    rw [ha] at hb
    cases hb
    grind

theorem flt_asymm {a b : Nat} (h : flt a b = true) : flt b a = false := by
  cases h' : flt b a
  · rfl
  · have := flt_trans h h'
    rw [flt_irrefl] at this
    cases this

theorem flt_not_nan {a b : Nat} (h : flt a b = true) : isNaN a = false ∧ isNaN b = false := by
  rw [flt_iff] at h
  obtain ⟨i, x, j, y, ha, hb, _⟩ := h
  exact ⟨(isNaN_iff a).mpr ⟨_, ha⟩, (isNaN_iff b).mpr ⟨_, hb⟩⟩

theorem flt_total {a b : Nat} (ha : isNaN a = false) (hb : isNaN b = false) :
    flt a b = true ∨ feq a b = true ∨ flt b a = true := by
  obtain ⟨⟨i, x⟩, ha⟩ := (isNaN_iff a).mp ha
  obtain ⟨⟨j, y⟩, hb⟩ := (isNaN_iff b).mp hb
  rw [flt_iff, feq_iff, flt_iff]
  by_cases h1 : i < j ∨ (i = j ∧ x < y)
  · exact Or.inl ⟨i, x, j, y, ha, hb, h1⟩
  · by_cases h2 : j < i ∨ (j = i ∧ y < x)
    · exact Or.inr (Or.inr ⟨j, y, i, x, hb, ha, h2⟩)
    · refine Or.inr (Or.inl ⟨(i, x), ha, ?_⟩)
      have : i = j ∧ x = y := by grind
      rw [hb, this.1, this.2]

theorem feq_flt {a b c : Nat} (h1 : feq a b = true) (h2 : flt b c = true) : flt a c = true := by
  rw [feq_iff] at h1
  rw [flt_iff] at *
  obtain ⟨k, ha, hb⟩ := h1
  obtain ⟨j, y, l, z, hb', hc, h⟩ := h2
  rw [hb] at hb'
  cases hb'
  exact ⟨j, y, l, z, ha, hc, h⟩

theorem flt_feq {a b c : Nat} (h1 : flt a b = true) (h2 : feq b c = true) : flt a c = true := by
  rw [feq_iff] at h2
  rw [flt_iff] at *
  obtain ⟨k, hb, hc⟩ := h2
  obtain ⟨i, x, j, y, ha, hb', h⟩ := h1
  rw [hb] at hb'
  cases hb'
  exact ⟨i, x, j, y, ha, hc, h⟩

end Prom.Nhcb
