import PromModel.Promql.AggK
/-
  Helper lemmas for the `aggregationK` part of C27 (PromProps/C27.lean): every way of leaving a step
  advances all cursors, the samples read at a step are the heads at that step, and on-grid matrices keep
  the heads in line with the step times.
-/
namespace Prom.AggK
open Prom.RangeEval

theorem flatMap_congr' {α β} (l : List α) (f g : α → List β) (h : ∀ a ∈ l, f a = g a) : l.flatMap f = l.flatMap g := by
  induction l with
  | nil => rfl
  | cons a l ih =>
    simp [List.flatMap_cons, h a (by simp), ih (fun b hb => h b (List.mem_cons_of_mem _ hb))]

theorem filterMap_congr' {α β} (l : List α) (f g : α → Option β) (h : ∀ a ∈ l, f a = g a) :
    l.filterMap f = l.filterMap g := by
  induction l with
  | nil => rfl
  | cons a l ih =>
    simp [List.filterMap_cons, h a (by simp), ih (fun b hb => h b (List.mem_cons_of_mem _ hb))]

/-! ### laws of the abstract choices -/

/-- Nothing is selected from an empty group (a group without a sample at this step is skipped). -/
def Pick.NilOk (pk : Pick) : Prop := ∀ k, pk.topk k [] = [] ∧ pk.bottomk k [] = []

/-- A heap of capacity `k` over a group of `m ≤ k` samples behaves like one of capacity `m`. -/
def Pick.ClampOk (pk : Pick) : Prop :=
  ∀ k g, pk.topk k g = pk.topk (min k g.length) g ∧ pk.bottomk k g = pk.bottomk (min k g.length) g

theorem pickGroup_nil (pk : Pick) (h : pk.NilOk) (op : KOp) (p : Rat) (n : Nat) : pickGroup pk op p n [] = [] := by
  cases op <;> simp [pickGroup, (h _).1, (h _).2]

theorem selectK_nil (pk : Pick) (h : pk.NilOk) (op : KOp) (p : Rat) (n : Nat) (wo : Bool) (ls : List String)
    (groups : List Labels) : selectK pk op p n wo ls groups [] = [] := by
  simp [selectK, pickGroup_nil pk h]

/-! ### one step -/

/-- Unless the step is the query's end timestamp, the series loop leaves EVERY cursor advanced past `ts`,
    whichever way it is left (`k < 1`, `r == 0`, limitk complete, or all series visited). -/
theorem stepLoop_advances (op : KOp) (p : Rat) (n : Nat) (wo : Bool) (ls : List String) (groups : List Labels) (ts : Int) :
    ∀ (ss : List In) (acc : Vector), (stepLoop op p n wo ls groups false ts ss acc).1 = advance ts ss
  | [], _ => rfl
  | s :: rest, acc => by
    unfold stepLoop
    cases h : (nextValue ts s).1 with
    | none => simp [stepLoop_advances op p n wo ls groups ts rest acc, advance]
    | some v =>
      simp only []
      split
      · simp [advance]
      · split
        · simp [advance]
        · simp [stepLoop_advances op p n wo ls groups ts rest _, advance]

theorem selectK_limitk_append (pk : Pick) (p : Rat) (n : Nat) (wo : Bool) (ls : List String) (groups : List Labels)
    (a s : Vector) (h : allComplete wo ls (kOf p n).toNat groups a = true) :
    selectK pk .limitk p n wo ls groups (a ++ s) = selectK pk .limitk p n wo ls groups a := by
  unfold selectK
  apply flatMap_congr'
  intro g hg
  have hk : max (kOf p n).toNat 2 ≤ (a.filter (inGroup wo ls g)).length := by
    have := (List.all_eq_true.mp h) g hg
    simpa using this
  simp only [pickGroup, List.filter_append]
  exact List.take_append_of_le_length (by omega)

theorem headVec_cons_none (ts : Int) (s : In) (rest : List In) (h : (nextValue ts s).1 = none) :
    headVec ts (s :: rest) = headVec ts rest := by
  simp [headVec, h]

theorem headVec_cons_some (ts : Int) (s : In) (rest : List In) (v : Rat) (h : (nextValue ts s).1 = some v) :
    headVec ts (s :: rest) = ⟨s.lbls, v⟩ :: headVec ts rest := by
  simp [headVec, h]

/-- What the series loop selects: nothing new if no cursor is at `ts`; nil on `k < 1` / `r == 0`; otherwise the
    selection from everything at the heads (for limitk the loop may stop early — the samples it skips would
    not have been taken). -/
theorem stepLoop_out (pk : Pick) (op : KOp) (p : Rat) (n : Nat) (wo : Bool) (ls : List String) (groups : List Labels)
    (atEnd : Bool) (ts : Int) :
    ∀ (ss : List In) (acc : Vector),
      stepOut pk op p n wo ls groups (stepLoop op p n wo ls groups atEnd ts ss acc).2 =
        if (headVec ts ss).isEmpty then selectK pk op p n wo ls groups acc
        else if earlyNil op p n then []
        else selectK pk op p n wo ls groups (acc ++ headVec ts ss)
  | [], acc => by simp [stepLoop, stepOut, headVec]
  | s :: rest, acc => by
    unfold stepLoop
    cases h : (nextValue ts s).1 with
    | none =>
      simp only [headVec_cons_none ts s rest h]
      exact stepLoop_out pk op p n wo ls groups atEnd ts rest acc
    | some v =>
      simp only [headVec_cons_some ts s rest v h, List.isEmpty_cons, Bool.false_eq_true, if_false]
      by_cases he : earlyNil op p n = true
      · simp [he, stepOut]
      · simp only [he]
        by_cases hc : (decide (op = KOp.limitk) && allComplete wo ls (kOf p n).toNat groups (acc ++ [⟨s.lbls, v⟩])) = true
        · simp only [hc, if_true, stepOut]
          have hop : op = .limitk := by
            have := (Bool.and_eq_true _ _).mp hc
            simpa using this.1
          have hall := ((Bool.and_eq_true _ _).mp hc).2
          subst hop
          have := selectK_limitk_append pk p n wo ls groups (acc ++ [⟨s.lbls, v⟩]) (headVec ts rest) hall
          simpa [List.append_assoc] using this.symm
        · simp only [hc, Bool.false_eq_true, if_false]
          rw [stepLoop_out pk op p n wo ls groups atEnd ts rest (acc ++ [(⟨s.lbls, v⟩ : Elem)])]
          by_cases hr : (headVec ts rest).isEmpty = true
          · have : headVec ts rest = [] := by simpa using hr
            simp [this]
          · simp [hr, he, List.append_assoc]

/-- One `aggregationK` call = the per-step semantics on the heads. -/
theorem step_eq_instantCore (pk : Pick) (hn : pk.NilOk) (op : KOp) (p : Rat) (n : Nat) (wo : Bool) (ls : List String)
    (groups : List Labels) (atEnd : Bool) (ts : Int) (ss : List In) :
    stepOut pk op p n wo ls groups (stepLoop op p n wo ls groups atEnd ts ss []).2 =
      instantCore pk op p n wo ls groups (headVec ts ss) := by
  rw [stepLoop_out]
  unfold instantCore
  by_cases h : (headVec ts ss).isEmpty = true
  · simp [h, selectK_nil pk hn]
  · by_cases he : earlyNil op p n = true <;> simp [h, he]

/-! ### all steps -/

/-- The specification in terms of cursors: every step sees the heads at its time and leaves all cursors advanced. -/
def cursorSpec (pk : Pick) (op : KOp) (n : Nat) (wo : Bool) (ls : List String) (groups : List Labels) :
    List (Int × Rat) → List In → List Vector
  | [], _ => []
  | (t, p) :: rest, ss => instantCore pk op p n wo ls groups (headVec t ss) :: cursorSpec pk op n wo ls groups rest (advance t ss)

theorem rangeSteps_eq_cursorSpec (pk : Pick) (hn : pk.NilOk) (op : KOp) (n : Nat) (wo : Bool) (ls : List String)
    (groups : List Labels) (endTs : Int) :
    ∀ (steps : List (Int × Rat)) (ss : List In), (steps.map (·.1)).Pairwise (· < ·) → (∀ tp ∈ steps, tp.1 ≤ endTs) →
      rangeSteps pk op n wo ls groups endTs steps ss = cursorSpec pk op n wo ls groups steps ss
  | [], _, _, _ => rfl
  | [(t, p)], ss, _, _ => by
    simp [rangeSteps, cursorSpec, step_eq_instantCore pk hn]
  | (t, p) :: (t', p') :: rest, ss, hs, hle => by
    have hlt : t < t' := by
      have := List.pairwise_cons.mp hs
      exact this.1 t' (by simp)
    have hne : (t == endTs) = false := by
      have := hle (t', p') (by simp)
      simp only at this
      simp
      omega
    have ih := rangeSteps_eq_cursorSpec pk hn op n wo ls groups endTs ((t', p') :: rest) (advance t ss)
      (List.pairwise_cons.mp hs).2 (fun tp h => hle tp (List.mem_cons_of_mem _ h))
    rw [rangeSteps, cursorSpec, hne, step_eq_instantCore pk hn, stepLoop_advances, ih]

/-! ### on-grid matrices: heads = samples at the step time -/

theorem nextValue_onGrid (t : Int) (rest : List Int) (hlt : ∀ x ∈ rest, t < x) (s : In) (h : onGrid (t :: rest) s) :
    (nextValue t s).1 = (s.pts.find? fun p => p.t == t).map (·.v) ∧ onGrid rest (nextValue t s).2 ∧
      (nextValue t s).2.lbls = s.lbls ∧
      ∀ t' ∈ rest, ((nextValue t s).2.pts.find? fun p => p.t == t') = (s.pts.find? fun p => p.t == t') := by
  obtain ⟨lbls, pts⟩ := s
  cases pts with
  | nil => simp [nextValue, onGrid]
  | cons q qs =>
    unfold onGrid at h
    simp only [List.map_cons] at h
    by_cases hq : q.t = t
    · have hsub : (qs.map (·.t)).Sublist rest := by
        rw [hq] at h
        exact List.cons_sublist_cons.mp h
      refine ⟨by simp [nextValue, hq], by simpa [nextValue, hq, onGrid] using hsub, by simp [nextValue, hq], ?_⟩
      intro t' ht'
      have : t < t' := hlt t' ht'
      have hne : (q.t == t') = false := by simp; omega
      simp [nextValue, hq, List.find?_cons]
      rw [hq] at hne
      simp [hne]
    · have hsub : ((q :: qs).map (·.t)).Sublist rest := by
        simp only [List.map_cons]
        cases h with
        | cons _ h' => exact h'
        | cons_cons _ _ => exact absurd rfl hq
      have hall : ∀ x ∈ (q :: qs), (x.t == t) = false := by
        intro x hx
        have : x.t ∈ rest := hsub.subset (List.mem_map_of_mem hx)
        have := hlt _ this
        simp; omega
      refine ⟨?_, by simpa [nextValue, hq, onGrid] using hsub, by simp [nextValue, hq], by simp [nextValue, hq]⟩
      have hf : (List.find? (fun p => p.t == t) (q :: qs)) = none := by
        rw [List.find?_eq_none]
        intro x hx
        simp [hall x hx]
      simp [nextValue, hq, hf]

theorem headVec_eq_vecAt (t : Int) (rest : List Int) (hlt : ∀ x ∈ rest, t < x) (ss : List In)
    (h : ∀ s ∈ ss, onGrid (t :: rest) s) : headVec t ss = vecAt t ss := by
  unfold headVec vecAt
  apply filterMap_congr'
  intro s hs
  rw [(nextValue_onGrid t rest hlt s (h s hs)).1]
  simp [Option.map_map, Function.comp_def]

theorem vecAt_advance (t : Int) (rest : List Int) (hlt : ∀ x ∈ rest, t < x) (ss : List In)
    (h : ∀ s ∈ ss, onGrid (t :: rest) s) (t' : Int) (ht' : t' ∈ rest) : vecAt t' (advance t ss) = vecAt t' ss := by
  unfold vecAt advance
  rw [List.filterMap_map]
  apply filterMap_congr'
  intro s hs
  have := nextValue_onGrid t rest hlt s (h s hs)
  simp [this.2.2.1, this.2.2.2 t' ht']

theorem cursorSpec_eq_map (pk : Pick) (op : KOp) (n : Nat) (wo : Bool) (ls : List String) (groups : List Labels) :
    ∀ (steps : List (Int × Rat)) (ss : List In), (steps.map (·.1)).Pairwise (· < ·) →
      (∀ s ∈ ss, onGrid (steps.map (·.1)) s) →
      cursorSpec pk op n wo ls groups steps ss = steps.map fun tp => instantCore pk op tp.2 n wo ls groups (vecAt tp.1 ss)
  | [], _, _, _ => rfl
  | (t, p) :: rest, ss, hs, hg => by
    have hlt : ∀ x ∈ rest.map (·.1), t < x := (List.pairwise_cons.mp hs).1
    have hg' : ∀ s ∈ ss, onGrid (t :: rest.map (·.1)) s := by simpa using hg
    have hadv : ∀ s ∈ advance t ss, onGrid (rest.map (·.1)) s := by
      intro s hs'
      obtain ⟨s0, hs0, rfl⟩ := List.mem_map.mp hs'
      exact (nextValue_onGrid t _ hlt s0 (hg' s0 hs0)).2.1
    rw [cursorSpec, headVec_eq_vecAt t _ hlt ss hg',
      cursorSpec_eq_map pk op n wo ls groups rest (advance t ss) (List.pairwise_cons.mp hs).2 hadv]
    simp only [List.map_cons, List.cons.injEq, true_and]
    apply List.map_congr_left
    intro tp htp
    rw [vecAt_advance t _ hlt ss hg' tp.1 (List.mem_map_of_mem htp)]

/-! ### the early return of `rangeEvalAgg` -/

theorem truncR_lt_one (p : Rat) (h : p < 1) : truncR p < 1 := by
  unfold truncR
  split
  · rename_i hneg
    rw [Rat.ceil_eq_neg_floor_neg]
    have : (0 : Int) ≤ (-p).floor := by
      rw [Rat.le_floor_iff]
      have : (0 : Rat) ≤ -p := by
        have := Rat.neg_lt_neg hneg
        simpa using Rat.le_of_lt this
      simpa using this
    omega
  · rw [Rat.floor_lt_iff]
    simpa using h

theorem allNil_earlyNil (op : KOp) (steps : List (Int × Rat)) (h : allNil op steps = true) (n : Nat) :
    ∀ tp ∈ steps, earlyNil op tp.2 n = true := by
  intro tp htp
  cases op
  case limitRatio =>
    simp only [allNil, List.all_eq_true] at h
    simpa [earlyNil] using h tp htp
  all_goals
    simp only [allNil, List.all_eq_true, decide_eq_true_eq] at h
    have h1 := truncR_lt_one tp.2 (h tp htp)
    simp only [earlyNil, kOf]
    apply decide_eq_true
    omega

/-! ### the instant query's own input matrix -/

theorem mem_dedup (x : Labels) : ∀ l : List Labels, x ∈ dedup l ↔ x ∈ l
  | [] => by simp [dedup]
  | a :: l => by
    simp only [dedup, List.mem_cons, List.mem_filter, mem_dedup x l]
    by_cases h : x = a <;> simp [h]

theorem earlyNil_len (op : KOp) (p : Rat) (n m : Nat) (hm : 1 ≤ m) (hmn : m ≤ n) : earlyNil op p n = earlyNil op p m := by
  cases op <;> simp only [earlyNil, kOf]
  all_goals
    apply decide_eq_decide.mpr
    omega

theorem pickGroup_len (pk : Pick) (hc : pk.ClampOk) (op : KOp) (p : Rat) (n m : Nat) (g : Vector)
    (hg : g.length ≤ m) (hmn : m ≤ n) : pickGroup pk op p n g = pickGroup pk op p m g := by
  have hk : min (kOf p n).toNat g.length = min (kOf p m).toNat g.length := by
    simp only [kOf]
    omega
  cases op
  · simp only [pickGroup]
    rw [(hc (kOf p n).toNat g).1, (hc (kOf p m).toNat g).1, hk]
  · simp only [pickGroup]
    rw [(hc (kOf p n).toNat g).2, (hc (kOf p m).toNat g).2, hk]
  · simp only [pickGroup]
    exact List.take_eq_take_iff.mpr hk
  · rfl

/-- The step's selection does not depend on whether `len(inputMatrix)` and the `groups` array are those of the
    range query's input matrix or those of the instant query's (the series present at this step), as sets. -/
theorem mem_instantCore_iff (pk : Pick) (hn : pk.NilOk) (hc : pk.ClampOk) (op : KOp) (p : Rat) (n : Nat) (wo : Bool)
    (ls : List String) (groups : List Labels) (vec : Vector) (hlen : vec.length ≤ n)
    (hgr : ∀ e ∈ vec, groupKey wo ls e.lbls ∈ groups) (e : Elem) :
    e ∈ instantCore pk op p n wo ls groups vec ↔ e ∈ instantK pk op p wo ls vec := by
  unfold instantK instantCore
  by_cases hv : vec = []
  · simp [hv]
  have hpos : 1 ≤ vec.length := by
    cases vec with
    | nil => exact absurd rfl hv
    | cons _ _ => simp
  rw [earlyNil_len op p n vec.length hpos hlen]
  have hemp : vec.isEmpty = false := by simpa using hv
  by_cases he : earlyNil op p vec.length = true
  · simp [he]
  · simp only [hemp, he, Bool.or_self, Bool.false_eq_true, if_false, selectK, List.mem_flatMap]
    have hfl : ∀ g, (vec.filter (inGroup wo ls g)).length ≤ vec.length := fun g => List.length_filter_le _ _
    constructor
    · rintro ⟨g, _, hmem⟩
      rw [pickGroup_len pk hc op p n vec.length _ (hfl g) hlen] at hmem
      refine ⟨g, ?_, hmem⟩
      have hne : vec.filter (inGroup wo ls g) ≠ [] := by
        intro h0
        rw [h0, pickGroup_nil pk hn] at hmem
        simp at hmem
      obtain ⟨x, hx⟩ := List.exists_mem_of_ne_nil _ hne
      have hx' := List.mem_filter.mp hx
      have hkey : groupKey wo ls x.lbls = g := by simpa [inGroup] using hx'.2
      rw [groupsOf, mem_dedup]
      exact List.mem_map.mpr ⟨x.lbls, List.mem_map_of_mem hx'.1, hkey⟩
    · rintro ⟨g, hg, hmem⟩
      rw [← pickGroup_len pk hc op p n vec.length _ (hfl g) hlen] at hmem
      refine ⟨g, ?_, hmem⟩
      rw [groupsOf, mem_dedup] at hg
      obtain ⟨l, hl, rfl⟩ := List.mem_map.mp hg
      obtain ⟨x, hx, rfl⟩ := List.mem_map.mp hl
      exact hgr x hx

/-! ### the executable choices satisfy the laws -/

theorem length_insertDesc (e : Elem) : ∀ v : Vector, (insertDesc e v).length = v.length + 1
  | [] => rfl
  | x :: xs => by
    unfold insertDesc
    split <;> simp [length_insertDesc e xs]

theorem length_insertAsc (e : Elem) : ∀ v : Vector, (insertAsc e v).length = v.length + 1
  | [] => rfl
  | x :: xs => by
    unfold insertAsc
    split <;> simp [length_insertAsc e xs]

theorem length_foldl_insert (f : Elem → Vector → Vector) (hf : ∀ e v, (f e v).length = v.length + 1) :
    ∀ (v acc : Vector), (v.foldl (fun a e => f e a) acc).length = acc.length + v.length
  | [], acc => by simp
  | x :: xs, acc => by
    simp only [List.foldl_cons, length_foldl_insert f hf xs, hf, List.length_cons]
    omega

theorem stablePick_laws : stablePick.NilOk ∧ stablePick.ClampOk := by
  constructor
  · intro k
    simp [stablePick, sortDesc, sortAsc]
  · intro k g
    have h1 : (sortDesc g).length = g.length := by
      simpa [sortDesc] using length_foldl_insert insertDesc length_insertDesc g []
    have h2 : (sortAsc g).length = g.length := by
      simpa [sortAsc] using length_foldl_insert insertAsc length_insertAsc g []
    constructor
    · simp only [stablePick]
      apply List.take_eq_take_iff.mpr
      omega
    · simp only [stablePick]
      apply List.take_eq_take_iff.mpr
      omega

end Prom.AggK
