import PromProofs.DbMaxBlk
/-
  C01 refinement, restart: auxiliary "function view" lemmas (the head seen as `i ↦ d.getSeries i`)
  for the WAL invariant: replay independence of the base, stones folds with distinct keys, the live
  effect of `Db.delete` and of one head compaction.
-/
namespace Prom.Db
open Prom.Intervals

/-! ### 1. Replay depends only on the `series` of the base -/

theorem getSeries_congr' {d d' : Db} (h : d'.series = d.series) (i : Nat) :
    d'.getSeries i = d.getSeries i := getSeries_congr h i

theorem setSeries_series_congr {d d' : Db} (h : d.series = d'.series) (s : HSeries) :
    (d.setSeries s).series = (d'.setSeries s).series := by
  unfold Db.setSeries
  rw [h]
  by_cases hc : d'.series.any (·.idx = s.idx) = true
  · rw [if_pos hc, if_pos hc]
  · rw [if_neg hc, if_neg hc]

/-- Lockstep invariant of two left folds. -/
theorem foldl_rel {α α' β : Type} (R : α → α' → Prop) (f : α → β → α) (f' : α' → β → α')
    (hf : ∀ a a' b, R a a' → R (f a b) (f' a' b)) :
    ∀ (l : List β) (a : α) (a' : α'), R a a' → R (l.foldl f a) (l.foldl f' a') := by
  intro l
  induction l with
  | nil => intro a a' h; exact h
  | cons b bs ih => intro a a' h; rw [List.foldl_cons, List.foldl_cons]; exact ih _ _ (hf a a' b h)

theorem reSmp_series_congr (c : Int) (a a' : Db × Int × Int) (p : Nat × Smp)
    (h : a.1.series = a'.1.series ∧ a.2 = a'.2) :
    (reSmp c a p).1.series = (reSmp c a' p).1.series ∧ (reSmp c a p).2 = (reSmp c a' p).2 := by
  obtain ⟨h1, h2⟩ := h
  unfold reSmp
  by_cases hlt : p.2.t < c
  · rw [if_pos hlt, if_pos hlt]; exact ⟨h1, h2⟩
  · rw [if_neg hlt, if_neg hlt]
    refine ⟨?_, ?_⟩
    · show (a.1.setSeries _).series = (a'.1.setSeries _).series
      rw [getSeries_congr h1 p.1]
      exact setSeries_series_congr h1 _
    · show (min a.2.1 p.2.t, max a.2.2 p.2.t) = (min a'.2.1 p.2.t, max a'.2.2 p.2.t)
      rw [h2]

theorem reStone_series_congr (c : Int) {h h' : Db} (e : h.series = h'.series) (p : Nat × Interval) :
    (reStone c h p).series = (reStone c h' p).series := by
  unfold reStone
  by_cases h1 : p.2.maxt < c
  · rw [if_pos h1, if_pos h1]; exact e
  · rw [if_neg h1, if_neg h1, getSeries_congr e p.1]
    by_cases h2 : h'.series.any (·.idx = p.1) = true
    · have h2' : h.series.any (·.idx = p.1) = true := by rw [e]; exact h2
      rw [if_pos h2, if_pos h2']
      exact setSeries_series_congr e _
    · have h2' : ¬ h.series.any (·.idx = p.1) = true := by rw [e]; exact h2
      rw [if_neg h2, if_neg h2']; exact e

theorem reRec_series_congr (c : Int) (a a' : Db × Int × Int) (r : Rec)
    (h : a.1.series = a'.1.series ∧ a.2 = a'.2) :
    (reRec c a r).1.series = (reRec c a' r).1.series ∧ (reRec c a r).2 = (reRec c a' r).2 := by
  cases r with
  | samples xs =>
    exact foldl_rel (fun x x' : Db × Int × Int => x.1.series = x'.1.series ∧ x.2 = x'.2)
      (reSmp c) (reSmp c) (fun x x' b hx => reSmp_series_congr c x x' b hx) xs a a' h
  | stones xs =>
    obtain ⟨h1, h2⟩ := h
    refine ⟨?_, ?_⟩
    · exact foldl_rel (fun x x' : Db => x.series = x'.series) (reStone c) (reStone c)
        (fun x x' b hx => reStone_series_congr c hx b) xs a.1 a'.1 h1
    · show (a.2.1, a.2.2) = (a'.2.1, a'.2.2)
      rw [h2]

theorem reFold_series_congr (c : Int) (b b' : Db) (h : b.series = b'.series) (wal : List Rec) :
    (reFold c b wal).1.series = (reFold c b' wal).1.series ∧
      (reFold c b wal).2 = (reFold c b' wal).2 :=
  foldl_rel (fun x x' : Db × Int × Int => x.1.series = x'.1.series ∧ x.2 = x'.2)
    (reRec c) (reRec c) (fun x x' r hx => reRec_series_congr c x x' r hx) wal
    (b, MaxI64, MinI64) (b', MaxI64, MinI64) ⟨h, rfl⟩

theorem reBase_series (d : Db) : (reBase d).series = [] := by
  unfold reBase; split <;> rfl

theorem rep_series (c : Int) (d : Db) :
    (rep c d.wal).series = (reFold c (reBase d) d.wal).1.series :=
  (reFold_series_congr c _ _ (reBase_series d).symm d.wal).1

theorem rep_lohi (c : Int) (d : Db) :
    (reFold c { cfg := ⟨0, 0⟩ } d.wal).2 = (reFold c (reBase d) d.wal).2 :=
  (reFold_series_congr c _ _ (reBase_series d).symm d.wal).2

theorem rep_getSeries (c : Int) (d : Db) (i : Nat) :
    (rep c d.wal).getSeries i = (reFold c (reBase d) d.wal).1.getSeries i :=
  getSeries_congr (rep_series c d) i

theorem rep_append (c : Int) (wal : List Rec) (r : Rec) :
    rep c (wal ++ [r]) = (reRec c (reFold c { cfg := ⟨0, 0⟩ } wal) r).1 := by
  unfold rep reFold
  rw [List.foldl_append]
  rfl

/-! ### 2. List view ↔ function view -/

theorem getSeries_absent {d : Db} {j : Nat} (h : ∀ s ∈ d.series, s.idx ≠ j) :
    d.getSeries j = ⟨j, [], []⟩ := by
  rcases getSeries_cases d j with hc | hc
  · exact absurd hc.2 (h _ hc.1)
  · exact hc.2

theorem mem_head_iff {d : Db} (hn : d.series.Pairwise (fun s s' => s.idx ≠ s'.idx)) (i : Nat)
    (P : HSeries → Prop) (x : Smp) :
    (∃ s ∈ d.series, s.idx = i ∧ x ∈ s.phys ∧ P s) ↔
      (x ∈ (d.getSeries i).phys ∧ P (d.getSeries i)) := by
  constructor
  · rintro ⟨s, hs, hi, hx, hP⟩
    have e := getSeries_of_mem hn hs
    rw [hi] at e
    rw [e]; exact ⟨hx, hP⟩
  · rintro ⟨hx, hP⟩
    rcases getSeries_cases d i with hc | hc
    · exact ⟨_, hc.1, hc.2, hx, hP⟩
    · rw [hc.2] at hx; cases hx

/-! ### 3. Stones folds with pairwise distinct keys -/

theorem reStone_any (c : Int) (h : Db) (p : Nat × Interval) (j : Nat) :
    (reStone c h p).series.any (·.idx = j) = h.series.any (·.idx = j) := by
  unfold reStone
  split
  · rfl
  · split
    · rename_i hany
      rw [any_setSeries]
      show (decide (j = (h.getSeries p.1).idx) || _) = _
      rw [getSeries_idx]
      by_cases hj : j = p.1
      · subst hj; rw [hany]; simp
      · simp [hj]
    · rfl

theorem foldl_reStone_any (c : Int) (stones : List (Nat × Interval)) (h : Db) (j : Nat) :
    (stones.foldl (reStone c) h).series.any (·.idx = j) = h.series.any (·.idx = j) := by
  induction stones generalizing h with
  | nil => rfl
  | cons p ps ih => rw [List.foldl_cons, ih, reStone_any]

theorem foldl_reStone_getSeries (c : Int) (stones : List (Nat × Interval))
    (hk : stones.Pairwise (fun p q => p.1 ≠ q.1)) (h : Db) (j : Nat) :
    (stones.foldl (reStone c) h).getSeries j =
      match stones.find? (fun p => p.1 = j) with
      | some p => if c ≤ p.2.maxt ∧ h.series.any (·.idx = j) = true then
                    { h.getSeries j with tombs := addTomb (h.getSeries j).tombs p.2 }
                  else h.getSeries j
      | none => h.getSeries j := by
  induction stones generalizing h with
  | nil => rfl
  | cons q qs ih =>
    rw [List.pairwise_cons] at hk
    rw [List.foldl_cons, ih hk.2]
    by_cases hq : q.1 = j
    · have hnone : qs.find? (fun p => decide (p.1 = j)) = none := by
        rw [List.find?_eq_none]
        intro p hp
        have := hk.1 p hp
        simp only [decide_eq_true_eq]
        intro e; exact this (hq.trans e.symm)
      have hsome : (q :: qs).find? (fun p => decide (p.1 = j)) = some q := by
        simp [hq]
      rw [hnone, hsome]
      show (reStone c h q).getSeries j = _
      rw [reStone_getSeries]
      dsimp only
      by_cases hc : c ≤ q.2.maxt ∧ h.series.any (·.idx = j) = true
      · rw [if_pos hc, if_pos ⟨hc.1, hq.symm, hc.2⟩]
      · rw [if_neg hc, if_neg (fun hh => hc ⟨hh.1, hh.2.2⟩)]
    · have hcons : (q :: qs).find? (fun p => decide (p.1 = j)) =
          qs.find? (fun p => decide (p.1 = j)) := by
        simp [hq]
      have hget : (reStone c h q).getSeries j = h.getSeries j := by
        rw [reStone_getSeries]
        exact if_neg (fun hh => hq hh.2.1.symm)
      rw [hcons, hget, reStone_any]

/-! ### 4. `Db.delete` in function view -/

/-- The per-series stone of `Db.delete` (`stoneOf` of DbDelete.lean). -/
abbrev delG (d : Db) (a b : Int) (sel : Option Nat) (s : HSeries) : Option (Nat × Interval) :=
  stoneOf d a b sel s

theorem delG_some {d : Db} {a b : Int} {sel : Option Nat} {s : HSeries} {p : Nat × Interval}
    (h : delG d a b sel s = some p) :
    hitSel sel s.idx = true ∧ ∃ f l, s.phys.head? = some f ∧ s.phys.getLast? = some l ∧
      p = (s.idx, ⟨(clampInterval (clampInterval a b d.minT d.maxT).1 (clampInterval a b d.minT d.maxT).2 f.t l.t).1,
                   (clampInterval (clampInterval a b d.minT d.maxT).1 (clampInterval a b d.minT d.maxT).2 f.t l.t).2⟩) := by
  unfold delG stoneOf at h
  split at h
  · rename_i hh
    split at h
    · rename_i f l hf hl
      split at h
      · simp at h
      · simp only [Option.some.injEq] at h
        exact ⟨hh, f, l, hf, hl, h.symm⟩
    · simp at h
  · simp at h

theorem delG_key {d : Db} {a b : Int} {sel : Option Nat} (s : HSeries) (p : Nat × Interval)
    (h : delG d a b sel s = some p) : p.1 = s.idx := by
  obtain ⟨_, f, l, _, _, e⟩ := delG_some h
  rw [e]

theorem delStones_keys {d : Db} (hn : d.series.Pairwise (fun s s' => s.idx ≠ s'.idx)) (a b : Int)
    (sel : Option Nat) : (delStones d a b sel).Pairwise (fun p q => p.1 ≠ q.1) := by
  rw [delStones_eq, List.pairwise_filterMap]
  apply hn.imp
  intro u v huv p hp q hq
  rw [delG_key u p hp, delG_key v q hq]
  exact huv

theorem delStones_find_mem {d : Db} (hn : d.series.Pairwise (fun s s' => s.idx ≠ s'.idx))
    (a b : Int) (sel : Option Nat) {s : HSeries} (hs : s ∈ d.series) :
    (delStones d a b sel).find? (fun p => p.1 = s.idx) = delG d a b sel s := by
  rw [delStones_eq]
  exact find_filterMap_key hn _ (fun u p hp => delG_key u p hp) hs

theorem delStones_find_absent {d : Db} (a b : Int) (sel : Option Nat) {j : Nat}
    (hj : ∀ s ∈ d.series, s.idx ≠ j) :
    (delStones d a b sel).find? (fun p => p.1 = j) = none := by
  rw [List.find?_eq_none]
  intro p hp
  rw [delStones_eq, List.mem_filterMap] at hp
  obtain ⟨u, hu, hg⟩ := hp
  simp only [decide_eq_true_eq]
  rw [delG_key u p hg]
  exact hj u hu

theorem delStones_find {d : Db} (hn : d.series.Pairwise (fun s s' => s.idx ≠ s'.idx))
    {a b : Int} {sel : Option Nat} {j : Nat} {p : Nat × Interval}
    (h : (delStones d a b sel).find? (fun p => p.1 = j) = some p) :
    p.1 = j ∧ hitSel sel j = true ∧ d.getSeries j ∈ d.series ∧
      ∃ f l, (d.getSeries j).phys.head? = some f ∧ (d.getSeries j).phys.getLast? = some l ∧
        p.2 = ⟨(clampInterval (clampInterval a b d.minT d.maxT).1 (clampInterval a b d.minT d.maxT).2 f.t l.t).1,
               (clampInterval (clampInterval a b d.minT d.maxT).1 (clampInterval a b d.minT d.maxT).2 f.t l.t).2⟩ := by
  have h1 := List.mem_of_find?_eq_some h
  have h2 := List.find?_some h
  simp only [decide_eq_true_eq] at h2
  rw [delStones_eq, List.mem_filterMap] at h1
  obtain ⟨u, hu, hg⟩ := h1
  have hk := delG_key u p hg
  have huj : u.idx = j := hk.symm.trans h2
  have hget : d.getSeries j = u := by rw [← huj]; exact getSeries_of_mem hn hu
  obtain ⟨hh, f, l, hf, hl, e⟩ := delG_some hg
  rw [hget]
  refine ⟨h2, by rw [← huj]; exact hh, hu, f, l, hf, hl, ?_⟩
  rw [e]

theorem delete_wal (d : Db) (a b : Int) (sel : Option Nat) :
    (d.delete a b sel).wal =
      if d.minT ≤ b ∧ a ≤ d.maxT then d.wal ++ [Rec.stones (delStones d a b sel)] else d.wal := by
  unfold Db.delete
  simp only
  split <;> rfl

theorem delete_nodup {d : Db} (hn : d.series.Pairwise (fun s s' => s.idx ≠ s'.idx)) (a b : Int)
    (sel : Option Nat) : (d.delete a b sel).series.Pairwise (fun s s' => s.idx ≠ s'.idx) := by
  rw [delete_series, List.pairwise_map]
  exact hn

theorem delete_getSeries {d : Db} (hn : d.series.Pairwise (fun s s' => s.idx ≠ s'.idx)) (a b : Int)
    (sel : Option Nat) (j : Nat) :
    (d.delete a b sel).getSeries j = { d.getSeries j with tombs :=
        if d.minT ≤ b ∧ a ≤ d.maxT then
          (match (delStones d a b sel).find? (fun p => p.1 = j) with
           | some p => addTomb (d.getSeries j).tombs p.2
           | none => (d.getSeries j).tombs)
        else (d.getSeries j).tombs } := by
  rcases getSeries_cases d j with hc | hc
  · have hm : ({ d.getSeries j with tombs := delHT d a b sel (d.getSeries j) } : HSeries) ∈
        (d.delete a b sel).series := by
      rw [delete_series, List.mem_map]
      exact ⟨_, hc.1, rfl⟩
    have e : (d.delete a b sel).getSeries (d.getSeries j).idx =
        { d.getSeries j with tombs := delHT d a b sel (d.getSeries j) } :=
      getSeries_of_mem (delete_nodup hn a b sel) hm
    have e' : (d.delete a b sel).getSeries j =
        { d.getSeries j with tombs := delHT d a b sel (d.getSeries j) } := by
      rw [← e, hc.2]
    rw [e']
    congr 1
    unfold delHT
    rw [hc.2]
    by_cases hov : d.minT ≤ b ∧ a ≤ d.maxT
    · rw [if_pos hov, if_pos hov]
      cases (delStones d a b sel).find? (fun p => decide (p.1 = j)) with
      | none => rfl
      | some p => rfl
    · rw [if_neg hov, if_neg hov]
  · have habs : ∀ s ∈ (d.delete a b sel).series, s.idx ≠ j := by
      intro s hs
      rw [delete_series, List.mem_map] at hs
      obtain ⟨u, hu, rfl⟩ := hs
      exact hc.1 u hu
    rw [getSeries_absent habs, delStones_find_absent a b sel hc.1, hc.2]
    by_cases hov : d.minT ≤ b ∧ a ≤ d.maxT
    · simp only [if_pos hov]
    · simp only [if_neg hov]

/-! ### 5. One head compaction in function view -/

theorem cSeries_nodup {d : Db} (hn : d.series.Pairwise (fun s s' => s.idx ≠ s'.idx)) :
    (cSeries d).Pairwise (fun s s' => s.idx ≠ s'.idx) := by
  unfold cSeries
  rw [List.pairwise_filterMap]
  apply hn.imp
  intro a b hab a' ha' b' hb'
  simp only at ha' hb'
  split at ha' <;> split at hb' <;> simp only [Option.some.injEq, reduceCtorEq] at ha' hb'
  subst ha' hb'; exact hab

theorem cSeries_getSeries {d : Db} (hn : d.series.Pairwise (fun s s' => s.idx ≠ s'.idx)) (j : Nat) :
    ((cSeries d).find? (·.idx = j)).getD ⟨j, [], []⟩ =
      if ((d.getSeries j).phys.filter fun x => x.t ≥ cMaxt d) = [] then ⟨j, [], []⟩
      else { d.getSeries j with phys := (d.getSeries j).phys.filter fun x => x.t ≥ cMaxt d,
                                tombs := (d.getSeries j).tombs.filter fun iv => iv.maxt ≥ cMaxt d } := by
  show ({ d with series := cSeries d } : Db).getSeries j = _
  have hn' : ({ d with series := cSeries d } : Db).series.Pairwise (fun s s' => s.idx ≠ s'.idx) :=
    cSeries_nodup hn
  rcases getSeries_cases d j with hc | hc
  · by_cases hf : ((d.getSeries j).phys.filter fun x => x.t ≥ cMaxt d) = []
    · rw [if_pos hf]
      apply getSeries_absent
      intro s' hs' e
      obtain ⟨u, hu, hne, rfl⟩ := mem_cSeries.1 hs'
      have hu' : u = d.getSeries j := eq_of_idx_eq hn hu hc.1 (e.trans hc.2.symm)
      rw [hu'] at hne
      exact hne hf
    · rw [if_neg hf]
      have hm : ({ d.getSeries j with
                    phys := (d.getSeries j).phys.filter (fun x => x.t ≥ cMaxt d),
                    tombs := (d.getSeries j).tombs.filter (fun iv => iv.maxt ≥ cMaxt d) } : HSeries) ∈
          ({ d with series := cSeries d } : Db).series :=
        mem_cSeries.2 ⟨_, hc.1, hf, rfl⟩
      have e : ({ d with series := cSeries d } : Db).getSeries (d.getSeries j).idx =
          { d.getSeries j with
              phys := (d.getSeries j).phys.filter (fun x => x.t ≥ cMaxt d),
              tombs := (d.getSeries j).tombs.filter (fun iv => iv.maxt ≥ cMaxt d) } :=
        getSeries_of_mem hn' hm
      rw [← e, hc.2]
  · have habs : ∀ s ∈ ({ d with series := cSeries d } : Db).series, s.idx ≠ j := by
      intro s' hs'
      obtain ⟨u, hu, _, rfl⟩ := mem_cSeries.1 hs'
      exact hc.1 u hu
    rw [getSeries_absent habs, hc.2]
    rfl

theorem compactHeadOnce_getSeries {d : Db} (hn : d.series.Pairwise (fun s s' => s.idx ≠ s'.idx))
    (hlt : d.minT < cMaxt d) (j : Nat) :
    d.compactHeadOnce.getSeries j =
      if ((d.getSeries j).phys.filter fun x => x.t ≥ cMaxt d) = [] then ⟨j, [], []⟩
      else { d.getSeries j with phys := (d.getSeries j).phys.filter fun x => x.t ≥ cMaxt d,
                                tombs := (d.getSeries j).tombs.filter fun iv => iv.maxt ≥ cMaxt d } := by
  rw [compactHeadOnce_eq d hlt, getSeries_congr (adjust_series _) j]
  exact cSeries_getSeries hn j

theorem compactHeadOnce_blocks {d : Db} (hlt : d.minT < cMaxt d) :
    d.compactHeadOnce.blocks = cBlocks d := by
  rw [compactHeadOnce_eq d hlt, adjust_blocks]

theorem compactHeadOnce_nodup {d : Db} (hn : d.series.Pairwise (fun s s' => s.idx ≠ s'.idx))
    (hlt : d.minT < cMaxt d) :
    d.compactHeadOnce.series.Pairwise (fun s s' => s.idx ≠ s'.idx) := by
  rw [compactHeadOnce_eq d hlt, adjust_series]
  exact cSeries_nodup hn

end Prom.Db
