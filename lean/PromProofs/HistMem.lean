import PromModel.Tsdb.HistMem
import PromProofs.HistAppend
/-
  Frame lemmas for the caller-side memory model of the histogram appenders (C11 caller_memory_frame).
-/
namespace Prom.Hist

/-! ## slices over a growing array -/

theorem Slice.read_append {α : Type} (s : Slice) (l x : List α) (h : s.inB l.length = true) :
    s.read (l ++ x) = s.read l := by
  simp only [Slice.inB, Bool.and_eq_true, decide_eq_true_eq] at h
  unfold Slice.read
  rw [List.drop_append_of_le_length (by omega), List.take_append_of_le_length (by simp; omega)]

theorem readO_append {α : Type} (s : Option Slice) (l x : List α) (h : inBO s l.length = true) :
    readO s (l ++ x) = readO s l := by
  cases s with
  | none => rfl
  | some s => exact Slice.read_append s l x h

theorem inBO_mono (s : Option Slice) (n m : Nat) (hnm : n ≤ m) (h : inBO s n = true) : inBO s m = true := by
  cases s with
  | none => rfl
  | some s =>
    simp only [inBO, Slice.inB, Bool.and_eq_true, decide_eq_true_eq] at h ⊢
    omega

/-- `place` only appends cells … -/
theorem place_prefix {α : Type} [DecidableEq α] (arena : List α) (old : Option Slice) (new : List α) :
    ∃ x, (place arena old new).1 = arena ++ x := by
  unfold place
  split
  · exact ⟨[], by simp⟩
  · exact ⟨new, rfl⟩

/-- … the header it returns denotes the new content … -/
theorem place_read {α : Type} [DecidableEq α] (arena : List α) (old : Option Slice) (new : List α) :
    readO (place arena old new).2 (place arena old new).1 = new := by
  unfold place
  split
  · rename_i h; exact h.symm
  · simp [readO, Slice.read]

/-- … and is a legal slice of the grown array. -/
theorem place_inB {α : Type} [DecidableEq α] (arena : List α) (old : Option Slice) (new : List α)
    (h : inBO old arena.length = true) : inBO (place arena old new).2 (place arena old new).1.length = true := by
  unfold place
  split
  · exact h
  · simp [inBO, Slice.inB]

theorem cellDiff_append {α : Type} [DecidableEq α] (l x : List α) (k : Nat) : cellDiff k l (l ++ x) = [] := by
  induction l generalizing k with
  | nil => cases x <;> rfl
  | cons a l ih => simp [cellDiff, ih]

/-! ## `appendHist` changes nothing but the four slices -/

def Hist.sameScalars (a b : Hist) : Prop :=
  a.float = b.float ∧ a.hint = b.hint ∧ a.schema = b.schema ∧ a.zt = b.zt ∧ a.count = b.count ∧
  a.zcount = b.zcount ∧ a.sum = b.sum ∧ a.custom = b.custom

theorem Hist.sameScalars_refl (h : Hist) : h.sameScalars h := ⟨rfl, rfl, rfl, rfl, rfl, rfl, rfl, rfl⟩

theorem recodeHistogram_scalars (h' : Hist) (pb nb : List Insert) (h1 : Hist)
    (hr : recodeHistogram h' pb nb = .ok h1) : h1.sameScalars h' := by
  obtain ⟨p, n, _, _, rfl⟩ := recodeHistogram_ok h' pb nb h1 hr
  exact ⟨rfl, rfl, rfl, rfl, rfl, rfl, rfl, rfl⟩

theorem appendHist_scalars (prev : Option Chunk) (c : Chunk) (t : Int) (h : Hist) (r : AppRes)
    (hr : appendHist prev c t h = .ok r) : r.h.sameScalars h := by
  unfold appendHist at hr
  split at hr; · simp at hr
  split at hr
  · -- first sample of a chunk: the histogram is handed back as it came
    have : r.h = h := by
      repeat' split at hr
      all_goals first
        | (cases hr; rfl)
        | (simp at hr)
    rw [this]; exact h.sameScalars_refl
  · split at hr
    · -- counter path
      split at hr
      · simp at hr
      · cases hr; exact h.sameScalars_refl
      · rename_i pf nf pb nb _
        have hr' : (if (!pb.isEmpty || !nb.isEmpty) = true then
            ((if (pf.isEmpty && nf.isEmpty) = true then
                recodeHistogram { h with pSpans := c.pSpans, nSpans := c.nSpans } pb nb
              else recodeHistogram { h with pSpans := adjustForInserts h.pSpans pb,
                                            nSpans := adjustForInserts h.nSpans nb } pb nb) >>= appendTail c t pf nf)
            else (pure h >>= appendTail c t pf nf)) = .ok r := hr
        split at hr'
        · obtain ⟨h1, hX, htail⟩ := bind_ok _ _ _ hr'
          obtain ⟨rh, _, _⟩ := appendTail_ok c t h1 pf nf r htail
          rw [rh]
          split at hX
          · have := recodeHistogram_scalars _ pb nb h1 hX; exact this
          · have := recodeHistogram_scalars _ pb nb h1 hX; exact this
        · obtain ⟨h1, hX, htail⟩ := bind_ok _ _ _ hr'
          obtain ⟨rh, _, _⟩ := appendTail_ok c t h1 pf nf r htail
          rw [rh]; cases hX; exact h.sameScalars_refl
    · -- gauge path
      split at hr
      · cases hr; exact h.sameScalars_refl
      · rename_i g _
        have hr' : (if g.pb.length + g.nb.length > 0 then
              (recodeHistogram { h with pSpans := g.pM, nSpans := g.nM } g.pb g.nb >>= appendTail c t g.pf g.nf)
            else (pure h >>= appendTail c t g.pf g.nf)) = .ok r := hr
        split at hr'
        · obtain ⟨h1, hX, htail⟩ := bind_ok _ _ _ hr'
          obtain ⟨rh, _, _⟩ := appendTail_ok c t h1 g.pf g.nf r htail
          rw [rh]
          have := recodeHistogram_scalars _ g.pb g.nb h1 hX; exact this
        · obtain ⟨h1, hX, htail⟩ := bind_ok _ _ _ hr'
          obtain ⟨rh, _, _⟩ := appendTail_ok c t h1 g.pf g.nf r htail
          rw [rh]; cases hX; exact h.sameScalars_refl

/-! ## the frame -/

/-- a histogram struct reads the same from a heap that only grew -/
theorem Mem.hist_grow (m m' : Mem) (w : HView) (hw : w.inB m = true)
    (hs : ∃ x, m'.spans = m.spans ++ x) (hi : ∃ x, m'.ints = m.ints ++ x) (hf : ∃ x, m'.floats = m.floats ++ x) :
    m'.hist w = m.hist w := by
  obtain ⟨xs, hs⟩ := hs
  obtain ⟨xi, hi⟩ := hi
  obtain ⟨xf, hf⟩ := hf
  simp only [HView.inB, Bool.and_eq_true] at hw
  obtain ⟨⟨⟨⟨h1, h2⟩, h3⟩, h4⟩, h5⟩ := hw
  have hv : ∃ x, m'.vals w.float = m.vals w.float ++ x := by
    unfold Mem.vals; cases w.float
    · exact ⟨xi, by simpa using hi⟩
    · exact ⟨xf, by simpa using hf⟩
  obtain ⟨xv, hv⟩ := hv
  simp only [Mem.hist, hs, hf, hv]
  rw [readO_append _ _ _ h1, readO_append _ _ _ h2, readO_append _ _ _ h3, readO_append _ _ _ h4,
    readO_append _ _ _ h5]

/-- **Frame of `AppendHistogram` on the caller's heap.**  Whatever the outcome, the heap only grows (no cell that
    existed is written, inside or beyond any slice's length), hence every histogram struct over the old heap —
    sharing memory with the appended one or not — denotes exactly what it did; the appended struct denotes the
    histogram `appendHist` hands back, through legal slices of the grown heap. -/
theorem appendMem_frame (m : Mem) (prev : Option Chunk) (c : Chunk) (t : Int) (v : HView) (m' : Mem) (v' : HView)
    (r : AppRes) (hv : v.inB m = true) (h : appendMem m prev c t v = .ok (m', v', r)) :
    appendHist prev c t (m.hist v) = .ok r ∧
    (∃ x, m'.spans = m.spans ++ x) ∧ (∃ x, m'.ints = m.ints ++ x) ∧ (∃ x, m'.floats = m.floats ++ x) ∧
    (∀ w : HView, w.inB m = true → m'.hist w = m.hist w) ∧ m'.hist v' = r.h ∧ v'.inB m' = true := by
  unfold appendMem at h
  split at h; · simp at h
  rename_i r0 hr0
  simp only [Except.ok.injEq, Prod.mk.injEq] at h
  obtain ⟨hm, hv', rfl⟩ := h
  obtain ⟨hfl, hhint, hsch, hzt, hcnt, hzc, hsum, hcu⟩ := appendHist_scalars prev c t _ r0 hr0
  simp only [HView.inB, Bool.and_eq_true] at hv
  obtain ⟨⟨⟨⟨i1, i2⟩, i3⟩, i4⟩, i5⟩ := hv
  -- the two span placements
  obtain ⟨x1, e1⟩ := place_prefix m.spans v.pS r0.h.pSpans
  obtain ⟨x2, e2⟩ := place_prefix (place m.spans v.pS r0.h.pSpans).1 v.nS r0.h.nSpans
  obtain ⟨y1, f1⟩ := place_prefix (m.vals v.float) v.pB r0.h.pB
  obtain ⟨y2, f2⟩ := place_prefix (place (m.vals v.float) v.pB r0.h.pB).1 v.nB r0.h.nB
  have hsp : m'.spans = m.spans ++ (x1 ++ x2) := by
    have : m'.spans = (place (place m.spans v.pS r0.h.pSpans).1 v.nS r0.h.nSpans).1 := by
      rw [← hm]; cases v.float <;> rfl
    rw [this, e2, e1, List.append_assoc]
  have hvl : m'.vals v.float = m.vals v.float ++ (y1 ++ y2) := by
    have : m'.vals v.float = (place (place (m.vals v.float) v.pB r0.h.pB).1 v.nB r0.h.nB).1 := by
      rw [← hm]; cases hf : v.float <;> simp [Mem.vals]
    rw [this, f2, f1, List.append_assoc]
  have hin : ∃ x, m'.ints = m.ints ++ x := by
    cases hf : v.float
    · refine ⟨y1 ++ y2, ?_⟩; simpa [Mem.vals, hf] using hvl
    · exact ⟨[], by rw [← hm]; simp [hf]⟩
  have hflo : ∃ x, m'.floats = m.floats ++ x := by
    cases hf : v.float
    · exact ⟨[], by rw [← hm]; simp [hf]⟩
    · refine ⟨y1 ++ y2, ?_⟩; simpa [Mem.vals, hf] using hvl
  have grow := fun w hw => Mem.hist_grow m m' w hw ⟨_, hsp⟩ hin hflo
  refine ⟨hr0, ⟨_, hsp⟩, hin, hflo, grow, ?_, ?_⟩
  · -- the appended struct
    have a1 : readO (place m.spans v.pS r0.h.pSpans).2 m'.spans = r0.h.pSpans := by
      have := place_read m.spans v.pS r0.h.pSpans
      have hb := place_inB m.spans v.pS r0.h.pSpans i1
      rw [hsp, ← List.append_assoc, ← e1, readO_append _ _ _ hb]; exact this
    have a2 : readO (place (place m.spans v.pS r0.h.pSpans).1 v.nS r0.h.nSpans).2 m'.spans = r0.h.nSpans := by
      have := place_read (place m.spans v.pS r0.h.pSpans).1 v.nS r0.h.nSpans
      rw [hsp, ← List.append_assoc, ← e1, ← e2]; exact this
    have a3 : readO (place (m.vals v.float) v.pB r0.h.pB).2 (m'.vals v.float) = r0.h.pB := by
      have := place_read (m.vals v.float) v.pB r0.h.pB
      have hb := place_inB (m.vals v.float) v.pB r0.h.pB i3
      rw [hvl, ← List.append_assoc, ← f1, readO_append _ _ _ hb]; exact this
    have a4 : readO (place (place (m.vals v.float) v.pB r0.h.pB).1 v.nB r0.h.nB).2 (m'.vals v.float) = r0.h.nB := by
      have := place_read (place (m.vals v.float) v.pB r0.h.pB).1 v.nB r0.h.nB
      rw [hvl, ← List.append_assoc, ← f1, ← f2]; exact this
    have a5 : (readO v.cv m'.floats).map Int.toNat = r0.h.custom := by
      obtain ⟨xf, hxf⟩ := hflo
      rw [hxf, readO_append _ _ _ i5, hcu]; rfl
    rw [← hv']
    simp only [Mem.hist, a1, a2, a3, a4, a5]
    simp only [Mem.hist] at hfl hhint hsch hzt hcnt hzc hsum
    cases hh : r0.h
    simp only [hh] at hfl hhint hsch hzt hcnt hzc hsum
    simp [hfl, hhint, hsch, hzt, hcnt, hzc, hsum]
  · -- legal slices of the grown heap
    rw [← hv']
    simp only [HView.inB, Bool.and_eq_true]
    have l1 : (place m.spans v.pS r0.h.pSpans).1.length ≤ m'.spans.length := by
      rw [hsp, ← List.append_assoc, ← e1]; simp
    have l3 : (place (m.vals v.float) v.pB r0.h.pB).1.length ≤ (m'.vals v.float).length := by
      rw [hvl, ← List.append_assoc, ← f1]; simp
    have k2 : m'.spans = (place (place m.spans v.pS r0.h.pSpans).1 v.nS r0.h.nSpans).1 := by
      rw [hsp, ← List.append_assoc, ← e1, ← e2]
    have k4 : m'.vals v.float = (place (place (m.vals v.float) v.pB r0.h.pB).1 v.nB r0.h.nB).1 := by
      rw [hvl, ← List.append_assoc, ← f1, ← f2]
    refine ⟨⟨⟨⟨?_, ?_⟩, ?_⟩, ?_⟩, ?_⟩
    · exact inBO_mono _ _ _ l1 (place_inB m.spans v.pS r0.h.pSpans i1)
    · rw [k2]; exact place_inB _ _ _ (inBO_mono _ _ _ (by rw [e1]; simp) i2)
    · exact inBO_mono _ _ _ l3 (place_inB (m.vals v.float) v.pB r0.h.pB i3)
    · rw [k4]; exact place_inB _ _ _ (inBO_mono _ _ _ (by rw [f1]; simp) i4)
    · obtain ⟨xf, hxf⟩ := hflo
      exact inBO_mono _ _ _ (by rw [hxf]; simp) i5

end Prom.Hist
