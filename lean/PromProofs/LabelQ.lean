import PromProofs.Pfm
/-
  Helper lemmas for C16: string sorting, label names / values, select.
-/
set_option linter.unusedSimpArgs false
set_option linter.unusedVariables false
set_option linter.unusedSectionVars false
namespace Prom.Postings

/-! ### sorting strings -/

theorem mem_insertS {v x : String} : ∀ {l : List String}, v ∈ insertS x l ↔ v = x ∨ v ∈ l
  | [] => by simp [insertS]
  | y :: ys => by
    simp only [insertS]
    split
    · simp
    · simp only [List.mem_cons, mem_insertS (l := ys)]
      constructor
      · rintro (h | h | h) <;> simp [h]
      · rintro (h | h | h) <;> simp [h]

theorem mem_sortS {v : String} : ∀ {l : List String}, v ∈ sortS l ↔ v ∈ l
  | [] => by simp [sortS]
  | x :: t => by
    have ih := mem_sortS (v := v) (l := t)
    simp only [sortS, List.foldr_cons] at *
    rw [mem_insertS, ih]; simp

theorem length_insertS (x : String) : ∀ (l : List String), (insertS x l).length = l.length + 1
  | [] => rfl
  | y :: ys => by
    simp only [insertS]
    split
    · simp
    · simp [length_insertS x ys]

theorem length_sortS : ∀ (l : List String), (sortS l).length = l.length
  | [] => rfl
  | x :: t => by
    have ih := length_sortS t
    simp only [sortS, List.foldr_cons] at *
    rw [length_insertS, ih]; simp

theorem strict_insertS {x : String} : ∀ {l : List String}, l.Pairwise (· < ·) → x ∉ l →
    (insertS x l).Pairwise (· < ·)
  | [], _, _ => by simp [insertS]
  | y :: ys, hp, hx => by
    have hxy : x ≠ y := fun e => hx (by simp [e])
    have hxys : x ∉ ys := fun h => hx (List.mem_cons_of_mem _ h)
    have hlt := (List.pairwise_cons.mp hp).1
    simp only [insertS]
    split
    · rename_i hle
      have hxy' : x < y := Std.lt_of_le_of_ne hle hxy
      rw [List.pairwise_cons]
      refine ⟨?_, hp⟩
      intro z hz
      rcases List.mem_cons.mp hz with rfl | hz
      · exact hxy'
      · exact String.lt_trans hxy' (hlt z hz)
    · rename_i hle
      have hyx : y < x := String.not_le.mp hle
      rw [List.pairwise_cons]
      refine ⟨?_, strict_insertS (List.pairwise_cons.mp hp).2 hxys⟩
      intro z hz
      rcases mem_insertS.mp hz with rfl | hz
      · exact hyx
      · exact hlt z hz

theorem sortS_strict : ∀ {l : List String}, l.Nodup → (sortS l).Pairwise (· < ·)
  | [], _ => by simp [sortS]
  | x :: t, hn => by
    have hn' := List.nodup_cons.mp hn
    have ih := sortS_strict hn'.2
    simp only [sortS, List.foldr_cons] at *
    exact strict_insertS ih (fun h => hn'.1 (mem_sortS.mp h))

theorem le_insertS {x : String} : ∀ {l : List String}, l.Pairwise (· ≤ ·) → (insertS x l).Pairwise (· ≤ ·)
  | [], _ => by simp [insertS]
  | y :: ys, hp => by
    have hle := (List.pairwise_cons.mp hp).1
    simp only [insertS]
    split
    · rename_i h
      rw [List.pairwise_cons]
      refine ⟨?_, hp⟩
      intro z hz
      rcases List.mem_cons.mp hz with rfl | hz
      · exact h
      · exact String.le_trans h (hle z hz)
    · rename_i h
      have hyx : y ≤ x := Std.le_of_not_ge h
      rw [List.pairwise_cons]
      refine ⟨?_, le_insertS (List.pairwise_cons.mp hp).2⟩
      intro z hz
      rcases mem_insertS.mp hz with rfl | hz
      · exact hyx
      · exact hle z hz

theorem sortS_le : ∀ (l : List String), (sortS l).Pairwise (· ≤ ·)
  | [] => by simp [sortS]
  | x :: t => by
    have ih := sortS_le t
    simp only [sortS, List.foldr_cons] at *
    exact le_insertS ih

theorem mem_insertU {v x : String} : ∀ {l : List String}, v ∈ insertU x l ↔ v = x ∨ v ∈ l
  | [] => by simp [insertU]
  | y :: ys => by
    simp only [insertU]
    split
    · simp
    · split
      · rename_i h; subst h; simp
      · simp only [List.mem_cons, mem_insertU (l := ys)]
        constructor
        · rintro (h | h | h) <;> simp [h]
        · rintro (h | h | h) <;> simp [h]

theorem strict_insertU {x : String} : ∀ {l : List String}, l.Pairwise (· < ·) → (insertU x l).Pairwise (· < ·)
  | [], _ => by simp [insertU]
  | y :: ys, hp => by
    have hlt := (List.pairwise_cons.mp hp).1
    simp only [insertU]
    split
    · rename_i hxy
      rw [List.pairwise_cons]
      refine ⟨?_, hp⟩
      intro z hz
      rcases List.mem_cons.mp hz with rfl | hz
      · exact hxy
      · exact String.lt_trans hxy (hlt z hz)
    · split
      · exact hp
      · rename_i h1 h2
        have hyx : y < x := Std.lt_of_le_of_ne (String.not_lt.mp h1) (fun e => h2 e.symm)
        rw [List.pairwise_cons]
        refine ⟨?_, strict_insertU (List.pairwise_cons.mp hp).2⟩
        intro z hz
        rcases mem_insertU.mp hz with rfl | hz
        · exact hyx
        · exact hlt z hz

theorem mem_sortU {v : String} : ∀ {l : List String}, v ∈ sortU l ↔ v ∈ l
  | [] => by simp [sortU]
  | x :: t => by
    have ih := mem_sortU (v := v) (l := t)
    simp only [sortU, List.foldr_cons] at *
    rw [mem_insertU, ih]; simp

theorem sortU_strict : ∀ (l : List String), (sortU l).Pairwise (· < ·)
  | [] => by simp [sortU]
  | x :: t => by
    have ih := sortU_strict t
    simp only [sortU, List.foldr_cons] at *
    exact strict_insertU ih

/-! ### building indexes -/

theorem mem_dedup {v : String} : ∀ {l : List String}, v ∈ dedup l ↔ v ∈ l
  | [] => by simp [dedup]
  | x :: xs => by
    simp only [dedup, List.mem_cons, List.mem_filter, mem_dedup (l := xs)]
    by_cases h : v = x <;> simp [h]

theorem nodup_dedup : ∀ (l : List String), (dedup l).Nodup
  | [] => by simp [dedup]
  | x :: xs => by
    simp only [dedup, List.nodup_cons, List.mem_filter]
    refine ⟨by simp, (List.filter_sublist).nodup (nodup_dedup xs)⟩

theorem map_succ_range' : ∀ (s n : Nat), List.map (fun i => i + 1) (List.range' s n) = List.range' (s + 1) n
  | _, 0 => rfl
  | s, n + 1 => by simp [List.range'_succ, map_succ_range' (s + 1) n]

theorem renumber_refs (L : List (List (String × String))) :
    (renumber L).map (·.ref) = List.range' 1 L.length := by
  unfold renumber
  rw [List.map_map]
  have : ((fun s : Series => s.ref) ∘ fun x : List (String × String) × Nat => ({ ref := x.2 + 1, labels := x.1 } : Series))
      = (fun i => i + 1) ∘ Prod.snd := by funext x; rfl
  rw [this, ← List.map_map, List.zipIdx_map_snd]
  exact map_succ_range' 0 L.length

theorem mem_renumber {L : List (List (String × String))} {s : Series} (h : s ∈ renumber L) :
    0 < s.ref ∧ s.labels ∈ L := by
  unfold renumber at h
  obtain ⟨⟨ls, i⟩, hm, rfl⟩ := List.mem_map.mp h
  exact ⟨by simp, (List.mem_zipIdx hm).2.2 ▸ List.getElem_mem _⟩


theorem wfix_of_renumber (L : List (List (String × String)))
    (h : ∀ ls ∈ L, ∀ kv ∈ ls, kv.1 ≠ "" ∧ kv.2 ≠ "") (lvs : String → List String)
    (hl : ∀ n v, v ∈ lvs n ↔ v ∈ (renumber L).filterMap (fun s => s.labels.lookup n)) :
    WFix { series := renumber L, lvs := lvs } := by
  refine ⟨?_, fun s hs => (mem_renumber hs).1, fun s hs => h _ (mem_renumber hs).2, fun n v => ?_⟩
  · show Sorted ((renumber L).map (·.ref))
    rw [renumber_refs]
    exact List.pairwise_lt_range'
  · rw [hl, List.mem_filterMap]

/-! ### truncation -/

theorem truncate_spec {α : Type} (n : Nat) (xs : List α) :
    (truncate n xs).length = (if n = 0 then xs.length else min n xs.length) ∧
    (truncate n xs) <+: xs := by
  unfold truncate
  split
  · rename_i h
    have : n ≠ 0 := by omega
    simp [this, List.take_prefix]
  · rename_i h
    have : n = 0 := by omega
    simp [this]

theorem truncate_zero {α : Type} (xs : List α) : truncate 0 xs = xs := by simp [truncate]

/-! ### label names -/

section
variable {ix : Index} (wf : WFix ix)
include wf

theorem labelNames_spec {ms : List Matcher} (hms : ∀ m ∈ ms, WFm m) :
    ∃ ns, labelNames ix 0 ms = .ok ns ∧ ns.Pairwise (· < ·) ∧
      ∀ n, n ∈ ns ↔ ∃ s ∈ ix.series, sat ms s = true ∧ n ∈ s.labels.map (·.1) := by
  unfold labelNames
  split
  · rename_i he
    have : ms = [] := List.isEmpty_iff.mp he
    subst this
    refine ⟨_, rfl, by rw [truncate_zero]; exact sortU_strict _, fun n => ?_⟩
    rw [truncate_zero, mem_sortU]
    simp [sat]
  · rename_i he
    have hne : ms ≠ [] := fun e => he (by simp [e])
    obtain ⟨p, hp, hsorted, hmem⟩ := pfm_mem wf hne hms
    rw [hp]
    refine ⟨truncate 0 (labelNamesFor ix p), rfl, by rw [truncate_zero]; exact sortU_strict _, fun n => ?_⟩
    rw [truncate_zero]
    unfold labelNamesFor
    rw [mem_sortU]
    simp only [List.mem_flatMap, List.mem_filter, List.contains_iff_mem]
    constructor
    · rintro ⟨s, ⟨hs, hin⟩, hn⟩
      obtain ⟨s', hs', hr, hsat⟩ := (hmem _).mp hin
      rw [ref_inj wf hs' hs hr] at hsat
      exact ⟨s, hs, hsat, hn⟩
    · rintro ⟨s, hs, hsat, hn⟩
      exact ⟨s, ⟨hs, (hmem _).mpr ⟨s, hs, rfl, hsat⟩⟩, hn⟩

/-- with a limit the result is the prefix of the unlimited one -/
theorem labelNames_limit {ms : List Matcher} (hms : ∀ m ∈ ms, WFm m) (n : Nat) (hn : 0 < n) :
    ∃ lim unl, labelNames ix n ms = .ok lim ∧ labelNames ix 0 ms = .ok unl ∧
      lim = unl.take n := by
  unfold labelNames
  split
  · exact ⟨_, _, rfl, rfl, by simp [truncate, hn]⟩
  · rename_i he
    have hne : ms ≠ [] := fun e => he (by simp [e])
    obtain ⟨p, hp, _, _⟩ := pfm_mem wf hne hms
    rw [hp]
    exact ⟨truncate n (labelNamesFor ix p), truncate 0 (labelNamesFor ix p), rfl, rfl, by simp [truncate, hn]⟩


/-! ### label values -/

omit wf in
theorem filterOwn_spec (name : String) : ∀ (ms : List Matcher) (vs : List String) (v : String),
    v ∈ filterOwn name ms vs ↔ v ∈ vs ∧ ∀ m ∈ ms, m.name = name → m.matches v = true
  | [], vs, v => by simp [filterOwn]
  | m :: rest, vs, v => by
    simp only [filterOwn]
    split
    · rename_i h
      have hn : m.name = name := by simpa using h
      rw [filterOwn_spec name rest, List.mem_filter]
      simp only [List.mem_cons, forall_eq_or_imp]
      constructor
      · rintro ⟨⟨a, b⟩, c⟩; exact ⟨a, fun _ => b, c⟩
      · rintro ⟨a, b, c⟩; exact ⟨⟨a, b hn⟩, c⟩
    · rename_i h
      have hn : m.name ≠ name := by simpa using h
      rw [filterOwn_spec name rest]
      simp only [List.mem_cons, forall_eq_or_imp]
      constructor
      · rintro ⟨a, c⟩; exact ⟨a, fun e => absurd e hn, c⟩
      · rintro ⟨a, _, c⟩; exact ⟨a, c⟩

omit wf in
theorem filterOwn_sublist (name : String) : ∀ (ms : List Matcher) (vs : List String),
    (filterOwn name ms vs).Sublist vs
  | [], vs => List.Sublist.refl _
  | m :: rest, vs => by
    simp only [filterOwn]
    split
    · exact (filterOwn_sublist name rest _).trans List.filter_sublist
    · exact filterOwn_sublist name rest vs

omit wf in
theorem mem_insertHit {h x : Nat × Nat} : ∀ {l : List (Nat × Nat)}, h ∈ insertHit x l ↔ h = x ∨ h ∈ l
  | [] => by simp [insertHit]
  | y :: ys => by
    simp only [insertHit]
    split
    · simp
    · simp only [List.mem_cons, mem_insertHit (l := ys)]
      constructor
      · rintro (h | h | h) <;> simp [h]
      · rintro (h | h | h) <;> simp [h]

omit wf in
theorem mem_sortHits {h : Nat × Nat} : ∀ {l : List (Nat × Nat)}, h ∈ l.foldr insertHit [] ↔ h ∈ l
  | [] => by simp
  | x :: t => by
    simp only [List.foldr_cons]
    rw [mem_insertHit, mem_sortHits (l := t)]; simp

omit wf in
theorem firstCommon_spec {p c : Postings} (hp : Sorted p) (hc : Sorted c) :
    (∃ r, firstCommon p c = some r) ↔ ∃ r, r ∈ c ∧ r ∈ p := by
  have hm := fun y => mem_intersectGo (p := c) (others := [p]) hc (by simpa using hp) y
  unfold firstCommon
  constructor
  · rintro ⟨r, hr⟩
    have := (hm r).mp (List.mem_of_head? hr)
    exact ⟨r, this.1, this.2 p (by simp)⟩
  · rintro ⟨r, h1, h2⟩
    have hin : r ∈ intersectGo c [p] := (hm r).mpr ⟨h1, by simpa using h2⟩
    cases h : (intersectGo c [p]).head? with
    | some x => exact ⟨x, rfl⟩
    | none => rw [List.head?_eq_none_iff.mp h] at hin; cases hin

omit wf in
theorem findIntersecting_spec {p : Postings} {cands : List Postings} (hp : Sorted p)
    (hc : ∀ c ∈ cands, Sorted c) (i : Nat) :
    i ∈ findIntersecting p cands ↔ ∃ c, cands[i]? = some c ∧ ∃ r, r ∈ c ∧ r ∈ p := by
  unfold findIntersecting
  simp only [List.mem_map]
  constructor
  · rintro ⟨⟨r, j⟩, hh, rfl⟩
    rw [mem_sortHits, List.mem_filterMap] at hh
    obtain ⟨⟨c, k⟩, hck, hf⟩ := hh
    have hget : cands[k]? = some c := List.mem_zipIdx_iff_getElem?.mp hck
    simp only [Option.map_eq_some_iff] at hf
    obtain ⟨r', hr', he⟩ := hf
    have hk : k = j := by simpa using congrArg Prod.snd he
    subst hk
    exact ⟨c, hget, (firstCommon_spec hp (hc c (List.mem_of_getElem? hget))).mp ⟨r', hr'⟩⟩
  · rintro ⟨c, hget, hex⟩
    obtain ⟨r, hr⟩ := (firstCommon_spec hp (hc c (List.mem_of_getElem? hget))).mpr hex
    refine ⟨(r, i), ?_, rfl⟩
    rw [mem_sortHits, List.mem_filterMap]
    exact ⟨(c, i), List.mem_zipIdx_iff_getElem?.mpr hget, by simp [hr]⟩

theorem labelValues_spec {ms : List Matcher} (hms : ∀ m ∈ ms, WFm m) {name : String} (hn : name ≠ "") :
    ∃ vs, labelValues ix name 0 ms = .ok vs ∧ vs.Pairwise (· ≤ ·) ∧
      ∀ v, v ∈ vs ↔ ∃ s ∈ ix.series, sat ms s = true ∧ s.labels.lookup name = some v := by
  unfold labelValues
  split
  · rename_i he
    have : ms = [] := List.isEmpty_iff.mp he
    subst this
    refine ⟨_, rfl, sortS_le _, fun v => ?_⟩
    rw [mem_sortS, truncate_zero, wf.lvs_mem]
    simp [sat]
  · rename_i he
    have hne : ms ≠ [] := fun e => he (by simp [e])
    -- values of `name` carried by a satisfying series pass the own-name filter
    have hown : ∀ v, (∃ s ∈ ix.series, sat ms s = true ∧ s.labels.lookup name = some v) →
        v ∈ filterOwn name ms (ix.lvs name) := by
      rintro v ⟨s, hs, hsat, hl⟩
      rw [filterOwn_spec]
      refine ⟨(wf.lvs_mem name v).mpr ⟨s, hs, hl⟩, fun m hm hmn => ?_⟩
      have := sat_iff.mp hsat m hm
      rw [hmn, get_of_lookup hl] at this; exact this
    unfold labelValuesWithMatchers
    simp only
    split
    · rename_i hempty
      have hnil : filterOwn name ms (ix.lvs name) = [] := List.isEmpty_iff.mp hempty
      refine ⟨sortS [], rfl, by simp [sortS], fun v => ?_⟩
      constructor
      · intro h; simp [sortS] at h
      · intro h; have := hown v h; rw [hnil] at this; cases this
    · split
      · rename_i hno
        have hall : ∀ m ∈ ms, m.name = name := by
          intro m hm
          have := hno
          simp only [Bool.not_eq_true', List.any_eq_false] at this
          simpa using this m hm
        refine ⟨sortS (truncate 0 (filterOwn name ms (ix.lvs name))), rfl, sortS_le _, fun v => ?_⟩
        rw [mem_sortS, truncate_zero]
        constructor
        · intro hv
          obtain ⟨hlv, hmm⟩ := (filterOwn_spec name ms _ v).mp hv
          obtain ⟨s, hs, hl⟩ := (wf.lvs_mem name v).mp hlv
          refine ⟨s, hs, sat_iff.mpr fun m hm => ?_, hl⟩
          rw [hall m hm, get_of_lookup hl]; exact hmm m hm (hall m hm)
        · exact hown v
      · obtain ⟨p, hp, hsorted, hmem⟩ := pfm_mem wf hne hms
        rw [hp]
        simp only
        refine ⟨sortS (truncate 0 ((findIntersecting p ((filterOwn name ms (ix.lvs name)).map (ix.postings1 name))).filterMap
          fun i => (filterOwn name ms (ix.lvs name))[i]?)), rfl, sortS_le _, fun v => ?_⟩
        rw [mem_sortS, truncate_zero, List.mem_filterMap]
        have hcs : ∀ c ∈ (filterOwn name ms (ix.lvs name)).map (ix.postings1 name), Sorted c := by
          intro c hc; obtain ⟨w, _, rfl⟩ := List.mem_map.mp hc; exact sorted_postings1 wf name w
        constructor
        · rintro ⟨i, hi, hget⟩
          obtain ⟨c, hc, r, hrc, hrp⟩ := (findIntersecting_spec hsorted hcs i).mp hi
          rw [List.getElem?_map, hget] at hc
          have hc' : c = ix.postings1 name v := by simpa using hc.symm
          subst hc'
          obtain ⟨s, hs, hr, hl⟩ := (mem_postings1 wf hn v r).mp hrc
          obtain ⟨s', hs', hr', hsat⟩ := (hmem r).mp hrp
          rw [ref_inj wf hs' hs (hr'.trans hr.symm)] at hsat
          exact ⟨s, hs, hsat, hl⟩
        · rintro ⟨s, hs, hsat, hl⟩
          have hv := hown v ⟨s, hs, hsat, hl⟩
          obtain ⟨i, hi⟩ := List.mem_iff_getElem?.mp hv
          refine ⟨i, (findIntersecting_spec hsorted hcs i).mpr ⟨ix.postings1 name v, ?_, s.ref, ?_, ?_⟩, hi⟩
          · rw [List.getElem?_map, hi]; rfl
          · exact (mem_postings1 wf hn v _).mpr ⟨s, hs, rfl, hl⟩
          · exact (hmem _).mpr ⟨s, hs, rfl, hsat⟩



omit wf in
theorem pairwise_insertHit {R : Nat × Nat → Nat × Nat → Prop} (hsym : ∀ a b, R a b → R b a) {x : Nat × Nat} :
    ∀ {l : List (Nat × Nat)}, l.Pairwise R → (∀ y ∈ l, R x y) → (insertHit x l).Pairwise R
  | [], _, _ => by simp [insertHit]
  | y :: ys, hp, hx => by
    simp only [insertHit]
    split
    · exact List.pairwise_cons.mpr ⟨hx, hp⟩
    · rw [List.pairwise_cons]
      refine ⟨?_, pairwise_insertHit hsym (List.pairwise_cons.mp hp).2 (fun z hz => hx z (List.mem_cons_of_mem _ hz))⟩
      intro z hz
      rcases mem_insertHit.mp hz with rfl | hz
      · exact hsym _ _ (hx y (by simp))
      · exact (List.pairwise_cons.mp hp).1 z hz

omit wf in
theorem pairwise_sortHits {R : Nat × Nat → Nat × Nat → Prop} (hsym : ∀ a b, R a b → R b a) :
    ∀ {l : List (Nat × Nat)}, l.Pairwise R → (l.foldr insertHit []).Pairwise R
  | [], _ => by simp
  | x :: t, hp => by
    simp only [List.foldr_cons]
    apply pairwise_insertHit hsym (pairwise_sortHits hsym (List.pairwise_cons.mp hp).2)
    intro y hy
    exact (List.pairwise_cons.mp hp).1 y (mem_sortHits.mp hy)

omit wf in
theorem findIntersecting_nodup (p : Postings) (cands : List Postings) : (findIntersecting p cands).Nodup := by
  unfold findIntersecting
  simp only
  rw [List.nodup_iff_pairwise_ne, List.pairwise_map]
  apply pairwise_sortHits (fun a b h e => h e.symm)
  have hz : cands.zipIdx.Pairwise (fun a b => a.2 ≠ b.2) := by
    have : (cands.zipIdx.map Prod.snd).Nodup := by rw [List.zipIdx_map_snd]; exact List.nodup_range' 1
    rw [List.nodup_iff_pairwise_ne, List.pairwise_map] at this
    exact this
  refine List.Pairwise.filterMap _ ?_ hz
  rintro ⟨c, i⟩ ⟨c', i'⟩ hne b hb b' hb'
  simp only [Option.map_eq_some_iff] at hb hb'
  obtain ⟨r, _, rfl⟩ := hb
  obtain ⟨r', _, rfl⟩ := hb'
  exact hne

omit wf in
theorem nodup_filterMap_get {A : List String} (hA : A.Nodup) : ∀ {idxs : List Nat}, idxs.Nodup →
    (idxs.filterMap fun i => A[i]?).Nodup
  | [], _ => by simp
  | i :: t, hn => by
    have hn' := List.nodup_cons.mp hn
    have ih := nodup_filterMap_get hA hn'.2
    rw [List.filterMap_cons]
    cases hget : A[i]? with
    | none => exact ih
    | some v =>
      simp only
      rw [List.nodup_cons]
      refine ⟨?_, ih⟩
      intro hv
      obtain ⟨j, hj, hgj⟩ := List.mem_filterMap.mp hv
      have hi : i < A.length := by
        rcases Nat.lt_or_ge i A.length with h | h
        · exact h
        · rw [List.getElem?_eq_none_iff.mpr h] at hget; cases hget
      have : i = j := (List.getElem?_inj hi hA).mp (by rw [hget, hgj])
      subst this
      exact hn'.1 hj

/-- `labelValues` without a limit returns a strictly increasing (hence duplicate-free) list -/
theorem labelValues_strict {ms : List Matcher} (hms : ∀ m ∈ ms, WFm m) (name : String)
    (hnd : (ix.lvs name).Nodup) :
    ∃ vs, labelValues ix name 0 ms = .ok vs ∧ vs.Pairwise (· < ·) := by
  unfold labelValues
  split
  · exact ⟨_, rfl, sortS_strict (by rw [truncate_zero]; exact hnd)⟩
  · rename_i he
    have hne : ms ≠ [] := fun e => he (by simp [e])
    have hA : (filterOwn name ms (ix.lvs name)).Nodup := (filterOwn_sublist name ms _).nodup hnd
    unfold labelValuesWithMatchers
    simp only
    split
    · exact ⟨sortS [], rfl, by simp [sortS]⟩
    · split
      · exact ⟨sortS (truncate 0 (filterOwn name ms (ix.lvs name))), rfl,
          sortS_strict (by rw [truncate_zero]; exact hA)⟩
      · obtain ⟨p, hp, _, _⟩ := pfm_mem wf hne hms
        rw [hp]
        simp only
        refine ⟨sortS (truncate 0 ((findIntersecting p ((filterOwn name ms (ix.lvs name)).map (ix.postings1 name))).filterMap
          fun i => (filterOwn name ms (ix.lvs name))[i]?)), rfl, sortS_strict ?_⟩
        rw [truncate_zero]
        exact nodup_filterMap_get hA (findIntersecting_nodup _ _)

/-- the limited answer sorts a truncation of the very list whose sort is the unlimited answer -/
theorem labelValues_limit {ms : List Matcher} (hms : ∀ m ∈ ms, WFm m) (name : String) (n : Nat) :
    ∃ X, labelValues ix name 0 ms = .ok (sortS X) ∧ labelValues ix name n ms = .ok (sortS (truncate n X)) := by
  unfold labelValues
  split
  · exact ⟨ix.lvs name, by rw [truncate_zero], rfl⟩
  · rename_i he
    have hne : ms ≠ [] := fun e => he (by simp [e])
    unfold labelValuesWithMatchers
    simp only
    split
    · exact ⟨[], rfl, by simp [truncate, Except.map]⟩
    · split
      · exact ⟨filterOwn name ms (ix.lvs name), by rw [truncate_zero]; rfl, rfl⟩
      · obtain ⟨p, hp, _, _⟩ := pfm_mem wf hne hms
        rw [hp]
        exact ⟨_, by simp only [truncate_zero]; rfl, rfl⟩

/-! ### select -/

omit wf in
theorem labelsLe_total : ∀ (a b : List (String × String)), labelsLe a b = false → labelsLe b a = true
  | [], _, h => by simp [labelsLe] at h
  | _ :: _, [], _ => by simp [labelsLe]
  | (n1, v1) :: a, (n2, v2) :: b, h => by
    simp only [labelsLe] at h ⊢
    by_cases h1 : n1 < n2
    · simp [h1] at h
    · by_cases h2 : n2 < n1
      · simp [h2]
      · have hn : n1 = n2 := String.le_antisymm (String.not_lt.mp h2) (String.not_lt.mp h1)
        subst hn
        simp only [h1, if_false] at h ⊢
        by_cases h3 : v1 < v2
        · simp [h3] at h
        · by_cases h4 : v2 < v1
          · simp [h4]
          · simp only [h3, h4, if_false] at h ⊢
            exact labelsLe_total a b h

/-- adjacent elements are in `labels.Compare ≤ 0` order -/
def ChainLe : List Series → Prop
  | a :: b :: rest => labelsLe a.labels b.labels = true ∧ ChainLe (b :: rest)
  | _ => True

omit wf in
theorem mem_insertL {v x : Series} : ∀ {l : List Series}, v ∈ insertL x l ↔ v = x ∨ v ∈ l
  | [] => by simp [insertL]
  | y :: ys => by
    simp only [insertL]
    split
    · simp
    · simp only [List.mem_cons, mem_insertL (l := ys)]
      constructor
      · rintro (h | h | h) <;> simp [h]
      · rintro (h | h | h) <;> simp [h]

omit wf in
theorem mem_sortByLabels {v : Series} : ∀ {l : List Series}, v ∈ sortByLabels l ↔ v ∈ l
  | [] => by simp [sortByLabels]
  | x :: t => by
    have ih := mem_sortByLabels (v := v) (l := t)
    simp only [sortByLabels, List.foldr_cons] at *
    rw [mem_insertL, ih]; simp

omit wf in
theorem chain_insertL (x : Series) : ∀ (l : List Series), ChainLe l → ChainLe (insertL x l)
  | [], _ => by simp [insertL, ChainLe]
  | [y], _ => by
    simp only [insertL]
    split
    · rename_i h; exact ⟨h, trivial⟩
    · rename_i h
      have : labelsLe x.labels y.labels = false := by simpa using h
      exact ⟨labelsLe_total _ _ this, trivial⟩
  | y :: z :: rest, hc => by
    have ih := chain_insertL x (z :: rest) hc.2
    simp only [insertL] at ih ⊢
    split
    · rename_i h; exact ⟨h, hc⟩
    · rename_i h
      have hyx : labelsLe y.labels x.labels = true := labelsLe_total _ _ (by simpa using h)
      split
      · rename_i h2
        rw [if_pos h2] at ih
        exact ⟨hyx, ih⟩
      · rename_i h2
        rw [if_neg h2] at ih
        exact ⟨hc.1, ih⟩

omit wf in
theorem chain_sortByLabels : ∀ (l : List Series), ChainLe (sortByLabels l)
  | [] => by simp [sortByLabels, ChainLe]
  | x :: t => by
    have ih := chain_sortByLabels t
    simp only [sortByLabels, List.foldr_cons] at *
    exact chain_insertL x _ ih

omit wf in
theorem labelsLe_cons_iff (n1 v1 n2 v2 : String) (a b : List (String × String)) :
    labelsLe ((n1, v1) :: a) ((n2, v2) :: b) = true ↔
      n1 < n2 ∨ (n1 = n2 ∧ (v1 < v2 ∨ (v1 = v2 ∧ labelsLe a b = true))) := by
  simp only [labelsLe]
  by_cases h1 : n1 < n2
  · simp [h1]
  · by_cases h2 : n2 < n1
    · have hne : n1 ≠ n2 := fun e => by subst e; exact String.lt_irrefl _ h2
      simp [h1, h2, hne]
    · have hn : n1 = n2 := String.le_antisymm (String.not_lt.mp h2) (String.not_lt.mp h1)
      subst hn
      simp only [h1, if_false, false_or, true_and]
      by_cases h3 : v1 < v2
      · simp [h3]
      · by_cases h4 : v2 < v1
        · have hne : v1 ≠ v2 := fun e => by subst e; exact String.lt_irrefl _ h4
          simp [h3, h4, hne]
        · have hv : v1 = v2 := String.le_antisymm (String.not_lt.mp h4) (String.not_lt.mp h3)
          subst hv
          simp [h3]

omit wf in
theorem labelsLe_trans : ∀ (a b c : List (String × String)),
    labelsLe a b = true → labelsLe b c = true → labelsLe a c = true
  | [], _, _, _, _ => by simp [labelsLe]
  | _ :: _, [], _, h, _ => by simp [labelsLe] at h
  | _ :: _, _ :: _, [], _, h => by simp [labelsLe] at h
  | (n1, v1) :: a, (n2, v2) :: b, (n3, v3) :: c, h1, h2 => by
    rw [labelsLe_cons_iff] at h1 h2 ⊢
    rcases h1 with h1 | ⟨rfl, h1⟩
    · rcases h2 with h2 | ⟨rfl, _⟩
      · exact Or.inl (String.lt_trans h1 h2)
      · exact Or.inl h1
    · rcases h2 with h2 | ⟨rfl, h2⟩
      · exact Or.inl h2
      · refine Or.inr ⟨rfl, ?_⟩
        rcases h1 with h1 | ⟨rfl, h1⟩
        · rcases h2 with h2 | ⟨rfl, _⟩
          · exact Or.inl (String.lt_trans h1 h2)
          · exact Or.inl h1
        · rcases h2 with h2 | ⟨rfl, h2⟩
          · exact Or.inl h2
          · exact Or.inr ⟨rfl, labelsLe_trans a b c h1 h2⟩

abbrev SLe (a b : Series) : Prop := labelsLe a.labels b.labels = true

omit wf in
theorem pairwise_insertL (x : Series) : ∀ {l : List Series}, l.Pairwise SLe → (insertL x l).Pairwise SLe
  | [], _ => by simp [insertL]
  | y :: ys, hp => by
    have hle := (List.pairwise_cons.mp hp).1
    simp only [insertL]
    split
    · rename_i h
      rw [List.pairwise_cons]
      refine ⟨?_, hp⟩
      intro z hz
      rcases List.mem_cons.mp hz with rfl | hz
      · exact h
      · exact labelsLe_trans _ _ _ h (hle z hz)
    · rename_i h
      have hyx : SLe y x := labelsLe_total _ _ (by simpa using h)
      rw [List.pairwise_cons]
      refine ⟨?_, pairwise_insertL x (List.pairwise_cons.mp hp).2⟩
      intro z hz
      rcases mem_insertL.mp hz with rfl | hz
      · exact hyx
      · exact hle z hz

omit wf in
theorem pairwise_sortByLabels : ∀ (l : List Series), (sortByLabels l).Pairwise SLe
  | [] => by simp [sortByLabels]
  | x :: t => by
    have ih := pairwise_sortByLabels t
    simp only [sortByLabels, List.foldr_cons] at *
    exact pairwise_insertL x ih

theorem byRef_spec {s : Series} (hs : s ∈ ix.series) : ix.byRef s.ref = some s := by
  unfold Index.byRef
  cases h : ix.series.find? (fun t => t.ref == s.ref) with
  | none =>
    have := List.find?_eq_none.mp h s hs
    simp at this
  | some t =>
    have ht := List.mem_of_find?_eq_some h
    have hr : t.ref = s.ref := by simpa using List.find?_some h
    rw [ref_inj wf ht hs hr]

theorem select_spec {ms : List Matcher} (hne : ms ≠ []) (hms : ∀ m ∈ ms, WFm m) (sorted : Bool) :
    ∃ ss, select ix sorted ms = .ok ss ∧ (sorted = true → ss.Pairwise SLe) ∧
      (sorted = false → ss = ix.series.filter (sat ms)) ∧
      ∀ s, s ∈ ss ↔ s ∈ ix.series ∧ sat ms s = true := by
  obtain ⟨p, hp, hsorted, hmem⟩ := pfm_mem wf hne hms
  have hp' : p = (ix.series.filter (sat ms)).map (·.ref) := by
    apply sorted_ext hsorted
    · exact List.Pairwise.sublist (List.Sublist.map _ List.filter_sublist) wf.sorted
    · intro y
      rw [hmem]
      simp only [List.mem_map, List.mem_filter]
      constructor
      · rintro ⟨s, hs, rfl, h⟩; exact ⟨s, ⟨hs, h⟩, rfl⟩
      · rintro ⟨s, ⟨hs, h⟩, rfl⟩; exact ⟨s, hs, rfl, h⟩
  have hexp : p.filterMap ix.byRef = ix.series.filter (sat ms) := by
    rw [hp', List.filterMap_map]
    have : ∀ l : List Series, (∀ s ∈ l, s ∈ ix.series) → l.filterMap (ix.byRef ∘ fun s => s.ref) = l := by
      intro l
      induction l with
      | nil => intro _; rfl
      | cons a t ih =>
        intro h
        have ha := byRef_spec wf (h a (by simp))
        simp only [List.filterMap_cons, Function.comp, ha]
        rw [ih (fun s hs => h s (List.mem_cons_of_mem _ hs))]
    exact this _ (fun s hs => (List.mem_filter.mp hs).1)
  unfold select
  rw [hp]
  cases sorted with
  | true =>
    refine ⟨sortByLabels (p.filterMap ix.byRef), rfl, fun _ => pairwise_sortByLabels _, (fun h => by cases h), fun s => ?_⟩
    rw [mem_sortByLabels, hexp, List.mem_filter]
  | false =>
    refine ⟨p.filterMap ix.byRef, rfl, (fun h => by cases h), fun _ => hexp, fun s => ?_⟩
    rw [hexp, List.mem_filter]

end
end Prom.Postings
