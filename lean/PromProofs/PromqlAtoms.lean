import PromProofs.PromqlLex
import PromProofs.PromqlLexNum
import PromProofs.PromqlLexString
import PromProofs.PromqlParse
/-
  Property C26: number and string literals as atoms of the round trip (lexer side and parser side).
-/
namespace Prom.Promql
open F64Q

/-- the repaired `NumberLiteral.String` writes a leading minus sign -/
def numNeg (v : F64) : Bool := !v.isNaN && v.neg?

/-- text of a number literal without its sign -/
def numBody (v : F64) : Bytes := (numText true v false).drop (if numNeg v then 1 else 0)

/-- unsigned number texts the printer can produce -/
def isNumBody (t : Bytes) : Prop := t = bs "NaN" ∨ t = bs "Inf" ∨ isDecimalText t = true

/-- Hypothesis on the float text of `v` (the shortest-digits layer): the printed text is an optional `-`
    followed by `NaN`, `Inf` or plain decimal text, and `parser.number` reads it back to `v`. -/
def NumRT (v : F64) : Prop :=
  numText true v false = (if numNeg v then [45] else []) ++ numBody v ∧ isNumBody (numBody v) ∧
  ∃ w, parseNumber (numBody v) = some w ∧ (if numNeg v then negateNum w else w) = v

theorem bs_NaN : bs "NaN" = [78, 97, 78] := by with_unfolding_all rfl
theorem bs_Inf : bs "Inf" = [73, 110, 102] := by with_unfolding_all rfl
theorem bs_mInf : bs "-Inf" = [45, 73, 110, 102] := by with_unfolding_all rfl
theorem bs_nan : bs "nan" = [110, 97, 110] := by with_unfolding_all rfl
theorem bs_inf : bs "inf" = [105, 110, 102] := by with_unfolding_all rfl

theorem wordTok_NaN : wordTok (bs "NaN") = .number (bs "NaN") := by with_unfolding_all rfl
theorem wordTok_Inf : wordTok (bs "Inf") = .number (bs "Inf") := by with_unfolding_all rfl
theorem isWordB_NaN : isWordB (bs "NaN") = true := by with_unfolding_all rfl
theorem isWordB_Inf : isWordB (bs "Inf") = true := by with_unfolding_all rfl
theorem isFillWord_NaN : isFillWord (bs "NaN") = false := by with_unfolding_all rfl
theorem isFillWord_Inf : isFillWord (bs "Inf") = false := by with_unfolding_all rfl

/-- what follows a complete expression in printed text: end of input, space, `)` or `,` -/
def okEnd : Option UInt8 → Prop := fun x => x = none ∨ x = some 32 ∨ x = some 41 ∨ x = some 44

theorem okEnd_noWord {x : Option UInt8} (h : okEnd x) : noWordB x := by
  intro c hc
  rcases h with h | h | h | h <;> rw [h] at hc <;> first | (cases hc; decide) | cases hc

theorem okEnd_noNum {x : Option UInt8} (h : okEnd x) : noNumB x := by
  intro c hc
  rcases h with h | h | h | h <;> rw [h] at hc <;> first | (cases hc; decide) | cases hc

/-- first byte of a text is not white space (and the text is not empty) -/
def FirstNS (s : Bytes) : Prop := ∃ c tl, s = c :: tl ∧ isSpaceB c = false

theorem FirstNS.noSpace {s : Bytes} (h : FirstNS s) (rest : Bytes) : noSpaceB (s ++ rest).head? := by
  obtain ⟨c, tl, rfl, hc⟩ := h
  intro x hx
  simp at hx
  subst hx
  exact hc

/-! ### number literals -/

theorem numBody_lex (d : Int) (g : Bool) (t : Bytes) (h : isNumBody t) :
    LexSeg (stS d g) t [.number t] (stS d g) okEnd := by
  rcases h with rfl | rfl | h
  · have := seg_word d g (bs "NaN") isWordB_NaN isFillWord_NaN
    rw [wordTok_NaN] at this
    exact this.weaken fun x hx => okEnd_noWord hx
  · have := seg_word d g (bs "Inf") isWordB_Inf isFillWord_Inf
    rw [wordTok_Inf] at this
    exact this.weaken fun x hx => okEnd_noWord hx
  · exact seg_numdur d g t (.number t) okEnd (isDecimalText_head h) fun rest hr =>
      lexNumberOrDuration_decimal t rest h (okEnd_noNum hr)

theorem isNumBody_firstNS {t : Bytes} (h : isNumBody t) : FirstNS t := by
  rcases h with rfl | rfl | h
  · exact ⟨78, [97, 78], bs_NaN, rfl⟩
  · exact ⟨73, [110, 102], bs_Inf, rfl⟩
  · obtain ⟨c, tl, rfl, hc⟩ := isDecimalText_head h
    exact ⟨c, tl, rfl, (digit_head_chain c hc).2.2.1⟩

def numToks (v : F64) : List Tok := (if numNeg v then [.op .sub [45]] else []) ++ [.number (numBody v)]

theorem num_lex (d : Int) (g : Bool) (v : F64) (h : NumRT v) :
    LexSeg (stS d g) (numText true v false) (numToks v) (stS d g) okEnd := by
  obtain ⟨h1, h2, _⟩ := h
  rw [h1, numToks]
  cases hn : numNeg v with
  | false => simpa using numBody_lex d g _ h2
  | true =>
    simp only [if_true]
    refine LexSeg.append (seg_op1 d g .sub 45 (by simp)) (numBody_lex d g _ h2) fun rest _ => trivial

theorem number_atom (o : Opts) (t : Bytes) (w : F64) (h : parseNumber t = some w) :
    AtomParses o (.num w false) [.number t] 2 := by
  intro F R hF hR
  obtain ⟨f, rfl⟩ : ∃ f, F = f + 2 := ⟨F - 2, by omega⟩
  show parseOperand o (f + 1 + 1) (Tok.number t :: R) = _
  simp [parseOperand, parsePrimary, numLitOf, h, parsePostfix_stop o _ 7 _ R hR]

/-- parser side of a number literal -/
theorem num_PT (o : Opts) (v : F64) (h : NumRT v) :
    ∃ n, n ≤ 4 * (numToks v).length + 1 ∧ PT o (.num v false) (numToks v) 7 (if numNeg v then 6 else 7) n := by
  obtain ⟨_, _, w, hw, hv⟩ := h
  have ha := number_atom o _ w hw
  unfold numToks
  cases hn : numNeg v with
  | false =>
    simp only [hn, Bool.false_eq_true, if_false] at hv ⊢
    subst hv
    exact ⟨3, by simp, PT.atom ha trivial⟩
  | true =>
    simp only [hn, if_true] at hv ⊢
    subst hv
    exact ⟨5, by simp, PT.negnum ha (by omega)⟩

/-! ### string literals -/

theorem str_lex (d : Int) (g : Bool) (s : Bytes) (h : hasRC s = false) :
    LexSeg (stS d g) (quote s) [.string (quote s)] (stS d g) okEnd := by
  have := seg_string d g (quoteBody s.length s ++ [34]) (.string (quote s)) fun rest => by
    rw [List.append_assoc]; exact lexStringTok_quote s rest h
  exact this.weaken fun _ _ => trivial

theorem string_atom (o : Opts) (s : Bytes) : AtomParses o (.str s) [.string (quote s)] 2 := by
  intro F R hF hR
  obtain ⟨f, rfl⟩ : ∃ f, F = f + 2 := ⟨F - 2, by omega⟩
  show parseOperand o (f + 1 + 1) (Tok.string (quote s) :: R) = _
  simp [parseOperand, parsePrimary, quote_unquote, parsePostfix_stop o _ 7 _ R hR]

/-! ### the repaired ±Inf / NaN printing satisfies the float-text hypothesis -/

theorem numRT_pinf : NumRT F64.pinf := by
  refine ⟨by with_unfolding_all rfl, Or.inr (Or.inl (by with_unfolding_all rfl)), F64.pinf, by with_unfolding_all rfl,
    by with_unfolding_all rfl⟩

theorem numRT_ninf : NumRT F64.ninf := by
  refine ⟨by with_unfolding_all rfl, Or.inr (Or.inl (by with_unfolding_all rfl)), F64.pinf, by with_unfolding_all rfl,
    by with_unfolding_all rfl⟩

theorem numRT_nan : NumRT F64.nan := by
  refine ⟨by with_unfolding_all rfl, Or.inl (by with_unfolding_all rfl), F64.nan, by with_unfolding_all rfl,
    by with_unfolding_all rfl⟩

end Prom.Promql
