import PromModel.Tsdb.ReadOnly
/-
  C53, file-system side: a script whose actions only name paths below a fresh sandbox directory and
  ends with `RemoveAll(sandbox)` leaves every pre-existing name in place with its inode, and never
  rewrites an existing inode.
-/
namespace Prom.Db

def outside (sb : Path) (q : Path × Nat) : Bool := !(sb.isPrefixOf q.1)

/-- names outside the sandbox are untouched so far; inodes were only added -/
def FsInv (sb : Path) (fs0 fs : Fs) : Prop :=
  fs.names.filter (outside sb) = fs0.names ∧ ∃ extra, fs.inodes = fs0.inodes ++ extra

theorem filter_filter_of_imp {α : Type} (f g : α → Bool) (l : List α) (h : ∀ x, f x = true → g x = true) :
    (l.filter g).filter f = l.filter f := by
  induction l with
  | nil => rfl
  | cons x xs ih =>
    by_cases hg : g x = true
    · simp only [List.filter_cons, hg, if_true]
      by_cases hf : f x = true <;> simp [hf, ih]
    · have hf : ¬ f x = true := fun hf => hg (h x hf)
      simp [hg, hf, ih]

theorem prefix_trans (sb p q : Path) (h1 : sb.isPrefixOf p = true) (h2 : p.isPrefixOf q = true) :
    sb.isPrefixOf q = true := by
  rw [List.isPrefixOf_iff_prefix] at *
  exact List.IsPrefix.trans h1 h2

theorem act_inv (sb : Path) (fs0 fs : Fs) (a : FsAct) (ht : sb.isPrefixOf a.target = true)
    (h : FsInv sb fs0 fs) : FsInv sb fs0 (fs.act a) := by
  obtain ⟨hn, extra, hi⟩ := h
  cases a with
  | mkdir p =>
    refine ⟨?_, extra ++ [(fs.fresh, [])], by simp [Fs.act, hi]⟩
    simp only [FsAct.target] at ht
    simp [Fs.act, List.filter_append, outside, ht, hn]
  | link src dst =>
    simp only [FsAct.target] at ht
    simp only [Fs.act]
    split
    · refine ⟨?_, extra, hi⟩
      simp [List.filter_append, outside, ht, hn]
    · exact ⟨hn, extra, hi⟩
  | unlink p =>
    simp only [FsAct.target] at ht
    refine ⟨?_, extra, hi⟩
    simp only [Fs.act]
    rw [filter_filter_of_imp, hn]
    intro x hx
    simp only [outside, Bool.not_eq_true', ] at hx
    simp only [ne_eq, decide_not, Bool.not_eq_eq_eq_not, Bool.not_true, decide_eq_false_iff_not]
    intro e; rw [e] at hx; rw [ht] at hx; exact absurd hx (by simp)
  | create p c =>
    simp only [FsAct.target] at ht
    refine ⟨?_, extra ++ [(fs.fresh, c)], by simp [Fs.act, hi]⟩
    simp only [Fs.act, List.filter_append]
    rw [filter_filter_of_imp, hn]
    · simp [outside, ht]
    · intro x hx
      simp only [outside, Bool.not_eq_true'] at hx
      simp only [ne_eq, decide_not, Bool.not_eq_eq_eq_not, Bool.not_true, decide_eq_false_iff_not]
      intro e; rw [e] at hx; rw [ht] at hx; exact absurd hx (by simp)
  | removeAll p =>
    simp only [FsAct.target] at ht
    refine ⟨?_, extra, hi⟩
    simp only [Fs.act]
    rw [filter_filter_of_imp, hn]
    intro x hx
    simp only [outside, Bool.not_eq_true'] at hx
    simp only [Bool.not_eq_true']
    cases hp : p.isPrefixOf x.1 with
    | false => rfl
    | true => rw [prefix_trans sb p x.1 ht hp] at hx; exact absurd hx (by simp)

theorem run_inv (sb : Path) (fs0 : Fs) (as : List FsAct) (ht : ∀ a ∈ as, sb.isPrefixOf a.target = true) :
    ∀ fs, FsInv sb fs0 fs → FsInv sb fs0 (fs.run as) := by
  induction as with
  | nil => intro fs h; exact h
  | cons a as ih =>
    intro fs h
    exact ih (fun b hb => ht b (List.mem_cons_of_mem _ hb)) _ (act_inv sb fs0 fs a (ht a List.mem_cons_self) h)

theorem prefix_append (sb r : Path) : sb.isPrefixOf (sb ++ r) = true := by
  rw [List.isPrefixOf_iff_prefix]; exact List.prefix_append sb r

/-- One read-only session: all pre-existing names keep their inodes, no name is left behind, and
    the inode table is only extended (no existing content is rewritten). -/
theorem session_changes_nothing (fs : Fs) (dir sb : Path) (chunkFiles : List String) (work : List FsAct)
    (hfresh : ∀ q ∈ fs.names, sb.isPrefixOf q.1 = false)
    (hwork : ∀ a ∈ work, sb.isPrefixOf a.target = true) :
    (fs.run (roSession dir sb chunkFiles work)).names = fs.names ∧
    ∃ extra, (fs.run (roSession dir sb chunkFiles work)).inodes = fs.inodes ++ extra := by
  have h0 : FsInv sb fs fs := by
    refine ⟨?_, [], by simp⟩
    apply List.filter_eq_self.mpr
    intro q hq; simp [outside, hfresh q hq]
  have hall : ∀ a ∈ roSession dir sb chunkFiles work, sb.isPrefixOf a.target = true := by
    intro a ha
    unfold roSession at ha
    simp only [List.mem_append, List.mem_cons, List.mem_map, List.not_mem_nil, or_false] at ha
    rcases ha with (((rfl | rfl) | ⟨f, _, rfl⟩) | ha) | rfl
    · simp [FsAct.target]
    · exact prefix_append sb _
    · exact prefix_append sb _
    · exact hwork a ha
    · simp [FsAct.target]
  -- split off the final RemoveAll(sb)
  have hsplit : roSession dir sb chunkFiles work =
      ([FsAct.mkdir sb, FsAct.mkdir (sb ++ ["chunks_head"])] ++
        chunkFiles.map (fun f => FsAct.link (dir ++ ["chunks_head", f]) (sb ++ ["chunks_head", f])) ++ work) ++ [FsAct.removeAll sb] := rfl
  rw [hsplit] at hall ⊢
  unfold Fs.run
  rw [List.foldl_append]
  have hpre := run_inv sb fs _ (fun a ha => hall a (List.mem_append_left _ ha)) fs h0
  unfold Fs.run at hpre
  generalize List.foldl Fs.act fs _ = mid at hpre
  obtain ⟨hn, extra, hi⟩ := hpre
  refine ⟨?_, extra, ?_⟩
  · simp only [List.foldl_cons, List.foldl_nil, Fs.act]
    rw [← hn]; rfl
  · simp only [List.foldl_cons, List.foldl_nil, Fs.act]; exact hi

end Prom.Db
