import PromModel.Tsdb.Record
import PromProofs.Enc
/-
  Round-trip lemmas for the WAL record codecs (`PromModel/Tsdb/Record.lean`).
-/
namespace Prom.Record
open Prom.Enc

/-! ## well-formedness (what the Go types can hold) -/

def LabelWF (l : Label) : Prop := l.name.length < 9223372036854775808 ∧ l.value.length < 9223372036854775808
def LabelsWF (ls : Labels) : Prop := ls.length < 9223372036854775808 ∧ ∀ l ∈ ls, LabelWF l

/-! ## monad plumbing -/

theorem ok_bind {ε α β} (a : α) (f : α → Except ε β) : (Except.ok a >>= f) = f a := rfl

theorem countOf_small {n : Nat} (h : n < 9223372036854775808) : countOf n = n := by
  unfold countOf; rw [if_pos h]

theorem liftErr_ok {α} (x : α) : liftErr (.ok x : Except DecErr α) = .ok x := rfl

/-! ## generic loop facts -/

theorem encAll_const_flatMap {α} (f : α → Bytes) (xs : List α) : encEach f xs = xs.flatMap f := by
  unfold encEach
  induction xs with
  | nil => rfl
  | cons x xs ih => simp [encAll, ih]

theorem outAll_const_some {α β} (g : α → β) (xs : List α) :
    outAll (fun (_ : Unit) x => some (g x)) (fun s _ => s) () xs = xs.map g := by
  induction xs with
  | nil => rfl
  | cons x xs ih => simp [outAll, ih]

/-- Loop round trip when neither side carries state. -/
theorem loop_each {α β} (step : Unit → Bytes → Except DecErr (Unit × Option β × Bytes))
    (enc : α → Bytes) (g : α → β) (WF : α → Prop)
    (hstep : ∀ x rest, WF x → step () (enc x ++ rest) = .ok ((), some (g x), rest))
    (hne : ∀ x, WF x → enc x ≠ []) (xs : List α) (hwf : ∀ x ∈ xs, WF x) (fuel : Nat)
    (hfuel : (encEach enc xs).length ≤ fuel) :
    loopFuel step fuel () (encEach enc xs) = .ok (xs.map g) := by
  have := loopFuel_encAll step (fun (_ : Unit) x => enc x) (fun s _ => s) (fun _ x => some (g x))
    (fun _ => True) WF (fun _ x rest _ hx => hstep x rest hx) (fun _ _ _ _ => trivial) (fun _ x _ hx => hne x hx)
    xs () fuel trivial hwf hfuel
  rw [outAll_const_some] at this
  exact this

/-! ## labels -/

theorem decLabel_enc (l : Label) (h : LabelWF l) (rest : Bytes) :
    decLabel (encLabel l ++ rest) = .ok (l, rest) := by
  unfold decLabel encLabel
  rw [List.append_assoc, decUvarintStr_put h.1]
  simp only [bind, Except.bind]
  rw [decUvarintStr_put h.2]
  rfl

theorem decLabels_enc (ls : Labels) (h : LabelsWF ls) (rest : Bytes) :
    decLabels (encLabels ls ++ rest) = .ok (ls, rest) := by
  unfold decLabels encLabels
  rw [List.append_assoc, decUvarint_put (by unfold U64; have := h.1; omega)]
  simp only [bind, Except.bind]
  rw [countOf_small h.1]
  exact readN_flatMap decLabel encLabel LabelWF (fun x r hx => decLabel_enc x hx r) ls rest h.2

/-! ## series -/

def SeriesWF (s : RefSeries) : Prop := U64 s.ref ∧ LabelsWF s.labels

theorem putBE64_append_ne_nil (n : Nat) (r : Bytes) : putBE64 n ++ r ≠ [] := by simp [putBE64]

theorem putVarint_append_ne_nil (x : Int) (r : Bytes) : putVarint x ++ r ≠ [] := by
  intro h
  exact putVarint_ne_nil x (List.append_eq_nil_iff.mp h).1

theorem putUvarint_append_ne_nil (x : Nat) (r : Bytes) : putUvarint x ++ r ≠ [] := by
  intro h
  exact putUvarint_ne_nil x (List.append_eq_nil_iff.mp h).1

theorem stepSeries_enc (s : RefSeries) (h : SeriesWF s) (rest : Bytes) :
    stepSeries () (encSeriesItem s ++ rest) = .ok ((), some s, rest) := by
  unfold stepSeries encSeriesItem
  rw [List.append_assoc, getBE64_putBE64 h.1]
  simp only [bind, Except.bind]
  rw [decLabels_enc _ h.2]
  rfl

theorem decSeries_enc (xs : List RefSeries) (h : ∀ s ∈ xs, SeriesWF s) :
    decSeries (encSeries xs) = .ok xs := by
  unfold decSeries encSeries
  simp only [ne_eq, not_true_eq_false, if_false]
  rw [loop_each stepSeries encSeriesItem id SeriesWF (fun x r hx => stepSeries_enc x hx r)
    (fun x _ => putBE64_append_ne_nil _ _) xs h _ (Nat.le_refl _)]
  simp [liftErr]

/-! ## m-map markers -/

def MmapWF (m : RefMmapMarker) : Prop := U64 m.ref ∧ U64 m.mmapRef

theorem stepMmap_enc (m : RefMmapMarker) (h : MmapWF m) (rest : Bytes) :
    stepMmap () (encMmapItem m ++ rest) = .ok ((), some m, rest) := by
  unfold stepMmap encMmapItem
  rw [List.append_assoc, getBE64_putBE64 h.1]
  simp only [bind, Except.bind]
  rw [getBE64_putBE64 h.2]
  rfl

theorem decMmapMarkers_enc (xs : List RefMmapMarker) (h : ∀ m ∈ xs, MmapWF m) :
    decMmapMarkers (encMmapMarkers xs) = .ok xs := by
  unfold decMmapMarkers encMmapMarkers
  simp only [ne_eq, not_true_eq_false, if_false]
  rw [loop_each stepMmap encMmapItem id MmapWF (fun x r hx => stepMmap_enc x hx r)
    (fun x _ => putBE64_append_ne_nil _ _) xs h _ (Nat.le_refl _)]
  simp [liftErr]

/-! ## tombstones -/

def StoneWF (s : Stone) : Prop := U64 s.ref ∧ ∀ iv ∈ s.intervals, I64 iv.1 ∧ I64 iv.2

/-- one (ref, interval) entry -/
def encTombEntry (s : Stone) : Bytes :=
  match s.intervals with
  | [iv] => putBE64 s.ref ++ putVarint iv.1 ++ putVarint iv.2
  | _ => []

def EntryWF (s : Stone) : Prop := U64 s.ref ∧ ∃ iv, s.intervals = [iv] ∧ I64 iv.1 ∧ I64 iv.2

theorem encTombstones_flatten (xs : List Stone) :
    xs.flatMap encTombstoneItem = encEach encTombEntry (flattenStones xs) := by
  rw [encAll_const_flatMap]
  unfold flattenStones encTombstoneItem
  induction xs with
  | nil => rfl
  | cons s xs ih =>
    simp only [List.flatMap_cons, List.flatMap_append, ih]
    congr 1
    generalize s.intervals = ivs
    induction ivs with
    | nil => rfl
    | cons iv ivs ih2 => simp only [List.flatMap_cons, List.map_cons, encTombEntry, ih2]

theorem flattenStones_wf (xs : List Stone) (h : ∀ s ∈ xs, StoneWF s) :
    ∀ e ∈ flattenStones xs, EntryWF e := by
  intro e he
  unfold flattenStones at he
  simp only [List.mem_flatMap, List.mem_map] at he
  obtain ⟨s, hs, iv, hiv, rfl⟩ := he
  exact ⟨(h s hs).1, iv, rfl, (h s hs).2 iv hiv⟩

theorem stepTombstone_enc (e : Stone) (h : EntryWF e) (rest : Bytes) :
    stepTombstone () (encTombEntry e ++ rest) = .ok ((), some e, rest) := by
  obtain ⟨hr, iv, hiv, h1, h2⟩ := h
  obtain ⟨ref, ivs⟩ := e
  simp only at hiv hr
  subst hiv
  unfold stepTombstone encTombEntry
  simp only
  rw [List.append_assoc, List.append_assoc, getBE64_putBE64 hr]
  simp only [bind, Except.bind]
  rw [decVarint_put h1]
  simp only
  rw [decVarint_put h2]
  rfl

theorem encTombEntry_ne_nil (e : Stone) (h : EntryWF e) : encTombEntry e ≠ [] := by
  obtain ⟨_, iv, hiv, _, _⟩ := h
  unfold encTombEntry
  rw [hiv]
  simp [putBE64]

theorem decTombstones_enc (xs : List Stone) (h : ∀ s ∈ xs, StoneWF s) :
    decTombstones (encTombstones xs) = .ok (flattenStones xs) := by
  unfold decTombstones encTombstones
  simp only [ne_eq, not_true_eq_false, if_false]
  rw [encTombstones_flatten]
  rw [loop_each stepTombstone encTombEntry id EntryWF (fun x r hx => stepTombstone_enc x hx r)
    encTombEntry_ne_nil _ (flattenStones_wf xs h) _ (Nat.le_refl _)]
  simp [liftErr]

/-! ## metadata -/

def MetaWF (m : RefMetadata) : Prop :=
  U64 m.ref ∧ U8 m.typ ∧ m.unit.length < 9223372036854775808 ∧ m.help.length < 9223372036854775808

theorem stepMetadata_enc (m : RefMetadata) (h : MetaWF m) (rest : Bytes) :
    stepMetadata () (encMetadataItem m ++ rest) = .ok ((), some m, rest) := by
  obtain ⟨h1, h2, h3, h4⟩ := h
  unfold U8 at h2
  unfold stepMetadata encMetadataItem
  simp only [List.append_assoc]
  rw [decUvarint_put h1]
  simp only [bind, Except.bind, List.cons_append, List.nil_append, getByte]
  have hb : (UInt8.ofNat m.typ).toNat = m.typ := by rw [UInt8.toNat_ofNat']; omega
  rw [hb, decUvarint_put (by unfold U64; omega)]
  simp only
  rw [countOf_small (by omega)]
  simp only [readFields, bind, Except.bind]
  rw [decUvarintStr_put (by decide)]
  simp only
  rw [decUvarintStr_put h3]
  simp only [if_true]
  rw [decUvarintStr_put (by decide)]
  simp only
  rw [decUvarintStr_put h4]
  have : ¬ helpName = unitName := by decide
  simp only [this, if_false, if_true, pure, Except.pure]

theorem decMetadata_enc (xs : List RefMetadata) (h : ∀ m ∈ xs, MetaWF m) :
    decMetadata (encMetadata xs) = .ok xs := by
  unfold decMetadata encMetadata
  simp only [ne_eq, not_true_eq_false, if_false]
  rw [loop_each stepMetadata encMetadataItem id MetaWF (fun x r hx => stepMetadata_enc x hx r)
    (fun x _ => by unfold encMetadataItem; simp only [List.append_assoc]; exact putUvarint_append_ne_nil _ _)
    xs h _ (Nat.le_refl _)]
  simp [liftErr]

/-! ## samples V1 -/

def SampleWF (s : RefSample) : Prop := U64 s.ref ∧ I64 s.st ∧ I64 s.t ∧ U64 s.v

theorem stepSampleV1_enc (baseRef : Nat) (baseT : Int) (s : RefSample) (h : SampleWF s) (rest : Bytes) :
    stepSampleV1 baseRef baseT () (encSampleV1 baseRef baseT s ++ rest)
      = .ok ((), some { s with st := 0 }, rest) := by
  obtain ⟨h1, _, h3, h4⟩ := h
  unfold stepSampleV1 encSampleV1
  simp only [List.append_assoc]
  rw [decVarint_put (wrap64_I64 _)]
  simp only [bind, Except.bind]
  rw [decVarint_put (wrap64_I64 _)]
  simp only
  rw [getBE64_putBE64 h4]
  simp only [pure, Except.pure]
  rw [ref_delta_roundtrip_i _ h1, time_delta_roundtrip _ h3]

theorem decSamples_enc_v1 (xs : List RefSample) (h : ∀ s ∈ xs, SampleWF s) :
    decSamples (encSamplesV1 xs) = .ok (xs.map fun s => { s with st := 0 }) := by
  unfold decSamples encSamplesV1
  cases xs with
  | nil => simp [tSamples, decSamplesV1, liftErr]
  | cons first rest =>
    have hf := h first (by simp)
    simp only [if_true]
    unfold decSamplesV1
    simp only [List.append_assoc]
    rw [if_neg (by simp [putBE64])]
    rw [getBE64_putBE64 hf.1]
    simp only [bind, Except.bind]
    rw [getBE64_putBE64 (toU64_lt _)]
    simp only
    rw [toI64_toU64 hf.2.2.1]
    rw [loop_each (stepSampleV1 first.ref first.t) (encSampleV1 first.ref first.t) (fun s => { s with st := 0 })
      SampleWF (fun x r hx => stepSampleV1_enc _ _ x hx r)
      (fun x _ => by unfold encSampleV1; simp only [List.append_assoc]; exact putVarint_append_ne_nil _ _)
      (first :: rest) h _ (Nat.le_refl _)]
    rfl

/-! ## exemplars -/

def ExemplarWF (e : RefExemplar) : Prop := U64 e.ref ∧ I64 e.t ∧ U64 e.v ∧ LabelsWF e.labels

theorem stepExemplar_enc (baseRef : Nat) (hb : U64 baseRef) (baseT : Int) (e : RefExemplar) (h : ExemplarWF e)
    (rest : Bytes) :
    stepExemplar baseRef baseT () (encExemplarItem baseRef baseT e ++ rest) = .ok ((), some e, rest) := by
  obtain ⟨h1, h2, h3, h4⟩ := h
  unfold stepExemplar encExemplarItem
  simp only [List.append_assoc]
  rw [decVarint_put (wrap64_I64 _)]
  simp only [bind, Except.bind]
  rw [decVarint_put (wrap64_I64 _)]
  simp only
  rw [getBE64_putBE64 h3]
  simp only
  rw [decLabels_enc _ h4]
  simp only [pure, Except.pure]
  rw [ref_delta_roundtrip_u h1 hb, time_delta_roundtrip _ h2]

theorem decExemplars_enc (xs : List RefExemplar) (h : ∀ e ∈ xs, ExemplarWF e) :
    decExemplars (encExemplars xs) = .ok xs := by
  unfold decExemplars encExemplars
  cases xs with
  | nil => simp [tExemplars]
  | cons first rest =>
    have hf := h first (by simp)
    simp only [ne_eq, not_true_eq_false, if_false, List.append_assoc]
    rw [if_neg (by simp [putBE64])]
    rw [getBE64_putBE64 hf.1]
    simp only [bind, Except.bind]
    rw [getBE64_putBE64 (toU64_lt _)]
    simp only
    rw [toI64_toU64 hf.2.1]
    rw [loop_each (stepExemplar first.ref first.t) (encExemplarItem first.ref first.t) id
      ExemplarWF (fun x r hx => stepExemplar_enc _ hf.1 _ x hx r)
      (fun x _ => by unfold encExemplarItem; simp only [List.append_assoc]; exact putVarint_append_ne_nil _ _)
      (first :: rest) h _ (Nat.le_refl _)]
    simp [liftErr]

/-! ## samples V2 -/

theorem outAll_some {σ α β} (g : α → β) (next : σ → α → σ) (xs : List α) :
    ∀ s, outAll (fun (_ : σ) x => some (g x)) next s xs = xs.map g := by
  induction xs with
  | nil => intro s; rfl
  | cons x xs ih => intro s; simp [outAll, ih]

/-- `st_marker_roundtrip`: the `noST | sameST | explicitST` marker reproduces the start timestamp. -/
theorem readSTMarker_write (st firstST prevST : Int) (h : I64 st) (rest : Bytes) :
    readSTMarker prevST firstST (writeSTMarker st firstST prevST ++ rest) = .ok (st, rest) := by
  unfold readSTMarker writeSTMarker
  by_cases h0 : st = 0
  · subst h0; simp [getByte, bind, Except.bind, pure, Except.pure]
  · rw [if_neg h0]
    by_cases h1 : st = prevST
    · subst h1; simp [getByte, bind, Except.bind, pure, Except.pure]
    · rw [if_neg h1]
      simp only [List.cons_append, getByte, bind, Except.bind]
      have : (2 : UInt8).toNat = 2 := rfl
      simp only [this]
      rw [if_neg (by decide), if_neg (by decide)]
      rw [decVarint_put (wrap64_I64 _)]
      simp only [pure, Except.pure]
      rw [time_delta_roundtrip _ h]

theorem stepSampleV2_enc (s : Option V2St) (x : RefSample) (h : SampleWF x) (rest : Bytes) :
    stepSampleV2 s (encSampleV2 s x ++ rest) = .ok (nextV2 s x.ref x.st x.t, some x, rest) := by
  obtain ⟨h1, h2, h3, h4⟩ := h
  cases s with
  | none =>
    unfold stepSampleV2 encSampleV2
    simp only [List.append_assoc]
    rw [decVarint_put (toI64_I64 _)]
    simp only [bind, Except.bind]
    rw [decVarint_put h3]
    simp only
    rw [decVarint_put h2]
    simp only
    rw [getBE64_putBE64 h4]
    simp only [pure, Except.pure]
    rw [toU64_toI64 h1]
  | some c =>
    unfold stepSampleV2 encSampleV2
    simp only [List.append_assoc]
    rw [decVarint_put (wrap64_I64 _)]
    simp only [bind, Except.bind]
    rw [decVarint_put (wrap64_I64 _)]
    simp only
    rw [readSTMarker_write _ _ _ h2]
    simp only
    rw [getBE64_putBE64 h4]
    simp only [pure, Except.pure]
    rw [ref_delta_roundtrip_i _ h1, time_delta_roundtrip _ h3]

theorem encSampleV2_ne_nil (s : Option V2St) (x : RefSample) : encSampleV2 s x ≠ [] := by
  cases s <;> unfold encSampleV2 <;> simp only [List.append_assoc] <;> exact putVarint_append_ne_nil _ _

theorem decSamples_enc_v2 (xs : List RefSample) (h : ∀ s ∈ xs, SampleWF s) :
    decSamples (encSamplesV2 xs) = .ok xs := by
  unfold decSamples encSamplesV2
  simp only
  rw [if_neg (by decide), if_pos trivial]
  unfold decSamplesV2
  have := loopFuel_encAll stepSampleV2 encSampleV2 (fun s x => nextV2 s x.ref x.st x.t) (fun _ x => some (id x))
    (fun _ => True) SampleWF (fun s x rest _ hx => stepSampleV2_enc s x hx rest) (fun _ _ _ _ => trivial)
    (fun s x _ _ => encSampleV2_ne_nil s x) xs none _ trivial h (Nat.le_refl _)
  rw [this, outAll_some]
  simp [liftErr]

/-! ## histograms -/

def SpanWF (s : Span) : Prop := I32 s.offset ∧ U32 s.length

def BucketWF (fl : Bool) (b : Int) : Prop := if fl then 0 ≤ b ∧ b < 18446744073709551616 else I64 b

/-- a list length the Go decoder can allocate (`make` panics beyond 2^45 eight-byte elements) -/
def LenOK (n : Nat) : Prop := n ≤ 35184372088832

/-- What `histogram.Histogram` / `FloatHistogram` can hold and the decoder returns unchanged: a known,
    non-reserved schema (-4…8 or custom buckets -53), custom values only with the custom schema. -/
structure HistWF (fl : Bool) (h : Hist) : Prop where
  hint : U8 h.hint
  schema : h.schema = -53 ∨ (-4 ≤ h.schema ∧ h.schema ≤ 8)
  zt : U64 h.zt
  zc : U64 h.zc
  c : U64 h.c
  sum : U64 h.sum
  psLen : LenOK h.ps.length
  nsLen : LenOK h.ns.length
  pbLen : LenOK h.pb.length
  nbLen : LenOK h.nb.length
  cvLen : LenOK h.cv.length
  ps : ∀ s ∈ h.ps, SpanWF s
  ns : ∀ s ∈ h.ns, SpanWF s
  pb : ∀ b ∈ h.pb, BucketWF fl b
  nb : ∀ b ∈ h.nb, BucketWF fl b
  cv : ∀ v ∈ h.cv, U64 v
  cvOnlyCustom : h.schema ≠ -53 → h.cv = []

theorem decSpan_enc (s : Span) (h : SpanWF s) (rest : Bytes) : decSpan (encSpan s ++ rest) = .ok (s, rest) := by
  obtain ⟨h1, h2⟩ := h
  unfold decSpan encSpan
  rw [List.append_assoc, decVarint_put (by unfold I32 at h1; unfold I64; omega)]
  simp only [bind, Except.bind]
  rw [decUvarint_put (by unfold U32 at h2; unfold U64; omega)]
  simp only [pure, Except.pure]
  rw [wrap32_id h1]
  unfold U32 at h2
  rw [Nat.mod_eq_of_lt h2]

theorem decBucket_enc (fl : Bool) (b : Int) (h : BucketWF fl b) (rest : Bytes) :
    decBucket fl (encBucket fl b ++ rest) = .ok (b, rest) := by
  unfold decBucket encBucket BucketWF at *
  cases fl with
  | false => simp only [Bool.false_eq_true, if_false] at *; exact decVarint_put h rest
  | true =>
    simp only [if_true] at *
    rw [getBE64_putBE64 (by unfold U64; omega)]
    simp only [bind, Except.bind, pure, Except.pure]
    congr 2
    omega

theorem decCount_enc (fl : Bool) (n : Nat) (h : U64 n) (rest : Bytes) :
    decCount fl (encCount fl n ++ rest) = .ok (n, rest) := by
  unfold decCount encCount
  cases fl with
  | false => simp only [Bool.false_eq_true, if_false]; exact decUvarint_put h rest
  | true => simp only [if_true]; exact getBE64_putBE64 h rest

theorem decCounted_enc {α} (get : Bytes → Except DecErr (α × Bytes)) (put : α → Bytes) (P : α → Prop)
    (hget : ∀ x rest, P x → get (put x ++ rest) = .ok (x, rest))
    (xs : List α) (hl : LenOK xs.length) (hx : ∀ x ∈ xs, P x) (rest : Bytes) :
    decCounted get ((putUvarint xs.length ++ xs.flatMap put) ++ rest) = .ok (xs, rest) := by
  unfold LenOK at hl
  unfold decCounted
  rw [List.append_assoc, decUvarint_put (by unfold U64; omega)]
  simp only [bind, Except.bind]
  rw [if_neg (by omega), countOf_small (by omega)]
  exact readN_flatMap get put P hget xs rest hx

theorem decHist_enc (fl : Bool) (h : Hist) (wf : HistWF fl h) (rest : Bytes) :
    decHist fl (encHist fl h ++ rest) = .ok (h, rest) := by
  have hh := wf.hint
  unfold U8 at hh
  have hb : (UInt8.ofNat h.hint).toNat = h.hint := by rw [UInt8.toNat_ofNat']; omega
  have hs32 : I32 h.schema := by unfold I32; rcases wf.schema with e | e <;> omega
  have hs64 : I64 h.schema := by unfold I64; rcases wf.schema with e | e <;> omega
  unfold decHist encHist
  simp only [List.append_assoc, List.cons_append, List.nil_append, getByte, bind, Except.bind, hb]
  rw [decVarint_put hs64]
  simp only
  rw [getBE64_putBE64 wf.zt]
  simp only
  rw [decCount_enc fl _ wf.zc]
  simp only
  rw [decCount_enc fl _ wf.c]
  simp only
  rw [getBE64_putBE64 wf.sum]
  simp only
  rw [← List.append_assoc (putUvarint h.ps.length), decCounted_enc decSpan encSpan SpanWF
    (fun x r hx => decSpan_enc x hx r) h.ps wf.psLen wf.ps]
  simp only
  rw [← List.append_assoc (putUvarint h.ns.length), decCounted_enc decSpan encSpan SpanWF
    (fun x r hx => decSpan_enc x hx r) h.ns wf.nsLen wf.ns]
  simp only
  rw [← List.append_assoc (putUvarint h.pb.length), decCounted_enc (decBucket fl) (encBucket fl) (BucketWF fl)
    (fun x r hx => decBucket_enc fl x hx r) h.pb wf.pbLen wf.pb]
  simp only
  rw [← List.append_assoc (putUvarint h.nb.length), decCounted_enc (decBucket fl) (encBucket fl) (BucketWF fl)
    (fun x r hx => decBucket_enc fl x hx r) h.nb wf.nbLen wf.nb]
  simp only [wrap32_id hs32]
  by_cases hc : h.schema = -53
  · have hic : h.isCustom = true := by unfold Hist.isCustom; simp [hc]
    rw [if_pos hc, hic]
    simp only [if_true]
    rw [decCounted_enc getBE64 putBE64 U64
      (fun x r hx => getBE64_putBE64 hx r) h.cv wf.cvLen wf.cv]
    simp only [pure, Except.pure]
  · have hic : h.isCustom = false := by unfold Hist.isCustom; simp [hc]
    rw [if_neg hc, hic]
    simp only [Bool.false_eq_true, if_false, List.nil_append, pure, Except.pure]
    have := wf.cvOnlyCustom hc
    cases h
    simp only at this
    subst this
    rfl

theorem finishHist_wf (fl : Bool) (h : Hist) (wf : HistWF fl h) : finishHist h = .ok (some h) := by
  unfold finishHist knownSchema
  rcases wf.schema with e | e
  · simp [e]
  · have h1 : ¬ (8 < h.schema ∧ h.schema ≤ 52) := by omega
    have h2 : (decide (-9 ≤ h.schema) && decide (h.schema ≤ 52)) = true := by
      simp only [Bool.and_eq_true, decide_eq_true_eq]; omega
    simp [h1, h2]

def RefHistWF (fl : Bool) (x : RefHist) : Prop := U64 x.ref ∧ I64 x.st ∧ I64 x.t ∧ HistWF fl x.h

theorem encHist_ne_nil (fl : Bool) (h : Hist) : encHist fl h ≠ [] := by
  unfold encHist; simp

theorem stepHistV1_enc (fl : Bool) (baseRef : Nat) (hb : U64 baseRef) (baseT : Int) (x : RefHist)
    (h : RefHistWF fl x) (rest : Bytes) :
    stepHistV1 fl baseRef baseT () (encHistItemV1 fl baseRef baseT x ++ rest)
      = .ok ((), some { x with st := 0 }, rest) := by
  obtain ⟨h1, _, h3, h4⟩ := h
  unfold stepHistV1 encHistItemV1
  simp only [List.append_assoc]
  rw [decVarint_put (wrap64_I64 _)]
  simp only [bind, Except.bind]
  rw [decVarint_put (wrap64_I64 _)]
  simp only
  rw [decHist_enc fl _ h4]
  simp only
  rw [finishHist_wf fl _ h4]
  simp only [pure, Except.pure, Option.map]
  rw [ref_delta_roundtrip_u h1 hb, time_delta_roundtrip _ h3]

def dropST (x : RefHist) : RefHist := { x with st := 0 }

theorem encHistItemV1_ne_nil (fl : Bool) (r : Nat) (t : Int) (x : RefHist) : encHistItemV1 fl r t x ≠ [] := by
  unfold encHistItemV1; simp only [List.append_assoc]; exact putVarint_append_ne_nil _ _

/-- body of a V1 histogram record (after the type byte) -/
theorem decHistsV1_body (fl : Bool) (first : RefHist) (hf : U64 first.ref ∧ I64 first.t) (ys : List RefHist)
    (h : ∀ x ∈ ys, RefHistWF fl x) :
    decHistsV1 fl (putBE64 first.ref ++ putBE64 (toU64 first.t) ++ encEach (encHistItemV1 fl first.ref first.t) ys)
      = .ok (ys.map dropST) := by
  unfold decHistsV1
  simp only [List.append_assoc]
  rw [if_neg (by simp [putBE64])]
  rw [getBE64_putBE64 hf.1]
  simp only [bind, Except.bind]
  rw [getBE64_putBE64 (toU64_lt _)]
  simp only
  rw [toI64_toU64 hf.2]
  exact loop_each (stepHistV1 fl first.ref first.t) (encHistItemV1 fl first.ref first.t) dropST
    (RefHistWF fl) (fun x r hx => stepHistV1_enc fl _ hf.1 _ x hx r)
    (fun x _ => encHistItemV1_ne_nil fl _ _ x) ys h _ (Nat.le_refl _)

theorem decHists_enc_custom_v1 (fl : Bool) (xs : List RefHist) (h : ∀ x ∈ xs, RefHistWF fl x) :
    decHists fl (encCustomHistsV1 fl xs) = .ok (xs.map dropST) := by
  unfold decHists encCustomHistsV1
  cases xs with
  | nil => simp [decHistsV1, liftErr]
  | cons first rest =>
    have hf := h first (by simp)
    simp only
    rw [if_pos (Or.inr trivial), decHistsV1_body fl first ⟨hf.1, hf.2.2.1⟩ _ h]
    rfl

theorem encEach_filter {α} (f : α → Bytes) (p : α → Bool) (xs : List α) :
    encEach (fun x => if p x then [] else f x) xs = encEach f (xs.filter fun x => !p x) := by
  rw [encAll_const_flatMap, encAll_const_flatMap]
  induction xs with
  | nil => rfl
  | cons x xs ih =>
    cases hp : p x <;> simp [List.filter_cons, hp, ih]

theorem encHistsV1_leftover (fl : Bool) (xs : List RefHist) :
    (encHistsV1 fl xs).2 = xs.filter (·.h.isCustom) := by
  cases xs <;> rfl

theorem encHistsV1_all_custom (fl : Bool) (xs : List RefHist) (hne : xs ≠ [])
    (hall : xs.length = (xs.filter (·.h.isCustom)).length) : (encHistsV1 fl xs).1 = [] := by
  cases xs with
  | nil => exact absurd rfl hne
  | cons first rest => unfold encHistsV1; simp only; rw [if_pos hall]

theorem decHists_enc_split_v1 (fl : Bool) (xs : List RefHist) (h : ∀ x ∈ xs, RefHistWF fl x)
    (hsome : xs = [] ∨ xs.length ≠ (xs.filter (·.h.isCustom)).length) :
    decHists fl (encHistsV1 fl xs).1 = .ok ((xs.filter fun x => !x.h.isCustom).map dropST) := by
  cases xs with
  | nil => simp [encHistsV1, decHists, decHistsV1, liftErr]
  | cons first rest =>
    have hf := h first (by simp)
    have hne : (first :: rest).length ≠ ((first :: rest).filter (·.h.isCustom)).length := by
      rcases hsome with e | e
      · exact absurd e (by simp)
      · exact e
    unfold encHistsV1 decHists
    simp only
    rw [if_neg hne]
    simp only
    rw [if_pos (Or.inl trivial), encEach_filter,
      decHistsV1_body fl first ⟨hf.1, hf.2.2.1⟩ _ (fun x hx => h x (List.mem_filter.mp hx).1)]
    rfl

/-! ## histograms V2 -/

/-- the encoder loop as the V2 decoder sees it: state = `(prevRef, prevST)`, `none` before the first
    histogram (whose ref/t/st header has already been read); `f` is the first sample. -/
def encD (fl : Bool) (f : RefHist) (s : Option (Nat × Int)) (x : RefHist) : Bytes :=
  match s with
  | none => encHist fl x.h
  | some (prevRef, prevST) =>
    putVarint (wrap64 (toI64 x.ref - toI64 prevRef)) ++ putVarint (wrap64 (x.t - f.t)) ++
      writeSTMarker x.st f.st prevST ++ encHist fl x.h

def nextD (f : RefHist) (s : Option (Nat × Int)) (x : RefHist) : Option (Nat × Int) :=
  match s with
  | none => some (f.ref, f.st)
  | some _ => some (x.ref, x.st)

def outD (f : RefHist) (s : Option (Nat × Int)) (x : RefHist) : Option RefHist :=
  match s with
  | none => some ⟨f.ref, f.st, f.t, x.h⟩
  | some _ => some x

theorem encAll_V2_rest (fl : Bool) (f : RefHist) (ys : List RefHist) :
    ∀ (c : V2St) (p : Nat × Int), c.firstT = f.t → c.firstST = f.st → c.prevRef = p.1 → c.prevST = p.2 →
      encAll (encHistItemV2 fl) (fun s x => nextV2 s x.ref x.st x.t) (some c) ys
        = encAll (encD fl f) (nextD f) (some p) ys := by
  induction ys with
  | nil => intros; rfl
  | cons y ys ih =>
    intro c p h1 h2 h3 h4
    obtain ⟨p1, p2⟩ := p
    simp only at h3 h4
    simp only [encAll, encHistItemV2, encD, nextV2, nextD, h1, h2, h3, h4]
    congr 1
    exact ih _ (y.ref, y.st) rfl rfl rfl rfl

theorem outAll_D_some (f : RefHist) (ys : List RefHist) :
    ∀ p, outAll (outD f) (nextD f) (some p) ys = ys := by
  induction ys with
  | nil => intro p; rfl
  | cons y ys ih => intro p; simp [outAll, outD, nextD, ih]

theorem stepHistV2_enc (fl : Bool) (f : RefHist) (s : Option (Nat × Int)) (x : RefHist)
    (h : RefHistWF fl x) (rest : Bytes) :
    stepHistV2 fl f.ref f.t f.st s (encD fl f s x ++ rest) = .ok (nextD f s x, outD f s x, rest) := by
  obtain ⟨h1, h2, h3, h4⟩ := h
  cases s with
  | none =>
    unfold stepHistV2 encD nextD outD
    simp only [bind, Except.bind, pure, Except.pure]
    rw [decHist_enc fl _ h4]
    simp only
    rw [finishHist_wf fl _ h4]
    simp only [Option.map]
  | some p =>
    obtain ⟨prevRef, prevST⟩ := p
    unfold stepHistV2 encD nextD outD
    simp only [List.append_assoc, bind, Except.bind, pure, Except.pure]
    rw [decVarint_put (wrap64_I64 _)]
    simp only
    rw [decVarint_put (wrap64_I64 _)]
    simp only
    rw [readSTMarker_write _ _ _ h2]
    simp only
    rw [decHist_enc fl _ h4]
    simp only
    rw [finishHist_wf fl _ h4]
    simp only [Option.map]
    rw [ref_delta_roundtrip_i _ h1, time_delta_roundtrip _ h3]

theorem encD_ne_nil (fl : Bool) (f : RefHist) (s : Option (Nat × Int)) (x : RefHist) : encD fl f s x ≠ [] := by
  cases s with
  | none => exact encHist_ne_nil fl _
  | some p => unfold encD; simp only [List.append_assoc]; exact putVarint_append_ne_nil _ _

theorem decHists_enc_v2 (fl : Bool) (xs : List RefHist) (h : ∀ x ∈ xs, RefHistWF fl x) :
    decHists fl (encHistsV2 fl xs) = .ok xs := by
  unfold decHists encHistsV2
  have ht1 : ¬ (tHistV2 fl = tHist fl ∨ tHistV2 fl = tCustomHist fl) := by cases fl <;> decide
  simp only
  rw [if_neg ht1, if_pos trivial]
  cases xs with
  | nil => simp [encAll, decHistsV2, liftErr]
  | cons f rest =>
    have hf := h f (by simp)
    obtain ⟨hf1, hf2, hf3, hf4⟩ := hf
    have henc : encAll (encHistItemV2 fl) (fun s x => nextV2 s x.ref x.st x.t) none (f :: rest)
        = putVarint (toI64 f.ref) ++ (putVarint f.t ++ (putVarint f.st ++ encAll (encD fl f) (nextD f) none (f :: rest))) := by
      simp only [encAll, encHistItemV2, encD, nextV2, nextD, List.append_assoc]
      congr 4
      exact encAll_V2_rest fl f rest _ (f.ref, f.st) rfl rfl rfl rfl
    rw [henc]
    unfold decHistsV2
    rw [if_neg (by
      intro hc
      have := putVarint_append_ne_nil (toI64 f.ref) (putVarint f.t ++ (putVarint f.st ++ encAll (encD fl f) (nextD f) none (f :: rest)))
      cases hE : putVarint (toI64 f.ref) ++ (putVarint f.t ++ (putVarint f.st ++ encAll (encD fl f) (nextD f) none (f :: rest))) with
      | nil => exact this hE
      | cons a b => rw [hE] at hc; simp at hc)]
    rw [decVarint_put (toI64_I64 _)]
    simp only [bind, Except.bind]
    rw [decVarint_put hf3]
    simp only
    rw [decVarint_put hf2]
    simp only
    rw [toU64_toI64 hf1]
    have := loopFuel_encAll (stepHistV2 fl f.ref f.t f.st) (encD fl f) (nextD f) (outD f)
      (fun _ => True) (RefHistWF fl) (fun s x r _ hx => stepHistV2_enc fl f s x hx r) (fun _ _ _ _ => trivial)
      (fun s x _ _ => encD_ne_nil fl f s x) (f :: rest) none _ trivial h (Nat.le_refl _)
    rw [this]
    simp only [outAll, outD, nextD, outAll_D_some, liftErr, List.singleton_append]

end Prom.Record
