import PromModel.Promql.Selectors
/-
  Lemmas about the MemoizedSeriesIterator model (forward-only Seek / PeekPrev) and vectorSelectorSingle.
-/
namespace Prom.Selectors

/-- latest sample at or before `r` -/
def latestLE (series : Series) (r : Int) : Option Sample :=
  (series.filter (fun s => decide (s.t ≤ r))).getLast?

/-- the documented instant-selector result at reference time `r` -/
def instantSpec (series : Series) (r lb : Int) : Option Sample :=
  (latestLE series r).filter (fun s => decide (r - lb < s.t) && !s.stale)

theorem sorted_append {a b : Series} (h : Sorted (a ++ b)) :
    Sorted a ∧ Sorted b ∧ ∀ x ∈ a, ∀ y ∈ b, x.t < y.t := by
  unfold Sorted at *
  exact List.pairwise_append.mp h

theorem sorted_cons {s : Sample} {l : Series} (h : Sorted (s :: l)) :
    Sorted l ∧ ∀ y ∈ l, s.t < y.t := by
  unfold Sorted at *
  rw [List.pairwise_cons] at h
  exact ⟨h.2, h.1⟩

/-- `it.Seek(t0)` splits the remaining samples -/
theorem dropWhile_split (l : Series) (t0 : Int) :
    ∃ tk, l = tk ++ l.dropWhile (fun s => decide (s.t < t0)) ∧ (∀ x ∈ tk, x.t < t0) ∧
      (∀ h tl, l.dropWhile (fun s => decide (s.t < t0)) = h :: tl → t0 ≤ h.t) := by
  induction l with
  | nil => exact ⟨[], by simp⟩
  | cons a l ih =>
    by_cases h : a.t < t0
    · obtain ⟨tk, h1, h2, h3⟩ := ih
      refine ⟨a :: tk, ?_, ?_, ?_⟩
      · simp only [List.dropWhile_cons, h, decide_true, if_true, List.cons_append]
        rw [← h1]
      · intro x hx
        rcases List.mem_cons.mp hx with rfl | hx
        · exact h
        · exact h2 x hx
      · intro hd tl heq
        simp only [List.dropWhile_cons, h, decide_true, if_true] at heq
        exact h3 hd tl heq
    · refine ⟨[], ?_, by simp, ?_⟩
      · simp [h]
      · intro hd tl heq
        simp [h] at heq
        obtain ⟨rfl, _⟩ := heq
        omega

theorem walkM_spec (t : Int) : ∀ (l : Series) (s : Sample) (p : Option Sample) (lt : Option Int),
    Sorted (s :: l) → s.t < t →
    ∃ mid, s :: l = mid ++ (walkM t p lt (s :: l)).2.2 ∧ mid ≠ [] ∧
      (walkM t p lt (s :: l)).1 = mid.getLast? ∧ (∀ x ∈ mid, x.t < t) ∧
      (∀ h tl, (walkM t p lt (s :: l)).2.2 = h :: tl → (walkM t p lt (s :: l)).2.1 = some h.t ∧ t ≤ h.t) := by
  intro l
  induction l with
  | nil =>
    intro s p lt _ hs
    refine ⟨[s], by simp [walkM], by simp, by simp [walkM], by simpa using hs, by simp [walkM]⟩
  | cons s' r ih =>
    intro s p lt hsort hs
    by_cases h : s'.t ≥ t
    · refine ⟨[s], by simp [walkM, h], by simp, by simp [walkM, h], by simpa using hs, ?_⟩
      intro h' tl heq
      simp [walkM, h] at heq ⊢
      obtain ⟨rfl, _⟩ := heq
      omega
    · have hs' : s'.t < t := by omega
      obtain ⟨mid, h1, h2, h3, h4, h5⟩ := ih s' (some s) (some s'.t) (sorted_cons hsort).1 hs'
      have hw : walkM t p lt (s :: s' :: r) = walkM t (some s) (some s'.t) (s' :: r) := by
        simp [walkM, h]
      rw [hw]
      refine ⟨s :: mid, ?_, by simp, ?_, ?_, h5⟩
      · rw [List.cons_append, ← h1]
      · rw [h3]
        cases mid with
        | nil => exact absurd rfl h2
        | cons a b => simp [List.getLast?_cons_cons]
      · intro x hx
        rcases List.mem_cons.mp hx with rfl | hx
        · exact hs
        · exact h4 x hx


/-- The state of the memoized iterator against the series after the last reference time `r`
    (the freshly reset iterator satisfies it for every `r`). -/
def MInv (series : Series) (m : Memo) (r : Int) : Prop :=
  ∃ pre, series = pre ++ m.rest ∧ (∀ s ∈ pre, s.t < r) ∧
    (match m.prev with
     | some p => pre.getLast? = some p
     | none => ∀ s ∈ pre, s.t < r - m.delta) ∧
    (∀ h tl, m.rest = h :: tl → (m.lastTime = none ∧ pre = []) ∨ (m.lastTime = some h.t ∧ r ≤ h.t))

theorem MInv_init (series : Series) (delta r : Int) : MInv series (Memo.init series delta) r :=
  ⟨[], by simp [Memo.init], by simp, by simp [Memo.init], by simp [Memo.init]⟩

theorem seek_delta (m : Memo) (t : Int) : (m.seek t).delta = m.delta := by
  unfold Memo.seek
  simp only
  split
  · split
    · rfl
    · split <;> rfl
  · split <;> rfl

theorem getLast?_append_ne {α} (a b : List α) (hb : b ≠ []) : (a ++ b).getLast? = b.getLast? := by
  cases b with
  | nil => exact absurd rfl hb
  | cons x xs =>
    rw [List.getLast?_append]
    cases h : (x :: xs).getLast? with
    | none => simp at h
    | some y => simp

theorem seek_inv {series : Series} {m : Memo} {r r' : Int} (hs : Sorted series) (hd : 0 ≤ m.delta)
    (hinv : MInv series m r) (hr : r ≤ r') :
    MInv series (m.seek r') r' ∧ (∀ s ∈ (m.seek r').rest, r' ≤ s.t) := by
  obtain ⟨pre, hser, hpre, hprev, hlast⟩ := hinv
  unfold Memo.seek
  simp only
  split
  · -- the underlying iterator is sought
    rename_i hj
    obtain ⟨hne, hgt⟩ := hj
    obtain ⟨tk, htk, htk1, htk2⟩ := dropWhile_split m.rest (r' - m.delta)
    -- everything before the current element is older than t0
    have hpre0 : ∀ s ∈ pre, s.t < r' - m.delta := by
      cases hrest : m.rest with
      | nil => exact absurd hrest hne
      | cons h tl =>
        rcases hlast h tl hrest with ⟨_, hp⟩ | ⟨hl, hle⟩
        · subst hp; simp
        · intro s hs'
          rw [hl] at hgt
          simp [gtLast] at hgt
          have := hpre s hs'
          omega
    split
    · rename_i hdw
      rw [hdw] at htk
      simp only [List.append_nil] at htk
      refine ⟨⟨pre ++ tk, ?_, ?_, ?_, ?_⟩, by simp⟩
      · simp [hser, htk]
      · intro s hs'
        rcases List.mem_append.mp hs' with h | h
        · have := hpre0 s h; omega
        · have := htk1 s h; omega
      · intro s hs'
        rcases List.mem_append.mp hs' with h | h
        · exact hpre0 s h
        · exact htk1 s h
      · simp
    · rename_i s0 r0 hdw
      rw [hdw] at htk
      have ht0 := htk2 s0 r0 hdw
      have hsort0 : Sorted (s0 :: r0) := by
        rw [hser, htk] at hs
        exact (sorted_append (sorted_append hs).2.1).2.1
      split
      · rename_i hge
        refine ⟨⟨pre ++ tk, ?_, ?_, ?_, ?_⟩, ?_⟩
        · simp [hser, htk]
        · intro s hs'
          rcases List.mem_append.mp hs' with h | h
          · have := hpre0 s h; omega
          · have := htk1 s h; omega
        · intro s hs'
          rcases List.mem_append.mp hs' with h | h
          · exact hpre0 s h
          · exact htk1 s h
        · intro h tl heq
          simp at heq
          obtain ⟨rfl, _⟩ := heq
          exact Or.inr ⟨rfl, by omega⟩
        · intro s hs'
          simp at hs'
          rcases hs' with rfl | h
          · omega
          · have := (sorted_cons hsort0).2 s h; omega
      · rename_i hlt
        have hlt' : s0.t < r' := by omega
        obtain ⟨mid, h1, h2, h3, h4, h5⟩ := walkM_spec r' r0 s0 none (some s0.t) hsort0 hlt'
        generalize walkM r' none (some s0.t) (s0 :: r0) = w at h1 h3 h5 ⊢
        refine ⟨⟨pre ++ tk ++ mid, ?_, ?_, ?_, ?_⟩, ?_⟩
        · simp only [hser, htk]
          rw [h1]; simp
        · intro s hs'
          rcases List.mem_append.mp hs' with h | h
          · rcases List.mem_append.mp h with h | h
            · have := hpre0 s h; omega
            · have := htk1 s h; omega
          · exact h4 s h
        · simp only [h3]
          cases hm : mid.getLast? with
          | none => simp [List.getLast?_eq_none_iff] at hm; exact absurd hm h2
          | some p => simp only; rw [getLast?_append_ne _ _ h2]; exact hm
        · intro h tl heq
          exact Or.inr (h5 h tl heq)
        · intro s hs'
          simp only at hs'
          cases hw : w.2.2 with
          | nil => rw [hw] at hs'; simp at hs'
          | cons h tl =>
            rw [hw] at hs'
            have hh := (h5 h tl hw).2
            rw [hw] at h1
            have hsort1 : Sorted (h :: tl) := by
              rw [h1] at hsort0; exact (sorted_append hsort0).2.1
            rcases List.mem_cons.mp hs' with rfl | hx
            · exact hh
            · have := (sorted_cons hsort1).2 s hx; omega
  · rename_i hnj
    split
    · -- already at or past r'
      rename_i hge
      cases hlt : m.lastTime with
      | none => rw [hlt] at hge; simp [geLast] at hge
      | some l =>
        rw [hlt] at hge
        simp [geLast] at hge
        refine ⟨⟨pre, hser, ?_, ?_, ?_⟩, ?_⟩
        · intro s hs'; have := hpre s hs'; omega
        · cases hp : m.prev with
          | none => rw [hp] at hprev; simp only at hprev ⊢; intro s hs'; have := hprev s hs'; omega
          | some p => rw [hp] at hprev; simpa using hprev
        · intro h tl heq
          rcases hlast h tl heq with ⟨hn, _⟩ | ⟨hl, _⟩
          · rw [hn] at hlt; cases hlt
          · rw [hl] at hlt; cases hlt; exact Or.inr ⟨hl, hge⟩
        · intro s hs'
          cases hrest : m.rest with
          | nil => rw [hrest] at hs'; simp at hs'
          | cons h tl =>
            rw [hrest] at hs'
            have hsort1 : Sorted (h :: tl) := by
              rw [hser, hrest] at hs; exact (sorted_append hs).2.1
            have hht : r' ≤ h.t := by
              rcases hlast h tl hrest with ⟨hn, _⟩ | ⟨hl, _⟩
              · rw [hn] at hlt; cases hlt
              · rw [hl] at hlt; cases hlt; exact hge
            rcases List.mem_cons.mp hs' with rfl | hx
            · exact hht
            · have := (sorted_cons hsort1).2 s hx; omega
    · rename_i hnge
      cases hrest : m.rest with
      | nil =>
        simp only [walkM]
        refine ⟨⟨pre, by simp [hser, hrest], ?_, ?_, by simp⟩, by simp⟩
        · intro s hs'; have := hpre s hs'; omega
        · cases hp : m.prev with
          | none => rw [hp] at hprev; simp only at hprev ⊢; intro s hs'; have := hprev s hs'; omega
          | some p => rw [hp] at hprev; simpa using hprev
      | cons h tl =>
        have hsort1 : Sorted (h :: tl) := by
          rw [hser, hrest] at hs; exact (sorted_append hs).2.1
        have hlt' : h.t < r' := by
          rcases hlast h tl hrest with ⟨hn, _⟩ | ⟨hl, _⟩
          · exfalso; apply hnj; rw [hrest, hn]; simp [gtLast]
          · rw [hl] at hnge; simp [geLast] at hnge; exact hnge
        obtain ⟨mid, h1, h2, h3, h4, h5⟩ := walkM_spec r' tl h m.prev m.lastTime hsort1 hlt'
        generalize walkM r' m.prev m.lastTime (h :: tl) = w at h1 h3 h5 ⊢
        refine ⟨⟨pre ++ mid, ?_, ?_, ?_, ?_⟩, ?_⟩
        · simp only [hser, hrest]; rw [h1]; simp
        · intro s hs'
          rcases List.mem_append.mp hs' with hx | hx
          · have := hpre s hx; omega
          · exact h4 s hx
        · simp only [h3]
          cases hm : mid.getLast? with
          | none => simp [List.getLast?_eq_none_iff] at hm; exact absurd hm h2
          | some p => simp only; rw [getLast?_append_ne _ _ h2]; exact hm
        · intro h' tl' heq
          exact Or.inr (h5 h' tl' heq)
        · intro s hs'
          simp only at hs'
          cases hw : w.2.2 with
          | nil => rw [hw] at hs'; simp at hs'
          | cons h' tl' =>
            rw [hw] at hs'
            have hh := (h5 h' tl' hw).2
            rw [hw] at h1
            have hsort2 : Sorted (h' :: tl') := by
              rw [h1] at hsort1; exact (sorted_append hsort1).2.1
            rcases List.mem_cons.mp hs' with rfl | hx
            · exact hh
            · have := (sorted_cons hsort2).2 s hx; omega


theorem filter_eq_nil_of {l : Series} {p : Sample → Bool} (h : ∀ x ∈ l, p x = false) : l.filter p = [] := by
  rw [List.filter_eq_nil_iff]; intro x hx; simp [h x hx]

theorem filter_eq_self_of {l : Series} {p : Sample → Bool} (h : ∀ x ∈ l, p x = true) : l.filter p = l := by
  rw [List.filter_eq_self]; exact h

/-- what `vectorSelectorSingle` computes from a state satisfying the invariant -/
theorem vs_result {series : Series} {m' : Memo} {r lb : Int} (hs : Sorted series) (hlb : 0 < lb)
    (hd : lb - 1 ≤ m'.delta) (hinv : MInv series m' r) (hrest : ∀ s ∈ m'.rest, r ≤ s.t) :
    (let peek : Option Sample :=
        match m'.prev with
        | some p => if p.t ≤ r - lb then none else some p
        | none => none
     let res : Option Sample :=
        match m'.rest with
        | s :: _ => if s.t > r then peek else some s
        | [] => peek
     res.filter (fun s => !s.stale)) = instantSpec series r lb := by
  obtain ⟨pre, hser, hpre, hprev, _⟩ := hinv
  have hpreF : pre.filter (fun s => decide (s.t ≤ r)) = pre :=
    filter_eq_self_of (fun x hx => by have := hpre x hx; simp; omega)
  -- the peek branch equals the spec on `pre`
  have hpeek : ∀ (rest' : Series), (∀ x ∈ rest', r < x.t) → series = pre ++ rest' →
      (match m'.prev with
        | some p => if p.t ≤ r - lb then none else some p
        | none => (none : Option Sample)).filter (fun s => !s.stale) = instantSpec series r lb := by
    intro rest' hgt hser'
    have hf : rest'.filter (fun s => decide (s.t ≤ r)) = [] :=
      filter_eq_nil_of (fun x hx => by have := hgt x hx; simp; omega)
    unfold instantSpec latestLE
    rw [hser', List.filter_append, hpreF, hf, List.append_nil]
    cases hp : m'.prev with
    | some p =>
      rw [hp] at hprev
      simp only at hprev
      rw [hprev]
      by_cases hc : p.t ≤ r - lb
      · have : ¬ (r - lb < p.t) := by omega
        simp [hc, this, Option.filter]
      · have : r - lb < p.t := by omega
        simp [hc, this, Option.filter]
    | none =>
      rw [hp] at hprev
      simp only at hprev
      cases hl : pre.getLast? with
      | none => simp [Option.filter]
      | some q =>
        have hq : q ∈ pre := List.mem_of_getLast? hl
        have := hprev q hq
        have : ¬ (r - lb < q.t) := by omega
        simp [this, Option.filter]
  cases hr : m'.rest with
  | nil =>
    simp only
    exact hpeek [] (by simp) (by rw [hser, hr])
  | cons h tl =>
    simp only
    have hsort1 : Sorted (h :: tl) := by rw [hser, hr] at hs; exact (sorted_append hs).2.1
    have hh : r ≤ h.t := hrest h (by rw [hr]; simp)
    by_cases hgt : h.t > r
    · simp only [hgt, if_true]
      refine hpeek (h :: tl) ?_ (by rw [hser, hr])
      intro x hx
      rcases List.mem_cons.mp hx with rfl | hx
      · exact hgt
      · have := (sorted_cons hsort1).2 x hx; omega
    · have heq : h.t = r := by omega
      simp only [hgt, if_false]
      unfold instantSpec latestLE
      have hf : tl.filter (fun s => decide (s.t ≤ r)) = [] :=
        filter_eq_nil_of (fun x hx => by have := (sorted_cons hsort1).2 x hx; simp; omega)
      rw [hser, hr, List.filter_append, hpreF, List.filter_cons]
      simp only [heq, Int.le_refl, decide_true, if_true, hf]
      rw [getLast?_append_ne _ _ (by simp)]
      have hlt2 : r - lb < r := by omega
      simp [Option.filter, heq, hlt2]

theorem vsSingle_spec {series : Series} {m : Memo} {r r' lb : Int} (hs : Sorted series) (hlb : 0 < lb)
    (hd : lb - 1 ≤ m.delta) (hinv : MInv series m r) (hr : r ≤ r') :
    (vsSingle lb m r').2 = instantSpec series r' lb ∧ MInv series (vsSingle lb m r').1 r' ∧
      (vsSingle lb m r').1.delta = m.delta := by
  have hd0 : 0 ≤ m.delta := by omega
  obtain ⟨hinv', hrest'⟩ := seek_inv hs hd0 hinv hr
  refine ⟨?_, hinv', seek_delta m r'⟩
  have := vs_result (lb := lb) hs hlb (by rw [seek_delta]; exact hd) hinv' hrest'
  exact this

/-- forward-only stepping gives, at every step, the from-scratch answer -/
theorem evalSteps_spec {series : Series} {lb : Int} (hs : Sorted series) (hlb : 0 < lb) :
    ∀ (refs : List Int) (m : Memo) (r : Int), lb - 1 ≤ m.delta → MInv series m r →
      (∀ x ∈ refs, r ≤ x) → refs.Pairwise (· ≤ ·) →
      evalSteps lb m refs = refs.map (fun x => instantSpec series x lb) := by
  intro refs
  induction refs with
  | nil => intros; rfl
  | cons a rest ih =>
    intro m r hd hinv hge hpw
    obtain ⟨h1, h2, h3⟩ := vsSingle_spec (r' := a) hs hlb hd hinv (hge a (by simp))
    simp only [evalSteps, List.map_cons]
    rw [h1]
    congr 1
    rw [List.pairwise_cons] at hpw
    exact ih _ a (by rw [h3]; exact hd) h2 hpw.1 hpw.2


theorem sorted_inj {l : Series} (hs : Sorted l) {a b : Sample} (ha : a ∈ l) (hb : b ∈ l) (h : a.t = b.t) : a = b := by
  induction l with
  | nil => simp at ha
  | cons x xs ih =>
    have hx := sorted_cons hs
    rcases List.mem_cons.mp ha with rfl | ha' <;> rcases List.mem_cons.mp hb with rfl | hb'
    · rfl
    · have := hx.2 b hb'; omega
    · have := hx.2 a ha'; omega
    · exact ih hx.1 ha' hb'

theorem sorted_filter {l : Series} (hs : Sorted l) (p : Sample → Bool) : Sorted (l.filter p) := by
  unfold Sorted at *
  exact hs.sublist List.filter_sublist

theorem sorted_last_max {l : Series} (hs : Sorted l) {s : Sample} (h : l.getLast? = some s) :
    ∀ x ∈ l, x.t ≤ s.t := by
  intro x hx
  obtain ⟨ini, rfl⟩ : ∃ ini, l = ini ++ [s] := by
    rcases List.eq_nil_or_concat l with rfl | ⟨ini, a, rfl⟩
    · simp at h
    · simp at h; subst h; exact ⟨ini, by simp⟩
  rcases List.mem_append.mp hx with hx | hx
  · have := (sorted_append hs).2.2 x hx s (by simp); omega
  · simp at hx; subst hx; omega

theorem latestLE_iff {series : Series} (hs : Sorted series) (r : Int) (s : Sample) :
    latestLE series r = some s ↔ s ∈ series ∧ s.t ≤ r ∧ ∀ x ∈ series, x.t ≤ r → x.t ≤ s.t := by
  unfold latestLE
  constructor
  · intro h
    have hmem := List.mem_of_getLast? h
    rw [List.mem_filter] at hmem
    refine ⟨hmem.1, by simpa using hmem.2, ?_⟩
    intro x hx hxr
    exact sorted_last_max (sorted_filter hs _) h x (by rw [List.mem_filter]; exact ⟨hx, by simpa using hxr⟩)
  · intro ⟨hmem, hle, hmax⟩
    have hin : s ∈ series.filter (fun s => decide (s.t ≤ r)) := by
      rw [List.mem_filter]; exact ⟨hmem, by simpa using hle⟩
    cases hl : (series.filter (fun s => decide (s.t ≤ r))).getLast? with
    | none => rw [List.getLast?_eq_none_iff] at hl; rw [hl] at hin; simp at hin
    | some s' =>
      have hmem' := List.mem_of_getLast? hl
      rw [List.mem_filter] at hmem'
      have h1 := sorted_last_max (sorted_filter hs _) hl s hin
      have h2 := hmax s' hmem'.1 (by simpa using hmem'.2)
      rw [sorted_inj hs hmem'.1 hmem (by omega)]

/-- `instantSpec` is the documented statement: the latest sample at or before `r`, provided it lies in
    `(r - lb, r]` and is not a staleness marker. -/
theorem instantSpec_iff {series : Series} (hs : Sorted series) (r lb : Int) (s : Sample) :
    instantSpec series r lb = some s ↔
      s ∈ series ∧ r - lb < s.t ∧ s.t ≤ r ∧ s.stale = false ∧ ∀ x ∈ series, x.t ≤ r → x.t ≤ s.t := by
  unfold instantSpec
  cases hl : latestLE series r with
  | none =>
    simp only [Option.filter_none]
    constructor
    · intro h; cases h
    · intro ⟨h1, _, h3, _, h5⟩
      have := (latestLE_iff hs r s).mpr ⟨h1, h3, h5⟩
      rw [hl] at this; cases this
  | some s' =>
    have hs' := (latestLE_iff hs r s').mp hl
    constructor
    · intro h
      simp only [Option.filter] at h
      split at h
      · rename_i hc
        cases h
        simp at hc
        exact ⟨hs'.1, hc.1, hs'.2.1, hc.2, hs'.2.2⟩
      · cases h
    · intro ⟨h1, h2, h3, h4, h5⟩
      have := (latestLE_iff hs r s).mpr ⟨h1, h3, h5⟩
      rw [hl] at this
      cases this
      simp [Option.filter, h2, h4]

end Prom.Selectors
