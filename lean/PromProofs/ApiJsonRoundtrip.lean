import PromProofs.ApiJson
import PromModel.Suites.ApiJsonSuite
/-
  C51 helper lemmas, part 2: prefix-parser composition (literals, quoted floats, separated lists),
  buckets, histograms, labels, points, samples, vectors.
-/
namespace Prom.Api.Json

theorem pLit_append (lit rest : Bytes) : pLit lit (lit ++ rest) = some ((), rest) := by
  unfold pLit
  have : lit.isPrefixOf (lit ++ rest) = true := by
    rw [List.isPrefixOf_iff_prefix]; exact List.prefix_append _ _
  simp [this]

theorem spanToQuote_append (txt rest : Bytes) (h : (34 : UInt8) ∉ txt) :
    spanToQuote (txt ++ 34 :: rest) = some (txt, rest) := by
  induction txt with
  | nil => simp [spanToQuote]
  | cons b t ih =>
    have hb : b ≠ 34 := by intro e; apply h; simp [e]
    have ht : (34 : UInt8) ∉ t := by intro e; apply h; simp [e]
    simp [spanToQuote, hb, ih ht]

/-- The trusted `strconv` fact for one float: the text written for it contains no quote and parses
    back to the same float (any NaN to NaN). -/
def FloatTextOK (pf : Bytes → Option FVal) (x : FTok) : Prop :=
  pf (floatText x) = some (origF x) ∧ (34 : UInt8) ∉ floatText x

theorem pFloat_marshalFloat (pf : Bytes → Option FVal) (x : FTok) (rest : Bytes) (h : FloatTextOK pf x) :
    pFloat pf (marshalFloat x ++ rest) = some (origF x, rest) := by
  unfold pFloat marshalFloat
  simp only [List.cons_append, List.nil_append, List.append_assoc]
  rw [spanToQuote_append _ _ h.2]
  simp [h.1]

theorem length_sepBy_ge {β : Type} (enc : β → Bytes) (sep : Bytes) (xs : List β) (h : ∀ x ∈ xs, enc x ≠ []) :
    xs.length ≤ (sepBy sep (xs.map enc)).length := by
  induction xs with
  | nil => simp
  | cons x xs ih =>
    have hx : 1 ≤ (enc x).length := by
      have := h x (by simp); cases he : enc x with
      | nil => exact absurd he this
      | cons _ _ => simp
    cases xs with
    | nil => simp [sepBy]; omega
    | cons y ys =>
      have := ih (fun z hz => h z (by simp at hz ⊢; right; exact hz))
      simp only [List.map_cons, sepBy, List.length_append, List.length_cons] at this ⊢
      omega

theorem pSepBy_sepBy {α β : Type} (p : P α) (enc : β → Bytes) (dec : β → α) (sep close : UInt8)
    (hsc : sep ≠ close) (xs : List β) (hne : xs ≠ [])
    (hp : ∀ x ∈ xs, ∀ rest, p (enc x ++ rest) = some (dec x, rest)) (rest : Bytes) :
    ∀ fuel, xs.length ≤ fuel →
      pSepBy p sep close fuel (sepBy [sep] (xs.map enc) ++ close :: rest) = some (xs.map dec, rest) := by
  induction xs with
  | nil => exact absurd rfl hne
  | cons x xs ih =>
    intro fuel hf
    cases fuel with
    | zero => simp at hf
    | succ fuel =>
      cases xs with
      | nil =>
        simp only [List.map_cons, List.map_nil, sepBy, pSepBy]
        rw [hp x (by simp)]
        simp
      | cons y ys =>
        have ih' := ih (by simp) (fun z hz r => hp z (by simp at hz ⊢; right; exact hz) r) fuel (by simp at hf ⊢; omega)
        simp only [List.map_cons, sepBy, pSepBy, List.append_assoc, List.cons_append, List.nil_append] at ih' ⊢
        rw [hp x (by simp)]
        simp only [hsc, if_false, if_true]
        rw [ih']


def origBucket (b : Bucket) : DBucket := ⟨origF b.lower, origF b.upper, b.li, b.ui, origF b.count⟩

def BucketOK (pf : Bytes → Option FVal) (b : Bucket) : Prop :=
  FloatTextOK pf b.lower ∧ FloatTextOK pf b.upper ∧ FloatTextOK pf b.count

theorem boundaries_bij (li ui : Bool) : parseBoundaries (boundariesCode li ui) = some (li, ui) := by
  cases li <;> cases ui <;> rfl

theorem pBucket_marshalBucket (pf : Bytes → Option FVal) (b : Bucket) (rest : Bytes) (h : BucketOK pf b) :
    pBucket pf (marshalBucket b ++ rest) = some (origBucket b, rest) := by
  obtain ⟨h1, h2, h3⟩ := h
  have code : ∀ r, spanDigits (natDec (boundariesCode b.li b.ui) ++ 44 :: r) = ([boundariesCode b.li b.ui], 44 :: r) := by
    intro r
    have := spanDigits_map [boundariesCode b.li b.ui] (44 :: r)
      (by intro d hd; simp at hd; subst hd; cases b.li <;> cases b.ui <;> decide) (by rfl)
    have e : natDec (boundariesCode b.li b.ui) = [boundariesCode b.li b.ui].map digitByte := by
      cases b.li <;> cases b.ui <;> rfl
    rw [e]; exact this
  unfold pBucket marshalBucket
  simp only [List.append_assoc, List.cons_append, List.nil_append]
  have l91 := pLit_append [91]
  have l44 := pLit_append [44]
  have l93 := pLit_append [93]
  simp only [List.cons_append, List.nil_append] at l91 l44 l93
  simp only [l91, code, (boundaries_bij b.li b.ui), l44, pFloat_marshalFloat pf _ _ h1, pFloat_marshalFloat pf _ _ h2,
    pFloat_marshalFloat pf _ _ h3, l93, Option.bind_some, origBucket, bind, pure]


def HistOK (pf : Bytes → Option FVal) (h : Hist) : Prop :=
  FloatTextOK pf h.count ∧ FloatTextOK pf h.sum ∧ ∀ b ∈ nonEmpty h.buckets, BucketOK pf b

theorem origHist_eq (h : Hist) : origHist h = ⟨origF h.count, origF h.sum, (nonEmpty h.buckets).map origBucket⟩ := rfl

theorem marshalBucket_ne_nil (b : Bucket) : marshalBucket b ≠ [] := by
  unfold marshalBucket; simp

theorem pHist_marshalHistogram (pf : Bytes → Option FVal) (h : Hist) (rest : Bytes) (hok : HistOK pf h) :
    pHist pf (marshalHistogram h ++ rest) = some (origHist h, rest) := by
  obtain ⟨h1, h2, h3⟩ := hok
  rw [origHist_eq]
  unfold pHist marshalHistogram
  simp only [List.append_assoc]
  simp only [pLit_append, pFloat_marshalFloat pf _ _ h1, pFloat_marshalFloat pf _ _ h2, Option.bind_some, bind, pure]
  cases hb : nonEmpty h.buckets with
  | nil =>
    have l125 := pLit_append [125] rest
    have hno : pLit (kw ",\"buckets\":[") ([] ++ ([125] ++ rest)) = none := by
      simp [pLit, kw]
    simp only [hno]
    simp only [List.nil_append, l125, Option.bind_some, List.map_nil]
  | cons b bs =>
    rw [hb] at h3
    simp only [List.append_assoc, pLit_append]
    have hp : ∀ x ∈ b :: bs, ∀ r, pBucket pf (marshalBucket x ++ r) = some (origBucket x, r) :=
      fun x hx r => pBucket_marshalBucket pf x r (h3 x hx)
    have hlen : (b :: bs).length ≤ (sepBy [44] ((b :: bs).map marshalBucket) ++ ([93] ++ ([125] ++ rest))).length := by
      have := length_sepBy_ge marshalBucket [44] (b :: bs) (fun x _ => marshalBucket_ne_nil x)
      simp only [List.length_append] at this ⊢; omega
    have := pSepBy_sepBy (pBucket pf) marshalBucket origBucket 44 93 (by decide) (b :: bs) (by simp) hp
      ([125] ++ rest) _ hlen
    simp only [List.cons_append, List.nil_append] at this ⊢
    rw [this]
    have l125 := pLit_append [125] rest
    simp only [List.cons_append, List.nil_append] at l125
    simp only [Option.bind_some, l125]


/-! ### labels -/

def encLabel (l : Bytes × Bytes) : Bytes := writeString l.1 ++ [58] ++ writeString l.2

theorem pLabel_encLabel (l : Bytes × Bytes) (rest : Bytes) : pLabel (encLabel l ++ rest) = some (l, rest) := by
  unfold pLabel encLabel
  have l58 := pLit_append [58]
  simp only [List.cons_append, List.nil_append] at l58
  simp only [List.append_assoc, List.cons_append, List.nil_append, pString_writeString, l58, Option.bind_some, bind, pure]

theorem encLabel_ne_nil (l : Bytes × Bytes) : encLabel l ≠ [] := by
  unfold encLabel writeString; simp

theorem pLabels_marshalLabels (ls : Labels) (rest : Bytes) :
    pLabels (marshalLabels ls ++ rest) = some (ls, rest) := by
  have em : marshalLabels ls = [123] ++ sepBy [44] (ls.map encLabel) ++ [125] := rfl
  rw [em]
  unfold pLabels
  have l123 := pLit_append [123]
  simp only [List.cons_append, List.nil_append] at l123
  simp only [List.append_assoc, List.cons_append, List.nil_append, l123, Option.bind_some, bind, pure]
  cases ls with
  | nil => simp [sepBy]
  | cons l ls =>
    have hhead : ∃ tl, sepBy [44] ((l :: ls).map encLabel) ++ 125 :: rest = 34 :: tl := by
      cases ls with
      | nil => simp [sepBy, writeString, encLabel]
      | cons _ _ => simp [sepBy, writeString, encLabel]
    obtain ⟨tl, htl⟩ := hhead
    have hp : ∀ x ∈ l :: ls, ∀ r, pLabel (encLabel x ++ r) = some (id x, r) := fun x _ r => pLabel_encLabel x r
    have hlen : (l :: ls).length ≤ (sepBy [44] ((l :: ls).map encLabel) ++ 125 :: rest).length := by
      have := length_sepBy_ge encLabel [44] (l :: ls) (fun x _ => encLabel_ne_nil x)
      simp only [List.length_append] at this ⊢; omega
    have := pSepBy_sepBy pLabel encLabel id 44 125 (by decide) (l :: ls) (by simp) hp rest _ hlen
    rw [htl] at this ⊢
    simp only [List.map_id, List.length_cons] at this
    simp only [List.length_cons]
    exact this

def TsOK (t : Int) : Prop := MinI64 < t ∧ t ≤ MaxI64

def ValOK (pf : Bytes → Option FVal) : Val → Prop
  | .f x => FloatTextOK pf x
  | .h x => HistOK pf x

def isHist : Val → Bool
  | .f _ => false
  | .h _ => true

theorem pPoint_marshalPoint (pf : Bytes → Option FVal) (t : Int) (v : Val) (rest : Bytes)
    (ht : TsOK t) (hv : ValOK pf v) :
    pPoint pf (isHist v) (marshalPoint t v ++ rest) = some ((.exact t, origVal v), rest) := by
  unfold pPoint marshalPoint
  have l91 := pLit_append [91]
  have l44 := pLit_append [44]
  have l93 := pLit_append [93]
  simp only [List.cons_append, List.nil_append] at l91 l44 l93
  simp only [List.append_assoc, List.cons_append, List.nil_append, l91, Option.bind_some, bind, pure]
  rw [pTs_marshalTimestamp t ht.1 ht.2 _ (by rfl)]
  simp only [Option.bind_some, l44]
  cases v with
  | f x =>
    simp only [isHist, ValOK] at hv ⊢
    simp [pFloat_marshalFloat pf x _ hv, l93, origVal]
  | h x =>
    simp only [isHist, ValOK] at hv ⊢
    simp [pHist_marshalHistogram pf x _ hv, l93, origVal]

def origSample (s : Sample) : DSample := ⟨s.metric, .exact s.t, origVal s.v⟩

def SampleOK (pf : Bytes → Option FVal) (s : Sample) : Prop := TsOK s.t ∧ ValOK pf s.v

theorem pSample_marshalSample (pf : Bytes → Option FVal) (s : Sample) (rest : Bytes) (h : SampleOK pf s) :
    pSample pf (marshalSample s ++ rest) = some (origSample s, rest) := by
  unfold pSample marshalSample
  have l44 := pLit_append [44]
  have l125 := pLit_append [125]
  simp only [List.cons_append, List.nil_append] at l44 l125
  simp only [List.append_assoc, List.cons_append, List.nil_append, pLit_append, pLabels_marshalLabels, l44,
    Option.bind_some, bind, pure]
  have hp := pPoint_marshalPoint pf s.t s.v (125 :: rest) h.1 h.2
  cases hv : s.v with
  | f x =>
    rw [hv] at hp
    simp only [isHist] at hp
    simp only [pLit_append, hp, Option.bind_some, l125, origSample, hv]
  | h x =>
    rw [hv] at hp
    simp only [isHist] at hp
    have hno : ∀ r, pLit (kw "\"value\":") (kw "\"histogram\":" ++ r) = none := by
      intro r; simp [pLit, kw]
    simp only [hno, pLit_append, hp, Option.bind_some, l125, origSample, hv]

theorem marshalSample_ne_nil (s : Sample) : marshalSample s ≠ [] := by
  unfold marshalSample; simp [kw]

theorem pArray_sepBy {α β : Type} (p : P α) (enc : β → Bytes) (dec : β → α) (xs : List β)
    (hne : ∀ x ∈ xs, ∃ b tl, enc x = b :: tl ∧ b ≠ 93)
    (hp : ∀ x ∈ xs, ∀ rest, p (enc x ++ rest) = some (dec x, rest)) (rest : Bytes) :
    pArray p ([91] ++ sepBy [44] (xs.map enc) ++ [93] ++ rest) = some (xs.map dec, rest) := by
  unfold pArray
  have l91 := pLit_append [91]
  simp only [List.cons_append, List.nil_append] at l91
  simp only [List.append_assoc, List.cons_append, List.nil_append, l91, Option.bind_some, bind, pure]
  cases xs with
  | nil => simp [sepBy]
  | cons x xs =>
    obtain ⟨b, tl, hb, hb93⟩ := hne x (by simp)
    have hhead : ∃ tl', sepBy [44] ((x :: xs).map enc) ++ 93 :: rest = b :: tl' := by
      cases xs with
      | nil => simp [sepBy, hb]
      | cons _ _ => simp [sepBy, hb]
    obtain ⟨tl', htl⟩ := hhead
    have hlen : (x :: xs).length ≤ (sepBy [44] ((x :: xs).map enc) ++ 93 :: rest).length := by
      have := length_sepBy_ge enc [44] (x :: xs) (fun y hy => by
        obtain ⟨b, tl, hb, _⟩ := hne y hy; rw [hb]; simp)
      simp only [List.length_append] at this ⊢; omega
    have := pSepBy_sepBy p enc dec 44 93 (by decide) (x :: xs) (by simp) hp rest _ hlen
    rw [htl] at this ⊢
    split
    · rename_i heq; simp at heq; exact absurd heq.1 hb93
    · exact this

theorem pVector_marshalVector (pf : Bytes → Option FVal) (v : List Sample) (rest : Bytes)
    (h : ∀ s ∈ v, SampleOK pf s) :
    pVector pf (marshalVector v ++ rest) = some (v.map origSample, rest) := by
  unfold pVector marshalVector
  exact pArray_sepBy (pSample pf) marshalSample origSample v
    (fun s _ => ⟨123, _, by unfold marshalSample; simp [kw]; rfl, by decide⟩)
    (fun s hs r => pSample_marshalSample pf s r (h s hs)) rest

theorem pEnvelope_envelope {α : Type} (rt : String) (p : P α) (body : Bytes) (a : α)
    (hp : ∀ rest, p (body ++ rest) = some (a, rest)) :
    pEnvelope rt p (envelope rt body) = some a := by
  have e : envelope rt body =
      (kw "{\"status\":\"success\",\"data\":{\"resultType\":\"" ++ kw rt ++ kw "\",\"result\":") ++ (body ++ kw "}}") := by
    simp [envelope]
  rw [e]
  unfold pEnvelope
  have := pLit_append (kw "}}") []
  simp only [List.append_nil] at this
  simp only [pLit_append, Option.bind_some, bind, pure, hp, this]
  simp

end Prom.Api.Json
