import PromModel.Discovery.Manager
/-
  Helper lemmas for C47 (discovery manager): source maps, `allGroups`, `ApplyConfig` locality, registration.
-/
namespace Prom.Discovery

/-! ### source maps -/

theorem smGet_nil (s : Src) : smGet [] s = none := rfl

theorem smGet_cons (k : Src) (g : Group) (r : SrcMap) (s : Src) :
    smGet ((k, g) :: r) s = if k = s then some g else smGet r s := rfl

theorem smGet_smDel (m : SrcMap) (a s : Src) :
    smGet (smDel m a) s = if s = a then none else smGet m s := by
  induction m with
  | nil => simp [smDel, smGet_nil]
  | cons e r ih =>
    obtain ⟨k, g⟩ := e
    unfold smDel at ih ⊢
    by_cases hk : k = a
    · subst hk
      simp only [List.filter, ne_eq, not_true_eq_false, decide_false]
      rw [ih, smGet_cons]
      by_cases hs : s = k
      · simp [hs]
      · have : ¬ k = s := fun h => hs h.symm
        simp [hs, this]
    · simp only [List.filter, ne_eq, hk, not_false_eq_true, decide_true]
      rw [smGet_cons, smGet_cons]
      by_cases hks : k = s
      · subst hks; simp [hk]
      · simp only [hks, if_false]; exact ih

theorem smGet_smSet (m : SrcMap) (g : Group) (s : Src) :
    smGet (smSet m g) s = if s = g.src then some g else smGet m s := by
  unfold smSet
  rw [smGet_cons]
  by_cases h : g.src = s
  · simp [h]
  · have h' : ¬ s = g.src := fun e => h e.symm
    simp only [h, h', if_false]
    rw [smGet_smDel]; simp [h']

/-- What `updateGroup` leaves under a source: the latest group sent for it, unless that one is empty. -/
def latestNonEmpty (u : Upd) (s : Src) (dflt : Option Group) : Option Group :=
  match latest u s with
  | some g => if g.n > 0 then some g else none
  | none => dflt

theorem smGet_applyUpd (m : SrcMap) (u : Upd) (s : Src) :
    smGet (applyUpd m u) s = latestNonEmpty u s (smGet m s) := by
  induction u generalizing m with
  | nil => simp [applyUpd, latestNonEmpty, latest]
  | cons og r ih =>
    have e : applyUpd m (og :: r) = applyUpd (applyGroup m og) r := rfl
    rw [e, ih]
    unfold latestNonEmpty
    simp only [latest]
    cases hl : latest r s with
    | some g => simp
    | none =>
      simp only
      cases og with
      | none => simp [applyGroup]
      | some g =>
        by_cases hs : g.src = s
        · simp only [hs, if_true]
          unfold applyGroup
          by_cases hn : g.n > 0
          · simp only [hn, if_true]; rw [smGet_smSet]; simp [hs]
          · simp only [hn, if_false]; rw [smGet_smDel]; simp [hs]
        · have hs' : ¬ s = g.src := fun e => hs e.symm
          simp only [hs, if_false]
          unfold applyGroup
          by_cases hn : g.n > 0
          · simp only [hn, if_true]; rw [smGet_smSet]; simp [hs']
          · simp only [hn, if_false]; rw [smGet_smDel]; simp [hs']

theorem applyUpd_append (m : SrcMap) (u v : Upd) : applyUpd m (u ++ v) = applyUpd (applyUpd m u) v := by
  simp [applyUpd, List.foldl_append]

/-- Well-formed source map: every group sits under its own source, one entry per source. -/
def SmWF (m : SrcMap) : Prop := (∀ e ∈ m, e.1 = e.2.src) ∧ (m.map (·.1)).Nodup

theorem smWF_nil : SmWF [] := by simp [SmWF]

theorem smWF_smDel (m : SrcMap) (a : Src) (h : SmWF m) : SmWF (smDel m a) := by
  unfold SmWF smDel at *
  refine ⟨fun e he => h.1 e (List.mem_filter.mp he).1, ?_⟩
  have : (List.filter (fun e => decide (e.1 ≠ a)) m).map (·.1) = (m.map (·.1)).filter (fun k => decide (k ≠ a)) := by
    rw [List.filter_map]; rfl
  rw [this]; exact h.2.filter _

theorem smWF_smSet (m : SrcMap) (g : Group) (h : SmWF m) : SmWF (smSet m g) := by
  have hd := smWF_smDel m g.src h
  unfold smSet SmWF
  refine ⟨?_, ?_⟩
  · intro e he
    rcases List.mem_cons.mp he with rfl | he
    · rfl
    · exact hd.1 e he
  · simp only [List.map_cons, List.nodup_cons]
    refine ⟨?_, hd.2⟩
    intro hmem
    obtain ⟨e, he, hk⟩ := List.mem_map.mp hmem
    unfold smDel at he
    have := (List.mem_filter.mp he).2
    simp at this
    exact this hk

theorem smWF_applyUpd (m : SrcMap) (u : Upd) (h : SmWF m) : SmWF (applyUpd m u) := by
  induction u generalizing m with
  | nil => exact h
  | cons og r ih =>
    have e : applyUpd m (og :: r) = applyUpd (applyGroup m og) r := rfl
    rw [e]; apply ih
    cases og with
    | none => exact h
    | some g =>
      unfold applyGroup
      by_cases hn : g.n > 0
      · simp only [hn, if_true]; exact smWF_smSet m g h
      · simp only [hn, if_false]; exact smWF_smDel m g.src h

theorem smGet_mem (m : SrcMap) (s : Src) (g : Group) (h : smGet m s = some g) : (s, g) ∈ m := by
  induction m with
  | nil => simp [smGet] at h
  | cons e r ih =>
    obtain ⟨k, g'⟩ := e
    rw [smGet_cons] at h
    by_cases hk : k = s
    · simp [hk] at h; subst h; subst hk; exact List.mem_cons_self
    · simp only [hk, if_false] at h; exact List.mem_cons_of_mem _ (ih h)

theorem mem_values_iff (m : SrcMap) (h : SmWF m) (g : Group) :
    g ∈ m.map (·.2) ↔ smGet m g.src = some g := by
  constructor
  · intro hg
    induction m with
    | nil => simp at hg
    | cons e r ih =>
      obtain ⟨k, g'⟩ := e
      have hk : k = g'.src := h.1 (k, g') List.mem_cons_self
      have hr : SmWF r := ⟨fun e he => h.1 e (List.mem_cons_of_mem _ he), (List.nodup_cons.mp h.2).2⟩
      simp only [List.map_cons, List.mem_cons] at hg
      rw [smGet_cons]
      rcases hg with rfl | hg
      · simp [hk]
      · by_cases hks : k = g.src
        · -- then g.src occurs in r too: contradiction with Nodup
          exfalso
          obtain ⟨e, he, heq⟩ := List.mem_map.mp hg
          have : e.1 = e.2.src := hr.1 e he
          have hin : k ∈ r.map (·.1) := List.mem_map.mpr ⟨e, he, by rw [this, heq, hks]⟩
          exact (List.nodup_cons.mp h.2).1 hin
        · simp only [hks, if_false]; exact ih hr hg
  · intro hg
    exact List.mem_map.mpr ⟨(g.src, g), smGet_mem m g.src g hg, rfl⟩

/-! ### allGroups -/

theorem snapGet_nil (j : Job) : snapGet [] j = none := rfl

theorem snapGet_cons (e : Job × List Group) (r : Snap) (j : Job) :
    snapGet (e :: r) j = if e.1 = j then some e.2 else snapGet r j := by
  unfold snapGet
  by_cases h : e.1 = j
  · simp [List.find?, h]
  · have hb : (e.1 == j) = false := by simp [h]
    simp [List.find?, h, hb]

theorem snapHas_eq (acc : Snap) (j : Job) : snapHas acc j = (snapGet acc j).isSome := by
  induction acc with
  | nil => rfl
  | cons e r ih =>
    rw [snapGet_cons]
    unfold snapHas at ih ⊢
    by_cases h : e.1 = j
    · simp [h]
    · simp only [List.any_cons, h, if_false]
      rw [← ih]; simp [h]

theorem snapGet_append_new (acc : Snap) (j j' : Job) (h : snapGet acc j = none) :
    snapGet (acc ++ [(j, [])]) j' = if j' = j then some [] else snapGet acc j' := by
  induction acc with
  | nil =>
    simp only [List.nil_append]; rw [snapGet_cons]
    by_cases e : j = j'
    · simp [e]
    · have : ¬ j' = j := fun x => e x.symm
      simp [e, this, snapGet_nil]
  | cons e r ih =>
    rw [snapGet_cons] at h
    by_cases he : e.1 = j
    · simp [he] at h
    · simp only [he, if_false] at h
      simp only [List.cons_append]; rw [snapGet_cons, snapGet_cons, ih h]
      by_cases hj : e.1 = j'
      · have : ¬ j' = j := fun x => he (hj.trans x)
        simp [hj, this]
      · simp [hj]

theorem snapGet_snapAppend (acc : Snap) (j j' : Job) (gs : List Group) :
    snapGet (snapAppend acc j gs) j' = if j' = j then (snapGet acc j).map (· ++ gs) else snapGet acc j' := by
  induction acc with
  | nil => simp [snapAppend, snapGet_nil]
  | cons e r ih =>
    unfold snapAppend at ih ⊢
    simp only [List.map_cons]
    by_cases he : e.1 = j
    · simp only [he, if_true]
      rw [snapGet_cons, snapGet_cons, snapGet_cons, ih]
      by_cases hj : j' = j
      · simp [hj, he]
      · have : ¬ j = j' := fun x => hj x.symm
        simp [hj, this, he]
    · simp only [he, if_false]
      rw [snapGet_cons, snapGet_cons, snapGet_cons, ih]
      by_cases hj : j' = j
      · subst hj; simp [he]
      · by_cases h2 : e.1 = j'
        · simp [h2, hj]
        · simp [h2, hj]

theorem snapGet_agJob (t : Targets) (pid : Pid) (acc : Snap) (j j' : Job) :
    snapGet (agJob t pid acc j) j' =
      if j' = j then some ((snapGet acc j).getD [] ++ (tgetD t j pid).map (·.2)) else snapGet acc j' := by
  have key : ∀ acc1 : Snap, (∀ j', snapGet acc1 j' = if j' = j then some ((snapGet acc j).getD []) else snapGet acc j') →
      snapGet (match t (j, pid) with | some m => snapAppend acc1 j (m.map (·.2)) | none => acc1) j' =
      if j' = j then some ((snapGet acc j).getD [] ++ (tgetD t j pid).map (·.2)) else snapGet acc j' := by
    intro acc1 h1
    unfold tgetD
    cases ht : t (j, pid) with
    | none =>
      simp only [Option.getD_none, List.map_nil, List.append_nil]; exact h1 j'
    | some m =>
      simp only [Option.getD_some]
      rw [snapGet_snapAppend, h1 j, h1 j']
      by_cases hj : j' = j
      · simp [hj]
      · simp [hj]
  unfold agJob
  apply key
  intro j''
  rw [snapHas_eq]
  cases hg : snapGet acc j with
  | some x =>
    simp only [Option.isSome_some, if_true, Option.getD_some]
    by_cases hj : j'' = j
    · simp [hj, hg]
    · simp [hj]
  | none =>
    simp only [Option.isSome_none, Bool.false_eq_true, if_false, Option.getD_none]
    exact snapGet_append_new acc j j'' hg

theorem snapGet_agProv (t : Targets) (pid : Pid) (subs : List Job) (hnd : subs.Nodup) (acc : Snap) (j : Job) :
    snapGet (subs.foldl (agJob t pid) acc) j =
      if j ∈ subs then some ((snapGet acc j).getD [] ++ (tgetD t j pid).map (·.2)) else snapGet acc j := by
  induction subs generalizing acc with
  | nil => simp
  | cons a r ih =>
    have ⟨ha, hr⟩ := List.nodup_cons.mp hnd
    simp only [List.foldl_cons]
    rw [ih hr, snapGet_agJob]
    by_cases hj : j = a
    · subst hj; simp [ha]
    · simp [hj]

/-- The providers serving a job. -/
def serving (ps : List Provider) (j : Job) : List Provider := ps.filter (fun p => decide (j ∈ p.subs))

theorem snapGet_foldl_agProv (t : Targets) (ps : List Provider) (hnd : ∀ p ∈ ps, p.subs.Nodup) (acc : Snap) (j : Job) :
    snapGet (ps.foldl (agProv t) acc) j =
      if serving ps j = [] then snapGet acc j
      else some ((snapGet acc j).getD [] ++ (serving ps j).flatMap (fun p => (tgetD t j p.id).map (·.2))) := by
  induction ps generalizing acc with
  | nil => simp [serving]
  | cons p r ih =>
    have hr : ∀ q ∈ r, q.subs.Nodup := fun q hq => hnd q (List.mem_cons_of_mem _ hq)
    simp only [List.foldl_cons]
    rw [ih hr]
    unfold agProv
    rw [snapGet_agProv t p.id p.subs (hnd p List.mem_cons_self)]
    unfold serving
    by_cases hp : j ∈ p.subs
    · simp only [hp, if_true, List.filter_cons, decide_true, List.flatMap_cons]
      by_cases hs : List.filter (fun p => decide (j ∈ p.subs)) r = []
      · simp [hs]
      · simp [hs, List.append_assoc]
    · simp only [hp, if_false, List.filter_cons, decide_false]
      rfl

theorem allGroups_get (s : State) (hnd : ∀ p ∈ s.providers, p.subs.Nodup) (j : Job) :
    snapGet (allGroups s) j =
      if serving s.providers j = [] then none
      else some ((serving s.providers j).flatMap (fun p => (tgetD s.targets j p.id).map (·.2))) := by
  unfold allGroups
  rw [snapGet_foldl_agProv s.targets s.providers hnd [] j]
  simp [snapGet_nil]

end Prom.Discovery
