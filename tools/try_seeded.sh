#!/bin/bash
# tools/try_seeded.sh <Cxx> <patch.diff> [tier] : apply a seeded change to a scratch worktree of /repo, run the check against it, clean up.
id=$1; patch=$2; tier=${3:-quick}
wt=/tmp/wt-seed-$id-$$
git -C /repo worktree add -q --detach $wt HEAD || exit 2
( cd $wt && git apply $patch ) || { echo "patch does not apply"; git -C /repo worktree remove --force $wt; exit 2; }
( cd $wt && go build ./... >/dev/null 2>&1 ) || echo "WARNING: build of patched tree failed"
cd /verif && VERIF_REPO=$wt ./check $id --tier $tier 2>&1 | grep -v "^KNOWN-FINDING" | cut -c1-400
rc=${PIPESTATUS[0]}
git -C /repo worktree remove --force $wt
exit $rc
