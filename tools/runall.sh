#!/bin/bash
# tools/runall.sh [tier] [jobs] : run every registered check (in parallel), print a summary table.
tier=${1:-quick}; jobs=${2:-4}
cd "$(dirname "$0")/.."
mkdir -p .build/runall
ls checks/C*.json | sed 's#checks/##; s#\.json##' | xargs -P "$jobs" -I{} bash -c \
  'start=$(date +%s); ./check {} --tier '"$tier"' > .build/runall/{}.out 2>&1; rc=$?; echo "{} rc=$rc $(( $(date +%s) - start ))s $(grep -c "^VIOLATION" .build/runall/{}.out) viol $(grep -c "^KNOWN-FINDING" .build/runall/{}.out) known"'
