#!/bin/bash
# tools/confirm_seeded.sh <prop> <outdir> <name> [checks...]
# Confirms a seeded change independently in a scratch worktree (demo passes without / fails with the change;
# the change builds; the affected packages' existing tests still pass), runs the listed checks (default: <prop>)
# against the changed tree, and stores everything under /verif/seeded/<name>/.
prop=$1; out=$2; name=$3; shift 3; checks=${*:-$prop}
export GOWORK=off GOFLAGS=-mod=mod GOPROXY=off
dst=/verif/seeded/$name; mkdir -p $dst
wt=/tmp/wt-confirm-$name
git -C /repo worktree add -q --detach $wt HEAD || exit 2
cp $out/patch.diff $dst/patch.diff
demos=$(ls $out/*_test.go $out/*.go 2>/dev/null)
cp $demos $out/demo.md $dst/ 2>/dev/null
pkgs=$(grep '^+++ b/' $out/patch.diff | sed 's#^+++ b/##' | xargs -n1 dirname | sort -u)
demopkg=$(echo "$pkgs" | head -1)
# the demo may live in another package than the patched one: demo.md / meta.json name its path
hint=$(grep -ho '[A-Za-z0-9_/.-]*/zz_[A-Za-z0-9_]*_test\.go' $out/demo.md $out/meta.json 2>/dev/null | sed 's#^.*/mut/C[0-9]*/##; s#^/*##' | grep -v '^tmp/' | xargs -r -n1 dirname | grep -v '^\.$' | sort | uniq -c | sort -rn | awk '{print $2}' | head -1)
if [ -n "$hint" ] && [ -d "$wt/$hint" ]; then demopkg=$hint; fi
for d in $demos; do cp $d $wt/$demopkg/; done
demorun=$(grep -ho 'func Test[A-Za-z0-9_]*' $demos 2>/dev/null | sed 's/func //' | paste -sd'|')
res_without=skip; res_with=skip
if [ -n "$demorun" ]; then
  ( cd $wt && go test -count=1 -run "$demorun" ./$demopkg/ > $dst/demo-without.log 2>&1 ) && res_without=pass || res_without=fail
fi
( cd $wt && git apply $out/patch.diff ) || { echo "patch does not apply"; git -C /repo worktree remove --force $wt; exit 2; }
( cd $wt && go build ./... > $dst/build.log 2>&1 ) && build=ok || build=fail
if [ -n "$demorun" ]; then
  ( cd $wt && go test -count=1 -run "$demorun" ./$demopkg/ > $dst/demo-with.log 2>&1 ) && res_with=pass || res_with=fail
fi
# existing tests of the affected packages (demo files removed first)
for d in $demos; do rm -f $wt/$demopkg/$(basename $d); done
tests=ok
for p in $pkgs; do
  ( cd $wt && go test -count=1 -timeout 40m ./$p/ > $dst/tests-$(echo $p | tr / _).log 2>&1 ) || tests="fail:$p $tests"
done
det=""
for c in $checks; do
  ( cd /verif && VERIF_REPO=$wt ./check $c > $dst/check-$c.log 2>&1 ); rc=$?
  v=$(grep -c '^VIOLATION' $dst/check-$c.log); nf=$(grep -c 'no-failing-input-found' $dst/check-$c.log)
  det="$det $c:rc=$rc,violations=$v,no-failing-input=$nf"
  mkdir -p $dst/replays; for r in $(grep -o 'replay=[^ ]*' $dst/check-$c.log | sed 's/replay=//'); do cp $r $dst/replays/ 2>/dev/null; done
done
git -C /repo worktree remove --force $wt
python3 - "$prop" "$out" "$dst" "$res_without" "$res_with" "$build" "$tests" "$det" <<'PY'
import json,sys,os
prop,out,dst,rw,rwi,build,tests,det=sys.argv[1:9]
m={}
try: m=json.load(open(os.path.join(out,"meta.json")))
except Exception: pass
m.update({"property":prop,"demo_without_change":rw,"demo_with_change":rwi,"build":build,"existing_tests":tests.strip(),
          "checks_run":det.strip(),"detected":("VIOLATION" if "violations=0" not in det or any(x.split("violations=")[1][0]!="0" for x in det.split() if "violations=" in x) else "MISSED")})
m["detected"]="yes" if any(int(x.split("violations=")[1].split(",")[0])>0 for x in det.split() if "violations=" in x) else "no"
m["confirmed_by"]="tools/confirm_seeded.sh in a scratch worktree of /repo"
json.dump(m,open(os.path.join(dst,"meta.json"),"w"),indent=1)
print(prop,os.path.basename(dst),"demo",rw,"->",rwi,"build",build,"tests",tests,"|",det, "| detected:",m["detected"])
PY
