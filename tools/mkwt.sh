#!/bin/bash
# tools/mkwt.sh Cxx : create a worktree of /verif for a build agent on branch prop/Cxx
set -e
id=$1
cd /verif
git worktree add -q -B prop/$id /tmp/vw/$id HEAD
echo /tmp/vw/$id
