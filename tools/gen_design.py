#!/usr/bin/env python3
"""Splices tools/design_section0.md (with generated tables) into DESIGN.md between the SECTION0 markers."""
import json, glob, os, re, subprocess
ROOT = os.path.dirname(os.path.dirname(os.path.abspath(__file__)))
sec = open(os.path.join(ROOT, "tools/design_section0.md")).read()
known = [json.loads(l) for l in open(os.path.join(ROOT, "known_findings.jsonl")) if l.strip() and not l.startswith("#")]
man = json.load(open(os.path.join(ROOT, "MANIFEST.json")))
claimed = sorted(c["property_id"] for c in man["checks"]); na = man.get("not_applicable", [])
s_claimed = f"{len(claimed)} of 54 properties are claimed at level `proof` ({', '.join(claimed)})."
if na: s_claimed += " Not claimed: " + "; ".join(f"{x['property_id']} ({x['reason']})" for x in na) + "."
log = subprocess.run(["git", "-C", "/repo", "log", "--format=%h %s"], capture_output=True, text=True).stdout.splitlines()
fixes = [l for l in log if l.split(" ", 1)[1].startswith("fix:")]
fixed_ids = {k.get("commit", "")[:10]: k for k in known if k.get("kind") == "fixed"}
rows = ["| commit | what | finding / property |", "|---|---|---|"]
for l in reversed(fixes):
    h, msg = l.split(" ", 1)
    k = next((v for c, v in fixed_ids.items() if c and (h.startswith(c) or c.startswith(h))), None)
    rows.append(f"| {h} | {msg[5:]} | " + (f"{k.get('id','')} {k.get('property','')}" if k else "see 0.4 text") + " |")
s_fixed = "\n".join(rows)
rows = ["| id | property | what fails (abridged; full text and the matching regex are in known_findings.jsonl) |", "|---|---|---|"]
for k in known:
    if k.get("kind") == "finding":
        rows.append(f"| {k.get('id','')} | {k['property']} | {k['what'][:260].replace('|','/')}… |")
s_known = "\n".join(rows)
rows = ["| seeded change | property | what it does | needs | demo without→with | existing tests | checks run → result |", "|---|---|---|---|---|---|---|"]
for m in sorted(glob.glob(os.path.join(ROOT, "seeded/*/meta.json"))):
    j = json.load(open(m)); name = os.path.basename(os.path.dirname(m))
    rows.append(f"| {name} | {j.get('property')} | {str(j.get('summary',''))[:220].replace('|','/')} | {str(j.get('needs',''))[:160].replace('|','/')} | {j.get('demo_without_change')}→{j.get('demo_with_change')} | {j.get('existing_tests')} | {j.get('checks_run')} → detected: {j.get('detected')} |")
s_seeded = "\n".join(rows) if len(rows) > 2 else "(none confirmed yet)"
pend = os.path.join(ROOT, "tools/design_misses_pending.md")
sec = sec.replace("@@MISSES_PENDING@@", open(pend).read().rstrip() if os.path.exists(pend) else "")
sec = sec.replace("@@CLAIMED@@", s_claimed).replace("@@FIXED@@", s_fixed).replace("@@KNOWN@@", s_known).replace("@@SEEDED@@", s_seeded)
p = os.path.join(ROOT, "DESIGN.md"); d = open(p).read()
B, E = "<!-- SECTION0-BEGIN -->", "<!-- SECTION0-END -->"
if "@@SECTION0@@" in d: d = d.replace("@@SECTION0@@", B + "\n" + E)
i, j = d.index(B), d.index(E)
d = d[:i] + B + "\n" + sec + "\n" + d[j:]
open(p, "w").write(d)
print("DESIGN.md section 0 regenerated")
