// cfgfields regenerates lean/PromModel/Gen/ConfigFields.lean from the CURRENT text of
// <repo>/config/config.go and <repo>/model/relabel/relabel.go (T1-style tie of property C49).
//
// For every struct field that takes part in YAML (un)marshalling it emits
//
//	(struct, field, yaml name, kind, omitempty, default, preset)
//
// where `default` is the value the field holds BEFORE the YAML document is decoded into it, i.e. the
// value of the field in the composite literal that the struct's own UnmarshalYAML assigns first
// (`*c = DefaultXxxConfig` / `*t = TracingConfig{...}`), or — for struct types without UnmarshalYAML
// that are embedded by value in such a literal (`QueueConfig: DefaultQueueConfig`) — the value in the
// parent's literal. "zero" when the literal does not mention the field. This is exactly the value an
// omitted key is reloaded as, so `omitempty ∧ default ≠ zero` is the condition under which an
// explicitly configured zero value is lost by print→load (finding F16).
//
// Standard library only (go/parser + go/ast); deterministic output; fails loudly on constructs it does
// not understand in a *default literal* (a broken tie), never silently.
//
// usage: go run main.go [-repo DIR] [-o FILE]      (DIR defaults to $VERIF_REPO, then /repo)
package main

import (
	"flag"
	"fmt"
	"go/ast"
	"go/parser"
	"go/token"
	"math/big"
	"os"
	"path/filepath"
	"reflect"
	"strconv"
	"strings"
)

type field struct {
	Struct, Name, Yaml, Kind string
	Omit                     bool
	Default, Preset          string
}

// kinds of named types that are not declared in the parsed files (their YAML zero test is the zero of
// the underlying Go kind, which is what yaml.v2's omitempty looks at).
var externalKinds = map[string]string{
	"model.Duration":                          "duration",
	"units.Base2Bytes":                        "int",
	"remoteapi.WriteMessageType":              "string",
	"otlptranslator.TranslationStrategyOption": "string",
	"model.LabelName":                         "string",
}

// values of constants of other packages that occur in default literals.
var externalConsts = map[string]string{
	"remoteapi.WriteV1MessageType":                  "prometheus.WriteRequest",
	"otlptranslator.UnderscoreEscapingWithSuffixes": "UnderscoreEscapingWithSuffixes",
	"model.AllowUTF8":                               "allow-utf-8",
}

var timeUnits = map[string]int64{
	"Nanosecond": 1, "Microsecond": 1e3, "Millisecond": 1e6, "Second": 1e9, "Minute": 60e9, "Hour": 3600e9,
}

type pkgInfo struct {
	structs   map[string]*ast.StructType
	order     []string
	named     map[string]string   // named non-struct types declared here -> kind
	values    map[string]ast.Expr // package-level var/const initialisers
	presets   map[string]ast.Expr // struct -> expression assigned to *recv first in UnmarshalYAML
	hasUnmars map[string]bool
}

func die(f string, a ...any) {
	fmt.Fprintf(os.Stderr, "cfgfields: "+f+"\n", a...)
	os.Exit(1)
}

func exprString(e ast.Expr) string {
	switch x := e.(type) {
	case *ast.Ident:
		return x.Name
	case *ast.SelectorExpr:
		return exprString(x.X) + "." + x.Sel.Name
	case *ast.StarExpr:
		return "*" + exprString(x.X)
	case *ast.ArrayType:
		return "[]" + exprString(x.Elt)
	case *ast.MapType:
		return "map[" + exprString(x.Key) + "]" + exprString(x.Value)
	case *ast.CallExpr:
		args := []string{}
		for _, a := range x.Args {
			args = append(args, exprString(a))
		}
		return exprString(x.Fun) + "(" + strings.Join(args, ",") + ")"
	case *ast.BasicLit:
		return x.Value
	case *ast.CompositeLit:
		return exprString(x.Type) + "{..}"
	case *ast.UnaryExpr:
		return x.Op.String() + exprString(x.X)
	case *ast.BinaryExpr:
		return exprString(x.X) + x.Op.String() + exprString(x.Y)
	case *ast.ParenExpr:
		return "(" + exprString(x.X) + ")"
	}
	return fmt.Sprintf("<%s>", reflect.TypeOf(e))
}

func load(path string) *pkgInfo {
	fset := token.NewFileSet()
	f, err := parser.ParseFile(fset, path, nil, 0)
	if err != nil {
		die("parse %s: %v", path, err)
	}
	p := &pkgInfo{structs: map[string]*ast.StructType{}, named: map[string]string{}, values: map[string]ast.Expr{},
		presets: map[string]ast.Expr{}, hasUnmars: map[string]bool{}}
	for _, d := range f.Decls {
		switch d := d.(type) {
		case *ast.GenDecl:
			for _, s := range d.Specs {
				switch s := s.(type) {
				case *ast.TypeSpec:
					if st, ok := s.Type.(*ast.StructType); ok {
						p.structs[s.Name.Name] = st
						p.order = append(p.order, s.Name.Name)
					} else if id, ok := s.Type.(*ast.Ident); ok {
						switch id.Name {
						case "string":
							p.named[s.Name.Name] = "string"
						case "int", "int64", "uint", "uint64":
							p.named[s.Name.Name] = "int"
						case "bool":
							p.named[s.Name.Name] = "bool"
						}
					}
				case *ast.ValueSpec:
					for i, n := range s.Names {
						if i < len(s.Values) {
							p.values[n.Name] = s.Values[i]
						} else if s.Type != nil && len(s.Values) == 0 {
							// `DefaultTSDBRetentionConfig TSDBRetentionConfig` : zero value
							p.values[n.Name] = &ast.CompositeLit{Type: s.Type}
						}
					}
				}
			}
		case *ast.FuncDecl:
			if d.Name.Name != "UnmarshalYAML" || d.Recv == nil || len(d.Recv.List) != 1 || d.Body == nil {
				continue
			}
			star, ok := d.Recv.List[0].Type.(*ast.StarExpr)
			if !ok {
				continue
			}
			tn, ok := star.X.(*ast.Ident)
			if !ok || len(d.Recv.List[0].Names) != 1 {
				continue
			}
			recv := d.Recv.List[0].Names[0].Name
			p.hasUnmars[tn.Name] = true
			// first top-level statement of the form `*recv = X`
			for _, st := range d.Body.List {
				as, ok := st.(*ast.AssignStmt)
				if !ok || len(as.Lhs) != 1 || len(as.Rhs) != 1 || as.Tok != token.ASSIGN {
					continue
				}
				if l, ok := as.Lhs[0].(*ast.StarExpr); ok {
					if id, ok := l.X.(*ast.Ident); ok && id.Name == recv {
						switch as.Rhs[0].(type) {
						case *ast.Ident, *ast.CompositeLit:
							p.presets[tn.Name] = as.Rhs[0]
						}
						break
					}
				}
			}
		}
	}
	return p
}

func (p *pkgInfo) kindOf(t ast.Expr) string {
	s := exprString(t)
	switch s {
	case "bool":
		return "bool"
	case "int", "int64", "uint", "uint64", "int32", "uint32":
		return "int"
	case "float64", "float32":
		return "float"
	case "string":
		return "string"
	}
	if k, ok := externalKinds[s]; ok {
		return k
	}
	if k, ok := p.named[s]; ok {
		return k
	}
	return "other"
}

// literalOf resolves an expression to the composite literal it denotes (following package-level
// identifiers), or nil.
func (p *pkgInfo) literalOf(e ast.Expr) *ast.CompositeLit {
	for i := 0; i < 8; i++ {
		switch x := e.(type) {
		case *ast.CompositeLit:
			return x
		case *ast.Ident:
			v, ok := p.values[x.Name]
			if !ok {
				return nil
			}
			e = v
		case *ast.ParenExpr:
			e = x.X
		default:
			return nil
		}
	}
	return nil
}

func (p *pkgInfo) evalInt(e ast.Expr) (*big.Int, bool) {
	switch x := e.(type) {
	case *ast.BasicLit:
		switch x.Kind {
		case token.INT:
			n, ok := new(big.Int).SetString(strings.ReplaceAll(x.Value, "_", ""), 0)
			return n, ok
		case token.FLOAT:
			fl, _, err := big.ParseFloat(x.Value, 10, 200, big.ToNearestEven)
			if err != nil || !fl.IsInt() {
				return nil, false
			}
			n, _ := fl.Int(nil)
			return n, true
		}
	case *ast.ParenExpr:
		return p.evalInt(x.X)
	case *ast.UnaryExpr:
		if x.Op == token.SUB {
			if n, ok := p.evalInt(x.X); ok {
				return n.Neg(n), true
			}
		}
	case *ast.BinaryExpr:
		a, ok1 := p.evalInt(x.X)
		b, ok2 := p.evalInt(x.Y)
		if ok1 && ok2 {
			switch x.Op {
			case token.MUL:
				return a.Mul(a, b), true
			case token.ADD:
				return a.Add(a, b), true
			case token.SUB:
				return a.Sub(a, b), true
			}
		}
	case *ast.SelectorExpr:
		if id, ok := x.X.(*ast.Ident); ok && id.Name == "time" {
			if u, ok := timeUnits[x.Sel.Name]; ok {
				return big.NewInt(u), true
			}
		}
	case *ast.CallExpr:
		// conversions: model.Duration(x), int64(x), …
		if len(x.Args) == 1 {
			switch exprString(x.Fun) {
			case "model.Duration", "time.Duration", "int", "int64", "uint", "uint64", "units.Base2Bytes":
				return p.evalInt(x.Args[0])
			}
		}
	case *ast.Ident:
		if v, ok := p.values[x.Name]; ok {
			return p.evalInt(v)
		}
	}
	return nil, false
}

func (p *pkgInfo) evalString(e ast.Expr) (string, bool) {
	switch x := e.(type) {
	case *ast.BasicLit:
		if x.Kind == token.STRING {
			s, err := strconv.Unquote(x.Value)
			return s, err == nil
		}
	case *ast.ParenExpr:
		return p.evalString(x.X)
	case *ast.Ident:
		if v, ok := p.values[x.Name]; ok {
			return p.evalString(v)
		}
	case *ast.SelectorExpr:
		if s, ok := externalConsts[exprString(x)]; ok {
			return s, true
		}
	case *ast.CallExpr:
		if len(x.Args) == 1 {
			if _, isNamed := p.named[exprString(x.Fun)]; isNamed || exprString(x.Fun) == "string" {
				return p.evalString(x.Args[0])
			}
		}
	}
	return "", false
}

// defaultOf renders the value of a field in a default literal as a canonical string for its kind.
// Anything not understood becomes "sym:<expr>", which the Lean side treats as non-zero (conservative:
// an omitempty field with such a default must be a named exception).
func (p *pkgInfo) defaultOf(kind string, e ast.Expr) string {
	if e == nil {
		return zeroOf(kind)
	}
	switch kind {
	case "bool":
		if id, ok := e.(*ast.Ident); ok && (id.Name == "true" || id.Name == "false") {
			return id.Name
		}
	case "int", "duration":
		if n, ok := p.evalInt(e); ok {
			return n.String()
		}
	case "float":
		if n, ok := p.evalInt(e); ok {
			return n.String()
		}
		if bl, ok := e.(*ast.BasicLit); ok {
			return bl.Value
		}
	case "string":
		if s, ok := p.evalString(e); ok {
			return s
		}
	case "other":
		if id, ok := e.(*ast.Ident); ok && id.Name == "nil" {
			return "zero"
		}
		if cl := p.literalOf(e); cl != nil && len(cl.Elts) == 0 {
			return "zero"
		}
	}
	return "sym:" + exprString(e)
}

func zeroOf(kind string) string {
	switch kind {
	case "bool":
		return "false"
	case "int", "duration", "float":
		return "0"
	case "string":
		return ""
	}
	return "zero"
}

func litFields(cl *ast.CompositeLit) map[string]ast.Expr {
	m := map[string]ast.Expr{}
	if cl == nil {
		return m
	}
	for _, el := range cl.Elts {
		kv, ok := el.(*ast.KeyValueExpr)
		if !ok {
			die("positional composite literal in a default (%s): not understood", exprString(cl.Type))
		}
		k, ok := kv.Key.(*ast.Ident)
		if !ok {
			die("non-identifier key in default literal")
		}
		m[k.Name] = kv.Value
	}
	return m
}

func yamlTag(f *ast.Field) (name string, omit, inline, skip, has bool) {
	if f.Tag == nil {
		return "", false, false, false, false
	}
	raw, _ := strconv.Unquote(f.Tag.Value)
	y, ok := reflect.StructTag(raw).Lookup("yaml")
	if !ok {
		return "", false, false, false, false
	}
	parts := strings.Split(y, ",")
	if parts[0] == "-" {
		return "", false, false, true, true
	}
	for _, o := range parts[1:] {
		switch o {
		case "omitempty":
			omit = true
		case "inline":
			inline = true
		}
	}
	return parts[0], omit, inline, false, true
}

func lq(s string) string {
	var b strings.Builder
	b.WriteByte('"')
	for _, r := range s {
		switch {
		case r == '"' || r == '\\':
			b.WriteByte('\\')
			b.WriteRune(r)
		case r < 0x20 || r > 0x7e:
			fmt.Fprintf(&b, "\\u{%x}", r)
		default:
			b.WriteRune(r)
		}
	}
	b.WriteByte('"')
	return b.String()
}

func main() {
	repo := os.Getenv("VERIF_REPO")
	if repo == "" {
		repo = "/repo"
	}
	flag.StringVar(&repo, "repo", repo, "prometheus checkout")
	out := flag.String("o", "", "output file (default: stdout)")
	flag.Parse()

	var all []field
	for _, rel := range []string{"config/config.go", "model/relabel/relabel.go"} {
		p := load(filepath.Join(repo, rel))
		for sn, pe := range p.presets {
			// `*re = r` with a local r is not a default preset
			if id, ok := pe.(*ast.Ident); ok {
				if _, pkgLevel := p.values[id.Name]; !pkgLevel {
					delete(p.presets, sn)
				}
			}
		}
		prefix := ""
		if rel != "config/config.go" {
			prefix = "relabel."
		}
		// presets inherited through a parent's literal, for struct types without their own UnmarshalYAML
		type inh struct {
			lit  *ast.CompositeLit
			from string
		}
		inherited := map[string][]inh{}
		for _, sn := range p.order {
			pe, ok := p.presets[sn]
			if !ok {
				continue
			}
			cl := p.literalOf(pe)
			if cl == nil {
				die("%s.UnmarshalYAML presets %s, which is not a composite literal of this file", sn, exprString(pe))
			}
			vals := litFields(cl)
			for _, f := range p.structs[sn].Fields.List {
				tn, ok := f.Type.(*ast.Ident)
				if !ok {
					continue
				}
				if _, isStruct := p.structs[tn.Name]; !isStruct || p.hasUnmars[tn.Name] {
					continue
				}
				for _, n := range f.Names {
					if v, ok := vals[n.Name]; ok {
						sub := p.literalOf(v)
						if sub == nil {
							die("%s: nested default %s.%s = %s is not a literal of this file", rel, sn, n.Name, exprString(v))
						}
						inherited[tn.Name] = append(inherited[tn.Name], inh{sub, exprString(pe) + "." + n.Name})
					}
				}
			}
		}
		for _, sn := range p.order {
			var vals map[string]ast.Expr
			preset := "none"
			if pe, ok := p.presets[sn]; ok {
				vals = litFields(p.literalOf(pe))
				preset = "own:" + exprString(pe)
			} else if hs := inherited[sn]; len(hs) > 0 {
				if len(hs) > 1 {
					for _, h := range hs[1:] {
						if h.lit != hs[0].lit {
							die("%s inherits different defaults through several parents: not understood", sn)
						}
					}
				}
				vals = litFields(hs[0].lit)
				preset = "parent:" + hs[0].from
			} else {
				vals = map[string]ast.Expr{}
			}
			for _, f := range p.structs[sn].Fields.List {
				name, omit, inline, skip, has := yamlTag(f)
				if skip || inline {
					continue
				}
				for _, n := range f.Names {
					if !n.IsExported() {
						continue
					}
					y := name
					if !has || y == "" {
						y = strings.ToLower(n.Name)
					}
					k := p.kindOf(f.Type)
					all = append(all, field{prefix + sn, n.Name, y, k, omit, p.defaultOf(k, vals[n.Name]), preset})
				}
			}
		}
	}
	if len(all) < 50 {
		die("only %d fields found: the config types have moved; the tie is broken", len(all))
	}

	var b strings.Builder
	b.WriteString("-- REGENERATED by tools/cfgfields from <repo>/config/config.go and <repo>/model/relabel/relabel.go on every\n")
	b.WriteString("-- ./check C49 run — do not edit. Tracked so that the workspace builds before the first regeneration; on the\n")
	b.WriteString("-- unchanged tree the regeneration rewrites it identically.\n")
	b.WriteString("import PromModel.Config.FieldKinds\n\nnamespace Prom.Config.Gen\nopen Prom.Config\n\n")
	b.WriteString("def fields : List Field := [\n")
	for i, f := range all {
		sep := ","
		if i == len(all)-1 {
			sep = ""
		}
		fmt.Fprintf(&b, "  ⟨%s, %s, %s, .%s, %v, %s, %s⟩%s\n", lq(f.Struct), lq(f.Name), lq(f.Yaml), kindCtor(f.Kind), f.Omit, lq(f.Default), lq(f.Preset), sep)
	}
	b.WriteString("]\n\nend Prom.Config.Gen\n")
	if *out == "" {
		fmt.Print(b.String())
		return
	}
	if old, err := os.ReadFile(*out); err == nil && string(old) == b.String() {
		return // unchanged: keep the mtime so lake does not rebuild
	}
	if err := os.MkdirAll(filepath.Dir(*out), 0o755); err != nil {
		die("%v", err)
	}
	if err := os.WriteFile(*out, []byte(b.String()), 0o644); err != nil {
		die("%v", err)
	}
}

func kindCtor(k string) string {
	switch k {
	case "bool":
		return "bool"
	case "int":
		return "int"
	case "duration":
		return "duration"
	case "string":
		return "string"
	case "float":
		return "float"
	}
	return "other"
}
