#!/bin/bash
# tools/merge_prop.sh Cxx : merge branch prop/Cxx into main (new files only expected), regenerate, run the check.
set -e
id=$1
cd /verif
git merge --no-edit -q prop/$id || { echo "merge conflict"; exit 1; }
python3 tools/gen.py
./check $id
